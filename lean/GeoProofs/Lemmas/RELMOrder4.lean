/-
  RELM — `compute_edge_intersections` (the mutual phase) does not depend on the order in which
  the pairs (segment of A, segment of B) are visited, in exact arithmetic: the edges end up with
  the canonical list of the improper intersections found, `is_isolated` is cleared on exactly the
  edges that met something, and the two flags are disjunctions over the pairs.
-/
import GeoProofs.Lemmas.RELMOrder3

namespace Geo.Proofs.RELM
open Geo Geo.GG Geo.RI Geo.Proofs.Kernel

/-! ### events on one edge list: clear `is_isolated`, insert a record -/

inductive MEv where
  | uniso (i : Nat)
  | ins (i : Nat) (r : EI)
  deriving DecidableEq

def MEv.apply (es : List REdge) : MEv → List REdge
  | .uniso i => updAt es i REdge.unisolate
  | .ins i r => updAt es i (fun e => { e with eis := eiInsert r e.eis })

def applyM (es : List REdge) (evs : List MEv) : List REdge := evs.foldl MEv.apply es

def mrecsFor (i : Nat) : List MEv → List EI
  | [] => []
  | .uniso _ :: evs => mrecsFor i evs
  | .ins j r :: evs => if j = i then r :: mrecsFor i evs else mrecsFor i evs

def unisoIn (i : Nat) (evs : List MEv) : Bool := evs.any (fun ev => ev == .uniso i)

theorem mem_mrecsFor (i : Nat) (r : EI) : ∀ evs : List MEv, r ∈ mrecsFor i evs ↔ MEv.ins i r ∈ evs
  | [] => by simp [mrecsFor]
  | .uniso j :: evs => by simp [mrecsFor, mem_mrecsFor i r evs]
  | .ins j r' :: evs => by
      simp only [mrecsFor]
      split
      · rename_i h; subst h
        simp only [List.mem_cons, mem_mrecsFor j r evs, MEv.ins.injEq, true_and]
      · rename_i h
        simp only [List.mem_cons, mem_mrecsFor i r evs, MEv.ins.injEq]
        constructor
        · exact Or.inr
        · rintro (⟨h', _⟩ | h')
          · exact absurd h'.symm h
          · exact h'

theorem getElem?_applyM : ∀ (evs : List MEv) (es : List REdge) (i : Nat),
    (applyM es evs)[i]? = (es[i]?).map (fun e =>
      { e with isolated := e.isolated && !unisoIn i evs, eis := insertAll (mrecsFor i evs) e.eis })
  | [], es, i => by
      simp only [applyM, List.foldl_nil, unisoIn, List.any_nil, Bool.not_false, Bool.and_true, mrecsFor, insertAll]
      cases es[i]? <;> rfl
  | ev :: evs, es, i => by
      show (applyM (ev.apply es) evs)[i]? = _
      rw [getElem?_applyM evs (ev.apply es) i]
      cases ev with
      | uniso j =>
        simp only [MEv.apply, getElem?_updAt, mrecsFor, unisoIn, List.any_cons]
        by_cases h : i = j
        · subst h
          cases es[i]? with
          | none => simp
          | some e => simp [REdge.unisolate]
        · have : (MEv.uniso j == MEv.uniso i) = false := by
            simp only [beq_eq_false_iff_ne, ne_eq, MEv.uniso.injEq]; exact Ne.symm h
          simp only [if_neg h, this, Bool.false_or]
      | ins j r =>
        simp only [MEv.apply, getElem?_updAt, mrecsFor, unisoIn, List.any_cons]
        have hb : (MEv.ins j r == MEv.uniso i) = false := by
          simp only [beq_eq_false_iff_ne, ne_eq]; exact fun h => by cases h
        by_cases h : i = j
        · subst h
          cases es[i]? with
          | none => simp
          | some e => simp [hb, insertAll]
        · simp only [if_neg h, if_neg (Ne.symm h), hb, Bool.false_or]

/-- **the result depends only on the set of events** -/
theorem applyM_congr {es : List REdge} (hs : ∀ e ∈ es, SortedEI e.eis)
    (hv : ∀ e ∈ es, ∀ r ∈ e.eis, ValidRec e.coords r) {evs evs' : List MEv}
    (hval : ∀ i r, MEv.ins i r ∈ evs → ∃ e, es[i]? = some e ∧ ValidRec e.coords r)
    (h : ∀ ev, ev ∈ evs ↔ ev ∈ evs') : applyM es evs = applyM es evs' := by
  apply List.ext_getElem?
  intro i
  rw [getElem?_applyM, getElem?_applyM]
  cases he : es[i]? with
  | none => rfl
  | some e =>
    simp only [Option.map_some, Option.some.injEq]
    have hmem : e ∈ es := List.mem_of_getElem? he
    have hu : unisoIn i evs = unisoIn i evs' := by
      unfold unisoIn
      rw [Bool.eq_iff_iff]
      simp only [List.any_eq_true, beq_iff_eq]
      constructor
      · rintro ⟨x, hx, rfl⟩; exact ⟨_, (h _).1 hx, rfl⟩
      · rintro ⟨x, hx, rfl⟩; exact ⟨_, (h _).2 hx, rfl⟩
    have hrec : ∀ x, x ∈ mrecsFor i evs ↔ x ∈ mrecsFor i evs' := by
      intro x; rw [mem_mrecsFor, mem_mrecsFor, h]
    have hi : insertAll (mrecsFor i evs) e.eis = insertAll (mrecsFor i evs') e.eis := by
      apply insertAll_congr (hs e hmem) hrec
      apply compat_of_valid (cs := e.coords)
      intro r hr
      simp only [List.mem_append] at hr
      rcases hr with hr | hr
      · exact hv e hmem r hr
      · obtain ⟨e', he', hv'⟩ := hval i r ((mem_mrecsFor i r evs).1 hr)
        rw [he] at he'; cases he'; exact hv'
    rw [hu, hi]

theorem applyM_append (es : List REdge) (a b : List MEv) : applyM es (a ++ b) = applyM (applyM es a) b := by
  unfold applyM; rw [List.foldl_append]

theorem sameShape_applyM (es : List REdge) (evs : List MEv) : SameShape es (applyM es evs) := by
  intro i
  rw [getElem?_applyM]
  cases es[i]? <;> rfl

/-! ### one visit of a pair -/

/-- events on A's edges / on B's edges for the pair `(s0, s1)` -/
def mEventsA (s0 s1 : Seg) : List MEv :=
  match lineIntersection s0.p s0.q s1.p s1.q with
  | none => []
  | some li => .uniso s0.edge :: (if LI.isProper li then [] else (liRecs s0 li).map (fun r => MEv.ins s0.edge r))

def mEventsB (s0 s1 : Seg) : List MEv :=
  match lineIntersection s0.p s0.q s1.p s1.q with
  | none => []
  | some li => .uniso s1.edge :: (if LI.isProper li then [] else (liRecs s1 li).map (fun r => MEv.ins s1.edge r))

/-- the pair is a proper crossing -/
def pairProper (s0 s1 : Seg) : Bool :=
  match lineIntersection s0.p s0.q s1.p s1.q with
  | some (.single _ true) => true
  | _ => false

/-- … at a point that is not a boundary node -/
def pairProperInterior (bnodes : List Pt) (s0 s1 : Seg) : Bool :=
  match lineIntersection s0.p s0.q s1.p s1.q with
  | some (.single pt true) => !(bnodes.any (· == pt))
  | _ => false

theorem updAt_insertAllM (es : List REdge) (i : Nat) (rs : List EI) :
    updAt es i (fun e => { e with eis := insertAll rs e.eis }) = applyM es (rs.map (fun r => MEv.ins i r)) := by
  induction rs generalizing es with
  | nil =>
    simp only [insertAll, List.foldl_nil, List.map_nil, applyM]
    apply List.ext_getElem?
    intro j
    rw [getElem?_updAt]
    split
    · cases es[j]? <;> rfl
    · rfl
  | cons r rs ih =>
    simp only [List.map_cons]
    show _ = applyM (MEv.apply es (.ins i r)) (rs.map (fun r => MEv.ins i r))
    rw [← ih]
    simp only [MEv.apply]
    apply List.ext_getElem?
    intro j
    simp only [getElem?_updAt]
    split
    · cases es[j]? <;> simp [insertAll]
    · rfl

theorem mutualAdd_eq {bnodes : List Pt} {m : Mutual} {s0 s1 : Seg} (h0 : SegIn m.ea s0) (h1 : SegIn m.eb s1) :
    mutualAdd Arith.exact bnodes m s0 s1 =
      ⟨applyM m.ea (mEventsA s0 s1), applyM m.eb (mEventsB s0 s1), m.hasProper || pairProper s0 s1,
        m.hasProperInterior || pairProperInterior bnodes s0 s1⟩ := by
  unfold mutualAdd mEventsA mEventsB pairProper pairProperInterior
  rw [lineIntersectionWith_exact]
  cases hli : lineIntersection s0.p s0.q s1.p s1.q with
  | none => simp [applyM]
  | some li =>
    simp only
    -- the two updates of the edge lists
    have hA : (if !LI.isProper li then
          updAt (updAt m.ea s0.edge REdge.unisolate) s0.edge (fun e => e.addIntersections Arith.exact li s0.p s0.q s0.idx)
        else updAt m.ea s0.edge REdge.unisolate) =
        applyM m.ea (.uniso s0.edge :: (if LI.isProper li then [] else (liRecs s0 li).map (fun r => MEv.ins s0.edge r))) := by
      show _ = applyM (updAt m.ea s0.edge REdge.unisolate) _
      cases LI.isProper li with
      | true => simp [applyM]
      | false =>
        simp only [Bool.not_false, if_true, Bool.false_eq_true, if_false]
        rw [← updAt_insertAllM]
        apply updAt_congr
        intro x hx
        have hsh : SegIn (updAt m.ea s0.edge REdge.unisolate) s0 := by
          apply h0.of_shape
          intro i
          rw [getElem?_updAt]
          split
          · cases m.ea[i]? <;> rfl
          · rfl
        obtain ⟨e, he, hs⟩ := hsh
        rw [he] at hx; cases hx
        exact addIntersections_eq hs li
    have hB : (if !LI.isProper li then
          updAt (updAt m.eb s1.edge REdge.unisolate) s1.edge (fun e => e.addIntersections Arith.exact li s1.p s1.q s1.idx)
        else updAt m.eb s1.edge REdge.unisolate) =
        applyM m.eb (.uniso s1.edge :: (if LI.isProper li then [] else (liRecs s1 li).map (fun r => MEv.ins s1.edge r))) := by
      show _ = applyM (updAt m.eb s1.edge REdge.unisolate) _
      cases LI.isProper li with
      | true => simp [applyM]
      | false =>
        simp only [Bool.not_false, if_true, Bool.false_eq_true, if_false]
        rw [← updAt_insertAllM]
        apply updAt_congr
        intro x hx
        have hsh : SegIn (updAt m.eb s1.edge REdge.unisolate) s1 := by
          apply h1.of_shape
          intro i
          rw [getElem?_updAt]
          split
          · cases m.eb[i]? <;> rfl
          · rfl
        obtain ⟨e, he, hs⟩ := hsh
        rw [he] at hx; cases hx
        exact addIntersections_eq hs li
    rw [← hA, ← hB]
    cases li with
    | collinear x y => simp [LI.isProper]
    | single pt f =>
      cases f <;> simp [LI.isProper]

/-- visiting a list of pairs, one after the other -/
def mutualFold (bnodes : List Pt) (m : Mutual) (ps : List (Seg × Seg)) : Mutual :=
  ps.foldl (fun m pr => mutualAdd Arith.exact bnodes m pr.1 pr.2) m

theorem mutualFold_eq (bnodes : List Pt) : ∀ (ps : List (Seg × Seg)) (m : Mutual),
    (∀ pr ∈ ps, SegIn m.ea pr.1 ∧ SegIn m.eb pr.2) →
    mutualFold bnodes m ps =
      ⟨applyM m.ea (ps.flatMap (fun pr => mEventsA pr.1 pr.2)),
       applyM m.eb (ps.flatMap (fun pr => mEventsB pr.1 pr.2)),
       m.hasProper || ps.any (fun pr => pairProper pr.1 pr.2),
       m.hasProperInterior || ps.any (fun pr => pairProperInterior bnodes pr.1 pr.2)⟩
  | [], m, _ => by simp [mutualFold, applyM]
  | pr :: ps, m, hseg => by
      have hpr := hseg pr (List.mem_cons_self ..)
      show mutualFold bnodes (mutualAdd Arith.exact bnodes m pr.1 pr.2) ps = _
      rw [mutualAdd_eq hpr.1 hpr.2, mutualFold_eq bnodes ps]
      · simp only [List.flatMap_cons, applyM_append, List.any_cons, Bool.or_assoc]
      · intro x hx
        have := hseg x (List.mem_cons_of_mem _ hx)
        exact ⟨this.1.of_shape (sameShape_applyM _ _), this.2.of_shape (sameShape_applyM _ _)⟩

/-! ### the loops of the model as a fold over the product -/

def mutualPairs (sb : List Seg) (sa : List Seg) : List (Seg × Seg) :=
  sa.flatMap (fun s0 => sb.map (fun s1 => (s0, s1)))

theorem mutualRow_eq_fold (bnodes : List Pt) (s0 : Seg) : ∀ (l : List Seg) (m : Mutual),
    mutualRow Arith.exact bnodes s0 l m = mutualFold bnodes m (l.map (fun s1 => (s0, s1)))
  | [], _ => rfl
  | s1 :: rest, m => by
      simp only [mutualRow, List.map_cons]
      rw [mutualRow_eq_fold bnodes s0 rest]; rfl

theorem mutualFold_append (bnodes : List Pt) (m : Mutual) (a b : List (Seg × Seg)) :
    mutualFold bnodes m (a ++ b) = mutualFold bnodes (mutualFold bnodes m a) b := by
  unfold mutualFold; rw [List.foldl_append]

theorem mutualRows_eq_fold (bnodes : List Pt) (sb : List Seg) : ∀ (l : List Seg) (m : Mutual),
    mutualRows Arith.exact bnodes sb l m = mutualFold bnodes m (mutualPairs sb l)
  | [], _ => rfl
  | s0 :: rest, m => by
      simp only [mutualRows, mutualPairs, List.flatMap_cons]
      rw [mutualRows_eq_fold bnodes sb rest, mutualRow_eq_fold, mutualFold_append]
      rfl

/-! ### the theorem -/

theorem mEventsA_nil_of_envelopes {s0 s1 : Seg} (h : pairEnvelopesMeet (s0, s1) = false) :
    mEventsA s0 s1 = [] ∧ mEventsB s0 s1 = [] ∧ pairProper s0 s1 = false ∧
      ∀ bn, pairProperInterior bn s0 s1 = false := by
  have : lineIntersection s0.p s0.q s1.p s1.q = none := by
    by_contra hne
    have := Geo.Proofs.C17.candidates_complete (s0.p, s0.q) (s1.p, s1.q) hne
    unfold pairEnvelopesMeet at h
    rw [h] at this; cases this
  unfold mEventsA mEventsB pairProper pairProperInterior
  rw [this]
  exact ⟨rfl, rfl, rfl, fun _ => rfl⟩

theorem mEvents_valid {ea eb : List REdge} {s0 s1 : Seg} (h0 : SegIn ea s0) (h1 : SegIn eb s1) :
    (∀ i r, MEv.ins i r ∈ mEventsA s0 s1 → ∃ e, ea[i]? = some e ∧ ValidRec e.coords r) ∧
    (∀ i r, MEv.ins i r ∈ mEventsB s0 s1 → ∃ e, eb[i]? = some e ∧ ValidRec e.coords r) := by
  obtain ⟨e0, he0, hs0⟩ := h0
  obtain ⟨e1, he1, hs1⟩ := h1
  unfold mEventsA mEventsB
  cases hli : lineIntersection s0.p s0.q s1.p s1.q with
  | none => exact ⟨fun _ _ h => (by cases h), fun _ _ h => (by cases h)⟩
  | some li =>
    simp only
    constructor
    · intro i r h
      simp only [List.mem_cons, reduceCtorEq, false_or] at h
      split at h
      · cases h
      · simp only [List.mem_map, MEv.ins.injEq] at h
        obtain ⟨r', hr', rfl, rfl⟩ := h
        exact ⟨e0, he0, liRecs_valid hs0 (Or.inl hli) _ hr'⟩
    · intro i r h
      simp only [List.mem_cons, reduceCtorEq, false_or] at h
      split at h
      · cases h
      · simp only [List.mem_map, MEv.ins.injEq] at h
        obtain ⟨r', hr', rfl, rfl⟩ := h
        exact ⟨e1, he1, liRecs_valid hs1 (Or.inr hli) _ hr'⟩

/-- **The mutual phase is independent of the visiting order.** Let `cand` be any list of pairs
(segment of A, segment of B) containing at least every pair whose envelopes intersect, in any order
and with any repetitions. Visiting `cand` leaves the edges of both graphs, `has_proper_intersection`
and `has_proper_interior_intersection` exactly as the all-pairs loop of the model does. Requires the
edges to start with sorted lists of valid records (true after self-noding: `selfNoded_wf`). -/
theorem mutual_order_independent (bnodes : List Pt) (ea eb : List REdge)
    (hsa : ∀ e ∈ ea, SortedEI e.eis) (hva : ∀ e ∈ ea, ∀ r ∈ e.eis, ValidRec e.coords r)
    (hsb : ∀ e ∈ eb, SortedEI e.eis) (hvb : ∀ e ∈ eb, ∀ r ∈ e.eis, ValidRec e.coords r)
    (cand : List (Seg × Seg))
    (hsub : ∀ pr ∈ cand, pr ∈ mutualPairs (allSegs eb) (allSegs ea))
    (hsup : ∀ pr ∈ mutualPairs (allSegs eb) (allSegs ea), pairEnvelopesMeet pr = true → pr ∈ cand) :
    mutualFold bnodes ⟨ea, eb, false, false⟩ cand =
      mutualRows Arith.exact bnodes (allSegs eb) (allSegs ea) ⟨ea, eb, false, false⟩ := by
  have hseg : ∀ pr ∈ mutualPairs (allSegs eb) (allSegs ea), SegIn ea pr.1 ∧ SegIn eb pr.2 := by
    intro pr hpr
    simp only [mutualPairs, List.mem_flatMap, List.mem_map] at hpr
    obtain ⟨s0, hs0, s1, hs1, rfl⟩ := hpr
    exact ⟨allSegs_segIn ea s0 hs0, allSegs_segIn eb s1 hs1⟩
  rw [mutualRows_eq_fold, mutualFold_eq bnodes _ _ (fun pr hpr => hseg pr (hsub pr hpr)), mutualFold_eq bnodes _ _ hseg]
  have hmemA : ∀ ev, ev ∈ cand.flatMap (fun pr => mEventsA pr.1 pr.2) ↔
      ev ∈ (mutualPairs (allSegs eb) (allSegs ea)).flatMap (fun pr => mEventsA pr.1 pr.2) := by
    intro ev
    simp only [List.mem_flatMap]
    constructor
    · rintro ⟨pr, hpr, hev⟩; exact ⟨pr, hsub pr hpr, hev⟩
    · rintro ⟨pr, hpr, hev⟩
      refine ⟨pr, hsup pr hpr ?_, hev⟩
      by_contra hne
      have hf : pairEnvelopesMeet (pr.1, pr.2) = false := by simpa using hne
      rw [(mEventsA_nil_of_envelopes hf).1] at hev; cases hev
  have hmemB : ∀ ev, ev ∈ cand.flatMap (fun pr => mEventsB pr.1 pr.2) ↔
      ev ∈ (mutualPairs (allSegs eb) (allSegs ea)).flatMap (fun pr => mEventsB pr.1 pr.2) := by
    intro ev
    simp only [List.mem_flatMap]
    constructor
    · rintro ⟨pr, hpr, hev⟩; exact ⟨pr, hsub pr hpr, hev⟩
    · rintro ⟨pr, hpr, hev⟩
      refine ⟨pr, hsup pr hpr ?_, hev⟩
      by_contra hne
      have hf : pairEnvelopesMeet (pr.1, pr.2) = false := by simpa using hne
      rw [(mEventsA_nil_of_envelopes hf).2.1] at hev; cases hev
  have hany : ∀ (f : Seg → Seg → Bool), (∀ s0 s1, pairEnvelopesMeet (s0, s1) = false → f s0 s1 = false) →
      cand.any (fun pr => f pr.1 pr.2) = (mutualPairs (allSegs eb) (allSegs ea)).any (fun pr => f pr.1 pr.2) := by
    intro f hf
    rw [Bool.eq_iff_iff]
    simp only [List.any_eq_true]
    constructor
    · rintro ⟨pr, hpr, h⟩; exact ⟨pr, hsub pr hpr, h⟩
    · rintro ⟨pr, hpr, h⟩
      refine ⟨pr, hsup pr hpr ?_, h⟩
      by_contra hne
      have hf' : pairEnvelopesMeet (pr.1, pr.2) = false := by simpa using hne
      rw [hf _ _ hf'] at h; cases h
  have hEa : applyM ea (cand.flatMap (fun pr => mEventsA pr.1 pr.2)) =
      applyM ea ((mutualPairs (allSegs eb) (allSegs ea)).flatMap (fun pr => mEventsA pr.1 pr.2)) := by
    apply applyM_congr hsa hva _ hmemA
    intro i r hir
    simp only [List.mem_flatMap] at hir
    obtain ⟨pr, hpr, hev⟩ := hir
    have := hseg pr (hsub pr hpr)
    exact (mEvents_valid this.1 this.2).1 i r hev
  have hEb : applyM eb (cand.flatMap (fun pr => mEventsB pr.1 pr.2)) =
      applyM eb ((mutualPairs (allSegs eb) (allSegs ea)).flatMap (fun pr => mEventsB pr.1 pr.2)) := by
    apply applyM_congr hsb hvb _ hmemB
    intro i r hir
    simp only [List.mem_flatMap] at hir
    obtain ⟨pr, hpr, hev⟩ := hir
    have := hseg pr (hsub pr hpr)
    exact (mEvents_valid this.1 this.2).2 i r hev
  rw [hEa, hEb, hany pairProper (fun s0 s1 h => (mEventsA_nil_of_envelopes h).2.2.1),
    hany (pairProperInterior bnodes) (fun s0 s1 h => (mEventsA_nil_of_envelopes h).2.2.2 bnodes)]

end Geo.Proofs.RELM
