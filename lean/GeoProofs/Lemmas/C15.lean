/-
  Helper lemmas for C15 (lists of segments, the walk, arc-length positions).
-/
import GeoModel.Interp
import Mathlib.Tactic.Linarith
import Mathlib.Tactic.Ring
import Mathlib.Tactic.FieldSimp

namespace Geo.Proofs.C15
open Geo Geo.Interp

/-- What the theorems need of the segment-length function (all true of the Euclidean length). -/
structure LenAx (len : Len) : Prop where
  nonneg : ∀ a b, 0 ≤ len a b
  symm : ∀ a b, len a b = len b a
  eq_of_zero : ∀ a b, len a b = 0 → a = b
  self_zero : ∀ a, len a a = 0

theorem Pt.ext' {p q : Pt} (hx : p.x = q.x) (hy : p.y = q.y) : p = q := by
  cases p; cases q; simp_all

/-! ### segment lists -/

theorem segs_snoc2 (l : List Pt) (x y : Pt) : segs (l ++ [x, y]) = segs (l ++ [x]) ++ [(x, y)] := by
  induction l with
  | nil => rfl
  | cons c l ih =>
    cases l with
    | nil => rfl
    | cons d l' =>
      simp only [List.cons_append, segs] at ih ⊢
      rw [ih]

def flipRev (ss : List (Pt × Pt)) : List (Pt × Pt) := ss.reverse.map (fun s => (s.2, s.1))

theorem flipRev_cons (s : Pt × Pt) (ss : List (Pt × Pt)) :
    flipRev (s :: ss) = flipRev ss ++ [(s.2, s.1)] := by
  simp [flipRev]

theorem revSegs_eq_flipRev (cs : List Pt) : revSegs cs = flipRev (segs cs) := rfl

theorem segs_reverse : ∀ cs : List Pt, segs cs.reverse = flipRev (segs cs)
  | [] => rfl
  | [_] => rfl
  | a :: b :: rest => by
    have ih := segs_reverse (b :: rest)
    have h1 : (a :: b :: rest).reverse = rest.reverse ++ [b, a] := by simp
    have h2 : (b :: rest).reverse = rest.reverse ++ [b] := by simp
    rw [h1, segs_snoc2, ← h2, ih]
    simp [segs, flipRev]

theorem sumLen_append (len : Len) (xs ys : List (Pt × Pt)) :
    sumLen len (xs ++ ys) = sumLen len xs + sumLen len ys := by
  induction xs with
  | nil => simp [sumLen]
  | cons s xs ih => simp only [List.cons_append, sumLen, ih]; ring

theorem sumLen_nonneg {len : Len} (h : LenAx len) (ss : List (Pt × Pt)) : 0 ≤ sumLen len ss := by
  induction ss with
  | nil => simp [sumLen]
  | cons s ss ih => simp only [sumLen]; have := h.nonneg s.1 s.2; linarith

theorem sumLen_flipRev {len : Len} (h : LenAx len) (ss : List (Pt × Pt)) :
    sumLen len (flipRev ss) = sumLen len ss := by
  induction ss with
  | nil => rfl
  | cons s ss ih =>
    rw [flipRev_cons, sumLen_append, ih]
    simp only [sumLen]
    rw [h.symm s.2 s.1]; ring

/-! ### the walk -/

theorem walk_some {len : Len} : ∀ (ss : List (Pt × Pt)) (d : Rat) {a b : Pt} {r : Rat}, 0 < d →
    walk len ss d = some (a, b, r) →
    ∃ pre post, ss = pre ++ (a, b) :: post ∧ r = d - sumLen len pre ∧ 0 < r ∧ r ≤ len a b
  | [], _, _, _, _, _, h => by simp [walk] at h
  | (a', b') :: rest, d, a, b, r, hd, h => by
    simp only [walk] at h
    by_cases hlt : len a' b' < d
    · rw [if_pos hlt] at h
      obtain ⟨pre, post, e, hr, hpos, hle⟩ := walk_some rest (d - len a' b') (by linarith) h
      refine ⟨(a', b') :: pre, post, by simp [e], ?_, hpos, hle⟩
      simp only [sumLen]; rw [hr]; ring
    · rw [if_neg hlt] at h
      simp only [Option.some.injEq, Prod.mk.injEq] at h
      obtain ⟨rfl, rfl, rfl⟩ := h
      exact ⟨[], rest, rfl, by simp [sumLen], hd, not_lt.1 hlt⟩

theorem walk_none {len : Len} : ∀ (ss : List (Pt × Pt)) (d : Rat), 0 < d →
    walk len ss d = none → sumLen len ss < d
  | [], _, hd, _ => by simpa [sumLen] using hd
  | (a', b') :: rest, d, hd, h => by
    simp only [walk] at h
    by_cases hlt : len a' b' < d
    · rw [if_pos hlt] at h
      have := walk_none rest (d - len a' b') (by linarith) h
      simp only [sumLen]; linarith
    · rw [if_neg hlt] at h; simp at h

theorem walk_eq_none {len : Len} (hl : LenAx len) : ∀ (ss : List (Pt × Pt)) (d : Rat),
    sumLen len ss < d → walk len ss d = none
  | [], _, _ => rfl
  | (a', b') :: rest, d, h => by
    simp only [sumLen] at h
    have h0 := sumLen_nonneg hl rest
    have hlt : len a' b' < d := by linarith
    simp only [walk, if_pos hlt]
    exact walk_eq_none hl rest _ (by linarith)

/-! ### arc-length positions on a chain of segments -/

/-- `p` is the point at arc length `d` on the chain `ss` (closed at both ends of each segment). -/
def OnSegs (len : Len) : List (Pt × Pt) → Rat → Pt → Prop
  | [], _, _ => False
  | (a, b) :: rest, d, p =>
    (0 ≤ d ∧ d ≤ len a b ∧ p = pointAtDistanceBetween len a b d) ∨ OnSegs len rest (d - len a b) p

/-- consecutive segments share an endpoint -/
def Chain : List (Pt × Pt) → Prop
  | [] => True
  | [_] => True
  | s₁ :: s₂ :: rest => s₁.2 = s₂.1 ∧ Chain (s₂ :: rest)

theorem chain_segs : ∀ cs : List Pt, Chain (segs cs)
  | [] => trivial
  | [_] => trivial
  | [_, _] => trivial
  | a :: b :: c :: rest => by
    have := chain_segs (b :: c :: rest)
    simp only [segs] at this ⊢
    exact ⟨rfl, this⟩

theorem chain_tail {s : Pt × Pt} {ss : List (Pt × Pt)} (h : Chain (s :: ss)) : Chain ss := by
  cases ss with
  | nil => trivial
  | cons t ts => exact h.2

theorem pdb_zero (len : Len) (a b : Pt) : pointAtDistanceBetween len a b 0 = a := by
  apply Pt.ext' <;> simp [pointAtDistanceBetween]

theorem pdb_full {len : Len} (hl : LenAx len) (a b : Pt) :
    pointAtDistanceBetween len a b (len a b) = b := by
  by_cases h0 : len a b = 0
  · have := hl.eq_of_zero a b h0; subst this
    apply Pt.ext' <;> simp [pointAtDistanceBetween]
  · apply Pt.ext' <;> simp only [pointAtDistanceBetween] <;> field_simp <;> ring

theorem pdb_flip {len : Len} (hl : LenAx len) (a b : Pt) (d : Rat) :
    pointAtDistanceBetween len b a (len a b - d) = pointAtDistanceBetween len a b d := by
  by_cases h0 : len a b = 0
  · have := hl.eq_of_zero a b h0; subst this
    apply Pt.ext' <;> simp [pointAtDistanceBetween]
  · have h1 : len b a ≠ 0 := by rw [← hl.symm a b]; exact h0
    apply Pt.ext' <;> simp only [pointAtDistanceBetween] <;> rw [← hl.symm a b] <;> field_simp <;> ring

theorem onSegs_nonneg {len : Len} (hl : LenAx len) : ∀ (ss : List (Pt × Pt)) (d : Rat) (p : Pt),
    OnSegs len ss d p → 0 ≤ d
  | [], _, _, h => h.elim
  | (a, b) :: rest, d, p, h => by
    rcases h with ⟨h0, _, _⟩ | h
    · exact h0
    · have := onSegs_nonneg hl rest _ p h
      have := hl.nonneg a b
      linarith

theorem onSegs_le {len : Len} (hl : LenAx len) : ∀ (ss : List (Pt × Pt)) (d : Rat) (p : Pt),
    OnSegs len ss d p → d ≤ sumLen len ss
  | [], _, _, h => h.elim
  | (a, b) :: rest, d, p, h => by
    simp only [sumLen]
    rcases h with ⟨_, h1, _⟩ | h
    · have := sumLen_nonneg hl rest; linarith
    · have := onSegs_le hl rest _ p h; linarith

theorem onSegs_zero {len : Len} (hl : LenAx len) : ∀ (ss : List (Pt × Pt)) (a b : Pt) (p : Pt),
    Chain ((a, b) :: ss) → OnSegs len ((a, b) :: ss) 0 p → p = a
  | ss, a, b, p, hc, h => by
    rcases h with ⟨_, _, hp⟩ | h
    · rw [hp, pdb_zero]
    · have hn := onSegs_nonneg hl ss _ p h
      have h0 : len a b = 0 := by have := hl.nonneg a b; linarith
      have hab := hl.eq_of_zero a b h0
      rw [h0] at h
      cases ss with
      | nil => exact h.elim
      | cons t ts =>
        obtain ⟨a', b'⟩ := t
        have := onSegs_zero hl ts a' b' p hc.2 (by simpa using h)
        rw [this, hab]; exact hc.1.symm
termination_by ss => ss.length

theorem onSegs_first_later {len : Len} (hl : LenAx len) (a b : Pt) (rest : List (Pt × Pt)) (d : Rat)
    (p q : Pt) (hc : Chain ((a, b) :: rest))
    (h1 : 0 ≤ d ∧ d ≤ len a b ∧ p = pointAtDistanceBetween len a b d)
    (h2 : OnSegs len rest (d - len a b) q) : p = q := by
  obtain ⟨_, h1, e⟩ := h1
  have hn := onSegs_nonneg hl rest _ q h2
  have hd : d = len a b := by linarith
  rw [hd, pdb_full hl] at e
  rw [hd, sub_self] at h2
  cases rest with
  | nil => exact h2.elim
  | cons t ts =>
    obtain ⟨a', b'⟩ := t
    rw [e, onSegs_zero hl ts a' b' q hc.2 h2]; exact hc.1

/-- [key] a chain passes through exactly one point at each arc length. -/
theorem onSegs_unique {len : Len} (hl : LenAx len) : ∀ (ss : List (Pt × Pt)) (d : Rat) (p q : Pt),
    Chain ss → OnSegs len ss d p → OnSegs len ss d q → p = q
  | [], _, _, _, _, h, _ => h.elim
  | (a, b) :: rest, d, p, q, hc, hp, hq => by
    rcases hp with hp | hp <;> rcases hq with hq | hq
    · rw [hp.2.2, hq.2.2]
    · exact onSegs_first_later hl a b rest d p q hc hp hq
    · exact (onSegs_first_later hl a b rest d q p hc hq hp).symm
    · exact onSegs_unique hl rest _ p q (chain_tail hc) hp hq

theorem onSegs_append {len : Len} : ∀ (xs ys : List (Pt × Pt)) (d : Rat) (p : Pt),
    OnSegs len (xs ++ ys) d p ↔ OnSegs len xs d p ∨ OnSegs len ys (d - sumLen len xs) p
  | [], ys, d, p => by simp [OnSegs, sumLen]
  | (a, b) :: xs, ys, d, p => by
    simp only [List.cons_append, OnSegs, sumLen]
    rw [onSegs_append xs ys (d - len a b) p, or_assoc]
    have : d - len a b - sumLen len xs = d - (len a b + sumLen len xs) := by ring
    rw [this]

/-- reversing the chain maps arc length `d` to `total − d`. -/
theorem onSegs_flipRev {len : Len} (hl : LenAx len) : ∀ (ss : List (Pt × Pt)) (d : Rat) (p : Pt),
    OnSegs len ss d p → OnSegs len (flipRev ss) (sumLen len ss - d) p
  | [], _, _, h => h.elim
  | (a, b) :: rest, d, p, h => by
    rw [flipRev_cons, onSegs_append, sumLen_flipRev hl]
    simp only [sumLen]
    rcases h with ⟨h0, h1, hp⟩ | h
    · right
      left
      refine ⟨by linarith, by rw [← hl.symm a b]; linarith, ?_⟩
      have : len a b + sumLen len rest - d - sumLen len rest = len a b - d := by ring
      rw [this, pdb_flip hl, hp]
    · left
      have := onSegs_flipRev hl rest _ p h
      have e : sumLen len rest - (d - len a b) = len a b + sumLen len rest - d := by ring
      rwa [e] at this

theorem walk_onSegs {len : Len} : ∀ (ss : List (Pt × Pt)) (d : Rat) {a b : Pt} {r : Rat}, 0 < d →
    walk len ss d = some (a, b, r) → OnSegs len ss d (pointAtDistanceBetween len a b r)
  | [], _, _, _, _, _, h => by simp [walk] at h
  | (a', b') :: rest, d, a, b, r, hd, h => by
    simp only [walk] at h
    by_cases hlt : len a' b' < d
    · rw [if_pos hlt] at h
      exact Or.inr (walk_onSegs rest _ (by linarith) h)
    · rw [if_neg hlt] at h
      simp only [Option.some.injEq, Prod.mk.injEq] at h
      obtain ⟨rfl, rfl, rfl⟩ := h
      exact Or.inl ⟨le_of_lt hd, not_lt.1 hlt, rfl⟩

/-! ### densify -/

theorem numSegments_cast {len : Len} (hl : LenAx len) (a b : Pt) (mx : Rat) (hmx : 0 < mx) :
    len a b / mx ≤ (numSegments len a b mx : Rat) ∧ (numSegments len a b mx : Rat) < len a b / mx + 1 := by
  have hq : 0 ≤ len a b / mx := div_nonneg (hl.nonneg a b) (le_of_lt hmx)
  have h1 : len a b / mx ≤ ((Rat.ceil (len a b / mx) : Int) : Rat) := Rat.le_ceil
  have h2 : ((Rat.ceil (len a b / mx) : Int) : Rat) < len a b / mx + 1 := Rat.ceil_lt
  have hc : (0 : Int) ≤ Rat.ceil (len a b / mx) := by
    have : (0 : Rat) ≤ ((Rat.ceil (len a b / mx) : Int) : Rat) := le_trans hq h1
    exact_mod_cast this
  have e : (numSegments len a b mx : Rat) = ((Rat.ceil (len a b / mx) : Int) : Rat) := by
    unfold numSegments
    have := Int.toNat_of_nonneg hc
    exact_mod_cast congrArg (fun z : Int => (z : Rat)) this
  rw [e]; exact ⟨h1, h2⟩

theorem lerp_zero (a b : Pt) : lerp a b 0 = a := by apply Pt.ext' <;> simp [lerp]
theorem lerp_one (a b : Pt) : lerp a b 1 = b := by apply Pt.ext' <;> simp [lerp]

theorem segs_map_range' (f : Nat → Pt) : ∀ (m s : Nat),
    segs ((List.range' s (m + 1)).map f) = (List.range' s m).map (fun k => (f k, f (k + 1)))
  | 0, s => by simp [List.range', segs]
  | m + 1, s => by
    have ih := segs_map_range' f m (s + 1)
    simp only [List.range'_succ, List.map_cons, segs] at ih ⊢
    rw [ih]

theorem segs_join (xs ys : List Pt) (b : Pt) :
    segs (xs ++ b :: ys) = segs (xs ++ [b]) ++ segs (b :: ys) := by
  induction xs with
  | nil => simp [segs]
  | cons x xs ih =>
    cases xs with
    | nil => simp [segs]
    | cons y ys' =>
      simp only [List.cons_append, segs] at ih ⊢
      rw [ih]

theorem sumLen_map_const (len : Len) (c : Rat) (l : List (Pt × Pt)) (h : ∀ s ∈ l, len s.1 s.2 = c) :
    sumLen len l = l.length * c := by
  induction l with
  | nil => simp [sumLen]
  | cons s l ih =>
    simp only [sumLen, List.length_cons]
    rw [h s (by simp), ih (fun t ht => h t (by simp [ht]))]
    push_cast; ring

/-! ### locate -/

theorem segDistSq_nonneg (p a b : Pt) : 0 ≤ segDistSq p a b := by
  unfold segDistSq
  simp only
  split_ifs
  all_goals first
    | exact add_nonneg (mul_self_nonneg _) (mul_self_nonneg _)
    | exact mul_nonneg (mul_self_nonneg _) (add_nonneg (mul_self_nonneg _) (mul_self_nonneg _))

theorem sq_sum_ne_zero' {a b : Pt} (h : a ≠ b) :
    (b.x - a.x) * (b.x - a.x) + (b.y - a.y) * (b.y - a.y) ≠ 0 := by
  intro h0
  apply h
  have hx : b.x - a.x = 0 := by nlinarith [mul_self_nonneg (b.x - a.x), mul_self_nonneg (b.y - a.y)]
  have hy : b.y - a.y = 0 := by nlinarith [mul_self_nonneg (b.x - a.x), mul_self_nonneg (b.y - a.y)]
  apply Pt.ext' <;> linarith

/-- a point of the segment is at distance zero from it -/
theorem segDistSq_on (p a b : Pt) (h : a ≠ b) (t : Rat) (h0 : 0 ≤ t) (h1 : t ≤ 1)
    (hx : p.x = a.x + (b.x - a.x) * t) (hy : p.y = a.y + (b.y - a.y) * t) :
    segDistSq p a b = 0 := by
  have hv := sq_sum_ne_zero' h
  have er : ((p.x - a.x) * (b.x - a.x) + (p.y - a.y) * (b.y - a.y)) /
      ((b.x - a.x) * (b.x - a.x) + (b.y - a.y) * (b.y - a.y)) = t := by
    rw [div_eq_iff hv, hx, hy]; ring
  have es : ((a.y - p.y) * (b.x - a.x) - (a.x - p.x) * (b.y - a.y)) = 0 := by
    rw [hx, hy]; ring
  unfold segDistSq
  simp only [if_neg h]
  rw [er, es]
  by_cases ht0 : t ≤ 0
  · have e0 : t = 0 := le_antisymm ht0 h0
    rw [if_pos ht0, hx, hy, e0]; ring
  · rw [if_neg ht0]
    by_cases ht1 : t ≥ 1
    · have e1 : t = 1 := le_antisymm h1 ht1
      rw [if_pos ht1, hx, hy, e1]; ring
    · rw [if_neg ht1]; simp

theorem segDistSq_lerp (a b : Pt) (h : a ≠ b) (t : Rat) (h0 : 0 ≤ t) (h1 : t ≤ 1) :
    segDistSq (lerp a b t) a b = 0 :=
  segDistSq_on _ a b h t h0 h1 rfl rfl

theorem locateGo_done (len : Len) (p : Pt) : ∀ (post : List (Pt × Pt)) (cum best : Rat),
    locateGo len p post cum (some 0) best = best
  | [], _, _ => rfl
  | (a, b) :: post, cum, best => by
    have : ¬ segDistSq p a b < 0 := not_lt.2 (segDistSq_nonneg p a b)
    simp only [locateGo, this, decide_false]
    exact locateGo_done len p post _ best

theorem locateGo_first_hit (len : Len) (p a b : Pt) (post : List (Pt × Pt)) (hz : segDistSq p a b = 0) :
    ∀ (pre : List (Pt × Pt)) (cum : Rat) (closest : Option Rat) (best : Rat),
      (∀ c, closest = some c → 0 < c) → (∀ s ∈ pre, 0 < segDistSq p s.1 s.2) →
      locateGo len p (pre ++ (a, b) :: post) cum closest best =
        cum + sumLen len pre + lineLocatePoint a b p * len a b
  | [], cum, closest, best, hc, _ => by
    cases closest with
    | none => simp [locateGo, sumLen, hz, locateGo_done]
    | some c =>
      have := hc c rfl
      simp [locateGo, sumLen, hz, this, locateGo_done]
  | (a', b') :: pre, cum, closest, best, hc, hpre => by
    have hpos : 0 < segDistSq p a' b' := hpre (a', b') (by simp)
    have hpre' : ∀ s ∈ pre, 0 < segDistSq p s.1 s.2 := fun s hs => hpre s (by simp [hs])
    have hnew : ∀ c, some (segDistSq p a' b') = some c → 0 < c := by
      intro c hc'; cases hc'; exact hpos
    cases closest with
    | none =>
      simp only [List.cons_append, locateGo, sumLen, if_true]
      rw [locateGo_first_hit len p a b post hz pre _ _ _ hnew hpre']
      ring
    | some c =>
      simp only [List.cons_append, locateGo, sumLen]
      by_cases hlt : segDistSq p a' b' < c
      · simp only [hlt, decide_true, if_true]
        rw [locateGo_first_hit len p a b post hz pre _ _ _ hnew hpre']
        ring
      · simp only [hlt, decide_false, Bool.false_eq_true, if_false]
        rw [locateGo_first_hit len p a b post hz pre _ _ _ hc hpre']
        ring

/-! ### hypothesis predicates used by the property theorems -/

/-- homogeneity of the length along a segment: the sub-segment between parameters `s ≤ t` has
length `(t − s) · len a b` (true of the Euclidean length; "collinear pieces add up"). -/
def LenLerp (len : Len) : Prop :=
  ∀ (a b : Pt) (s t : Rat), s ≤ t → len (lerp a b s) (lerp a b t) = (t - s) * len a b

/-- The simplicity hypothesis of the LineString round trip, in the form the locate loop needs it:
the point is at positive distance from every segment that *ends before* the segment on which
arc length `d` falls. (A simple line string satisfies it for all its points; a line that passes
through the point earlier does not — and then `line_locate_point` reports the earlier passage.) -/
def EarlierApart (len : Len) (cs : List Pt) (d : Rat) (p : Pt) : Prop :=
  ∀ pre a b post, segs cs = pre ++ (a, b) :: post → sumLen len pre < d → d ≤ sumLen len pre + len a b →
    ∀ s ∈ pre, 0 < segDistSq p s.1 s.2

/-! ### a concrete length satisfying every hypothesis (non-vacuity) -/

/-- taxicab length: rational-valued, satisfies `LenAx` and homogeneity along a segment. (The
Euclidean length satisfies the same laws; it is rational only on axis-aligned / Pythagorean
segments, which is where the driver evaluates it exactly.) -/
def l1 : Len := fun a b => |a.x - b.x| + |a.y - b.y|

theorem l1_ax : LenAx l1 where
  nonneg a b := add_nonneg (abs_nonneg _) (abs_nonneg _)
  symm a b := by unfold l1; rw [abs_sub_comm a.x, abs_sub_comm a.y]
  self_zero a := by simp [l1]
  eq_of_zero a b h := by
    unfold l1 at h
    have h1 := abs_nonneg (a.x - b.x)
    have h2 := abs_nonneg (a.y - b.y)
    have e1 : |a.x - b.x| = 0 := by linarith
    have e2 : |a.y - b.y| = 0 := by linarith
    exact Pt.ext' (by linarith [abs_eq_zero.1 e1]) (by linarith [abs_eq_zero.1 e2])

private theorem abs_mul_nonneg' (c x : Rat) (hc : 0 ≤ c) : |c * x| = c * |x| := by
  rcases le_total 0 x with hx | hx
  · rw [abs_of_nonneg hx, abs_of_nonneg (mul_nonneg hc hx)]
  · rw [abs_of_nonpos hx, abs_of_nonpos (mul_nonpos_of_nonneg_of_nonpos hc hx)]; ring

theorem l1_lerp (a b : Pt) (s t : Rat) (h : s ≤ t) :
    l1 (lerp a b s) (lerp a b t) = (t - s) * l1 a b := by
  unfold l1 lerp
  simp only
  have e1 : a.x + (b.x - a.x) * s - (a.x + (b.x - a.x) * t) = (t - s) * (a.x - b.x) := by ring
  have e2 : a.y + (b.y - a.y) * s - (a.y + (b.y - a.y) * t) = (t - s) * (a.y - b.y) := by ring
  rw [e1, e2, abs_mul_nonneg' _ _ (by linarith), abs_mul_nonneg' _ _ (by linarith)]
  ring

end Geo.Proofs.C15
