/-
  Helper lemmas for C15 (lists of segments, the walk, arc-length positions).
-/
import GeoModel.Interp
import Mathlib.Tactic.Linarith
import Mathlib.Tactic.Ring
import Mathlib.Tactic.FieldSimp

namespace Geo.Proofs.C15
open Geo Geo.Interp

/-- What the theorems need of the segment-length function (all true of the Euclidean length). -/
structure LenAx (len : Len) : Prop where
  nonneg : ∀ a b, 0 ≤ len a b
  symm : ∀ a b, len a b = len b a
  eq_of_zero : ∀ a b, len a b = 0 → a = b

theorem Pt.ext' {p q : Pt} (hx : p.x = q.x) (hy : p.y = q.y) : p = q := by
  cases p; cases q; simp_all

/-! ### segment lists -/

theorem segs_snoc2 (l : List Pt) (x y : Pt) : segs (l ++ [x, y]) = segs (l ++ [x]) ++ [(x, y)] := by
  induction l with
  | nil => rfl
  | cons c l ih =>
    cases l with
    | nil => rfl
    | cons d l' =>
      simp only [List.cons_append, segs] at ih ⊢
      rw [ih]

def flipRev (ss : List (Pt × Pt)) : List (Pt × Pt) := ss.reverse.map (fun s => (s.2, s.1))

theorem flipRev_cons (s : Pt × Pt) (ss : List (Pt × Pt)) :
    flipRev (s :: ss) = flipRev ss ++ [(s.2, s.1)] := by
  simp [flipRev]

theorem revSegs_eq_flipRev (cs : List Pt) : revSegs cs = flipRev (segs cs) := rfl

theorem segs_reverse : ∀ cs : List Pt, segs cs.reverse = flipRev (segs cs)
  | [] => rfl
  | [_] => rfl
  | a :: b :: rest => by
    have ih := segs_reverse (b :: rest)
    have h1 : (a :: b :: rest).reverse = rest.reverse ++ [b, a] := by simp
    have h2 : (b :: rest).reverse = rest.reverse ++ [b] := by simp
    rw [h1, segs_snoc2, ← h2, ih]
    simp [segs, flipRev]

theorem sumLen_append (len : Len) (xs ys : List (Pt × Pt)) :
    sumLen len (xs ++ ys) = sumLen len xs + sumLen len ys := by
  induction xs with
  | nil => simp [sumLen]
  | cons s xs ih => simp only [List.cons_append, sumLen, ih]; ring

theorem sumLen_nonneg {len : Len} (h : LenAx len) (ss : List (Pt × Pt)) : 0 ≤ sumLen len ss := by
  induction ss with
  | nil => simp [sumLen]
  | cons s ss ih => simp only [sumLen]; have := h.nonneg s.1 s.2; linarith

theorem sumLen_flipRev {len : Len} (h : LenAx len) (ss : List (Pt × Pt)) :
    sumLen len (flipRev ss) = sumLen len ss := by
  induction ss with
  | nil => rfl
  | cons s ss ih =>
    rw [flipRev_cons, sumLen_append, ih]
    simp only [sumLen]
    rw [h.symm s.2 s.1]; ring

/-! ### the walk -/

theorem walk_some {len : Len} : ∀ (ss : List (Pt × Pt)) (d : Rat) {a b : Pt} {r : Rat}, 0 < d →
    walk len ss d = some (a, b, r) →
    ∃ pre post, ss = pre ++ (a, b) :: post ∧ r = d - sumLen len pre ∧ 0 < r ∧ r ≤ len a b
  | [], _, _, _, _, _, h => by simp [walk] at h
  | (a', b') :: rest, d, a, b, r, hd, h => by
    simp only [walk] at h
    by_cases hlt : len a' b' < d
    · rw [if_pos hlt] at h
      obtain ⟨pre, post, e, hr, hpos, hle⟩ := walk_some rest (d - len a' b') (by linarith) h
      refine ⟨(a', b') :: pre, post, by simp [e], ?_, hpos, hle⟩
      simp only [sumLen]; rw [hr]; ring
    · rw [if_neg hlt] at h
      simp only [Option.some.injEq, Prod.mk.injEq] at h
      obtain ⟨rfl, rfl, rfl⟩ := h
      exact ⟨[], rest, rfl, by simp [sumLen], hd, not_lt.1 hlt⟩

theorem walk_none {len : Len} : ∀ (ss : List (Pt × Pt)) (d : Rat), 0 < d →
    walk len ss d = none → sumLen len ss < d
  | [], _, hd, _ => by simpa [sumLen] using hd
  | (a', b') :: rest, d, hd, h => by
    simp only [walk] at h
    by_cases hlt : len a' b' < d
    · rw [if_pos hlt] at h
      have := walk_none rest (d - len a' b') (by linarith) h
      simp only [sumLen]; linarith
    · rw [if_neg hlt] at h; simp at h

theorem walk_eq_none {len : Len} (hl : LenAx len) : ∀ (ss : List (Pt × Pt)) (d : Rat),
    sumLen len ss < d → walk len ss d = none
  | [], _, _ => rfl
  | (a', b') :: rest, d, h => by
    simp only [sumLen] at h
    have h0 := sumLen_nonneg hl rest
    have hlt : len a' b' < d := by linarith
    simp only [walk, if_pos hlt]
    exact walk_eq_none hl rest _ (by linarith)

/-! ### arc-length positions on a chain of segments -/

/-- `p` is the point at arc length `d` on the chain `ss` (closed at both ends of each segment). -/
def OnSegs (len : Len) : List (Pt × Pt) → Rat → Pt → Prop
  | [], _, _ => False
  | (a, b) :: rest, d, p =>
    (0 ≤ d ∧ d ≤ len a b ∧ p = pointAtDistanceBetween len a b d) ∨ OnSegs len rest (d - len a b) p

/-- consecutive segments share an endpoint -/
def Chain : List (Pt × Pt) → Prop
  | [] => True
  | [_] => True
  | s₁ :: s₂ :: rest => s₁.2 = s₂.1 ∧ Chain (s₂ :: rest)

theorem chain_segs : ∀ cs : List Pt, Chain (segs cs)
  | [] => trivial
  | [_] => trivial
  | [_, _] => trivial
  | a :: b :: c :: rest => by
    have := chain_segs (b :: c :: rest)
    simp only [segs] at this ⊢
    exact ⟨rfl, this⟩

theorem chain_tail {s : Pt × Pt} {ss : List (Pt × Pt)} (h : Chain (s :: ss)) : Chain ss := by
  cases ss with
  | nil => trivial
  | cons t ts => exact h.2

theorem pdb_zero (len : Len) (a b : Pt) : pointAtDistanceBetween len a b 0 = a := by
  apply Pt.ext' <;> simp [pointAtDistanceBetween]

theorem pdb_full {len : Len} (hl : LenAx len) (a b : Pt) :
    pointAtDistanceBetween len a b (len a b) = b := by
  by_cases h0 : len a b = 0
  · have := hl.eq_of_zero a b h0; subst this
    apply Pt.ext' <;> simp [pointAtDistanceBetween]
  · apply Pt.ext' <;> simp only [pointAtDistanceBetween] <;> field_simp <;> ring

theorem pdb_flip {len : Len} (hl : LenAx len) (a b : Pt) (d : Rat) :
    pointAtDistanceBetween len b a (len a b - d) = pointAtDistanceBetween len a b d := by
  by_cases h0 : len a b = 0
  · have := hl.eq_of_zero a b h0; subst this
    apply Pt.ext' <;> simp [pointAtDistanceBetween]
  · have h1 : len b a ≠ 0 := by rw [← hl.symm a b]; exact h0
    apply Pt.ext' <;> simp only [pointAtDistanceBetween] <;> rw [← hl.symm a b] <;> field_simp <;> ring

theorem onSegs_nonneg {len : Len} (hl : LenAx len) : ∀ (ss : List (Pt × Pt)) (d : Rat) (p : Pt),
    OnSegs len ss d p → 0 ≤ d
  | [], _, _, h => h.elim
  | (a, b) :: rest, d, p, h => by
    rcases h with ⟨h0, _, _⟩ | h
    · exact h0
    · have := onSegs_nonneg hl rest _ p h
      have := hl.nonneg a b
      linarith

theorem onSegs_le {len : Len} (hl : LenAx len) : ∀ (ss : List (Pt × Pt)) (d : Rat) (p : Pt),
    OnSegs len ss d p → d ≤ sumLen len ss
  | [], _, _, h => h.elim
  | (a, b) :: rest, d, p, h => by
    simp only [sumLen]
    rcases h with ⟨_, h1, _⟩ | h
    · have := sumLen_nonneg hl rest; linarith
    · have := onSegs_le hl rest _ p h; linarith

theorem onSegs_zero {len : Len} (hl : LenAx len) : ∀ (ss : List (Pt × Pt)) (a b : Pt) (p : Pt),
    Chain ((a, b) :: ss) → OnSegs len ((a, b) :: ss) 0 p → p = a
  | ss, a, b, p, hc, h => by
    rcases h with ⟨_, _, hp⟩ | h
    · rw [hp, pdb_zero]
    · have hn := onSegs_nonneg hl ss _ p h
      have h0 : len a b = 0 := by have := hl.nonneg a b; linarith
      have hab := hl.eq_of_zero a b h0
      rw [h0] at h
      cases ss with
      | nil => exact h.elim
      | cons t ts =>
        obtain ⟨a', b'⟩ := t
        have := onSegs_zero hl ts a' b' p hc.2 (by simpa using h)
        rw [this, hab]; exact hc.1.symm
termination_by ss => ss.length

theorem onSegs_first_later {len : Len} (hl : LenAx len) (a b : Pt) (rest : List (Pt × Pt)) (d : Rat)
    (p q : Pt) (hc : Chain ((a, b) :: rest))
    (h1 : 0 ≤ d ∧ d ≤ len a b ∧ p = pointAtDistanceBetween len a b d)
    (h2 : OnSegs len rest (d - len a b) q) : p = q := by
  obtain ⟨_, h1, e⟩ := h1
  have hn := onSegs_nonneg hl rest _ q h2
  have hd : d = len a b := by linarith
  rw [hd, pdb_full hl] at e
  rw [hd, sub_self] at h2
  cases rest with
  | nil => exact h2.elim
  | cons t ts =>
    obtain ⟨a', b'⟩ := t
    rw [e, onSegs_zero hl ts a' b' q hc.2 h2]; exact hc.1

/-- [key] a chain passes through exactly one point at each arc length. -/
theorem onSegs_unique {len : Len} (hl : LenAx len) : ∀ (ss : List (Pt × Pt)) (d : Rat) (p q : Pt),
    Chain ss → OnSegs len ss d p → OnSegs len ss d q → p = q
  | [], _, _, _, _, h, _ => h.elim
  | (a, b) :: rest, d, p, q, hc, hp, hq => by
    rcases hp with hp | hp <;> rcases hq with hq | hq
    · rw [hp.2.2, hq.2.2]
    · exact onSegs_first_later hl a b rest d p q hc hp hq
    · exact (onSegs_first_later hl a b rest d q p hc hq hp).symm
    · exact onSegs_unique hl rest _ p q (chain_tail hc) hp hq

theorem onSegs_append {len : Len} : ∀ (xs ys : List (Pt × Pt)) (d : Rat) (p : Pt),
    OnSegs len (xs ++ ys) d p ↔ OnSegs len xs d p ∨ OnSegs len ys (d - sumLen len xs) p
  | [], ys, d, p => by simp [OnSegs, sumLen]
  | (a, b) :: xs, ys, d, p => by
    simp only [List.cons_append, OnSegs, sumLen]
    rw [onSegs_append xs ys (d - len a b) p, or_assoc]
    have : d - len a b - sumLen len xs = d - (len a b + sumLen len xs) := by ring
    rw [this]

/-- reversing the chain maps arc length `d` to `total − d`. -/
theorem onSegs_flipRev {len : Len} (hl : LenAx len) : ∀ (ss : List (Pt × Pt)) (d : Rat) (p : Pt),
    OnSegs len ss d p → OnSegs len (flipRev ss) (sumLen len ss - d) p
  | [], _, _, h => h.elim
  | (a, b) :: rest, d, p, h => by
    rw [flipRev_cons, onSegs_append, sumLen_flipRev hl]
    simp only [sumLen]
    rcases h with ⟨h0, h1, hp⟩ | h
    · right
      left
      refine ⟨by linarith, by rw [← hl.symm a b]; linarith, ?_⟩
      have : len a b + sumLen len rest - d - sumLen len rest = len a b - d := by ring
      rw [this, pdb_flip hl, hp]
    · left
      have := onSegs_flipRev hl rest _ p h
      have e : sumLen len rest - (d - len a b) = len a b + sumLen len rest - d := by ring
      rwa [e] at this

theorem walk_onSegs {len : Len} : ∀ (ss : List (Pt × Pt)) (d : Rat) {a b : Pt} {r : Rat}, 0 < d →
    walk len ss d = some (a, b, r) → OnSegs len ss d (pointAtDistanceBetween len a b r)
  | [], _, _, _, _, _, h => by simp [walk] at h
  | (a', b') :: rest, d, a, b, r, hd, h => by
    simp only [walk] at h
    by_cases hlt : len a' b' < d
    · rw [if_pos hlt] at h
      exact Or.inr (walk_onSegs rest _ (by linarith) h)
    · rw [if_neg hlt] at h
      simp only [Option.some.injEq, Prod.mk.injEq] at h
      obtain ⟨rfl, rfl, rfl⟩ := h
      exact Or.inl ⟨le_of_lt hd, not_lt.1 hlt, rfl⟩

/-! ### densify -/

theorem numSegments_cast {len : Len} (hl : LenAx len) (a b : Pt) (mx : Rat) (hmx : 0 < mx) :
    len a b / mx ≤ (numSegments len a b mx : Rat) ∧ (numSegments len a b mx : Rat) < len a b / mx + 1 := by
  have hq : 0 ≤ len a b / mx := div_nonneg (hl.nonneg a b) (le_of_lt hmx)
  have h1 : len a b / mx ≤ ((Rat.ceil (len a b / mx) : Int) : Rat) := Rat.le_ceil
  have h2 : ((Rat.ceil (len a b / mx) : Int) : Rat) < len a b / mx + 1 := Rat.ceil_lt
  have hc : (0 : Int) ≤ Rat.ceil (len a b / mx) := by
    have : (0 : Rat) ≤ ((Rat.ceil (len a b / mx) : Int) : Rat) := le_trans hq h1
    exact_mod_cast this
  have e : (numSegments len a b mx : Rat) = ((Rat.ceil (len a b / mx) : Int) : Rat) := by
    unfold numSegments
    have := Int.toNat_of_nonneg hc
    exact_mod_cast congrArg (fun z : Int => (z : Rat)) this
  rw [e]; exact ⟨h1, h2⟩

theorem lerp_zero (a b : Pt) : lerp a b 0 = a := by apply Pt.ext' <;> simp [lerp]
theorem lerp_one (a b : Pt) : lerp a b 1 = b := by apply Pt.ext' <;> simp [lerp]

theorem segs_map_range' (f : Nat → Pt) : ∀ (m s : Nat),
    segs ((List.range' s (m + 1)).map f) = (List.range' s m).map (fun k => (f k, f (k + 1)))
  | 0, s => by simp [List.range', segs]
  | m + 1, s => by
    have ih := segs_map_range' f m (s + 1)
    simp only [List.range'_succ, List.map_cons, segs] at ih ⊢
    rw [ih]

theorem segs_join (xs ys : List Pt) (b : Pt) :
    segs (xs ++ b :: ys) = segs (xs ++ [b]) ++ segs (b :: ys) := by
  induction xs with
  | nil => simp [segs]
  | cons x xs ih =>
    cases xs with
    | nil => simp [segs]
    | cons y ys' =>
      simp only [List.cons_append, segs] at ih ⊢
      rw [ih]

theorem sumLen_map_const (len : Len) (c : Rat) (l : List (Pt × Pt)) (h : ∀ s ∈ l, len s.1 s.2 = c) :
    sumLen len l = l.length * c := by
  induction l with
  | nil => simp [sumLen]
  | cons s l ih =>
    simp only [sumLen, List.length_cons]
    rw [h s (by simp), ih (fun t ht => h t (by simp [ht]))]
    push_cast; ring

end Geo.Proofs.C15
