/-
  Helper lemmas for C15 (lists of segments, the walk, arc-length positions).
-/
import GeoModel.Interp
import Mathlib.Tactic.Linarith
import Mathlib.Tactic.Ring
import Mathlib.Tactic.FieldSimp

namespace Geo.Proofs.C15
open Geo Geo.Interp

/-- What the theorems need of the segment-length function (all true of the Euclidean length). -/
structure LenAx (len : Len) : Prop where
  nonneg : ∀ a b, 0 ≤ len a b
  symm : ∀ a b, len a b = len b a
  eq_of_zero : ∀ a b, len a b = 0 → a = b

theorem Pt.ext' {p q : Pt} (hx : p.x = q.x) (hy : p.y = q.y) : p = q := by
  cases p; cases q; simp_all

/-! ### segment lists -/

theorem segs_snoc2 (l : List Pt) (x y : Pt) : segs (l ++ [x, y]) = segs (l ++ [x]) ++ [(x, y)] := by
  induction l with
  | nil => rfl
  | cons c l ih =>
    cases l with
    | nil => rfl
    | cons d l' =>
      simp only [List.cons_append, segs] at ih ⊢
      rw [ih]

def flipRev (ss : List (Pt × Pt)) : List (Pt × Pt) := ss.reverse.map (fun s => (s.2, s.1))

theorem flipRev_cons (s : Pt × Pt) (ss : List (Pt × Pt)) :
    flipRev (s :: ss) = flipRev ss ++ [(s.2, s.1)] := by
  simp [flipRev]

theorem revSegs_eq_flipRev (cs : List Pt) : revSegs cs = flipRev (segs cs) := rfl

theorem segs_reverse : ∀ cs : List Pt, segs cs.reverse = flipRev (segs cs)
  | [] => rfl
  | [_] => rfl
  | a :: b :: rest => by
    have ih := segs_reverse (b :: rest)
    have h1 : (a :: b :: rest).reverse = rest.reverse ++ [b, a] := by simp
    have h2 : (b :: rest).reverse = rest.reverse ++ [b] := by simp
    rw [h1, segs_snoc2, ← h2, ih]
    simp [segs, flipRev]

theorem sumLen_append (len : Len) (xs ys : List (Pt × Pt)) :
    sumLen len (xs ++ ys) = sumLen len xs + sumLen len ys := by
  induction xs with
  | nil => simp [sumLen]
  | cons s xs ih => simp only [List.cons_append, sumLen, ih]; ring

theorem sumLen_nonneg {len : Len} (h : LenAx len) (ss : List (Pt × Pt)) : 0 ≤ sumLen len ss := by
  induction ss with
  | nil => simp [sumLen]
  | cons s ss ih => simp only [sumLen]; have := h.nonneg s.1 s.2; linarith

theorem sumLen_flipRev {len : Len} (h : LenAx len) (ss : List (Pt × Pt)) :
    sumLen len (flipRev ss) = sumLen len ss := by
  induction ss with
  | nil => rfl
  | cons s ss ih =>
    rw [flipRev_cons, sumLen_append, ih]
    simp only [sumLen]
    rw [h.symm s.2 s.1]; ring

end Geo.Proofs.C15
