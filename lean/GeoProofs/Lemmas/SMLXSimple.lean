/-
  SMLX (C05), part 1: the coordinates of a simple ring (`ringSimple`, GeoModel/Valid.lean).

  After merging repeated consecutive coordinates a simple ring visits every point once, except that
  the first coordinate is also the last (`simple_index_inj`, `simple_nodup`). Hence every coordinate
  has exactly one predecessor and one successor along the ring (`simple_prev_unique`,
  `simple_next_unique`), and the merged ring satisfies `PivotOnce` (`pivotOnce_dedup_of_simple`).
-/
import GeoProofs.Lemmas.WINDJordan
import GeoProofs.Lemmas.C05PRotate
import GeoProofs.Lemmas.C05PConvex

set_option linter.unusedSimpArgs false
set_option linter.unusedVariables false

namespace Geo.Proofs.SMLX
open Geo Geo.Proofs.Kernel Geo.Proofs.C12 Geo.Proofs.WIND Geo.Proofs.C05L

/-- `edges` (C05PConvex) and `segs` are the same list of consecutive pairs -/
theorem edges_eq_segs : ∀ r : List Pt, edges r = segs r
  | [] => rfl
  | [_] => rfl
  | a :: b :: t => by
    rw [edges_cons_cons, edges_eq_segs (b :: t)]; rfl

/-- **two positions of the merged ring carry the same point only if they are the first and the last** -/
theorem simple_index_inj {r0 : List Pt} (h : ringSimple r0 = true) {i j : Nat} (hij : i < j)
    (hj : j < (dedupConsecutive r0).length)
    (he : (dedupConsecutive r0)[i]? = (dedupConsecutive r0)[j]?) :
    i = 0 ∧ j + 1 = (dedupConsecutive r0).length := by
  have hlen : (segs (dedupConsecutive r0)).length = (dedupConsecutive r0).length - 1 := segs_length _
  obtain ⟨z, hzj⟩ : ∃ z, (dedupConsecutive r0)[j]? = some z := ⟨_, List.getElem?_eq_getElem hj⟩
  have hzi : (dedupConsecutive r0)[i]? = some z := he.trans hzj
  have hi1 : i + 1 < (dedupConsecutive r0).length := by omega
  obtain ⟨zi, hzi1⟩ : ∃ w, (dedupConsecutive r0)[i + 1]? = some w := ⟨_, List.getElem?_eq_getElem hi1⟩
  have hsi : (segs (dedupConsecutive r0))[i]? = some (z, zi) := segs_getElem?_of _ _ _ _ hzi hzi1
  have hnei : z ≠ zi := dedup_segs_ne r0 (z, zi) (List.mem_of_getElem? hsi)
  by_cases hjn : j + 1 < (dedupConsecutive r0).length
  · -- `z` starts the edges at positions `i` and `j`
    exfalso
    obtain ⟨zj, hzj1⟩ : ∃ w, (dedupConsecutive r0)[j + 1]? = some w := ⟨_, List.getElem?_eq_getElem hjn⟩
    have hsj : (segs (dedupConsecutive r0))[j]? = some (z, zj) := segs_getElem?_of _ _ _ _ hzj hzj1
    have hnej : z ≠ zj := dedup_segs_ne r0 (z, zj) (List.mem_of_getElem? hsj)
    rcases simple_pos h hij hsi hsj (SegMem_left _ _) (SegMem_left _ _) with ⟨_, e⟩ | ⟨_, _, e⟩
    · exact hnei e
    · exact hnej e
  · -- `j` is the last position
    have hjl : j + 1 = (dedupConsecutive r0).length := by omega
    refine ⟨?_, hjl⟩
    by_contra hi0
    -- the last edge, at position `j - 1`, ends at `z`
    obtain ⟨j', rfl⟩ : ∃ j', j = j' + 1 := ⟨j - 1, by omega⟩
    obtain ⟨w, hw⟩ : ∃ w, (dedupConsecutive r0)[j']? = some w :=
      ⟨_, List.getElem?_eq_getElem (by omega)⟩
    have hsl : (segs (dedupConsecutive r0))[j']? = some (w, z) := segs_getElem?_of _ _ _ _ hw hzj
    have hnel : w ≠ z := dedup_segs_ne r0 (w, z) (List.mem_of_getElem? hsl)
    by_cases hil : i = j'
    · subst hil
      rw [hzi] at hw
      exact hnel (Option.some.inj hw).symm
    · have hlt : i < j' := by omega
      rcases simple_pos h hlt hsi hsl (SegMem_left _ _) (SegMem_right _ _) with ⟨_, e⟩ | ⟨e, _, _⟩
      · exact hnei e
      · exact hi0 e

/-- the merged ring is `v :: m ++ [v]` with `v :: m` free of repetitions -/
theorem simple_nodup {r0 : List Pt} (h : ringSimple r0 = true) :
    ∃ v m, dedupConsecutive r0 = v :: m ++ [v] ∧ (v :: m).Nodup := by
  have hc := (ringSimple_spec h).1
  have h3 := (ringSimple_spec h).2.1
  rw [segs_length] at h3
  generalize hd : dedupConsecutive r0 = d at hc h3
  match d, hd, hc, h3 with
  | v :: rest, hd, hc, h3 =>
    have hne : rest ≠ [] := by intro e; subst e; simp at h3
    obtain ⟨m, l, rfl⟩ : ∃ m l, rest = m ++ [l] := ⟨rest.dropLast, rest.getLast hne,
      (List.dropLast_append_getLast hne).symm⟩
    have hl : l = v := by
      have : (v :: (m ++ [l])).getLast? = some l := by
        rw [← List.cons_append]; exact List.getLast?_concat
      rw [this] at hc
      simpa using hc.symm
    subst hl
    refine ⟨l, m, rfl, ?_⟩
    rw [List.nodup_iff_getElem?_ne_getElem?]
    intro i j hij hj e
    have hj' : j < (dedupConsecutive r0).length := by
      rw [hd]; simp only [List.length_cons, List.length_append, List.length_nil] at hj ⊢; omega
    have e' : (dedupConsecutive r0)[i]? = (dedupConsecutive r0)[j]? := by
      rw [hd, ← List.cons_append]
      rw [List.getElem?_append_left (by simp only [List.length_cons] at hj ⊢; omega),
        List.getElem?_append_left (by simpa using hj)]
      exact e
    obtain ⟨_, e2⟩ := simple_index_inj h hij hj' e'
    rw [hd] at e2
    simp only [List.length_cons, List.length_append, List.length_nil] at e2 hj
    omega

/-! ### neighbours along the ring -/

theorem mem_segs_dedup_iff (r0 : List Pt) (a b : Pt) :
    (a, b) ∈ segs (dedupConsecutive r0) ↔ (a, b) ∈ segs r0 ∧ a ≠ b := by
  rw [← segs_filter_nondeg, List.mem_filter]
  simp

/-- a coordinate of a simple ring has one predecessor … -/
theorem simple_prev_unique {r0 : List Pt} (h : ringSimple r0 = true) {a a' p : Pt}
    (h1 : (a, p) ∈ segs r0) (n1 : a ≠ p) (h2 : (a', p) ∈ segs r0) (n2 : a' ≠ p) : a = a' := by
  have m1 := (mem_segs_dedup_iff r0 a p).mpr ⟨h1, n1⟩
  have m2 := (mem_segs_dedup_iff r0 a' p).mpr ⟨h2, n2⟩
  obtain ⟨i, hi⟩ := List.getElem?_of_mem m1
  obtain ⟨j, hj⟩ := List.getElem?_of_mem m2
  obtain ⟨ia, ip⟩ := segs_getElem?_inv _ _ _ hi
  obtain ⟨ja, jp⟩ := segs_getElem?_inv _ _ _ hj
  simp only at ia ip ja jp
  have hil : i + 1 < (dedupConsecutive r0).length := (List.getElem?_eq_some_iff.1 ip).1
  have hjl : j + 1 < (dedupConsecutive r0).length := (List.getElem?_eq_some_iff.1 jp).1
  have hij : i = j := by
    rcases Nat.lt_trichotomy i j with hlt | heq | hgt
    · have := simple_index_inj h (show i + 1 < j + 1 by omega) hjl (ip.trans jp.symm)
      omega
    · exact heq
    · have := simple_index_inj h (show j + 1 < i + 1 by omega) hil (jp.trans ip.symm)
      omega
  subst hij
  rw [ia] at ja
  exact Option.some.inj ja

/-- … and one successor -/
theorem simple_next_unique {r0 : List Pt} (h : ringSimple r0 = true) {b b' p : Pt}
    (h1 : (p, b) ∈ segs r0) (n1 : b ≠ p) (h2 : (p, b') ∈ segs r0) (n2 : b' ≠ p) : b = b' := by
  have m1 := (mem_segs_dedup_iff r0 p b).mpr ⟨h1, n1.symm⟩
  have m2 := (mem_segs_dedup_iff r0 p b').mpr ⟨h2, n2.symm⟩
  obtain ⟨i, hi⟩ := List.getElem?_of_mem m1
  obtain ⟨j, hj⟩ := List.getElem?_of_mem m2
  obtain ⟨ip, ib⟩ := segs_getElem?_inv _ _ _ hi
  obtain ⟨jp, jb⟩ := segs_getElem?_inv _ _ _ hj
  simp only at ip ib jp jb
  have hil : i + 1 < (dedupConsecutive r0).length := (List.getElem?_eq_some_iff.1 ib).1
  have hjl : j + 1 < (dedupConsecutive r0).length := (List.getElem?_eq_some_iff.1 jb).1
  have hij : i = j := by
    rcases Nat.lt_trichotomy i j with hlt | heq | hgt
    · have := simple_index_inj h hlt (by omega) (ip.trans jp.symm)
      omega
    · exact heq
    · have := simple_index_inj h hgt (by omega) (jp.trans ip.symm)
      omega
  subst hij
  rw [ib] at jb
  exact Option.some.inj jb

/-! ### `PivotOnce` -/

/-- a list `v :: m ++ [v]` with `v :: m` free of repetitions visits its least point once -/
theorem pivotOnce_of_nodup {v : Pt} {m : List Pt} (hn : (v :: m).Nodup) : PivotOnce (v :: m ++ [v]) := by
  obtain ⟨i, p, hl⟩ := leastIndex_isSome (r := v :: m ++ [v]) (by simp)
  obtain ⟨hidx, hmin⟩ := leastIndex_spec hl
  have hp : p ∈ v :: m ++ [v] := List.mem_of_getElem? hidx
  refine ⟨p, hmin, ?_⟩
  rw [List.nodup_cons] at hn
  by_cases hpv : p = v
  · subst hpv
    exact Or.inr ⟨m, rfl, hn.1⟩
  · left
    have hpm : p ∈ m := by
      simp only [List.cons_append, List.mem_cons, List.mem_append, List.not_mem_nil, or_false] at hp
      rcases hp with e | e | e
      · exact absurd e hpv
      · exact e
      · exact absurd e hpv
    obtain ⟨a, b, rfl⟩ := List.append_of_mem hpm
    have hnd := hn.2
    rw [List.nodup_append] at hnd
    obtain ⟨_, hb, hdis⟩ := hnd
    rw [List.nodup_cons] at hb
    refine ⟨v :: a, b ++ [v], by simp, ?_, ?_⟩
    · intro hmem
      rcases List.mem_cons.mp hmem with e | e
      · exact hpv e
      · exact hdis p e p (by simp) rfl
    · intro hmem
      rcases List.mem_append.mp hmem with e | e
      · exact hb.1 e
      · exact hpv (by simpa using e)

/-- **the merged coordinate list of a simple ring satisfies `PivotOnce`** -/
theorem pivotOnce_dedup_of_simple {r0 : List Pt} (h : ringSimple r0 = true) :
    PivotOnce (dedupConsecutive r0) := by
  obtain ⟨v, m, e, hn⟩ := simple_nodup h
  rw [e]; exact pivotOnce_of_nodup hn

end Geo.Proofs.SMLX
