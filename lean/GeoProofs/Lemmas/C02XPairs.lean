/-
  C02X, part 13: every pair of geometries of the validity domain in which at least one operand has no
  areal member (`thin`: Point, Line, LineString, MultiPoint, MultiLineString and collections of these):

      intersects(a, b)  ⇔  a and b have a common point  ⇔  "not `FF*FF****`" on the DE-9IM specification.

  The trait dispatch splits the left operand into pieces (points, segments, polygons, the Rect /
  Triangle itself), with bounding-box early returns that lose nothing on the domain (`disjointBB_facts`),
  and asks `Y: Intersects<piece>` of the right operand, which splits `Y` into points and segments
  and reaches the kernels `coordX`, `lineX` (`PieceFacts`: point-in-piece and segment-against-piece as
  point-set statements, C02XKernel).
-/
import GeoProofs.Lemmas.C02XThin

set_option linter.unusedSimpArgs false
set_option linter.unusedVariables false

namespace Geo.Proofs.C02X
open Geo Geo.Proofs.Kernel Geo.Proofs.Spec Geo.Proofs.C02Q Geo.Proofs.WIND

mutual
/-- no areal member: Point, Line, LineString, MultiPoint, MultiLineString, collections of these -/
def thin : Geom → Bool
  | .point _ | .line _ _ | .lineString _ | .multiPoint _ | .multiLineString _ => true
  | .collection gs => thinList gs
  | .polygon _ | .multiPolygon _ | .rect _ _ | .triangle _ _ _ => false
def thinList : List Geom → Bool
  | [] => true
  | g :: gs => thin g && thinList gs
end

theorem thinList_mem : ∀ {gs : List Geom}, thinList gs = true → ∀ g ∈ gs, thin g = true
  | [], _, g, hg => by cases hg
  | x :: t, h, g, hg => by
      simp only [thinList, Bool.and_eq_true] at h
      rcases List.mem_cons.mp hg with e | hg
      · rw [e]; exact h.1
      · exact thinList_mem h.2 g hg

/-! ### what the dispatch needs of an areal piece -/

structure PieceFacts (piece : Geom) : Prop where
  facts : DomFacts piece
  kp : ∀ c, coordX c piece = true ↔ locate piece c ≠ .outside
  kl : ∀ a b, lineX a b piece = true ↔ ∃ p, SegMem p a b ∧ locate piece p ≠ .outside

theorem pieceFacts_polygon (q : Poly) (hd : inDomain (.polygon q) = true) : PieceFacts (.polygon q) where
  facts := dom_facts _ hd
  kp := by
    intro c
    simp only [coordX, polyCoord]
    rw [coordPos_polygon_dom q c hd]
    simp
  kl := by
    intro a b
    simp only [lineX]
    exact polyLine_dom q hd a b

theorem pieceFacts_rect (mn mx : Pt) (hd : inDomain (.rect mn mx) = true) : PieceFacts (.rect mn mx) where
  facts := dom_facts _ hd
  kp := by
    intro c
    simp only [coordX]
    rw [Geo.Proofs.Loc.rectCoord_eq_pos, Geo.Proofs.Loc.coordPos_rect_eq_locate mn mx c (rect_dom hd).1 (rect_dom hd).2]
    simp
  kl := by
    intro a b
    simp only [lineX]
    exact rectLine_iff mn mx a b (rect_dom hd).1 (rect_dom hd).2

theorem pieceFacts_triangle (a b c : Pt) (hd : inDomain (.triangle a b c) = true) :
    PieceFacts (.triangle a b c) where
  facts := dom_facts _ hd
  kp := by
    intro p
    simp only [coordX]
    rw [Geo.Proofs.Loc.triCoord_eq_pos a b c p (triangle_dom hd), Geo.Proofs.Loc.coordPos_triangle_eq_locate]
    simp
  kl := by
    intro x y
    simp only [lineX]
    exact triLine_iff a b c x y

/-! ### a thin `Y` against an areal piece -/

theorem vsPiece_ls_piece (cs : List Pt) (hd : inDomain (.lineString cs) = true) {piece : Geom}
    (pf : PieceFacts piece) : vsPiece (.lineString cs) piece = true ↔ Common (.lineString cs) piece := by
  simp only [vsPiece, isxFlat]
  constructor
  · intro h
    split at h
    · cases h
    · rw [List.any_eq_true] at h
      obtain ⟨s, hs, h⟩ := h
      obtain ⟨p, h1, h2⟩ := (pf.kl s.1 s.2).mp h
      exact ⟨p, (located_lineString cs p).mpr ⟨s, hs, h1⟩, h2⟩
  · rintro ⟨p, h1, h2⟩
    rw [disjointBB_false_of_common_facts (dom_facts _ hd) pf.facts h1 h2]
    simp only [Bool.false_eq_true, if_false]
    obtain ⟨s, hs, h⟩ := (located_lineString cs p).mp h1
    rw [List.any_eq_true]
    exact ⟨s, hs, (pf.kl s.1 s.2).mpr ⟨p, h, h2⟩⟩

mutual
theorem vsPiece_thin : ∀ (y piece : Geom), inDomain y = true → thin y = true → PieceFacts piece →
    (vsPiece y piece = true ↔ Common y piece)
  | .point c, piece, _, _, pf => by
      simp only [vsPiece, isxFlat]
      rw [pf.kp c]
      constructor
      · intro h; exact ⟨c, (located_point c c).mpr rfl, h⟩
      · rintro ⟨p, h1, h2⟩; rw [(located_point c p).mp h1] at h2; exact h2
  | .line a b, piece, _, _, pf => by
      simp only [vsPiece, isxFlat]
      rw [pf.kl a b]
      constructor
      · rintro ⟨p, h1, h2⟩; exact ⟨p, (located_line a b p).mpr h1, h2⟩
      · rintro ⟨p, h1, h2⟩; exact ⟨p, (located_line a b p).mp h1, h2⟩
  | .multiPoint cs, piece, _, _, pf => by
      simp only [vsPiece, isxFlat]
      rw [List.any_eq_true]
      constructor
      · rintro ⟨c, hc, h⟩
        exact ⟨c, (located_multiPoint cs c).mpr hc, (pf.kp c).mp h⟩
      · rintro ⟨p, h1, h2⟩
        exact ⟨p, (located_multiPoint cs p).mp h1, (pf.kp p).mpr h2⟩
  | .lineString cs, piece, hd, _, pf => vsPiece_ls_piece cs hd pf
  | .multiLineString ls, piece, hd, _, pf => by
      have hin : ∀ cs : List Pt, (if disjointBB (.lineString cs) piece = true then false
          else (segs cs).any (fun s => lineX s.1 s.2 piece)) = vsPiece (.lineString cs) piece := by
        intro cs; simp only [vsPiece, isxFlat]
      simp only [vsPiece, isxFlat]
      simp only [hin]
      constructor
      · intro h
        split at h
        · cases h
        · rw [List.any_eq_true] at h
          obtain ⟨cs, hcs, h⟩ := h
          obtain ⟨p, h1, h2⟩ := (vsPiece_ls_piece cs (mls_member_dom hd cs hcs) pf).mp h
          exact ⟨p, (located_mls ls p).mpr ⟨cs, hcs, h1⟩, h2⟩
      · rintro ⟨p, h1, h2⟩
        rw [disjointBB_false_of_common_facts (dom_facts _ hd) pf.facts h1 h2]
        simp only [Bool.false_eq_true, if_false]
        obtain ⟨cs, hcs, h⟩ := (located_mls ls p).mp h1
        rw [List.any_eq_true]
        exact ⟨cs, hcs, (vsPiece_ls_piece cs (mls_member_dom hd cs hcs) pf).mpr ⟨p, h, h2⟩⟩
  | .polygon _, _, _, ht, _ => by simp [thin] at ht
  | .multiPolygon _, _, _, ht, _ => by simp [thin] at ht
  | .rect _ _, _, _, ht, _ => by simp [thin] at ht
  | .triangle _ _ _, _, _, ht, _ => by simp [thin] at ht
  | .collection gs, piece, hd, ht, pf => by
      obtain ⟨hok, hl⟩ := inDomain_collection hd
      have htl : thinList gs = true := by simpa [thin] using ht
      have hm := vsPiece_thin_list gs piece hl htl pf
      simp only [vsPiece]
      rw [isxColl, isxCollAny_eq]
      constructor
      · intro h
        split at h
        · cases h
        · rw [List.any_eq_true] at h
          obtain ⟨g, hg, h⟩ := h
          obtain ⟨p, h1, h2⟩ := (hm g hg).mp h
          exact ⟨p, (located_collection hd p).mpr ⟨g, hg, h1⟩, h2⟩
      · rintro ⟨p, h1, h2⟩
        rw [disjointBB_false_of_common_facts (dom_facts _ hd) pf.facts h1 h2]
        simp only [Bool.false_eq_true, if_false]
        obtain ⟨g, hg, h⟩ := (located_collection hd p).mp h1
        rw [List.any_eq_true]
        exact ⟨g, hg, (hm g hg).mpr ⟨p, h, h2⟩⟩
theorem vsPiece_thin_list : ∀ (gs : List Geom) (piece : Geom), inDomainList gs = true → thinList gs = true →
    PieceFacts piece → ∀ g ∈ gs, (vsPiece g piece = true ↔ Common g piece)
  | [], _, _, _, _ => fun g hg => by cases hg
  | a :: t, piece, h, ht, pf => by
      simp only [inDomainList, Bool.and_eq_true] at h
      simp only [thinList, Bool.and_eq_true] at ht
      intro g hg
      rcases List.mem_cons.mp hg with e | hg
      · rw [e]; exact vsPiece_thin a piece h.1 ht.1 pf
      · exact vsPiece_thin_list t piece h.2 ht.2 pf g hg
end

/-! ### the left operand -/

theorem isx_ls_common (cs : List Pt) (b : Geom) (ha : inDomain (.lineString cs) = true) (hb : inDomain b = true) :
    intersectsM (.lineString cs) b = true ↔ Common (.lineString cs) b := by
  rw [intersectsM]
  constructor
  · intro h
    split at h
    · cases h
    · rw [List.any_eq_true] at h
      obtain ⟨s, hs, h⟩ := h
      obtain ⟨p, h1, h2⟩ := (vsPiece_line_iff b s.1 s.2 hb).mp h
      exact ⟨p, (located_lineString cs p).mpr ⟨s, hs, h1⟩, h2⟩
  · rintro ⟨p, h1, h2⟩
    rw [disjointBB_false_of_common_facts (dom_facts _ ha) (dom_facts _ hb) h1 h2]
    simp only [Bool.false_eq_true, if_false]
    obtain ⟨s, hs, h⟩ := (located_lineString cs p).mp h1
    rw [List.any_eq_true]
    exact ⟨s, hs, (vsPiece_line_iff b s.1 s.2 hb).mpr ⟨p, h, h2⟩⟩

mutual
/-- **`intersects(a, b)` ⇔ common point, for every pair of the domain with a thin operand** -/
theorem intersectsM_common : ∀ (a b : Geom), inDomain a = true → inDomain b = true →
    (thin a = true ∨ thin b = true) → (intersectsM a b = true ↔ Common a b)
  | .point c, b, _, hb, _ => by
      rw [intersectsM, vsPiece_point_iff b c hb]
      constructor
      · intro h; exact ⟨c, (located_point c c).mpr rfl, h⟩
      · rintro ⟨p, h1, h2⟩; rw [(located_point c p).mp h1] at h2; exact h2
  | .line x y, b, _, hb, _ => by
      rw [intersectsM, vsPiece_line_iff b x y hb]
      constructor
      · rintro ⟨p, h1, h2⟩; exact ⟨p, (located_line x y p).mpr h1, h2⟩
      · rintro ⟨p, h1, h2⟩; exact ⟨p, (located_line x y p).mp h1, h2⟩
  | .multiPoint cs, b, _, hb, _ => by
      rw [intersectsM, List.any_eq_true]
      constructor
      · rintro ⟨c, hc, h⟩
        exact ⟨c, (located_multiPoint cs c).mpr hc, (vsPiece_point_iff b c hb).mp h⟩
      · rintro ⟨p, h1, h2⟩
        exact ⟨p, (located_multiPoint cs p).mp h1, (vsPiece_point_iff b p hb).mpr h2⟩
  | .lineString cs, b, ha, hb, _ => isx_ls_common cs b ha hb
  | .multiLineString ls, b, ha, hb, _ => by
      have hin : ∀ cs : List Pt, (if disjointBB (.lineString cs) b = true then false
          else (segs cs).any (fun s => vsPiece b (.line s.1 s.2))) = intersectsM (.lineString cs) b := by
        intro cs; rw [intersectsM]
      rw [intersectsM]
      simp only [hin]
      constructor
      · intro h
        split at h
        · cases h
        · rw [List.any_eq_true] at h
          obtain ⟨cs, hcs, h⟩ := h
          obtain ⟨p, h1, h2⟩ := (isx_ls_common cs b (mls_member_dom ha cs hcs) hb).mp h
          exact ⟨p, (located_mls ls p).mpr ⟨cs, hcs, h1⟩, h2⟩
      · rintro ⟨p, h1, h2⟩
        rw [disjointBB_false_of_common_facts (dom_facts _ ha) (dom_facts _ hb) h1 h2]
        simp only [Bool.false_eq_true, if_false]
        obtain ⟨cs, hcs, h⟩ := (located_mls ls p).mp h1
        rw [List.any_eq_true]
        exact ⟨cs, hcs, (isx_ls_common cs b (mls_member_dom ha cs hcs) hb).mpr ⟨p, h, h2⟩⟩
  | .polygon q, b, ha, hb, ht => by
      have htb : thin b = true := by
        rcases ht with h | h
        · simp [thin] at h
        · exact h
      rw [intersectsM, vsPiece_thin b (.polygon q) hb htb (pieceFacts_polygon q ha)]
      exact ⟨Common.symm, Common.symm⟩
  | .rect mn mx, b, ha, hb, ht => by
      have htb : thin b = true := by
        rcases ht with h | h
        · simp [thin] at h
        · exact h
      rw [intersectsM, vsPiece_thin b (.rect mn mx) hb htb (pieceFacts_rect mn mx ha)]
      exact ⟨Common.symm, Common.symm⟩
  | .triangle t0 t1 t2, b, ha, hb, ht => by
      have htb : thin b = true := by
        rcases ht with h | h
        · simp [thin] at h
        · exact h
      rw [intersectsM, vsPiece_thin b (.triangle t0 t1 t2) hb htb (pieceFacts_triangle t0 t1 t2 ha)]
      exact ⟨Common.symm, Common.symm⟩
  | .multiPolygon ps, b, ha, hb, ht => by
      have htb : thin b = true := by
        rcases ht with h | h
        · simp [thin] at h
        · exact h
      rw [intersectsM]
      constructor
      · intro h
        split at h
        · cases h
        · rw [List.any_eq_true] at h
          obtain ⟨q, hq, h⟩ := h
          obtain ⟨p, h1, h2⟩ := (vsPiece_thin b (.polygon q) hb htb
            (pieceFacts_polygon q (mpg_member_dom ha q hq))).mp h
          exact ⟨p, (located_multiPolygon ps p).mpr ⟨q, hq, h2⟩, h1⟩
      · rintro ⟨p, h1, h2⟩
        rw [disjointBB_false_of_common_facts (dom_facts _ ha) (dom_facts _ hb) h1 h2]
        simp only [Bool.false_eq_true, if_false]
        obtain ⟨q, hq, h⟩ := (located_multiPolygon ps p).mp h1
        rw [List.any_eq_true]
        exact ⟨q, hq, (vsPiece_thin b (.polygon q) hb htb
          (pieceFacts_polygon q (mpg_member_dom ha q hq))).mpr ⟨p, h2, h⟩⟩
  | .collection gs, b, ha, hb, ht => by
      obtain ⟨hok, hl⟩ := inDomain_collection ha
      have ht' : thinList gs = true ∨ thin b = true := by
        rcases ht with h | h
        · left; simpa [thin] using h
        · exact Or.inr h
      have hm := intersectsM_common_list gs b hl hb ht'
      rw [Geo.Proofs.Loc.intersectsM_collection]
      constructor
      · intro h
        rw [Bool.and_eq_true, List.any_eq_true] at h
        obtain ⟨_, g, hg, h⟩ := h
        obtain ⟨p, h1, h2⟩ := (hm g hg).mp h
        exact ⟨p, (located_collection ha p).mpr ⟨g, hg, h1⟩, h2⟩
      · rintro ⟨p, h1, h2⟩
        rw [disjointBB_false_of_common_facts (dom_facts _ ha) (dom_facts _ hb) h1 h2]
        simp only [Bool.not_false, Bool.true_and, List.any_eq_true]
        obtain ⟨g, hg, h⟩ := (located_collection ha p).mp h1
        exact ⟨g, hg, (hm g hg).mpr ⟨p, h, h2⟩⟩
theorem intersectsM_common_list : ∀ (gs : List Geom) (b : Geom), inDomainList gs = true → inDomain b = true →
    (thinList gs = true ∨ thin b = true) → ∀ g ∈ gs, (intersectsM g b = true ↔ Common g b)
  | [], _, _, _, _ => fun g hg => by cases hg
  | a :: t, b, h, hb, ht => by
      simp only [inDomainList, Bool.and_eq_true] at h
      have ht1 : thin a = true ∨ thin b = true := by
        rcases ht with ht | ht
        · simp only [thinList, Bool.and_eq_true] at ht; exact Or.inl ht.1
        · exact Or.inr ht
      have ht2 : thinList t = true ∨ thin b = true := by
        rcases ht with ht | ht
        · simp only [thinList, Bool.and_eq_true] at ht; exact Or.inl ht.2
        · exact Or.inr ht
      intro g hg
      rcases List.mem_cons.mp hg with e | hg
      · rw [e]; exact intersectsM_common a b h.1 hb ht1
      · exact intersectsM_common_list t b h.2 hb ht2 g hg
end

/-! ### the specification -/

/-- **every pair of the validity domain with a thin operand: `intersects` is the mask
"not `FF*FF****`" on the DE-9IM specification** -/
theorem intersectsM_thin_eq_spec (a b : Geom) (ha : inDomain a = true) (hb : inDomain b = true)
    (ht : thin a = true ∨ thin b = true) : intersectsM a b = Gen.isIntersects (relateSpec a b) := by
  rw [Bool.eq_iff_iff, intersectsM_common a b ha hb ht]
  exact (isIntersects_iff_common_point_closed (dom_facts a ha).closed (dom_facts b hb).closed).symm

/-- … and `intersects` is symmetric on these pairs -/
theorem intersectsM_thin_symm (a b : Geom) (ha : inDomain a = true) (hb : inDomain b = true)
    (ht : thin a = true ∨ thin b = true) : intersectsM a b = intersectsM b a := by
  rw [Bool.eq_iff_iff, intersectsM_common a b ha hb ht, intersectsM_common b a hb ha ht.symm]
  exact ⟨Common.symm, Common.symm⟩

/-- **Rect × Rect** (both of positive width and height) -/
theorem intersectsM_rect_rect_eq_spec (amn amx bmn bmx : Pt) (ha : inDomain (.rect amn amx) = true)
    (hb : inDomain (.rect bmn bmx) = true) :
    intersectsM (.rect amn amx) (.rect bmn bmx) =
      Gen.isIntersects (relateSpec (.rect amn amx) (.rect bmn bmx)) := by
  have e : intersectsM (.rect amn amx) (.rect bmn bmx) = rectRect bmn bmx amn amx := by
    simp only [intersectsM, vsPiece, isxFlat, rectX]
  rw [e, Bool.eq_iff_iff, rectRect_iff bmn bmx amn amx (rect_dom hb).1 (rect_dom hb).2 (rect_dom ha).1 (rect_dom ha).2]
  have hs : Gen.isIntersects (relateSpec (.rect amn amx) (.rect bmn bmx)) = true ↔
      Common (.rect amn amx) (.rect bmn bmx) :=
    isIntersects_iff_common_point_closed (dom_facts _ ha).closed (dom_facts _ hb).closed
  rw [hs]
  exact ⟨Common.symm, Common.symm⟩

end Geo.Proofs.C02X
