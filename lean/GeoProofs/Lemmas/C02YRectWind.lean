/-
  C02Y, part 10: the winding number of `Rect::to_polygon` about a perturbed point `(x0 + x1·δ, y0 + y1·δ)` (a face
  sample of the specification), in the lexicographic order of the symbolic infinitesimal:

      windingE p (rect ring of (a,b)-(c,d)) ≠ 0  ⇔  b ≤ p.y < d  ∧  a ≤ p.x < c          (`rect_windingE`)

  (`LocateLemmas.rect_winding` is the case of an unperturbed point.)
-/
import GeoProofs.Lemmas.C02XCommon
import Mathlib.Tactic.Linarith
import Mathlib.Tactic.Ring

set_option linter.unusedSimpArgs false
set_option linter.unusedVariables false

namespace Geo.Proofs.C02Y
open Geo Geo.Proofs.Kernel Geo.Proofs.Spec Geo.Proofs.Loc

/-- `a0 + a1·δ < b0 + b1·δ` -/
def ELt (a0 a1 b0 b1 : Rat) : Prop := a0 < b0 ∨ (a0 = b0 ∧ a1 < b1)
/-- `a0 + a1·δ ≤ b0 + b1·δ` -/
def ELe (a0 a1 b0 b1 : Rat) : Prop := a0 < b0 ∨ (a0 = b0 ∧ a1 ≤ b1)

instance (a0 a1 b0 b1 : Rat) : Decidable (ELt a0 a1 b0 b1) := by unfold ELt; infer_instance
instance (a0 a1 b0 b1 : Rat) : Decidable (ELe a0 a1 b0 b1) := by unfold ELe; infer_instance

theorem eLt_iff' (a0 a1 b0 b1 : Rat) : eLt a0 a1 b0 b1 = true ↔ ELt a0 a1 b0 b1 := eLt_iff a0 a1 b0 b1
theorem eLe_iff' (a0 a1 b0 b1 : Rat) : eLe a0 a1 b0 b1 = true ↔ ELe a0 a1 b0 b1 := eLe_iff a0 a1 b0 b1

theorem ELt_iff_not_ELe (a0 a1 b0 b1 : Rat) : ELt a0 a1 b0 b1 ↔ ¬ ELe b0 b1 a0 a1 := by
  rw [← eLt_iff', ← eLe_iff']
  exact eLt_iff_not_eLe a0 a1 b0 b1

theorem ELe_of_le {k k' y0 y1 : Rat} (h : k' ≤ k) (h1 : ELe k 0 y0 y1) : ELe k' 0 y0 y1 := by
  rcases h1 with h1 | ⟨h1, h2⟩
  · exact Or.inl (lt_of_le_of_lt h h1)
  · rcases h.lt_or_eq with h' | h'
    · exact Or.inl (by linarith)
    · exact Or.inr ⟨by linarith, h2⟩

theorem ELt_of_le {k k' y0 y1 : Rat} (h : k ≤ k') (h1 : ELt y0 y1 k 0) : ELt y0 y1 k' 0 := by
  rcases h1 with h1 | ⟨h1, h2⟩
  · exact Or.inl (lt_of_lt_of_le h1 h)
  · rcases h.lt_or_eq with h' | h'
    · exact Or.inl (by linarith)
    · exact Or.inr ⟨by linarith, h2⟩

/-- a horizontal edge contributes nothing -/
theorem specInc_horiz (p : EPt) (x1 x2 y : Rat) : specInc p ⟨x1, y⟩ ⟨x2, y⟩ = 0 := by
  unfold specInc
  simp only
  cases h : eLe y 0 p.y0 p.y1 with
  | true =>
    cases hlt : eLt p.y0 p.y1 y 0 with
    | false => simp
    | true => exact absurd h ((eLt_iff_not_eLe _ _ _ _).mp hlt)
  | false => simp

theorem sign_up (p : EPt) (c b d : Rat) (hbd : b < d) :
    eCrossSign ⟨c, b⟩ ⟨c, d⟩ p > 0 ↔ ELt p.x0 p.x1 c 0 := by
  have k : 0 < d - b := by linarith
  have e0 : (c - c) * (p.y0 - d) - (d - b) * (p.x0 - c) = (d - b) * (c - p.x0) := by ring
  have e1 : (c - c) * p.y1 - (d - b) * p.x1 = (d - b) * (0 - p.x1) := by ring
  unfold eCrossSign ELt
  simp only
  rw [e0, e1]
  rcases lt_trichotomy p.x0 c with h | h | h
  · have h0 : 0 < (d - b) * (c - p.x0) := mul_pos k (by linarith)
    rw [if_pos h0]
    exact ⟨fun _ => Or.inl h, fun _ => by norm_num⟩
  · have h0 : (d - b) * (c - p.x0) = 0 := by rw [h]; ring
    rw [h0, if_neg (lt_irrefl (0 : Rat)), if_neg (lt_irrefl (0 : Rat))]
    by_cases h1 : p.x1 < 0
    · have h2 : 0 < (d - b) * (0 - p.x1) := mul_pos k (by linarith)
      rw [if_pos h2]
      exact ⟨fun _ => Or.inr ⟨h, h1⟩, fun _ => by norm_num⟩
    · have h2 : ¬ 0 < (d - b) * (0 - p.x1) := by
        intro h3
        have := mul_nonneg k.le (not_lt.mp h1)
        nlinarith
      rw [if_neg h2]
      constructor
      · intro h3
        exfalso
        by_cases h5 : (d - b) * (0 - p.x1) < 0
        · rw [if_pos h5] at h3; exact absurd h3 (by norm_num)
        · rw [if_neg h5] at h3; exact absurd h3 (by norm_num)
      · rintro (h3 | ⟨_, h3⟩)
        · exact absurd h3 (by rw [h]; exact lt_irrefl _)
        · exact absurd h3 h1
  · have h0 : (d - b) * (c - p.x0) < 0 := by
      have := mul_pos k (sub_pos.mpr h); nlinarith
    have h0' : ¬ 0 < (d - b) * (c - p.x0) := not_lt.mpr h0.le
    simp only [gt_iff_lt, h0', if_false, h0, if_true]
    constructor
    · intro h3; simp at h3
    · rintro (h3 | ⟨h3, _⟩)
      · exact absurd h3 (not_lt.mpr h.le)
      · exact absurd h3 (ne_of_gt h)

theorem sign_down (p : EPt) (a b d : Rat) (hbd : b < d) :
    eCrossSign ⟨a, d⟩ ⟨a, b⟩ p < 0 ↔ ELt p.x0 p.x1 a 0 := by
  have h := eCrossSign_swap ⟨a, b⟩ ⟨a, d⟩ p
  rw [h]
  have := sign_up p a b d hbd
  constructor
  · intro h1; exact this.mp (by linarith)
  · intro h1; have := this.mpr h1; linarith

/-- the right side of the ring, going up -/
theorem specInc_up (p : EPt) (c b d : Rat) (hbd : b < d) :
    specInc p ⟨c, b⟩ ⟨c, d⟩ =
      if ELe b 0 p.y0 p.y1 ∧ ELt p.y0 p.y1 d 0 ∧ ELt p.x0 p.x1 c 0 then 1 else 0 := by
  unfold specInc
  simp only
  by_cases h1 : eLe b 0 p.y0 p.y1 = true
  · rw [if_pos h1]
    by_cases h2 : eLt p.y0 p.y1 d 0 = true
    · rw [if_pos h2]
      by_cases h3 : eCrossSign ⟨c, b⟩ ⟨c, d⟩ p > 0
      · rw [if_pos h3, if_pos ⟨(eLe_iff' _ _ _ _).mp h1, (eLt_iff' _ _ _ _).mp h2, (sign_up p c b d hbd).mp h3⟩]
      · rw [if_neg h3, if_neg]
        rintro ⟨_, _, h⟩
        exact h3 ((sign_up p c b d hbd).mpr h)
    · rw [if_neg h2, if_neg]
      rintro ⟨_, h, _⟩
      exact h2 ((eLt_iff' _ _ _ _).mpr h)
  · rw [if_neg h1]
    have h2 : ¬ eLe d 0 p.y0 p.y1 = true := by
      intro h
      exact h1 ((eLe_iff' _ _ _ _).mpr (ELe_of_le hbd.le ((eLe_iff' _ _ _ _).mp h)))
    rw [if_neg h2, if_neg]
    rintro ⟨h, _, _⟩
    exact h1 ((eLe_iff' _ _ _ _).mpr h)

/-- the left side of the ring, going down -/
theorem specInc_down (p : EPt) (a b d : Rat) (hbd : b < d) :
    specInc p ⟨a, d⟩ ⟨a, b⟩ =
      if ELe b 0 p.y0 p.y1 ∧ ELt p.y0 p.y1 d 0 ∧ ELt p.x0 p.x1 a 0 then -1 else 0 := by
  unfold specInc
  simp only
  by_cases h1 : eLe d 0 p.y0 p.y1 = true
  · rw [if_pos h1]
    have h2 : ¬ eLt p.y0 p.y1 b 0 = true := by
      intro h
      have h3 := (eLt_iff_not_eLe _ _ _ _).mp h
      exact h3 ((eLe_iff' _ _ _ _).mpr (ELe_of_le hbd.le ((eLe_iff' _ _ _ _).mp h1)))
    rw [if_neg h2, if_neg]
    rintro ⟨_, h, _⟩
    exact ((ELt_iff_not_ELe _ _ _ _).mp h) ((eLe_iff' _ _ _ _).mp h1)
  · rw [if_neg h1]
    have hd : ELt p.y0 p.y1 d 0 := (ELt_iff_not_ELe _ _ _ _).mpr (fun h => h1 ((eLe_iff' _ _ _ _).mpr h))
    by_cases h2 : eLe b 0 p.y0 p.y1 = true
    · rw [if_pos h2]
      by_cases h3 : eCrossSign ⟨a, d⟩ ⟨a, b⟩ p < 0
      · rw [if_pos h3, if_pos ⟨(eLe_iff' _ _ _ _).mp h2, hd, (sign_down p a b d hbd).mp h3⟩]
      · rw [if_neg h3, if_neg]
        rintro ⟨_, _, h⟩
        exact h3 ((sign_down p a b d hbd).mpr h)
    · rw [if_neg h2, if_neg]
      rintro ⟨h, _, _⟩
      exact h2 ((eLe_iff' _ _ _ _).mpr h)

/-- **the winding number of `Rect::to_polygon` about a perturbed point** -/
theorem rect_windingE (a b c d : Rat) (hac : a < c) (hbd : b < d) (p : EPt) :
    windingE p (SM.rectToPolygon ⟨⟨a, b⟩, ⟨c, d⟩⟩) ≠ 0 ↔
      ELe b 0 p.y0 p.y1 ∧ ELt p.y0 p.y1 d 0 ∧ ELt p.x0 p.x1 c 0 ∧ ¬ ELt p.x0 p.x1 a 0 := by
  have hs : segs (SM.rectToPolygon ⟨⟨a, b⟩, ⟨c, d⟩⟩) =
      [(⟨c, b⟩, ⟨c, d⟩), (⟨c, d⟩, ⟨a, d⟩), (⟨a, d⟩, ⟨a, b⟩), (⟨a, b⟩, ⟨c, b⟩)] := rfl
  rw [windingE_eq_sum, hs]
  simp only [List.map_cons, List.map_nil, List.sum_cons, List.sum_nil, add_zero]
  rw [specInc_up p c b d hbd, specInc_horiz, specInc_down p a b d hbd, specInc_horiz]
  by_cases h1 : ELe b 0 p.y0 p.y1
  · by_cases h2 : ELt p.y0 p.y1 d 0
    · by_cases h3 : ELt p.x0 p.x1 c 0
      · by_cases h4 : ELt p.x0 p.x1 a 0
        · simp [h1, h2, h3, h4]
        · simp [h1, h2, h3, h4]
      · have h4 : ¬ ELt p.x0 p.x1 a 0 := fun h => h3 (ELt_of_le hac.le h)
        simp [h1, h2, h3, h4]
    · simp [h1, h2]
  · simp [h1]

end Geo.Proofs.C02Y
