/-
  Helper lemmas for C04: winding numbers of edge lists (append, snoc, reversal, degenerate edges,
  closing), the `dropTrailing` loop of `ring_to_shape_path`, closed rings.
-/
import GeoModel.BoolGlue
import GeoModel.BoolSpec
import GeoProofs.Lemmas.C05Area
import GeoProofs.Lemmas.C05Winding
import Mathlib.Tactic.Ring
import Mathlib.Tactic.Linarith

namespace Geo.Proofs.C04L
open Geo Geo.BoolGlue Geo.BoolSpec

/-! ### single edges -/

theorem edgeW_self (p a : Pt) : edgeW p a a = 0 := by
  unfold edgeW
  by_cases h : a.y ≤ p.y
  · have h' : ¬ p.y < a.y := Rat.not_lt.mpr h
    simp [h, h']
  · simp [h]

theorem cross_rev (s e p : Pt) : cross e s p = - cross s e p := by
  simp only [cross]; ring

/-- reversing an edge negates its contribution -/
theorem edgeW_swap (p s e : Pt) : edgeW p e s = - edgeW p s e := by
  unfold edgeW
  rw [cross_rev s e p]
  by_cases hs : s.y ≤ p.y <;> by_cases he : e.y ≤ p.y
  · have h1 : ¬ p.y < e.y := Rat.not_lt.mpr he
    have h2 : ¬ p.y < s.y := Rat.not_lt.mpr hs
    simp [hs, he, h1, h2]
  · have h1 : p.y < e.y := Rat.not_le.mp he
    simp only [hs, he, h1, if_true, if_false]
    by_cases hc : cross s e p > 0
    · have : - cross s e p < 0 := by linarith
      simp [hc, this]
    · have : ¬ (- cross s e p < 0) := by intro h; apply hc; linarith
      simp [hc, this]
  · have h2 : p.y < s.y := Rat.not_le.mp hs
    simp only [hs, he, h2, if_true, if_false]
    by_cases hc : cross s e p < 0
    · have : - cross s e p > 0 := by linarith
      simp [hc, this]
    · have : ¬ (- cross s e p > 0) := by intro h; apply hc; linarith
      simp [hc, this]
  · simp [hs, he]

/-! ### edge lists -/

theorem wind_append (p : Pt) (l1 l2 : List (Pt × Pt)) : wind p (l1 ++ l2) = wind p l1 + wind p l2 := by
  induction l1 with
  | nil => simp [wind]
  | cons x t ih =>
    obtain ⟨s, e⟩ := x
    simp only [List.cons_append, wind, ih]; omega

theorem segs_cons_cons (a b : Pt) (t : List Pt) : segs (a :: b :: t) = (a, b) :: segs (b :: t) := by
  simp [segs]

/-- appending one more coordinate adds one edge -/
theorem wind_segs_snoc (p a b : Pt) (l : List Pt) :
    wind p (segs (l ++ [a, b])) = wind p (segs (l ++ [a])) + edgeW p a b := by
  induction l with
  | nil => simp [segs, wind]
  | cons x t ih =>
    cases t with
    | nil => simp [segs, wind]
    | cons y t' =>
      simp only [List.cons_append, segs_cons_cons, wind] at ih ⊢
      rw [ih]; omega

/-- the winding number of a reversed coordinate list is the negated winding number -/
theorem wind_segs_reverse (p : Pt) (l : List Pt) : wind p (segs l.reverse) = - wind p (segs l) := by
  induction l with
  | nil => simp [segs, wind]
  | cons a t ih =>
    cases t with
    | nil => simp [segs, wind]
    | cons b t' =>
      have h1 : (a :: b :: t').reverse = t'.reverse ++ [b, a] := by simp
      have h2 : (b :: t').reverse = t'.reverse ++ [b] := by simp
      rw [h1, wind_segs_snoc, ← h2, ih, segs_cons_cons, edgeW_swap p a b]
      simp only [wind]; omega

/-! ### closed rings -/

theorem closed_decomp {a : Pt} {t : List Pt} (ht : t ≠ []) (hc : ringClosed (a :: t) = true) :
    t = t.dropLast ++ [a] := by
  have h1 : (a :: t).getLast? = t.getLast? := by
    cases t with
    | nil => exact absurd rfl ht
    | cons b t' => exact List.getLast?_cons_cons
  simp only [ringClosed, List.head?_cons] at hc
  rw [h1] at hc
  have h2 : t.getLast ht = a := by
    have := List.getLast?_eq_some_getLast ht
    rw [this] at hc
    exact (Option.some.inj (of_decide_eq_true hc)).symm
  have h3 := List.dropLast_concat_getLast ht
  rw [h2] at h3
  exact h3.symm

/-- `LineString::close` does not change the winding number of the implicitly closed path -/
theorem wind_close (p : Pt) (q : List Pt) : wind p (segs (SM.close q)) = wind p (closedSegs q) := by
  unfold SM.close closedSegs
  cases q with
  | nil => simp
  | cons a t =>
    by_cases hc : SM.isClosed (a :: t) = true
    · simp only [hc, if_true, List.take_succ_cons, List.take_zero]
      by_cases ht : t = []
      · subst ht; simp [segs, wind, edgeW_self]
      · have hd := closed_decomp (a := a) ht (by simpa [ringClosed, SM.isClosed] using hc)
        have e1 : a :: t = (a :: t.dropLast) ++ [a] := by
          rw [List.cons_append, ← hd]
        have e2 : a :: t ++ [a] = (a :: t.dropLast) ++ [a, a] := by
          rw [e1]; simp
        rw [e2, wind_segs_snoc, ← e1, edgeW_self]; omega
    · simp [hc]

/-! ### `dropTrailing` -/

theorem dropTrailing_cons (a b : Pt) (t : List Pt) :
    dropTrailing a (b :: t) =
      if ((dropTrailing a t).isEmpty && b == a) = true then [] else b :: dropTrailing a t := rfl

/-- stripping trailing copies of the closing coordinate does not change the winding number of the
path closed by that coordinate -/
theorem wind_dropTrailing (p a : Pt) : ∀ (l : List Pt) (h : Pt),
    wind p (segs (h :: dropTrailing a l ++ [a])) = wind p (segs (h :: l ++ [a])) := by
  intro l
  induction l with
  | nil => intro h; rfl
  | cons b t ih =>
    intro h
    rw [dropTrailing_cons]
    by_cases hc : ((dropTrailing a t).isEmpty && b == a) = true
    · rw [if_pos hc]
      simp only [Bool.and_eq_true, List.isEmpty_iff, beq_iff_eq] at hc
      obtain ⟨he, hb⟩ := hc
      subst hb
      have := ih b
      rw [he] at this
      simp only [List.nil_append, List.cons_append, segs_cons_cons, wind] at this ⊢
      simp only [segs, wind, edgeW_self] at this
      simp only [segs, wind]
      omega
    · rw [if_neg hc]
      simp only [List.cons_append, segs_cons_cons, wind]
      have := ih b
      simp only [List.cons_append] at this
      rw [this]

theorem dropTrailing_getLast (a : Pt) : ∀ (l : List Pt) (x : Pt),
    (dropTrailing a l).getLast? = some x → x ≠ a := by
  intro l
  induction l with
  | nil => intro x h; simp [dropTrailing] at h
  | cons b t ih =>
    intro x h
    rw [dropTrailing_cons] at h
    by_cases hc : ((dropTrailing a t).isEmpty && b == a) = true
    · rw [if_pos hc] at h; simp at h
    · rw [if_neg hc] at h
      by_cases he : dropTrailing a t = []
      · rw [he] at h
        simp only [List.getLast?_singleton, Option.some.injEq] at h
        subst h
        intro hb
        apply hc
        simp [he, hb]
      · have : (b :: dropTrailing a t).getLast? = (dropTrailing a t).getLast? := by
          cases hd : dropTrailing a t with
          | nil => exact absurd hd he
          | cons y t' => exact List.getLast?_cons_cons
        rw [this] at h
        exact ih x h

/-- what is stripped is a run of copies of `a` -/
theorem dropTrailing_decomp (a : Pt) : ∀ (l : List Pt),
    ∃ k : Nat, l = dropTrailing a l ++ List.replicate k a := by
  intro l
  induction l with
  | nil => exact ⟨0, rfl⟩
  | cons b t ih =>
    obtain ⟨k, hk⟩ := ih
    rw [dropTrailing_cons]
    by_cases hc : ((dropTrailing a t).isEmpty && b == a) = true
    · rw [if_pos hc]
      simp only [Bool.and_eq_true, List.isEmpty_iff, beq_iff_eq] at hc
      obtain ⟨he, hb⟩ := hc
      refine ⟨k + 1, ?_⟩
      rw [he] at hk
      rw [hk, hb]
      simp [List.replicate_succ]
    · rw [if_neg hc]
      refine ⟨k, ?_⟩
      conv => lhs; rw [hk]
      simp

end Geo.Proofs.C04L
