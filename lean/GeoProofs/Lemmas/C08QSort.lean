/-
  C08 helper lemmas (Graham scan, global correctness) — the sort step.

  `Le0 o a b` is the exact comparator of `graham_hull` around the pivot `o` (counter-clockwise
  first, nearer first on a common ray); `SortedAround o l` says consecutive elements of `l` are
  related by it. The model's insertion sort yields a list sorted w.r.t. the model comparator
  `grahamLe` (which is total); where the rounded distances order collinear points like the exact
  ones (`DistExact`, true for `rnd = id`) that is `SortedAround`. In the half-plane of points
  lexicographically greater than the pivot `Le0` is transitive, so `SortedAround` lists are
  pairwise sorted.
-/
import GeoModel.Hull
import GeoProofs.Lemmas.C08Mem
import GeoProofs.Lemmas.C08QAlg
import Mathlib.Tactic.Linarith
import Mathlib.Tactic.Ring

namespace Geo.Proofs.C08
open Geo Geo.Hull

/-! ### `lex_cmp` -/

theorem lexLt_iff (a b : Pt) : lexLt a b = true ↔ a.x < b.x ∨ (a.x = b.x ∧ a.y < b.y) := by
  simp [lexLt]

theorem lexLt_irrefl (a : Pt) : ¬ lexLt a a = true := by
  rw [lexLt_iff]; rintro (h | ⟨_, h⟩) <;> exact lt_irrefl _ h

theorem lexLt_trans {a b c : Pt} (h1 : lexLt a b = true) (h2 : lexLt b c = true) :
    lexLt a c = true := by
  rw [lexLt_iff] at *
  rcases h1 with h1 | ⟨h1, h1'⟩ <;> rcases h2 with h2 | ⟨h2, h2'⟩
  · left; linarith
  · left; linarith
  · left; linarith
  · right; exact ⟨by linarith, by linarith⟩

theorem lexLt_asymm {a b : Pt} (h1 : lexLt a b = true) : ¬ lexLt b a = true :=
  fun h2 => lexLt_irrefl a (lexLt_trans h1 h2)

theorem lexLt_tricho (a b : Pt) (h : ¬ lexLt a b = true) : a = b ∨ lexLt b a = true := by
  rw [lexLt_iff] at *
  have h1 : ¬ a.x < b.x := fun hh => h (Or.inl hh)
  have h2 : ¬ (a.x = b.x ∧ a.y < b.y) := fun hh => h (Or.inr hh)
  rcases lt_or_eq_of_le (not_lt.1 h1) with hx | hx
  · right; left; exact hx
  · have h3 : ¬ a.y < b.y := fun hh => h2 ⟨hx.symm, hh⟩
    rcases lt_or_eq_of_le (not_lt.1 h3) with hy | hy
    · right; right; exact ⟨hx, hy⟩
    · left
      cases a; cases b; simp only [Pt.mk.injEq]; exact ⟨hx.symm, hy.symm⟩

/-- `a` is lexicographically greater than the pivot `o` -/
def InH (o a : Pt) : Prop := HP (a.x - o.x) (a.y - o.y)

theorem inH_iff_lexLt (o a : Pt) : InH o a ↔ lexLt o a = true := by
  rw [lexLt_iff]; unfold InH HP
  constructor
  · rintro (h | ⟨h1, h2⟩)
    · left; linarith
    · right; exact ⟨by linarith, by linarith⟩
  · rintro (h | ⟨h1, h2⟩)
    · left; linarith
    · right; exact ⟨by linarith, by linarith⟩

theorem InH.ne {o a : Pt} (h : InH o a) : a ≠ o := by
  intro he; subst he
  unfold InH HP at h
  simp at h

/-- the pivot itself (a repeated coordinate) or a point greater than it -/
def InH0 (o a : Pt) : Prop := a = o ∨ InH o a

/-! ### the exact comparator -/

/-- `a` comes before-or-with `b` in the order of `graham_hull` around `o`: strictly
counter-clockwise, or on a common line through `o` and not farther -/
def Le0 (o a b : Pt) : Prop := 0 < cross o a b ∨ (cross o a b = 0 ∧ dist2 o a ≤ dist2 o b)

theorem Le0.cross_nonneg {o a b : Pt} (h : Le0 o a b) : 0 ≤ cross o a b := by
  rcases h with h | ⟨h, _⟩
  · exact le_of_lt h
  · exact le_of_eq h.symm

theorem dist2_vec (o a : Pt) :
    dist2 o a = (a.x - o.x) * (a.x - o.x) + (a.y - o.y) * (a.y - o.y) := by
  unfold dist2; ring

theorem dist2_self (o : Pt) : dist2 o o = 0 := by unfold dist2; ring

theorem dist2_pos {o a : Pt} (h : InH o a) : 0 < dist2 o a := by
  rw [dist2_vec]
  rcases h with h | ⟨_, h⟩
  · have := mul_pos h h
    have := mul_self_nonneg (a.y - o.y)
    linarith
  · have := mul_pos h h
    have := mul_self_nonneg (a.x - o.x)
    linarith

theorem le0_pivot_left (o c : Pt) : Le0 o o c := by
  right
  refine ⟨cross_self_left _ _, ?_⟩
  rw [dist2_self, dist2_vec]
  have := mul_self_nonneg (c.x - o.x)
  have := mul_self_nonneg (c.y - o.y)
  linarith

/-- nothing but the pivot comes before-or-with the pivot -/
theorem le0_pivot_right {o a : Pt} (ha : InH0 o a) (h : Le0 o a o) : a = o := by
  rcases ha with ha | ha
  · exact ha
  · rcases h with h | ⟨_, h⟩
    · rw [cross_self_outer] at h; exact absurd h (lt_irrefl _)
    · rw [dist2_self] at h
      have := dist2_pos ha
      linarith

/-- on a common ray the farther point is a multiple `t ≥ 1` of the nearer one -/
theorem le0_ray {o a b : Pt} (ha : InH o a) (hb : InH o b) (h0 : cross o a b = 0)
    (hd : dist2 o a ≤ dist2 o b) :
    ∃ t : Rat, 1 ≤ t ∧ b.x - o.x = t * (a.x - o.x) ∧ b.y - o.y = t * (a.y - o.y) := by
  rw [cross_vec] at h0
  rw [dist2_vec, dist2_vec] at hd
  exact hp_ray ha hb h0 hd

theorem cross_trans_nonneg {o a b c : Pt} (ha : InH o a) (hb : InH o b) (hc : InH o c)
    (h1 : 0 ≤ cross o a b) (h2 : 0 ≤ cross o b c) : 0 ≤ cross o a c := by
  rw [cross_vec] at *
  exact hp_trans_nonneg ha hb hc h1 h2

theorem cross_trans_pos_left {o a b c : Pt} (ha : InH o a) (hb : InH o b) (hc : InH o c)
    (h1 : 0 < cross o a b) (h2 : 0 ≤ cross o b c) : 0 < cross o a c := by
  rw [cross_vec] at *
  exact hp_trans_pos_left ha hb hc h1 h2

theorem cross_trans_pos_right {o a b c : Pt} (ha : InH o a) (hb : InH o b) (hc : InH o c)
    (h1 : 0 ≤ cross o a b) (h2 : 0 < cross o b c) : 0 < cross o a c := by
  rw [cross_vec] at *
  exact hp_trans_pos_right ha hb hc h1 h2

/-- the exact comparator is transitive on the points greater than the pivot -/
theorem le0_trans_inH {o a b c : Pt} (ha : InH o a) (hb : InH o b) (hc : InH o c)
    (h1 : Le0 o a b) (h2 : Le0 o b c) : Le0 o a c := by
  rcases h1 with h1 | ⟨h1, d1⟩
  · exact Or.inl (cross_trans_pos_left ha hb hc h1 h2.cross_nonneg)
  · rcases h2 with h2 | ⟨h2, d2⟩
    · exact Or.inl (cross_trans_pos_right ha hb hc (le_of_eq h1.symm) h2)
    · right
      refine ⟨?_, le_trans d1 d2⟩
      obtain ⟨t, _, hx, hy⟩ := le0_ray ha hb h1 d1
      obtain ⟨s, _, hx', hy'⟩ := le0_ray hb hc h2 d2
      rw [cross_vec, hx', hy', hx, hy]; ring

/-- … and on those points together with repetitions of the pivot -/
theorem le0_trans {o a b c : Pt} (ha : InH0 o a) (hb : InH0 o b) (hc : InH0 o c)
    (h1 : Le0 o a b) (h2 : Le0 o b c) : Le0 o a c := by
  rcases ha with ha | ha
  · subst ha; exact le0_pivot_left _ _
  · rcases hb with hb | hb
    · subst hb
      exact absurd (le0_pivot_right (Or.inr ha) h1) ha.ne
    · rcases hc with hc | hc
      · subst hc
        exact absurd (le0_pivot_right (Or.inr hb) h2) hb.ne
      · exact le0_trans_inH ha hb hc h1 h2

/-! ### sortedness -/

/-- consecutive elements are related by `R` -/
def Chain2 (R : Pt → Pt → Prop) : List Pt → Prop
  | a :: b :: t => R a b ∧ Chain2 R (b :: t)
  | _ => True

theorem Chain2.tail {R : Pt → Pt → Prop} {a : Pt} {t : List Pt} (h : Chain2 R (a :: t)) :
    Chain2 R t := by
  cases t with
  | nil => trivial
  | cons b u => exact h.2

theorem Chain2.imp {R S : Pt → Pt → Prop} : ∀ {l : List Pt},
    (∀ a ∈ l, ∀ b ∈ l, R a b → S a b) → Chain2 R l → Chain2 S l
  | [], _, _ => trivial
  | [_], _, _ => trivial
  | a :: b :: t, hi, h => by
    refine ⟨hi a (by simp) b (by simp) h.1, ?_⟩
    exact Chain2.imp (fun x hx y hy => hi x (List.mem_cons_of_mem _ hx) y (List.mem_cons_of_mem _ hy)) h.2

/-- a chain of a relation that is transitive on the elements of the list is pairwise related -/
theorem Chain2.pairwise {R : Pt → Pt → Prop} : ∀ {l : List Pt},
    (∀ a ∈ l, ∀ b ∈ l, ∀ c ∈ l, R a b → R b c → R a c) → Chain2 R l → l.Pairwise R
  | [], _, _ => List.Pairwise.nil
  | [a], _, _ => by simp
  | a :: b :: t, htr, h => by
    have htr' : ∀ x ∈ b :: t, ∀ y ∈ b :: t, ∀ z ∈ b :: t, R x y → R y z → R x z :=
      fun x hx y hy z hz => htr x (List.mem_cons_of_mem _ hx) y (List.mem_cons_of_mem _ hy) z
        (List.mem_cons_of_mem _ hz)
    have ih : (b :: t).Pairwise R := Chain2.pairwise htr' h.2
    refine List.Pairwise.cons ?_ ih
    intro c hc
    rcases List.mem_cons.1 hc with hc | hc
    · subst hc; exact h.1
    · have hbc : R b c := (List.pairwise_cons.1 ih).1 c hc
      exact htr a (by simp) b (by simp) c (List.mem_cons_of_mem _ (List.mem_cons_of_mem _ hc)) h.1 hbc

/-- **Sortedness.** Consecutive elements `a, b` of `l`: `cross o a b > 0`, or `= 0` with `a` not
farther from `o` than `b`. -/
def SortedAround (o : Pt) (l : List Pt) : Prop := Chain2 (Le0 o) l

/-- a list sorted around the pivot whose elements are the pivot or greater is pairwise sorted -/
theorem SortedAround.pairwise {o : Pt} {l : List Pt} (hH : ∀ x ∈ l, InH0 o x)
    (h : SortedAround o l) : l.Pairwise (Le0 o) :=
  Chain2.pairwise (fun a ha b hb c hc => le0_trans (hH a ha) (hH b hb) (hH c hc)) h

/-! ### the model comparator and its insertion sort -/

theorem orient_ccw_iff' (a b c : Pt) : orient a b c = .ccw ↔ 0 < cross a b c := by
  unfold orient
  dsimp only
  constructor
  · intro h
    split at h
    · assumption
    · split at h <;> simp at h
  · intro h
    rw [if_pos h]

theorem orient_cw_iff (a b c : Pt) : orient a b c = .cw ↔ cross a b c < 0 := by
  unfold orient
  dsimp only
  constructor
  · intro h
    split at h
    · simp at h
    · split at h
      · assumption
      · simp at h
  · intro h
    rw [if_neg (by linarith), if_pos h]

theorem orient_col_iff (a b c : Pt) : orient a b c = .col ↔ cross a b c = 0 := by
  unfold orient
  dsimp only
  constructor
  · intro h
    split at h
    · simp at h
    · split at h
      · simp at h
      · rename_i h1 h2; linarith [not_lt.1 h1, not_lt.1 h2]
  · intro h
    rw [if_neg (by linarith), if_neg (by linarith)]

theorem cross_mid (o a b : Pt) : cross a o b = - cross o a b := by
  unfold cross; ring

/-- the comparator of `graham_hull`, spelled out with the exact determinant around the pivot -/
theorem grahamLe_iff (rnd : Rat → Rat) (o q r : Pt) :
    grahamLe rnd o q r = true ↔
      0 < cross o q r ∨ (cross o q r = 0 ∧ dist2r rnd o q ≤ dist2r rnd o r) := by
  unfold grahamLe
  split
  · rename_i h
    rw [orient_ccw_iff', cross_mid] at h
    constructor
    · intro hf; simp at hf
    · rintro (h1 | ⟨h1, _⟩) <;> linarith
  · rename_i h
    rw [orient_cw_iff, cross_mid] at h
    constructor
    · intro _; left; linarith
    · intro _; rfl
  · rename_i h
    rw [orient_col_iff, cross_mid] at h
    have h0 : cross o q r = 0 := by linarith
    constructor
    · intro hd; right; exact ⟨h0, by simpa using hd⟩
    · rintro (h1 | ⟨_, h1⟩)
      · linarith
      · simpa using h1

/-- the comparator is total (whatever the rounding) -/
theorem grahamLe_total (rnd : Rat → Rat) (o q r : Pt) (h : ¬ grahamLe rnd o q r = true) :
    grahamLe rnd o r q = true := by
  rw [grahamLe_iff] at *
  have hs : cross o r q = - cross o q r := cross_swap o q r
  rcases lt_trichotomy (cross o q r) 0 with hc | hc | hc
  · left; linarith
  · right
    refine ⟨by linarith, ?_⟩
    by_contra hd
    exact h (Or.inr ⟨hc, le_of_lt (not_le.1 hd)⟩)
  · exact absurd (Or.inl hc) h

/-- sorted w.r.t. the model comparator -/
def GrahamSorted (rnd : Rat → Rat) (o : Pt) (l : List Pt) : Prop :=
  Chain2 (fun a b => grahamLe rnd o a b = true) l

theorem grahamInsert_head (rnd : Rat → Rat) (o p : Pt) (q : Pt) (t : List Pt) :
    ∃ u, grahamInsert rnd o p (q :: t) = p :: u ∨
      (¬ grahamLe rnd o p q = true ∧ grahamInsert rnd o p (q :: t) = q :: grahamInsert rnd o p t) := by
  simp only [grahamInsert]
  by_cases h : grahamLe rnd o p q = true
  · exact ⟨q :: t, Or.inl (by rw [if_pos h])⟩
  · exact ⟨[], Or.inr ⟨h, by rw [if_neg h]⟩⟩

theorem grahamInsert_sorted (rnd : Rat → Rat) (o p : Pt) : ∀ l : List Pt,
    GrahamSorted rnd o l → GrahamSorted rnd o (grahamInsert rnd o p l) := by
  intro l
  induction l with
  | nil => intro _; simp [grahamInsert, GrahamSorted, Chain2]
  | cons q t ih =>
    intro hs
    simp only [grahamInsert]
    by_cases h : grahamLe rnd o p q = true
    · rw [if_pos h]; exact ⟨h, hs⟩
    · rw [if_neg h]
      have hqp := grahamLe_total rnd o p q h
      have ih' := ih (Chain2.tail hs)
      cases t with
      | nil => simp only [grahamInsert]; exact ⟨hqp, trivial⟩
      | cons r u =>
        simp only [grahamInsert] at ih' ⊢
        by_cases h2 : grahamLe rnd o p r = true
        · rw [if_pos h2] at ih' ⊢; exact ⟨hqp, ih'⟩
        · rw [if_neg h2] at ih' ⊢; exact ⟨hs.1, ih'⟩

/-- [T] the sort step of the model (insertion sort, any rounding) returns a list sorted w.r.t.
the comparator of `graham_hull` -/
theorem grahamSort_sorted (rnd : Rat → Rat) (o : Pt) (l : List Pt) :
    GrahamSorted rnd o (grahamSort rnd o l) := by
  unfold grahamSort
  induction l with
  | nil => simp [GrahamSorted, Chain2]
  | cons q t ih => simp only [List.foldr]; exact grahamInsert_sorted rnd o q _ ih

/-- the rounded distances order points collinear with the pivot like the exact distances -/
def DistExact (rnd : Rat → Rat) (o : Pt) (l : List Pt) : Prop :=
  ∀ q ∈ l, ∀ r ∈ l, cross o q r = 0 → (dist2r rnd o q ≤ dist2r rnd o r ↔ dist2 o q ≤ dist2 o r)

/-- exact scalar types (`i64` without overflow): nothing is rounded -/
theorem distExact_id (o : Pt) (l : List Pt) : DistExact id o l := by
  intro q _ r _ _
  have h : ∀ a : Pt, dist2r id o a = dist2 o a := by
    intro a; unfold dist2r dist2; simp
  rw [h, h]

/-- [T] sortedness of the sort step in exact terms -/
theorem grahamSort_sortedAround (rnd : Rat → Rat) (o : Pt) (l : List Pt) (hd : DistExact rnd o l) :
    SortedAround o (grahamSort rnd o l) := by
  refine Chain2.imp ?_ (grahamSort_sorted rnd o l)
  intro a ha b hb hab
  rw [grahamSort_mem] at ha hb
  rw [grahamLe_iff] at hab
  rcases hab with h | ⟨h0, h⟩
  · exact Or.inl h
  · exact Or.inr ⟨h0, (hd a ha b hb h0).1 h⟩

end Geo.Proofs.C08
