/-
  GeoProofs.Lemmas.LISpec — case structure of `lineIntersection` (GeoModel/LineIntersection.lean)
  in a form usable by proofs: staged unfolding, a branch eliminator in terms of determinant signs,
  and the geometric facts for each branch.
-/
import GeoModel.LineIntersection
import GeoProofs.Lemmas.SegmentSpec

namespace Geo.Proofs.Kernel
open Geo

/-! ### bounding boxes -/

theorem lineBBox_eq (a b : Pt) :
    lineBBox a b = (⟨min a.x b.x, min a.y b.y⟩, ⟨max a.x b.x, max a.y b.y⟩) := by
  unfold lineBBox SM.rectNew
  by_cases hx : a.x < b.x <;> by_cases hy : a.y < b.y <;>
    simp [hx, hy, min_def, max_def, le_of_lt, not_lt.mp, not_le.mpr]

end Geo.Proofs.Kernel
