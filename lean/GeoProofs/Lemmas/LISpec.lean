/-
  GeoProofs.Lemmas.LISpec — case structure of `lineIntersection` (GeoModel/LineIntersection.lean)
  in a form usable by proofs: staged unfolding, a branch eliminator in terms of determinant signs,
  and the geometric facts for each branch.
-/
import GeoModel.LineIntersection
import GeoProofs.Lemmas.SegmentSpec

namespace Geo.Proofs.Kernel
open Geo

/-! ### bounding boxes -/

set_option linter.unusedSimpArgs false in
theorem lineBBox_eq (a b : Pt) :
    lineBBox a b = (⟨min a.x b.x, min a.y b.y⟩, ⟨max a.x b.x, max a.y b.y⟩) := by
  unfold lineBBox SM.rectNew
  by_cases hx : a.x < b.x <;> by_cases hy : a.y < b.y <;>
    simp [hx, hy, min_def, max_def, le_of_lt, not_lt.mp, not_le.mpr]

/-- membership in `Line::bounding_rect` is `point_in_rect` -/
theorem rectCoord_bbox (a b x : Pt) :
    rectCoord (lineBBox a b).1 (lineBBox a b).2 x = pointInRect x a b := by
  rw [Bool.eq_iff_iff, lineBBox_eq, rectCoord_iff, pointInRect_iff_min_max]
  dsimp only
  tauto

/-- the envelope test of `line_intersection` -/
def boxMeet (p1 p2 q1 q2 : Pt) : Bool :=
  rectRect (lineBBox p1 p2).1 (lineBBox p1 p2).2 (lineBBox q1 q2).1 (lineBBox q1 q2).2

theorem boxMeet_iff (p1 p2 q1 q2 : Pt) :
    boxMeet p1 p2 q1 q2 = true ↔ ∃ x, pointInRect x p1 p2 = true ∧ pointInRect x q1 q2 = true := by
  unfold boxMeet
  rw [rectRect_iff]
  · simp only [rectCoord_bbox]
  all_goals (rw [lineBBox_eq]; dsimp only; exact min_le_max)

theorem boxMeet_symm (p1 p2 q1 q2 : Pt) : boxMeet p1 p2 q1 q2 = boxMeet q1 q2 p1 p2 := by
  rw [Bool.eq_iff_iff, boxMeet_iff, boxMeet_iff]
  constructor <;> rintro ⟨x, h1, h2⟩ <;> exact ⟨x, h2, h1⟩

theorem boxMeet_of_common {p1 p2 q1 q2 x : Pt} (h1 : SegMem x p1 p2) (h2 : SegMem x q1 q2) :
    boxMeet p1 p2 q1 q2 = true :=
  (boxMeet_iff _ _ _ _).mpr ⟨x, h1.inRect, h2.inRect⟩

/-! ### staged form of `lineIntersection` -/

/-- both on the same strict side -/
def sameSide (o1 o2 : Ori) : Bool := (o1 == .cw && o2 == .cw) || (o1 == .ccw && o2 == .ccw)

/-- the same in terms of determinants -/
def SameStrict (x y : Rat) : Prop := (x < 0 ∧ y < 0) ∨ (0 < x ∧ 0 < y)

theorem sameSide_iff (a b c d : Pt) :
    sameSide (orient a b c) (orient a b d) = true ↔ SameStrict (cross a b c) (cross a b d) := by
  simp only [sameSide, SameStrict, Bool.or_eq_true, Bool.and_eq_true, beq_iff_eq, orient_cw_iff,
    orient_ccw_iff]

/-- the end-point copy cascade of the improper case, in source order -/
def cascadePt (p1 p2 q1 q2 : Pt) : Pt :=
  if p1 == q1 || p1 == q2 then p1
  else if p2 == q1 || p2 == q2 then p2
  else if orient p1 p2 q1 == .col then q1
  else if orient p1 p2 q2 == .col then q2
  else if orient q1 q2 p1 == .col then p1
  else p2

/-- the ten-row table of `collinear_intersection` on abstract membership bits -/
def colTable (a b c d : Bool) (p1 p2 q1 q2 : Pt) : Option LI :=
  if a && b then some (.collinear q1 q2)
  else if c && d then some (.collinear p1 p2)
  else if a && !b && c && !d && q1 == p1 then some (.single q1 false)
  else if a && c then some (.collinear q1 p1)
  else if a && !b && !c && d && q1 == p2 then some (.single q1 false)
  else if a && d then some (.collinear q1 p2)
  else if !a && b && c && !d && q2 == p1 then some (.single q2 false)
  else if b && c then some (.collinear q2 p1)
  else if !a && b && !c && d && q2 == p2 then some (.single q2 false)
  else if b && d then some (.collinear q2 p2)
  else none

theorem collinearIntersection_def (p1 p2 q1 q2 : Pt) :
    collinearIntersection p1 p2 q1 q2 =
      colTable (pointInRect q1 p1 p2) (pointInRect q2 p1 p2) (pointInRect p1 q1 q2)
        (pointInRect p2 q1 q2) p1 p2 q1 q2 := by
  rw [← rectCoord_bbox, ← rectCoord_bbox, ← rectCoord_bbox, ← rectCoord_bbox]
  rfl

theorem li_def (p1 p2 q1 q2 : Pt) :
    lineIntersection p1 p2 q1 q2 =
      if !boxMeet p1 p2 q1 q2 then none else
      if sameSide (orient p1 p2 q1) (orient p1 p2 q2) then none else
      if sameSide (orient q1 q2 p1) (orient q1 q2 p2) then none else
      if orient p1 p2 q1 == .col && orient p1 p2 q2 == .col && orient q1 q2 p1 == .col
          && orient q1 q2 p2 == .col then collinearIntersection p1 p2 q1 q2 else
      if orient p1 p2 q1 == .col || orient p1 p2 q2 == .col || orient q1 q2 p1 == .col
          || orient q1 q2 p2 == .col then some (.single (cascadePt p1 p2 q1 q2) false)
      else some (.single (properPoint p1 p2 q1 q2) true) := by
  unfold lineIntersection boxMeet cascadePt sameSide
  rfl

/-- Branch eliminator for `lineIntersection`, with the branch conditions stated on the exact
determinants. -/
theorem li_cases (p1 p2 q1 q2 : Pt) (motive : Option LI → Prop)
    (hbox : boxMeet p1 p2 q1 q2 = false → motive none)
    (hsp : boxMeet p1 p2 q1 q2 = true → SameStrict (cross p1 p2 q1) (cross p1 p2 q2) → motive none)
    (hsq : boxMeet p1 p2 q1 q2 = true → SameStrict (cross q1 q2 p1) (cross q1 q2 p2) → motive none)
    (hcol : boxMeet p1 p2 q1 q2 = true → cross p1 p2 q1 = 0 → cross p1 p2 q2 = 0 →
      cross q1 q2 p1 = 0 → cross q1 q2 p2 = 0 → motive (collinearIntersection p1 p2 q1 q2))
    (himp : boxMeet p1 p2 q1 q2 = true → ¬ SameStrict (cross p1 p2 q1) (cross p1 p2 q2) →
      ¬ SameStrict (cross q1 q2 p1) (cross q1 q2 p2) →
      ¬ (cross p1 p2 q1 = 0 ∧ cross p1 p2 q2 = 0 ∧ cross q1 q2 p1 = 0 ∧ cross q1 q2 p2 = 0) →
      (cross p1 p2 q1 = 0 ∨ cross p1 p2 q2 = 0 ∨ cross q1 q2 p1 = 0 ∨ cross q1 q2 p2 = 0) →
      motive (some (.single (cascadePt p1 p2 q1 q2) false)))
    (hprop : boxMeet p1 p2 q1 q2 = true → ¬ SameStrict (cross p1 p2 q1) (cross p1 p2 q2) →
      ¬ SameStrict (cross q1 q2 p1) (cross q1 q2 p2) →
      cross p1 p2 q1 ≠ 0 → cross p1 p2 q2 ≠ 0 → cross q1 q2 p1 ≠ 0 → cross q1 q2 p2 ≠ 0 →
      motive (some (.single (properPoint p1 p2 q1 q2) true))) :
    motive (lineIntersection p1 p2 q1 q2) := by
  rw [li_def]
  by_cases hb : boxMeet p1 p2 q1 q2 = true
  · rw [hb, if_neg (by simp)]
    by_cases h1 : sameSide (orient p1 p2 q1) (orient p1 p2 q2) = true
    · rw [if_pos h1]; exact hsp hb ((sameSide_iff _ _ _ _).mp h1)
    rw [if_neg h1]
    by_cases h2 : sameSide (orient q1 q2 p1) (orient q1 q2 p2) = true
    · rw [if_pos h2]; exact hsq hb ((sameSide_iff _ _ _ _).mp h2)
    rw [if_neg h2]
    rw [sameSide_iff] at h1 h2
    by_cases h3 : (orient p1 p2 q1 == .col && orient p1 p2 q2 == .col && orient q1 q2 p1 == .col
          && orient q1 q2 p2 == .col) = true
    · rw [if_pos h3]
      simp only [Bool.and_eq_true, beq_iff_eq, orient_col_iff] at h3
      exact hcol hb h3.1.1.1 h3.1.1.2 h3.1.2 h3.2
    rw [if_neg h3]
    simp only [Bool.and_eq_true, beq_iff_eq, orient_col_iff] at h3
    by_cases h4 : (orient p1 p2 q1 == .col || orient p1 p2 q2 == .col || orient q1 q2 p1 == .col
          || orient q1 q2 p2 == .col) = true
    · rw [if_pos h4]
      simp only [Bool.or_eq_true, beq_iff_eq, orient_col_iff, or_assoc] at h4
      exact himp hb h1 h2 (fun h => h3 ⟨⟨⟨h.1, h.2.1⟩, h.2.2.1⟩, h.2.2.2⟩) h4
    rw [if_neg h4]
    simp only [Bool.or_eq_true, beq_iff_eq, orient_col_iff] at h4
    exact hprop hb h1 h2 (fun h => h4 (Or.inl (Or.inl (Or.inl h)))) (fun h => h4 (Or.inl (Or.inl (Or.inr h))))
      (fun h => h4 (Or.inl (Or.inr h))) (fun h => h4 (Or.inr h))
  · have hb' : boxMeet p1 p2 q1 q2 = false := by simpa using hb
    rw [hb', if_pos (by simp)]
    exact hbox hb'


/-! ### geometric content of the branches -/

theorem no_common_of_sameStrict {a b c d : Pt} (h : SameStrict (cross a b c) (cross a b d)) :
    ¬ ∃ x, SegMem x a b ∧ SegMem x c d := by
  rintro ⟨x, hx, ⟨s, s0, s1, ex, ey⟩⟩
  have hz := hx.cross_eq_zero
  rw [cross_affine a b c d x s ex ey] at hz
  rcases h with ⟨h1, h2⟩ | ⟨h1, h2⟩
  · have := convex_neg s0 s1 h1 h2; linarith
  · have := convex_pos s0 s1 h1 h2; linarith

theorem no_common_of_sameStrict' {a b c d : Pt} (h : SameStrict (cross c d a) (cross c d b)) :
    ¬ ∃ x, SegMem x a b ∧ SegMem x c d := by
  rintro ⟨x, h1, h2⟩
  exact no_common_of_sameStrict h ⟨x, h2, h1⟩

theorem mul_nonpos_of_not_sameStrict {x y : Rat} (h : ¬ SameStrict x y) : x * y ≤ 0 := by
  by_contra hc
  have hc : 0 < x * y := lt_of_not_ge hc
  rcases mul_pos_iff.mp hc with h' | h'
  · exact h (Or.inr h')
  · exact h (Or.inl h')

theorem eq_zero_of_not_sameStrict_self {x : Rat} (h : ¬ SameStrict x x) : x = 0 := by
  rcases lt_trichotomy x 0 with hx | hx | hx
  · exact absurd (Or.inl ⟨hx, hx⟩) h
  · exact hx
  · exact absurd (Or.inr ⟨hx, hx⟩) h

/-- In the improper and proper branches the supporting lines are not parallel. -/
theorem nonparallel {p1 p2 q1 q2 : Pt}
    (h1 : ¬ SameStrict (cross p1 p2 q1) (cross p1 p2 q2))
    (h2 : ¬ SameStrict (cross q1 q2 p1) (cross q1 q2 p2))
    (h3 : ¬ (cross p1 p2 q1 = 0 ∧ cross p1 p2 q2 = 0 ∧ cross q1 q2 p1 = 0 ∧ cross q1 q2 p2 = 0)) :
    cross p1 p2 q1 ≠ cross p1 p2 q2 ∧ cross q1 q2 p1 ≠ cross q1 q2 p2 := by
  have key : cross p1 p2 q1 ≠ cross p1 p2 q2 := by
    intro h
    have hd := cross_diff p1 p2 q1 q2
    rw [h, sub_self, neg_zero] at hd
    have hg : cross q1 q2 p1 = cross q1 q2 p2 := by linarith
    rw [h] at h1
    rw [hg] at h2
    have e1 := eq_zero_of_not_sameStrict_self h1
    have e2 := eq_zero_of_not_sameStrict_self h2
    exact h3 ⟨by rw [h, e1], e1, by rw [hg, e2], e2⟩
  refine ⟨key, ?_⟩
  intro h
  have hd := cross_diff p1 p2 q1 q2
  rw [h, sub_self] at hd
  apply key; linarith

/-- The improper case returns a point of both segments. -/
theorem cascadePt_mem {p1 p2 q1 q2 : Pt}
    (h1 : ¬ SameStrict (cross p1 p2 q1) (cross p1 p2 q2))
    (h2 : ¬ SameStrict (cross q1 q2 p1) (cross q1 q2 p2))
    (h3 : ¬ (cross p1 p2 q1 = 0 ∧ cross p1 p2 q2 = 0 ∧ cross q1 q2 p1 = 0 ∧ cross q1 q2 p2 = 0))
    (h4 : cross p1 p2 q1 = 0 ∨ cross p1 p2 q2 = 0 ∨ cross q1 q2 p1 = 0 ∨ cross q1 q2 p2 = 0) :
    SegMem (cascadePt p1 p2 q1 q2) p1 p2 ∧ SegMem (cascadePt p1 p2 q1 q2) q1 q2 := by
  obtain ⟨hf, hg⟩ := nonparallel h1 h2 h3
  have mf := mul_nonpos_of_not_sameStrict h1
  have mg := mul_nonpos_of_not_sameStrict h2
  unfold cascadePt
  split
  · rename_i h
    simp only [Bool.or_eq_true, beq_iff_eq] at h
    refine ⟨SegMem_left _ _, ?_⟩
    rcases h with h | h
    · rw [h]; exact SegMem_left _ _
    · rw [h]; exact SegMem_right _ _
  split
  · rename_i _ h
    simp only [Bool.or_eq_true, beq_iff_eq] at h
    refine ⟨SegMem_right _ _, ?_⟩
    rcases h with h | h
    · rw [h]; exact SegMem_left _ _
    · rw [h]; exact SegMem_right _ _
  split
  · rename_i _ _ h
    rw [beq_iff_eq, orient_col_iff] at h
    exact ⟨endpoint_mem h (fun h' => hf (by rw [h, h'])) mg, SegMem_left _ _⟩
  split
  · rename_i _ _ _ h
    rw [beq_iff_eq, orient_col_iff] at h
    exact ⟨endpoint_mem' h (fun h' => hf (by rw [h, h'])) mg, SegMem_right _ _⟩
  split
  · rename_i _ _ _ _ h
    rw [beq_iff_eq, orient_col_iff] at h
    exact ⟨SegMem_left _ _, endpoint_mem h (fun h' => hg (by rw [h, h'])) mf⟩
  · rename_i _ _ n1 n2 n3
    rw [beq_iff_eq, orient_col_iff] at n1 n2 n3
    have h : cross q1 q2 p2 = 0 := by
      rcases h4 with h | h | h | h
      · exact absurd h n1
      · exact absurd h n2
      · exact absurd h n3
      · exact h
    exact ⟨SegMem_right _ _, endpoint_mem' h (fun h' => hg (by rw [h, h'])) mf⟩

/-- The exact Cramer point of the model is the crossing point of the two segments. -/
theorem properPoint_eq_crossPt {p1 p2 q1 q2 : Pt} (hg : cross q1 q2 p1 ≠ cross q1 q2 p2) :
    properPoint p1 p2 q1 q2 = crossPt p1 p2 q1 q2 := by
  have hD : cross q1 q2 p1 - cross q1 q2 p2 ≠ 0 := sub_ne_zero.mpr hg
  have hden : cross q1 q2 p1 - cross q1 q2 p2 =
      (p1.y - p2.y) * (q2.x - q1.x) - (q1.y - q2.y) * (p2.x - p1.x) := by unfold cross; ring
  apply Pt.ext'
  · show ((p2.x - p1.x) * (q1.x * q2.y - q2.x * q1.y) - (q2.x - q1.x) * (p1.x * p2.y - p2.x * p1.y)) /
        ((p1.y - p2.y) * (q2.x - q1.x) - (q1.y - q2.y) * (p2.x - p1.x)) =
      p1.x + cross q1 q2 p1 / (cross q1 q2 p1 - cross q1 q2 p2) * (p2.x - p1.x)
    rw [← hden]
    generalize hW : cross q1 q2 p1 - cross q1 q2 p2 = W at hD
    field_simp
    rw [← hW]; unfold cross; ring
  · show ((q1.y - q2.y) * (p1.x * p2.y - p2.x * p1.y) - (p1.y - p2.y) * (q1.x * q2.y - q2.x * q1.y)) /
        ((p1.y - p2.y) * (q2.x - q1.x) - (q1.y - q2.y) * (p2.x - p1.x)) =
      p1.y + cross q1 q2 p1 / (cross q1 q2 p1 - cross q1 q2 p2) * (p2.y - p1.y)
    rw [← hden]
    generalize hW : cross q1 q2 p1 - cross q1 q2 p2 = W at hD
    field_simp
    rw [← hW]; unfold cross; ring

/-- The proper case returns a point of both segments. -/
theorem properPoint_mem {p1 p2 q1 q2 : Pt}
    (h1 : ¬ SameStrict (cross p1 p2 q1) (cross p1 p2 q2))
    (h2 : ¬ SameStrict (cross q1 q2 p1) (cross q1 q2 p2))
    (hq1 : cross p1 p2 q1 ≠ 0) :
    SegMem (properPoint p1 p2 q1 q2) p1 p2 ∧ SegMem (properPoint p1 p2 q1 q2) q1 q2 := by
  obtain ⟨hf, hg⟩ := nonparallel h1 h2 (fun h => hq1 h.1)
  rw [properPoint_eq_crossPt hg]
  exact crossPt_mem ⟨mul_nonpos_of_not_sameStrict h1, hf⟩ ⟨mul_nonpos_of_not_sameStrict h2, hg⟩

theorem inRect_iff_SegMem {a b x : Pt} (h : cross a b x = 0) :
    pointInRect x a b = true ↔ SegMem x a b :=
  ⟨fun hr => SegMem_of_cross_of_inRect h hr, fun hm => hm.inRect⟩


/-! ### the collinear table -/

theorem colTable_isSome (a b c d : Bool) (p1 p2 q1 q2 : Pt) :
    (colTable a b c d p1 p2 q1 q2).isSome =
      ((a && b) || (c && d) || (a && c) || (a && d) || (b && c) || (b && d)) := by
  cases a <;> cases b <;> cases c <;> cases d <;> simp [colTable] <;> split <;> rfl

/-- Every `Collinear` answer of the table names two end points whose membership bits are set;
mixed pairs are distinct points. -/
theorem colTable_collinear {a b c d : Bool} {p1 p2 q1 q2 x y : Pt}
    (h : colTable a b c d p1 p2 q1 q2 = some (.collinear x y)) :
    (x = q1 ∧ y = q2 ∧ a = true ∧ b = true) ∨ (x = p1 ∧ y = p2 ∧ c = true ∧ d = true) ∨
    (x = q1 ∧ y = p1 ∧ a = true ∧ c = true ∧ q1 ≠ p1) ∨
    (x = q1 ∧ y = p2 ∧ a = true ∧ d = true ∧ q1 ≠ p2) ∨
    (x = q2 ∧ y = p1 ∧ b = true ∧ c = true ∧ q2 ≠ p1) ∨
    (x = q2 ∧ y = p2 ∧ b = true ∧ d = true ∧ q2 ≠ p2) := by
  cases a <;> cases b <;> cases c <;> cases d <;> simp [colTable] at h ⊢ <;>
    (try split at h) <;> simp_all

/-- Every `SinglePoint` answer of the table is improper and is an end point of both segments
whose membership bits are set. -/
theorem colTable_single {a b c d : Bool} {p1 p2 q1 q2 x : Pt} {f : Bool}
    (h : colTable a b c d p1 p2 q1 q2 = some (.single x f)) :
    f = false ∧
    ((x = q1 ∧ a = true) ∨ (x = q2 ∧ b = true)) ∧ ((x = p1 ∧ c = true) ∨ (x = p2 ∧ d = true)) := by
  cases a <;> cases b <;> cases c <;> cases d <;> simp [colTable] at h ⊢ <;>
    (try split at h) <;> simp_all

/-- Equality of two answers up to the direction of a collinear overlap. -/
def LIEquiv : Option LI → Option LI → Prop
  | none, none => True
  | some (.single x f), some (.single y g) => x = y ∧ f = g
  | some (.collinear x y), some (.collinear x' y') => (x = x' ∧ y = y') ∨ (x = y' ∧ y = x')
  | _, _ => False

/-- The table is symmetric under exchanging the operands, except possibly when all four bits are
set (then both segments contain each other's end points; handled geometrically). -/
theorem colTable_symm (a b c d : Bool) (p1 p2 q1 q2 : Pt) (h : ¬ (a = true ∧ b = true ∧ c = true ∧ d = true)) :
    LIEquiv (colTable a b c d p1 p2 q1 q2) (colTable c d a b q1 q2 p1 p2) := by
  have e1 : (p1 == q1) = (q1 == p1) := BEq.comm
  have e2 : (p1 == q2) = (q2 == p1) := BEq.comm
  have e3 : (p2 == q1) = (q1 == p2) := BEq.comm
  have e4 : (p2 == q2) = (q2 == p2) := BEq.comm
  unfold colTable
  rw [e1, e2, e3, e4]
  cases a <;> cases b <;> cases c <;> cases d <;> simp at h ⊢ <;>
    (try split) <;> simp_all [LIEquiv]

theorem colTable_all (p1 p2 q1 q2 : Pt) :
    colTable true true true true p1 p2 q1 q2 = some (.collinear q1 q2) := by
  simp [colTable]

/-! ### one-dimensional facts for the all-collinear branch -/

/-- Two intervals of a line that share a point: at least two of the four "end point inside the
other interval" facts hold. -/
theorem oneD_two_bits {γ δ t : Rat} (t0 : 0 ≤ t) (t1 : t ≤ 1)
    (h : (γ ≤ t ∧ t ≤ δ) ∨ (δ ≤ t ∧ t ≤ γ)) :
    let A := (0 ≤ γ ∧ γ ≤ 1) ∨ (1 ≤ γ ∧ γ ≤ 0)
    let B := (0 ≤ δ ∧ δ ≤ 1) ∨ (1 ≤ δ ∧ δ ≤ 0)
    let C := (γ ≤ 0 ∧ 0 ≤ δ) ∨ (δ ≤ 0 ∧ 0 ≤ γ)
    let D := (γ ≤ 1 ∧ 1 ≤ δ) ∨ (δ ≤ 1 ∧ 1 ≤ γ)
    (A ∧ B) ∨ (C ∧ D) ∨ (A ∧ C) ∨ (A ∧ D) ∨ (B ∧ C) ∨ (B ∧ D) := by
  intro A B C D
  rcases h with ⟨h1, h2⟩ | ⟨h1, h2⟩
  · have g1 : γ ≤ 1 := by linarith
    have d0 : 0 ≤ δ := by linarith
    rcases le_or_gt 0 γ with g0 | g0
    · have hA : A := Or.inl ⟨g0, g1⟩
      rcases le_or_gt δ 1 with d1 | d1
      · exact Or.inl ⟨hA, Or.inl ⟨d0, d1⟩⟩
      · exact Or.inr (Or.inr (Or.inr (Or.inl ⟨hA, Or.inl ⟨g1, d1.le⟩⟩)))
    · have hC : C := Or.inl ⟨g0.le, d0⟩
      rcases le_or_gt δ 1 with d1 | d1
      · exact Or.inr (Or.inr (Or.inr (Or.inr (Or.inl ⟨Or.inl ⟨d0, d1⟩, hC⟩))))
      · exact Or.inr (Or.inl ⟨hC, Or.inl ⟨g1, d1.le⟩⟩)
  · have d1 : δ ≤ 1 := by linarith
    have g0 : 0 ≤ γ := by linarith
    rcases le_or_gt 0 δ with d0 | d0
    · have hB : B := Or.inl ⟨d0, d1⟩
      rcases le_or_gt γ 1 with g1 | g1
      · exact Or.inl ⟨Or.inl ⟨g0, g1⟩, hB⟩
      · exact Or.inr (Or.inr (Or.inr (Or.inr (Or.inr ⟨hB, Or.inr ⟨d1, g1.le⟩⟩))))
    · have hC : C := Or.inr ⟨d0.le, g0⟩
      rcases le_or_gt γ 1 with g1 | g1
      · exact Or.inr (Or.inr (Or.inl ⟨Or.inl ⟨g0, g1⟩, hC⟩))
      · exact Or.inr (Or.inl ⟨hC, Or.inr ⟨d1, g1.le⟩⟩)

/-- In the all-collinear branch, segments that share a point set at least two membership bits
(so the ten-row table answers `some`). -/
theorem col_two_bits {p1 p2 q1 q2 : Pt}
    (hq1 : cross p1 p2 q1 = 0) (hq2 : cross p1 p2 q2 = 0)
    (hp1 : cross q1 q2 p1 = 0) (hp2 : cross q1 q2 p2 = 0)
    (hcommon : ∃ x, SegMem x p1 p2 ∧ SegMem x q1 q2) :
    ((pointInRect q1 p1 p2 && pointInRect q2 p1 p2) || (pointInRect p1 q1 q2 && pointInRect p2 q1 q2) ||
     (pointInRect q1 p1 p2 && pointInRect p1 q1 q2) || (pointInRect q1 p1 p2 && pointInRect p2 q1 q2) ||
     (pointInRect q2 p1 p2 && pointInRect p1 q1 q2) || (pointInRect q2 p1 p2 && pointInRect p2 q1 q2)) = true := by
  obtain ⟨x, hxp, hxq⟩ := hcommon
  by_cases hp : p1 = p2
  · subst hp
    rw [SegMem_degenerate] at hxp
    subst hxp
    have : pointInRect x q1 q2 = true := hxq.inRect
    simp [this]
  · obtain ⟨γ, hcx, hcy⟩ := exists_param hp hq1
    obtain ⟨δ, hdx, hdy⟩ := exists_param hp hq2
    obtain ⟨t, t0, t1, hxx, hxy⟩ := hxp
    have e0x : p1.x = p1.x + 0 * (p2.x - p1.x) := by ring
    have e0y : p1.y = p1.y + 0 * (p2.y - p1.y) := by ring
    have e1x : p2.x = p1.x + 1 * (p2.x - p1.x) := by ring
    have e1y : p2.y = p1.y + 1 * (p2.y - p1.y) := by ring
    have hA := (inRect_iff_SegMem hq1).trans (SegMem_param hp e0x e0y e1x e1y hcx hcy)
    have hB := (inRect_iff_SegMem hq2).trans (SegMem_param hp e0x e0y e1x e1y hdx hdy)
    have hC := (inRect_iff_SegMem hp1).trans (SegMem_param hp hcx hcy hdx hdy e0x e0y)
    have hD := (inRect_iff_SegMem hp2).trans (SegMem_param hp hcx hcy hdx hdy e1x e1y)
    have hX := (SegMem_param hp hcx hcy hdx hdy hxx hxy).mp hxq
    have := oneD_two_bits t0 t1 hX
    simp only [Bool.or_eq_true, Bool.and_eq_true, hA, hB, hC, hD]
    simp only [or_assoc] at this ⊢
    exact this

/-- In the all-collinear branch, if all four membership bits are set the two segments have the
same end points (up to order). -/
theorem col_all_bits {p1 p2 q1 q2 : Pt}
    (hq1 : cross p1 p2 q1 = 0) (hq2 : cross p1 p2 q2 = 0)
    (hp1 : cross q1 q2 p1 = 0) (hp2 : cross q1 q2 p2 = 0)
    (ha : pointInRect q1 p1 p2 = true) (hb : pointInRect q2 p1 p2 = true)
    (hc : pointInRect p1 q1 q2 = true) (hd : pointInRect p2 q1 q2 = true) :
    (q1 = p1 ∧ q2 = p2) ∨ (q1 = p2 ∧ q2 = p1) := by
  by_cases hp : p1 = p2
  · subst hp
    rw [inRect_iff_SegMem hq1, SegMem_degenerate] at ha
    rw [inRect_iff_SegMem hq2, SegMem_degenerate] at hb
    exact Or.inl ⟨ha, hb⟩
  · obtain ⟨γ, hcx, hcy⟩ := exists_param hp hq1
    obtain ⟨δ, hdx, hdy⟩ := exists_param hp hq2
    have e0x : p1.x = p1.x + 0 * (p2.x - p1.x) := by ring
    have e0y : p1.y = p1.y + 0 * (p2.y - p1.y) := by ring
    have e1x : p2.x = p1.x + 1 * (p2.x - p1.x) := by ring
    have e1y : p2.y = p1.y + 1 * (p2.y - p1.y) := by ring
    have hA := ((inRect_iff_SegMem hq1).trans (SegMem_param hp e0x e0y e1x e1y hcx hcy)).mp ha
    have hB := ((inRect_iff_SegMem hq2).trans (SegMem_param hp e0x e0y e1x e1y hdx hdy)).mp hb
    have hC := ((inRect_iff_SegMem hp1).trans (SegMem_param hp hcx hcy hdx hdy e0x e0y)).mp hc
    have hD := ((inRect_iff_SegMem hp2).trans (SegMem_param hp hcx hcy hdx hdy e1x e1y)).mp hd
    have hγ : 0 ≤ γ ∧ γ ≤ 1 := by rcases hA with h | h <;> constructor <;> linarith
    have hδ : 0 ≤ δ ∧ δ ≤ 1 := by rcases hB with h | h <;> constructor <;> linarith
    rcases hC with ⟨c1, c2⟩ | ⟨c1, c2⟩
    · -- γ = 0
      have g : γ = 0 := by linarith [hγ.1]
      have d' : δ = 1 := by rcases hD with ⟨_, h⟩ | ⟨_, h⟩ <;> linarith [hδ.2, hγ.2]
      left
      constructor
      · apply Pt.ext'
        · rw [hcx, g]; ring
        · rw [hcy, g]; ring
      · apply Pt.ext'
        · rw [hdx, d']; ring
        · rw [hdy, d']; ring
    · have d' : δ = 0 := by linarith [hδ.1]
      have g : γ = 1 := by rcases hD with ⟨_, h⟩ | ⟨_, h⟩ <;> linarith [hδ.2, hγ.2]
      right
      constructor
      · apply Pt.ext'
        · rw [hcx, g]; ring
        · rw [hcy, g]; ring
      · apply Pt.ext'
        · rw [hdx, d']; ring
        · rw [hdy, d']; ring

/-! ### which branch answers (determination lemmas) -/

theorem not_sameStrict_zero_left {y : Rat} : ¬ SameStrict 0 y := by
  rintro (⟨h, _⟩ | ⟨h, _⟩) <;> exact lt_irrefl _ h

theorem not_sameStrict_zero_right {x : Rat} : ¬ SameStrict x 0 := by
  rintro (⟨_, h⟩ | ⟨_, h⟩) <;> exact lt_irrefl _ h

theorem li_none_of_box {p1 p2 q1 q2 : Pt} (h : boxMeet p1 p2 q1 q2 = false) :
    lineIntersection p1 p2 q1 q2 = none := by
  rw [li_def, h]; rfl

theorem li_none_of_sameStrict_p {p1 p2 q1 q2 : Pt}
    (h : SameStrict (cross p1 p2 q1) (cross p1 p2 q2)) : lineIntersection p1 p2 q1 q2 = none := by
  refine li_cases p1 p2 q1 q2 (fun r => r = none) (fun _ => rfl) (fun _ _ => rfl) (fun _ _ => rfl)
    ?_ ?_ ?_
  · intro _ h1 _ _ _; rw [h1] at h; exact absurd h not_sameStrict_zero_left
  · intro _ h1 _ _ _; exact absurd h h1
  · intro _ h1 _ _ _ _ _; exact absurd h h1

theorem li_none_of_sameStrict_q {p1 p2 q1 q2 : Pt}
    (h : SameStrict (cross q1 q2 p1) (cross q1 q2 p2)) : lineIntersection p1 p2 q1 q2 = none := by
  refine li_cases p1 p2 q1 q2 (fun r => r = none) (fun _ => rfl) (fun _ _ => rfl) (fun _ _ => rfl)
    ?_ ?_ ?_
  · intro _ _ _ h1 _; rw [h1] at h; exact absurd h not_sameStrict_zero_left
  · intro _ _ h2 _ _; exact absurd h h2
  · intro _ _ h2 _ _ _ _; exact absurd h h2

theorem li_eq_col {p1 p2 q1 q2 : Pt} (hb : boxMeet p1 p2 q1 q2 = true)
    (hq1 : cross p1 p2 q1 = 0) (hq2 : cross p1 p2 q2 = 0)
    (hp1 : cross q1 q2 p1 = 0) (hp2 : cross q1 q2 p2 = 0) :
    lineIntersection p1 p2 q1 q2 = collinearIntersection p1 p2 q1 q2 := by
  refine li_cases p1 p2 q1 q2 (fun r => r = collinearIntersection p1 p2 q1 q2) ?_ ?_ ?_
    (fun _ _ _ _ _ => rfl) ?_ ?_
  · intro h; rw [hb] at h; cases h
  · intro _ h; rw [hq1] at h; exact absurd h not_sameStrict_zero_left
  · intro _ h; rw [hp1] at h; exact absurd h not_sameStrict_zero_left
  · intro _ _ _ h3 _; exact absurd ⟨hq1, hq2, hp1, hp2⟩ h3
  · intro _ _ _ h _ _ _; exact absurd hq1 h

theorem li_eq_improper {p1 p2 q1 q2 : Pt} (hb : boxMeet p1 p2 q1 q2 = true)
    (h1 : ¬ SameStrict (cross p1 p2 q1) (cross p1 p2 q2))
    (h2 : ¬ SameStrict (cross q1 q2 p1) (cross q1 q2 p2))
    (h3 : ¬ (cross p1 p2 q1 = 0 ∧ cross p1 p2 q2 = 0 ∧ cross q1 q2 p1 = 0 ∧ cross q1 q2 p2 = 0))
    (h4 : cross p1 p2 q1 = 0 ∨ cross p1 p2 q2 = 0 ∨ cross q1 q2 p1 = 0 ∨ cross q1 q2 p2 = 0) :
    lineIntersection p1 p2 q1 q2 = some (.single (cascadePt p1 p2 q1 q2) false) := by
  refine li_cases p1 p2 q1 q2 (fun r => r = some (.single (cascadePt p1 p2 q1 q2) false)) ?_ ?_ ?_
    ?_ (fun _ _ _ _ _ => rfl) ?_
  · intro h; rw [hb] at h; cases h
  · intro _ h; exact absurd h h1
  · intro _ h; exact absurd h h2
  · intro _ a b c d; exact absurd ⟨a, b, c, d⟩ h3
  · intro _ _ _ a b c d
    rcases h4 with h | h | h | h
    · exact absurd h a
    · exact absurd h b
    · exact absurd h c
    · exact absurd h d

theorem li_eq_proper {p1 p2 q1 q2 : Pt} (hb : boxMeet p1 p2 q1 q2 = true)
    (h1 : ¬ SameStrict (cross p1 p2 q1) (cross p1 p2 q2))
    (h2 : ¬ SameStrict (cross q1 q2 p1) (cross q1 q2 p2))
    (a : cross p1 p2 q1 ≠ 0) (b : cross p1 p2 q2 ≠ 0) (c : cross q1 q2 p1 ≠ 0) (d : cross q1 q2 p2 ≠ 0) :
    lineIntersection p1 p2 q1 q2 = some (.single (properPoint p1 p2 q1 q2) true) := by
  refine li_cases p1 p2 q1 q2 (fun r => r = some (.single (properPoint p1 p2 q1 q2) true)) ?_ ?_ ?_
    ?_ ?_ (fun _ _ _ _ _ _ _ => rfl)
  · intro h; rw [hb] at h; cases h
  · intro _ h; exact absurd h h1
  · intro _ h; exact absurd h h2
  · intro _ a' _ _ _; exact absurd a' a
  · intro _ _ _ _ h4
    rcases h4 with h | h | h | h
    · exact absurd h a
    · exact absurd h b
    · exact absurd h c
    · exact absurd h d

theorem cascadePt_endpoint (p1 p2 q1 q2 : Pt) :
    cascadePt p1 p2 q1 q2 = p1 ∨ cascadePt p1 p2 q1 q2 = p2 ∨ cascadePt p1 p2 q1 q2 = q1 ∨
      cascadePt p1 p2 q1 q2 = q2 := by
  unfold cascadePt
  split
  · exact Or.inl rfl
  split
  · exact Or.inr (Or.inl rfl)
  split
  · exact Or.inr (Or.inr (Or.inl rfl))
  split
  · exact Or.inr (Or.inr (Or.inr rfl))
  split
  · exact Or.inl rfl
  · exact Or.inr (Or.inl rfl)

/-! ### exactness of the collinear answers -/

/-- Segments are convex. -/
theorem SegMem_convex {a b x y z : Pt} (hx : SegMem x a b) (hy : SegMem y a b) (hz : SegMem z x y) :
    SegMem z a b := by
  obtain ⟨s1, a0, a1, hxx, hxy⟩ := hx
  obtain ⟨s2, b0, b1, hyx, hyy⟩ := hy
  obtain ⟨r, r0, r1, hzx, hzy⟩ := hz
  have r1' : 0 ≤ 1 - r := by linarith
  refine ⟨(1 - r) * s1 + r * s2, ?_, ?_, ?_, ?_⟩
  · have := mul_nonneg r1' a0; have := mul_nonneg r0 b0; linarith
  · have := mul_nonneg r1' (sub_nonneg.mpr a1); have := mul_nonneg r0 (sub_nonneg.mpr b1); nlinarith
  · rw [hzx, hxx, hyx]; ring
  · rw [hzy, hxy, hyy]; ring

/-- Stronger read-out of the table: the mixed rows also know which bits are *not* set. -/
theorem colTable_collinear' {a b c d : Bool} {p1 p2 q1 q2 x y : Pt}
    (h : colTable a b c d p1 p2 q1 q2 = some (.collinear x y)) :
    (x = q1 ∧ y = q2 ∧ a = true ∧ b = true) ∨ (x = p1 ∧ y = p2 ∧ c = true ∧ d = true) ∨
    (x = q1 ∧ y = p1 ∧ a = true ∧ b = false ∧ c = true ∧ d = false) ∨
    (x = q1 ∧ y = p2 ∧ a = true ∧ b = false ∧ c = false ∧ d = true) ∨
    (x = q2 ∧ y = p1 ∧ a = false ∧ b = true ∧ c = true ∧ d = false) ∨
    (x = q2 ∧ y = p2 ∧ a = false ∧ b = true ∧ c = false ∧ d = true) := by
  cases a <;> cases b <;> cases c <;> cases d <;> simp [colTable] at h ⊢ <;>
    (try split at h) <;> simp_all

theorem colTable_single' {a b c d : Bool} {p1 p2 q1 q2 x : Pt} {f : Bool}
    (h : colTable a b c d p1 p2 q1 q2 = some (.single x f)) :
    (x = q1 ∧ x = p1 ∧ a = true ∧ b = false ∧ c = true ∧ d = false) ∨
    (x = q1 ∧ x = p2 ∧ a = true ∧ b = false ∧ c = false ∧ d = true) ∨
    (x = q2 ∧ x = p1 ∧ a = false ∧ b = true ∧ c = true ∧ d = false) ∨
    (x = q2 ∧ x = p2 ∧ a = false ∧ b = true ∧ c = false ∧ d = true) := by
  cases a <;> cases b <;> cases c <;> cases d <;> simp [colTable] at h ⊢ <;>
    (try split at h) <;> simp_all

/-- closes one leaf of a one-dimensional case analysis -/
local macro "oneD" : tactic =>
  `(tactic| first | (exfalso; linarith) | (left; constructor <;> linarith) | (right; constructor <;> linarith))

/-- One-dimensional core: on a line, with `q1 ∈ [p1,p2]`, `q2 ∉ [p1,p2]`, `p1 ∈ [q1,q2]`,
`p2 ∉ [q1,q2]`, the common part of the two segments is `[q1, p1]`. -/
theorem col_sub_q1p1 {p1 p2 q1 q2 z : Pt}
    (hq1 : cross p1 p2 q1 = 0) (hq2 : cross p1 p2 q2 = 0)
    (hp1 : cross q1 q2 p1 = 0) (hp2 : cross q1 q2 p2 = 0)
    (ha : pointInRect q1 p1 p2 = true) (hb : pointInRect q2 p1 p2 = false)
    (hc : pointInRect p1 q1 q2 = true) (hd : pointInRect p2 q1 q2 = false)
    (hz1 : SegMem z p1 p2) (hz2 : SegMem z q1 q2) : SegMem z q1 p1 := by
  by_cases hp : p1 = p2
  · subst hp; rw [hc] at hd; cases hd
  · obtain ⟨γ, hcx, hcy⟩ := exists_param hp hq1
    obtain ⟨δ, hdx, hdy⟩ := exists_param hp hq2
    obtain ⟨ζ, z0, z1, hzx, hzy⟩ := hz1
    have e0x : p1.x = p1.x + 0 * (p2.x - p1.x) := by ring
    have e0y : p1.y = p1.y + 0 * (p2.y - p1.y) := by ring
    have e1x : p2.x = p1.x + 1 * (p2.x - p1.x) := by ring
    have e1y : p2.y = p1.y + 1 * (p2.y - p1.y) := by ring
    have hA := ((inRect_iff_SegMem hq1).trans (SegMem_param hp e0x e0y e1x e1y hcx hcy)).mp ha
    have hB : ¬ _ := fun h => by
      have := ((inRect_iff_SegMem hq2).trans (SegMem_param hp e0x e0y e1x e1y hdx hdy)).mpr h
      rw [hb] at this; cases this
    have hC := ((inRect_iff_SegMem hp1).trans (SegMem_param hp hcx hcy hdx hdy e0x e0y)).mp hc
    have hD : ¬ _ := fun h => by
      have := ((inRect_iff_SegMem hp2).trans (SegMem_param hp hcx hcy hdx hdy e1x e1y)).mpr h
      rw [hd] at this; cases this
    have hX := (SegMem_param hp hcx hcy hdx hdy hzx hzy).mp hz2
    rw [SegMem_param hp hcx hcy e0x e0y hzx hzy]
    simp only [not_or, not_and_or, not_le] at hB hD
    obtain ⟨hB1, hB2⟩ := hB
    obtain ⟨hD1, hD2⟩ := hD
    rcases hA with ⟨a1, a2⟩ | ⟨a1, a2⟩ <;> rcases hC with ⟨c1, c2⟩ | ⟨c1, c2⟩ <;>
      rcases hX with ⟨x1, x2⟩ | ⟨x1, x2⟩ <;> rcases hB1 with b1 | b1 <;> rcases hB2 with b2 | b2 <;>
      rcases hD1 with d1 | d1 <;> rcases hD2 with d2 | d2 <;> oneD

theorem cross_rev_zero {c d x : Pt} (h : cross c d x = 0) : cross d c x = 0 := by
  rw [cross_rev, h, neg_zero]

theorem col_sub_q1p2 {p1 p2 q1 q2 z : Pt}
    (hq1 : cross p1 p2 q1 = 0) (hq2 : cross p1 p2 q2 = 0)
    (hp1 : cross q1 q2 p1 = 0) (hp2 : cross q1 q2 p2 = 0)
    (ha : pointInRect q1 p1 p2 = true) (hb : pointInRect q2 p1 p2 = false)
    (hc : pointInRect p1 q1 q2 = false) (hd : pointInRect p2 q1 q2 = true)
    (hz1 : SegMem z p1 p2) (hz2 : SegMem z q1 q2) : SegMem z q1 p2 :=
  col_sub_q1p1 (cross_rev_zero hq1) (cross_rev_zero hq2) hp2 hp1
    (by rw [pointInRect_symm]; exact ha) (by rw [pointInRect_symm]; exact hb) hd hc
    (SegMem_symm hz1) hz2

theorem col_sub_q2p1 {p1 p2 q1 q2 z : Pt}
    (hq1 : cross p1 p2 q1 = 0) (hq2 : cross p1 p2 q2 = 0)
    (hp1 : cross q1 q2 p1 = 0) (hp2 : cross q1 q2 p2 = 0)
    (ha : pointInRect q1 p1 p2 = false) (hb : pointInRect q2 p1 p2 = true)
    (hc : pointInRect p1 q1 q2 = true) (hd : pointInRect p2 q1 q2 = false)
    (hz1 : SegMem z p1 p2) (hz2 : SegMem z q1 q2) : SegMem z q2 p1 :=
  col_sub_q1p1 hq2 hq1 (cross_rev_zero hp1) (cross_rev_zero hp2) hb ha
    (by rw [pointInRect_symm]; exact hc) (by rw [pointInRect_symm]; exact hd) hz1 (SegMem_symm hz2)

theorem col_sub_q2p2 {p1 p2 q1 q2 z : Pt}
    (hq1 : cross p1 p2 q1 = 0) (hq2 : cross p1 p2 q2 = 0)
    (hp1 : cross q1 q2 p1 = 0) (hp2 : cross q1 q2 p2 = 0)
    (ha : pointInRect q1 p1 p2 = false) (hb : pointInRect q2 p1 p2 = true)
    (hc : pointInRect p1 q1 q2 = false) (hd : pointInRect p2 q1 q2 = true)
    (hz1 : SegMem z p1 p2) (hz2 : SegMem z q1 q2) : SegMem z q2 p2 :=
  col_sub_q1p2 hq2 hq1 (cross_rev_zero hp1) (cross_rev_zero hp2) hb ha
    (by rw [pointInRect_symm]; exact hc) (by rw [pointInRect_symm]; exact hd) hz1 (SegMem_symm hz2)

/-- In the all-collinear branch a `Collinear` answer is exactly the common part of the segments. -/
theorem col_overlap_exact {p1 p2 q1 q2 x y : Pt}
    (hq1 : cross p1 p2 q1 = 0) (hq2 : cross p1 p2 q2 = 0)
    (hp1 : cross q1 q2 p1 = 0) (hp2 : cross q1 q2 p2 = 0)
    (h : collinearIntersection p1 p2 q1 q2 = some (.collinear x y)) (z : Pt) :
    (SegMem z p1 p2 ∧ SegMem z q1 q2) ↔ SegMem z x y := by
  rw [collinearIntersection_def] at h
  have ha := fun h => (inRect_iff_SegMem hq1).mp h
  have hb := fun h => (inRect_iff_SegMem hq2).mp h
  have hc := fun h => (inRect_iff_SegMem hp1).mp h
  have hd := fun h => (inRect_iff_SegMem hp2).mp h
  rcases colTable_collinear' h with ⟨ex, ey, b1, b2⟩ | ⟨ex, ey, b1, b2⟩ | ⟨ex, ey, b1, b2, b3, b4⟩ |
    ⟨ex, ey, b1, b2, b3, b4⟩ | ⟨ex, ey, b1, b2, b3, b4⟩ | ⟨ex, ey, b1, b2, b3, b4⟩ <;> rw [ex, ey]
  · exact ⟨fun h => h.2, fun h => ⟨SegMem_convex (ha b1) (hb b2) h, h⟩⟩
  · exact ⟨fun h => h.1, fun h => ⟨h, SegMem_convex (hc b1) (hd b2) h⟩⟩
  · exact ⟨fun h => col_sub_q1p1 hq1 hq2 hp1 hp2 b1 b2 b3 b4 h.1 h.2,
      fun h => ⟨SegMem_convex (ha b1) (SegMem_left _ _) h, SegMem_convex (SegMem_left _ _) (hc b3) h⟩⟩
  · exact ⟨fun h => col_sub_q1p2 hq1 hq2 hp1 hp2 b1 b2 b3 b4 h.1 h.2,
      fun h => ⟨SegMem_convex (ha b1) (SegMem_right _ _) h, SegMem_convex (SegMem_left _ _) (hd b4) h⟩⟩
  · exact ⟨fun h => col_sub_q2p1 hq1 hq2 hp1 hp2 b1 b2 b3 b4 h.1 h.2,
      fun h => ⟨SegMem_convex (hb b2) (SegMem_left _ _) h, SegMem_convex (SegMem_right _ _) (hc b3) h⟩⟩
  · exact ⟨fun h => col_sub_q2p2 hq1 hq2 hp1 hp2 b1 b2 b3 b4 h.1 h.2,
      fun h => ⟨SegMem_convex (hb b2) (SegMem_right _ _) h, SegMem_convex (SegMem_right _ _) (hd b4) h⟩⟩

/-- In the all-collinear branch a `SinglePoint` answer is the only common point. -/
theorem col_single_exact {p1 p2 q1 q2 x : Pt} {f : Bool}
    (hq1 : cross p1 p2 q1 = 0) (hq2 : cross p1 p2 q2 = 0)
    (hp1 : cross q1 q2 p1 = 0) (hp2 : cross q1 q2 p2 = 0)
    (h : collinearIntersection p1 p2 q1 q2 = some (.single x f)) (z : Pt)
    (hz1 : SegMem z p1 p2) (hz2 : SegMem z q1 q2) : z = x := by
  rw [collinearIntersection_def] at h
  rcases colTable_single' h with ⟨e1, e2, b1, b2, b3, b4⟩ | ⟨e1, e2, b1, b2, b3, b4⟩ |
    ⟨e1, e2, b1, b2, b3, b4⟩ | ⟨e1, e2, b1, b2, b3, b4⟩
  · have := col_sub_q1p1 hq1 hq2 hp1 hp2 b1 b2 b3 b4 hz1 hz2
    rw [← e1, ← e2, SegMem_degenerate] at this; exact this
  · have := col_sub_q1p2 hq1 hq2 hp1 hp2 b1 b2 b3 b4 hz1 hz2
    rw [← e1, ← e2, SegMem_degenerate] at this; exact this
  · have := col_sub_q2p1 hq1 hq2 hp1 hp2 b1 b2 b3 b4 hz1 hz2
    rw [← e1, ← e2, SegMem_degenerate] at this; exact this
  · have := col_sub_q2p2 hq1 hq2 hp1 hp2 b1 b2 b3 b4 hz1 hz2
    rw [← e1, ← e2, SegMem_degenerate] at this; exact this

end Geo.Proofs.Kernel
