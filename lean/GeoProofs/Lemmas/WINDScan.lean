/-
  WIND, part 6: the three cross-ring hypotheses of `interior_strict_valid_partial` (C12) from
  `polyValid`, on a level `y` that is the ordinate of no coordinate of the polygon:

  * crossings of two different holes are disjoint (`II = F`, `BB ≤ 0` of the hole-pair clause),
  * no hole crossing is a shell crossing, and the shell winds around every hole crossing
    (`BE = F`, `BB ≤ 0` of the hole/shell clause) — given that one side of every shell edge is
    outside (`EdgeOuter`, the Jordan-curve property of the simple shell ring, proved in
    `WINDJordan.edgeJordan`).
-/
import GeoProofs.Lemmas.WINDCross
import GeoProofs.Lemmas.C12QValid

set_option linter.unusedSimpArgs false
set_option linter.unusedVariables false

namespace Geo.Proofs.WIND
open Geo Geo.IP Geo.Proofs.Kernel Geo.Proofs.Spec Geo.Proofs.C02Q Geo.Proofs.C12

/-- a crossing abscissa of a ring with the level `y` is a point of the ring -/
theorem crossing_on_ring {r : List Pt} {y t : Rat} (ht : t ∈ (segs r).flatMap (crossXs y)) :
    onAnySeg ⟨t, y⟩ (segs r) = true := by
  rw [List.mem_flatMap] at ht
  obtain ⟨⟨s, e⟩, hse, hte⟩ := ht
  unfold crossXs at hte
  by_cases h0 : sgnE y (s, e) ≠ 0
  · rw [if_pos h0, List.mem_singleton] at hte
    rw [Geo.Proofs.Loc.onAnySeg_iff]
    refine ⟨(s, e), hse, (lineCoord_iff _ _ _).mpr ?_⟩
    rw [hte]; exact xAt_segMem h0
  · rw [if_neg h0] at hte; cases hte

/-- conversely a point of the ring on a level that avoids its coordinates is a crossing -/
theorem on_ring_crossing {r : List Pt} {y t : Rat} (hy : ∀ v ∈ r, v.y ≠ y)
    (h : onAnySeg ⟨t, y⟩ (segs r) = true) : t ∈ (segs r).flatMap (crossXs y) := by
  rw [Geo.Proofs.Loc.onAnySeg_iff] at h
  obtain ⟨⟨s, e⟩, hse, hl⟩ := h
  obtain ⟨hs, he⟩ := mem_of_mem_segs hse
  obtain ⟨τ, τ0, τ1, hx, hyy⟩ := (lineCoord_iff _ _ _).mp hl
  simp only at hx hyy
  have hsy := hy s hs
  have hey := hy e he
  have hne : s.y ≠ e.y := by
    intro h'
    apply hsy
    rw [hyy, ← h']; ring
  have hsg : sgnE y (s, e) ≠ 0 := by
    rw [sgnE_ne_zero_iff]
    simp only
    rcases lt_or_gt_of_ne hne with hlt | hgt
    · left
      constructor
      · have : 0 < τ := by
          rcases lt_or_eq_of_le τ0 with h1 | h1
          · exact h1
          · exfalso; apply hsy; rw [hyy, ← h1]; ring
        nlinarith
      · have : τ < 1 := by
          rcases lt_or_eq_of_le τ1 with h1 | h1
          · exact h1
          · exfalso; apply hey; rw [hyy, h1]; ring
        nlinarith
    · right
      constructor
      · have : τ < 1 := by
          rcases lt_or_eq_of_le τ1 with h1 | h1
          · exact h1
          · exfalso; apply hey; rw [hyy, h1]; ring
        nlinarith
      · have : 0 < τ := by
          rcases lt_or_eq_of_le τ0 with h1 | h1
          · exact h1
          · exfalso; apply hsy; rw [hyy, ← h1]; ring
        nlinarith
  rw [List.mem_flatMap]
  refine ⟨(s, e), hse, ?_⟩
  unfold crossXs
  rw [if_pos hsg, List.mem_singleton]
  unfold xAt
  simp only
  have hd : e.y - s.y ≠ 0 := fun h' => hne (by linarith)
  have hτ : τ = (y - s.y) / (e.y - s.y) := by
    field_simp
    linarith
  rw [hx, hτ]
  field_simp

/-- the hole/shell clause of `polyValid` -/
theorem polyValid_hole_shell {q : Poly} (h : polyValid q = true) :
    ∀ r ∈ q.ints, (relateParts (polyOf r) (polyOf q.ext)).be = .empty ∧
      dimLe0 (relateParts (polyOf r) (polyOf q.ext)).bb = true := by
  unfold polyValid polyValid.polyValidRings at h
  simp only [Bool.and_eq_true, List.all_eq_true, beq_iff_eq] at h
  obtain ⟨⟨⟨⟨_, _⟩, h3⟩, _⟩, _⟩ := h
  exact fun r hr => ⟨(h3 r hr).1.2, (h3 r hr).2⟩

/-- **crossings of two different holes of a valid polygon are disjoint** -/
theorem valid_hole_crossings_disjoint {q : Poly} (hv : polyValid q = true) {y : Rat}
    (hy : ∀ v ∈ q.coords, v.y ≠ y) :
    q.ints.Pairwise (fun h1 h2 => ∀ t ∈ (segs h1).flatMap (crossXs y),
      t ∉ (segs h2).flatMap (crossXs y)) := by
  obtain ⟨_, hsimple, _⟩ := polyValid_unpack hv
  rw [List.pairwise_iff_getElem]
  intro i j hi hj hij t ht1 ht2
  have m1 : q.ints[i] ∈ q.ints := List.getElem_mem hi
  have m2 : q.ints[j] ∈ q.ints := List.getElem_mem hj
  obtain ⟨hii, hbb⟩ := polyValid_hole_pairs hv hij (List.getElem?_eq_getElem hi) (List.getElem?_eq_getElem hj)
  have hr1 : q.ints[i] ∈ q.rings := by simp [Poly.rings, m1]
  have hr2 : q.ints[j] ∈ q.rings := by simp [Poly.rings, m2]
  apply rings_no_common_nonvertex_ii (hsimple _ m1) (hsimple _ m2) hii hbb (P := ⟨t, y⟩)
    (crossing_on_ring ht1) _ (crossing_on_ring ht2)
  · intro hmem
    exact hy _ (mem_rings_coords hr2 hmem) rfl
  · intro hmem
    exact hy _ (mem_rings_coords hr1 hmem) rfl

/-- **no hole crossing of a valid polygon is a shell crossing**, when one side of every
shell edge is outside -/
theorem valid_hole_shell_crossings_disjoint {q : Poly} (hv : polyValid q = true)
    (htv : EdgeOuter q.ext) {y : Rat} (hy : ∀ v ∈ q.coords, v.y ≠ y) :
    ∀ hole ∈ q.ints, ∀ t ∈ (segs hole).flatMap (crossXs y), t ∉ (segs q.ext).flatMap (crossXs y) := by
  obtain ⟨hse, hsimple, _⟩ := polyValid_unpack hv
  intro hole hh t ht1 ht2
  obtain ⟨hbe, hbb⟩ := polyValid_hole_shell hv hole hh
  have hr1 : hole ∈ q.rings := by simp [Poly.rings, hh]
  have hr2 : q.ext ∈ q.rings := by simp [Poly.rings]
  apply rings_no_common_nonvertex_be (hsimple _ hh) hse htv hbe hbb (P := ⟨t, y⟩)
    (crossing_on_ring ht1) _ (crossing_on_ring ht2)
  · intro hmem
    exact hy _ (mem_rings_coords hr2 hmem) rfl
  · intro hmem
    exact hy _ (mem_rings_coords hr1 hmem) rfl

/-- **the shell winds around every hole crossing** -/
theorem valid_shell_winds_hole_crossings {q : Poly} (hv : polyValid q = true)
    (htv : EdgeOuter q.ext) {y : Rat} (hy : ∀ v ∈ q.coords, v.y ≠ y) :
    ∀ hole ∈ q.ints, ∀ t ∈ (segs hole).flatMap (crossXs y),
      windingE (EPt.ofPt ⟨t, y⟩) q.ext ≠ 0 := by
  obtain ⟨hse, hsimple, hbe⟩ := polyValid_unpack hv
  intro hole hh t ht hw
  have hok := ringOK_of_simple hse
  have hr2 : q.ext ∈ q.rings := by simp [Poly.rings]
  have hoff : onAnySeg ⟨t, y⟩ (segs q.ext) = false := by
    cases hon : onAnySeg ⟨t, y⟩ (segs q.ext) with
    | false => rfl
    | true =>
      exfalso
      apply valid_hole_shell_crossings_disjoint hv htv hy hole hh t ht
      exact on_ring_crossing (fun v hv' => hy v (mem_rings_coords hr2 hv')) hon
  exact hole_point_not_outside hok.1 hok.2 (hbe hole hh) (crossing_on_ring ht)
    ((locate_polyOf_outside_iff q.ext hok.2 _).mpr ⟨hoff, hw⟩)

end Geo.Proofs.WIND
