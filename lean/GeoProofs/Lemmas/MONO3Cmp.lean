/-
  MONO3 (C10, item 3 of MONO2, first part): `LineOrPoint::partial_cmp` never fails on two proper lines that both span the
  sweep position, nor on such a line and the sweep point — so `Active::cmp` ("unable to compare active segments!") cannot
  panic while the active set only holds segments that span the position at which they are compared.
-/
import GeoProofs.Lemmas.MONO3Bot

namespace Geo.Proofs.MONO3
open Geo Geo.Mono Geo.MonoBuild Geo.Proofs.C10 Geo.Proofs.MONO Geo.Proofs.MONO2

/-- two proper lines with `left ≤ p < right` for a common position `p` are comparable -/
theorem cmp?_isSome_of_span {la ra lb rb p : Pt}
    (ha1 : lexLt p la = false) (ha2 : lexLt p ra = true) (hb1 : lexLt p lb = false) (hb2 : lexLt p rb = true) :
    ((LoP.line la ra).cmp? (LoP.line lb rb)).isSome = true := by
  have h1 : lexLt la rb = true := lexLe_lt_trans ha1 hb2
  have h2 : lexLt lb ra = true := lexLe_lt_trans hb1 ha2
  simp only [LoP.cmp?, lineLineCmp]
  split <;> simp [h1, h2]

/-- a proper line with `left ≤ p ≤ right` is comparable with the point `p` -/
theorem cmp?_point_isSome_of_span {l r p : Pt} (h1 : lexLt p l = false) (h2 : lexLt r p = false) :
    ((LoP.line l r).cmp? (LoP.point p)).isSome = true ∧ ((LoP.point p).cmp? (LoP.line l r)).isSome = true := by
  simp [LoP.cmp?, linePointCmp, h1, h2]

example : ((LoP.line ⟨0, 0⟩ ⟨4, 1⟩).cmp? (LoP.line ⟨1, 2⟩ ⟨3, 5⟩)) = some .lt := by decide +kernel

end Geo.Proofs.MONO3
