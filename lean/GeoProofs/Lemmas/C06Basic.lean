/-
  C06 helper layer 1: vector algebra on `Pt`, the stateless contribution list `contribs`, and
  the proof that every `add_*` method of `CentroidOperation` is "fold `add_weighted_centroid`
  over the contributions" — including the early returns.
-/
import GeoModel.Centroid
import Mathlib.Tactic.Ring
import Mathlib.Tactic.Linarith

namespace Geo.Proofs.C06
open Geo Geo.Cen

/-! ### `Pt` algebra -/

theorem Pt.ext' {a b : Pt} (hx : a.x = b.x) (hy : a.y = b.y) : a = b := by
  cases a; cases b; simp_all

@[simp] theorem add_x (a b : Pt) : (a + b).x = a.x + b.x := rfl
@[simp] theorem add_y (a b : Pt) : (a + b).y = a.y + b.y := rfl
@[simp] theorem sub_x (a b : Pt) : (a - b).x = a.x - b.x := rfl
@[simp] theorem sub_y (a b : Pt) : (a - b).y = a.y - b.y := rfl
@[simp] theorem smul_x (k : Rat) (a : Pt) : (Pt.smul k a).x = k * a.x := rfl
@[simp] theorem smul_y (k : Rat) (a : Pt) : (Pt.smul k a).y = k * a.y := rfl
@[simp] theorem divS_x (a : Pt) (t : Rat) : (Pt.divS a t).x = a.x / t := rfl
@[simp] theorem divS_y (a : Pt) (t : Rat) : (Pt.divS a t).y = a.y / t := rfl
@[simp] theorem zeroPt_x : zeroPt.x = 0 := rfl
@[simp] theorem zeroPt_y : zeroPt.y = 0 := rfl

theorem padd_assoc (a b c : Pt) : a + b + c = a + (b + c) := by
  apply Pt.ext' <;> simp <;> ring
theorem padd_comm (a b : Pt) : a + b = b + a := by
  apply Pt.ext' <;> simp <;> ring
@[simp] theorem padd_zero (a : Pt) : a + zeroPt = a := by
  apply Pt.ext' <;> simp
@[simp] theorem zero_padd (a : Pt) : zeroPt + a = a := by
  apply Pt.ext' <;> simp

/-! ### folding `add_weighted_centroid` -/

/-- fold `add_weighted_centroid` over a list of contributions -/
def foldWC (o : Op) (l : List WC) : Op := l.foldl addWC o

@[simp] theorem foldWC_nil (o : Op) : foldWC o [] = o := rfl
@[simp] theorem foldWC_cons (o : Op) (w : WC) (l : List WC) : foldWC o (w :: l) = foldWC (addWC o w) l := rfl
theorem foldWC_append (o : Op) (l₁ l₂ : List WC) : foldWC o (l₁ ++ l₂) = foldWC (foldWC o l₁) l₂ := by
  simp [foldWC, List.foldl_append]

/-- contributions of strictly lower dimension than the accumulator leave it unchanged
(this is what makes the early returns sound) -/
theorem foldWC_noop (o : Op) (l : List WC) (h : ∀ w ∈ l, w.dim < o.dims) : foldWC o l = o := by
  induction l generalizing o with
  | nil => rfl
  | cons w t ih =>
    have hw : w.dim < o.dims := h w (by simp)
    cases o with
    | none => simp [Op.dims] at hw
    | some c =>
      have hstep : addWC (some c) w = some c := by
        simp only [addWC, WC.addAssign, Op.dims] at *
        have h1 : ¬ c.dim < w.dim := by omega
        simp [h1, hw]
      rw [foldWC_cons, hstep]
      exact ih (some c) (fun w' hw' => h w' (by simp [hw']))

theorem foldWC_isSome (o : Op) (l : List WC) (h : o.isSome ∨ l ≠ []) : (foldWC o l).isSome := by
  induction l generalizing o with
  | nil => simpa using h
  | cons w t ih =>
    rw [foldWC_cons]
    apply ih
    left
    cases o <;> simp [addWC]

theorem foldWC_eq_none_iff (o : Op) (l : List WC) : foldWC o l = none ↔ o = none ∧ l = [] := by
  constructor
  · intro h
    by_cases hh : o.isSome ∨ l ≠ []
    · have := foldWC_isSome o l hh
      simp [h] at this
    · simp only [not_or, not_not] at hh
      cases o <;> simp_all
  · rintro ⟨rfl, rfl⟩; rfl

/-! ### the stateless contribution list -/

def coordC (c : Pt) : WC := ⟨1, 1, Pt.smul 1 c⟩

def lineC (len : Pt → Pt → Rat) (a b : Pt) : WC :=
  if a = b then coordC a else ⟨2, len a b, Pt.smul (len a b) (mid a b)⟩

def lineStringC (len : Pt → Pt → Rat) : List Pt → List WC
  | [c] => [coordC c]
  | cs => (windows2 cs).map (fun l => lineC len l.1 l.2)

/-- `add_ring` on its own -/
def ringC (len : Pt → Pt → Rat) (r : List Pt) : List WC :=
  if ringArea r = 0 then
    match lsDims r with
    | 0 => []
    | 1 => match r with
        | c :: _ => [coordC c]
        | [] => []
    | _ => lineStringC len r
  else
    match r with
    | [] => []
    | s :: _ => [⟨3, rabs (ringArea r),
        Pt.smul (rabs (ringArea r)) (Pt.divS (ringAccum s r) (6 * ringArea r) + s)⟩]

/-- `add_polygon`: what one polygon hands to the outer accumulator -/
def polyC (len : Pt → Pt → Rat) (p : Poly) : List WC :=
  match addRing len none p.ext with
  | none => []
  | some e =>
    match p.ints.foldl (addRing len) none with
    | some i =>
      if i.dim = 3 then
        (if (e.subAssign i).weight = 0 then lineStringC len p.ext else [e.subAssign i])
      else [e]
    | none => [e]

def rectC (len : Pt → Pt → Rat) (mn mx : Pt) : List WC :=
  match rectDims mn mx with
  | 1 => [coordC mn]
  | 2 => [lineC len mn mn, lineC len mn mx, lineC len mx mx, lineC len mx mn]
  | _ => [⟨3, (mx.x - mn.x) * (mx.y - mn.y), Pt.smul ((mx.x - mn.x) * (mx.y - mn.y)) (rectCenter mn mx)⟩]

def triC (len : Pt → Pt → Rat) (a b c : Pt) : List WC :=
  match triDims a b c with
  | 1 => [coordC a]
  | 2 => [lineC len a b, lineC len b c, lineC len c a]
  | _ => [⟨3, rabs (triArea a b c), Pt.smul (rabs (triArea a b c)) (Pt.divS (a + b + c) 3)⟩]

mutual
/-- every contribution a geometry makes, in traversal order, independent of the accumulator -/
def contribs (len : Pt → Pt → Rat) : Geom → List WC
  | .point p => [coordC p]
  | .line a b => [lineC len a b]
  | .lineString cs => lineStringC len cs
  | .polygon p => polyC len p
  | .multiPoint ps => ps.map coordC
  | .multiLineString ls => (ls.map (lineStringC len)).flatten
  | .multiPolygon ps => (ps.map (polyC len)).flatten
  | .rect mn mx => rectC len mn mx
  | .triangle a b c => triC len a b c
  | .collection gs => contribsList len gs
def contribsList (len : Pt → Pt → Rat) : List Geom → List WC
  | [] => []
  | g :: gs => contribs len g ++ contribsList len gs
end

/-! ### dimensions of contributions -/

theorem coordC_dim (c : Pt) : (coordC c).dim = 1 := rfl

theorem lineC_dim_le (len : Pt → Pt → Rat) (a b : Pt) : (lineC len a b).dim ≤ 2 := by
  unfold lineC; split <;> simp [coordC]

theorem lineStringC_dim_le (len : Pt → Pt → Rat) (cs : List Pt) : ∀ w ∈ lineStringC len cs, w.dim ≤ 2 := by
  intro w hw
  unfold lineStringC at hw
  split at hw
  · simp at hw; subst hw; simp [coordC]
  · rcases List.mem_map.1 hw with ⟨l, _, rfl⟩
    exact lineC_dim_le len _ _

/-! ### each method = fold over its contributions -/

theorem addCoord_eq (o : Op) (c : Pt) : addCoord o c = foldWC o [coordC c] := rfl

theorem addLine_eq (len : Pt → Pt → Rat) (o : Op) (a b : Pt) : addLine len o a b = foldWC o [lineC len a b] := by
  unfold addLine lineC
  split <;> rfl

theorem addLines_eq (len : Pt → Pt → Rat) (o : Op) (ls : List (Pt × Pt)) :
    addLines len o ls = foldWC o (ls.map (fun l => lineC len l.1 l.2)) := by
  induction ls generalizing o with
  | nil => rfl
  | cons l t ih =>
    simp only [addLines, List.foldl_cons, List.map_cons, foldWC_cons] at *
    rw [addLine_eq, ih]
    rfl

/-- `add_line_string`, early return included -/
theorem addLineString_eq (len : Pt → Pt → Rat) (o : Op) (cs : List Pt) :
    addLineString len o cs = foldWC o (lineStringC len cs) := by
  unfold addLineString
  split
  · next h =>
    symm
    apply foldWC_noop
    intro w hw
    have := lineStringC_dim_le len cs w hw
    omega
  · match cs with
    | [] => exact addLines_eq len o _
    | [c] => rfl
    | a :: b :: t => exact addLines_eq len o _

theorem foldl_addLineString_eq (len : Pt → Pt → Rat) (o : Op) (ls : List (List Pt)) :
    ls.foldl (addLineString len) o = foldWC o (ls.map (lineStringC len)).flatten := by
  induction ls generalizing o with
  | nil => rfl
  | cons l t ih =>
    simp only [List.foldl_cons, List.map_cons, List.flatten_cons, foldWC_append]
    rw [addLineString_eq, ih]

theorem addMultiLineString_eq (len : Pt → Pt → Rat) (o : Op) (ls : List (List Pt)) :
    addMultiLineString len o ls = foldWC o (ls.map (lineStringC len)).flatten := by
  unfold addMultiLineString
  split
  · next h =>
    symm
    apply foldWC_noop
    intro w hw
    rcases List.mem_flatten.1 hw with ⟨l, hl, hwl⟩
    rcases List.mem_map.1 hl with ⟨cs, _, rfl⟩
    have := lineStringC_dim_le len cs w hwl
    omega
  · exact foldl_addLineString_eq len o ls

theorem foldl_addCoord_eq (o : Op) (ps : List Pt) : ps.foldl addCoord o = foldWC o (ps.map coordC) := by
  induction ps generalizing o with
  | nil => rfl
  | cons p t ih =>
    simp only [List.foldl_cons, List.map_cons, foldWC_cons]
    rw [ih]; rfl

theorem addMultiPoint_eq (o : Op) (ps : List Pt) : addMultiPoint o ps = foldWC o (ps.map coordC) := by
  unfold addMultiPoint
  split
  · next h =>
    symm
    apply foldWC_noop
    intro w hw
    rcases List.mem_map.1 hw with ⟨c, _, rfl⟩
    simp only [coordC_dim]; omega
  · exact foldl_addCoord_eq o ps

theorem addRing_eq (len : Pt → Pt → Rat) (o : Op) (r : List Pt) : addRing len o r = foldWC o (ringC len r) := by
  unfold addRing ringC
  simp only
  by_cases h : ringArea r = 0
  · simp only [if_pos h]
    generalize lsDims r = d
    match d with
    | 0 => rfl
    | 1 => cases r <;> rfl
    | n + 2 => exact addLineString_eq len o r
  · simp only [if_neg h]
    cases r <;> rfl

theorem addPolygon_eq (len : Pt → Pt → Rat) (o : Op) (p : Poly) : addPolygon len o p = foldWC o (polyC len p) := by
  unfold addPolygon polyC
  simp only
  generalize addRing len none p.ext = e
  generalize p.ints.foldl (addRing len) none = i
  cases e with
  | none => rfl
  | some e =>
    cases i with
    | none => rfl
    | some i =>
      simp only
      by_cases h3 : i.dim = 3
      · simp only [if_pos h3]
        by_cases hw : (e.subAssign i).weight = 0
        · simp only [if_pos hw]; exact addLineString_eq len o p.ext
        · simp only [if_neg hw]; rfl
      · simp only [if_neg h3]; rfl

theorem addMultiPolygon_eq (len : Pt → Pt → Rat) (o : Op) (ps : List Poly) :
    addMultiPolygon len o ps = foldWC o (ps.map (polyC len)).flatten := by
  unfold addMultiPolygon
  induction ps generalizing o with
  | nil => rfl
  | cons p t ih =>
    simp only [List.foldl_cons, List.map_cons, List.flatten_cons, foldWC_append]
    rw [addPolygon_eq, ih]

theorem addRect_eq (len : Pt → Pt → Rat) (o : Op) (mn mx : Pt) : addRect len o mn mx = foldWC o (rectC len mn mx) := by
  unfold addRect rectC
  generalize rectDims mn mx = d
  match d with
  | 0 => rfl
  | 1 => rfl
  | 2 => simp only [addLine_eq]; rfl
  | n + 3 => rfl

theorem addTriangle_eq (len : Pt → Pt → Rat) (o : Op) (a b c : Pt) :
    addTriangle len o a b c = foldWC o (triC len a b c) := by
  unfold addTriangle triC
  generalize triDims a b c = d
  match d with
  | 0 => rfl
  | 1 => rfl
  | 2 => simp only [addLine_eq]; rfl
  | n + 3 => rfl

mutual
/-- `add_geometry` = fold over the geometry's contributions, for every accumulator state -/
theorem addGeom_eq (len : Pt → Pt → Rat) : ∀ (g : Geom) (o : Op), addGeom len o g = foldWC o (contribs len g)
  | .point p, o => by simp only [addGeom, contribs]; exact addCoord_eq o p
  | .line a b, o => by simp only [addGeom, contribs]; exact addLine_eq len o a b
  | .lineString cs, o => by simp only [addGeom, contribs]; exact addLineString_eq len o cs
  | .polygon p, o => by simp only [addGeom, contribs]; exact addPolygon_eq len o p
  | .multiPoint ps, o => by simp only [addGeom, contribs]; exact addMultiPoint_eq o ps
  | .multiLineString ls, o => by simp only [addGeom, contribs]; exact addMultiLineString_eq len o ls
  | .multiPolygon ps, o => by simp only [addGeom, contribs]; exact addMultiPolygon_eq len o ps
  | .rect mn mx, o => by simp only [addGeom, contribs]; exact addRect_eq len o mn mx
  | .triangle a b c, o => by simp only [addGeom, contribs]; exact addTriangle_eq len o a b c
  | .collection gs, o => by simp only [addGeom, contribs]; exact addGeoms_eq len gs o
theorem addGeoms_eq (len : Pt → Pt → Rat) : ∀ (gs : List Geom) (o : Op), addGeoms len o gs = foldWC o (contribsList len gs)
  | [], o => by simp [addGeoms, contribsList]
  | g :: gs, o => by
      simp only [addGeoms, contribsList, foldWC_append]
      rw [addGeom_eq len g o, addGeoms_eq len gs]
end

end Geo.Proofs.C06
