/-
  Translator tie for geo/src/algorithm/area.rs, the Line / Rect `contains` bodies and `Triangle: Intersects<Coord>`:
  the hand-written model functions of GeoModel/{Area,Contains,Segment}.lean equal the definitions regenerated from the
  Rust bodies on this run (GeoModel/Gen/AreaGen.lean).
-/
import GeoModel.Area
import GeoModel.Contains
import GeoModel.Gen.AreaGen
import GeoProofs.Lemmas.GenKernel
import GeoProofs.Lemmas.TRANDims

namespace Geo.Proofs.TRANArea
open Geo Geo.Proofs.GenKernel

/-- the accumulating loop `tmp = tmp + line.map_coords(|c| c - shift).determinant()` over `lines()` -/
theorem foldl_shiftedDets (s : Pt) (r : List Pt) (t : Rat) :
    List.foldl (fun (acc : Rat) (line : Pt × Pt) => acc + Gen.lineDeterminant (line.1 - s) (line.2 - s)) t (segs r)
      = (shiftedDets s r).foldl (· + ·) t := by
  induction r generalizing t with
  | nil => simp [segs, shiftedDets]
  | cons a rest ih =>
    cases rest with
    | nil => simp [segs, shiftedDets]
    | cons b rest2 =>
      simp only [segs, shiftedDets, List.foldl_cons]
      rw [ih]
      rfl

theorem twiceSignedRingArea_eq (r : List Pt) : twiceSignedRingArea r = Gen.twiceSignedRingArea r := by
  unfold twiceSignedRingArea Gen.twiceSignedRingArea
  by_cases h : r.length < 3
  · simp [h]
  · simp only [h, if_false, decide_false, Bool.false_eq_true]
    match r, h with
    | a :: b :: c :: rest, _ =>
      cases hl : (a :: b :: c :: rest).getLast? with
      | none => simp at hl
      | some l =>
        simp only [List.head?_cons, Gen.unwrap, Gen.idx, List.getD_cons_zero, hl]
        by_cases h2 : a = l
        · have := foldl_shiftedDets a (a :: b :: c :: rest) 0
          simp [h2] at this ⊢
          exact this.symm
        · simp [h2]
    | [], h => simp at h
    | [_], h => simp at h
    | [_, _], h => simp at h


theorem one_add_one : (1 + 1 : Rat) = 2 := by decide +kernel

theorem ringArea_eq (r : List Pt) : ringArea r = Gen.getLinestringArea r := by
  unfold ringArea Gen.getLinestringArea
  rw [one_add_one, twiceSignedRingArea_eq]

theorem polySignedArea_eq (q : Poly) : q.signedArea = Gen.polygonSignedArea q := by
  unfold Poly.signedArea Gen.polygonSignedArea
  simp only [ringArea_eq]
  by_cases h : Gen.getLinestringArea q.ext < 0 <;> simp [h]

theorem polyUnsignedArea_eq (q : Poly) : q.unsignedArea = Gen.polygonUnsignedArea q := by
  unfold Poly.unsignedArea Gen.polygonUnsignedArea
  rw [polySignedArea_eq]

theorem multiPolySigned_eq (ps : List Poly) : multiPolySigned ps = Gen.multiPolygonSignedArea ps := by
  unfold multiPolySigned Gen.multiPolygonSignedArea
  simp only [polySignedArea_eq]

theorem multiPolyUnsigned_eq (ps : List Poly) : multiPolyUnsigned ps = Gen.multiPolygonUnsignedArea ps := by
  unfold multiPolyUnsigned Gen.multiPolygonUnsignedArea
  simp only [polySignedArea_eq]

/-- the model sums the three shifted determinants of `to_lines()`; the source (after the `fix:` commit) forms one cross
product of the two shifted corners — the same rational number -/
theorem triSignedArea_eq (a b c : Pt) : triSignedArea a b c = Gen.triangleSignedArea a b c := by
  unfold triSignedArea Gen.triangleSignedArea det
  rw [one_add_one]
  show _ / 2 = _ / 2
  congr 1
  show ((0 + ((a.x - a.x) * (b.y - a.y) - (a.y - a.y) * (b.x - a.x))) + ((b.x - a.x) * (c.y - a.y) - (b.y - a.y) * (c.x - a.x)))
      + ((c.x - a.x) * (a.y - a.y) - (c.y - a.y) * (a.x - a.x))
    = (b.x - a.x) * (c.y - a.y) - (b.y - a.y) * (c.x - a.x)
  grind

theorem lineContainsCoord_eq (a b c : Pt) : lineContainsCoord a b c = Gen.lineContainsCoord a b c := by
  unfold lineContainsCoord Gen.lineContainsCoord
  simp only [← lineCoord_eq]

theorem lineContainsLine_eq (a b c d : Pt) : lineContainsLine a b c d = Gen.lineContainsLine a b c d := by
  unfold lineContainsLine Gen.lineContainsLine
  simp only [← lineCoord_eq, ← lineContainsCoord_eq]

/-- the loop of `Rect: Contains<Polygon>`: early `return false` on the first exterior coordinate outside the closed
rectangle, a counter of the coordinates strictly inside -/
theorem rectLoop (mn mx : Pt) (cs : List Pt) (n : Nat) :
    Gen.loop (σ := Nat) (ρ := Bool) cs (fun c s =>
      if (!Gen.rectCoord mn mx c) then .ret false
      else if Gen.rectContainsCoord mn mx c then .next (s + 1) else .next s) n
    = if cs.all (fun c => Gen.rectCoord mn mx c) then .next (n + (cs.filter (fun c => Gen.rectContainsCoord mn mx c)).length)
      else .ret false := by
  induction cs generalizing n with
  | nil => simp [Gen.loop]
  | cons c cs ih =>
    simp only [Gen.loop, List.all_cons, List.filter_cons]
    cases h1 : Gen.rectCoord mn mx c <;> cases h2 : Gen.rectContainsCoord mn mx c <;>
      simp only [Bool.not_true, Bool.not_false, Bool.false_eq_true, if_false, if_true, Bool.true_and, Bool.false_and, ih,
        List.length_cons]
    cases cs.all (fun c => Gen.rectCoord mn mx c)
    · rfl
    · simp only [if_true]; congr 1; omega

theorem rectContainsPolygon_eq (mn mx : Pt) (q : Poly) :
    rectContainsPolygon mn mx q = Gen.rectContainsPolygon mn mx q := by
  unfold rectContainsPolygon Gen.rectContainsPolygon Gen.polygonIsEmpty Gen.lineStringIsEmpty
  simp only [rectCoord_eq, rectContainsCoord_eq, polySignedArea_eq]
  by_cases h : q.ext.isEmpty
  · simp [h]
  · simp only [h, Bool.false_eq_true, if_false]
    have := rectLoop mn mx q.ext 0
    simp only [Nat.zero_add] at this
    simp only [this]
    by_cases h2 : q.ext.all (fun c => Gen.rectCoord mn mx c) <;> simp [h2]

theorem triCoord_eq (a b c p : Pt) : triCoord a b c p = Gen.triangleCoord a b c p := by
  unfold triCoord Gen.triangleCoord
  rfl

end Geo.Proofs.TRANArea
