/-
  Helper lemmas for C09 (Visvalingam-Whyatt part).
-/
import GeoModel.Simplify

namespace Geo.Proofs.C09
open Geo Geo.Simp

end Geo.Proofs.C09
