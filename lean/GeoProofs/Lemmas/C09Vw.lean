/-
  Helper lemmas for C09 (Visvalingam-Whyatt part): index/coordinate bookkeeping, "every heap
  operation only moves entries around" (so a predicate on all entries is preserved whichever
  entry is popped), and the doubly-linked-list invariant of the `adjacent` vector.
-/
import GeoModel.Simplify
import Mathlib.Tactic.Linarith

namespace Geo.Proofs.C09
open Geo Geo.Simp

/-! ### indices and coordinates -/

theorem range_map_coordAt (cs : List Pt) : (List.range cs.length).map (coordAt cs) = cs := by
  apply List.ext_getElem
  · simp
  · intro i h1 h2
    simp [coordAt, List.getElem?_eq_getElem h2]

theorem visIdx_sublist (cs : List Pt) (eps : Rat) :
    (visvalingamIndices cs eps).Sublist (List.range cs.length) := by
  unfold visvalingamIndices
  split
  · exact List.Sublist.refl _
  · exact List.filter_sublist

theorem filterMap_idx (cs : List Pt) (l : List Nat) (h : l.Sublist (List.range cs.length)) :
    l.filterMap (fun i => cs[i]?) = l.map (coordAt cs) := by
  have hm : ∀ i ∈ l, i < cs.length := fun i hi => List.mem_range.1 (h.subset hi)
  clear h
  induction l with
  | nil => rfl
  | cons x t ih =>
    have hx := hm x List.mem_cons_self
    simp only [List.filterMap_cons, List.map_cons, List.getElem?_eq_getElem hx]
    rw [ih (fun y hy => hm y (List.mem_cons_of_mem _ hy))]
    simp [coordAt, List.getElem?_eq_getElem hx]

theorem vis_eq (cs : List Pt) (eps : Rat) (h : ¬ eps ≤ 0) :
    visvalingam cs eps = (visvalingamIndices cs eps).map (coordAt cs) := by
  unfold visvalingam
  simp only [h, if_false]
  have hl : (visvalingamIndices cs eps).length ≤ cs.length := by
    have := (visIdx_sublist cs eps).length_le
    simpa using this
  have : (cs.zip (visvalingamIndices cs eps)).map (fun p => coordAt cs p.2)
      = ((cs.zip (visvalingamIndices cs eps)).map Prod.snd).map (coordAt cs) := by
    rw [List.map_map]; rfl
  rw [this, List.map_snd_zip hl]

/-! ### heap operations only permute / insert entries -/

section Heap
variable (P : VScore → Prop)

def AllP (d : Heap) : Prop := ∀ x ∈ d, P x

variable {P}

theorem allP_set {d : Heap} (h : AllP P d) {v : VScore} (hv : P v) (i : Nat) : AllP P (d.set i v) := by
  intro x hx
  rcases List.mem_or_eq_of_mem_set hx with hx | rfl
  · exact h x hx
  · exact hv

theorem allP_get {d : Heap} (h : AllP P d) {i : Nat} {v : VScore} (hv : d[i]? = some v) : P v :=
  h v (List.mem_of_getElem? hv)

theorem siftUpGo_allP (elt : VScore) (start : Nat) (he : P elt) :
    ∀ (f : Nat) (d : Heap) (pos : Nat), AllP P d → AllP P (siftUpGo elt start f d pos)
  | 0, d, pos, h => by simp only [siftUpGo]; exact allP_set h he _
  | f + 1, d, pos, h => by
    simp only [siftUpGo]
    split
    · split
      · exact allP_set h he _
      · rename_i p hp
        split
        · exact allP_set h he _
        · exact siftUpGo_allP elt start he f _ _ (allP_set h (allP_get h hp) _)
    · exact allP_set h he _

theorem siftUp_allP (d : Heap) (start pos : Nat) (h : AllP P d) : AllP P (siftUp d start pos) := by
  unfold siftUp
  split
  · exact h
  · rename_i elt he
    exact siftUpGo_allP elt start (allP_get h he) _ _ _ h

theorem siftDownGo_allP (elt : VScore) (en : Nat) (he : P elt) :
    ∀ (f : Nat) (d : Heap) (pos : Nat), AllP P d → AllP P (siftDownGo elt en f d pos)
  | 0, d, pos, h => by simp only [siftDownGo]; exact allP_set h he _
  | f + 1, d, pos, h => by
    simp only [siftDownGo]
    split
    · split
      · rename_i c0 c1 h0 h1
        by_cases hle : c0.le c1 = true
        · simp only [hle, if_true]
          show AllP P (if c1.le elt = true then d.set pos elt
            else siftDownGo elt en f (d.set pos c1) (2 * pos + 1 + 1))
          by_cases h2 : c1.le elt = true
          · simp only [h2, if_true]; exact allP_set h he _
          · simp only [h2]; exact siftDownGo_allP elt en he f _ _ (allP_set h (allP_get h h1) _)
        · simp only [hle]
          show AllP P (if c0.le elt = true then d.set pos elt
            else siftDownGo elt en f (d.set pos c0) (2 * pos + 1))
          by_cases h2 : c0.le elt = true
          · simp only [h2, if_true]; exact allP_set h he _
          · simp only [h2]; exact siftDownGo_allP elt en he f _ _ (allP_set h (allP_get h h0) _)
      · exact allP_set h he _
    · split
      · rename_i c hc
        split
        · exact allP_set (allP_set h (allP_get h hc) _) he _
        · exact allP_set h he _
      · exact allP_set h he _

theorem siftDown_allP (d : Heap) (pos : Nat) (h : AllP P d) : AllP P (siftDown d pos) := by
  unfold siftDown
  split
  · exact h
  · rename_i elt he
    exact siftDownGo_allP elt _ (allP_get h he) _ _ _ h

theorem toBottomGo_allP (en : Nat) :
    ∀ (f : Nat) (d : Heap) (pos : Nat), AllP P d → AllP P (toBottomGo en f d pos).1
  | 0, d, pos, h => by simp only [toBottomGo]; exact h
  | f + 1, d, pos, h => by
    simp only [toBottomGo]
    split
    · split
      · rename_i c0 c1 h0 h1
        by_cases hle : c0.le c1 = true
        · simp only [hle, if_true]
          exact toBottomGo_allP en f _ _ (allP_set h (allP_get h h1) _)
        · simp only [hle]
          exact toBottomGo_allP en f _ _ (allP_set h (allP_get h h0) _)
      · exact h
    · split
      · rename_i c hc
        split
        · exact allP_set h (allP_get h hc) _
        · exact h
      · exact h

theorem siftDownToBottom_allP (d : Heap) (h : AllP P d) : AllP P (siftDownToBottom d) := by
  unfold siftDownToBottom
  split
  · exact h
  · rename_i elt he
    have := toBottomGo_allP (P := P) d.length d.length d 0 h
    generalize toBottomGo d.length d.length d 0 = r at this
    obtain ⟨d', pos⟩ := r
    exact siftUpGo_allP elt 0 (allP_get h he) _ _ _ this

theorem heapPop_allP {d : Heap} (h : AllP P d) {s : VScore} {d' : Heap}
    (hp : heapPop d = some (s, d')) : P s ∧ AllP P d' := by
  unfold heapPop at hp
  split at hp
  · exact absurd hp (by simp)
  · rename_i item hitem
    have hi : P item := h item (List.mem_of_getLast? hitem)
    have hdl : AllP P d.dropLast := fun x hx => h x (List.dropLast_subset _ hx)
    dsimp only at hp
    split at hp
    · simp only [Option.some.injEq, Prod.mk.injEq] at hp
      rw [← hp.1, ← hp.2]; exact ⟨hi, hdl⟩
    · rename_i top htop
      simp only [Option.some.injEq, Prod.mk.injEq] at hp
      rw [← hp.1, ← hp.2]
      exact ⟨hdl top (List.mem_of_mem_head? htop), siftDownToBottom_allP _ (allP_set hdl hi _)⟩

theorem heapPush_allP {d : Heap} (h : AllP P d) {v : VScore} (hv : P v) : AllP P (heapPush d v) := by
  unfold heapPush
  apply siftUp_allP
  intro x hx
  rcases List.mem_append.1 hx with hx | hx
  · exact h x hx
  · simp at hx; rw [hx]; exact hv

theorem rebuildGo_allP : ∀ (n : Nat) (d : Heap), AllP P d → AllP P (rebuildGo n d)
  | 0, d, h => h
  | n + 1, d, h => rebuildGo_allP n _ (siftDown_allP d n h)

theorem heapFrom_allP {v : List VScore} (h : AllP P v) : AllP P (heapFrom v) :=
  rebuildGo_allP _ _ h

end Heap

/-! ### the doubly-linked list in `adjacent` -/

/-- a well-formed heap entry: `left < current < right < n` -/
def EOK (n : Nat) (e : VScore) : Prop := e.left < e.current ∧ e.current < e.right ∧ e.right < n

/-- The `adjacent` vector encodes a doubly-linked list over the live vertices, running from
vertex `0` (predecessor `-1`) to vertex `n - 1` (successor `n`). -/
structure AInv (n : Nat) (adj : Adj) : Prop where
  A : ∀ i : Nat, i < n → adj i ≠ (0, 0) →
    (adj i).1 < (i : Int) ∧ (i : Int) < (adj i).2 ∧ -1 ≤ (adj i).1 ∧ (adj i).2 ≤ (n : Int)
  DR : ∀ i r : Nat, i < n → adj i ≠ (0, 0) → (adj i).2 = (r : Int) → r < n →
    adj r ≠ (0, 0) ∧ (adj r).1 = (i : Int)
  DL : ∀ i l : Nat, i < n → adj i ≠ (0, 0) → (adj i).1 = (l : Int) →
    adj l ≠ (0, 0) ∧ (adj l).2 = (i : Int)
  I0 : (adj 0).1 = -1
  In : (adj (n - 1)).2 = (n : Int)

theorem live_of_snd {adj : Adj} {i : Nat} (h : 0 < (adj i).2) : adj i ≠ (0, 0) := by
  intro e; rw [e] at h; simp at h

theorem live_of_fst {adj : Adj} {i : Nat} (h : (adj i).1 < 0) : adj i ≠ (0, 0) := by
  intro e; rw [e] at h; simp at h

theorem adjInit_inv (n : Nat) (hn : 3 ≤ n) : AInv n adjInit := by
  refine ⟨?_, ?_, ?_, ?_, ?_⟩
  · intro i hi _
    unfold adjInit
    split <;> simp <;> omega
  · intro i r hi _ h hr
    have hr0 : r ≠ 0 := by
      intro e; subst e
      unfold adjInit at h
      split at h <;> simp at h <;> omega
    have hval : adjInit r = ((r : Int) - 1, (r : Int) + 1) := by simp [adjInit, hr0]
    rw [hval]
    refine ⟨by intro e; simp only [Prod.mk.injEq] at e; omega, ?_⟩
    unfold adjInit at h
    split at h <;> simp at h ⊢ <;> omega
  · intro i l hi _ h
    have hi0 : i ≠ 0 := by
      intro e; subst e
      simp [adjInit] at h
    have hval : adjInit i = ((i : Int) - 1, (i : Int) + 1) := by simp [adjInit, hi0]
    rw [hval] at h
    simp only at h
    by_cases hl0 : l = 0
    · subst hl0
      have : i = 1 := by omega
      subst this
      simp [adjInit]
    · have hv2 : adjInit l = ((l : Int) - 1, (l : Int) + 1) := by simp [adjInit, hl0]
      rw [hv2]
      refine ⟨by intro e; simp only [Prod.mk.injEq] at e; omega, ?_⟩
      simp only; omega
  · simp [adjInit]
  · have : n - 1 ≠ 0 := by omega
    have hval : adjInit (n - 1) = (((n - 1 : Nat) : Int) - 1, ((n - 1 : Nat) : Int) + 1) := by
      simp [adjInit, this]
    rw [hval]; simp only; omega

section Unlink
variable (adj : Adj) (l c r : Nat) (ll rr : Int)

theorem unlink_c : unlink adj l c r ll rr c = (0, 0) := by simp [unlink, Adj.set]
theorem unlink_r (h : r ≠ c) : unlink adj l c r ll rr r = ((l : Int), rr) := by
  simp [unlink, Adj.set, h]
theorem unlink_l (h1 : l ≠ c) (h2 : l ≠ r) : unlink adj l c r ll rr l = (ll, (r : Int)) := by
  simp [unlink, Adj.set, h1, h2]
theorem unlink_o (j : Nat) (h1 : j ≠ c) (h2 : j ≠ r) (h3 : j ≠ l) : unlink adj l c r ll rr j = adj j := by
  simp [unlink, Adj.set, h1, h2, h3]
end Unlink

theorem pair_ne_zero_of_snd {a b : Int} (h : 0 < b) : (a, b) ≠ ((0 : Int), (0 : Int)) := by
  intro e; simp only [Prod.mk.injEq] at e; omega

/-- One removal step keeps the linked list well formed; the new neighbours `ll`, `rr` of the
two affected vertices lie strictly outside them. -/
theorem unlink_inv {n : Nat} {adj : Adj} {l c r : Nat} (hinv : AInv n adj)
    (hlc : l < c) (hcr : c < r) (hrn : r < n)
    (hadj : adj c = ((l : Int), (r : Int))) :
    AInv n (unlink adj l c r (adj l).1 (adj r).2) ∧
    (adj l).1 < (l : Int) ∧ (r : Int) < (adj r).2 ∧
    -1 ≤ (adj l).1 ∧ (adj r).2 ≤ (n : Int) := by
  have hcl : adj c ≠ (0, 0) := live_of_snd (by rw [hadj]; simp; omega)
  have hc1 : (adj c).1 = (l : Int) := by rw [hadj]
  have hc2 : (adj c).2 = (r : Int) := by rw [hadj]
  obtain ⟨hll, hl2⟩ := hinv.DL c l (by omega) hcl hc1
  obtain ⟨hrl, hr1⟩ := hinv.DR c r (by omega) hcl hc2 hrn
  obtain ⟨al1, al2, al3, al4⟩ := hinv.A l (by omega) hll
  obtain ⟨ar1, ar2, ar3, ar4⟩ := hinv.A r hrn hrl
  have nlc : l ≠ c := by omega
  have nlr : l ≠ r := by omega
  have nrc : r ≠ c := by omega
  refine ⟨⟨?_, ?_, ?_, ?_, ?_⟩, al1, ar2, al3, ar4⟩
  · -- A
    intro i hi hlive
    by_cases e1 : i = c
    · rw [e1, unlink_c] at hlive; exact absurd rfl hlive
    · by_cases e2 : i = r
      · rw [e2, unlink_r _ _ _ _ _ _ nrc]; simp only; omega
      · by_cases e3 : i = l
        · rw [e3, unlink_l _ _ _ _ _ _ nlc nlr]; simp only; omega
        · rw [unlink_o _ _ _ _ _ _ i e1 e2 e3] at hlive ⊢
          exact hinv.A i hi hlive
  · -- DR
    intro i r' hi hlive h2 hr'
    by_cases e1 : i = c
    · rw [e1, unlink_c] at hlive; exact absurd rfl hlive
    · by_cases e2 : i = r
      · rw [e2, unlink_r _ _ _ _ _ _ nrc] at h2
        simp only at h2
        have old := hinv.DR r r' hrn hrl h2 hr'
        have hne1 : r' ≠ c := by omega
        have hne2 : r' ≠ r := by omega
        have hne3 : r' ≠ l := by omega
        rw [unlink_o _ _ _ _ _ _ r' hne1 hne2 hne3, e2]
        exact old
      · by_cases e3 : i = l
        · rw [e3, unlink_l _ _ _ _ _ _ nlc nlr] at h2
          simp only at h2
          have : r' = r := by omega
          rw [this, unlink_r _ _ _ _ _ _ nrc, e3]
          exact ⟨pair_ne_zero_of_snd (by omega), rfl⟩
        · rw [unlink_o _ _ _ _ _ _ i e1 e2 e3] at hlive h2
          have old := hinv.DR i r' hi hlive h2 hr'
          by_cases f1 : r' = c
          · rw [f1, hc1] at old; omega
          · by_cases f2 : r' = r
            · rw [f2, hr1] at old; omega
            · by_cases f3 : r' = l
              · rw [f3, unlink_l _ _ _ _ _ _ nlc nlr]
                rw [f3] at old
                exact ⟨pair_ne_zero_of_snd (by omega), old.2⟩
              · rw [unlink_o _ _ _ _ _ _ r' f1 f2 f3]; exact old
  · -- DL
    intro i l' hi hlive h1
    by_cases e1 : i = c
    · rw [e1, unlink_c] at hlive; exact absurd rfl hlive
    · by_cases e2 : i = r
      · rw [e2, unlink_r _ _ _ _ _ _ nrc] at h1
        simp only at h1
        have : l' = l := by omega
        rw [this, unlink_l _ _ _ _ _ _ nlc nlr, e2]
        exact ⟨pair_ne_zero_of_snd (by omega), rfl⟩
      · by_cases e3 : i = l
        · rw [e3, unlink_l _ _ _ _ _ _ nlc nlr] at h1
          simp only at h1
          have old := hinv.DL l l' (by omega) hll h1
          have hne1 : l' ≠ c := by omega
          have hne2 : l' ≠ r := by omega
          have hne3 : l' ≠ l := by omega
          rw [unlink_o _ _ _ _ _ _ l' hne1 hne2 hne3, e3]
          exact old
        · rw [unlink_o _ _ _ _ _ _ i e1 e2 e3] at hlive h1
          have old := hinv.DL i l' hi hlive h1
          by_cases f1 : l' = c
          · rw [f1, hc2] at old; omega
          · by_cases f2 : l' = l
            · rw [f2, hl2] at old; omega
            · by_cases f3 : l' = r
              · rw [f3, unlink_r _ _ _ _ _ _ nrc]
                rw [f3] at old
                exact ⟨pair_ne_zero_of_snd (by omega), old.2⟩
              · rw [unlink_o _ _ _ _ _ _ l' f1 f3 f2]; exact old
  · -- I0
    have n1 : (0 : Nat) ≠ c := by omega
    have n2 : (0 : Nat) ≠ r := by omega
    by_cases h0 : 0 = l
    · rw [h0, unlink_l _ _ _ _ _ _ nlc nlr]; simp only; rw [← h0]; exact hinv.I0
    · rw [unlink_o _ _ _ _ _ _ 0 n1 n2 h0]; exact hinv.I0
  · -- In
    have n1 : n - 1 ≠ c := by omega
    have n3 : n - 1 ≠ l := by omega
    by_cases h0 : n - 1 = r
    · rw [h0, unlink_r _ _ _ _ _ _ nrc]; simp only; rw [← h0]; exact hinv.In
    · rw [unlink_o _ _ _ _ _ _ (n - 1) n1 h0 n3]; exact hinv.In

/-! ### the loops keep the invariant -/

theorem recomputeOne_allP {n : Nat} (s : VScore) (cs : List Pt) (pq : Heap) (ai : Int) (cur : Nat)
    (bi : Int) (eps : Rat) (h : AllP (EOK n) pq) (h1 : ai < (cur : Int)) (h2 : (cur : Int) < bi) :
    AllP (EOK n) (recomputeOne s cs pq ai cur bi n eps) := by
  unfold recomputeOne
  split
  · exact h
  · rename_i hc
    apply heapPush_allP h
    simp only [EOK]
    omega

theorem recompute_allP {n : Nat} (s : VScore) (cs : List Pt) (pq : Heap) (ll : Int) (l r : Nat)
    (rr : Int) (eps : Rat) (h : AllP (EOK n) pq) (h1 : ll < (l : Int)) (h2 : l < r) (h3 : (r : Int) < rr) :
    AllP (EOK n) (recompute s cs pq ll l r rr n eps) := by
  unfold recompute
  exact recomputeOne_allP s cs _ _ _ _ eps (recomputeOne_allP s cs pq _ _ _ eps h h1 (by omega)) (by omega) h3

theorem initScores_allP (cs : List Pt) : AllP (EOK cs.length) (initScores cs) := by
  intro x hx
  simp only [initScores, List.mem_map, List.mem_range] at hx
  obtain ⟨i, hi, rfl⟩ := hx
  simp only [EOK]; omega

theorem vwLoop_inv (cs : List Pt) (eps : Rat) (n : Nat) : ∀ (fuel : Nat) (adj : Adj) (pq : Heap),
    AInv n adj → AllP (EOK n) pq → AInv n (vwLoop cs eps n fuel adj pq)
  | 0, adj, pq, hi, _ => by simpa [vwLoop] using hi
  | fuel + 1, adj, pq, hi, hq => by
    simp only [vwLoop]
    split
    · exact hi
    · rename_i s pq' hpop
      obtain ⟨hs, hq'⟩ := heapPop_allP hq hpop
      split
      · exact hi
      · generalize hadj : adj s.current = a
        obtain ⟨left, right⟩ := a
        simp only
        split
        · exact vwLoop_inv cs eps n fuel adj pq' hi hq'
        · rename_i hne
          have hl : left = (s.left : Int) := by
            by_contra hh; exact hne (Or.inl hh)
          have hr : right = (s.right : Int) := by
            by_contra hh; exact hne (Or.inr hh)
          subst hl hr
          obtain ⟨h1, h2, h3⟩ := hs
          obtain ⟨hinv', b1, b2, _, _⟩ := unlink_inv hi h1 h2 h3 hadj
          exact vwLoop_inv cs eps n fuel _ _ hinv'
            (recompute_allP s cs pq' _ _ _ _ eps hq' b1 (by omega) b2)

theorem vwpLoop_inv (cs : List Pt) (eps : Rat) (n imin mpts : Nat) :
    ∀ (fuel : Nat) (adj : Adj) (pq : Heap) (counter : Nat) (tree : List Seg) (adj' : Adj) (tree' : List Seg),
    AInv n adj → AllP (EOK n) pq →
    vwpLoop cs eps n imin mpts fuel adj pq counter tree = some (adj', tree') → AInv n adj'
  | 0, adj, pq, counter, tree, adj', tree', hi, _, hres => by
    simp only [vwpLoop, Option.some.injEq, Prod.mk.injEq] at hres
    rw [← hres.1]; exact hi
  | fuel + 1, adj, pq, counter, tree, adj', tree', hi, hq, hres => by
    simp only [vwpLoop] at hres
    split at hres
    · simp only [Option.some.injEq, Prod.mk.injEq] at hres; rw [← hres.1]; exact hi
    · rename_i s pq' hpop
      obtain ⟨hs, hq'⟩ := heapPop_allP hq hpop
      split at hres
      · simp only [Option.some.injEq, Prod.mk.injEq] at hres; rw [← hres.1]; exact hi
      · split at hres
        · simp only [Option.some.injEq, Prod.mk.injEq] at hres; rw [← hres.1]; exact hi
        · generalize hadj : adj s.current = a at hres
          obtain ⟨left, right⟩ := a
          simp only at hres
          split at hres
          · exact vwpLoop_inv cs eps n imin mpts fuel adj pq' counter tree adj' tree' hi hq' hres
          · rename_i hne
            have hl : left = (s.left : Int) := by
              by_contra hh; exact hne (Or.inl hh)
            have hr : right = (s.right : Int) := by
              by_contra hh; exact hne (Or.inr hh)
            subst hl hr
            obtain ⟨h1, h2, h3⟩ := hs
            obtain ⟨hinv', b1, b2, _, _⟩ := unlink_inv hi h1 h2 h3 hadj
            split at hres
            · simp only [Option.some.injEq, Prod.mk.injEq] at hres; rw [← hres.1]; exact hi
            · split at hres
              · exact absurd hres (by simp)
              · split at hres
                · exact absurd hres (by simp)
                · exact vwpLoop_inv cs eps n imin mpts fuel _ _ _ _ adj' tree' hinv'
                    (recompute_allP _ cs pq' _ _ _ _ eps hq' b1 (by omega) b2) hres

/-! ### reading the result off the final `adjacent` -/

theorem filter_range_head (n : Nat) (p : Nat → Bool) (hn : 1 ≤ n) (h0 : p 0 = true) :
    ((List.range n).filter p).head? = some 0 := by
  obtain ⟨m, rfl⟩ : ∃ m, n = m + 1 := ⟨n - 1, by omega⟩
  rw [List.range_succ_eq_map]
  simp [List.filter_cons, h0]

theorem filter_range_last (n : Nat) (p : Nat → Bool) (hn : 1 ≤ n) (h0 : p (n - 1) = true) :
    ((List.range n).filter p).getLast? = some (n - 1) := by
  obtain ⟨m, rfl⟩ : ∃ m, n = m + 1 := ⟨n - 1, by omega⟩
  rw [List.range_succ, List.filter_append]
  simp only [Nat.add_sub_cancel] at h0
  simp [List.filter_cons, h0]

theorem ainv_ends_live {n : Nat} {adj : Adj} (hn : 1 ≤ n) (h : AInv n adj) :
    (adj 0 != (0, 0)) = true ∧ (adj (n - 1) != (0, 0)) = true := by
  constructor
  · have := live_of_fst (adj := adj) (i := 0) (by rw [h.I0]; decide)
    simpa using this
  · have := live_of_snd (adj := adj) (i := n - 1) (by rw [h.In]; omega)
    simpa using this

/-! ### `counter` of `visvalingam_preserve` is the number of live vertices -/

def liveCount (n : Nat) (adj : Adj) : Nat := (List.range n).countP (fun i => adj i != (0, 0))

theorem countP_range_flip (p q : Nat → Bool) : ∀ (n c : Nat), c < n → p c = true → q c = false →
    (∀ j, j < n → j ≠ c → q j = p j) →
    (List.range n).countP q + 1 = (List.range n).countP p
  | 0, c, h, _, _, _ => by omega
  | m + 1, c, h, hp, hq, hag => by
    rw [List.range_succ, List.countP_append, List.countP_append]
    by_cases hc : c = m
    · subst hc
      have : (List.range c).countP q = (List.range c).countP p := by
        apply List.countP_congr
        intro j hj
        have := List.mem_range.1 hj
        rw [hag j (by omega) (by omega)]
      simp [this, hp, hq]
    · have ih := countP_range_flip p q m c (by omega) hp hq (fun j hj hne => hag j (by omega) hne)
      have hm := hag m (by omega) (fun e => hc e.symm)
      simp only [List.countP_singleton, hm]
      omega

theorem liveCount_unlink {n : Nat} {adj : Adj} {l c r : Nat} (hinv : AInv n adj)
    (hlc : l < c) (hcr : c < r) (hrn : r < n) (hadj : adj c = ((l : Int), (r : Int))) :
    liveCount n (unlink adj l c r (adj l).1 (adj r).2) + 1 = liveCount n adj := by
  obtain ⟨_, b1, b2, b3, b4⟩ := unlink_inv hinv hlc hcr hrn hadj
  have hcl : adj c ≠ (0, 0) := live_of_snd (by rw [hadj]; simp; omega)
  have hc1 : (adj c).1 = (l : Int) := by rw [hadj]
  have hc2 : (adj c).2 = (r : Int) := by rw [hadj]
  obtain ⟨hll, _⟩ := hinv.DL c l (by omega) hcl hc1
  obtain ⟨hrl, _⟩ := hinv.DR c r (by omega) hcl hc2 hrn
  unfold liveCount
  apply countP_range_flip _ _ n c (by omega)
  · simpa using hcl
  · simp [unlink_c]
  · intro j hj hne
    show (unlink adj l c r (adj l).1 (adj r).2 j != (0, 0)) = (adj j != (0, 0))
    by_cases e2 : j = r
    · rw [e2, unlink_r _ _ _ _ _ _ (by omega)]
      have h1 : (((l : Int), (adj r).2) != (0, 0)) = true := by
        simpa using pair_ne_zero_of_snd (a := (l : Int)) (b := (adj r).2) (by omega)
      have h2 : (adj r != (0, 0)) = true := by simpa using hrl
      rw [h1, h2]
    · by_cases e3 : j = l
      · rw [e3, unlink_l _ _ _ _ _ _ (by omega) (by omega)]
        have h1 : (((adj l).1, (r : Int)) != (0, 0)) = true := by
          simpa using pair_ne_zero_of_snd (a := (adj l).1) (b := (r : Int)) (by omega)
        have h2 : (adj l != (0, 0)) = true := by simpa using hll
        rw [h1, h2]
      · rw [unlink_o _ _ _ _ _ _ j hne e2 e3]

theorem keep_length (adj : Adj) : ∀ (l : List Pt) (k : Nat),
    ((l.zipIdx k).filterMap (fun p => if adj p.2 != (0, 0) then some p.1 else none)).length =
      (List.range' k l.length).countP (fun i => adj i != (0, 0))
  | [], k => by simp
  | x :: t, k => by
    simp only [List.zipIdx_cons, List.filterMap_cons, List.length_cons, List.range'_succ, List.countP_cons]
    have ih := keep_length adj t (k + 1)
    by_cases h : (adj k != (0, 0)) = true
    · simp only [h, if_true, List.length_cons, ih]
    · simp only [h, Bool.false_eq_true, if_false]
      simpa using ih


theorem vwpLoop_count (cs : List Pt) (eps : Rat) (n imin mpts : Nat) :
    ∀ (fuel : Nat) (adj : Adj) (pq : Heap) (counter : Nat) (tree : List Seg) (adj' : Adj) (tree' : List Seg),
    AInv n adj → AllP (EOK n) pq → counter = liveCount n adj →
    vwpLoop cs eps n imin mpts fuel adj pq counter tree = some (adj', tree') →
    min imin counter ≤ liveCount n adj'
  | 0, adj, pq, counter, tree, adj', tree', hi, _, hcnt, hres => by
    simp only [vwpLoop, Option.some.injEq, Prod.mk.injEq] at hres
    rw [← hres.1, ← hcnt]; exact Nat.min_le_right _ _
  | fuel + 1, adj, pq, counter, tree, adj', tree', hi, hq, hcnt, hres => by
    simp only [vwpLoop] at hres
    split at hres
    · simp only [Option.some.injEq, Prod.mk.injEq] at hres
      rw [← hres.1, ← hcnt]; exact Nat.min_le_right _ _
    · rename_i s pq' hpop
      obtain ⟨hs, hq'⟩ := heapPop_allP hq hpop
      split at hres
      · simp only [Option.some.injEq, Prod.mk.injEq] at hres
        rw [← hres.1, ← hcnt]; exact Nat.min_le_right _ _
      · split at hres
        · simp only [Option.some.injEq, Prod.mk.injEq] at hres
          rw [← hres.1, ← hcnt]; exact Nat.min_le_right _ _
        · rename_i hcmin
          generalize hadj : adj s.current = a at hres
          obtain ⟨left, right⟩ := a
          simp only at hres
          split at hres
          · exact vwpLoop_count cs eps n imin mpts fuel adj pq' counter tree adj' tree' hi hq' hcnt hres
          · rename_i hne
            have hl : left = (s.left : Int) := by
              by_contra hh; exact hne (Or.inl hh)
            have hr : right = (s.right : Int) := by
              by_contra hh; exact hne (Or.inr hh)
            subst hl hr
            obtain ⟨h1, h2, h3⟩ := hs
            obtain ⟨hinv', b1, b2, _, _⟩ := unlink_inv hi h1 h2 h3 hadj
            have hlc := liveCount_unlink hi h1 h2 h3 hadj
            split at hres
            · simp only [Option.some.injEq, Prod.mk.injEq] at hres
              rw [← hres.1, ← hcnt]; exact Nat.min_le_right _ _
            · split at hres
              · exact absurd hres (by simp)
              · split at hres
                · exact absurd hres (by simp)
                · have ih := vwpLoop_count cs eps n imin mpts fuel _ _ (counter - 1) _ adj' tree' hinv'
                    (recompute_allP _ cs pq' _ _ _ _ eps hq' b1 (by omega) b2) (by omega) hres
                  have : min imin counter = min imin (counter - 1) := by omega
                  rw [this]; exact ih


theorem liveCount_init (n : Nat) : liveCount n adjInit = n := by
  unfold liveCount
  have : ∀ i ∈ List.range n, (adjInit i != (0, 0)) = true := by
    intro i _
    unfold adjInit
    split
    · decide
    · have : ((i : Int) - 1, (i : Int) + 1) ≠ (0, 0) := pair_ne_zero_of_snd (by omega)
      simpa using this
  rw [List.countP_eq_length.2 this, List.length_range]

end Geo.Proofs.C09
