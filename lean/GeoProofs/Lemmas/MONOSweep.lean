/-
  MONO (C10, builder of the monotone pieces): the sweep visits the event points in strictly increasing
  lexicographic order.

  `SInv`: the event queue is a heap in the sweep order; every segment is a proper line (`left < right`); every queued
  event refers to an existing segment, a `LineLeft` event sits at the segment's left end and a `LineRight` event
  strictly after it. `handle_event` keeps `SInv` and never queues an event before the point being handled
  (split points lie at or after it), so `next_point` returns points in increasing order.
-/
import GeoProofs.Lemmas.MONOInvB

namespace Geo.Proofs.MONO
open Geo Geo.Mono Geo.MonoBuild Geo.Proofs.C10

/-- a proper line: the variant `Line` with `left < right` -/
def LineOk (l : LoP) : Prop := ∃ a b, l = .line a b ∧ lexLt a b = true

theorem lineOk_lt {l : LoP} (h : LineOk l) : lexLt l.left l.right = true := by
  obtain ⟨a, b, e, h⟩ := h; rw [e]; exact h

theorem from_of_lt {a b : Pt} (h : lexLt a b = true) : LoP.from a b = .line a b := by
  simp [LoP.from, h]

theorem lineOk_from {a b : Pt} (h : lexLt a b = true) : LineOk (LoP.from a b) := ⟨a, b, from_of_lt h, h⟩

/-- a queued (or just popped) event is consistent with the segment store -/
def EvOk (st : St) (e : Ev) : Prop :=
  ∃ s, st.segs[e.seg]? = some s ∧
    ((e.ty = .lineLeft ∧ e.pt = s.line.left) ∨ (e.ty = .lineRight ∧ lexLt s.line.left e.pt = true))

structure SInv (st : St) : Prop where
  heap : HeapInv st.events
  lines : ∀ s ∈ st.segs, LineOk s.line
  evs : ∀ e ∈ st.events, EvOk st e

/-- no queued event lies before `lo` -/
def Lo (lo : Pt) (st : St) : Prop := ∀ e ∈ st.events, lexLt e.pt lo = false

/-- the segment store only grows and left ends never move -/
@[reducible] def Ext (st st' : St) : Prop :=
  ∀ (i : Nat) (s : Seg), st.segs[i]? = some s → ∃ s' : Seg, st'.segs[i]? = some s' ∧ s'.line.left = s.line.left

theorem Ext.refl (st : St) : Ext st st := fun _ s h => ⟨s, h, rfl⟩

theorem Ext.trans {a b c : St} (h1 : Ext a b) (h2 : Ext b c) : Ext a c := by
  intro i s hs
  obtain ⟨s1, e1, l1⟩ := h1 i s hs
  obtain ⟨s2, e2, l2⟩ := h2 i s1 e1
  exact ⟨s2, e2, by rw [l2, l1]⟩

theorem EvOk.ext {st st' : St} {e : Ev} (h : EvOk st e) (hx : Ext st st') : EvOk st' e := by
  obtain ⟨s, hs, hc⟩ := h
  obtain ⟨s', hs', hl⟩ := hx _ s hs
  exact ⟨s', hs', by rw [hl]; exact hc⟩

theorem ext_of_segs_eq {st st' : St} (h : st'.segs = st.segs) : Ext st st' := by
  intro i s hs; exact ⟨s, by rw [h]; exact hs, rfl⟩

/-! ### `check_interior_intersection` -/

theorem checkInterior_spec_a {la lb : LoP} {p : Pt} (h : checkInterior la lb = .a p) :
    lexLt la.left p = true ∧ lexLt p la.right = true ∧ (p = lb.left ∨ p = lb.right) := by
  unfold checkInterior at h
  simp only at h
  split at h
  · rename_i hc
    cases h
    simp only [Bool.and_eq_true] at hc
    exact ⟨hc.1.1, hc.1.2, Or.inl rfl⟩
  · split at h
    · rename_i hc
      cases h
      simp only [Bool.and_eq_true] at hc
      exact ⟨hc.1.1, hc.1.2, Or.inr rfl⟩
    · split at h
      · cases h
      · split at h <;> cases h

theorem checkInterior_spec_b {la lb : LoP} {p : Pt} (h : checkInterior la lb = .b p) :
    lexLt lb.left p = true ∧ lexLt p lb.right = true := by
  unfold checkInterior at h
  simp only at h
  split at h
  · cases h
  · split at h
    · cases h
    · split at h
      · rename_i hc
        cases h
        simp only [Bool.and_eq_true] at hc
        exact ⟨hc.1.1, hc.1.2⟩
      · split at h
        · rename_i hc
          cases h
          simp only [Bool.and_eq_true] at hc
          exact ⟨hc.1.1, hc.1.2⟩
        · cases h

/-! ### `split_at` -/

theorem splitAt_spec {st st' : St} {i nw : Nat} {pt : Pt} (h : st.splitAt i pt = some (st', nw)) :
    ∃ s, st.segs[i]? = some s ∧ nw = st.segs.length ∧
      st' = { st with segs := st.segs.set i { s with line := LoP.from s.line.left pt } ++
                [{ line := LoP.from pt s.line.right, info := s.info }] } := by
  unfold St.splitAt at h
  split at h
  · cases h
  · rename_i s hs
    simp only [Option.some.injEq, Prod.mk.injEq] at h
    exact ⟨s, hs, h.2.symm, h.1.symm⟩

theorem getElem?_set_append {α} (l : List α) (i : Nat) (a b : α) (j : Nat) (x : α)
    (h : l[j]? = some x) : (l.set i a ++ [b])[j]? = some (if i = j then a else x) := by
  have hj : j < l.length := (List.getElem?_eq_some_iff.1 h).1
  rw [List.getElem?_append_left (by rw [List.length_set]; exact hj), List.getElem?_set]
  by_cases e : i = j
  · simp [e, hj]
  · simp [e, h]

/-- splitting segment `i` (a proper line) at a point strictly inside it -/
theorem splitAt_sinv {st st' : St} {i nw : Nat} {pt : Pt} (hi : SInv st)
    (h : st.splitAt i pt = some (st', nw))
    (hin : ∀ s, st.segs[i]? = some s → lexLt s.line.left pt = true ∧ lexLt pt s.line.right = true) :
    SInv st' ∧ Ext st st' ∧ st'.events = st.events ∧
    (∃ s, st.segs[i]? = some s ∧ st'.lineOf i = some (.line s.line.left pt) ∧
      st'.lineOf nw = some (.line pt s.line.right)) := by
  obtain ⟨s, hs, hnw, hst⟩ := splitAt_spec h
  obtain ⟨h1, h2⟩ := hin s hs
  have hil : i < st.segs.length := (List.getElem?_eq_some_iff.1 hs).1
  have hx : Ext st st' := by
    intro j x hj
    rw [hst]
    refine ⟨_, getElem?_set_append _ _ _ _ _ _ hj, ?_⟩
    split
    · rename_i e
      subst e
      rw [hs] at hj; cases hj
      show (LoP.from s.line.left pt).left = s.line.left
      rw [from_of_lt h1]; rfl
    · rfl
  refine ⟨⟨?_, ?_, ?_⟩, hx, by rw [hst], s, hs, ?_, ?_⟩
  · rw [hst]; exact hi.heap
  · rw [hst]
    intro x hx'
    simp only [List.mem_append, List.mem_singleton] at hx'
    rcases hx' with hx' | hx'
    · rcases List.mem_or_eq_of_mem_set hx' with g | g
      · exact hi.lines x g
      · rw [g]; exact lineOk_from h1
    · rw [hx']; exact lineOk_from h2
  · intro e he
    have : e ∈ st.events := by rw [hst] at he; exact he
    exact (hi.evs e this).ext hx
  · rw [hst]
    unfold St.lineOf
    simp only
    rw [getElem?_set_append _ _ _ _ _ _ hs]
    simp [from_of_lt h1]
  · rw [hst, hnw]
    unfold St.lineOf
    simp only
    have : (st.segs.set i { s with line := LoP.from s.line.left pt }).length = st.segs.length := List.length_set
    rw [List.getElem?_append_right (by rw [this]), this]
    simp [from_of_lt h2]

theorem EvOk.congr {st st' : St} {e : Ev} (h : EvOk st e) (hs : st'.segs = st.segs) : EvOk st' e := by
  unfold EvOk at *; rw [hs]; exact h

theorem eventsOf_line {st : St} {i : Nat} {a b : Pt} (h : st.lineOf i = some (.line a b)) :
    st.eventsOf i = some (⟨a, .lineLeft, i⟩, ⟨b, .lineRight, i⟩) := by
  unfold St.eventsOf; rw [h]; rfl

theorem lineOf_seg {st : St} {i : Nat} {l : LoP} (h : st.lineOf i = some l) :
    ∃ s, st.segs[i]? = some s ∧ s.line = l := by
  unfold St.lineOf at h
  cases hs : st.segs[i]? with
  | none => rw [hs] at h; cases h
  | some s => rw [hs] at h; simp only [Option.map_some, Option.some.injEq] at h; exact ⟨s, rfl, h⟩

theorem lo_of_le {lo : Pt} {st : St} {evs : Heap} (h : ∀ e ∈ evs, lexLt e.pt lo = false) :
    Lo lo { st with events := evs } := h

/-- the split made for a `LineLeft` event of segment `seg` (line `lb`, the event point is `lb.left`) against the
active neighbour `act` (line `la`): the invariant is kept, and every new event lies at or after the event point -/
theorem applySplit_sinv {st st' : St} {act seg : Nat} {la lb : LoP} (hi : SInv st)
    (hla : st.lineOf act = some la) (hlb : st.lineOf seg = some lb) (hlo : Lo lb.left st)
    (h : st.applySplit act seg (checkInterior la lb) = some st') :
    SInv st' ∧ Ext st st' ∧ Lo lb.left st' := by
  obtain ⟨sa, hsa, hsal⟩ := lineOf_seg hla
  obtain ⟨sb, hsb, hsbl⟩ := lineOf_seg hlb
  have okb : LineOk lb := by rw [← hsbl]; exact hi.lines sb (mem_of_getElem? hsb)
  have hblt := lineOk_lt okb
  unfold St.applySplit at h
  split at h
  · cases h; exact ⟨hi, Ext.refl _, hlo⟩
  · rename_i pt hck
    obtain ⟨c1, c2, c3⟩ := checkInterior_spec_a hck
    split at h
    · cases h
    · rename_i st1 nw h1
      obtain ⟨i1, x1, ev1, s, hs, l1, l2⟩ := splitAt_sinv hi h1 (by
        intro s hs; rw [hsa] at hs; cases hs; rw [hsal]; exact ⟨c1, c2⟩)
      rw [hsa] at hs; cases hs
      rw [hsal] at l1 l2
      rw [eventsOf_line l1, eventsOf_line l2] at h
      simp only [Option.some.injEq] at h
      have hge : lexLt pt lb.left = false := by
        rcases c3 with e | e
        · rw [e]; exact lexLt_irrefl _
        · rw [e]; exact lexLt_asymm hblt
      have hge2 : lexLt la.right lb.left = false := by
        cases hx : lexLt la.right lb.left with
        | false => rfl
        | true => have := lexLt_trans c2 hx; rw [hge] at this; cases this
      subst h
      have hseg : ∀ (evs : Heap) (e : Ev), EvOk st1 e → EvOk { st1 with events := evs } e :=
        fun _ e he => he.congr rfl
      obtain ⟨sa1, hsa1, hsa1l⟩ := lineOf_seg l1
      obtain ⟨sn, hsn, hsnl⟩ := lineOf_seg l2
      have o1 : EvOk st1 ⟨pt, .lineRight, act⟩ := ⟨sa1, hsa1, Or.inr ⟨rfl, by rw [hsa1l]; exact c1⟩⟩
      have o2 : EvOk st1 ⟨pt, .lineLeft, nw⟩ := ⟨sn, hsn, Or.inl ⟨rfl, by rw [hsnl]; rfl⟩⟩
      have o3 : EvOk st1 ⟨la.right, .lineRight, nw⟩ := ⟨sn, hsn, Or.inr ⟨rfl, by rw [hsnl]; exact c2⟩⟩
      refine ⟨⟨?_, i1.lines, ?_⟩, x1, ?_⟩
      · exact (heapExtend2_heap _ _ _ (heapPush_heap _ _ i1.heap).2).2
      · intro e he
        exact hseg _ e (heapExtend2_forall (P := EvOk st1) (heapPush_forall i1.evs o1) o2 o3 e he)
      · refine heapExtend2_forall (P := fun e => lexLt e.pt lb.left = false) (heapPush_forall ?_ hge) hge hge2
        rw [ev1]; exact hlo
  · rename_i pt hck
    obtain ⟨c1, c2⟩ := checkInterior_spec_b hck
    split at h
    · cases h
    · rename_i st1 nw h1
      obtain ⟨i1, x1, ev1, s, hs, l1, l2⟩ := splitAt_sinv hi h1 (by
        intro s hs; rw [hsb] at hs; cases hs; rw [hsbl]; exact ⟨c1, c2⟩)
      rw [hsb] at hs; cases hs
      rw [hsbl] at l1 l2
      rw [eventsOf_line l1, eventsOf_line l2] at h
      simp only [Option.some.injEq] at h
      have hge : lexLt pt lb.left = false := lexLt_asymm c1
      have hge2 : lexLt lb.right lb.left = false := lexLt_asymm hblt
      subst h
      have hseg : ∀ (evs : Heap) (e : Ev), EvOk st1 e → EvOk { st1 with events := evs } e :=
        fun _ e he => he.congr rfl
      obtain ⟨sa1, hsa1, hsa1l⟩ := lineOf_seg l1
      obtain ⟨sn, hsn, hsnl⟩ := lineOf_seg l2
      have o1 : EvOk st1 ⟨pt, .lineRight, seg⟩ := ⟨sa1, hsa1, Or.inr ⟨rfl, by rw [hsa1l]; exact c1⟩⟩
      have o2 : EvOk st1 ⟨pt, .lineLeft, nw⟩ := ⟨sn, hsn, Or.inl ⟨rfl, by rw [hsnl]; rfl⟩⟩
      have o3 : EvOk st1 ⟨lb.right, .lineRight, nw⟩ := ⟨sn, hsn, Or.inr ⟨rfl, by rw [hsnl]; exact c2⟩⟩
      refine ⟨⟨?_, i1.lines, ?_⟩, x1, ?_⟩
      · exact (heapExtend2_heap _ _ _ (heapPush_heap _ _ i1.heap).2).2
      · intro e he
        exact hseg _ e (heapExtend2_forall (P := EvOk st1) (heapPush_forall i1.evs o1) o2 o3 e he)
      · refine heapExtend2_forall (P := fun e => lexLt e.pt lb.left = false) (heapPush_forall ?_ hge) hge hge2
        rw [ev1]; exact hlo

/-! ### operations that leave events and lines alone -/

/-- the lines of the segments are the same, position by position -/
@[reducible] def SameLines (st st' : St) : Prop :=
  st'.segs.length = st.segs.length ∧
  ∀ (i : Nat) (s : Seg), st.segs[i]? = some s → ∃ s' : Seg, st'.segs[i]? = some s' ∧ s'.line = s.line

theorem SameLines.refl (st : St) : SameLines st st := ⟨rfl, fun _ s h => ⟨s, h, rfl⟩⟩

theorem SameLines.trans {a b c : St} (h1 : SameLines a b) (h2 : SameLines b c) : SameLines a c := by
  refine ⟨by rw [h2.1, h1.1], ?_⟩
  intro i s hs
  obtain ⟨s1, e1, l1⟩ := h1.2 i s hs
  obtain ⟨s2, e2, l2⟩ := h2.2 i s1 e1
  exact ⟨s2, e2, by rw [l2, l1]⟩

theorem SameLines.ext {st st' : St} (h : SameLines st st') : Ext st st' := by
  intro i s hs
  obtain ⟨s', e, l⟩ := h.2 i s hs
  exact ⟨s', e, by rw [l]⟩

theorem sameLines_of_segs {st st' : St} (h : st'.segs = st.segs) : SameLines st st' :=
  ⟨by rw [h], fun _ s hs => ⟨s, by rw [h]; exact hs, rfl⟩⟩

theorem SameLines.mem {st st' : St} (h : SameLines st st') {s' : Seg} (hs : s' ∈ st'.segs) :
    ∃ s ∈ st.segs, s'.line = s.line := by
  obtain ⟨i, hi, e⟩ := List.getElem_of_mem hs
  have hi' : i < st.segs.length := by rw [← h.1]; exact hi
  obtain ⟨s2, e2, l2⟩ := h.2 i st.segs[i] (List.getElem?_eq_getElem hi')
  rw [List.getElem?_eq_getElem hi, e] at e2
  cases e2
  exact ⟨st.segs[i], List.getElem_mem hi', l2⟩

theorem sinv_same {st st' : St} (hi : SInv st) (hl : SameLines st st') (he : st'.events = st.events) : SInv st' := by
  refine ⟨by rw [he]; exact hi.heap, ?_, ?_⟩
  · intro s hs
    obtain ⟨s0, h0, e⟩ := hl.mem hs
    rw [e]; exact hi.lines s0 h0
  · intro e hev
    rw [he] at hev
    exact (hi.evs e hev).ext hl.ext

theorem setInfo_same {st st' : St} {i : Nat} {f : Info → Info} (h : st.setInfo i f = some st') :
    SameLines st st' ∧ st'.events = st.events ∧ st'.active = st.active := by
  unfold St.setInfo at h
  split at h
  · rename_i s hs
    cases h
    refine ⟨⟨List.length_set, ?_⟩, rfl, rfl⟩
    intro j x hj
    simp only
    rw [List.getElem?_set]
    by_cases e : i = j
    · subst e
      rw [hs] at hj; cases hj
      have : i < st.segs.length := (List.getElem?_eq_some_iff.1 hs).1
      simp [this]
    · simp [e, hj]
  · cases h

theorem modifyChain_same {st st' : St} {i : Nat} {f : List Pt → Option (List Pt)}
    (h : st.modifyChain i f = some st') :
    st'.segs = st.segs ∧ st'.events = st.events ∧ st'.active = st.active := by
  unfold St.modifyChain at h
  split at h
  · split at h
    · cases h; exact ⟨rfl, rfl, rfl⟩
    · cases h
  · cases h

theorem onEvent_same {st st' : St} {ev : Ev} (h : st.onEvent ev = some st') :
    SameLines st st' ∧ st'.events = st.events ∧ st'.active = st.active := by
  unfold St.onEvent at h
  split at h
  · split at h
    · cases h
    · obtain ⟨a, b, c⟩ := modifyChain_same h
      exact ⟨sameLines_of_segs a, b, c⟩
  · split at h
    · cases h
    · rename_i s hs
      cases h
      refine ⟨⟨List.length_set, ?_⟩, rfl, rfl⟩
      intro j x hj
      simp only
      rw [List.getElem?_set]
      by_cases e : ev.seg = j
      · subst e
        rw [hs] at hj; cases hj
        have : ev.seg < st.segs.length := (List.getElem?_eq_some_iff.1 hs).1
        simp [this]
      · simp [e, hj]
  · cases h

/-! ### `handle_event` keeps the sweep invariant -/

theorem heapPop_head {d d' : Heap} {e : Ev} (h : heapPop d = some (e, d')) : d.head? = some e := by
  unfold heapPop at h
  split at h
  · cases h
  · rename_i item hitem
    dsimp only at h
    split at h
    · rename_i hnone
      simp only [Option.some.injEq, Prod.mk.injEq] at h
      have hd0 : d.dropLast = [] := List.head?_eq_none_iff.1 hnone
      cases d with
      | nil => simp at hitem
      | cons a t =>
        cases t with
        | nil => simp at hitem; simp [← h.1, hitem]
        | cons b t' => simp at hd0
    · rename_i top htop
      simp only [Option.some.injEq, Prod.mk.injEq] at h
      rw [← h.1]
      cases d with
      | nil => simp at hitem
      | cons a t =>
        cases t with
        | nil => simp at htop
        | cons b t' => simpa using htop

theorem popped_sinv {st : St} {e : Ev} {evs : Heap} (hi : SInv st) (h : heapPop st.events = some (e, evs)) :
    SInv { st with events := evs } ∧ EvOk st e ∧ Lo e.pt { st with events := evs } ∧ st.events.head? = some e := by
  obtain ⟨_, h2, h3⟩ := heapPop_heap hi.heap h
  have hp := heapPop_perm h
  refine ⟨⟨h2, hi.lines, ?_⟩, hi.evs e (hp.mem_iff.2 (List.mem_cons_self ..)), ?_, heapPop_head h⟩
  · intro x hx
    exact (hi.evs x (hp.mem_iff.2 (List.mem_cons_of_mem _ hx))).congr rfl
  · intro x hx
    exact pt_le_of_ev_le (h3 x (hp.mem_iff.2 (List.mem_cons_of_mem _ hx)))

theorem handle_sinv : ∀ (fuel : Nat),
    (∀ (st st' : St) (ev : Ev), SInv st → EvOk st ev → Lo ev.pt st → handleEvent fuel st ev = some st' →
        SInv st' ∧ Ext st st' ∧ Lo ev.pt st') ∧
    (∀ (st st' : St) (ev : Ev) (b : Bool) (idx idx' : Nat), SInv st → EvOk st ev → ev.ty = .lineLeft → Lo ev.pt st →
        neighbour fuel st ev b idx = some (st', idx') → SInv st' ∧ Ext st st' ∧ Lo ev.pt st') ∧
    (∀ (st st' : St) (ev : Ev) (b : Bool) (idx idx' : Nat), SInv st → EvOk st ev → Lo ev.pt st →
        drain fuel st ev b idx = some (st', idx') → SInv st' ∧ Ext st st' ∧ Lo ev.pt st')
  | 0 => by
    refine ⟨?_, ?_, ?_⟩ <;> intros <;> rename_i h <;> simp [handleEvent, neighbour, drain] at h
  | fuel + 1 => by
    obtain ⟨ihH, ihN, ihD⟩ := handle_sinv fuel
    have fin : ∀ (st st' : St) (ev : Ev) (lo : Pt), SInv st → Lo lo st → st.onEvent ev = some st' →
        SInv st' ∧ Ext st st' ∧ Lo lo st' := by
      intro st st' ev lo hi hlo h
      obtain ⟨a, b, _⟩ := onEvent_same h
      exact ⟨sinv_same hi a b, a.ext, by unfold Lo; rw [b]; exact hlo⟩
    refine ⟨?_, ?_, ?_⟩
    · intro st st' ev hi hev hlo h
      unfold handleEvent at h
      split at h
      · cases h
      · split at h
        · cases h; exact ⟨hi, Ext.refl _, hlo⟩
        · split at h
          · rename_i hty
            split at h
            · cases h
            · split at h
              · cases h
              · rename_i st1 idx1 hn1
                obtain ⟨i1, x1, l1⟩ := ihN _ _ _ _ _ _ hi hev hty hlo hn1
                split at h
                · cases h
                · rename_i st2 idx2 hn2
                  obtain ⟨i2, x2, l2⟩ := ihN _ _ _ _ _ _ i1 (hev.ext x1) hty l1 hn2
                  split at h
                  · cases h
                  · rename_i act hact
                    obtain ⟨i3, x3, l3⟩ := fin { st2 with active := act } st' ev ev.pt
                      ⟨i2.heap, i2.lines, fun e he => (i2.evs e he).congr rfl⟩ l2 h
                    exact ⟨i3, (x1.trans x2).trans (fun i s hs => x3 i s hs), l3⟩
          · split at h
            · cases h
            · rename_i idx hidx
              obtain ⟨i3, x3, l3⟩ := fin { st with active := st.active.eraseIdx idx } st' ev ev.pt
                ⟨hi.heap, hi.lines, fun e he => (hi.evs e he).congr rfl⟩ hlo h
              exact ⟨i3, fun i s hs => x3 i s hs, l3⟩
          · exact fin st st' ev ev.pt hi hlo h
    · intro st st' ev b idx idx' hi hev hty hlo h
      unfold neighbour at h
      simp only at h
      split at h
      · cases h; exact ⟨hi, Ext.refl _, hlo⟩
      · split at h
        · cases h
        · split at h
          · rename_i la lb hla hlb
            obtain ⟨s, hs, hc⟩ := hev
            obtain ⟨sb, hsb, hsbl⟩ := lineOf_seg hlb
            rw [hs] at hsb; cases hsb
            have hpt : lb.left = ev.pt := by
              rcases hc with ⟨_, e⟩ | ⟨e, _⟩
              · rw [← hsbl]; exact e.symm
              · rw [hty] at e; cases e
            split at h
            · cases h
            · rename_i st1 hs1
              obtain ⟨i1, x1, l1⟩ := applySplit_sinv hi hla hlb (by rw [hpt]; exact hlo) hs1
              rw [hpt] at l1
              obtain ⟨i2, x2, l2⟩ := ihD _ _ _ _ _ _ i1 (EvOk.ext ⟨s, hs, hc⟩ x1) l1 h
              exact ⟨i2, x1.trans x2, l2⟩
          · cases h
    · intro st st' ev b idx idx' hi hev hlo h
      unfold drain at h
      split at h
      · cases h
      · rename_i top htop
        split at h
        · rename_i hlt
          split at h
          · cases h
          · rename_i e evs hpop
            obtain ⟨i0, ok0, lo0, hd0⟩ := popped_sinv hi hpop
            rw [htop] at hd0; cases hd0
            -- the popped event is at the same point as `ev`
            have hle : lexLt ev.pt top.pt = false := pt_le_of_ev_le (le_of_lt ((ev_lt_iff _ _).2 hlt))
            have hge : lexLt top.pt ev.pt = false := hlo top (List.mem_of_mem_head? htop)
            have hpt : top.pt = ev.pt := lex_antisymm hge hle
            split at h
            · cases h
            · rename_i st1 hh
              obtain ⟨i1, x1, l1⟩ := ihH { st with events := evs } st1 top i0 (ok0.congr rfl) lo0 hh
              rw [hpt] at l1
              have x1' : Ext st st1 := fun i s hs => x1 i s hs
              split at h
              · obtain ⟨i2, x2, l2⟩ := ihD _ _ _ _ _ _ i1 (hev.ext x1') l1 h
                exact ⟨i2, x1'.trans x2, l2⟩
              · split at h
                · cases h
                · obtain ⟨i2, x2, l2⟩ := ihD _ _ _ _ _ _ i1 (hev.ext x1') l1 h
                  exact ⟨i2, x1'.trans x2, l2⟩
        · cases h; exact ⟨hi, Ext.refl _, hlo⟩

end Geo.Proofs.MONO
