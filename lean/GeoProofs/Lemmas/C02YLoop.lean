/-
  C02Y, part 12: the two-pass truncation loop of `LineString: Contains<Line>` has no false positive.

  Invariant of `cutStep` (`Inv`): every point of the query segment `[a, b]` is on the line string or on what is left of
  the query, `[st.s, st.e]`; when the loop has answered `true`, every point of `[a, b]` is on the line string.
  Hence `lsContainsLine cs a b = true` (non-degenerate query) implies that the segment lies on the line string
  (`lsContainsLine_sound`) and, by `isContains_lineString_line`, that the mask `T*****FF*` holds on the specification.
  (The converse — two passes always suffice on a simple line string — is not proved.)
-/
import GeoProofs.Lemmas.C02YLinear
import Mathlib.Tactic.FieldSimp

set_option linter.unusedSimpArgs false
set_option linter.unusedVariables false

namespace Geo.Proofs.C02Y
open Geo Geo.Proofs.Kernel Geo.Proofs.Spec Geo.Proofs.C02X Geo.Proofs.C02Q

/-- a point of a segment splits it -/
theorem SegMem_split {s e n x : Pt} (hn : SegMem n s e) (hx : SegMem x s e) : SegMem x s n ∨ SegMem x n e := by
  obtain ⟨τ, τ0, τ1, nx, ny⟩ := hn
  obtain ⟨t, t0, t1, xx, xy⟩ := hx
  by_cases hle : t ≤ τ
  · left
    by_cases hτ : τ = 0
    · have ht : t = 0 := by linarith
      subst ht
      exact ⟨0, le_refl _, by norm_num, by rw [xx]; ring, by rw [xy]; ring⟩
    · have hpos : 0 < τ := lt_of_le_of_ne τ0 (Ne.symm hτ)
      refine ⟨t / τ, div_nonneg t0 τ0, (div_le_one hpos).mpr hle, ?_, ?_⟩
      · rw [xx, nx]; field_simp; ring
      · rw [xy, ny]; field_simp; ring
  · right
    have hlt : τ < t := not_le.mp hle
    have hpos : 0 < 1 - τ := by linarith
    refine ⟨(t - τ) / (1 - τ), div_nonneg (by linarith) hpos.le, (div_le_one hpos).mpr (by linarith), ?_, ?_⟩
    · rw [xx, nx]; field_simp; ring
    · rw [xy, ny]; field_simp; ring

def OnLsP (cs : List Pt) (x : Pt) : Prop := ∃ s ∈ segs cs, SegMem x s.1 s.2

structure Inv (cs : List Pt) (a b : Pt) (st : CutState) : Prop where
  cover : ∀ x, SegMem x a b → OnLsP cs x ∨ SegMem x st.s st.e
  done : st.result = some true → ∀ x, SegMem x a b → OnLsP cs x

def stopCond (n i : Nat) (st : CutState) : Bool :=
  if i ≥ n then
    (match st.firstCut with
     | some upto => i ≥ n + upto
     | none => true)
  else false

/-- the body of one iteration after the two exit tests -/
def cutCore (st : CutState) (i : Nat) (seg : Pt × Pt) : CutState :=
  let hitS := lineCoord seg.1 seg.2 st.s
  let hitE := lineCoord seg.1 seg.2 st.e
  if !hitS && !hitE then st else
  let other := if hitS then st.e else st.s
  if lineCoord seg.1 seg.2 other then { st with result := some true } else
  let newInside : Option Pt :=
    if lineContainsCoord st.s st.e seg.1 then some seg.1
    else if lineContainsCoord st.s st.e seg.2 then some seg.2
    else none
  match newInside with
  | none => st
  | some ni =>
    let fc := match st.firstCut with | some x => some x | none => some i
    if other == st.s then { st with e := ni, firstCut := fc } else { st with s := ni, firstCut := fc }

theorem cutStep_eq (n : Nat) (st : CutState) (i : Nat) (seg : Pt × Pt) :
    cutStep n st i seg =
      if st.result.isSome then st else
      if stopCond n i st then { st with result := some false } else cutCore st i seg := rfl

section
variable {cs : List Pt} {a b : Pt} {st : CutState} {seg : Pt × Pt}

theorem seg_sub (hseg : seg ∈ segs cs) {u v : Pt} (hu : lineCoord seg.1 seg.2 u = true)
    (hv : lineCoord seg.1 seg.2 v = true) (x : Pt) (hx : SegMem x u v) : OnLsP cs x :=
  ⟨seg, hseg, SegMem_convex ((lineCoord_iff _ _ _).mp hu) ((lineCoord_iff _ _ _).mp hv) hx⟩

/-- the segment touches the start; the start is moved to `ni` -/
theorem inv_cut_start (hseg : seg ∈ segs cs) (h : Inv cs a b st) (hS : lineCoord seg.1 seg.2 st.s = true) {ni : Pt}
    (hni : lineCoord seg.1 seg.2 ni = true) (hmem : SegMem ni st.s st.e) (fc : Option Nat) :
    Inv cs a b ⟨ni, st.e, fc, st.result⟩ := by
  refine ⟨fun x hx => ?_, fun hr => h.done hr⟩
  rcases h.cover x hx with g | g
  · exact Or.inl g
  · rcases SegMem_split hmem g with g' | g'
    · exact Or.inl (seg_sub hseg hS hni x g')
    · exact Or.inr g'

/-- the segment touches the end; the end is moved to `ni` -/
theorem inv_cut_end (hseg : seg ∈ segs cs) (h : Inv cs a b st) (hE : lineCoord seg.1 seg.2 st.e = true) {ni : Pt}
    (hni : lineCoord seg.1 seg.2 ni = true) (hmem : SegMem ni st.s st.e) (fc : Option Nat) :
    Inv cs a b ⟨st.s, ni, fc, st.result⟩ := by
  refine ⟨fun x hx => ?_, fun hr => h.done hr⟩
  rcases h.cover x hx with g | g
  · exact Or.inl g
  · rcases SegMem_split hmem g with g' | g'
    · exact Or.inr g'
    · exact Or.inl (seg_sub hseg hni hE x g')

theorem inv_done (hseg : seg ∈ segs cs) (h : Inv cs a b st) (hS : lineCoord seg.1 seg.2 st.s = true)
    (hE : lineCoord seg.1 seg.2 st.e = true) : Inv cs a b ⟨st.s, st.e, st.firstCut, some true⟩ := by
  refine ⟨h.cover, fun _ x hx => ?_⟩
  rcases h.cover x hx with g | g
  · exact g
  · exact seg_sub hseg hS hE x g

theorem cutCore_inv (i : Nat) (hseg : seg ∈ segs cs) (h : Inv cs a b st) : Inv cs a b (cutCore st i seg) := by
  have hends : lineCoord seg.1 seg.2 seg.1 = true ∧ lineCoord seg.1 seg.2 seg.2 = true :=
    ⟨(lineCoord_iff _ _ _).mpr (SegMem_left _ _), (lineCoord_iff _ _ _).mpr (SegMem_right _ _)⟩
  have hcc : ∀ c, lineContainsCoord st.s st.e c = true → SegMem c st.s st.e := fun c hc =>
    (lineCoord_iff _ _ _).mp (lineContainsCoord_imp _ _ _ hc)
  unfold cutCore
  simp only
  cases hS : lineCoord seg.1 seg.2 st.s with
  | true =>
    simp only [Bool.not_true, Bool.false_and, Bool.false_eq_true, if_false, if_true]
    cases hE : lineCoord seg.1 seg.2 st.e with
    | true => simp only [if_true]; exact inv_done hseg h hS hE
    | false =>
      simp only [Bool.false_eq_true, if_false]
      cases hA : lineContainsCoord st.s st.e seg.1 with
      | true =>
        simp only [if_true]
        cases hes : st.e == st.s with
        | true =>
          simp only [if_true]
          have : st.e = st.s := by simpa using hes
          exact inv_cut_end hseg h (by rw [this]; exact hS) hends.1 (hcc _ hA) _
        | false => simp only [Bool.false_eq_true, if_false]; exact inv_cut_start hseg h hS hends.1 (hcc _ hA) _
      | false =>
        simp only [Bool.false_eq_true, if_false]
        cases hB : lineContainsCoord st.s st.e seg.2 with
        | true =>
          simp only [if_true]
          cases hes : st.e == st.s with
          | true =>
            simp only [if_true]
            have : st.e = st.s := by simpa using hes
            exact inv_cut_end hseg h (by rw [this]; exact hS) hends.2 (hcc _ hB) _
          | false => simp only [Bool.false_eq_true, if_false]; exact inv_cut_start hseg h hS hends.2 (hcc _ hB) _
        | false => simp only [Bool.false_eq_true, if_false]; exact h
  | false =>
    cases hE : lineCoord seg.1 seg.2 st.e with
    | false => simp only [Bool.not_false, Bool.and_self, if_true]; exact h
    | true =>
      simp only [Bool.not_false, Bool.not_true, Bool.and_false, Bool.false_eq_true, if_false, hS]
      cases hA : lineContainsCoord st.s st.e seg.1 with
      | true =>
        simp only [if_true, beq_self_eq_true]
        exact inv_cut_end hseg h hE hends.1 (hcc _ hA) _
      | false =>
        simp only [Bool.false_eq_true, if_false]
        cases hB : lineContainsCoord st.s st.e seg.2 with
        | true =>
          simp only [if_true, beq_self_eq_true]
          exact inv_cut_end hseg h hE hends.2 (hcc _ hB) _
        | false => simp only [Bool.false_eq_true, if_false]; exact h

end

theorem cutStep_inv {cs : List Pt} {a b : Pt} {st : CutState} (n i : Nat) {seg : Pt × Pt}
    (hseg : seg ∈ segs cs) (h : Inv cs a b st) : Inv cs a b (cutStep n st i seg) := by
  rw [cutStep_eq]
  cases h0 : st.result.isSome with
  | true => simp only [if_true]; exact h
  | false =>
    simp only [Bool.false_eq_true, if_false]
    cases h1 : stopCond n i st with
    | true => simp only [if_true]; exact ⟨h.cover, fun e => by simp at e⟩
    | false => simp only [Bool.false_eq_true, if_false]; exact cutCore_inv i hseg h

theorem fold_inv {cs : List Pt} {a b : Pt} (n : Nat) : ∀ (L : List ((Pt × Pt) × Nat)) (st : CutState),
    (∀ y ∈ L, y.1 ∈ segs cs) → Inv cs a b st →
      Inv cs a b (L.foldl (fun st (y : (Pt × Pt) × Nat) => cutStep n st y.2 y.1) st)
  | [], st, _, h => h
  | y :: L, st, hL, h => by
      rw [List.foldl_cons]
      exact fold_inv n L _ (fun z hz => hL z (List.mem_cons_of_mem _ hz))
        (cutStep_inv n y.2 (hL y List.mem_cons_self) h)

/-- **no false positive**: the loop answers `true` only if every point of the query segment is on the line string -/
theorem lsContainsLine_sound (cs : List Pt) (a b : Pt) (hab : a ≠ b) (h : lsContainsLine cs a b = true) :
    ∀ x, SegMem x a b → ∃ s ∈ segs cs, SegMem x s.1 s.2 := by
  unfold lsContainsLine at h
  have hne : (a == b) = false := by simpa using hab
  simp only [hne, Bool.false_eq_true, if_false] at h
  have hinv := fold_inv (cs := cs) (a := a) (b := b) (segs cs).length ((segs cs ++ segs cs).zipIdx) ⟨a, b, none, none⟩
    (by
      intro y hy
      have hm : y.1 ∈ segs cs ++ segs cs := List.fst_mem_of_mem_zipIdx hy
      rcases List.mem_append.mp hm with g | g <;> exact g)
    ⟨fun x hx => Or.inr hx, fun e => by simp at e⟩
  intro x hx
  exact hinv.done (by simpa using h) x hx

/-- `LineString: Contains<Line>` answers `true` only when the mask `T*****FF*` holds on the specification -/
theorem containsM_lineString_line_sound (cs : List Pt) (c d : Pt) (hb : inDomain (.line c d) = true)
    (h : containsM (.lineString cs) (.line c d) = true) :
    Gen.isContains (relateSpec (.lineString cs) (.line c d)) = true := by
  have hcd : c ≠ d := by simpa [inDomain, validGeom] using hb
  have e : containsM (.lineString cs) (.line c d) = lsContainsLine cs c d := rfl
  rw [e] at h
  exact (isContains_lineString_line cs c d hcd).mpr (lsContainsLine_sound cs c d hcd h)

end Geo.Proofs.C02Y
