/-
  RELM3 — `relate(Point p, B) = relateSpec (Point p) B` on the graph path for `B` a Line, LineString or
  MultiLineString of the domain: the envelope test passed, so `B` has a coordinate, hence (validity) a curve with two
  distinct consecutive coordinates, hence its graph has an edge — the hypothesis of `point_linear_full`.
-/
import GeoProofs.Lemmas.RELM3ExtSpec
import GeoProofs.Lemmas.C12Interior

namespace Geo.Proofs.RELM3
open Geo Geo.GG Geo.RI Geo.Proofs.Spec Geo.Proofs.RELM Geo.Proofs.RELM2 Geo.Proofs.Kernel

theorem edges_addLineString_ne (idx : Nat) (l : List Pt) (G : Graph) (h : G.edges ≠ [] ∨ Long l) :
    (addLineString idx l G).edges ≠ [] := by
  unfold addLineString
  split
  · rename_i hd
    rcases h with h | ⟨f, s, r, h⟩
    · exact h
    · rw [hd] at h; cases h
  · rename_i c hd
    rcases h with h | ⟨f, s, r, h⟩
    · exact h
    · rw [hd] at h; cases h
  · intro e
    have : (G.edges ++ [(⟨_, lineLabel idx⟩ : Edge)]) = [] := e
    simp at this

theorem edges_addLineStrings_ne (idx : Nat) : ∀ (ls : List (List Pt)) (G : Graph),
    (G.edges ≠ [] ∨ ∃ l ∈ ls, Long l) → (addLineStrings idx ls G).edges ≠ []
  | [], G, h => by
      rcases h with h | ⟨l, hl, _⟩
      · exact h
      · cases hl
  | l :: ls, G, h => by
      simp only [addLineStrings]
      apply edges_addLineStrings_ne idx ls
      rcases h with h | ⟨l', hl', hlong⟩
      · exact Or.inl (edges_addLineString_ne idx l G (Or.inl h))
      · rcases List.mem_cons.1 hl' with rfl | hl'
        · exact Or.inl (edges_addLineString_ne idx l' G (Or.inr hlong))
        · exact Or.inr ⟨l', hl', hlong⟩

/-- the graph of a linear operand with a long curve has an edge -/
theorem fresh_edges_ne_nil (ar : Arith) {g : Geom} {ls : List (List Pt)} (h : LinearAs g ls)
    (hlong : ∃ l ∈ ls, Long l) : (freshGraph ar 1 g).edges ≠ [] := by
  intro he
  have h1 : ((freshGraph ar 1 g).edges).map toEdge = (buildGraph 1 g).edges := by
    rw [fresh_edges, selfIntersections_toEdge, map_toEdge_ofEdge]
  rw [he, h.graph 1, buildGraph_mls_edges] at h1
  exact edges_addLineStrings_ne 1 ls Graph.empty (Or.inr hlong) h1.symm

/-- Line, LineString, MultiLineString -/
def lineType : Geom → Bool
  | .line _ _ | .lineString _ | .multiLineString _ => true
  | _ => false

theorem linOk_of_lineType {b : Geom} (hd : inDomain b = true) (ht : lineType b = true) : linOk b = true := by
  cases b with
  | line a c => simpa [inDomain, validGeom, linOk] using hd
  | lineString _ => rfl
  | multiLineString _ => rfl
  | point _ => cases ht
  | polygon _ => cases ht
  | multiPoint _ => cases ht
  | multiPolygon _ => cases ht
  | rect _ _ => cases ht
  | triangle _ _ _ => cases ht
  | collection _ => cases ht

/-- a linear operand of the domain with a bounding rectangle has a long curve -/
theorem long_of_boundingRect {b : Geom} (hd : inDomain b = true) (ht : lineType b = true)
    (hr : boundingRect b ≠ none) : ∃ l ∈ (parts b).curves, Long l := by
  cases b with
  | line a c =>
    have hab : a ≠ c := by simpa [inDomain, validGeom] using hd
    exact ⟨[a, c], by simp [parts], a, c, [], by simp [dedup, dedupFrom, Ne.symm hab]⟩
  | lineString cs =>
    have hne : cs ≠ [] := by
      intro e
      apply hr
      rw [e]
      rfl
    have hv : cs.isEmpty = true ∨ lineStringSimple cs = true := by simpa [inDomain, validGeom] using hd
    rcases hv with he | hs
    · exact absurd (List.isEmpty_iff.1 he) hne
    · exact ⟨cs, by simp [parts], simple_dedup_long hs⟩
  | multiLineString ls =>
    have hne : ls.flatten ≠ [] := by
      intro e
      apply hr
      show getBoundingRect ls.flatten = none
      rw [e]
      rfl
    have : ∃ l, l ∈ ls := by
      cases ls with
      | nil => exact absurd rfl hne
      | cons l t => exact ⟨l, List.mem_cons_self ..⟩
    obtain ⟨l, hl⟩ := this
    exact ⟨l, by simpa [parts] using hl, long_of_mls_dom hd l hl⟩
  | point _ => cases ht
  | polygon _ => cases ht
  | multiPoint _ => cases ht
  | multiPolygon _ => cases ht
  | rect _ _ => cases ht
  | triangle _ _ _ => cases ht
  | collection _ => cases ht

/-- **`relate(Point p, B) = relateSpec (Point p) B`, the whole matrix, on the graph path**, for `B` a Line,
LineString or MultiLineString of the domain -/
theorem point_lineType_graph (p : Pt) (b : Geom) (hd : inDomain b = true) (ht : lineType b = true)
    (henv : envelopesMeet (.point p) b = true) {m : IM}
    (h : relateGraph Arith.exact (.point p) b = some m) : m = relateSpec (.point p) b := by
  have hl := linOk_of_lineType hd ht
  have hr : boundingRect b ≠ none := by
    intro e
    unfold envelopesMeet at henv
    rw [e] at henv
    cases hbp : boundingRect (.point p) <;> rw [hbp] at henv <;> cases henv
  exact point_linear_full p b hd hl
    (fresh_edges_ne_nil _ (linearAs_of_linOk b hd hl) (long_of_boundingRect hd ht hr)) h

end Geo.Proofs.RELM3
