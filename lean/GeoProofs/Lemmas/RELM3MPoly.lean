/-
  RELM3 — `DimsSpec` for every OGC-valid MultiPolygon and for the empty Polygon, hence for every operand of the
  validity domain that is not a GeometryCollection.
-/
import GeoProofs.Lemmas.RELM3Poly

namespace Geo.Proofs.RELM3
open Geo Geo.GG Geo.RI Geo.Proofs.Spec Geo.Proofs.RELM Geo.Proofs.RELM2 Geo.Proofs.Kernel

/-! ### operands without any point -/

/-- nothing is located inside or on the boundary of these parts -/
def NoPoints (pa : Parts) : Prop := (∀ v, locateParts pa v = .outside) ∧ (∀ e, locateFace pa e = .outside)

theorem rowMax_empty_of_noPoints {pa : Parts} (h : NoPoints pa) (pb : Parts) {X : Pos} (hX : X ≠ .outside) :
    RowMax pa pb X .empty := by
  refine ⟨Or.inl rfl, ?_⟩
  intro x hx hxa
  exfalso
  rcases mem_atomsOf_cases hx with ⟨v, _, rfl⟩ | ⟨s, _, _, m, _, _, rfl | rfl | rfl⟩
  · simp only at hxa; rw [h.1] at hxa; exact hX hxa.symm
  · simp only at hxa; rw [h.1] at hxa; exact hX hxa.symm
  · simp only at hxa; rw [h.2] at hxa; exact hX hxa.symm
  · simp only at hxa; rw [h.2] at hxa; exact hX hxa.symm

theorem noPoints_emptyPolygon : NoPoints (parts (.polygon ⟨[], []⟩)) := by
  refine ⟨?_, ?_⟩
  · intro v
    simp [parts, locateParts, insidePolyE, windingE, Poly.rings, segs, onAnySeg, Parts.areaSegs, Parts.curveSegs]
  · intro e
    simp [parts, locateFace, insidePolyE, windingE, segs]

theorem noPoints_emptyMultiPolygon : NoPoints (parts (.multiPolygon [])) := by
  refine ⟨?_, ?_⟩
  · intro v
    simp [parts, locateParts, onAnySeg, Parts.areaSegs, Parts.curveSegs]
  · intro e
    simp [parts, locateFace]

theorem dimsSpec_emptyPolygon : DimsSpec (.polygon ⟨[], []⟩) where
  inside := fun pb => rowMax_empty_of_noPoints noPoints_emptyPolygon pb (by decide)
  boundary := fun pb => rowMax_empty_of_noPoints noPoints_emptyPolygon pb (by decide)
  ne := fun h => absurd rfl h

theorem dimsSpec_emptyMultiPolygon : DimsSpec (.multiPolygon []) where
  inside := fun pb => rowMax_empty_of_noPoints noPoints_emptyMultiPolygon pb (by decide)
  boundary := fun pb => rowMax_empty_of_noPoints noPoints_emptyMultiPolygon pb (by decide)
  ne := fun h => absurd rfl h

/-! ### valid MultiPolygon -/

theorem foldl_max_two : ∀ (ps : List Poly) (m : Dim), (m = .two ∨ ∃ p ∈ ps, polyDims p = .two) →
    ps.foldl (fun m p => m.max (polyDims p)) m = .two
  | [], m, h => by
      rcases h with h | ⟨p, hp, _⟩
      · exact h
      · cases hp
  | q :: ps, m, h => by
      simp only [List.foldl_cons]
      apply foldl_max_two ps
      rcases h with rfl | ⟨p, hp, hpd⟩
      · left
        unfold Dim.max
        rw [if_pos (dim_rank_le _)]
      · rcases List.mem_cons.1 hp with rfl | hp
        · left
          rw [hpd]
          unfold Dim.max
          split
          · rename_i hge
            have := dim_rank_le m
            cases m <;> simp [Dim.rank] at hge ⊢
          · rfl
        · exact Or.inr ⟨p, hp, hpd⟩

theorem dimsSpec_multiPolygon_valid (q0 : Poly) (rest : List Poly) (hv : multiPolyValid (q0 :: rest) = true) :
    DimsSpec (.multiPolygon (q0 :: rest)) := by
  have hv0 : polyValid q0 = true := Geo.Proofs.C02X.multiPolyValid_members hv q0 (List.mem_cons_self ..)
  have hse := (Geo.Proofs.C02Q.polyValid_unpack hv0).1
  have hd0 := polyDims_of_simple hse
  have hd : mpolyDims (q0 :: rest) = .two := by
    unfold mpolyDims
    exact foldl_max_two _ _ (Or.inr ⟨q0, List.mem_cons_self .., hd0⟩)
  obtain ⟨s, hs, hne⟩ := polyDims_two_seg hd0
  have hext : q0.ext ∈ q0.rings := by simp [Poly.rings]
  -- the sample point on the shell of the first member, in the arrangement with `pb`
  have key : ∀ pb, ∃ m, SegMem m s.1 s.2 ∧ m ∉ vertsOf (parts (.multiPolygon (q0 :: rest))) pb ∧
      ∀ x, IsAtomAt (parts (.multiPolygon (q0 :: rest))) pb s.1 s.2 m x →
        x ∈ atomsOf (parts (.multiPolygon (q0 :: rest))) pb := by
    intro pb
    have hall : s ∈ (parts (.multiPolygon (q0 :: rest))).allSegs ++ pb.allSegs := by
      apply List.mem_append_left
      unfold Parts.allSegs Parts.areaSegs
      apply List.mem_append_right
      simp only [parts, List.flatMap_cons]
      exact List.mem_flatMap.2 ⟨q0.ext, List.mem_append_left _ hext, hs⟩
    exact exists_atoms_of_seg hall hne
  apply dimsSpec_multiPolygon_partial _ hd
  · intro pb
    obtain ⟨m, hm, hnv, hat⟩ := key pb
    have hnr : ∀ r' ∈ q0.rings, m ∉ r' := by
      intro r' hr' hmr
      apply hnv
      apply Geo.Proofs.C02X.allCoords_mem_verts_left
      simp only [allCoords, parts, List.mem_append, List.mem_flatten, List.mem_flatMap]
      right
      exact ⟨r', ⟨q0, List.mem_cons_self .., hr'⟩, hmr⟩
    have hloc : ∀ e : EPt, insidePolyE e q0 = true →
        locateFace (parts (.multiPolygon (q0 :: rest))) e = .inside := by
      intro e he
      unfold locateFace
      simp [parts, he]
    rcases Geo.Proofs.C02X.valid_side_inside hv0 hext (a := s.1) (b := s.2) (by simpa using hs) hm hnr with h | h
    · exact ⟨_, hat _ (Or.inr (Or.inl rfl)), rfl, hloc _ h⟩
    · exact ⟨_, hat _ (Or.inr (Or.inr rfl)), rfl, hloc _ h⟩
  · intro pb
    obtain ⟨m, hm, _, hat⟩ := key pb
    refine ⟨_, hat _ (Or.inl rfl), rfl, ?_⟩
    have hon : OnRings ((q0 :: rest).flatMap Poly.rings) m :=
      ⟨q0.ext, List.mem_flatMap.2 ⟨q0, List.mem_cons_self .., hext⟩,
        Or.inl (onAnySeg_of_mem_segs (a := s.1) (b := s.2) (by simpa using hs) hm)⟩
    exact locate_multiPolygon_onRings _ hv m hon

/-- **`HasDimensions` = the specification's row maxima for every operand of the validity domain that is not a
GeometryCollection** -/
theorem dimsSpec_dom_noCollection (b : Geom) (hd : inDomain b = true) (ht : notCollection b = true) : DimsSpec b := by
  cases b with
  | polygon q =>
    rcases Geo.Proofs.C02X.polygon_dom_cases hd with ⟨he, hi⟩ | hv
    · obtain ⟨ext, ints⟩ := q
      simp only at he hi
      subst he hi
      exact dimsSpec_emptyPolygon
    · exact dimsSpec_polygon_valid q hv
  | multiPolygon ps =>
    have hv : multiPolyValid ps = true := by simpa [inDomain, validGeom] using hd
    cases ps with
    | nil => exact dimsSpec_emptyMultiPolygon
    | cons q0 rest => exact dimsSpec_multiPolygon_valid q0 rest hv
  | point q => exact dimsSpec_point q
  | multiPoint qs => exact dimsSpec_multiPoint qs
  | line a c => exact dimsSpec_line a c
  | lineString cs =>
    apply dimsSpec_lineString
    rcases Geo.Proofs.C02X.lineString_dom_length hd with rfl | h
    · simp
    · omega
  | multiLineString ls =>
    apply dimsSpec_multiLineString
    intro l hl
    have := long_length (long_of_mls_dom hd l hl)
    omega
  | rect mn mx =>
    have h : mn.x < mx.x ∧ mn.y < mx.y := by simpa [inDomain, validGeom] using hd
    exact dimsSpec_rect mn mx h.1 h.2
  | triangle a c e =>
    have h : orient a c e ≠ .col := by simpa [inDomain, validGeom] using hd
    exact dimsSpec_triangle a c e (fun e' => h ((Geo.Proofs.Kernel.orient_col_iff a c e).2 e'))
  | collection _ => cases ht

end Geo.Proofs.RELM3

namespace Geo.Proofs.RELM3
open Geo Geo.GG Geo.RI Geo.Proofs.Spec Geo.Proofs.RELM Geo.Proofs.RELM2 Geo.Proofs.Kernel

/-! ### Polygon and MultiPolygon against a point: the whole matrix on the graph path -/

theorem edges_mono_addPolygonRing (ring : List Pt) (cl cr : Pos) (G : Graph) (h : G.edges ≠ []) :
    (addPolygonRing 1 ring cl cr G).edges ≠ [] := by
  unfold addPolygonRing
  split
  · exact h
  · intro e
    have : G.edges ++ [GG.ringEdge 1 ring cl cr] = [] := e
    simp at this

theorem edges_mono_addHoles : ∀ (hs : List (List Pt)) (G : Graph), G.edges ≠ [] → (addHoles 1 hs G).edges ≠ []
  | [], _, h => h
  | r :: hs, G, h => edges_mono_addHoles hs _ (edges_mono_addPolygonRing r _ _ G h)

theorem edges_addPolygon_ne (q : Poly) (G : Graph) (h : G.edges ≠ [] ∨ q.ext ≠ []) :
    (addPolygon 1 q G).edges ≠ [] := by
  unfold addPolygon
  apply edges_mono_addHoles
  rcases h with h | h
  · exact edges_mono_addPolygonRing _ _ _ G h
  · unfold addPolygonRing
    cases hq : q.ext with
    | nil => exact absurd hq h
    | cons f t =>
      simp only [dedup]
      intro e
      have : G.edges ++ [GG.ringEdge 1 (f :: t) .outside .inside] = [] := e
      simp at this

theorem edges_addPolygons_ne : ∀ (ps : List Poly) (G : Graph), (G.edges ≠ [] ∨ ∃ q ∈ ps, q.ext ≠ []) →
    (addPolygons 1 ps G).edges ≠ []
  | [], G, h => by
      rcases h with h | ⟨q, hq, _⟩
      · exact h
      · cases hq
  | q :: ps, G, h => by
      simp only [addPolygons]
      apply edges_addPolygons_ne ps
      rcases h with h | ⟨q', hq', hne⟩
      · exact Or.inl (edges_addPolygon_ne q G (Or.inl h))
      · rcases List.mem_cons.1 hq' with rfl | hq'
        · exact Or.inl (edges_addPolygon_ne q' G (Or.inr hne))
        · exact Or.inr ⟨q', hq', hne⟩

theorem fresh_edges_ne_of_built (ar : Arith) (g : Geom) (h : (buildGraph 1 g).edges ≠ []) :
    (freshGraph ar 1 g).edges ≠ [] := by
  intro he
  have h1 : ((freshGraph ar 1 g).edges).map toEdge = (buildGraph 1 g).edges := by
    rw [fresh_edges, selfIntersections_toEdge, map_toEdge_ofEdge]
  rw [he] at h1
  exact h h1.symm

/-- Polygon, MultiPolygon -/
def polyType : Geom → Bool
  | .polygon _ | .multiPolygon _ => true
  | _ => false

theorem ext_ne_nil_of_valid {q : Poly} (hv : polyValid q = true) : q.ext ≠ [] := by
  intro e
  have := polyDims_of_simple (Geo.Proofs.C02Q.polyValid_unpack hv).1
  unfold polyDims at this
  rw [e] at this
  cases this

/-- **`relate(Point p, B) = relateSpec (Point p) B`, the whole matrix, on the graph path, for `B` a Polygon or
MultiPolygon of the domain** -/
theorem point_polyType_graph (p : Pt) (b : Geom) (hd : inDomain b = true) (ht : polyType b = true)
    (henv : envelopesMeet (.point p) b = true) {m : IM}
    (h : relateGraph Arith.exact (.point p) b = some m) : m = relateSpec (.point p) b := by
  have hr : boundingRect b ≠ none := by
    intro e
    unfold envelopesMeet at henv
    rw [e] at henv
    cases hbp : boundingRect (.point p) <;> rw [hbp] at henv <;> cases henv
  cases b with
  | polygon q =>
    rcases Geo.Proofs.C02X.polygon_dom_cases hd with ⟨he, _⟩ | hv
    · exfalso; apply hr
      show getBoundingRect q.ext = none
      rw [he]; rfl
    · have hd2 := polyDims_of_simple (Geo.Proofs.C02Q.polyValid_unpack hv).1
      have hne := ext_ne_nil_of_valid hv
      refine point_areal_full p _ hd rfl (dimsSpec_polygon_valid q hv) hd2 (by
        show boundaryOfDims (polyDims q) = .one
        rw [hd2]; rfl) (fresh_edges_ne_of_built _ _ ?_) h
      unfold buildGraph
      simp only [addGeometry]
      have : q.ext.isEmpty = false := by
        cases hq : q.ext with
        | nil => exact absurd hq hne
        | cons _ _ => rfl
      rw [this]
      exact edges_addPolygon_ne q _ (Or.inr hne)
  | multiPolygon ps =>
    have hv : multiPolyValid ps = true := by simpa [inDomain, validGeom] using hd
    cases ps with
    | nil => exfalso; apply hr; rfl
    | cons q0 rest =>
      have hv0 : polyValid q0 = true := Geo.Proofs.C02X.multiPolyValid_members hv q0 (List.mem_cons_self ..)
      have hne := ext_ne_nil_of_valid hv0
      have hd2 : mpolyDims (q0 :: rest) = .two := by
        unfold mpolyDims
        exact foldl_max_two _ _ (Or.inr ⟨q0, List.mem_cons_self ..,
          polyDims_of_simple (Geo.Proofs.C02Q.polyValid_unpack hv0).1⟩)
      refine point_areal_full p _ hd rfl (dimsSpec_multiPolygon_valid q0 rest hv) hd2 (by
        show boundaryOfDims (mpolyDims (q0 :: rest)) = .one
        rw [hd2]; rfl) (fresh_edges_ne_of_built _ _ ?_) h
      unfold buildGraph
      simp only [addGeometry]
      have : (q0 :: rest).all (·.ext.isEmpty) = false := by
        cases hq : q0.ext with
        | nil => exact absurd hq hne
        | cons _ _ => simp [hq]
      rw [this]
      exact edges_addPolygons_ne _ _ (Or.inr ⟨q0, List.mem_cons_self .., hne⟩)
  | point _ => cases ht
  | line _ _ => cases ht
  | lineString _ => cases ht
  | multiPoint _ => cases ht
  | multiLineString _ => cases ht
  | rect _ _ => cases ht
  | triangle _ _ _ => cases ht
  | collection _ => cases ht

/-- the rings of a Polygon / MultiPolygon of the domain are closed (what `relateImpl_never_panics` asks) -/
theorem ringsClosed_of_dom {b : Geom} (hd : inDomain b = true) (ht : polyType b = true) : ringsClosed b = true := by
  have hpoly : ∀ q : Poly, polyValid q = true → polyClosed q = true := by
    intro q hv
    obtain ⟨h1, h2, _⟩ := Geo.Proofs.C02Q.polyValid_unpack hv
    unfold polyClosed
    simp only [Bool.and_eq_true, decide_eq_true_eq, List.all_eq_true]
    exact ⟨(Geo.Proofs.C02Q.ringOK_of_simple h1).1, fun r hr => (Geo.Proofs.C02Q.ringOK_of_simple (h2 r hr)).1⟩
  cases b with
  | polygon q =>
    rcases Geo.Proofs.C02X.polygon_dom_cases hd with ⟨he, hi⟩ | hv
    · show polyClosed q = true
      unfold polyClosed
      rw [he, hi]; rfl
    · exact hpoly q hv
  | multiPolygon ps =>
    have hv : multiPolyValid ps = true := by simpa [inDomain, validGeom] using hd
    show ps.all polyClosed = true
    rw [List.all_eq_true]
    intro q hq
    exact hpoly q (Geo.Proofs.C02X.multiPolyValid_members hv q hq)
  | point _ => cases ht
  | line _ _ => cases ht
  | lineString _ => cases ht
  | multiPoint _ => cases ht
  | multiLineString _ => cases ht
  | rect _ _ => cases ht
  | triangle _ _ _ => cases ht
  | collection _ => cases ht

end Geo.Proofs.RELM3
