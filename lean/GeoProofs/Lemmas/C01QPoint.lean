/-
  C01Q, part 5: spec adequacy, restricted forms — the full matrix of the specification against a
  Point: every cell in a row / column Interior or Boundary of a Point is `0` or `F` according to
  the location of the point; full matrices Point × Point and Line × Point.
-/
import GeoProofs.Lemmas.C01QTypes

namespace Geo.Proofs.Spec
open Geo Geo.Proofs.Kernel

/-- `d` is the largest dimension of an atom located `(X, Y)` (`F` if there is none) -/
def CellMax (pa pb : Parts) (X Y : Pos) (d : Dim) : Prop :=
  (d = .empty ∨ ∃ x ∈ atomsOf pa pb, x.posA = X ∧ x.posB = Y ∧ x.dim = d) ∧
  ∀ x ∈ atomsOf pa pb, x.posA = X → x.posB = Y → x.dim.rank ≤ d.rank

theorem cell_of_cellMax {pa pb : Parts} {X Y : Pos} {d : Dim} (hne : ¬ (X = .outside ∧ Y = .outside))
    (hm : CellMax pa pb X Y d) : (relateParts pa pb).get X Y = d := by
  rw [relateParts_eq, get_set, if_neg (fun e => hne ⟨e.1.symm, e.2.symm⟩)]
  apply Dim.eq_of_le_iff
  intro e
  rw [fold_get]
  constructor
  · rintro (rfl | ⟨x, hx, h1, h2, h3⟩)
    · simp [Dim.rank]
    · exact le_trans h3 (hm.2 x hx h1 h2)
  · intro he
    rcases hm.1 with rfl | ⟨x, hx, h1, h2, h3⟩
    · exact Or.inl (Dim.rank_le_zero.mp he)
    · exact Or.inr ⟨x, hx, h1, h2, by rw [h3]; exact he⟩

theorem relateParts_ee (pa pb : Parts) : (relateParts pa pb).get .outside .outside = .two := by
  rw [relateParts_eq, get_set]; simp

theorem locateParts_pt (c v : Pt) : locateParts ⟨[c], [], []⟩ v = if v = c then .inside else .outside := by
  rw [locateParts_points _ _ rfl rfl]; simp

theorem pts_mem_vertsOf_right {pa pb : Parts} {c : Pt} (hc : c ∈ pb.pts) : c ∈ vertsOf pa pb := by
  unfold vertsOf
  rw [mem_dedupPts]
  simp only [List.mem_append]
  exact Or.inl (Or.inr hc)

/-- **rows Interior and Boundary of a Point**: the cell is `0` if the point is located there w.r.t.
the other operand (row Interior only), `F` otherwise. -/
theorem relate_point_left (c : Pt) (pb : Parts) (X Y : Pos) (hX : X ≠ .outside) :
    (relateParts ⟨[c], [], []⟩ pb).get X Y =
      if X = .inside ∧ locateParts pb c = Y then .zero else .empty := by
  apply cell_of_cellMax (fun e => hX e.1)
  have hc : c ∈ vertsOf ⟨[c], [], []⟩ pb := pts_mem_vertsOf (by simp)
  have key : ∀ x ∈ atomsOf ⟨[c], [], []⟩ pb, x.posA = X → x = ⟨.zero, .inside, locateParts pb c⟩ := by
    intro x hx hA
    rcases mem_atomsOf_cases hx with ⟨v, _, rfl⟩ | ⟨s, _, _, m, _, hnv, rfl | rfl | rfl⟩
    · simp only [locateParts_pt] at hA ⊢
      by_cases hv : v = c
      · rw [if_pos hv, hv]
      · rw [if_neg hv] at hA; exact absurd hA.symm hX
    · simp only [locateParts_pt] at hA
      have : m ≠ c := fun e => hnv (e ▸ hc)
      rw [if_neg this] at hA; exact absurd hA.symm hX
    · simp only [locateFace_noAreas (pa := ⟨[c], [], []⟩) rfl] at hA; exact absurd hA.symm hX
    · simp only [locateFace_noAreas (pa := ⟨[c], [], []⟩) rfl] at hA; exact absurd hA.symm hX
  by_cases h : X = .inside ∧ locateParts pb c = Y
  · rw [if_pos h]
    obtain ⟨rfl, rfl⟩ := h
    refine ⟨Or.inr ⟨_, vertex_atom_mem hc, ?_, rfl, rfl⟩, ?_⟩
    · simp [locateParts_pt]
    · intro x hx hA _
      rw [key x hx hA]
  · rw [if_neg h]
    refine ⟨Or.inl rfl, ?_⟩
    intro x hx hA hB
    exfalso
    apply h
    have hk := key x hx hA
    rw [hk] at hA hB
    exact ⟨hA.symm, hB⟩

/-- **columns Interior and Boundary of a Point** -/
theorem relate_point_right (pa : Parts) (c : Pt) (X Y : Pos) (hY : Y ≠ .outside) :
    (relateParts pa ⟨[c], [], []⟩).get X Y =
      if Y = .inside ∧ locateParts pa c = X then .zero else .empty := by
  rw [relateParts_transpose ⟨[c], [], []⟩ pa, transpose_get]
  exact relate_point_left c pa Y X hY

/-- **Point × Point, the full matrix** -/
theorem relateParts_point_point (c d : Pt) :
    relateParts ⟨[c], [], []⟩ ⟨[d], [], []⟩ =
      if c = d then ⟨.zero, .empty, .empty, .empty, .empty, .empty, .empty, .empty, .two⟩
      else ⟨.empty, .empty, .zero, .empty, .empty, .empty, .zero, .empty, .two⟩ := by
  apply IM.ext_get
  intro X Y
  by_cases hX : X = .outside
  · by_cases hY : Y = .outside
    · subst hX; subst hY
      rw [relateParts_ee]; split <;> rfl
    · rw [relate_point_right _ _ _ _ hY, locateParts_pt]
      subst hX
      by_cases h : c = d
      · subst h
        cases Y <;> simp [IM.get] at hY ⊢
      · have h' : ¬ d = c := fun e => h e.symm
        cases Y <;> simp [h, h', IM.get] at hY ⊢
  · rw [relate_point_left _ _ _ _ hX, locateParts_pt]
    by_cases h : c = d
    · subst h
      cases X <;> cases Y <;> simp [IM.get] at hX ⊢
    · cases X <;> cases Y <;> simp [h, IM.get] at hX ⊢

/-! ### Line × Point -/

theorem endC_last {cs : List Pt} {f l : Pt} (hf : cs.head? = some f) (hl : cs.getLast? = some l) (hfl : f ≠ l) :
    endC l cs = 1 := by
  unfold endC
  have : ¬ l = f := fun e => hfl e.symm
  simp [hf, hl, hfl, this]

/-- a non-vertex point of a curve segment is interior to a curve / point operand -/
theorem inside_at_nonvertex {pa : Parts} (pb : Parts) (ha : pa.areas = []) {s : Pt × Pt} (hs : s ∈ pa.curveSegs)
    {m : Pt} (hm : SegMem m s.1 s.2) (hnv : m ∉ vertsOf pa pb) : locateParts pa m = .inside := by
  rw [locateParts_lin ha]
  have h0 : esum m pa.curves = 0 := by
    by_contra hc
    exact hnv (of_esum_ne_zero pb hc).1
  simp [onAnyCurve_of_seg hs hm, h0]

theorem boundary_at_end {pa : Parts} (pb : Parts) (ha : pa.areas = []) {p : Pt} (hp : esum p pa.curves % 2 = 1) :
    locateParts pa p = .onBoundary := by
  obtain ⟨_, hon⟩ := of_esum_ne_zero (pa := pa) pb (p := p) (by omega)
  rw [locateParts_lin ha]
  simp [hon, hp]

/-- **Line × Point, the full matrix** (non-degenerate Line): `IE = 1`, `BE = 0`, and the point
contributes a `0` in the column Interior at the row where it is located. -/
theorem relateParts_line_point (a b c : Pt) (hab : a ≠ b) :
    relateParts ⟨[], [[a, b]], []⟩ ⟨[c], [], []⟩ =
      match locateParts ⟨[], [[a, b]], []⟩ c with
      | .inside => ⟨.zero, .empty, .one, .empty, .empty, .zero, .empty, .empty, .two⟩
      | .onBoundary => ⟨.empty, .empty, .one, .zero, .empty, .zero, .empty, .empty, .two⟩
      | .outside => ⟨.empty, .empty, .one, .empty, .empty, .zero, .zero, .empty, .two⟩ := by
  have hcv : c ∈ vertsOf ⟨[], [[a, b]], []⟩ ⟨[c], [], []⟩ := pts_mem_vertsOf_right (by simp)
  have hs : (a, b) ∈ Parts.curveSegs ⟨[], [[a, b]], []⟩ := by simp [Parts.curveSegs, segs]
  -- IE = 1
  have hIE : (relateParts ⟨[], [[a, b]], []⟩ ⟨[c], [], []⟩).get .inside .outside = .one := by
    apply cell_of_cellMax (by simp)
    obtain ⟨m, hm, hnv, hall⟩ := exists_atoms_of_seg (curveSegs_sub_allSegs hs ⟨[c], [], []⟩) hab
    constructor
    · right
      refine ⟨_, hall _ (Or.inl rfl), inside_at_nonvertex _ rfl hs hm hnv, ?_, rfl⟩
      simp only [locateParts_pt]
      exact if_neg (fun e : m = c => hnv (e ▸ hcv))
    · intro x hx hA _
      exact (rowMax_inside_lin_one ⟨[c], [], []⟩ rfl hs hab).2 x hx hA
  -- BE = 0
  have hea : esum a [[a, b]] % 2 = 1 := by
    simp [esum, endC_head (cs := [a, b]) rfl rfl hab]
  have heb : esum b [[a, b]] % 2 = 1 := by
    have := endC_last (cs := [a, b]) (f := a) (l := b) rfl rfl hab
    rw [esum, this]; rfl
  have hBE : (relateParts ⟨[], [[a, b]], []⟩ ⟨[c], [], []⟩).get .onBoundary .outside = .zero := by
    apply cell_of_cellMax (by simp)
    obtain ⟨va, vb⟩ := ends_mem_vertsOf (curveSegs_sub_allSegs hs ⟨[c], [], []⟩)
    constructor
    · right
      by_cases hac : a = c
      · refine ⟨_, vertex_atom_mem vb, boundary_at_end (pa := ⟨[], [[a, b]], []⟩) ⟨[c], [], []⟩ rfl heb, ?_, rfl⟩
        simp only [locateParts_pt]
        exact if_neg (fun e => hab (hac.trans e.symm))
      · refine ⟨_, vertex_atom_mem va, boundary_at_end (pa := ⟨[], [[a, b]], []⟩) ⟨[c], [], []⟩ rfl hea, ?_, rfl⟩
        simp only [locateParts_pt]
        exact if_neg hac
    · intro x hx hA _
      exact (rowMax_boundary_lin_zero (pa := ⟨[], [[a, b]], []⟩) ⟨[c], [], []⟩ rfl hea).2 x hx hA
  apply IM.ext_get
  intro X Y
  by_cases hY : Y = .outside
  · subst hY
    cases X
    · rw [hBE]; split <;> rfl
    · rw [hIE]; split <;> rfl
    · rw [relateParts_ee]; split <;> rfl
  · rw [relate_point_right _ _ _ _ hY]
    cases hl : locateParts ⟨[], [[a, b]], []⟩ c <;> cases X <;> cases Y <;> simp [IM.get] at hY ⊢

end Geo.Proofs.Spec
