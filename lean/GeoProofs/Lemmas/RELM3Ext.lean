/-
  RELM3 — the Exterior row of `relate(Point p, B)` for a `B` all of whose edges are line edges (model of the
  implementation, graph path): `EI = 1` as soon as `B` has an edge (every edge is isolated from the point and labelled
  `Outside` of it), and `EB = 0` exactly when `B`'s self-noded graph has an `OnBoundary` node away from `p`.
-/
import GeoProofs.Lemmas.RELM3ExtNodes

namespace Geo.Proofs.RELM3
open Geo Geo.GG Geo.RI Geo.Proofs.Spec Geo.Proofs.RELM Geo.Proofs.RELM2 Geo.Proofs.Kernel

theorem point_ext_row_linear (ar : Arith) (p : Pt) (b : Geom)
    (hE : ∀ e ∈ (freshGraph ar 1 b).edges, e.label = lineLabel 1)
    (hne : (freshGraph ar 1 b).edges ≠ [])
    (hdb : (dims b == .two) = false) (hN : NInv 1 (freshGraph ar 1 b).nodes)
    {m : IM} (h : relateGraph ar (.point p) b = some m) :
    m.get .outside .inside = .one ∧
    (∀ d : Dim, d.rank ≤ (m.get .outside .onBoundary).rank ↔
      d = .empty ∨ (d.rank ≤ Dim.zero.rank ∧
        ∃ g ∈ (freshGraph ar 1 b).nodes, g.coord ≠ p ∧ g.label.onPos 1 = some .onBoundary)) := by
  unfold relateGraph at h
  have hfold := relateGraphs_eq_fold ar (.point p) b (freshGraph ar 0 (.point p)) (freshGraph ar 1 b)
  rw [h] at hfold
  have hmg : mutualGraphs ar (freshGraph ar 0 (.point p)) (freshGraph ar 1 b) =
      (freshGraph ar 0 (.point p), freshGraph ar 1 b, false, false) := rfl
  unfold graphAtoms at hfold
  rw [hmg] at hfold
  simp only at hfold
  cases hl : labeledNodes (.point p) b (freshGraph ar 0 (.point p)) (freshGraph ar 1 b) with
  | none => rw [hl] at hfold; cases hfold
  | some labeled =>
  rw [hl] at hfold
  simp only at hfold
  have hA : (freshGraph ar 0 (.point p)).edges = [] := rfl
  rw [hA] at hfold
  simp only [endsForEdges, labelIsolatedEdges, insertEdgeEnds] at hfold
  cases hB : endsForEdges (freshGraph ar 1 b).edges with
  | none => rw [hB] at hfold; cases hfold
  | some endsB =>
  rw [hB] at hfold
  simp only at hfold
  cases hI : labelIsolatedEdges (.point p) 0 (freshGraph ar 1 b).edges with
  | none => rw [hI] at hfold; cases hfold
  | some isoB =>
  rw [hI] at hfold
  simp only [List.nil_append] at hfold
  cases hNa : nodesAtoms (.point p) b (insertEdgeEnds ar endsB labeled) with
  | none => rw [hNa] at hfold; cases hfold
  | some na =>
  rw [hNa] at hfold
  simp only [Option.map_some, Option.some.injEq] at hfold
  have hdz : dims (.point p) = .zero := rfl
  rw [hdz, properAtoms_zero, List.nil_append] at hfold
  -- facts about the pieces
  have hedges := fresh1_edges_aEmpty ar b
  have hendsB := endsForEdges_aEmpty hB hedges
  have hisoL := labelIsolatedEdges_line p _ _ hI (fun e he => ⟨hE e he, fresh_edges_isolated ar 1 b e he⟩)
  obtain ⟨hsorted, hinv⟩ := point_nodes_inv ar p b (freshGraph ar 1 b) hl endsB
  have hstarsA := final_stars ar hendsB (labeledNodes_star hl)
  have hstarsL := final_stars_line ar (endsForEdges_line hB hE) (labeledNodes_star hl)
  obtain ⟨hcount, hmem⟩ := nodesAtoms_spec _ _ _ _ hNa
  have hprov := point_nodes_prov ar p b (fun e he => by rw [hE e he]; rfl) hl endsB
  -- the contributions to the Exterior row
  have hclass : ∀ t ∈ isoB.flatMap labelAtoms ++ na, t.posA = .outside →
      (t.dim = .one ∧ (t.posB = .inside ∨ t.posB = .outside)) ∨
      (t.dim = .zero ∧ ∃ n ∈ insertEdgeEnds ar endsB labeled, n.coord ≠ p ∧ n.label.onPos 1 = some t.posB) := by
    intro t ht hta
    simp only [List.mem_append, List.mem_flatMap] at ht
    rcases ht with ⟨l, hl1, ht⟩ | ht
    · rw [hisoL.1 l hl1, labelAtoms_isolated_line, List.mem_singleton] at ht
      subst ht
      exact Or.inl ⟨rfl, Or.inl rfl⟩
    · obtain ⟨n, hn, ht | ⟨ls, hls, l, hl1, ht⟩⟩ := (hmem t).1 ht
      · right
        obtain ⟨h1, h2, h3⟩ := mem_optAtom ht
        refine ⟨h3, n, hn, ?_, h2⟩
        rw [onPos0] at h1
        rcases (hinv n hn).2 with h' | ⟨_, h'⟩ | ⟨h', _⟩
        · rw [h'] at h1; cases h1
        · rw [h'] at h1
          simp only [TopoPos.on, Option.some.injEq] at h1
          rw [hta] at h1; cases h1
        · exact h'
      · left
        have hso := starLabels_outside (a := .point p) (b := b) rfl hls (hstarsA n hn) l hl1
        have hsl := starLabels_line (a := .point p) hdb hls (hstarsL n hn) l hl1
        exact (labelAtoms_line hso hsl t ht).2
  have hedgeAtom : (⟨.one, .outside, .inside⟩ : Atom) ∈ isoB.flatMap labelAtoms ++ na := by
    apply List.mem_append_left
    have hne' := hisoL.2 hne
    obtain ⟨l, hl1⟩ := List.exists_mem_of_ne_nil _ hne'
    rw [List.mem_flatMap]
    refine ⟨l, hl1, ?_⟩
    rw [hisoL.1 l hl1, labelAtoms_isolated_line]
    exact List.mem_singleton.2 rfl
  have hE0 : ∀ Y, Y ≠ .outside → (emptyDisjoint.get .outside Y).rank = 0 := by
    intro Y hY
    cases Y <;> first | rfl | exact absurd rfl hY
  refine ⟨?_, ?_⟩
  · apply Dim.eq_of_le_iff
    intro d
    rw [hfold, foldFrom_get, hE0 .inside (by decide)]
    constructor
    · rintro (h0 | ⟨t, ht, hta, htb, hd⟩)
      · exact Nat.le_trans h0 (Nat.zero_le _)
      · rcases hclass t ht hta with ⟨h1, _⟩ | ⟨h1, _⟩
        · rw [h1] at hd; exact hd
        · rw [h1] at hd; exact Nat.le_trans hd (by decide)
    · intro hd
      exact Or.inr ⟨_, hedgeAtom, rfl, rfl, hd⟩
  · intro d
    rw [hfold, foldFrom_get, hE0 .onBoundary (by decide)]
    constructor
    · rintro (h0 | ⟨t, ht, hta, htb, hd⟩)
      · exact Or.inl (Dim.rank_le_zero.1 h0)
      · rcases hclass t ht hta with ⟨_, h2 | h2⟩ | ⟨h1, n, hn, hnc, hnb⟩
        · rw [htb] at h2; cases h2
        · rw [htb] at h2; cases h2
        · right
          rw [h1] at hd
          refine ⟨hd, ?_⟩
          rw [htb] at hnb
          obtain ⟨g, hg, hgc, hgb⟩ := hprov n hn hnc hnb
          exact ⟨g, hg, by rw [hgc]; exact hnc, hgb⟩
    · rintro (rfl | ⟨hd, g, hg, hgc, hgb⟩)
      · exact Or.inl (Nat.le_refl _)
      · right
        obtain ⟨n, hn, hnc, hnb⟩ := point_nodes_of_graph ar p b hN hl endsB hg hgb
        obtain ⟨x, y, hxa, hyb⟩ := (hinv n hn).1.count_ge_two (hcount n hn)
        have hx : x = .outside := by
          rcases (hinv n hn).2 with h' | ⟨h', _⟩ | ⟨_, h'⟩
          · rw [hxa] at h'; cases h'
          · rw [hnc] at h'; exact absurd h' hgc
          · rw [hxa] at h'; cases h'; rfl
        subst hx
        have hy : y = .onBoundary := by
          rw [onPos1, hyb] at hnb
          simpa [TopoPos.on] using hnb
        subst hy
        refine ⟨⟨.zero, .outside, .onBoundary⟩, ?_, rfl, rfl, hd⟩
        apply List.mem_append_right
        rw [hmem]
        refine ⟨n, hn, Or.inl ?_⟩
        unfold nodeAtoms optAtom
        rw [onPos0, hxa, onPos1, hyb]
        simp [TopoPos.on]

end Geo.Proofs.RELM3
