/-
  SMLX (C05), part 2: the pivot triple of `winding_order` on a simple ring.

  For every closed coordinate list the pivot triple `(prev, pivot, next)` consists of the
  lexicographically least point and two ring edges `(prev, pivot)`, `(pivot, next)` of positive length
  (`pivotTriple_edges`). On a simple ring a point has one predecessor and one successor
  (SMLXSimple), so *any* closed list with the same points whose edges are edges of the ring — the ring
  started at another vertex — has the same triple, and a list whose edges are the reversed edges — the
  reversed ring — has the swapped triple. Repeated coordinates are allowed throughout (`ringSimple`
  merges them), so these statements do not need `PivotOnce`.
-/
import GeoProofs.Lemmas.SMLXSimple

set_option linter.unusedSimpArgs false
set_option linter.unusedVariables false

namespace Geo.Proofs.SMLX
open Geo Geo.Proofs.Kernel Geo.Proofs.C12 Geo.Proofs.WIND Geo.Proofs.C05L

/-- what the pivot triple of a closed list is made of -/
theorem pivotTriple_edges {r : List Pt} (hc : r.head? = r.getLast?) {pv p nx : Pt}
    (h : pivotTriple r = some (pv, p, nx)) :
    p ∈ r ∧ (∀ q ∈ r, lexLt q p = false) ∧ (pv, p) ∈ segs r ∧ (p, nx) ∈ segs r ∧ pv ≠ p ∧ nx ≠ p := by
  obtain ⟨i, hl, hn, hv⟩ := (pivotTriple_some_iff r pv p nx).1 h
  obtain ⟨hidx, hmin⟩ := leastIndex_spec hl
  have e1 := pivot_next_edge hc hidx hn
  have e2 := pivot_prev_edge hc hidx hv
  rw [edges_eq_segs] at e1 e2
  exact ⟨List.mem_of_getElem? hidx, hmin, e2, e1, by simpa using List.find?_some hv,
    by simpa using List.find?_some hn⟩

/-- a list with two different coordinates has a pivot triple -/
theorem pivotTriple_isSome {r : List Pt} {a b : Pt} (ha : a ∈ r) (hb : b ∈ r) (hab : a ≠ b) :
    ∃ t, pivotTriple r = some t := by
  cases hp : pivotTriple r with
  | some t => exact ⟨t, rfl⟩
  | none =>
    exfalso
    obtain ⟨i, p, hl⟩ := leastIndex_isSome (r := r) (by intro e; subst e; cases ha)
    obtain ⟨hidx, _⟩ := leastIndex_spec hl
    have hall : ∀ q ∈ r, q = p := by
      intro q hq
      rcases (mem_cyc hidx q).1 hq with e | hq'
      · exact e
      · rcases pivotTriple_none_cases hp hl with hn | hv
        · have := List.find?_eq_none.1 hn q hq'
          simpa using this
        · have := List.find?_eq_none.1 hv q ((mem_cycBefore _ i q).2 hq')
          simpa using this
    exact hab ((hall a ha).trans (hall b hb).symm)

/-- a simple ring has two different coordinates -/
theorem simple_two_coords {r0 : List Pt} (h : ringSimple r0 = true) :
    ∃ a b, a ∈ r0 ∧ b ∈ r0 ∧ a ≠ b := by
  have h3 := (ringSimple_spec h).2.1
  obtain ⟨s, hs⟩ : ∃ s, (segs (dedupConsecutive r0))[0]? = some s :=
    ⟨_, List.getElem?_eq_getElem (by omega)⟩
  have hm := List.mem_of_getElem? hs
  have hne := dedup_segs_ne r0 s hm
  obtain ⟨a, b⟩ := s
  have := ((mem_segs_dedup_iff r0 a b).mp hm).1
  obtain ⟨m1, m2⟩ := Geo.Proofs.Spec.mem_of_mem_segs this
  exact ⟨a, b, m1, m2, hne⟩

/-- **same points, edges among the ring's edges ⇒ same pivot triple** -/
theorem pivotTriple_eq_of_segs_sub {r0 r' : List Pt} (h : ringSimple r0 = true)
    (hc' : r'.head? = r'.getLast?) (hmem : ∀ q, q ∈ r' ↔ q ∈ r0)
    (hsub : ∀ s ∈ segs r', s ∈ segs r0) : pivotTriple r' = pivotTriple r0 := by
  have hc := closed_of_simple h
  obtain ⟨a, b, ha, hb, hab⟩ := simple_two_coords h
  obtain ⟨⟨pv, p, nx⟩, ht⟩ := pivotTriple_isSome ha hb hab
  obtain ⟨⟨pv', p', nx'⟩, ht'⟩ := pivotTriple_isSome ((hmem a).2 ha) ((hmem b).2 hb) hab
  obtain ⟨hp, hmin, e1, e2, n1, n2⟩ := pivotTriple_edges hc ht
  obtain ⟨hp', hmin', e1', e2', n1', n2'⟩ := pivotTriple_edges hc' ht'
  have epp : p' = p := lex_antisymm (hmin p' ((hmem p').1 hp')) (hmin' p ((hmem p).2 hp))
  subst epp
  have epv : pv' = pv := simple_prev_unique h (hsub _ e1') n1' e1 n1
  have enx : nx' = nx := simple_next_unique h (hsub _ e2') n2' e2 n2
  rw [ht, ht', epv, enx]

/-- **same points, edges among the ring's reversed edges ⇒ swapped pivot triple** -/
theorem pivotTriple_eq_of_segs_rev {r0 r' : List Pt} (h : ringSimple r0 = true)
    (hc' : r'.head? = r'.getLast?) (hmem : ∀ q, q ∈ r' ↔ q ∈ r0)
    (hsub : ∀ s ∈ segs r', (s.2, s.1) ∈ segs r0) :
    pivotTriple r' = (pivotTriple r0).map swapTriple := by
  have hc := closed_of_simple h
  obtain ⟨a, b, ha, hb, hab⟩ := simple_two_coords h
  obtain ⟨⟨pv, p, nx⟩, ht⟩ := pivotTriple_isSome ha hb hab
  obtain ⟨⟨pv', p', nx'⟩, ht'⟩ := pivotTriple_isSome ((hmem a).2 ha) ((hmem b).2 hb) hab
  obtain ⟨hp, hmin, e1, e2, n1, n2⟩ := pivotTriple_edges hc ht
  obtain ⟨hp', hmin', e1', e2', n1', n2'⟩ := pivotTriple_edges hc' ht'
  have epp : p' = p := lex_antisymm (hmin p' ((hmem p').1 hp')) (hmin' p ((hmem p).2 hp))
  subst epp
  have epv : pv' = nx := simple_next_unique h (hsub _ e1') n1' e2 n2
  have enx : nx' = pv := simple_prev_unique h (hsub _ e2') n2' e1 n1
  rw [ht, ht', epv, enx]; rfl

/-! ### reversal -/

theorem pivotTriple_reverse_simple {r0 : List Pt} (h : ringSimple r0 = true) :
    pivotTriple r0.reverse = (pivotTriple r0).map swapTriple := by
  have hc := closed_of_simple h
  apply pivotTriple_eq_of_segs_rev h
  · rw [List.head?_reverse, List.getLast?_reverse, hc]
  · intro q; exact List.mem_reverse
  · rintro ⟨a, b⟩ hs
    rw [← edges_eq_segs] at hs ⊢
    exact mem_edges_reverse.1 hs

/-- reversal flips `winding_order` whenever it swaps the pivot triple -/
theorem windingOrder_reverse_of_triple {r : List Pt}
    (h : pivotTriple r.reverse = (pivotTriple r).map swapTriple) :
    windingOrder r.reverse = (windingOrder r).map WO.flip := by
  unfold windingOrder
  rw [List.length_reverse, ringClosed_reverse, h]
  split
  · rfl
  · cases pivotTriple r with
    | none => rfl
    | some t =>
      obtain ⟨pv, p, nx⟩ := t
      simp only [Option.map, swapTriple, orient, cross_swap pv p nx]
      rcases lt_trichotomy (cross pv p nx) 0 with c | c | c
      · have h1 : ¬ cross pv p nx > 0 := by linarith
        have h2 : -cross pv p nx > 0 := by linarith
        simp [h1, h2, c, WO.flip]
      · simp [c]
      · have h1 : ¬ cross pv p nx < 0 := by linarith
        have h2 : ¬ -cross pv p nx > 0 := by linarith
        have h3 : -cross pv p nx < 0 := by linarith
        simp [h2, h3, c, WO.flip]

/-- **reversing a simple ring flips `winding_order`** (repeated coordinates allowed) -/
theorem windingOrder_reverse_simple {r0 : List Pt} (h : ringSimple r0 = true) :
    windingOrder r0.reverse = (windingOrder r0).map WO.flip :=
  windingOrder_reverse_of_triple (pivotTriple_reverse_simple h)

/-! ### change of the start vertex -/

theorem rotate1_mem_iff {r : List Pt} (hc : r.head? = r.getLast?) (q : Pt) :
    q ∈ rotate1 r ↔ q ∈ r := by
  match r, hc with
  | [], _ => exact Iff.rfl
  | [_], _ => exact Iff.rfl
  | a :: b :: t, hc =>
    show q ∈ (b :: t) ++ [b] ↔ _
    have hl : (a :: b :: t).getLast? = (b :: t).getLast? := List.getLast?_cons_cons
    rw [hl, List.head?_cons] at hc
    have ha : a ∈ b :: t := List.mem_of_getLast? hc.symm
    simp only [List.mem_append, List.mem_cons, List.not_mem_nil, or_false]
    constructor
    · rintro ((e | e) | e)
      · exact Or.inr (Or.inl e)
      · exact Or.inr (Or.inr e)
      · exact Or.inr (Or.inl e)
    · rintro (e | e | e)
      · subst e
        rcases List.mem_cons.mp ha with e' | e'
        · exact Or.inl (Or.inl e')
        · exact Or.inl (Or.inr e')
      · exact Or.inl (Or.inl e)
      · exact Or.inl (Or.inr e)

theorem segs_append_singleton : ∀ (l : List Pt) (x c : Pt),
    segs (l ++ [x] ++ [c]) = segs (l ++ [x]) ++ [(x, c)]
  | [], x, c => rfl
  | [a], x, c => rfl
  | a :: b :: t, x, c => by
    have ih := segs_append_singleton (b :: t) x c
    simp only [List.cons_append, List.append_assoc] at ih ⊢
    simp only [segs, List.cons_append]
    rw [ih]

theorem rotate1_segs_sub {r : List Pt} (hc : r.head? = r.getLast?) :
    ∀ s ∈ segs (rotate1 r), s ∈ segs r := by
  match r, hc with
  | [], _ => intro s hs; exact hs
  | [_], _ => intro s hs; exact hs
  | a :: b :: t, hc =>
    intro s hs
    have hl : (a :: b :: t).getLast? = (b :: t).getLast? := List.getLast?_cons_cons
    rw [hl, List.head?_cons] at hc
    -- `b :: t = l ++ [a]`
    obtain ⟨l, hlast⟩ : ∃ l, b :: t = l ++ [a] := by
      refine ⟨(b :: t).dropLast, ?_⟩
      have := List.dropLast_append_getLast (l := b :: t) (by simp)
      rw [List.getLast?_eq_getLast_of_ne_nil (by simp)] at hc
      rw [← Option.some.inj hc] at this
      exact this.symm
    have hrot : rotate1 (a :: b :: t) = l ++ [a] ++ [b] := by
      show (b :: t) ++ [b] = _
      rw [hlast]
    rw [hrot, segs_append_singleton, ← hlast] at hs
    rcases List.mem_append.mp hs with hs | hs
    · show s ∈ (a, b) :: segs (b :: t)
      exact List.mem_cons_of_mem _ hs
    · have : s = (a, b) := by simpa using hs
      subst this
      show (a, b) ∈ (a, b) :: segs (b :: t)
      exact List.mem_cons_self

/-- `k` rotation steps keep closedness, the points and (as a set) the edges -/
theorem rotateN_facts (k : Nat) : ∀ {r : List Pt}, r.head? = r.getLast? →
    (rotateN k r).head? = (rotateN k r).getLast? ∧ (∀ q, q ∈ rotateN k r ↔ q ∈ r) ∧
      (∀ s ∈ segs (rotateN k r), s ∈ segs r) ∧ (rotateN k r).length = r.length := by
  induction k with
  | zero => intro r hc; exact ⟨hc, fun _ => Iff.rfl, fun _ hs => hs, rfl⟩
  | succ k ih =>
    intro r hc
    obtain ⟨c1, m1, s1, l1⟩ := ih (rotate1_closed r hc)
    exact ⟨c1, fun q => (m1 q).trans (rotate1_mem_iff hc q),
      fun s hs => rotate1_segs_sub hc s (s1 s hs), l1.trans (rotate1_length r)⟩

/-- **moving the start vertex of a simple ring by any number of steps keeps `winding_order`**
(repeated coordinates allowed) -/
theorem windingOrder_rotateN_simple (k : Nat) {r0 : List Pt} (h : ringSimple r0 = true) :
    windingOrder (rotateN k r0) = windingOrder r0 := by
  have hc := closed_of_simple h
  obtain ⟨c1, m1, s1, l1⟩ := rotateN_facts k hc
  unfold windingOrder
  have hcl : ringClosed (rotateN k r0) = ringClosed r0 := by
    simp only [ringClosed, c1, hc]
  rw [l1, hcl, pivotTriple_eq_of_segs_sub h c1 m1 s1]

end Geo.Proofs.SMLX
