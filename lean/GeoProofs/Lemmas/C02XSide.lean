/-
  C02X, part 2: beside every boundary point of an OGC-valid polygon that is not a ring coordinate,
  one of the two face samples is in the interior of the polygon (`valid_side_inside`).

  Shell edge: the winding number about the shell jumps by one across the edge (`windingE_jump`), the
  point is off every hole ring (`rings_no_common_nonvertex_be`) and not strictly inside any hole
  (`ie_empty_ring_not_inside`: a shell point inside a hole would put a face atom beside it into the
  cell `IE` of `(hole, shell)`, one side of every shell edge being outside the shell — `edgeJordan`).
  Hole edge: one side of the edge is outside the hole (`edgeJordan`); the point is off the shell and
  not outside it (`hole_point_not_outside`), off every other hole and not inside it
  (`rings_no_common_nonvertex_ii`, `ii_empty_rings_apart`).
-/
import GeoProofs.Lemmas.WINDJordan
import GeoProofs.Lemmas.C02XAdj

set_option linter.unusedSimpArgs false
set_option linter.unusedVariables false

namespace Geo.Proofs.C02X
open Geo Geo.Proofs.Kernel Geo.Proofs.Spec Geo.Proofs.C02Q Geo.Proofs.WIND

/-- the cell `IE` of `(rb, ra)` is the cell `EI` of `(ra, rb)` -/
theorem ie_swap {pa pb : Parts} (h : (relateParts pb pa).ie = .empty) :
    (relateParts pa pb).get .outside .inside = .empty := by
  rw [relateParts_transpose pa pb] at h
  generalize relateParts pa pb = M at h ⊢
  exact h

/-- **`IE = F` for `(rb, ra)` keeps the ring `ra` out of the interior of `rb`**: a point of `ra`
strictly inside `rb` would have, beside a non-vertex point of the same edge, a face sample outside
`ra` (one side of every edge of a simple ring is outside) and inside `rb`. -/
theorem ie_empty_ring_not_inside {ra rb : List Pt} (hsa : ringSimple ra = true)
    (hsb : ringSimple rb = true)
    (hie : (relateParts (polyOf rb) (polyOf ra)).ie = .empty) {p : Pt}
    (hp : onAnySeg p (segs ra) = true) : locateParts (polyOf rb) p ≠ .inside := by
  intro hin
  have hei := ie_swap hie
  have hokb := ringOK_of_simple hsb
  have hoka := ringOK_of_simple hsa
  obtain ⟨a, b, hse, hab, hpm⟩ := simple_on_nondeg_edge hsa hp
  have hs' : (a, b) ∈ (polyOf ra).allSegs ++ (polyOf rb).allSegs := by
    rw [allSegs_polyOf]; exact List.mem_append_left _ hse
  obtain ⟨u, v, E, hmin⟩ := inside_elem hokb.1 hokb.2 hs' hab hpm hin
  obtain ⟨ha, hb⟩ := ends_mem_vertsOf hs'
  obtain ⟨_, hnv, hall⟩ := segAtoms_of_pair (polyOf ra) (polyOf rb) hab E.pair E.ne
  have hmw := E.midpoint_within
  have hnr : midpoint u v ∉ ra := by
    intro hmem
    obtain ⟨s, hs1, hs2⟩ := Geo.Proofs.C12.mem_segs_end ra _ hoka.2 hmem
    have hs3 : s ∈ (polyOf ra).allSegs ++ (polyOf rb).allSegs := by
      rw [allSegs_polyOf]; exact List.mem_append_left _ hs1
    obtain ⟨e1, e2⟩ := ends_mem_vertsOf hs3
    rcases hs2 with h | h
    · exact hnv (h ▸ e1)
    · exact hnv (h ▸ e2)
  rw [locate_polyOf_inside_iff] at hmin
  obtain ⟨hoff, hw⟩ := hmin
  have hbL : locateFace (polyOf rb) (faceL a b (midpoint u v)) = .inside := by
    rw [locateFace_polyOf]
    have : windingE (faceL a b (midpoint u v)) rb = windingE (EPt.ofPt (midpoint u v)) rb :=
      windingE_perturb rb hokb.1 (midpoint u v) _ _ hoff
    rw [this, if_pos hw]
  have hbR : locateFace (polyOf rb) (faceR a b (midpoint u v)) = .inside := by
    rw [locateFace_polyOf]
    have : windingE (faceR a b (midpoint u v)) rb = windingE (EPt.ofPt (midpoint u v)) rb :=
      windingE_perturb rb hokb.1 (midpoint u v) _ _ hoff
    rw [this, if_pos hw]
  have hmemA : ∀ x, IsAtomAt (polyOf ra) (polyOf rb) a b (midpoint u v) x →
      x ∈ atomsOf (polyOf ra) (polyOf rb) := by
    intro x hx
    unfold atomsOf
    exact List.mem_append_right _ (List.mem_flatMap.mpr ⟨(a, b), hs', hall x hx⟩)
  rcases edgeJordan hsa hse hmw.1 hnr with e | e
  · have haL : locateFace (polyOf ra) (faceL a b (midpoint u v)) = .outside := by
      rw [locateFace_polyOf, if_neg (not_not.mpr e)]
    exact cell_empty_no_atom hei (hmemA _ (Or.inr (Or.inl rfl))) haL hbL
  · have haR : locateFace (polyOf ra) (faceR a b (midpoint u v)) = .outside := by
      rw [locateFace_polyOf, if_neg (not_not.mpr e)]
    exact cell_empty_no_atom hei (hmemA _ (Or.inr (Or.inr rfl))) haR hbR

/-- the hole/shell clause of `polyValid`, cell `IE` -/
theorem polyValid_hole_shell_ie {q : Poly} (h : polyValid q = true) :
    ∀ r ∈ q.ints, (relateParts (polyOf r) (polyOf q.ext)).ie = .empty := by
  unfold polyValid polyValid.polyValidRings at h
  simp only [Bool.and_eq_true, List.all_eq_true, beq_iff_eq] at h
  obtain ⟨⟨⟨⟨_, _⟩, h3⟩, _⟩, _⟩ := h
  exact fun r hr => (h3 r hr).1.1.2

/-- every ring of a valid polygon is simple -/
theorem rings_simple {q : Poly} (hv : polyValid q = true) : ∀ r ∈ q.rings, ringSimple r = true := by
  obtain ⟨hse, hsimple, _⟩ := polyValid_unpack hv
  intro r hr
  rcases List.mem_cons.mp hr with rfl | hr
  · exact hse
  · exact hsimple r hr

/-- about a hole of a valid polygon, a point of another hole (by position in the list) that is a
coordinate of neither is off the ring and has winding number `0` -/
theorem other_hole_zero {q : Poly} (hv : polyValid q = true) {h h' : List Pt} (hh : h ∈ q.ints)
    (hh' : h' ∈ q.ints) {x : Pt} (hon : onAnySeg x (segs h) = true) (hx : x ∉ h) (hx' : x ∉ h') :
    h' = h ∨ (onAnySeg x (segs h') = false ∧ windingE (EPt.ofPt x) h' = 0) := by
  obtain ⟨_, hsimple, _⟩ := polyValid_unpack hv
  have hsh := hsimple h hh
  have hsh' := hsimple h' hh'
  obtain ⟨i, hi⟩ := List.getElem?_of_mem hh
  obtain ⟨j, hj⟩ := List.getElem?_of_mem hh'
  rcases lt_trichotomy i j with hij | hij | hij
  · right
    obtain ⟨hii, hbb⟩ := polyValid_hole_pairs hv hij hi hj
    have hoff : onAnySeg x (segs h') = false := by
      cases hc : onAnySeg x (segs h') with
      | false => rfl
      | true => exact (rings_no_common_nonvertex_ii hsh hsh' hii hbb hon hx hc hx').elim
    refine ⟨hoff, ?_⟩
    by_contra hw
    exact (ii_empty_rings_apart hsh hsh' hii x).1 hon ((locate_polyOf_inside_iff h' x).mpr ⟨hoff, hw⟩)
  · left
    subst hij
    rw [hi] at hj; exact (Option.some.inj hj).symm
  · right
    obtain ⟨hii, hbb⟩ := polyValid_hole_pairs hv hij hj hi
    have hoff : onAnySeg x (segs h') = false := by
      cases hc : onAnySeg x (segs h') with
      | false => rfl
      | true => exact (rings_no_common_nonvertex_ii hsh' hsh hii hbb hc hx' hon hx).elim
    refine ⟨hoff, ?_⟩
    by_contra hw
    exact (ii_empty_rings_apart hsh' hsh hii x).2 hon ((locate_polyOf_inside_iff h' x).mpr ⟨hoff, hw⟩)

/-- **one side of every boundary edge of a valid polygon is interior.** `x` a point of the edge
`(a, b)` of a ring of the OGC-valid polygon `q` that is a coordinate of no ring of `q`: the left or
the right face sample beside `x` is inside `q` (winding number about the shell non-zero, about
every hole zero). -/
theorem valid_side_inside {q : Poly} (hv : polyValid q = true) {r : List Pt} (hr : r ∈ q.rings)
    {a b x : Pt} (hab : (a, b) ∈ segs r) (hx : SegMem x a b) (hnv : ∀ r' ∈ q.rings, x ∉ r') :
    insidePolyE (faceL a b x) q = true ∨ insidePolyE (faceR a b x) q = true := by
  obtain ⟨hse, hsimple, hbe⟩ := polyValid_unpack hv
  have hoke := ringOK_of_simple hse
  have hext : q.ext ∈ q.rings := by simp [Poly.rings]
  have hint : ∀ h ∈ q.ints, h ∈ q.rings := fun h hh => by simp [Poly.rings, hh]
  obtain ⟨ha, hb⟩ := mem_of_mem_segs hab
  have hxa : x ≠ a := fun e => hnv r hr (e ▸ ha)
  have hxb : x ≠ b := fun e => hnv r hr (e ▸ hb)
  have habne : a ≠ b := by
    intro e; subst e
    exact hxa ((SegMem_degenerate _ a).mp hx)
  have hxon : onAnySeg x (segs r) = true := by
    rw [Geo.Proofs.Loc.onAnySeg_iff]
    exact ⟨(a, b), hab, (lineCoord_iff _ _ _).mpr hx⟩
  -- a hole ring and the shell have no common point that is a coordinate of neither
  have hsep : ∀ h ∈ q.ints, onAnySeg x (segs h) = true → onAnySeg x (segs q.ext) = true → False := by
    intro h hh h1 h2
    obtain ⟨hbe', hbb'⟩ := polyValid_hole_shell hv h hh
    exact rings_no_common_nonvertex_be (hsimple h hh) hse (edgeOuter_of_simple hse) hbe' hbb' h1
      (hnv h (hint h hh)) h2 (hnv _ hext)
  rcases List.mem_cons.mp hr with rfl | hh
  · -- an edge of the shell
    have hholes : ∀ h ∈ q.ints, onAnySeg x (segs h) = false ∧ windingE (EPt.ofPt x) h = 0 := by
      intro h hh
      have hoff : onAnySeg x (segs h) = false := by
        cases hc : onAnySeg x (segs h) with
        | false => rfl
        | true => exact (hsep h hh hc hxon).elim
      refine ⟨hoff, ?_⟩
      by_contra hw
      exact ie_empty_ring_not_inside hse (hsimple h hh) (polyValid_hole_shell_ie hv h hh) hxon
        ((locate_polyOf_inside_iff h x).mpr ⟨hoff, hw⟩)
    have hjump : windingE (faceL a b x) q.ext = windingE (faceR a b x) q.ext + 1 :=
      windingE_jump q.ext hoke.1 (simple_unique_edge hse hab hx (hnv _ hext)) habne hx hxa hxb
    have hzero : ∀ (x1 y1 : Rat), (q.ints.all fun h => windingE ⟨x.x, x1, x.y, y1⟩ h == 0) = true := by
      intro x1 y1
      rw [List.all_eq_true]
      intro h hh
      obtain ⟨hoff, hw⟩ := hholes h hh
      rw [windingE_perturb h (ringOK_of_simple (hsimple h hh)).1 x x1 y1 hoff, hw]; rfl
    by_cases hL : windingE (faceL a b x) q.ext = 0
    · right
      have hR : windingE (faceR a b x) q.ext ≠ 0 := by omega
      unfold insidePolyE
      rw [Bool.and_eq_true]
      exact ⟨by simpa using hR, hzero _ _⟩
    · left
      unfold insidePolyE
      rw [Bool.and_eq_true]
      exact ⟨by simpa using hL, hzero _ _⟩
  · -- an edge of the hole `r`
    have hsr := hsimple r hh
    have hoffe : onAnySeg x (segs q.ext) = false := by
      cases hc : onAnySeg x (segs q.ext) with
      | false => rfl
      | true => exact (hsep r hh hxon hc).elim
    have hwe : windingE (EPt.ofPt x) q.ext ≠ 0 := by
      intro hw
      exact hole_point_not_outside hoke.1 hoke.2 (hbe r hh) hxon
        ((locate_polyOf_outside_iff q.ext hoke.2 x).mpr ⟨hoffe, hw⟩)
    have side : ∀ (x1 y1 : Rat), windingE ⟨x.x, x1, x.y, y1⟩ r = 0 →
        insidePolyE ⟨x.x, x1, x.y, y1⟩ q = true := by
      intro x1 y1 h0
      unfold insidePolyE
      rw [Bool.and_eq_true]
      constructor
      · rw [windingE_perturb q.ext hoke.1 x x1 y1 hoffe]; simpa using hwe
      · rw [List.all_eq_true]
        intro h' hh'
        rcases other_hole_zero hv hh hh' hxon (hnv r hr) (hnv h' (hint h' hh')) with e | ⟨hoff, hw⟩
        · rw [e, h0]; rfl
        · rw [windingE_perturb h' (ringOK_of_simple (hsimple h' hh')).1 x x1 y1 hoff, hw]; rfl
    rcases edgeJordan hsr hab hx (hnv r hr) with e | e
    · left; exact side _ _ e
    · right; exact side _ _ e

end Geo.Proofs.C02X
