/-
  C14 helper lemmas for the F8 class: three distinct collinear points, chained segments.
-/
import GeoModel.ValidationSpec
import Mathlib.Tactic.Linarith
import Mathlib.Tactic.Ring

namespace Geo.Proofs.C14
open Geo Geo.V

theorem hsi3 (a b c : Pt) : hasSelfIntersection [a, b, c, a] =
    (pairBad (a,b) (b,c) || pairBad (a,b) (c,a) ||
      (pairBad (b,c) (a,b) || pairBad (b,c) (c,a) || (pairBad (c,a) (a,b) || pairBad (c,a) (b,c)))) := by
  simp [hasSelfIntersection, segs, List.zipIdx]

theorem orient_self (a b : Pt) : orient a b b = .col := by
  simp [orient, cross]

theorem pointInRect_end (a b : Pt) : pointInRect b a b = true := by
  simp only [pointInRect, valueInBetween, valueInRange]
  have hx : (if a.x < b.x then (decide (b.x ≥ a.x) && decide (b.x ≤ b.x)) else (decide (b.x ≥ b.x) && decide (b.x ≤ a.x))) = true := by
    split
    · simp; linarith
    · simp; linarith
  have hy : (if a.y < b.y then (decide (b.y ≥ a.y) && decide (b.y ≤ b.y)) else (decide (b.y ≥ b.y) && decide (b.y ≤ a.y))) = true := by
    split
    · simp; linarith
    · simp; linarith
  rw [hx, hy]; rfl

theorem lineLine_chain (a b c : Pt) (hab : a ≠ b) (hcol : orient a b c = .col) :
    lineLine a b b c = true := by
  have hab' : (a == b) = false := by simp [hab]
  simp [lineLine, hab', orient_self, hcol, pointInRect_end]

theorem chainedOverlap_chain (a b c : Pt) (hab : a ≠ b) (hbc : b ≠ c) (hcol : orient a b c = .col) :
    chainedOverlap (a, b) (b, c) = (sameSide a.x b.x c.x || sameSide a.y b.y c.y) := by
  have hab' : (a == b) = false := by simp [hab]
  have hbc' : (b == c) = false := by simp [hbc]
  simp [chainedOverlap, hab', hbc', hcol]

theorem pairBad_chain (a b c : Pt) (hab : a ≠ b) (hbc : b ≠ c) (hcol : orient a b c = .col)
    (hs : (sameSide a.x b.x c.x || sameSide a.y b.y c.y) = true) : pairBad (a, b) (b, c) = true := by
  simp only [pairBad, lineLine_chain a b c hab hcol, chainedOverlap_chain a b c hab hbc hcol, hs]
  simp

theorem orient_col_iff (a b c : Pt) : orient a b c = .col ↔ cross a b c = 0 := by
  unfold orient
  simp only
  split
  · constructor
    · intro h; cases h
    · intro h; linarith
  · split
    · constructor
      · intro h; cases h
      · intro h; linarith
    · constructor
      · intro _; linarith
      · intro _; rfl

theorem cross_cyc (a b c : Pt) : cross b c a = cross a b c := by
  unfold cross; ring

theorem pt_ext (a b : Pt) (hx : a.x = b.x) (hy : a.y = b.y) : a = b := by
  cases a; cases b; simp_all

theorem pt_ne (a b : Pt) (h : a ≠ b) : a.x ≠ b.x ∨ a.y ≠ b.y := by
  by_cases hx : a.x = b.x
  · right; intro hy; exact h (pt_ext a b hx hy)
  · left; exact hx

/-- of three distinct collinear points one is an end: the other two are on the same side of it -/
theorem three_on_a_line (a b c : Pt) (hab : a ≠ b) (hbc : b ≠ c) (hca : c ≠ a) (h0 : cross a b c = 0) :
    (sameSide a.x b.x c.x || sameSide a.y b.y c.y) = true ∨
    (sameSide b.x c.x a.x || sameSide b.y c.y a.y) = true ∨
    (sameSide c.x a.x b.x || sameSide c.y a.y b.y) = true := by
  simp only [sameSide, Bool.or_eq_true, Bool.and_eq_true, decide_eq_true_eq]
  unfold cross at h0
  by_cases hx : a.x = b.x
  · -- vertical line
    have hy : a.y ≠ b.y := by
      rcases pt_ne a b hab with h | h
      · exact absurd hx h
      · exact h
    have hcx : c.x = b.x := by
      rw [hx] at h0
      have : (b.y - a.y) * (c.x - b.x) = 0 := by linarith
      rcases mul_eq_zero.mp this with h | h
      · exact absurd (by linarith) hy
      · linarith
    have hby : b.y ≠ c.y := by
      rcases pt_ne b c hbc with h | h
      · exact absurd hcx.symm h
      · exact h
    have hcy : c.y ≠ a.y := by
      rcases pt_ne c a hca with h | h
      · exact absurd (by rw [hcx, hx]) h
      · exact h
    rcases lt_or_gt_of_ne hy with h1 | h1 <;> rcases lt_or_gt_of_ne hby with h2 | h2 <;>
      rcases lt_or_gt_of_ne hcy with h3 | h3 <;> first
        | (exfalso; linarith)
        | (left; right; first | (left; constructor <;> linarith) | (right; constructor <;> linarith))
        | (right; left; right; first | (left; constructor <;> linarith) | (right; constructor <;> linarith))
  · have hbx : b.x ≠ c.x := by
      intro h
      rw [← h] at h0
      have : (b.x - a.x) * (c.y - b.y) = 0 := by linarith
      rcases mul_eq_zero.mp this with h' | h'
      · exact hx (by linarith)
      · exact hbc (pt_ext b c h (by linarith))
    have hcx : c.x ≠ a.x := by
      intro h
      have : (b.x - a.x) * (c.y - a.y) = 0 := by rw [h] at h0; linarith
      rcases mul_eq_zero.mp this with h' | h'
      · exact hx (by linarith)
      · exact hca (pt_ext c a h (by linarith))
    rcases lt_or_gt_of_ne hx with h1 | h1 <;> rcases lt_or_gt_of_ne hbx with h2 | h2 <;>
      rcases lt_or_gt_of_ne hcx with h3 | h3 <;> first
        | (exfalso; linarith)
        | (left; left; first | (left; constructor <;> linarith) | (right; constructor <;> linarith))
        | (right; left; left; first | (left; constructor <;> linarith) | (right; constructor <;> linarith))

/-- the pairwise loop as it was on the pinned tree (before the `fix:` commit): every pair of
segments where one starts where the other ends is skipped -/
def hasSelfIntersectionPinned (r : List Pt) : Bool :=
  let ls := (segs r).zipIdx
  ls.any (fun li => ls.any (fun oj => li.2 != oj.2 &&
    (lineLine li.1.1 li.1.2 oj.1.1 oj.1.2 && (li.1.1 != oj.1.2 && li.1.2 != oj.1.1))))

end Geo.Proofs.C14
