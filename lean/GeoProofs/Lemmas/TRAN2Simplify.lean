/-
  Translator tie for the selection step of `compute_rdp` (geo/src/algorithm/simplify.rs) and the ordering of `VScore`
  (geo/src/algorithm/simplify_vw.rs): the hand-written model `GeoModel/Simplify.lean` uses exactly the regenerated terms
  (`GeoModel/Gen/SimplifyGen.lean`).
-/
import GeoModel.Simplify
import GeoModel.Gen.SimplifyGen

namespace Geo.Proofs.TRAN2Simplify
open Geo Geo.Simp

theorem rdpFoldStep_eq (fi : Nat) (fd : Rat) (i : Nat) (d : Rat) :
    Gen.rdpFoldStep fi fd i d = if fd ≤ d then (i, d) else (fi, fd) := by
  unfold Gen.rdpFoldStep
  by_cases h : fd ≤ d <;> simp [h, ge_iff_le]

/-- one step of the model's farthest-vertex fold is the regenerated closure -/
theorem farthestGo_cons (a b : Pt) (x : RI) (rest : List RI) (pos : Nat) (acc : Nat × Rat) :
    farthestGo a b (x :: rest) pos acc
      = farthestGo a b rest (pos + 1) (Gen.rdpFoldStep acc.1 acc.2 pos (segDist2 x.1 a b)) := by
  simp only [farthestGo, rdpFoldStep_eq]

theorem vscoreCmp_eq (a b : VScore) :
    ((Gen.vscoreCmp a b != .gt) = VScore.le a b) ∧ ((Gen.vscoreCmp a b == .lt) = VScore.lt a b) ∧
    (Gen.vscoreEq a b = (a.area == b.area)) := by
  unfold Gen.vscoreCmp Gen.partialCmp? Gen.unwrap VScore.le VScore.lt Gen.vscoreEq
  refine ⟨?_, ?_, rfl⟩
  · by_cases h1 : b.area < a.area
    · have : b.area ≤ a.area := Rat.le_of_lt h1
      simp [h1, this]
    · by_cases h2 : b.area = a.area
      · simp [h2]
      · have : ¬ b.area ≤ a.area := fun hle => h1 (Rat.lt_of_le_of_ne hle h2)
        simp [h1, h2, this]
  · by_cases h1 : b.area < a.area
    · simp [h1]
    · by_cases h2 : b.area = a.area <;> simp [h1, h2]

end Geo.Proofs.TRAN2Simplify
