/-
  WIND, part 9: the Jordan-curve property of a simple ring that the polygon scan needs.

  `edgeJordan`: for a simple ring (`ringSimple`) and a point `P` of one of its edges that is not a
  coordinate of the ring, one of the two face samples beside `P` has winding number `0` (the other
  one `±1`, by `windingE_jump`): **one side of every edge is outside**.

  Proof. On the merged ring `r = dedupConsecutive r0` (same winding numbers, no zero-length edges)
  the winding number of the left face sample is the same all along an edge (`edge_step`) and across
  the common vertex of two consecutive edges (`vertex_step`); walking along the ring it is one number
  `L₀` for every edge. On a level that avoids all coordinates, the left-most crossing has winding
  number `0` on its left (`winding_zero_of_none`), which is the winding number of one of the face
  samples beside that crossing (`windingE_link`). Hence `L₀ ∈ {0, 1}`.
-/
import GeoProofs.Lemmas.WINDSteps
import GeoProofs.Lemmas.WINDScan

set_option linter.unusedSimpArgs false
set_option linter.unusedVariables false

namespace Geo.Proofs.WIND
open Geo Geo.Proofs.Kernel Geo.Proofs.Spec Geo.Proofs.C02Q Geo.Proofs.C12

/-! ### edges by position -/

theorem segs_getElem?_inv : ∀ (l : List Pt) (i : Nat) (s : Pt × Pt),
    (segs l)[i]? = some s → l[i]? = some s.1 ∧ l[i + 1]? = some s.2
  | [], i, s, h => by simp [segs] at h
  | [x], i, s, h => by simp [segs] at h
  | x :: y :: t, 0, s, h => by
    simp only [segs, List.getElem?_cons_zero, Option.some.injEq] at h
    subst h
    simp
  | x :: y :: t, i + 1, s, h => by
    simp only [segs, List.getElem?_cons_succ] at h
    have := segs_getElem?_inv (y :: t) i s h
    simpa using this

theorem segs_adjacent {l : List Pt} {i : Nat} {s t : Pt × Pt} (hs : (segs l)[i]? = some s)
    (ht : (segs l)[i + 1]? = some t) : s.2 = t.1 := by
  have h1 := (segs_getElem?_inv l i s hs).2
  have h2 := (segs_getElem?_inv l (i + 1) t ht).1
  rw [h1] at h2
  exact Option.some.inj h2

theorem segs_wrap {l : List Pt} (hc : l.head? = l.getLast?) {s t : Pt × Pt}
    (hs : (segs l)[0]? = some s) (ht : (segs l)[(segs l).length - 1]? = some t) : t.2 = s.1 := by
  have h1 := (segs_getElem?_inv l 0 s hs).1
  have h2 := (segs_getElem?_inv l _ t ht).2
  have hlen := segs_length l
  have hpos : 0 < (segs l).length := by
    by_contra h0
    have : (segs l).length = 0 := by omega
    rw [List.length_eq_zero_iff] at this
    rw [this] at hs; simp at hs
  have e : (segs l).length - 1 + 1 = l.length - 1 := by omega
  rw [e] at h2
  have hh : l.head? = l[0]? := by cases l <;> simp
  have hl : l.getLast? = l[l.length - 1]? := List.getLast?_eq_getElem?
  rw [hh, hl, h1, h2] at hc
  exact (Option.some.inj hc).symm

/-- what `ringSimple` says about two edges at different positions of the merged ring -/
theorem simple_pos {r0 : List Pt} (h : ringSimple r0 = true) {i j : Nat} (hij : i < j)
    {s t : Pt × Pt} (hs : (segs (dedupConsecutive r0))[i]? = some s)
    (ht : (segs (dedupConsecutive r0))[j]? = some t) {z : Pt}
    (hz1 : SegMem z s.1 s.2) (hz2 : SegMem z t.1 t.2) :
    (j = i + 1 ∧ z = s.2) ∨ (i = 0 ∧ j + 1 = (segs (dedupConsecutive r0)).length ∧ z = t.2) := by
  unfold ringSimple at h
  simp only [Bool.and_eq_true, decide_eq_true_eq] at h
  obtain ⟨_, h3⟩ := h
  have hok := allPairs_spec h3 hij hs ht
  by_cases c1 : j = i + 1
  · left
    have : (j == i + 1) = true := by simpa using c1
    rw [if_pos this] at hok
    exact ⟨c1, adjacentOk_spec hok z hz1 hz2⟩
  · have e1 : (j == i + 1) = false := by simpa using c1
    rw [e1] at hok
    simp only [Bool.false_eq_true, if_false] at hok
    by_cases c2 : i = 0 ∧ j + 1 = (segs (dedupConsecutive r0)).length
    · right
      rw [if_pos (show (i == 0) = true ∧ (j + 1 == (segs (dedupConsecutive r0)).length) = true from
        ⟨by simpa using c2.1, by simpa using c2.2⟩)] at hok
      exact ⟨c2.1, c2.2, adjacentOk_spec hok z hz2 hz1⟩
    · exfalso
      rw [if_neg (fun hh : (i == 0) = true ∧ (j + 1 == (segs (dedupConsecutive r0)).length) = true =>
        c2 ⟨by simpa using hh.1, by simpa using hh.2⟩)] at hok
      have hl : lineLine s.1 s.2 t.1 t.2 = true := (lineLine_iff _ _ _ _).2 ⟨z, hz1, hz2⟩
      rw [hl] at hok; simp at hok

/-- strictly inside an edge -/
def SInside (P : Pt) (s : Pt × Pt) : Prop := SegMem P s.1 s.2 ∧ P ≠ s.1 ∧ P ≠ s.2

/-- a point strictly inside the edge at position `i` is on no edge at another position -/
theorem pos_unique {r0 : List Pt} (h : ringSimple r0 = true) {i j : Nat} (hne : j ≠ i)
    {s t : Pt × Pt} (hs : (segs (dedupConsecutive r0))[i]? = some s)
    (ht : (segs (dedupConsecutive r0))[j]? = some t) {P : Pt} (hP : SInside P s) :
    ¬ SegMem P t.1 t.2 := by
  intro hPt
  have hc := (ringSimple_spec h).1
  rcases lt_or_gt_of_ne hne with hlt | hgt
  · -- `j < i`
    rcases simple_pos h hlt ht hs hPt hP.1 with ⟨e, hz⟩ | ⟨e0, e1, hz⟩
    · subst e
      exact hP.2.1 (hz.trans (segs_adjacent ht hs))
    · exact hP.2.2 hz
  · rcases simple_pos h hgt hs ht hP.1 hPt with ⟨e, hz⟩ | ⟨e0, e1, hz⟩
    · exact hP.2.2 hz
    · subst e0
      have e : j = (segs (dedupConsecutive r0)).length - 1 := by omega
      subst e
      exact hP.2.1 (hz.trans (segs_wrap hc hs ht))

theorem filter_unique_index {α : Type} (p : α → Bool) : ∀ (l : List α) (i : Nat) (x : α),
    l[i]? = some x → p x = true → (∀ j y, j ≠ i → l[j]? = some y → p y = false) → l.filter p = [x]
  | [], i, x, h, _, _ => by simp at h
  | a :: t, 0, x, h, hx, hall => by
    simp only [List.getElem?_cons_zero, Option.some.injEq] at h
    subst h
    have : t.filter p = [] := by
      rw [List.filter_eq_nil_iff]
      intro y hy
      obtain ⟨k, hk⟩ := List.getElem?_of_mem hy
      have := hall (k + 1) y (by omega) (by simpa using hk)
      simp [this]
    simp [List.filter_cons, hx, this]
  | a :: t, i + 1, x, h, hx, hall => by
    have ha : p a = false := hall 0 a (by omega) (by simp)
    have ih := filter_unique_index p t i x (by simpa using h) hx
      (fun j y hj hy => hall (j + 1) y (by omega) (by simpa using hy))
    simp [List.filter_cons, ha, ih]

/-- the edge at position `i` is the only edge through a point strictly inside it -/
theorem pos_hone {r0 : List Pt} (h : ringSimple r0 = true) {i : Nat} {s : Pt × Pt}
    (hs : (segs (dedupConsecutive r0))[i]? = some s) {P : Pt} (hP : SInside P s) :
    (segs (dedupConsecutive r0)).filter (onE P) = [s] := by
  apply filter_unique_index (onE P) _ i s hs ((lineCoord_iff _ _ _).mpr hP.1)
  intro j t hj ht
  cases hon : onE P t with
  | false => rfl
  | true => exact absurd ((lineCoord_iff _ _ _).mp hon) (pos_unique h hj hs ht hP)

/-! ### strictly inside: convexity, midpoints -/

theorem sinside_convex {s : Pt × Pt} {P P' x : Pt} (hP : SInside P s) (hP' : SInside P' s)
    (hx : SegMem x P P') : SInside x s := by
  obtain ⟨a, b⟩ := s
  obtain ⟨t, t0, t1, hpx, hpy⟩ := strict_param hP.1 hP.2.1 hP.2.2
  obtain ⟨t', t0', t1', hpx', hpy'⟩ := strict_param hP'.1 hP'.2.1 hP'.2.2
  obtain ⟨r, r0, r1, hxx, hxy⟩ := hx
  simp only at hpx hpy hpx' hpy'
  have hab : a ≠ b := by
    intro e; subst e
    exact hP.2.1 ((SegMem_degenerate P a).mp hP.1)
  have hτ0 : 0 < t + r * (t' - t) := by
    have := convex_pos r0 r1 t0 t0'
    linarith
  have hτ1 : t + r * (t' - t) < 1 := by
    have := convex_pos r0 r1 (by linarith : 0 < 1 - t) (by linarith : 0 < 1 - t')
    linarith
  have ex : x.x = a.x + (t + r * (t' - t)) * (b.x - a.x) := by rw [hxx, hpx, hpx']; ring
  have ey : x.y = a.y + (t + r * (t' - t)) * (b.y - a.y) := by rw [hxy, hpy, hpy']; ring
  refine ⟨⟨t + r * (t' - t), hτ0.le, hτ1.le, ex, ey⟩, ?_, ?_⟩
  · intro e
    have h1 : (t + r * (t' - t)) * (b.x - a.x) = 0 := by rw [e] at ex; linarith
    have h2 : (t + r * (t' - t)) * (b.y - a.y) = 0 := by rw [e] at ey; linarith
    apply hab
    apply Pt.ext'
    · rcases mul_eq_zero.mp h1 with h | h
      · linarith
      · linarith
    · rcases mul_eq_zero.mp h2 with h | h
      · linarith
      · linarith
  · intro e
    have h1 : (1 - (t + r * (t' - t))) * (b.x - a.x) = 0 := by rw [e] at ex; linarith
    have h2 : (1 - (t + r * (t' - t))) * (b.y - a.y) = 0 := by rw [e] at ey; linarith
    apply hab
    apply Pt.ext'
    · rcases mul_eq_zero.mp h1 with h | h
      · linarith
      · linarith
    · rcases mul_eq_zero.mp h2 with h | h
      · linarith
      · linarith

/-- between a point strictly inside an edge and the end of the edge: the end, or strictly inside -/
theorem sinside_to_end {a v P x : Pt} (hav : a ≠ v) (hP : SInside P (a, v)) (hx : SegMem x P v) :
    x = v ∨ SInside x (a, v) := by
  obtain ⟨t, t0, t1, hpx, hpy⟩ := strict_param hP.1 hP.2.1 hP.2.2
  obtain ⟨r, r0, r1, hxx, hxy⟩ := hx
  simp only at hpx hpy
  have ex : x.x = a.x + (t + r * (1 - t)) * (v.x - a.x) := by rw [hxx, hpx]; ring
  have ey : x.y = a.y + (t + r * (1 - t)) * (v.y - a.y) := by rw [hxy, hpy]; ring
  rcases lt_or_eq_of_le r1 with hr | hr
  · right
    have hτ0 : 0 < t + r * (1 - t) := by
      have := mul_nonneg r0 (by linarith : 0 ≤ 1 - t)
      linarith
    have hτ1 : t + r * (1 - t) < 1 := by
      have := mul_pos (by linarith : 0 < 1 - r) (by linarith : 0 < 1 - t)
      linarith
    refine ⟨⟨_, hτ0.le, hτ1.le, ex, ey⟩, ?_, ?_⟩
    · intro e
      have h1 : (t + r * (1 - t)) * (v.x - a.x) = 0 := by rw [e] at ex; linarith
      have h2 : (t + r * (1 - t)) * (v.y - a.y) = 0 := by rw [e] at ey; linarith
      apply hav
      apply Pt.ext'
      · rcases mul_eq_zero.mp h1 with h | h
        · linarith
        · linarith
      · rcases mul_eq_zero.mp h2 with h | h
        · linarith
        · linarith
    · intro e
      have h1 : (1 - (t + r * (1 - t))) * (v.x - a.x) = 0 := by rw [e] at ex; linarith
      have h2 : (1 - (t + r * (1 - t))) * (v.y - a.y) = 0 := by rw [e] at ey; linarith
      apply hav
      apply Pt.ext'
      · rcases mul_eq_zero.mp h1 with h | h
        · linarith
        · linarith
      · rcases mul_eq_zero.mp h2 with h | h
        · linarith
        · linarith
  · left
    apply Pt.ext'
    · rw [hxx, hr]; ring
    · rw [hxy, hr]; ring

theorem sinside_swap {a b P : Pt} (h : SInside P (a, b)) : SInside P (b, a) :=
  ⟨SegMem_symm h.1, h.2.2, h.2.1⟩

theorem sinside_midpoint {a b : Pt} (hab : a ≠ b) : SInside (midpoint a b) (a, b) := by
  refine ⟨⟨1 / 2, by norm_num, by norm_num, ?_, ?_⟩, ?_, ?_⟩
  · simp only [midpoint]; ring
  · simp only [midpoint]; ring
  · intro e
    apply hab
    have hx : (midpoint a b).x = a.x := by rw [e]
    have hy : (midpoint a b).y = a.y := by rw [e]
    simp only [midpoint] at hx hy
    exact Pt.ext' (by linarith) (by linarith)
  · intro e
    apply hab
    have hx : (midpoint a b).x = b.x := by rw [e]
    have hy : (midpoint a b).y = b.y := by rw [e]
    simp only [midpoint] at hx hy
    exact Pt.ext' (by linarith) (by linarith)

/-! ### consecutive edges share only their vertex: the turn condition -/

theorem turn_of_common {a v b : Pt} (hav : a ≠ v) (hvb : v ≠ b)
    (hcom : ∀ z, SegMem z a v → SegMem z v b → z = v) :
    cross a v b = 0 → 0 < (v.x - a.x) * (b.x - v.x) + (v.y - a.y) * (b.y - v.y) := by
  intro hT
  obtain ⟨γ, hbx, hby⟩ := exists_param hav hT
  have hL := seg_len_pos hav
  have hdot : (v.x - a.x) * (b.x - v.x) + (v.y - a.y) * (b.y - v.y) =
      (γ - 1) * ((v.x - a.x) * (v.x - a.x) + (v.y - a.y) * (v.y - a.y)) := by
    rw [hbx, hby]; ring
  rw [hdot]
  apply mul_pos _ hL
  by_contra hγ
  have hγ : γ ≤ 1 := by linarith
  rcases lt_or_ge γ 0 with hneg | hnn
  · -- `a` lies on `(v, b)`
    have hpos : 0 < 1 - γ := by linarith
    have hs : (1 / (1 - γ)) * (1 - γ) = 1 := by field_simp
    have hmem : SegMem a v b := by
      refine ⟨1 / (1 - γ), by positivity, ?_, ?_, ?_⟩
      · rw [div_le_one hpos]; linarith
      · rw [hbx]; linear_combination (v.x - a.x) * hs
      · rw [hby]; linear_combination (v.y - a.y) * hs
    exact hav (hcom a (SegMem_left a v) hmem)
  · -- `b` lies on `(a, v)`
    have hmem : SegMem b a v := ⟨γ, hnn, hγ, hbx, hby⟩
    exact hvb (hcom b hmem (SegMem_right v b)).symm

/-! ### the walk along the merged ring -/

section Walk
variable {r0 : List Pt} (h : ringSimple r0 = true)
include h

/-- along one edge -/
theorem walk_edge {i : Nat} {s : Pt × Pt} (hs : (segs (dedupConsecutive r0))[i]? = some s)
    {P P' : Pt} (hP : SInside P s) (hP' : SInside P' s) :
    windingE (faceL s.1 s.2 P) (dedupConsecutive r0) =
      windingE (faceL s.1 s.2 P') (dedupConsecutive r0) := by
  have hc := (ringSimple_spec h).1
  have hne : s.1 ≠ s.2 := dedup_segs_ne r0 s (List.mem_of_getElem? hs)
  obtain ⟨a, b⟩ := s
  apply edge_step _ hc (pos_hone h hs hP) (pos_hone h hs hP') hne hP.1 hP.2.1 hP.2.2
    hP'.1 hP'.2.1 hP'.2.2
  intro se hse hoff ⟨x, hx1, hx2⟩
  obtain ⟨j, hj⟩ := List.getElem?_of_mem hse
  have hxs := sinside_convex hP hP' hx2
  by_cases hji : j = i
  · subst hji
    rw [hs] at hj
    have : se = (a, b) := (Option.some.inj hj).symm
    rw [this] at hoff
    have : onE P (a, b) = true := (lineCoord_iff _ _ _).mpr hP.1
    rw [hoff] at this; cases this
  · exact pos_unique h hji hs hj hxs hx1

/-- across the common vertex of two consecutive edges -/
theorem walk_vertex {i : Nat} {s t : Pt × Pt} (hs : (segs (dedupConsecutive r0))[i]? = some s)
    (ht : (segs (dedupConsecutive r0))[i + 1]? = some t)
    {P Q : Pt} (hP : SInside P s) (hQ : SInside Q t) :
    windingE (faceL s.1 s.2 P) (dedupConsecutive r0) =
      windingE (faceL t.1 t.2 Q) (dedupConsecutive r0) := by
  have hc := (ringSimple_spec h).1
  have hnes : s.1 ≠ s.2 := dedup_segs_ne r0 s (List.mem_of_getElem? hs)
  have hnet : t.1 ≠ t.2 := dedup_segs_ne r0 t (List.mem_of_getElem? ht)
  have hadj := segs_adjacent hs ht
  obtain ⟨a, v⟩ := s
  obtain ⟨v', b⟩ := t
  simp only at hadj hnes hnet
  subst hadj
  have hlen : i + 1 < (segs (dedupConsecutive r0)).length := by
    rcases List.getElem?_eq_some_iff.mp ht with ⟨hl, _⟩
    exact hl
  have hPQ : onE P (v, b) = false := by
    cases hon : onE P (v, b) with
    | false => rfl
    | true => exact absurd ((lineCoord_iff _ _ _).mp hon) (pos_unique h (by omega) hs ht hP)
  have hQP : onE Q (a, v) = false := by
    cases hon : onE Q (a, v) with
    | false => rfl
    | true => exact absurd ((lineCoord_iff _ _ _).mp hon) (pos_unique h (by omega) ht hs hQ)
  -- no edge at another position passes through `v`
  have hv_other : ∀ j se, j ≠ i → j ≠ i + 1 → (segs (dedupConsecutive r0))[j]? = some se →
      ¬ SegMem v se.1 se.2 := by
    intro j se hji hji1 hj hvse
    rcases lt_or_gt_of_ne hji with hlt | hgt
    · rcases simple_pos h hlt hj hs hvse (SegMem_right a v) with ⟨e, hz⟩ | ⟨e0, e1, hz⟩
      · subst e
        have := segs_adjacent hj hs
        simp only at this
        exact hnes (by rw [← this, ← hz])
      · omega
    · rcases simple_pos h hgt hs hj (SegMem_right a v) hvse with ⟨e, hz⟩ | ⟨e0, e1, hz⟩
      · omega
      · subst e0
        have e : j = (segs (dedupConsecutive r0)).length - 1 := by omega
        subst e
        have := segs_wrap hc hs hj
        simp only at this
        exact hnes (by rw [← this, ← hz])
  apply vertex_step _ hc (pos_hone h hs hP) (pos_hone h ht hQ) hnes hnet hP.1 hP.2.1 hP.2.2
    hQ.1 hQ.2.1 hQ.2.2 hPQ hQP
  · intro se hse hoffP hoffQ ⟨x, hx1, hx2⟩
    obtain ⟨j, hj⟩ := List.getElem?_of_mem hse
    have hji : j ≠ i := by
      intro e; subst e
      rw [hs] at hj
      rw [← Option.some.inj hj] at hoffP
      have : onE P (a, v) = true := (lineCoord_iff _ _ _).mpr hP.1
      rw [hoffP] at this; cases this
    have hji1 : j ≠ i + 1 := by
      intro e; subst e
      rw [ht] at hj
      rw [← Option.some.inj hj] at hoffQ
      have : onE Q (v, b) = true := (lineCoord_iff _ _ _).mpr hQ.1
      rw [hoffQ] at this; cases this
    rcases sinside_to_end hnes hP hx2 with e | hin
    · subst e; exact hv_other j se hji hji1 hj hx1
    · exact pos_unique h hji hs hj hin hx1
  · intro se hse hoffP hoffQ ⟨x, hx1, hx2⟩
    obtain ⟨j, hj⟩ := List.getElem?_of_mem hse
    have hji : j ≠ i := by
      intro e; subst e
      rw [hs] at hj
      rw [← Option.some.inj hj] at hoffP
      have : onE P (a, v) = true := (lineCoord_iff _ _ _).mpr hP.1
      rw [hoffP] at this; cases this
    have hji1 : j ≠ i + 1 := by
      intro e; subst e
      rw [ht] at hj
      rw [← Option.some.inj hj] at hoffQ
      have : onE Q (v, b) = true := (lineCoord_iff _ _ _).mpr hQ.1
      rw [hoffQ] at this; cases this
    rcases sinside_to_end (Ne.symm hnet) (sinside_swap hQ) (SegMem_symm hx2) with e | hin
    · subst e; exact hv_other j se hji hji1 hj hx1
    · exact pos_unique h hji1 ht hj (sinside_swap hin) hx1
  · apply turn_of_common hnes hnet
    intro z hz1 hz2
    exact (ringSimple_adjacent h).1 i (a, v) (v, b) hs ht z hz1 hz2

/-- every edge of the merged ring has the left winding number of the first edge -/
theorem walk_all {s0 : Pt × Pt} (hs0 : (segs (dedupConsecutive r0))[0]? = some s0) {Q : Pt}
    (hQ : SInside Q s0) :
    ∀ (i : Nat) (s : Pt × Pt), (segs (dedupConsecutive r0))[i]? = some s → ∀ P, SInside P s →
      windingE (faceL s.1 s.2 P) (dedupConsecutive r0) =
        windingE (faceL s0.1 s0.2 Q) (dedupConsecutive r0)
  | 0, s, hs, P, hP => by
    rw [hs0] at hs
    have : s = s0 := (Option.some.inj hs).symm
    subst this
    exact walk_edge h hs0 hP hQ
  | i + 1, s, hs, P, hP => by
    have hlen : i < (segs (dedupConsecutive r0)).length := by
      rcases List.getElem?_eq_some_iff.mp hs with ⟨hl, _⟩
      omega
    have hprev : (segs (dedupConsecutive r0))[i]? = some (segs (dedupConsecutive r0))[i] :=
      List.getElem?_eq_getElem hlen
    have hne := dedup_segs_ne r0 _ (List.getElem_mem hlen)
    have hm := sinside_midpoint hne
    rw [← walk_vertex h hprev hs hm hP]
    exact walk_all hs0 hQ i _ hprev _ hm

end Walk

/-! ### the merged ring has the same winding numbers -/

theorem specInc_degenerate (q : EPt) (v : Pt) : Geo.Proofs.Loc.specInc q v v = 0 := by
  unfold Geo.Proofs.Loc.specInc eLe eLt
  by_cases h1 : v.y < q.y0
  · have h2 : ¬ q.y0 < v.y := by linarith
    have h3 : ¬ q.y0 = v.y := by intro e; linarith
    simp [h1, h2, h3]
  · by_cases h2 : v.y = q.y0
    · have h3 : ¬ q.y0 < v.y := by linarith
      by_cases h4 : 0 ≤ q.y1
      · have h5 : ¬ q.y1 < 0 := by linarith
        simp [h1, h2, h4, h5]
      · simp [h1, h2, h4]
    · have h3 : ¬ q.y0 = v.y := fun e => h2 e.symm
      simp [h1, h2, h3]

theorem windingE_dedup (q : EPt) : ∀ l : List Pt, windingE q (dedupConsecutive l) = windingE q l := by
  intro l
  rw [Geo.Proofs.Loc.windingE_eq_sum, Geo.Proofs.Loc.windingE_eq_sum]
  induction l using dedupConsecutive.induct with
  | case1 a b rest hab ih =>
    simp only [dedupConsecutive, hab, if_true]
    rw [ih]
    have e : a = b := by simpa using hab
    subst e
    simp only [segs, List.map_cons, List.sum_cons, specInc_degenerate, zero_add]
  | case2 a b rest hab ih =>
    have hab' : (a == b) = false := by simpa using hab
    simp only [dedupConsecutive, hab', Bool.false_eq_true, if_false]
    obtain ⟨t, ht⟩ := dedup_head' b rest
    rw [ht] at ih ⊢
    simp only [segs, List.map_cons, List.sum_cons] at ih ⊢
    rw [ih]
  | case3 l hl =>
    match l, hl with
    | [], _ => rfl
    | [_], _ => rfl
    | a :: b :: rest, hl => exact absurd rfl (hl a b rest)

/-! ### the left-most crossing -/

/-- a value above `y0` in a list: the smallest one -/
theorem exists_min_above (y0 : Rat) : ∀ l : List Rat, (∃ z ∈ l, y0 < z) →
    ∃ z ∈ l, y0 < z ∧ ∀ w ∈ l, y0 < w → z ≤ w
  | [], h => by obtain ⟨z, hz, _⟩ := h; cases hz
  | a :: t, h => by
    by_cases ht : ∃ z ∈ t, y0 < z
    · obtain ⟨z, hz, hz0, hmin⟩ := exists_min_above y0 t ht
      by_cases ha : y0 < a ∧ a < z
      · refine ⟨a, by simp, ha.1, ?_⟩
        intro w hw hw0
        rcases List.mem_cons.mp hw with rfl | hw'
        · exact le_refl _
        · exact le_trans ha.2.le (hmin w hw' hw0)
      · refine ⟨z, List.mem_cons_of_mem _ hz, hz0, ?_⟩
        intro w hw hw0
        rcases List.mem_cons.mp hw with rfl | hw'
        · by_contra hc
          exact ha ⟨hw0, not_le.mp hc⟩
        · exact hmin w hw' hw0
    · obtain ⟨z, hz, hz0⟩ := h
      have hza : z = a := by
        rcases List.mem_cons.mp hz with e | e
        · exact e
        · exact absurd ⟨z, e, hz0⟩ ht
      subst hza
      refine ⟨z, by simp, hz0, ?_⟩
      intro w hw hw0
      rcases List.mem_cons.mp hw with rfl | hw'
      · exact le_refl _
      · exact absurd ⟨w, hw', hw0⟩ ht

theorem exists_min_list : ∀ l : List Rat, l ≠ [] → ∃ z ∈ l, ∀ w ∈ l, z ≤ w
  | [], h => absurd rfl h
  | [a], _ => ⟨a, by simp, by intro w hw; simp at hw; rw [hw]⟩
  | a :: b :: t, _ => by
    obtain ⟨z, hz, hmin⟩ := exists_min_list (b :: t) (by simp)
    by_cases ha : a ≤ z
    · refine ⟨a, by simp, ?_⟩
      intro w hw
      rcases List.mem_cons.mp hw with rfl | hw'
      · exact le_refl _
      · exact le_trans ha (hmin w hw')
    · refine ⟨z, List.mem_cons_of_mem _ hz, ?_⟩
      intro w hw
      rcases List.mem_cons.mp hw with rfl | hw'
      · exact (not_le.mp ha).le
      · exact hmin w hw'

/-- a level that is the ordinate of no coordinate of a ring that is not flat, with coordinates below
and above -/
theorem exists_level {r : List Pt} (hflat : ∃ u ∈ r, ∃ w ∈ r, u.y < w.y) :
    ∃ y : Rat, (∀ v ∈ r, v.y ≠ y) ∧ (∃ v ∈ r, v.y < y) ∧ (∃ v ∈ r, y < v.y) := by
  obtain ⟨u, hu, w, hw, huw⟩ := hflat
  have hne : r.map (·.y) ≠ [] := by
    intro e
    have : u.y ∈ r.map (·.y) := List.mem_map.mpr ⟨u, hu, rfl⟩
    rw [e] at this; cases this
  obtain ⟨y0, hy0, hmin0⟩ := exists_min_list _ hne
  obtain ⟨v0, hv0, e0⟩ := List.mem_map.mp hy0
  have hy0w : y0 < w.y := by
    have := hmin0 u.y (List.mem_map.mpr ⟨u, hu, rfl⟩)
    linarith
  obtain ⟨y1, hy1, hy01, hmin1⟩ := exists_min_above y0 (r.map (·.y)) ⟨w.y, List.mem_map.mpr ⟨w, hw, rfl⟩, hy0w⟩
  obtain ⟨v1, hv1, e1⟩ := List.mem_map.mp hy1
  refine ⟨(y0 + y1) / 2, ?_, ⟨v0, hv0, by rw [e0]; linarith⟩, ⟨v1, hv1, by rw [e1]; linarith⟩⟩
  intro v hv e
  have hvy : v.y ∈ r.map (·.y) := List.mem_map.mpr ⟨v, hv, rfl⟩
  have h1 := hmin0 v.y hvy
  by_cases hc : y0 < v.y
  · have := hmin1 v.y hvy hc
    linarith
  · linarith

/-- **some edge of a simple ring has winding number `0` on one side** -/
theorem exists_outer_edge {r0 : List Pt} (h : ringSimple r0 = true) :
    ∃ a b P, (a, b) ∈ segs r0 ∧ SegMem P a b ∧ P ∉ r0 ∧
      (windingE (faceL a b P) r0 = 0 ∨ windingE (faceR a b P) r0 = 0) := by
  have hc := closed_of_simple h
  -- not flat
  have hflat : ∃ u ∈ r0, ∃ w ∈ r0, u.y < w.y := by
    have hlen := length_of_simple h
    match r0, hlen with
    | u :: rest, _ =>
      by_contra hno
      apply simple_not_horizontal h u.y
      intro v hv
      by_contra hne
      rcases lt_or_gt_of_ne hne with hlt | hgt
      · exact hno ⟨v, hv, u, by simp, hlt⟩
      · exact hno ⟨u, by simp, v, hv, hgt⟩
  obtain ⟨y, hy, hlo, hhi⟩ := exists_level hflat
  -- the left-most crossing
  obtain ⟨e0, he0, hsg0⟩ := exists_straddle y r0 hy hlo hhi
  have hne : (segs r0).flatMap (crossXs y) ≠ [] := by
    intro e
    have : xAt y e0 ∈ (segs r0).flatMap (crossXs y) := by
      rw [List.mem_flatMap]; exact ⟨e0, he0, by simp [crossXs, hsg0]⟩
    rw [e] at this; cases this
  obtain ⟨x0, hx0, hmin⟩ := exists_min_list _ hne
  rw [List.mem_flatMap] at hx0
  obtain ⟨⟨a, b⟩, hab, hxab⟩ := hx0
  unfold crossXs at hxab
  by_cases hsg : sgnE y (a, b) ≠ 0
  swap
  · rw [if_neg hsg] at hxab; cases hxab
  rw [if_pos hsg, List.mem_singleton] at hxab
  have hP : SegMem ⟨x0, y⟩ a b := by rw [hxab]; exact xAt_segMem hsg
  have hnv : (⟨x0, y⟩ : Pt) ∉ r0 := fun hm => hy _ hm rfl
  refine ⟨a, b, ⟨x0, y⟩, hab, hP, hnv, ?_⟩
  have hone := simple_unique_edge h hab hP hnv
  obtain ⟨ha, hb⟩ := mem_of_mem_segs hab
  have hPa : (⟨x0, y⟩ : Pt) ≠ a := fun e => hnv (e ▸ ha)
  have hPb : (⟨x0, y⟩ : Pt) ≠ b := fun e => hnv (e ▸ hb)
  have habne : a ≠ b := by
    intro e; subst e
    exact hPa ((SegMem_degenerate _ a).mp hP)
  -- the point one unit to the left
  have hw0 : windingE (EPt.ofPt ⟨x0 - 1, y⟩) r0 = 0 := by
    apply winding_zero_of_none (x0 - 1) y r0 hc hy
    intro t ht hle
    have := hmin t ht
    linarith
  have hD : cross a b ⟨x0 - 1, y⟩ ≠ 0 := by
    have h0 : cross a b ⟨x0, y⟩ = 0 := hP.cross_eq_zero
    have hd : cross a b ⟨x0 - 1, y⟩ = cross a b ⟨x0, y⟩ + (b.y - a.y) := by
      unfold cross; simp only; ring
    rw [hd, h0, zero_add]
    exact sgnE_ne_zero_ne hsg
  have hclear : ∀ se ∈ segs r0, onE ⟨x0, y⟩ se = false →
      ¬ ∃ x, SegMem x se.1 se.2 ∧ SegMem x ⟨x0 - 1, y⟩ ⟨x0, y⟩ := by
    intro se hse hoff ⟨x, hx1, hx2⟩
    have hxy : x.y = y := segMem_horiz hx2
    obtain ⟨r, hr0, hr1, hxx, _⟩ := hx2
    simp only at hxx
    have hxle : x.x ≤ x0 := by nlinarith
    have hon : onAnySeg ⟨x.x, y⟩ (segs r0) = true := by
      rw [Geo.Proofs.Loc.onAnySeg_iff]
      refine ⟨se, hse, (lineCoord_iff _ _ _).mpr ?_⟩
      have : (⟨x.x, y⟩ : Pt) = x := Pt.ext' rfl hxy.symm
      rw [this]; exact hx1
    have hcr := on_ring_crossing hy hon
    have hge := hmin x.x hcr
    have hxe : x = ⟨x0, y⟩ := Pt.ext' (by simp only; linarith) hxy
    rw [hxe] at hx1
    have : onE ⟨x0, y⟩ se = true := (lineCoord_iff _ _ _).mpr hx1
    rw [hoff] at this; cases this
  have hlink := windingE_link r0 hc hone habne hP hPa hPb hD hclear
  rw [hw0] at hlink
  split_ifs at hlink
  · left; exact hlink.symm
  · right; exact hlink.symm

/-! ### one side of every edge is outside -/

/-- **Jordan-curve property of a simple ring, edge form**: beside every point of the ring that is
not one of its coordinates, one of the two face samples has winding number `0`. -/
theorem edgeJordan {r0 : List Pt} (h : ringSimple r0 = true) {a b P : Pt}
    (hab : (a, b) ∈ segs r0) (hP : SegMem P a b) (hnv : P ∉ r0) :
    windingE (faceL a b P) r0 = 0 ∨ windingE (faceR a b P) r0 = 0 := by
  have hc := closed_of_simple h
  have hn3 := (ringSimple_spec h).2.1
  -- the first edge of the merged ring and its midpoint
  have h0 : 0 < (segs (dedupConsecutive r0)).length := by omega
  obtain ⟨s0, hs0⟩ : ∃ s0, (segs (dedupConsecutive r0))[0]? = some s0 :=
    ⟨_, List.getElem?_eq_getElem h0⟩
  have hne0 : s0.1 ≠ s0.2 := dedup_segs_ne r0 s0 (List.mem_of_getElem? hs0)
  have hQ : SInside (midpoint s0.1 s0.2) s0 := sinside_midpoint hne0
  -- left winding numbers of an edge of `r0` through a non-coordinate point
  have key : ∀ a b P, (a, b) ∈ segs r0 → SegMem P a b → P ∉ r0 →
      windingE (faceL a b P) r0 =
        windingE (faceL s0.1 s0.2 (midpoint s0.1 s0.2)) (dedupConsecutive r0) ∧
      windingE (faceL a b P) r0 = windingE (faceR a b P) r0 + 1 := by
    intro a b P hab hP hnv
    obtain ⟨ha, hb⟩ := mem_of_mem_segs hab
    have hPa : P ≠ a := fun e => hnv (e ▸ ha)
    have hPb : P ≠ b := fun e => hnv (e ▸ hb)
    have habne : a ≠ b := by
      intro e; subst e
      exact hPa ((SegMem_degenerate _ a).mp hP)
    have hmem : (a, b) ∈ segs (dedupConsecutive r0) := by
      rw [← segs_filter_nondeg, List.mem_filter]
      exact ⟨hab, by simpa using habne⟩
    obtain ⟨i, hi⟩ := List.getElem?_of_mem hmem
    refine ⟨?_, windingE_jump r0 hc (simple_unique_edge h hab hP hnv) habne hP hPa hPb⟩
    rw [← windingE_dedup]
    exact walk_all h hs0 hQ i (a, b) hi P ⟨hP, hPa, hPb⟩
  obtain ⟨a0, b0, P0, hab0, hP0, hnv0, hout⟩ := exists_outer_edge h
  obtain ⟨k1, k2⟩ := key a b P hab hP hnv
  obtain ⟨k3, k4⟩ := key a0 b0 P0 hab0 hP0 hnv0
  rcases hout with h0' | h0' <;> omega

theorem edgeOuter_of_simple {r0 : List Pt} (h : ringSimple r0 = true) : EdgeOuter r0 :=
  fun _ _ _ hab hP hnv => edgeJordan h hab hP hnv

/-! ### the cross-ring facts of a valid polygon, no hypothesis left -/

/-- no hole crossing of a valid polygon is a shell crossing -/
theorem valid_hole_shell_disjoint {q : Poly} (hv : polyValid q = true) {y : Rat}
    (hy : ∀ v ∈ q.coords, v.y ≠ y) :
    ∀ hole ∈ q.ints, ∀ t ∈ (segs hole).flatMap (crossXs y), t ∉ (segs q.ext).flatMap (crossXs y) :=
  valid_hole_shell_crossings_disjoint hv (edgeOuter_of_simple (polyValid_unpack hv).1) hy

/-- the shell of a valid polygon winds around every hole crossing -/
theorem valid_shell_winds {q : Poly} (hv : polyValid q = true) {y : Rat}
    (hy : ∀ v ∈ q.coords, v.y ≠ y) :
    ∀ hole ∈ q.ints, ∀ t ∈ (segs hole).flatMap (crossXs y),
      windingE (EPt.ofPt ⟨t, y⟩) q.ext ≠ 0 :=
  valid_shell_winds_hole_crossings hv (edgeOuter_of_simple (polyValid_unpack hv).1) hy

example : windingE (faceL ⟨0, 0⟩ ⟨4, 0⟩ ⟨2, 0⟩) [⟨0, 0⟩, ⟨4, 0⟩, ⟨0, 4⟩, ⟨0, 0⟩] = 0 ∨
    windingE (faceR ⟨0, 0⟩ ⟨4, 0⟩ ⟨2, 0⟩) [⟨0, 0⟩, ⟨4, 0⟩, ⟨0, 4⟩, ⟨0, 0⟩] = 0 :=
  edgeJordan (by decide +kernel) (by simp [segs])
    ⟨1 / 2, by norm_num, by norm_num, by norm_num, by norm_num⟩ (by decide)

end Geo.Proofs.WIND
