/-
  C08 helper lemmas (Graham scan, global correctness) — what the scan needs from the arithmetic of
  the scalar type: `DistExactPivot`. It holds for exact arithmetic, and for every monotone rounding
  with `rnd 0 = 0` on inputs without a distance tie (the class the driver SKIPs, `grahamTie`).
-/
import GeoModel.Hull
import GeoProofs.Lemmas.C08QSort
import Mathlib.Tactic.Linarith
import Mathlib.Tactic.Ring

namespace Geo.Proofs.C08
open Geo Geo.Hull

/-- seen from a lexicographically least coordinate `o` of `pts` (the pivot of `graham_hull`), the
rounded squared distances order points collinear with `o` like the exact ones -/
def DistExactPivot (rnd : Rat → Rat) (pts : List Pt) : Prop :=
  ∀ o ∈ pts, (∀ q ∈ pts, ¬ lexLt q o = true) → ∀ q ∈ pts, ∀ r ∈ pts, cross o q r = 0 →
    (dist2r rnd o q ≤ dist2r rnd o r ↔ dist2 o q ≤ dist2 o r)

theorem distExactPivot_id (pts : List Pt) : DistExactPivot id pts :=
  fun o _ _ q hq r hr h => distExact_id o pts q hq r hr h

theorem distExactPivot_congr (rnd : Rat → Rat) (pts pts' : List Pt) (hm : ∀ x, x ∈ pts' ↔ x ∈ pts)
    (h : DistExactPivot rnd pts) : DistExactPivot rnd pts' :=
  fun o ho hmin q hq r hr hc =>
    h o ((hm o).1 ho) (fun x hx => hmin x ((hm x).2 hx)) q ((hm q).1 hq) r ((hm r).1 hr) hc

private theorem sq_mono_nonneg {a b : Rat} (ha : 0 ≤ a) (hab : a ≤ b) : a * a ≤ b * b :=
  mul_le_mul hab hab ha (le_trans ha hab)

private theorem sq_mono_nonpos {a b : Rat} (ha : a ≤ 0) (hab : b ≤ a) : a * a ≤ b * b := by
  have := sq_mono_nonneg (a := -a) (b := -b) (by linarith) (by linarith)
  linarith [neg_mul_neg a a, neg_mul_neg b b]

/-- with a monotone rounding that fixes 0, the rounded squared distance is monotone along a ray
from the pivot -/
theorem dist2r_mono_ray (rnd : Rat → Rat) (hmono : ∀ x y, x ≤ y → rnd x ≤ rnd y) (h0 : rnd 0 = 0)
    {o q r : Pt} (hq : InH0 o q) (hr : InH0 o r) (hc : cross o q r = 0)
    (hd : dist2 o q ≤ dist2 o r) : dist2r rnd o q ≤ dist2r rnd o r := by
  have hnonneg : ∀ a : Pt, 0 ≤ dist2r rnd o a := by
    intro a
    unfold dist2r
    dsimp only
    rw [← h0]
    apply hmono
    have h1 : 0 ≤ rnd (rnd (o.x - a.x) * rnd (o.x - a.x)) := by
      have := hmono 0 _ (mul_self_nonneg (rnd (o.x - a.x))); rwa [h0] at this
    have h2 : 0 ≤ rnd (rnd (o.y - a.y) * rnd (o.y - a.y)) := by
      have := hmono 0 _ (mul_self_nonneg (rnd (o.y - a.y))); rwa [h0] at this
    linarith
  rcases hq with hq | hq
  · subst hq
    have : dist2r rnd q q = 0 := by
      unfold dist2r; simp [h0]
    rw [this]; exact hnonneg r
  · rcases hr with hr | hr
    · subst hr
      have := dist2_pos hq
      rw [dist2_self] at hd
      linarith
    · obtain ⟨t, ht, hx, hy⟩ := le0_ray hq hr hc hd
      have hqx : o.x - q.x ≤ 0 := by
        have := HP.x_nonneg hq; linarith
      have hrx : o.x - r.x ≤ o.x - q.x := by
        have : o.x - r.x = t * (o.x - q.x) := by linarith
        rw [this]; nlinarith
      have ex : rnd (o.x - q.x) * rnd (o.x - q.x) ≤ rnd (o.x - r.x) * rnd (o.x - r.x) := by
        apply sq_mono_nonpos
        · have := hmono _ _ hqx; rwa [h0] at this
        · exact hmono _ _ hrx
      have ey : rnd (o.y - q.y) * rnd (o.y - q.y) ≤ rnd (o.y - r.y) * rnd (o.y - r.y) := by
        have hry : o.y - r.y = t * (o.y - q.y) := by linarith
        rcases le_total (o.y - q.y) 0 with hs | hs
        · apply sq_mono_nonpos
          · have := hmono _ _ hs; rwa [h0] at this
          · apply hmono; rw [hry]; nlinarith
        · apply sq_mono_nonneg
          · have := hmono _ _ hs; rwa [h0] at this
          · apply hmono; rw [hry]; nlinarith
      unfold dist2r
      dsimp only
      apply hmono
      exact add_le_add (hmono _ _ ex) (hmono _ _ ey)

/-- a monotone rounding that fixes 0 gives `DistExact` around a pivot `o` on a list of points equal
to or greater than `o` where equal rounded distances of collinear points mean equal distances -/
theorem distExact_of_monotone (rnd : Rat → Rat) (hmono : ∀ x y, x ≤ y → rnd x ≤ rnd y)
    (h0 : rnd 0 = 0) (o : Pt) (l : List Pt) (hH : ∀ x ∈ l, InH0 o x)
    (hnotie : ∀ q ∈ l, ∀ r ∈ l, cross o q r = 0 →
      dist2r rnd o q = dist2r rnd o r → dist2 o q = dist2 o r) : DistExact rnd o l := by
  intro q hq r hr hc
  constructor
  · intro hle
    by_contra hnot
    have hlt : dist2 o r < dist2 o q := not_le.1 hnot
    have hc' : cross o r q = 0 := by rw [cross_swap]; linarith
    have := dist2r_mono_ray rnd hmono h0 (hH r hr) (hH q hq) hc' (le_of_lt hlt)
    have heq := hnotie q hq r hr hc (le_antisymm hle this)
    linarith
  · exact dist2r_mono_ray rnd hmono h0 (hH q hq) (hH r hr) hc

/-- … hence `DistExactPivot` on inputs without a distance tie -/
theorem distExactPivot_of_monotone (rnd : Rat → Rat) (hmono : ∀ x y, x ≤ y → rnd x ≤ rnd y)
    (h0 : rnd 0 = 0) (pts : List Pt)
    (hnotie : ∀ o ∈ pts, ∀ q ∈ pts, ∀ r ∈ pts, cross o q r = 0 →
      dist2r rnd o q = dist2r rnd o r → dist2 o q = dist2 o r) : DistExactPivot rnd pts := by
  intro o ho hmin
  have hH : ∀ x ∈ pts, InH0 o x := by
    intro x hx
    rcases lexLt_tricho x o (hmin x hx) with h | h
    · exact Or.inl h
    · exact Or.inr ((inH_iff_lexLt o x).2 h)
  exact distExact_of_monotone rnd hmono h0 o pts hH (hnotie o ho)

/-- the driver's SKIP class `grahamTie`, spelled out -/
theorem grahamTie_false {rnd : Rat → Rat} {head : Pt} {l : List Pt}
    (h : grahamTie rnd head l = false) : ∀ q ∈ l, ∀ r ∈ l, cross head q r = 0 →
      dist2r rnd head q = dist2r rnd head r → q = r := by
  intro q hq r hr hc hd
  by_contra hne
  have : grahamTie rnd head l = true := by
    unfold grahamTie
    simp only [List.any_eq_true, Bool.and_eq_true, bne_iff_ne, beq_iff_eq]
    exact ⟨q, hq, r, hr, ⟨hne, (orient_col_iff _ _ _).2 (by rw [cross_mid]; linarith)⟩, hd⟩
  rw [h] at this
  exact Bool.false_ne_true this

theorem grahamTie_mono {rnd : Rat → Rat} {head : Pt} {l l' : List Pt} (hs : ∀ x ∈ l, x ∈ l')
    (h : grahamTie rnd head l' = false) : grahamTie rnd head l = false := by
  cases ht : grahamTie rnd head l with
  | false => rfl
  | true =>
    exfalso
    unfold grahamTie at ht
    simp only [List.any_eq_true] at ht
    obtain ⟨q, hq, r, hr, hc⟩ := ht
    have : grahamTie rnd head l' = true := by
      unfold grahamTie
      simp only [List.any_eq_true]
      exact ⟨q, hs q hq, r, hs r hr, hc⟩
    rw [h] at this
    exact Bool.false_ne_true this

end Geo.Proofs.C08
