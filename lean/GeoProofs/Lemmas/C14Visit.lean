/-
  C14 helper lemmas: a visitor made of `emit`s and `forM` loops, run with ANY lawful handler
  monad, is the `forM` of that handler over a plain list of errors.
-/
import GeoModel.Validation

namespace Geo.Proofs.C14
open Geo Geo.V

variable {m : Type → Type} [Monad m] [LawfulMonad m]

theorem forM_single {ε : Type} (h : ε → m PUnit) (e : ε) : forM [e] h = h e := by
  simp

theorem emit_eq {ε : Type} (h : ε → m PUnit) (c : Bool) (e : ε) :
    emit h c e = forM (if c then [e] else []) h := by
  cases c <;> simp [emit]

theorem forM_flatMap {α ε : Type} (h : ε → m PUnit) (f : α → List ε) (l : List α) :
    forM l (fun x => forM (f x) h) = forM (l.flatMap f) h := by
  induction l with
  | nil => simp
  | cons a t ih => simp only [List.forM_cons, List.flatMap_cons, List.forM_append, ih]

omit [LawfulMonad m] in
theorem forM_congr' {α : Type} (l : List α) (f g : α → m PUnit) (hfg : ∀ a ∈ l, f a = g a) :
    forM l f = forM l g := by
  induction l with
  | nil => rfl
  | cons a t ih =>
    simp only [List.forM_cons]
    rw [hfg a (by simp), ih (fun b hb => hfg b (by simp [hb]))]

end Geo.Proofs.C14
