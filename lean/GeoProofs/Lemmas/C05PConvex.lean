/-
  Helper lemmas for C05 (winding order of convex rings): consecutive pairs (`edges`) of a
  coordinate list, the convexity predicate (every coordinate of the ring lies on one closed side of
  every edge line), the fan decomposition of the shoelace sum from an arbitrary vertex, and the
  location of the pivot triple of `winding_order` among the edges.
-/
import GeoModel.Area
import GeoModel.Winding
import GeoProofs.Lemmas.C05Area
import GeoProofs.Lemmas.C05Winding
import Mathlib.Tactic.Linarith
import Mathlib.Tactic.Ring

namespace Geo.Proofs.C05L
open Geo

/-! ### consecutive pairs -/

/-- the consecutive pairs `(rᵢ, rᵢ₊₁)` of a coordinate list (`LineString::lines`) -/
def edges (r : List Pt) : List (Pt × Pt) := r.zip r.tail

@[simp] theorem edges_nil : edges [] = [] := rfl
@[simp] theorem edges_single (a : Pt) : edges [a] = [] := rfl
@[simp] theorem edges_cons_cons (a b : Pt) (t : List Pt) :
    edges (a :: b :: t) = (a, b) :: edges (b :: t) := rfl

theorem mem_edges_iff_infix (r : List Pt) (a b : Pt) : (a, b) ∈ edges r ↔ [a, b] <:+: r := by
  induction r with
  | nil => simp
  | cons x t ih =>
    cases t with
    | nil =>
      simp only [edges_single, List.not_mem_nil, false_iff]
      intro h
      have := h.length_le
      simp at this
    | cons y t' =>
      rw [edges_cons_cons, List.mem_cons, ih]
      constructor
      · rintro (h | h)
        · simp only [Prod.mk.injEq] at h
          obtain ⟨rfl, rfl⟩ := h
          exact List.infix_cons_iff.2 (Or.inl ⟨t', rfl⟩)
        · exact List.infix_cons_iff.2 (Or.inr h)
      · intro h
        rcases List.infix_cons_iff.1 h with h | h
        · left
          obtain ⟨s, hs⟩ := h
          simp only [List.cons_append, List.cons.injEq, List.nil_append] at hs
          obtain ⟨rfl, rfl, _⟩ := hs
          rfl
        · right; exact h

theorem mem_edges_take {r : List Pt} {k : Nat} {e : Pt × Pt} (h : e ∈ edges (r.take k)) :
    e ∈ edges r := by
  obtain ⟨a, b⟩ := e
  rw [mem_edges_iff_infix] at h ⊢
  exact h.trans (List.take_prefix k r).isInfix

theorem mem_edges_drop {r : List Pt} {k : Nat} {e : Pt × Pt} (h : e ∈ edges (r.drop k)) :
    e ∈ edges r := by
  obtain ⟨a, b⟩ := e
  rw [mem_edges_iff_infix] at h ⊢
  exact h.trans (List.drop_suffix k r).isInfix

theorem mem_edges_reverse {r : List Pt} {a b : Pt} :
    (a, b) ∈ edges r.reverse ↔ (b, a) ∈ edges r := by
  rw [mem_edges_iff_infix, mem_edges_iff_infix]
  have : [a, b] = [b, a].reverse := rfl
  rw [this, List.reverse_infix]

/-- a consecutive pair of `A ++ B` lies in `A`, in `B`, or is the junction -/
theorem mem_edges_append {A B : List Pt} {e : Pt × Pt} (h : e ∈ edges (A ++ B)) :
    e ∈ edges A ∨ e ∈ edges B ∨ (A.getLast? = some e.1 ∧ B.head? = some e.2) := by
  induction A with
  | nil => right; left; simpa using h
  | cons a t ih =>
    cases t with
    | nil =>
      cases B with
      | nil => simp at h
      | cons b B' =>
        simp only [List.cons_append, List.nil_append, edges_cons_cons, List.mem_cons] at h
        rcases h with rfl | h
        · right; right; simp
        · right; left; exact h
    | cons a' t' =>
      simp only [List.cons_append, edges_cons_cons, List.mem_cons] at h ih ⊢
      rcases h with rfl | h
      · left; left; rfl
      · rcases ih h with h' | h' | h'
        · left; right; exact h'
        · right; left; exact h'
        · right; right
          rw [List.getLast?_cons_cons]; exact h'

/-- the first coordinate different from the head `p` is preceded by a copy of `p` -/
theorem find_ne_edge (p nx : Pt) (l : List Pt) (h : l.find? (· ≠ p) = some nx) :
    (p, nx) ∈ edges (p :: l) := by
  induction l with
  | nil => simp at h
  | cons c t ih =>
    by_cases hc : c = p
    · subst hc
      rw [List.find?_cons_of_neg (by simp)] at h
      rw [edges_cons_cons]; exact List.mem_cons_of_mem _ (ih h)
    · rw [List.find?_cons_of_pos (by simpa using hc)] at h
      cases h
      rw [edges_cons_cons]; exact List.mem_cons_self

/-! ### the pivot triple of a closed ring sits on two edges -/

theorem pivot_next_edge {r : List Pt} (hc : r.head? = r.getLast?) {i : Nat} {p nx : Pt}
    (hidx : r[i]? = some p) (hn : (cycAfter r i).find? (· ≠ p) = some nx) :
    (p, nx) ∈ edges r := by
  rcases List.getElem?_eq_some_iff.1 hidx with ⟨hi, hp⟩
  have hne : nx ≠ p := by simpa using List.find?_some hn
  have hL : p :: cycAfter r i = r.drop i ++ r.take i := by
    unfold cycAfter
    rw [List.drop_eq_getElem_cons hi, hp]; rfl
  have h := find_ne_edge p nx _ hn
  rw [hL] at h
  rcases mem_edges_append h with h | h | ⟨h1, h2⟩
  · exact mem_edges_drop h
  · exact mem_edges_take h
  · exfalso
    simp only at h1 h2
    rw [List.getLast?_drop, if_neg (by omega)] at h1
    rw [List.head?_take] at h2
    split at h2
    · cases h2
    · rw [hc, h1] at h2
      exact hne (by simpa using h2.symm)

theorem pivot_prev_edge {r : List Pt} (hc : r.head? = r.getLast?) {i : Nat} {p pv : Pt}
    (hidx : r[i]? = some p) (hv : (cycBefore r i).find? (· ≠ p) = some pv) :
    (pv, p) ∈ edges r := by
  rcases List.getElem?_eq_some_iff.1 hidx with ⟨hi, hp⟩
  have hne : pv ≠ p := by simpa using List.find?_some hv
  have hL : p :: cycBefore r i = (r.take (i + 1)).reverse ++ (r.drop (i + 1)).reverse := by
    unfold cycBefore
    rw [List.take_succ_eq_append_getElem hi, hp]; simp
  have h := find_ne_edge p pv _ hv
  rw [hL] at h
  rcases mem_edges_append h with h | h | ⟨h1, h2⟩
  · exact mem_edges_take (mem_edges_reverse.1 h)
  · exact mem_edges_drop (mem_edges_reverse.1 h)
  · exfalso
    simp only at h1 h2
    rw [List.getLast?_reverse, List.head?_take, if_neg (by omega)] at h1
    rw [List.head?_reverse, List.getLast?_drop] at h2
    split at h2
    · cases h2
    · rw [← hc, h1] at h2
      exact hne (by simpa using h2.symm)

/-! ### cross-product identities -/

theorem det_sub_eq_cross (s a b : Pt) : det (a - s) (b - s) = cross s a b := by
  simp only [det, cross, sub_x, sub_y]; ring

theorem cross_cyc (a b c : Pt) : cross a b c = cross c a b := by
  simp only [cross]; ring

theorem cross_swap12 (a b c : Pt) : cross b a c = - cross a b c := by
  simp only [cross]; ring

/-- the three-vector identity `det(w,q)u − det(u,q)w = det(w,u)q`, x-component, for the vectors from
`p` -/
theorem cross_combo_x (pv p nx q : Pt) :
    cross pv p q * (nx.x - p.x) + cross p nx q * (pv.x - p.x) = cross pv p nx * (q.x - p.x) := by
  simp only [cross]; ring

theorem cross_combo_y (pv p nx q : Pt) :
    cross pv p q * (nx.y - p.y) + cross p nx q * (pv.y - p.y) = cross pv p nx * (q.y - p.y) := by
  simp only [cross]; ring

/-- `a`, `b` on the line through `p ≠ nx`: the fan triangle `p a b` is flat -/
theorem cross_zero_of_collinear {p nx a b : Pt} (hne : nx ≠ p) (ha : cross p nx a = 0)
    (hb : cross p nx b = 0) : cross p a b = 0 := by
  have hx : cross p a b * (nx.x - p.x) = 0 := by
    have : cross p a b * (nx.x - p.x) =
        cross p nx b * (a.x - p.x) - cross p nx a * (b.x - p.x) := by
      simp only [cross]; ring
    rw [this, ha, hb]; ring
  have hy : cross p a b * (nx.y - p.y) = 0 := by
    have : cross p a b * (nx.y - p.y) =
        cross p nx b * (a.y - p.y) - cross p nx a * (b.y - p.y) := by
      simp only [cross]; ring
    rw [this, ha, hb]; ring
  by_contra hcr
  rcases mul_eq_zero.1 hx with h | h
  · exact hcr h
  · rcases mul_eq_zero.1 hy with h' | h'
    · exact hcr h'
    · apply hne
      cases nx; cases p
      simp only [Pt.mk.injEq]
      simp only at h h'
      exact ⟨by linarith, by linarith⟩

/-- a coordinate that is not lexicographically below `p` and differs from it is strictly above -/
theorem lex_pos {a p : Pt} (h : lexLt a p = false) (hne : a ≠ p) :
    p.x < a.x ∨ (p.x = a.x ∧ p.y < a.y) := by
  rw [Bool.eq_false_iff, Ne, lexLt_iff] at h
  have hx : ¬ a.x < p.x := fun hh => h (Or.inl hh)
  have hx' : p.x ≤ a.x := not_lt.1 hx
  rcases lt_or_eq_of_le hx' with hlt | heq
  · exact Or.inl hlt
  · right
    refine ⟨heq, ?_⟩
    have hy : ¬ a.y < p.y := fun hh => h (Or.inr ⟨heq.symm, hh⟩)
    rcases lt_or_eq_of_le (not_lt.1 hy) with hlt | heq'
    · exact hlt
    · exfalso; apply hne; cases a; cases p; simp_all

/-- If the pivot triple is collinear, `p` is lexicographically least among `pv, p, nx`, and `q` is
on the same closed side (sign `σ`) of both lines `pv→p` and `p→nx`, then `q` is on the line. -/
theorem collinear_pivot_zero {pv p nx q : Pt} {σ : Rat} (hσ : σ * σ = 1)
    (hc : cross pv p nx = 0) (hpv : lexLt pv p = false) (hnx : lexLt nx p = false)
    (hpvne : pv ≠ p) (hnxne : nx ≠ p)
    (h1 : 0 ≤ σ * cross p nx q) (h2 : 0 ≤ σ * cross pv p q) : cross p nx q = 0 := by
  have ex := cross_combo_x pv p nx q
  have ey := cross_combo_y pv p nx q
  rw [hc] at ex ey
  -- σ-scaled equations
  have ex' : (σ * cross pv p q) * (nx.x - p.x) + (σ * cross p nx q) * (pv.x - p.x) = 0 := by
    have : (σ * cross pv p q) * (nx.x - p.x) + (σ * cross p nx q) * (pv.x - p.x) =
        σ * (cross pv p q * (nx.x - p.x) + cross p nx q * (pv.x - p.x)) := by ring
    rw [this, ex]; ring
  have ey' : (σ * cross pv p q) * (nx.y - p.y) + (σ * cross p nx q) * (pv.y - p.y) = 0 := by
    have : (σ * cross pv p q) * (nx.y - p.y) + (σ * cross p nx q) * (pv.y - p.y) =
        σ * (cross pv p q * (nx.y - p.y) + cross p nx q * (pv.y - p.y)) := by ring
    rw [this, ey]; ring
  have hzero : σ * cross p nx q = 0 := by
    by_contra hpos
    have hpos' : 0 < σ * cross p nx q := lt_of_le_of_ne h1 (Ne.symm hpos)
    rcases lex_pos hpv hpvne with hw | ⟨hwx, hwy⟩
    · -- w.x > 0, u.x ≥ 0
      have hux : 0 ≤ nx.x - p.x := by
        rcases lex_pos hnx hnxne with h | ⟨h, _⟩ <;> linarith
      have := mul_nonneg h2 hux
      have := mul_pos hpos' (sub_pos.2 hw)
      linarith
    · -- w.x = 0, w.y > 0; collinearity forces u.x = 0
      have hdet : (pv.y - p.y) * (nx.x - p.x) = 0 := by
        have : cross pv p nx = (pv.y - p.y) * (nx.x - p.x) - (pv.x - p.x) * (nx.y - p.y) := by
          simp only [cross]; ring
        rw [this, ← hwx] at hc
        linarith
      have hux : nx.x - p.x = 0 := by
        rcases mul_eq_zero.1 hdet with h | h
        · linarith
        · exact h
      have huy : 0 ≤ nx.y - p.y := by
        rcases lex_pos hnx hnxne with h | ⟨_, h⟩ <;> linarith
      have := mul_nonneg h2 huy
      have := mul_pos hpos' (sub_pos.2 hwy)
      linarith
  have : cross p nx q = σ * (σ * cross p nx q) := by
    rw [← mul_assoc, hσ, one_mul]
  rw [this, hzero, mul_zero]

/-! ### sums -/

theorem shiftedDets_eq_map (s : Pt) (l : List Pt) :
    shiftedDets s l = (edges l).map (fun e => cross s e.1 e.2) := by
  induction l with
  | nil => rfl
  | cons a t ih =>
    cases t with
    | nil => rfl
    | cons b t' =>
      rw [shiftedDets, edges_cons_cons, List.map_cons, ih, det_sub_eq_cross]

theorem sumRat_map_nonneg {α} (f : α → Rat) (l : List α) (h : ∀ e ∈ l, 0 ≤ f e) :
    0 ≤ sumRat (l.map f) := by
  induction l with
  | nil => simp [sumRat]
  | cons a t ih =>
    simp only [List.map_cons, sumRat]
    have := h a List.mem_cons_self
    have := ih (fun e he => h e (List.mem_cons_of_mem _ he))
    linarith

theorem sumRat_map_pos {α} (f : α → Rat) (l : List α) (h : ∀ e ∈ l, 0 ≤ f e)
    (e0 : α) (he0 : e0 ∈ l) (hpos : 0 < f e0) : 0 < sumRat (l.map f) := by
  induction l with
  | nil => cases he0
  | cons a t ih =>
    simp only [List.map_cons, sumRat]
    have ht := sumRat_map_nonneg f t (fun e he => h e (List.mem_cons_of_mem _ he))
    rcases List.mem_cons.1 he0 with rfl | he
    · linarith
    · have := h a List.mem_cons_self
      have := ih (fun e he => h e (List.mem_cons_of_mem _ he)) he
      linarith

theorem sumRat_map_zero {α} (f : α → Rat) (l : List α) (h : ∀ e ∈ l, f e = 0) :
    sumRat (l.map f) = 0 := by
  induction l with
  | nil => simp [sumRat]
  | cons a t ih =>
    simp only [List.map_cons, sumRat]
    rw [h a List.mem_cons_self, ih (fun e he => h e (List.mem_cons_of_mem _ he))]; ring

theorem sumRat_map_mul {α} (σ : Rat) (f : α → Rat) (l : List α) :
    sumRat (l.map (fun e => σ * f e)) = σ * sumRat (l.map f) := by
  induction l with
  | nil => simp [sumRat]
  | cons a t ih => simp only [List.map_cons, sumRat, ih]; ring

/-- fan decomposition: the shoelace sum of a closed ring is the sum of the fan triangles
`cross s a b` over its edges `(a, b)`, from *any* apex `s`. -/
theorem shoelace2_eq_fan (s : Pt) (r : List Pt) (hc : r.head? = r.getLast?) :
    shoelace2 r = sumRat ((edges r).map (fun e => cross s e.1 e.2)) := by
  rw [← shiftedDets_eq_map]
  cases r with
  | nil => simp [shiftedDets, shoelace2, sumRat]
  | cons a t => rw [sum_shiftedDets, lastD_of_closed hc]; ring

/-! ### convex rings -/

/-- every coordinate of the list lies on the closed side of sign `σ` of every edge line -/
def convexSgn (σ : Rat) (r : List Pt) : Prop :=
  ∀ e ∈ edges r, ∀ q ∈ r, 0 ≤ σ * cross e.1 e.2 q

/-- Counter-clockwise convex ring: every coordinate is on or to the left of every edge. Repeated
coordinates and collinear vertices are allowed. -/
def convexCcw (r : List Pt) : Prop := ∀ e ∈ edges r, ∀ q ∈ r, 0 ≤ cross e.1 e.2 q

/-- Clockwise convex ring: every coordinate is on or to the right of every edge. -/
def convexCw (r : List Pt) : Prop := ∀ e ∈ edges r, ∀ q ∈ r, cross e.1 e.2 q ≤ 0

/-- Convex ring: the ring lies on one closed side of each of its edge lines, the same side for all
edges (the half-plane definition of a convex polygon; for rings in general position it says that
every triple of vertices taken in ring order turns the same way). -/
def convexRing (r : List Pt) : Prop := convexCcw r ∨ convexCw r

theorem convexCcw_iff (r : List Pt) : convexCcw r ↔ convexSgn 1 r := by
  simp only [convexCcw, convexSgn, one_mul]

theorem convexCw_iff (r : List Pt) : convexCw r ↔ convexSgn (-1) r := by
  simp only [convexCw, convexSgn, neg_mul, one_mul, Left.nonneg_neg_iff]

theorem convexRing_iff (r : List Pt) : convexRing r ↔ ∃ σ : Rat, σ * σ = 1 ∧ convexSgn σ r := by
  unfold convexRing
  rw [convexCcw_iff, convexCw_iff]
  constructor
  · rintro (h | h)
    · exact ⟨1, by ring, h⟩
    · exact ⟨-1, by ring, h⟩
  · rintro ⟨σ, hσ, h⟩
    have : (σ - 1) * (σ + 1) = 0 := by linarith [hσ]
    rcases mul_eq_zero.1 this with h' | h'
    · left; rwa [show σ = 1 by linarith] at h
    · right; rwa [show σ = -1 by linarith] at h

theorem convexSgn_reverse {σ : Rat} {r : List Pt} (h : convexSgn σ r) : convexSgn (-σ) r.reverse := by
  rintro ⟨a, b⟩ he q hq
  have := h (b, a) (mem_edges_reverse.1 he) q (List.mem_reverse.1 hq)
  simp only at this ⊢
  rw [cross_swap12 b a q]
  linarith

theorem convexRing_reverse {r : List Pt} (h : convexRing r) : convexRing r.reverse := by
  rw [convexRing_iff] at h ⊢
  obtain ⟨σ, hσ, h⟩ := h
  exact ⟨-σ, by linarith [hσ], convexSgn_reverse h⟩

/-- the σ-signed shoelace sum of a σ-convex closed ring is non-negative (fan from any vertex) -/
theorem convex_area_nonneg {σ : Rat} {r : List Pt} (hc : r.head? = r.getLast?)
    (hcv : convexSgn σ r) : 0 ≤ σ * shoelace2 r := by
  cases r with
  | nil => simp [shoelace2]
  | cons s t =>
    rw [shoelace2_eq_fan s _ hc, ← sumRat_map_mul]
    apply sumRat_map_nonneg
    intro e he
    rw [← cross_cyc]
    exact hcv e he s List.mem_cons_self

/-- … and positive as soon as one vertex is strictly on the σ-side of one edge -/
theorem convex_area_pos {σ : Rat} {r : List Pt} (hc : r.head? = r.getLast?)
    (hcv : convexSgn σ r) {a b s : Pt} (he : (a, b) ∈ edges r) (hs : s ∈ r)
    (hpos : 0 < σ * cross s a b) : 0 < σ * shoelace2 r := by
  rw [shoelace2_eq_fan s _ hc, ← sumRat_map_mul]
  apply sumRat_map_pos _ _ _ (a, b) he hpos
  intro e he'
  rw [← cross_cyc]
  exact hcv e he' s hs

end Geo.Proofs.C05L
