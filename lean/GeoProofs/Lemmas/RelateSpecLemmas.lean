/-
  Lemmas about the executable DE-9IM specification (GeoModel/RelateSpec.lean), part 1:
  the matrix as a maximum over atoms (order / repetition independent, transposed by swapping the
  atom positions).
-/
import GeoModel.RelateSpec
import Mathlib.Data.List.Perm.Basic

namespace Geo.Proofs.Spec
open Geo

/-! ### matrix cells -/

theorem transpose_get (m : IM) (a b : Pos) : m.transpose.get a b = m.get b a := by
  cases m; cases a <;> cases b <;> rfl

theorem get_set (m : IM) (a b a' b' : Pos) (d : Dim) :
    (m.set a b d).get a' b' = if a = a' ∧ b = b' then d else m.get a' b' := by
  cases m; cases a <;> cases b <;> cases a' <;> cases b' <;> simp [IM.set, IM.get]

theorem get_setAtLeast (m : IM) (a b a' b' : Pos) (d : Dim) :
    (m.setAtLeast a b d).get a' b' =
      if a = a' ∧ b = b' then (if (m.get a b).rank < d.rank then d else m.get a b) else m.get a' b' := by
  unfold IM.setAtLeast
  split
  · rw [get_set]
  · by_cases h : a = a' ∧ b = b'
    · obtain ⟨rfl, rfl⟩ := h; simp
    · simp [h]

theorem setAtLeast_transpose (m : IM) (a b : Pos) (d : Dim) :
    (m.setAtLeast a b d).transpose = m.transpose.setAtLeast b a d := by
  unfold IM.setAtLeast
  rw [transpose_get]
  split
  · cases m; cases a <;> cases b <;> rfl
  · rfl

theorem set_transpose (m : IM) (a b : Pos) (d : Dim) :
    (m.set a b d).transpose = m.transpose.set b a d := by
  cases m; cases a <;> cases b <;> rfl

/-- A matrix is determined by its nine cells. -/
theorem IM.ext_get {m m' : IM} (h : ∀ x y, m.get x y = m'.get x y) : m = m' := by
  have h1 := h .inside .inside; have h2 := h .inside .onBoundary; have h3 := h .inside .outside
  have h4 := h .onBoundary .inside; have h5 := h .onBoundary .onBoundary; have h6 := h .onBoundary .outside
  have h7 := h .outside .inside; have h8 := h .outside .onBoundary; have h9 := h .outside .outside
  cases m; cases m'
  simp only [IM.get] at h1 h2 h3 h4 h5 h6 h7 h8 h9
  subst h1 h2 h3 h4 h5 h6 h7 h8 h9
  rfl

theorem Dim.rank_inj {a b : Dim} (h : a.rank = b.rank) : a = b := by
  cases a <;> cases b <;> simp [Dim.rank] at h ⊢

theorem Dim.rank_le_zero {d : Dim} : d.rank ≤ 0 ↔ d = .empty := by
  cases d <;> simp [Dim.rank]

/-- A dimension is determined by the set of dimensions below it. -/
theorem Dim.eq_of_le_iff {a b : Dim} (h : ∀ d : Dim, d.rank ≤ a.rank ↔ d.rank ≤ b.rank) : a = b := by
  apply Dim.rank_inj
  have h1 := (h a).mp (Nat.le_refl _)
  have h2 := (h b).mpr (Nat.le_refl _)
  omega

/-! ### the fold -/

/-- The accumulation loop of `relateParts`, from an arbitrary start matrix. -/
def foldFrom (m : IM) (atoms : List Atom) : IM :=
  atoms.foldl (fun m a => m.setAtLeast a.posA a.posB a.dim) m

/-- The accumulation loop of `relateParts`. -/
def fold (atoms : List Atom) : IM := foldFrom IM.empty atoms

def swapAB (a : Atom) : Atom := ⟨a.dim, a.posB, a.posA⟩

theorem foldFrom_cons (m : IM) (a : Atom) (l : List Atom) :
    foldFrom m (a :: l) = foldFrom (m.setAtLeast a.posA a.posB a.dim) l := rfl

theorem foldFrom_get (m : IM) (atoms : List Atom) (x y : Pos) (d : Dim) :
    d.rank ≤ ((foldFrom m atoms).get x y).rank ↔
      d.rank ≤ (m.get x y).rank ∨ ∃ a ∈ atoms, a.posA = x ∧ a.posB = y ∧ d.rank ≤ a.dim.rank := by
  induction atoms generalizing m with
  | nil => simp [foldFrom]
  | cons a l ih =>
    rw [foldFrom_cons, ih, get_setAtLeast]
    by_cases hxy : a.posA = x ∧ a.posB = y
    · obtain ⟨rfl, rfl⟩ := hxy
      simp only [and_self, if_true, List.mem_cons, exists_eq_or_imp, true_and]
      by_cases hlt : (m.get a.posA a.posB).rank < a.dim.rank
      · simp only [hlt, if_true]
        constructor
        · rintro (h | h)
          · exact Or.inr (Or.inl h)
          · exact Or.inr (Or.inr h)
        · rintro (h | h | h)
          · exact Or.inl (by omega)
          · exact Or.inl h
          · exact Or.inr h
      · simp only [hlt, if_false]
        constructor
        · rintro (h | h)
          · exact Or.inl h
          · exact Or.inr (Or.inr h)
        · rintro (h | h | h)
          · exact Or.inl h
          · exact Or.inl (by omega)
          · exact Or.inr h
    · simp only [hxy, if_false, List.mem_cons, exists_eq_or_imp]
      constructor
      · rintro (h | h)
        · exact Or.inl h
        · exact Or.inr (Or.inr h)
      · rintro (h | ⟨h1, h2, _⟩ | h)
        · exact Or.inl h
        · exact absurd ⟨h1, h2⟩ hxy
        · exact Or.inr h

/-- **The matrix is the maximum over the atoms**: cell `(x, y)` is at least `d` iff `d` is `F` or
some atom located `(x, y)` has dimension at least `d`. -/
theorem fold_get (atoms : List Atom) (x y : Pos) (d : Dim) :
    d.rank ≤ ((fold atoms).get x y).rank ↔
      d = .empty ∨ ∃ a ∈ atoms, a.posA = x ∧ a.posB = y ∧ d.rank ≤ a.dim.rank := by
  unfold fold
  rw [foldFrom_get]
  have : (IM.empty.get x y).rank = 0 := by cases x <;> cases y <;> rfl
  rw [this, Dim.rank_le_zero]

/-- Two atom lists with the same set of `(dim, posA, posB)` triples give the same matrix
(order and repetition are irrelevant). -/
theorem fold_subset_congr {l l' : List Atom}
    (h : ∀ d x y, (∃ a ∈ l, a.dim = d ∧ a.posA = x ∧ a.posB = y) ↔
      (∃ a ∈ l', a.dim = d ∧ a.posA = x ∧ a.posB = y)) : fold l = fold l' := by
  apply IM.ext_get
  intro x y
  apply Dim.eq_of_le_iff
  intro d
  rw [fold_get, fold_get]
  constructor
  · rintro (h0 | ⟨a, ha, hx, hy, hd⟩)
    · exact Or.inl h0
    · obtain ⟨b, hb, h1, h2, h3⟩ := (h a.dim x y).mp ⟨a, ha, rfl, hx, hy⟩
      exact Or.inr ⟨b, hb, h2, h3, by rw [h1]; exact hd⟩
  · rintro (h0 | ⟨a, ha, hx, hy, hd⟩)
    · exact Or.inl h0
    · obtain ⟨b, hb, h1, h2, h3⟩ := (h a.dim x y).mpr ⟨a, ha, rfl, hx, hy⟩
      exact Or.inr ⟨b, hb, h2, h3, by rw [h1]; exact hd⟩

theorem fold_mem_congr {l l' : List Atom} (h : ∀ a, a ∈ l ↔ a ∈ l') : fold l = fold l' := by
  apply fold_subset_congr
  intro d x y
  constructor
  · rintro ⟨a, ha, e⟩; exact ⟨a, (h a).mp ha, e⟩
  · rintro ⟨a, ha, e⟩; exact ⟨a, (h a).mpr ha, e⟩

/-- Permutation invariance of the matrix. -/
theorem fold_perm {l l' : List Atom} (h : l.Perm l') : fold l = fold l' :=
  fold_mem_congr (fun _ => h.mem_iff)

theorem foldFrom_swap (m : IM) (atoms : List Atom) :
    foldFrom m.transpose (atoms.map swapAB) = (foldFrom m atoms).transpose := by
  induction atoms generalizing m with
  | nil => rfl
  | cons a l ih =>
    rw [List.map_cons, foldFrom_cons, foldFrom_cons, ← ih, setAtLeast_transpose]
    rfl

/-- Swapping the two positions of every atom transposes the matrix. -/
theorem fold_swap (atoms : List Atom) : fold (atoms.map swapAB) = (fold atoms).transpose := by
  unfold fold
  rw [← foldFrom_swap]
  rfl

theorem swapAB_swapAB (a : Atom) : swapAB (swapAB a) = a := rfl

end Geo.Proofs.Spec
