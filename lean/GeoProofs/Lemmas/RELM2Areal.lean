/-
  RELM2 — the nodes of the self-noded graph of an areal operand (Polygon, MultiPolygon, Rect,
  Triangle): every node is labelled `OnBoundary` in the operand's own slot and lies on a ring of
  the operand (a ring start inserted by `add_polygon_ring`, or an intersection recorded by
  self-noding — a valid record of its edge, RELMOrder5 — inserted by
  `add_self_intersection_node`, which for a boundary edge either finds a boundary node or makes
  one).  Exact arithmetic (the records are valid there).
-/
import GeoProofs.Lemmas.RELM2Node
import GeoProofs.Lemmas.RELMOrder5

namespace Geo.Proofs.RELM2
open Geo Geo.GG Geo.RI Geo.Proofs.Spec Geo.Proofs.RELM Geo.Proofs.Kernel

/-! ### points of a ring -/

/-- `c` lies on the ring `r` as the specification sees it: on one of its segments, or the ring is
the single coordinate `c` -/
def OnRing (r : List Pt) (c : Pt) : Prop := onAnySeg c (segs r) = true ∨ r = [c]

/-- `c` lies on one of the rings -/
def OnRings (rings : List (List Pt)) (c : Pt) : Prop := ∃ r ∈ rings, OnRing r c

theorem onAnySeg_of_mem_segs {c a b : Pt} {ss : List (Pt × Pt)} (h : (a, b) ∈ ss) (hc : SegMem c a b) :
    onAnySeg c ss = true := by
  unfold onAnySeg
  rw [List.any_eq_true]
  exact ⟨(a, b), h, (lineCoord_iff a b c).2 hc⟩

theorem onAnySeg_of_mem : ∀ (r : List Pt) (c : Pt), c ∈ r → 2 ≤ r.length → onAnySeg c (segs r) = true
  | [], _, h, _ => by cases h
  | [_], _, _, h => by simp at h
  | a :: b :: rest, c, h, _ => by
      rcases List.mem_cons.1 h with rfl | h
      · exact onAnySeg_of_mem_segs (List.mem_cons_self ..) (SegMem_left _ _)
      · cases rest with
        | nil =>
          have : c = b := by simpa using h
          subst this
          exact onAnySeg_of_mem_segs (List.mem_cons_self ..) (SegMem_right _ _)
        | cons d rest =>
          have := onAnySeg_of_mem (b :: d :: rest) c h (by simp)
          unfold onAnySeg at this ⊢
          rw [List.any_eq_true] at this ⊢
          obtain ⟨s, hs, hl⟩ := this
          exact ⟨s, List.mem_cons_of_mem _ hs, hl⟩

theorem mem_of_mem_dedupFrom (prev : Pt) : ∀ (l : List Pt) (c : Pt), c ∈ dedupFrom prev l → c ∈ l
  | [], _, h => by cases h
  | x :: rest, c, h => by
      simp only [dedupFrom] at h
      split at h
      · exact List.mem_cons_of_mem _ (mem_of_mem_dedupFrom prev rest c h)
      · rcases List.mem_cons.1 h with rfl | h
        · exact List.mem_cons_self ..
        · exact List.mem_cons_of_mem _ (mem_of_mem_dedupFrom x rest c h)

theorem mem_of_mem_dedup (l : List Pt) (c : Pt) (h : c ∈ dedup l) : c ∈ l := by
  cases l with
  | nil => cases h
  | cons x rest =>
    simp only [dedup] at h
    rcases List.mem_cons.1 h with rfl | h
    · exact List.mem_cons_self ..
    · exact List.mem_cons_of_mem _ (mem_of_mem_dedupFrom x rest c h)

theorem segs_dedupFrom_sub (s : Pt × Pt) : ∀ (l : List Pt) (prev : Pt),
    s ∈ segs (prev :: dedupFrom prev l) → s ∈ segs (prev :: l)
  | [], _, h => by simpa [dedupFrom] using h
  | x :: rest, prev, h => by
      simp only [dedupFrom] at h
      split at h
      · rename_i hx
        have := segs_dedupFrom_sub s rest prev h
        subst hx
        simp only [segs, List.mem_cons]
        exact Or.inr this
      · simp only [segs, List.mem_cons] at h ⊢
        rcases h with h | h
        · exact Or.inl h
        · exact Or.inr (segs_dedupFrom_sub s rest x h)

theorem segs_dedup_sub (s : Pt × Pt) (l : List Pt) (h : s ∈ segs (dedup l)) : s ∈ segs l := by
  cases l with
  | nil => simpa [dedup] using h
  | cons x rest => exact segs_dedupFrom_sub s rest x h

theorem mem_segs_of_getElem? : ∀ (cs : List Pt) (k : Nat) (a b : Pt),
    cs[k]? = some a → cs[k + 1]? = some b → (a, b) ∈ segs cs
  | [], _, _, _, h, _ => by simp at h
  | [_], k, _, _, _, h => by simp at h
  | x :: y :: rest, 0, a, b, h1, h2 => by
      simp only [List.getElem?_cons_zero, Option.some.injEq] at h1
      simp only [List.getElem?_cons_succ, List.getElem?_cons_zero, Option.some.injEq] at h2
      subst h1 h2
      exact List.mem_cons_self ..
  | x :: y :: rest, k + 1, a, b, h1, h2 => by
      simp only [List.getElem?_cons_succ] at h1 h2
      exact List.mem_cons_of_mem _ (mem_segs_of_getElem? (y :: rest) k a b h1 h2)

/-- a valid record of the edge of a ring lies on the ring -/
theorem onRing_of_validRec {r : List Pt} {rec : EI} (h : ValidRec (dedup r) rec) : OnRing r rec.coord := by
  rcases h with ⟨_, hv⟩ | ⟨_, a, b, ha, hb, hm, _, _⟩
  · have hmem : rec.coord ∈ r := mem_of_mem_dedup r _ (List.mem_of_getElem? hv)
    by_cases hl : 2 ≤ r.length
    · exact Or.inl (onAnySeg_of_mem r _ hmem hl)
    · right
      match r, hmem, hl with
      | [x], hmem, _ =>
        have : rec.coord = x := by simpa using hmem
        rw [this]
      | _ :: _ :: _, _, hl => simp at hl
  · exact Or.inl (onAnySeg_of_mem_segs (segs_dedup_sub _ r (mem_segs_of_getElem? _ _ a b ha hb)) hm)

/-! ### the node invariant -/

/-- every node is `OnBoundary` in slot `idx` and satisfies `R` -/
def NodesB (idx : Nat) (R : Pt → Prop) (ns : List Node) : Prop :=
  ∀ n ∈ ns, n.label.onPos idx = some .onBoundary ∧ R n.coord

theorem nodesB_insertPoint {idx : Nat} {R : Pt → Prop} {G : Graph} (h : NodesB idx R G.nodes) {c : Pt} (hc : R c) :
    NodesB idx R (insertPoint idx c .onBoundary G).nodes := by
  unfold insertPoint
  exact upsertNode_forall (P := fun n => n.label.onPos idx = some .onBoundary ∧ R n.coord) c _ G.nodes h
    (fun n hn _ => ⟨Geo.Proofs.C17L.onPos_setOn _ _ _, hn.2⟩) ⟨Geo.Proofs.C17L.onPos_setOn _ _ _, hc⟩

theorem upsertNode_of_findNode_none (c : Pt) (f : Label → Label) : ∀ (ns : List Node), findNode c ns = none →
    upsertNode c f ns = ns ++ [⟨c, f Label.emptyLine⟩]
  | [], _ => rfl
  | n :: ns, h => by
      simp only [findNode] at h
      split at h
      · cases h
      · rename_i hn
        simp only [upsertNode, if_neg hn, List.cons_append, upsertNode_of_findNode_none c f ns h]

theorem nodesB_addSelfIntersectionNode {idx : Nat} {R : Pt → Prop} {G : Graph} (h : NodesB idx R G.nodes)
    {c : Pt} (hc : R c) : NodesB idx R (addSelfIntersectionNode idx c .onBoundary G).nodes := by
  unfold addSelfIntersectionNode
  split
  · exact h
  · rename_i hb
    have hnone : findNode c G.nodes = none := by
      cases hf : findNode c G.nodes with
      | none => rfl
      | some n =>
        exfalso
        apply hb
        unfold isBoundaryNode
        rw [hf]
        simp only [(h n (findNode_mem hf).1).1, beq_self_eq_true]
    split
    · unfold insertBoundaryPoint
      simp only
      rw [upsertNode_of_findNode_none c _ _ hnone]
      intro n hn
      rcases List.mem_append.1 hn with hn | hn
      · exact h n hn
      · simp only [List.mem_singleton] at hn
        subst hn
        refine ⟨?_, hc⟩
        rw [Geo.Proofs.C17L.onPos_boundaryUpdate, Geo.Proofs.C17L.onPos_emptyLine]
        rfl
    · exact nodesB_insertPoint h hc

theorem nodesB_addSelfIntersectionCoords {idx : Nat} {R : Pt → Prop} : ∀ (cs : List Pt) {G : Graph},
    NodesB idx R G.nodes → (∀ c ∈ cs, R c) → NodesB idx R (addSelfIntersectionCoords idx .onBoundary cs G).nodes
  | [], _, h, _ => h
  | c :: cs, _, h, hc =>
      nodesB_addSelfIntersectionCoords cs (nodesB_addSelfIntersectionNode h (hc c (List.mem_cons_self ..)))
        (fun x hx => hc x (List.mem_cons_of_mem _ hx))

theorem nodesB_addSelfIntersectionItems {idx : Nat} {R : Pt → Prop} :
    ∀ (items : List (Option Pos × List Pt)) {G : Graph}, NodesB idx R G.nodes →
      (∀ it ∈ items, it.1 = some .onBoundary ∧ ∀ c ∈ it.2, R c) →
      NodesB idx R (addSelfIntersectionItems idx items G).nodes
  | [], _, h, _ => h
  | (none, _) :: rest, _, h, hi =>
      nodesB_addSelfIntersectionItems rest h (fun it hit => hi it (List.mem_cons_of_mem _ hit))
  | (some p, cs) :: rest, G, h, hi => by
      have h0 := hi (some p, cs) (List.mem_cons_self ..)
      have hp : p = .onBoundary := Option.some.inj h0.1
      subst hp
      exact nodesB_addSelfIntersectionItems rest (nodesB_addSelfIntersectionCoords cs h h0.2)
        (fun it hit => hi it (List.mem_cons_of_mem _ hit))

/-! ### the built graph of an areal operand -/

/-- nodes on the rings and labelled boundary; edges are ring edges, labelled boundary -/
structure AInv (idx : Nat) (rings : List (List Pt)) (G : Graph) : Prop where
  nodes : NodesB idx (OnRings rings) G.nodes
  edges : ∀ e ∈ G.edges, e.label.onPos idx = some .onBoundary ∧ ∃ r ∈ rings, e.coords = dedup r

theorem ainv_mono {idx : Nat} {rings rings' : List (List Pt)} {G : Graph} (hs : ∀ r ∈ rings, r ∈ rings')
    (h : AInv idx rings G) : AInv idx rings' G :=
  ⟨fun n hn => ⟨(h.nodes n hn).1, by obtain ⟨r, hr, ho⟩ := (h.nodes n hn).2; exact ⟨r, hs r hr, ho⟩⟩,
   fun e he => ⟨(h.edges e he).1, by obtain ⟨r, hr, ho⟩ := (h.edges e he).2; exact ⟨r, hs r hr, ho⟩⟩⟩

theorem onPos_new_area (idx : Nat) (o l r : Option Pos) : (Label.new idx (.area o l r)).onPos idx = o := by
  unfold Label.new Label.emptyArea Label.set Label.onPos Label.get
  by_cases h : idx = 0 <;> simp [h, TopoPos.on]

theorem onRing_head {r : List Pt} {f : Pt} {rest : List Pt} (h : dedup r = f :: rest) : OnRing r f := by
  have hmem : f ∈ r := mem_of_mem_dedup r f (by rw [h]; exact List.mem_cons_self ..)
  by_cases hl : 2 ≤ r.length
  · exact Or.inl (onAnySeg_of_mem r f hmem hl)
  · right
    match r, hmem, hl with
    | [x], hmem, _ =>
      have : f = x := by simpa using hmem
      rw [this]
    | _ :: _ :: _, _, hl => simp at hl

theorem ainv_addPolygonRing {idx : Nat} {rings : List (List Pt)} {G : Graph} (h : AInv idx rings G)
    (ring : List Pt) (hr : ring ∈ rings) (cl cr : Pos) : AInv idx rings (addPolygonRing idx ring cl cr G) := by
  unfold addPolygonRing
  split
  · exact h
  · rename_i first rest hd
    refine ⟨?_, ?_⟩
    · exact nodesB_insertPoint (G := insertEdge (GG.ringEdge idx ring cl cr) G) h.nodes ⟨ring, hr, onRing_head hd⟩
    · intro e he
      have he' : e ∈ G.edges ++ [GG.ringEdge idx ring cl cr] := he
      rcases List.mem_append.1 he' with he' | he'
      · exact h.edges e he'
      · simp only [List.mem_singleton] at he'
        subst he'
        exact ⟨onPos_new_area idx _ _ _, ring, hr, rfl⟩

theorem ainv_addHoles {idx : Nat} {rings : List (List Pt)} : ∀ (hs : List (List Pt)) {G : Graph}, AInv idx rings G →
    (∀ r ∈ hs, r ∈ rings) → AInv idx rings (addHoles idx hs G)
  | [], _, h, _ => h
  | r :: hs, _, h, hr =>
      ainv_addHoles hs (ainv_addPolygonRing h r (hr r (List.mem_cons_self ..)) _ _)
        (fun x hx => hr x (List.mem_cons_of_mem _ hx))

theorem ainv_addPolygon {idx : Nat} {rings : List (List Pt)} {G : Graph} (h : AInv idx rings G) (q : Poly)
    (hq : ∀ r ∈ q.rings, r ∈ rings) : AInv idx rings (addPolygon idx q G) :=
  ainv_addHoles q.ints (ainv_addPolygonRing h q.ext (hq _ (List.mem_cons_self ..)) _ _)
    (fun r hr => hq r (List.mem_cons_of_mem _ hr))

theorem ainv_addPolygons {idx : Nat} {rings : List (List Pt)} : ∀ (ps : List Poly) {G : Graph}, AInv idx rings G →
    (∀ q ∈ ps, ∀ r ∈ q.rings, r ∈ rings) → AInv idx rings (addPolygons idx ps G)
  | [], _, h, _ => h
  | q :: ps, _, h, hq =>
      ainv_addPolygons ps (ainv_addPolygon h q (hq q (List.mem_cons_self ..)))
        (fun x hx => hq x (List.mem_cons_of_mem _ hx))

theorem ainv_empty (idx : Nat) (rings : List (List Pt)) : AInv idx rings Graph.empty :=
  ⟨fun n hn => (by cases hn), fun e he => (by cases he)⟩

/-- the rings of an areal operand, as the specification lists them -/
def ringsOf (g : Geom) : List (List Pt) := (parts g).areas.flatMap Poly.rings

/-- Polygon, MultiPolygon, Rect, Triangle -/
def isAreal : Geom → Bool
  | .polygon _ => true
  | .multiPolygon _ => true
  | .rect _ _ => true
  | .triangle _ _ _ => true
  | _ => false

theorem ainv_buildGraph (idx : Nat) (g : Geom) (ha : isAreal g = true) : AInv idx (ringsOf g) (buildGraph idx g) := by
  unfold buildGraph
  cases g with
  | polygon q =>
    simp only [addGeometry]
    split
    · exact ainv_empty _ _
    · exact ainv_addPolygon (ainv_empty _ _) q (fun r hr => by simpa [ringsOf, parts] using hr)
  | multiPolygon ps =>
    simp only [addGeometry]
    split
    · exact ainv_empty _ _
    · apply ainv_addPolygons ps (G := { Graph.empty with useRule := false }) ⟨fun n hn => (by cases hn), fun e he => (by cases he)⟩
      intro q hq r hr
      simp only [ringsOf, parts, List.mem_flatMap]
      exact ⟨q, hq, hr⟩
  | rect mn mx =>
    simp only [addGeometry]
    exact ainv_addPolygon (ainv_empty _ _) _ (fun r hr => by
      simp only [ringsOf, parts, List.flatMap_cons, List.flatMap_nil, List.append_nil]
      exact hr)
  | triangle a b c =>
    simp only [addGeometry]
    exact ainv_addPolygon (ainv_empty _ _) _ (fun r hr => by
      simp only [ringsOf, parts, List.flatMap_cons, List.flatMap_nil, List.append_nil]
      exact hr)
  | point _ => cases ha
  | line _ _ => cases ha
  | lineString _ => cases ha
  | multiPoint _ => cases ha
  | multiLineString _ => cases ha
  | collection _ => cases ha

/-- a self-noded edge is an edge of the built graph with intersections added -/
theorem fresh_edge_built (ar : Arith) (idx : Nat) (g : Geom) {e : REdge} (he : e ∈ (freshGraph ar idx g).edges) :
    toEdge e ∈ (buildGraph idx g).edges := by
  rw [fresh_edges] at he
  have := List.mem_map_of_mem (f := toEdge) he
  rwa [selfIntersections_toEdge, map_toEdge_ofEdge] at this

/-- **the nodes of the self-noded graph of an areal operand are boundary nodes on its rings** -/
theorem fresh_nodes_areal (idx : Nat) (g : Geom) (ha : isAreal g = true) :
    NodesB idx (OnRings (ringsOf g)) (freshGraph Arith.exact idx g).nodes := by
  rw [fresh_nodes]
  have hb := ainv_buildGraph idx g ha
  apply nodesB_addSelfIntersectionItems (G := selfNodeBase Arith.exact idx g) _ hb.nodes
  intro it hit
  obtain ⟨e, he, rfl⟩ := List.mem_map.1 hit
  have hbe := hb.edges _ (fresh_edge_built _ idx g he)
  refine ⟨hbe.1, ?_⟩
  intro c hc
  obtain ⟨rec, hrec, rfl⟩ := List.mem_map.1 hc
  obtain ⟨r, hr, hcoords⟩ := hbe.2
  have hv := (freshGraph_wf idx g e he).2 rec hrec
  have hcoords' : e.coords = dedup r := hcoords
  rw [hcoords'] at hv
  exact ⟨r, hr, onRing_of_validRec hv⟩

theorem fresh_edges_onPos_areal (ar : Arith) (idx : Nat) (g : Geom) (ha : isAreal g = true) :
    ∀ e ∈ (freshGraph ar idx g).edges, (e.label.onPos idx).isSome := by
  intro e he
  have := ((ainv_buildGraph idx g ha).edges _ (fresh_edge_built ar idx g he)).1
  have h' : e.label.onPos idx = some .onBoundary := this
  rw [h']; rfl

end Geo.Proofs.RELM2
