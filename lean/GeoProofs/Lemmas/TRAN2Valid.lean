/-
  Translator tie for geo/src/algorithm/validation/utils.rs: `check_coord_is_not_finite`, `check_too_few_points`,
  `chained_lines_overlap` and `linestring_has_self_intersection` (on finite coordinates) of the hand-written model
  `GeoModel/Validation.lean` equal the terms regenerated from the Rust bodies (`GeoModel/Gen/ValidGen.lean`).
-/
import GeoModel.Validation
import GeoModel.Gen.ValidGen
import GeoProofs.Lemmas.GenKernel

namespace Geo.Proofs.TRAN2Valid
open Geo Geo.V

theorem notFinite_eq (c : XPt) : Gen.checkCoordIsNotFinite c = notFinite c := rfl

theorem tooFew_eq (r : XRing) (b : Bool) : Gen.checkTooFewPoints r b = tooFew r b := by
  unfold Gen.checkTooFewPoints tooFew
  cases b <;> simp

theorem chainedOverlap_eq (l o : Pt × Pt) : Gen.chainedLinesOverlap l o = chainedOverlap l o := by
  unfold Gen.chainedLinesOverlap chainedOverlap sameSide
  by_cases h1 : (l.1 == l.2 || o.1 == o.2) = true
  · simp only [h1, if_true]
  · by_cases h2 : (l.2 == o.1) = true <;> simp only [h1, h2, if_true, if_false, Bool.false_eq_true]

/-- a loop without state whose body returns `true` on the elements satisfying `p` and falls through otherwise -/
theorem loop_any {α : Type} (body : α → Unit → Gen.Step Unit Bool) (p : α → Bool)
    (h : ∀ x, body x () = if p x then .ret true else .next ()) :
    ∀ l : List α, Gen.loop l body () = if l.any p then .ret true else .next () := by
  intro l
  induction l with
  | nil => rfl
  | cons x xs ih =>
    simp only [Gen.loop, h, List.any_cons]
    by_cases hp : p x = true
    · simp [hp]
    · simp only [hp, Bool.false_eq_true, if_false, Bool.false_or]
      exact ih

theorem hasSelfIntersection_eq (r : List Pt) : Gen.linestringHasSelfIntersection r = hasSelfIntersection r := by
  unfold Gen.linestringHasSelfIntersection hasSelfIntersection
  rw [loop_any _ (fun e1 => (Gen.enumerate (segs r)).any (fun e3 => e1.1 != e3.1 && pairBad e1.2 e3.2))]
  · simp only [Gen.enumerate, List.any_map, Function.comp_def]
    by_cases h : ((segs r).zipIdx.any fun li => (segs r).zipIdx.any fun oj => li.2 != oj.2 && pairBad li.1 oj.1) = true
    · simp [h]
    · simp [h]
  · intro e1
    dsimp only
    rw [loop_any _ (fun e3 => e1.1 != e3.1 && pairBad e1.2 e3.2)]
    · by_cases h : ((Gen.enumerate (segs r)).any fun e3 => e1.1 != e3.1 && pairBad e1.2 e3.2) = true
      · simp [h]
      · simp [h]
    · intro e3
      simp only [pairBad, chainedOverlap_eq, ← Geo.Proofs.GenKernel.lineLine_eq]
      by_cases h1 : (e1.1 != e3.1) = true <;> by_cases h2 : lineLine e1.2.1 e1.2.2 e3.2.1 e3.2.2 = true <;>
        by_cases h3 : (e1.2.1 != e3.2.2 && e1.2.2 != e3.2.1) = true <;> by_cases h4 : chainedOverlap e1.2 e3.2 = true <;>
        simp [h1, h2, h3, h4]

end Geo.Proofs.TRAN2Valid
