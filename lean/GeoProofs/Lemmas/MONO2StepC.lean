/-
  MONO2 (C10, builder of the monotone pieces), part C of the step lemmas: `startOutgoing` (step 4) and `tieUp`
  (step 5) of `process_next_pt` keep every chain increasing with all coordinates but the last at or before the
  current point.
-/
import GeoProofs.Lemmas.MONO2StepB

namespace Geo.Proofs.MONO2
open Geo Geo.Mono Geo.MonoBuild Geo.Proofs.C10 Geo.Proofs.MONO

/-- the segments starting at `pt`: left end `pt`, right end after it -/
def OutOk (pt : Pt) (st : St) (l : List Nat) : Prop :=
  ∀ o ∈ l, ∃ ln, st.lineOf o = some ln ∧ ln.left = pt ∧ lexLt pt ln.right = true

theorem OutOk.same {pt : Pt} {st st' : St} {l : List Nat} (h : OutOk pt st l) (hs : SameLines st st') :
    OutOk pt st' l := by
  intro o ho
  obtain ⟨ln, a, b, c⟩ := h o ho
  exact ⟨ln, lineOf_same hs a, b, c⟩

theorem rightOf_out {pt : Pt} {st : St} {l : List Nat} (h : OutOk pt st l) {o : Nat} (ho : o ∈ l) {r : Pt}
    (hr : st.rightOf o = some r) : lexLt pt r = true := by
  obtain ⟨ln, a, _, c⟩ := h o ho
  unfold St.rightOf at hr
  rw [a] at hr
  simp only [Option.map_some, Option.some.injEq] at hr
  rw [← hr]; exact c

/-- slots below `n` keep the strict invariant -/
def CBn (pt : Pt) (n : Nat) (st : St) : Prop :=
  ∀ k, k < n → ∀ c, chainAt st k = some c → ∀ q ∈ c.dropLast, lexLt q pt = true

theorem chainAt_append_lt (st : St) (ext : List ChainSlot) (k : Nat) (hk : k < st.chains.length) :
    chainAt { st with chains := st.chains ++ ext } k = chainAt st k := by
  unfold chainAt
  simp only
  rw [List.getElem?_append_left hk]

theorem pair_cw {pt r : Pt} (hr : lexLt pt r = true) :
    lexSorted [pt, r] = true ∧ 2 ≤ [pt, r].length ∧ ∀ q ∈ [pt, r].dropLast, lexLt pt q = false := by
  refine ⟨by simp [lexSorted, hr], by simp, ?_⟩
  intro q hq
  have hq' : q = pt := by simpa using hq
  rw [hq']; exact lexLt_irrefl _

/-- the two slots appended after the live ones -/
theorem chainAt_append_two (st : St) (a b : List Pt) (k : Nat) (c : List Pt)
    (h : chainAt { st with chains := st.chains ++ [some a, some b] } k = some c) :
    (k < st.chains.length ∧ chainAt st k = some c) ∨ c = a ∨ c = b := by
  by_cases hk : k < st.chains.length
  · rw [chainAt_append_lt _ _ _ hk] at h; exact Or.inl ⟨hk, h⟩
  · right
    have h' := chainAt_eq.1 h
    simp only at h'
    rw [List.getElem?_append_right (by omega)] at h'
    match hm : k - st.chains.length, h' with
    | 0, h' => simp at h'; exact Or.inl h'.symm
    | 1, h' => simp at h'; exact Or.inr h'.symm
    | n + 2, h' => simp at h'

/-! ### Step 4 -/

theorem startOutgoing_spec (pt : Pt) : ∀ (l : List Nat) (st st' : St), OutOk pt st l → CW pt st →
    startOutgoing pt l st = some st' →
    CW pt st' ∧ (∀ k, k < st.chains.length → chainAt st' k = chainAt st k) ∧
      st.chains.length ≤ st'.chains.length ∧ st'.outputs = st.outputs
  | [], st, st', _, hcw, h => by
    simp only [startOutgoing] at h; cases h
    exact ⟨hcw, fun _ _ => rfl, Nat.le_refl _, rfl⟩
  | [_], st, st', _, _, h => by
    simp only [startOutgoing] at h; cases h
  | first :: second :: rest, st, st', ho, hcw, h => by
    simp only [startOutgoing] at h
    osplit h
    rename_i bot top hb ht
    have lb := rightOf_out ho (by simp) hb
    have lt := rightOf_out ho (by simp) ht
    osplit h
    rename_i st1 e1
    osplit h
    rename_i st2 e2
    have hcw0 : CW pt { st with chains := st.chains ++ [some [pt, bot], some [pt, top]] } := by
      intro k c hc
      rcases chainAt_append_two st _ _ k c hc with g | g | g
      · exact hcw k c g.2
      · rw [g]; exact pair_cw lb
      · rw [g]; exact pair_cw lt
    have c1 : ∀ k, chainAt st1 k = chainAt { st with chains := st.chains ++ [some [pt, bot], some [pt, top]] } k :=
      setInfo_chainAt e1
    have c2 : ∀ k, chainAt st2 k = chainAt st1 k := setInfo_chainAt e2
    have hcw2 : CW pt st2 := by
      intro k c hc
      rw [c2, c1] at hc
      exact hcw0 k c hc
    have q1 := setInfo_same e1
    have q2 := setInfo_same e2
    have sl : SameLines st st2 :=
      (SameLines.trans (sameLines_of_segs (st := st)
        (st' := { st with chains := st.chains ++ [some [pt, bot], some [pt, top]] }) rfl) q1.1).trans q2.1
    have ho2 : OutOk pt st2 rest := by
      have := ho.same sl
      intro o hor
      exact this o (by simp [hor])
    obtain ⟨r1, r2, r3, r4⟩ := startOutgoing_spec pt rest st2 st' ho2 hcw2 h
    obtain ⟨_, _, e1'⟩ := setInfo_eq e1
    obtain ⟨_, _, e2'⟩ := setInfo_eq e2
    have len2 : st2.chains.length = st.chains.length + 2 := by
      rw [e2', e1']; simp
    have out2 : st2.outputs = st.outputs := by
      rw [e2', e1']
    refine ⟨r1, ?_, by omega, by rw [r4, out2]⟩
    intro k hk
    rw [r2 k (by omega), c2, c1, chainAt_append_lt _ _ _ hk]

/-! ### Step 5 -/

theorem swapAtTop_shape {c s n0 n1 : List Pt} {pt : Pt} (h : swapAtTop c pt = some (s, n0, n1)) :
    ∃ prev top, c.getLast? = some top ∧ c.dropLast.getLast? = some prev ∧ s = [prev, top] ∧
      ((n0 = c.dropLast ++ [pt] ∧ n1 = [prev, pt]) ∨ (n0 = [prev, pt] ∧ n1 = c.dropLast ++ [pt])) := by
  unfold swapAtTop at h
  osplit h
  rename_i top htop
  simp only at h
  osplit h
  rename_i prev hprev
  split at h
  · simp only [Option.some.injEq, Prod.mk.injEq] at h
    exact ⟨prev, top, htop, hprev, h.1.symm, Or.inl ⟨h.2.1.symm, h.2.2.symm⟩⟩
  · simp only [Option.some.injEq, Prod.mk.injEq] at h
    exact ⟨prev, top, htop, hprev, h.1.symm, Or.inr ⟨h.2.1.symm, h.2.2.symm⟩⟩

/-- a chain ending at `pt` with everything before it strictly before `pt`, extended by a later coordinate -/
theorem ext_cw {pt r : Pt} {b : List Pt} (hs : lexSorted (b ++ [pt]) = true) (hb : ∀ q ∈ b, lexLt q pt = true)
    (hne : b ≠ []) (hr : lexLt pt r = true) :
    lexSorted (b ++ [pt] ++ [r]) = true ∧ 2 ≤ (b ++ [pt] ++ [r]).length ∧
      ∀ q ∈ (b ++ [pt] ++ [r]).dropLast, lexLt pt q = false := by
  refine ⟨lexSorted_append _ r hs (fun t ht => by simp at ht; rw [← ht]; exact hr), by simp, ?_⟩
  rw [dropLast_concat']
  intro q hq
  rcases List.mem_append.1 hq with g | g
  · exact lexLt_asymm (hb q g)
  · simp only [List.mem_singleton] at g; rw [g]; exact lexLt_irrefl _

theorem setHelper_chainAt {bot : Option Nat} {idx : Nat} {st st' : St} (h : setHelper bot idx st = some st')
    (k : Nat) : chainAt st' k = chainAt st k ∧ st'.outputs = st.outputs := by
  unfold setHelper at h
  split at h
  · obtain ⟨_, _, e⟩ := setInfo_eq h
    subst e; exact ⟨rfl, rfl⟩
  · cases h; exact ⟨rfl, rfl⟩

theorem setInfo_outputs' {st st' : St} {i : Nat} {f : Info → Info} (h : st.setInfo i f = some st') :
    st'.outputs = st.outputs := by
  obtain ⟨_, _, e⟩ := setInfo_eq h
  subst e; rfl

theorem setInfo_other {st st' : St} {i j : Nat} {f : Info → Info} (h : st.setInfo i f = some st') (hj : j ≠ i) :
    st'.segs[j]? = st.segs[j]? := by
  obtain ⟨_, _, e⟩ := setInfo_eq h
  subst e
  simp only
  rw [List.getElem?_set_ne (Ne.symm hj)]

theorem reduceIncoming_other (pt : Pt) : ∀ (l : List Nat) (st st' : St), reduceIncoming pt l st = some st' →
    ∀ j, j ∉ l → st'.segs[j]? = st.segs[j]?
  | [], st, st', h, _, _ => by simp only [reduceIncoming] at h; cases h; rfl
  | [_], st, st', h, _, _ => by simp only [reduceIncoming] at h; cases h
  | first :: second :: rest, st, st', h, j, hj => by
    simp only [reduceIncoming] at h
    have hjf : j ≠ first := fun e => hj (by simp [e])
    have hjr : j ∉ rest := fun e => hj (by simp [e])
    osplit h
    osplit h
    rename_i fc st1 h1
    obtain ⟨_, g1, _, _⟩ := takeChain_sub h1
    osplit h
    rename_i sc st2 h2
    obtain ⟨_, g2, _, _⟩ := takeChain_sub h2
    osplit h
    · osplit h
      rename_i st3 h3
      have g3 := setInfo_other h3 hjf
      osplit h
      rename_i fhc st4 h4
      obtain ⟨_, g4, _, _⟩ := takeChain_sub h4
      osplit h
      rename_i shc st5 h5
      obtain ⟨_, g5, _, _⟩ := takeChain_sub h5
      osplit h
      have := reduceIncoming_other pt rest _ _ h j hjr
      rw [this]
      show st5.segs[j]? = st.segs[j]?
      rw [g5, g4, g3, g2, g1]
    · osplit h
      have := reduceIncoming_other pt rest _ _ h j hjr
      rw [this]
      show st2.segs[j]? = st.segs[j]?
      rw [g2, g1]

theorem startOutgoing_other (pt : Pt) : ∀ (l : List Nat) (st st' : St), startOutgoing pt l st = some st' →
    ∀ j, j ∉ l → st'.segs[j]? = st.segs[j]?
  | [], st, st', h, _, _ => by simp only [startOutgoing] at h; cases h; rfl
  | [_], st, st', h, _, _ => by simp only [startOutgoing] at h; cases h
  | first :: second :: rest, st, st', h, j, hj => by
    simp only [startOutgoing] at h
    have hjf : j ≠ first := fun e => hj (by simp [e])
    have hjs : j ≠ second := fun e => hj (by simp [e])
    have hjr : j ∉ rest := fun e => hj (by simp [e])
    osplit h
    osplit h
    rename_i st1 e1
    osplit h
    rename_i st2 e2
    rw [startOutgoing_other pt rest _ _ h j hjr, setInfo_other e2 hjs, setInfo_other e1 hjf]

theorem cw_congr {pt : Pt} {st st' : St} (h : CW pt st) (hc : ∀ k, chainAt st' k = chainAt st k) : CW pt st' := by
  intro k c hk; rw [hc] at hk; exact h k c hk

theorem tieUp_spec {pt : Pt} {bot : Option Nat} {br : Bool} {out : List Nat} {st st' : St}
    {ic : Option Nat × Option Nat} {n : Nat}
    (ho : OutOk pt st out) (hcw : CW pt st) (hcbn : CBn pt n st) (hic : IcOk pt n st ic)
    (hhelper : ic.1 = none → ∀ b bi, bot = some b → st.infoOf b = some bi → bi.helperChain.getD bi.chainIdx < n)
    (h : tieUp pt bot br out st ic = some st') : CW pt st' ∧ st'.outputs = st.outputs := by
  unfold tieUp at h
  split at h
  · -- (none, none)
    osplit h
    · cases h; exact ⟨hcw, rfl⟩
    · rename_i first second
      osplit h
      rename_i b
      osplit h
      rename_i bi r1 r2 hbi hr1 hr2
      have l1 := rightOf_out ho (by simp) hr1
      have l2 := rightOf_out ho (by simp) hr2
      simp only at h
      osplit h
      rename_i c hc
      have hca : chainAt st (bi.helperChain.getD bi.chainIdx) = some c := chainAt_eq.2 hc
      have hidx := hhelper rfl b bi rfl hbi
      obtain ⟨s1, s2, s3⟩ := hcw _ c hca
      have hbody := hcbn _ hidx c hca
      osplit h
      rename_i self' n0 n1 hsw
      obtain ⟨prev, top, htop, hprev, hself, hn⟩ := swapAtTop_shape hsw
      have hpm : prev ∈ c.dropLast := List.mem_of_getLast? hprev
      have hb : ∀ t, c.dropLast.getLast? = some t → lexLt t pt = true :=
        fun t ht => hbody t (List.mem_of_getLast? ht)
      obtain ⟨w1, _, _, _, _⟩ := swapAtTop_sorted hsw s1 hb
      -- the three chains
      have g1 : lexSorted self' = true ∧ 2 ≤ self'.length ∧ ∀ q ∈ self'.dropLast, lexLt pt q = false := by
        refine ⟨w1, by rw [hself]; simp, ?_⟩
        rw [hself]
        intro q hq
        have hq' : q = prev := by simpa using hq
        rw [hq']; exact lexLt_asymm (hbody prev hpm)
      have hdne : c.dropLast ≠ [] := List.ne_nil_of_mem hpm
      have gA : ∀ r, lexLt pt r = true →
          lexSorted (c.dropLast ++ [pt] ++ [r]) = true ∧ 2 ≤ (c.dropLast ++ [pt] ++ [r]).length ∧
            ∀ q ∈ (c.dropLast ++ [pt] ++ [r]).dropLast, lexLt pt q = false :=
        fun r hr => ext_cw (lexSorted_append _ pt (lexSorted_dropLast c s1) hb) hbody hdne hr
      have gB : ∀ r, lexLt pt r = true →
          lexSorted ([prev, pt] ++ [r]) = true ∧ 2 ≤ ([prev, pt] ++ [r]).length ∧
            ∀ q ∈ ([prev, pt] ++ [r]).dropLast, lexLt pt q = false := by
        intro r hr
        have hpp := hbody prev hpm
        have := ext_cw (pt := pt) (r := r) (b := [prev]) (by simp [lexSorted, hpp])
          (by intro q hq; simp only [List.mem_singleton] at hq; rw [hq]; exact hpp) (by simp) hr
        simpa using this
      have gn0 : lexSorted (n0 ++ [r1]) = true ∧ 2 ≤ (n0 ++ [r1]).length ∧
          ∀ q ∈ (n0 ++ [r1]).dropLast, lexLt pt q = false := by
        rcases hn with ⟨e, _⟩ | ⟨e, _⟩ <;> rw [e]
        · exact gA r1 l1
        · exact gB r1 l1
      have gn1 : lexSorted (n1 ++ [r2]) = true ∧ 2 ≤ (n1 ++ [r2]).length ∧
          ∀ q ∈ (n1 ++ [r2]).dropLast, lexLt pt q = false := by
        rcases hn with ⟨_, e⟩ | ⟨_, e⟩ <;> rw [e]
        · exact gB r2 l2
        · exact gA r2 l2
      have hcw0 : CW pt { st with chains := st.chains.set (bi.helperChain.getD bi.chainIdx) (some self') ++
          [some (n0 ++ [r1]), some (n1 ++ [r2])] } := by
        intro k c' hc'
        have := chainAt_append_two { st with chains := st.chains.set (bi.helperChain.getD bi.chainIdx) (some self') }
          (n0 ++ [r1]) (n1 ++ [r2]) k c' hc'
        rcases this with g | g | g
        · by_cases hk : k = bi.helperChain.getD bi.chainIdx
          · have := g.2
            rw [hk, chainAt_set_some _ _ _ (chainAt_lt hca)] at this
            cases this; exact g1
          · have := g.2
            rw [chainAt_set_ne _ _ _ _ hk] at this
            exact hcw k c' this
        · rw [g]; exact gn0
        · rw [g]; exact gn1
      osplit h
      rename_i st1 e1
      osplit h
      rename_i st2 e2
      refine ⟨cw_congr hcw0 (fun k => ?_), ?_⟩
      · rw [setInfo_chainAt h, setInfo_chainAt e2, setInfo_chainAt e1]
      · rw [setInfo_outputs' h, setInfo_outputs' e2, setInfo_outputs' e1]
  · -- (some idx, none)
    rename_i idx
    osplit h
    rename_i first
    osplit h
    rename_i r hr
    have l1 := rightOf_out ho (by simp) hr
    osplit h
    rename_i st1 e1
    obtain ⟨p1, p2, p3, p4, p5⟩ := push_cw hcw (hic.fst idx rfl).2 l1 e1
    osplit h
    rename_i st2 e2
    refine ⟨cw_congr p1 (fun k => ?_), ?_⟩
    · rw [(setHelper_chainAt h k).1, setInfo_chainAt e2]
    · rw [(setHelper_chainAt h 0).2, setInfo_outputs' e2, p5]
  · -- (some idx, some jdx)
    rename_i idx jdx
    osplit h
    · osplit h
      rename_i b
      osplit h
      rename_i st1 e1
      refine ⟨cw_congr hcw (fun k => ?_), ?_⟩
      · rw [(setHelper_chainAt h k).1, setInfo_chainAt e1]
      · rw [(setHelper_chainAt h 0).2, setInfo_outputs' e1]
    · rename_i first second
      osplit h
      rename_i r1 r2 hr1 hr2
      have l1 := rightOf_out ho (by simp) hr1
      have l2 := rightOf_out ho (by simp) hr2
      osplit h
      rename_i st1 e1
      obtain ⟨p1, p2, p3, p4, p5⟩ := push_cw hcw (hic.fst idx rfl).2 l1 e1
      have hne : jdx ≠ idx := Ne.symm (hic.ne idx jdx rfl rfl)
      have tj : TipIs pt st1 jdx := by
        intro c hc
        rw [p2 jdx hne] at hc
        exact (hic.snd jdx rfl).2 c hc
      osplit h
      rename_i st2 e2
      obtain ⟨q1, q2, q3, q4, q5⟩ := push_cw p1 tj l2 e2
      osplit h
      rename_i st3 e3
      osplit h
      rename_i st4 e4
      refine ⟨cw_congr q1 (fun k => ?_), ?_⟩
      · rw [(setHelper_chainAt h k).1, setInfo_chainAt e4, setInfo_chainAt e3]
      · rw [(setHelper_chainAt h 0).2, setInfo_outputs' e4, setInfo_outputs' e3, q5, p5]
  · cases h

end Geo.Proofs.MONO2
