/-
  GeoProofs.Lemmas.C12QScan — the polygon scan of `interior_point` against the crossing structure
  of GeoProofs/Lemmas/C12QCross.lean:
   * what `line_intersection` pushes for one edge against the scan line is the crossing abscissa of
     that edge (`hitXs_eq_crossXs`);
   * `isort` is a sorted permutation; the midpoints of consecutive entries of a strictly sorted list
     are not in the list (`pairsMid_not_mem`);
   * no scan candidate is on the boundary (`scan_not_boundary`);
   * the midpoint of the first two crossings is `Inside` (`scan_first_inside`).
-/
import GeoModel.InteriorPoint
import GeoProofs.Lemmas.C12QCross
import GeoProofs.Lemmas.C12Interior
import GeoProofs.Props.C11
import GeoProofs.Props.C19
import Mathlib.Tactic.Linarith
import Mathlib.Tactic.Ring
import Mathlib.Tactic.FieldSimp

namespace Geo.Proofs.C12
open Geo Geo.IP Geo.Proofs.Kernel

/-! ### edges of a polygon -/

theorem windows2_eq_segs : ∀ l : List Pt, windows2 l = segs l
  | [] => rfl
  | [_] => rfl
  | a :: b :: t => by simp only [windows2, segs]; rw [windows2_eq_segs (b :: t)]

theorem lines_eq (poly : Poly) : poly.lines = poly.rings.flatMap segs := by
  unfold Poly.lines Poly.rings
  rw [List.flatMap_cons, windows2_eq_segs]
  congr 1
  induction poly.ints with
  | nil => rfl
  | cons h t ih => simp only [List.map_cons, List.flatten_cons, List.flatMap_cons, ih, windows2_eq_segs]

theorem mem_rings_coords {poly : Poly} {r : List Pt} (hr : r ∈ poly.rings) {v : Pt} (hv : v ∈ r) :
    v ∈ poly.coords := by
  unfold Poly.rings at hr
  unfold Poly.coords
  rcases List.mem_cons.1 hr with rfl | hr
  · exact List.mem_append_left _ hv
  · exact List.mem_append_right _ (List.mem_flatten.2 ⟨r, hr, hv⟩)

theorem mem_lines_coords {poly : Poly} {e : Pt × Pt} (he : e ∈ poly.lines) :
    e.1 ∈ poly.coords ∧ e.2 ∈ poly.coords := by
  rw [lines_eq, List.mem_flatMap] at he
  obtain ⟨r, hr, he⟩ := he
  obtain ⟨h1, h2⟩ := Geo.Proofs.Spec.mem_of_mem_segs he
  exact ⟨mem_rings_coords hr h1, mem_rings_coords hr h2⟩

/-! ### one edge against the scan line -/

theorem segMem_horiz {z : Pt} {x1 x2 y : Rat} (h : SegMem z ⟨x1, y⟩ ⟨x2, y⟩) : z.y = y := by
  obtain ⟨t, _, _, _, hy⟩ := h
  simp only at hy
  rw [hy]; ring

theorem segMem_horiz_of {z : Pt} {x1 x2 y : Rat} (hy : z.y = y) (h1 : x1 ≤ z.x) (h2 : z.x ≤ x2) :
    SegMem z ⟨x1, y⟩ ⟨x2, y⟩ := by
  rw [← lineCoord_iff, Geo.Proofs.Loc.lineCoord_horiz]
  exact ⟨hy, Or.inl ⟨h1, h2⟩⟩

theorem sgnE_swap (y : Rat) (s e : Pt) : sgnE y (e, s) = - sgnE y (s, e) := by
  unfold sgnE
  simp only
  by_cases h1 : s.y < y ∧ y < e.y
  · have h2 : ¬ (e.y < y ∧ y < s.y) := fun h => by linarith [h1.1, h.2]
    simp [h1, h2]
  · by_cases h2 : e.y < y ∧ y < s.y
    · simp [h1, h2]
    · simp [h1, h2]

theorem crossXs_swap (y : Rat) (s e : Pt) : crossXs y (e, s) = crossXs y (s, e) := by
  unfold crossXs
  rw [sgnE_swap]
  by_cases h : sgnE y (s, e) = 0
  · simp [h]
  · have hd := sgnE_ne_zero_ne h
    simp only at hd
    have hd' : s.y - e.y ≠ 0 := by intro h0; apply hd; linarith
    have : xAt y (e, s) = xAt y (s, e) := by
      simp only [xAt]
      field_simp
      ring
    simp [h, this]

/-- a common point of an edge with end points off the level and a horizontal segment of the level
is the crossing point of the edge -/
theorem common_level {y x1 x2 : Rat} {s e z : Pt} (hs : s.y ≠ y) (he : e.y ≠ y)
    (hz1 : SegMem z s e) (hz2 : SegMem z ⟨x1, y⟩ ⟨x2, y⟩) :
    sgnE y (s, e) ≠ 0 ∧ z.x = xAt y (s, e) := by
  have hzy := segMem_horiz hz2
  have hz : z = ⟨z.x, y⟩ := by cases z; simp only at hzy; rw [hzy]
  have hl : lineCoord s e ⟨z.x, y⟩ = true := by rw [← hz]; exact (lineCoord_iff _ _ _).2 hz1
  have := lineCoord_level hs he hl
  unfold crossXs at this
  by_cases h0 : sgnE y (s, e) ≠ 0
  · rw [if_pos h0] at this
    exact ⟨h0, by simpa using this⟩
  · rw [if_neg h0] at this; simp at this

/-- abscissae of a `line_intersection` answer -/
def liXs : Option LI → List Rat
  | none => []
  | some (.single pt _) => [pt.x]
  | some (.collinear u v) => [u.x, v.x]

theorem hitXs_def (sa sb : Pt) (e : Pt × Pt) :
    hitXs sa sb e = liXs (lineIntersection (ordered e).1 (ordered e).2 sa sb) := by
  unfold hitXs liXs
  simp only
  split <;> simp_all

/-- what `line_intersection(edge, scan segment)` reports, provided the crossing point (if any) is
within the scan segment: nothing for an edge that does not straddle the level; the crossing
abscissa (possibly twice, for a degenerate scan segment) otherwise -/
theorem liXs_level (s e : Pt) (x1 x2 y : Rat) (hs : s.y ≠ y) (he : e.y ≠ y)
    (hx : sgnE y (s, e) ≠ 0 → x1 ≤ xAt y (s, e) ∧ xAt y (s, e) ≤ x2)
    (hnd : (liXs (lineIntersection s e ⟨x1, y⟩ ⟨x2, y⟩)).Nodup) :
    liXs (lineIntersection s e ⟨x1, y⟩ ⟨x2, y⟩) = crossXs y (s, e) := by
  cases h : lineIntersection s e ⟨x1, y⟩ ⟨x2, y⟩ with
  | none =>
    have h0 : sgnE y (s, e) = 0 := by
      by_contra hst
      exact (Geo.Proofs.C11.li_none_iff _ _ _ _).1 h
        ⟨⟨xAt y (s, e), y⟩, xAt_segMem hst, segMem_horiz_of rfl (hx hst).1 (hx hst).2⟩
    simp [liXs, crossXs, h0]
  | some r =>
    cases r with
    | single pt f =>
      obtain ⟨h1, h2⟩ := Geo.Proofs.C11.li_single_on_both _ _ _ _ _ _ h
      rw [lineCoord_iff] at h1 h2
      obtain ⟨hst, hpx⟩ := common_level hs he h1 h2
      simp [liXs, crossXs, hst, hpx]
    | collinear u v =>
      rw [h] at hnd
      have hu := (Geo.Proofs.C11.li_collinear_exact _ _ _ _ _ _ h u).2 (SegMem_left u v)
      have hv := (Geo.Proofs.C11.li_collinear_exact _ _ _ _ _ _ h v).2 (SegMem_right u v)
      obtain ⟨_, hux⟩ := common_level hs he hu.1 hu.2
      obtain ⟨_, hvx⟩ := common_level hs he hv.1 hv.2
      simp [liXs, hux, hvx] at hnd

theorem ordered_cases (e : Pt × Pt) : ordered e = e ∨ ordered e = (e.2, e.1) := by
  unfold ordered; split
  · exact Or.inr rfl
  · exact Or.inl rfl

/-- **the model's hit list for one edge is the crossing list of that edge** -/
theorem hitXs_eq_crossXs (e : Pt × Pt) (x1 x2 y : Rat) (hs : e.1.y ≠ y) (he : e.2.y ≠ y)
    (hx : sgnE y e ≠ 0 → x1 ≤ xAt y e ∧ xAt y e ≤ x2)
    (hnd : (hitXs ⟨x1, y⟩ ⟨x2, y⟩ e).Nodup) :
    hitXs ⟨x1, y⟩ ⟨x2, y⟩ e = crossXs y e := by
  rw [hitXs_def] at hnd ⊢
  obtain ⟨s, t⟩ := e
  rcases ordered_cases (s, t) with ho | ho
  · rw [ho] at hnd ⊢
    exact liXs_level s t x1 x2 y hs he hx hnd
  · rw [ho] at hnd ⊢
    simp only at hnd ⊢
    rw [← crossXs_swap]
    apply liXs_level t s x1 x2 y he hs _ hnd
    intro hst
    have hst' : sgnE y (s, t) ≠ 0 := by rw [sgnE_swap] at hst; omega
    have hd := sgnE_ne_zero_ne hst'
    simp only at hd
    have hd' : s.y - t.y ≠ 0 := by intro h0; apply hd; linarith
    have : xAt y (t, s) = xAt y (s, t) := by
      simp only [xAt]
      field_simp
      ring
    rw [this]; exact hx hst'

/-- the crossing abscissa lies between the abscissae of the end points -/
theorem xAt_bounds {y x1 x2 : Rat} {e : Pt × Pt} (h : sgnE y e ≠ 0)
    (hs : x1 ≤ e.1.x ∧ e.1.x ≤ x2) (he : x1 ≤ e.2.x ∧ e.2.x ≤ x2) :
    x1 ≤ xAt y e ∧ xAt y e ≤ x2 := by
  obtain ⟨s, t⟩ := e
  have := (xAt_segMem h).inRect
  rw [pointInRect_iff] at this
  simp only at this hs he
  rcases this.1 with ⟨a, b⟩ | ⟨a, b⟩ <;> exact ⟨by linarith, by linarith⟩

/-- the whole hit list of the scan is the crossing list of all rings -/
theorem hits_eq_crossings (poly : Poly) (x1 x2 y : Rat)
    (hy : ∀ v ∈ poly.coords, v.y ≠ y) (hxb : ∀ v ∈ poly.coords, x1 ≤ v.x ∧ v.x ≤ x2)
    (hnd : (poly.lines.flatMap (hitXs ⟨x1, y⟩ ⟨x2, y⟩)).Nodup) :
    poly.lines.flatMap (hitXs ⟨x1, y⟩ ⟨x2, y⟩) = (poly.rings.flatMap segs).flatMap (crossXs y) := by
  rw [← lines_eq]
  apply List.flatMap_congr
  intro e he
  obtain ⟨m1, m2⟩ := mem_lines_coords he
  apply hitXs_eq_crossXs e x1 x2 y (hy _ m1) (hy _ m2)
  · intro h; exact xAt_bounds h (hxb _ m1) (hxb _ m2)
  · exact (List.nodup_flatMap.1 hnd).1 e he

/-! ### sorting -/

theorem insertBy_perm {α : Type} (le : α → α → Bool) (a : α) : ∀ l : List α, (insertBy le a l).Perm (a :: l)
  | [] => List.Perm.refl _
  | b :: bs => by
    simp only [insertBy]
    split
    · exact List.Perm.refl _
    · exact ((insertBy_perm le a bs).cons b).trans (List.Perm.swap a b bs)

theorem isort_perm {α : Type} (le : α → α → Bool) : ∀ l : List α, (isort le l).Perm l
  | [] => List.Perm.refl _
  | a :: l => by
    show (insertBy le a (isort le l)).Perm (a :: l)
    exact (insertBy_perm le a _).trans ((isort_perm le l).cons a)

theorem insertBy_sorted (a : Rat) :
    ∀ l : List Rat, l.Pairwise (· ≤ ·) → (insertBy (fun a b => decide (a ≤ b)) a l).Pairwise (· ≤ ·)
  | [], _ => by simp [insertBy]
  | b :: bs, h => by
    simp only [insertBy]
    have h' := List.pairwise_cons.1 h
    by_cases hab : a ≤ b
    · simp only [hab, decide_true, if_true]
      refine List.pairwise_cons.2 ⟨fun c hc => ?_, h⟩
      rcases List.mem_cons.1 hc with rfl | hc
      · exact hab
      · exact le_trans hab (h'.1 c hc)
    · simp only [hab, decide_false, Bool.false_eq_true, if_false]
      refine List.pairwise_cons.2 ⟨fun c hc => ?_, insertBy_sorted a bs h'.2⟩
      have := (insertBy_perm _ a bs).mem_iff.1 hc
      rcases List.mem_cons.1 this with rfl | hc'
      · exact le_of_lt (not_le.1 hab)
      · exact h'.1 c hc'

theorem isort_sorted : ∀ l : List Rat, (isort (fun a b => decide (a ≤ b)) l).Pairwise (· ≤ ·)
  | [] => List.Pairwise.nil
  | a :: l => by
    show (insertBy _ a (isort _ l)).Pairwise (· ≤ ·)
    exact insertBy_sorted a _ (isort_sorted l)

theorem isort_strict (l : List Rat) (hnd : l.Nodup) :
    (isort (fun a b => decide (a ≤ b)) l).Pairwise (· < ·) := by
  have h1 := isort_sorted l
  have h2 : (isort (fun a b => decide (a ≤ b)) l).Nodup := (isort_perm _ l).nodup_iff.2 hnd
  exact (h1.and h2).imp (fun h => lt_of_le_of_ne h.1 h.2)

/-! ### midpoints of consecutive entries -/

theorem pairsMid_mem' : ∀ (xs : List Rat) (c : Rat × Rat), c ∈ pairsMid xs →
    ∃ a ∈ xs, ∃ b ∈ xs, c.1 = (a + b) / 2 ∧ c.2 = b - a
  | [], c, h => by simp [pairsMid] at h
  | [_], c, h => by simp [pairsMid] at h
  | a :: b :: rest, c, h => by
    simp only [pairsMid, List.mem_cons] at h
    rcases h with h | h
    · exact ⟨a, by simp, b, by simp, by rw [h], by rw [h]⟩
    · obtain ⟨a', ha', b', hb', h1, h2⟩ := pairsMid_mem' (b :: rest) c h
      exact ⟨a', List.mem_cons_of_mem _ ha', b', List.mem_cons_of_mem _ hb', h1, h2⟩

/-- in a strictly sorted list no midpoint of consecutive entries is an entry -/
theorem pairsMid_not_mem : ∀ xs : List Rat, xs.Pairwise (· < ·) → ∀ c ∈ pairsMid xs, c.1 ∉ xs
  | [], _, c, h => by simp [pairsMid] at h
  | [_], _, c, h => by simp [pairsMid] at h
  | a :: b :: rest, hp, c, hc => by
    obtain ⟨ha, hp'⟩ := List.pairwise_cons.1 hp
    have hab := ha b (by simp)
    simp only [pairsMid, List.mem_cons] at hc
    rcases hc with rfl | hc
    · simp only
      intro hm
      rcases List.mem_cons.1 hm with h | hm
      · linarith
      · rcases List.mem_cons.1 hm with h | hm
        · linarith
        · have := (List.pairwise_cons.1 hp').1 _ hm; linarith
    · intro hm
      rcases List.mem_cons.1 hm with h | hm
      · obtain ⟨a', ha', b', hb', h1, _⟩ := pairsMid_mem' _ c hc
        have := ha a' ha'
        have := ha b' hb'
        linarith
      · exact pairsMid_not_mem (b :: rest) hp' c hc hm

/-- exactly one entry of a strictly sorted list is at or left of the first midpoint -/
theorem filter_le_first (a b : Rat) (rest : List Rat) (hp : (a :: b :: rest).Pairwise (· < ·)) :
    ((a :: b :: rest).filter (fun t => decide (t ≤ (a + b) / 2))).length = 1 := by
  obtain ⟨ha, hp'⟩ := List.pairwise_cons.1 hp
  have hab := ha b (by simp)
  have h1 : a ≤ (a + b) / 2 := by linarith
  have h2 : ¬ b ≤ (a + b) / 2 := by linarith
  have h3 : rest.filter (fun t => decide (t ≤ (a + b) / 2)) = [] := by
    rw [List.filter_eq_nil_iff]
    intro t ht
    have := (List.pairwise_cons.1 hp').1 t ht
    simp only [decide_eq_true_eq, not_le]
    linarith
  simp [h1, h2, h3]

/-- membership in the candidate list -/
theorem mem_scanCands (poly : Poly) (mn mx : Pt) (c : Pt × Rat) :
    c ∈ scanCands poly mn mx ↔
      ∃ c' ∈ pairsMid (isort (fun a b => decide (a ≤ b))
          (poly.lines.flatMap (hitXs ⟨mn.x, yMid mn mx poly.coords⟩ ⟨mx.x, yMid mn mx poly.coords⟩))),
        c = ((⟨c'.1, yMid mn mx poly.coords⟩ : Pt), c'.2) := by
  simp only [scanCands, List.mem_map]
  constructor
  · rintro ⟨c', hc', rfl⟩
    exact ⟨c', (isort_perm _ _).mem_iff.1 hc', rfl⟩
  · rintro ⟨c', hc', rfl⟩
    exact ⟨c', (isort_perm _ _).mem_iff.2 hc', rfl⟩

/-! ### the scan level -/

/-- the scan ordinate lies strictly inside the ordinate range as soon as the range is proper -/
theorem yMid_strict (mn mx : Pt) (coords : List Pt) (hlt : mn.y < mx.y)
    (hb : ∀ c ∈ coords, mn.y ≤ c.y ∧ c.y ≤ mx.y) :
    mn.y < yMid mn mx coords ∧ yMid mn mx coords < mx.y := by
  unfold yMid
  simp only
  split
  · cases hm : minByKey (fun (y x : Rat) => decide (rabs (y - (mn.y + mx.y) / 2) < rabs (x - (mn.y + mx.y) / 2)))
        ((coords.filter (fun c => !(c.y == (mn.y + mx.y) / 2))).map (·.y)) with
    | none => simp only; constructor <;> linarith
    | some c =>
      simp only
      have hmem := minByKey_mem _ hm
      obtain ⟨v, hv, rfl⟩ := List.mem_map.1 hmem
      have := hb v (List.mem_filter.1 hv).1
      constructor <;> linarith [this.1, this.2]
  · constructor <;> linarith

/-! ### candidates are off the boundary; the first one is inside -/

section scan
variable (poly : Poly) (mn mx : Pt)

/-- the hypotheses shared by the scan lemmas: the scan level avoids all vertices, all vertices are
within the abscissa range of the scan segment, the hit abscissae are pairwise distinct -/
structure ScanOK : Prop where
  hy : ∀ v ∈ poly.coords, v.y ≠ yMid mn mx poly.coords
  hxb : ∀ v ∈ poly.coords, mn.x ≤ v.x ∧ v.x ≤ mx.x
  hnd : (poly.lines.flatMap
    (hitXs ⟨mn.x, yMid mn mx poly.coords⟩ ⟨mx.x, yMid mn mx poly.coords⟩)).Nodup

theorem ScanOK.hits (h : ScanOK poly mn mx) :
    poly.lines.flatMap (hitXs ⟨mn.x, yMid mn mx poly.coords⟩ ⟨mx.x, yMid mn mx poly.coords⟩) =
      (poly.rings.flatMap segs).flatMap (crossXs (yMid mn mx poly.coords)) :=
  hits_eq_crossings poly _ _ _ h.hy h.hxb h.hnd

theorem ScanOK.hit_edge (h : ScanOK poly mn mx) {e : Pt × Pt} (he : e ∈ poly.lines) :
    hitXs ⟨mn.x, yMid mn mx poly.coords⟩ ⟨mx.x, yMid mn mx poly.coords⟩ e =
      crossXs (yMid mn mx poly.coords) e := by
  obtain ⟨m1, m2⟩ := mem_lines_coords he
  apply hitXs_eq_crossXs e _ _ _ (h.hy _ m1) (h.hy _ m2)
  · intro hs; exact xAt_bounds hs (h.hxb _ m1) (h.hxb _ m2)
  · exact (List.nodup_flatMap.1 h.hnd).1 e he

/-- a point of the scan level whose abscissa is no crossing is not on the boundary -/
theorem locate_ne_boundary_of_not_crossing (h : ScanOK poly mn mx) (m : Rat)
    (hm : m ∉ (poly.rings.flatMap segs).flatMap (crossXs (yMid mn mx poly.coords))) :
    (poly.rings.any fun r => onAnySeg ⟨m, yMid mn mx poly.coords⟩ (segs r)) = false ∧
    (poly.rings.any fun r => r == [(⟨m, yMid mn mx poly.coords⟩ : Pt)]) = false := by
  constructor
  · rw [List.any_eq_false]
    intro r hr hon
    apply hm
    rw [List.flatMap_assoc, List.mem_flatMap]
    refine ⟨r, hr, onAnySeg_level ?_ hon⟩
    intro e he
    obtain ⟨m1, m2⟩ := Geo.Proofs.Spec.mem_of_mem_segs he
    exact ⟨h.hy _ (mem_rings_coords hr m1), h.hy _ (mem_rings_coords hr m2)⟩
  · rw [List.any_eq_false]
    intro r hr heq
    rw [beq_iff_eq] at heq
    have : (⟨m, yMid mn mx poly.coords⟩ : Pt) ∈ poly.coords := mem_rings_coords hr (by rw [heq]; simp)
    exact h.hy _ this rfl

/-- **no scan candidate is on the boundary** -/
theorem scan_not_boundary (h : ScanOK poly mn mx) :
    ∀ c ∈ scanCands poly mn mx, locate (.polygon poly) c.1 ≠ .onBoundary := by
  intro c hc
  obtain ⟨c', hc', rfl⟩ := (mem_scanCands poly mn mx c).1 hc
  have hstrict := isort_strict _ h.hnd
  have hnot := pairsMid_not_mem _ hstrict c' hc'
  have hnot' : c'.1 ∉ (poly.rings.flatMap segs).flatMap (crossXs (yMid mn mx poly.coords)) := by
    rw [← h.hits]; exact fun hm => hnot ((isort_perm _ _).mem_iff.2 hm)
  obtain ⟨k1, k2⟩ := locate_ne_boundary_of_not_crossing poly mn mx h c'.1 hnot'
  show locateParts (parts (.polygon poly)) _ ≠ .onBoundary
  simp only [parts]
  rw [Geo.Proofs.Loc.locateParts_poly, k1, k2]
  simp only [Bool.not_false, Bool.true_and, Bool.or_self, Bool.false_eq_true, if_false]
  split <;> simp

/-- **the midpoint of the first two crossings is `Inside`**, when every hole crossing has an
exterior-ring crossing to its left -/
theorem scan_first_inside (h : ScanOK poly mn mx)
    (hclosed : ∀ r ∈ poly.rings, r.head? = r.getLast?)
    (hlo : ∃ v ∈ poly.ext, v.y < yMid mn mx poly.coords)
    (hhi : ∃ v ∈ poly.ext, yMid mn mx poly.coords < v.y)
    (hfirst : ∀ hole ∈ poly.ints, ∀ t ∈ (segs hole).flatMap (crossXs (yMid mn mx poly.coords)),
      ∃ t' ∈ (segs poly.ext).flatMap (crossXs (yMid mn mx poly.coords)), t' < t) :
    ∃ c ∈ scanCands poly mn mx, locate (.polygon poly) c.1 = .inside := by
  have hext_r : poly.ext ∈ poly.rings := by simp [Poly.rings]
  have hyext : ∀ v ∈ poly.ext, v.y ≠ yMid mn mx poly.coords :=
    fun v hv => h.hy v (mem_rings_coords hext_r hv)
  have htwo := two_crossings _ poly.ext (hclosed _ hext_r) hyext hlo hhi
  have hstrict := isort_strict _ h.hnd
  have hperm := isort_perm (fun (a b : Rat) => decide (a ≤ b))
    (poly.lines.flatMap (hitXs ⟨mn.x, yMid mn mx poly.coords⟩ ⟨mx.x, yMid mn mx poly.coords⟩))
  have hL := h.hits
  have hsplit : (poly.rings.flatMap segs).flatMap (crossXs (yMid mn mx poly.coords)) =
      (segs poly.ext).flatMap (crossXs (yMid mn mx poly.coords)) ++
      (poly.ints.flatMap segs).flatMap (crossXs (yMid mn mx poly.coords)) := by
    simp [Poly.rings, List.flatMap_cons, List.flatMap_append]
  have hlen : 2 ≤ (isort (fun (a b : Rat) => decide (a ≤ b))
      (poly.lines.flatMap (hitXs ⟨mn.x, yMid mn mx poly.coords⟩ ⟨mx.x, yMid mn mx poly.coords⟩))).length := by
    rw [hperm.length_eq, hL, hsplit, List.length_append]; omega
  generalize hxs : isort (fun (a b : Rat) => decide (a ≤ b))
      (poly.lines.flatMap (hitXs ⟨mn.x, yMid mn mx poly.coords⟩ ⟨mx.x, yMid mn mx poly.coords⟩)) = xs
      at hstrict hperm hlen
  match xs, hlen with
  | a :: b :: rest, _ =>
    refine ⟨((⟨(a + b) / 2, yMid mn mx poly.coords⟩ : Pt), b - a), ?_, ?_⟩
    · rw [mem_scanCands, hxs]
      exact ⟨((a + b) / 2, b - a), by simp [pairsMid], rfl⟩
    · have hcount := filter_le_first a b rest hstrict
      obtain ⟨haall, hp'⟩ := List.pairwise_cons.1 hstrict
      have hab := haall b (by simp)
      -- every hole crossing is right of the midpoint
      have hholes : ∀ t ∈ (poly.ints.flatMap segs).flatMap (crossXs (yMid mn mx poly.coords)),
          ¬ t ≤ (a + b) / 2 := by
        intro t ht
        rw [List.flatMap_assoc, List.mem_flatMap] at ht
        obtain ⟨hole, hhole, ht⟩ := ht
        obtain ⟨t', ht', hlt⟩ := hfirst hole hhole t ht
        have mt' : t' ∈ a :: b :: rest := by
          apply hperm.mem_iff.2; rw [hL, hsplit]; exact List.mem_append_left _ ht'
        have mt : t ∈ a :: b :: rest := by
          apply hperm.mem_iff.2; rw [hL, hsplit]
          apply List.mem_append_right
          rw [List.flatMap_assoc, List.mem_flatMap]; exact ⟨hole, hhole, ht⟩
        have hat' : a ≤ t' := by
          rcases List.mem_cons.1 mt' with rfl | m
          · exact le_refl _
          · exact le_of_lt (haall _ m)
        have hbt : b ≤ t := by
          rcases List.mem_cons.1 mt with rfl | m
          · linarith
          · rcases List.mem_cons.1 m with rfl | m
            · exact le_refl _
            · exact le_of_lt ((List.pairwise_cons.1 hp').1 _ m)
        linarith
      -- so exactly one exterior crossing is at or left of it
      have hcnt_ext : (((segs poly.ext).flatMap (crossXs (yMid mn mx poly.coords))).filter
          (fun t => decide (t ≤ (a + b) / 2))).length = 1 := by
        have e1 := (hperm.filter (fun t => decide (t ≤ (a + b) / 2))).length_eq
        rw [hcount, hL, hsplit, List.filter_append, List.length_append] at e1
        have e2 : ((poly.ints.flatMap segs).flatMap (crossXs (yMid mn mx poly.coords))).filter
            (fun t => decide (t ≤ (a + b) / 2)) = [] := by
          rw [List.filter_eq_nil_iff]
          intro t ht; simpa using hholes t ht
        rw [e2] at e1
        simpa using e1.symm
      have hwext : windingE (EPt.ofPt ⟨(a + b) / 2, yMid mn mx poly.coords⟩) poly.ext ≠ 0 :=
        winding_ne_zero_of_odd _ _ _ (hclosed _ hext_r) hyext (by rw [hcnt_ext])
      have hwholes : ∀ hole ∈ poly.ints,
          windingE (EPt.ofPt ⟨(a + b) / 2, yMid mn mx poly.coords⟩) hole = 0 := by
        intro hole hhole
        have hr : hole ∈ poly.rings := by simp [Poly.rings, hhole]
        apply winding_zero_of_none _ _ _ (hclosed _ hr)
          (fun v hv => h.hy v (mem_rings_coords hr hv))
        intro t ht
        apply hholes t
        rw [List.flatMap_assoc, List.mem_flatMap]; exact ⟨hole, hhole, ht⟩
      have hnot : (a + b) / 2 ∉ (poly.rings.flatMap segs).flatMap (crossXs (yMid mn mx poly.coords)) := by
        rw [← hL]
        intro hm
        have := pairsMid_not_mem _ hstrict ((a + b) / 2, b - a) (by simp [pairsMid])
        exact this (hperm.mem_iff.2 hm)
      obtain ⟨k1, _⟩ := locate_ne_boundary_of_not_crossing poly mn mx h _ hnot
      show locateParts (parts (.polygon poly)) _ = .inside
      simp only [parts]
      rw [Geo.Proofs.Loc.locateParts_poly, k1]
      have hall : poly.ints.all (fun hh =>
          windingE (EPt.ofPt ⟨(a + b) / 2, yMid mn mx poly.coords⟩) hh == 0) = true := by
        rw [List.all_eq_true]; intro hh hhh; simp [hwholes hh hhh]
      simp [hwext, hall]

/-- "holes lie inside the shell" in winding form implies the order form used by
`scan_first_inside`: if the exterior ring winds around every point where a hole crosses the scan
line, every hole crossing has an exterior crossing strictly to its left -/
theorem first_of_wound (h : ScanOK poly mn mx) (hclosed : poly.ext.head? = poly.ext.getLast?)
    (hw : ∀ hole ∈ poly.ints, ∀ t ∈ (segs hole).flatMap (crossXs (yMid mn mx poly.coords)),
      windingE (EPt.ofPt ⟨t, yMid mn mx poly.coords⟩) poly.ext ≠ 0) :
    ∀ hole ∈ poly.ints, ∀ t ∈ (segs hole).flatMap (crossXs (yMid mn mx poly.coords)),
      ∃ t' ∈ (segs poly.ext).flatMap (crossXs (yMid mn mx poly.coords)), t' < t := by
  intro hole hh t ht
  have hext_r : poly.ext ∈ poly.rings := by simp [Poly.rings]
  obtain ⟨t', ht', hle⟩ := exists_crossing_le_of_winding t _ poly.ext hclosed
    (fun v hv => h.hy v (mem_rings_coords hext_r hv)) (hw hole hh t ht)
  refine ⟨t', ht', lt_of_le_of_ne hle ?_⟩
  have hnd := h.hnd
  rw [h.hits] at hnd
  have hsplit : (poly.rings.flatMap segs).flatMap (crossXs (yMid mn mx poly.coords)) =
      (segs poly.ext).flatMap (crossXs (yMid mn mx poly.coords)) ++
      (poly.ints.flatMap segs).flatMap (crossXs (yMid mn mx poly.coords)) := by
    simp [Poly.rings, List.flatMap_cons, List.flatMap_append]
  rw [hsplit, List.nodup_append] at hnd
  apply hnd.2.2 t' ht' t
  rw [List.flatMap_assoc, List.mem_flatMap]; exact ⟨hole, hh, ht⟩

end scan

end Geo.Proofs.C12
