/-
  WIND, part 3: hypothesis H2 of `coordPos_polygon_eq_locate_partial` from OGC validity.

  `polyValid` demands `II = F` in `relateParts (polyOf h₁) (polyOf h₂)` for two different holes.
  Let `p` be a point of the ring `h₁` that is strictly inside `h₂`. Then a non-vertex point `m` of
  the same edge of `h₁` is strictly inside `h₂` too (`p` itself lies in an elementary sub-segment,
  or `p` is a vertex of the arrangement and the winding number about `h₂` is constant from `p` to
  the midpoint of an adjacent elementary sub-segment). Both face samples beside `m` are inside `h₂`
  (`windingE_perturb`) and one of them is inside `h₁` (the winding number jumps by one across the
  edge, `windingE_jump`; `m` lies on exactly one edge occurrence of the simple ring `h₁`). That
  face atom puts `2` into the cell `II`.
-/
import GeoProofs.Lemmas.WINDSimple
import GeoProofs.Lemmas.C12QValid

set_option linter.unusedSimpArgs false

namespace Geo.Proofs.WIND
open Geo Geo.Proofs.Kernel Geo.Proofs.Spec Geo.Proofs.C02Q

/-! ### small list facts -/

theorem segs_ne_of_nodup : ∀ {l : List Pt} {u v : Pt}, l.Nodup → (u, v) ∈ segs l → u ≠ v
  | [], _, _, _, h => by simp [segs] at h
  | [_], _, _, _, h => by simp [segs] at h
  | x :: y :: t, u, v, hn, h => by
    simp only [segs, List.mem_cons, Prod.mk.injEq] at h
    rcases h with ⟨rfl, rfl⟩ | h
    · intro e
      rw [List.nodup_cons] at hn
      exact hn.1 (by rw [e]; simp)
    · exact segs_ne_of_nodup (List.nodup_cons.mp hn).2 h

theorem two_le_length_of_mem_ne {α : Type} {l : List α} {x y : α} (hx : x ∈ l) (hy : y ∈ l)
    (hne : x ≠ y) : 2 ≤ l.length := by
  match l, hx, hy with
  | [z], hx, hy =>
    simp only [List.mem_singleton] at hx hy
    exact absurd (hx.trans hy.symm) hne
  | _ :: _ :: _, _, _ => simp

/-! ### non-strict versions of the elementary sub-segment lemmas -/

theorem segMem_of_between_le {a b x y m : Pt} (hab : a ≠ b) (hx : SegMem x a b) (hy : SegMem y a b)
    (hm : SegMem m a b) (h1 : dist2 a x ≤ dist2 a m) (h2 : dist2 a m ≤ dist2 a y) : SegMem m x y := by
  rcases lt_or_eq_of_le h1 with h1' | h1'
  · rcases lt_or_eq_of_le h2 with h2' | h2'
    · exact segMem_of_between hab hx hy hm h1' h2'
    · rw [dist2_inj_on_seg hab hm hy h2']; exact SegMem_right _ _
  · rw [← dist2_inj_on_seg hab hx hm h1']; exact SegMem_left _ _

/-- an edge of the arrangement through a point strictly inside an elementary sub-segment contains
the closed sub-segment -/
theorem edge_all_closed {pa pb : Parts} {a b c d u v z : Pt}
    (hs : (a, b) ∈ pa.allSegs ++ pb.allSegs) (ht : (c, d) ∈ pa.allSegs ++ pb.allSegs)
    (E : Elem (vertsOf pa pb) a b u v) (hz : Within a b u v z) (hzc : SegMem z c d)
    {z' : Pt} (hz'm : SegMem z' a b) (h1 : dist2 a u ≤ dist2 a z') (h2 : dist2 a z' ≤ dist2 a v) :
    SegMem z' c d := by
  have hab := E.hab
  cases hli : lineIntersection a b c d with
  | none =>
    exact absurd ⟨z, hz.1, hzc⟩ ((Geo.Proofs.C11.li_none_iff a b c d).mp hli)
  | some r =>
    cases r with
    | single q f =>
      exfalso
      have hzq := (Geo.Proofs.C11.li_single_exact a b c d q f hli z).mp ⟨hz.1, hzc⟩
      have hqv : q ∈ vertsOf pa pb := by
        apply segVertex_mem_verts hs ht (s := (a, b)) (t := (c, d))
        unfold segVertex
        simp only [hli, List.mem_singleton]
      rw [← hzq] at hqv
      rcases E.no_vertex hqv hz.1 with h | h
      · exact absurd hz.2.1 (not_lt.mpr h)
      · exact absurd hz.2.2 (not_lt.mpr h)
    | collinear x y =>
      have hex := Geo.Proofs.C11.li_collinear_exact a b c d x y hli
      obtain ⟨ex, ey⟩ := li_collinear_endpoints a b c d x y hli
      obtain ⟨ea1, ea2⟩ := ends_mem_vertsOf hs
      obtain ⟨ec1, ec2⟩ := ends_mem_vertsOf ht
      have hxv : x ∈ vertsOf pa pb := by
        rcases ex with e | e | e | e <;> rw [e] <;> assumption
      have hyv : y ∈ vertsOf pa pb := by
        rcases ey with e | e | e | e <;> rw [e] <;> assumption
      have hxm : SegMem x a b := ((hex x).mpr (SegMem_left x y)).1
      have hym : SegMem y a b := ((hex y).mpr (SegMem_right x y)).1
      have hzxy : SegMem z x y := (hex z).mp ⟨hz.1, hzc⟩
      have key : ∀ x y : Pt, x ∈ vertsOf pa pb → y ∈ vertsOf pa pb → SegMem x a b → SegMem y a b →
          SegMem z x y → dist2 a x ≤ dist2 a y → SegMem z' x y := by
        intro x y hxv hyv hxm hym hzxy hle
        obtain ⟨b1, b2⟩ := dist2_between hab hxm hym hzxy hle
        have hxu : dist2 a x ≤ dist2 a u := by
          rcases E.no_vertex hxv hxm with h | h
          · exact h
          · exact absurd (lt_of_le_of_lt b1 hz.2.2) (not_lt.mpr h)
        have hvy : dist2 a v ≤ dist2 a y := by
          rcases E.no_vertex hyv hym with h | h
          · exact absurd (lt_of_lt_of_le hz.2.1 b2) (not_lt.mpr h)
          · exact h
        exact segMem_of_between_le hab hxm hym hz'm (le_trans hxu h1) (le_trans h2 hvy)
      rcases le_total (dist2 a x) (dist2 a y) with hle | hle
      · exact ((hex z').mpr (key x y hxv hyv hxm hym hzxy hle)).2
      · exact ((hex z').mpr (SegMem_symm (key y x hyv hxv hym hxm (SegMem_symm hzxy) hle))).2

/-! ### location relative to a single ring -/

theorem locate_polyOf_inside_iff (r : List Pt) (p : Pt) :
    locateParts (polyOf r) p = .inside ↔
      onAnySeg p (segs r) = false ∧ windingE (EPt.ofPt p) r ≠ 0 := by
  unfold polyOf
  rw [Geo.Proofs.Loc.locateParts_ring]
  by_cases hon : onAnySeg p (segs r) = true
  · simp only [hon, Bool.not_true, Bool.false_and, Bool.false_eq_true, if_false, Bool.true_or, if_true]
    simp
  · have hon' : onAnySeg p (segs r) = false := by simpa using hon
    by_cases hw : windingE (EPt.ofPt p) r = 0
    · simp only [hon', hw, Bool.not_false, Bool.true_and, bne_self_eq_false, Bool.false_eq_true,
        if_false, Bool.false_or]
      split <;> simp
    · simp [hon', hw]

theorem locateFace_polyOf (r : List Pt) (q : EPt) :
    locateFace (polyOf r) q = if windingE q r ≠ 0 then .inside else .outside := by
  simp only [locateFace, polyOf, List.any_cons, List.any_nil, Bool.or_false, insidePolyE,
    List.all_nil, Bool.and_true]
  by_cases h : windingE q r = 0 <;> simp [h]

/-! ### from a point of the ring to a non-vertex point with the same location -/

/-- a point `p` of the edge `(a, b)` of `A` that is strictly inside the closed ring `rb`: some
elementary sub-segment of `(a, b)` has its midpoint strictly inside `rb` -/
theorem inside_elem {pa : Parts} {rb : List Pt} (hc : rb.head? = rb.getLast?) (h2 : 2 ≤ rb.length)
    {a b p : Pt} (hs : (a, b) ∈ pa.allSegs ++ (polyOf rb).allSegs) (hab : a ≠ b) (hpm : SegMem p a b)
    (hin : locateParts (polyOf rb) p = .inside) :
    ∃ u v, Elem (vertsOf pa (polyOf rb)) a b u v ∧
      locateParts (polyOf rb) (midpoint u v) = .inside := by
  obtain ⟨ha, hb⟩ := ends_mem_vertsOf hs
  by_cases hv : p ∈ vertsOf pa (polyOf rb)
  · -- a vertex of the arrangement: move to the midpoint of an adjacent elementary sub-segment
    have hmem : ∀ w, w ∈ vertsOf pa (polyOf rb) → SegMem w a b →
        w ∈ sortByDist a ((vertsOf pa (polyOf rb)).filter (fun w => lineCoord a b w)) := by
      intro w hw hwm
      rw [mem_sortByDist, List.mem_filter]; exact ⟨hw, (lineCoord_iff _ _ _).mpr hwm⟩
    have hlen := two_le_length_of_mem_ne (hmem a ha (SegMem_left a b)) (hmem b hb (SegMem_right a b)) hab
    obtain ⟨⟨u, v⟩, huv, hpuv⟩ := Geo.Proofs.C12.mem_segs_end _ p hlen (hmem p hv hpm)
    have hnod : (sortByDist a ((vertsOf pa (polyOf rb)).filter (fun w => lineCoord a b w))).Nodup :=
      (sortByDist_perm_self a _).nodup_iff.mpr ((nodup_dedupPts _).filter _)
    have hne : u ≠ v := segs_ne_of_nodup hnod huv
    have E : Elem (vertsOf pa (polyOf rb)) a b u v := ⟨hab, huv, hne⟩
    refine ⟨u, v, E, ?_⟩
    obtain ⟨⟨_, hum⟩, ⟨_, hvm⟩⟩ := E.mem
    have hle := (sorted_consecutive (sortByDist_sorted a _) E.pair).1
    have hmw := E.midpoint_within
    rw [locate_polyOf_inside_iff] at hin ⊢
    obtain ⟨hoff, hw⟩ := hin
    -- `p` is an end of the closed sub-segment
    have hpb : dist2 a u ≤ dist2 a p ∧ dist2 a p ≤ dist2 a v := by
      rcases hpuv with e | e
      · simp only at e; rw [e]; exact ⟨le_refl _, hle⟩
      · simp only at e; rw [e]; exact ⟨hle, le_refl _⟩
    -- an edge of `rb` through a point strictly inside the sub-segment would contain `p`
    have hoffW : ∀ z, Within a b u v z → ∀ s ∈ segs rb, ¬ SegMem z s.1 s.2 := by
      intro z hz s hs' hzs
      have ht : (s.1, s.2) ∈ pa.allSegs ++ (polyOf rb).allSegs := by
        rw [allSegs_polyOf]; exact List.mem_append_right _ hs'
      have := edge_all_closed hs ht E hz hzs hpm hpb.1 hpb.2
      have hon' : onAnySeg p (segs rb) = true := by
        rw [Geo.Proofs.Loc.onAnySeg_iff]
        exact ⟨s, hs', (lineCoord_iff _ _ _).mpr this⟩
      rw [hoff] at hon'; cases hon'
    constructor
    · cases hb' : onAnySeg (midpoint u v) (segs rb) with
      | false => rfl
      | true =>
        rw [Geo.Proofs.Loc.onAnySeg_iff] at hb'
        obtain ⟨s, hs', hl⟩ := hb'
        exact absurd ((lineCoord_iff _ _ _).mp hl) (hoffW _ hmw s hs')
    · rw [windingE_const rb hc (midpoint u v) p ?_]; exact hw
      intro s hs' ⟨x, hx1, hx2⟩
      -- `x` on `[m, p]`: either `x = p` or strictly inside the sub-segment
      have hxm : SegMem x a b := SegMem_convex hmw.1 hpm hx2
      by_cases hxp : x = p
      · subst hxp
        have hon' : onAnySeg x (segs rb) = true := by
          rw [Geo.Proofs.Loc.onAnySeg_iff]
          exact ⟨s, hs', (lineCoord_iff _ _ _).mpr hx1⟩
        rw [hoff] at hon'; cases hon'
      · apply hoffW x ?_ s hs' hx1
        have hdne : dist2 a x ≠ dist2 a p := fun e => hxp (dist2_inj_on_seg hab hxm hpm e)
        rcases hpuv with e | e
        · simp only at e
          -- `p = u`: distances grow from `p` to `m`
          have hpm' : dist2 a p ≤ dist2 a (midpoint u v) := by rw [e]; exact hmw.2.1.le
          obtain ⟨b1, b2⟩ := dist2_between hab hpm hmw.1 (SegMem_symm hx2) hpm'
          refine ⟨hxm, ?_, lt_of_le_of_lt b2 hmw.2.2⟩
          rw [← e]; exact lt_of_le_of_ne b1 (Ne.symm hdne)
        · simp only at e
          have hpm' : dist2 a (midpoint u v) ≤ dist2 a p := by rw [e]; exact hmw.2.2.le
          obtain ⟨b1, b2⟩ := dist2_between hab hmw.1 hpm hx2 hpm'
          refine ⟨hxm, lt_of_lt_of_le hmw.2.1 b1, ?_⟩
          rw [← e]; exact lt_of_le_of_ne b2 hdne
  · obtain ⟨u, v, E, hw⟩ := exists_elem hab ha hb hpm hv
    refine ⟨u, v, E, ?_⟩
    rw [ring_location_const hc h2 hs E hw E.midpoint_within, hin]

/-! ### the core: `II = F` keeps the ring of `A` out of the interior of `B` -/

theorem ii_empty_ring_not_inside {ra rb : List Pt} (hsa : ringSimple ra = true)
    (hsb : ringSimple rb = true)
    (hii : (relateParts (polyOf ra) (polyOf rb)).ii = .empty) {p : Pt}
    (hp : onAnySeg p (segs ra) = true) : locateParts (polyOf rb) p ≠ .inside := by
  intro hin
  have hii' : (relateParts (polyOf ra) (polyOf rb)).get .inside .inside = .empty := hii
  have hokb := ringOK_of_simple hsb
  have hoka := ringOK_of_simple hsa
  obtain ⟨a, b, hse, hab, hpm⟩ := simple_on_nondeg_edge hsa hp
  have hs' : (a, b) ∈ (polyOf ra).allSegs ++ (polyOf rb).allSegs := by
    rw [allSegs_polyOf]; exact List.mem_append_left _ hse
  obtain ⟨u, v, E, hmin⟩ := inside_elem hokb.1 hokb.2 hs' hab hpm hin
  obtain ⟨ha, hb⟩ := ends_mem_vertsOf hs'
  obtain ⟨_, hnv, hall⟩ := segAtoms_of_pair (polyOf ra) (polyOf rb) hab E.pair E.ne
  have hmw := E.midpoint_within
  -- the midpoint is not a coordinate of `ra`
  have hnr : midpoint u v ∉ ra := by
    intro hmem
    obtain ⟨s, hs1, hs2⟩ := Geo.Proofs.C12.mem_segs_end ra _ hoka.2 hmem
    have hs3 : s ∈ (polyOf ra).allSegs ++ (polyOf rb).allSegs := by
      rw [allSegs_polyOf]; exact List.mem_append_left _ hs1
    obtain ⟨e1, e2⟩ := ends_mem_vertsOf hs3
    rcases hs2 with h | h
    · exact hnv (h ▸ e1)
    · exact hnv (h ▸ e2)
  have hone := simple_unique_edge hsa hse hmw.1 hnr
  have hma : midpoint u v ≠ a := fun e => hnv (e ▸ ha)
  have hmb : midpoint u v ≠ b := fun e => hnv (e ▸ hb)
  have hjump := windingE_jump ra hoka.1 hone hab hmw.1 hma hmb
  rw [locate_polyOf_inside_iff] at hmin
  obtain ⟨hoff, hw⟩ := hmin
  have hbL : locateFace (polyOf rb) (faceL a b (midpoint u v)) = .inside := by
    rw [locateFace_polyOf]
    have : windingE (faceL a b (midpoint u v)) rb = windingE (EPt.ofPt (midpoint u v)) rb :=
      windingE_perturb rb hokb.1 (midpoint u v) _ _ hoff
    rw [this, if_pos hw]
  have hbR : locateFace (polyOf rb) (faceR a b (midpoint u v)) = .inside := by
    rw [locateFace_polyOf]
    have : windingE (faceR a b (midpoint u v)) rb = windingE (EPt.ofPt (midpoint u v)) rb :=
      windingE_perturb rb hokb.1 (midpoint u v) _ _ hoff
    rw [this, if_pos hw]
  have hmemA : ∀ x, IsAtomAt (polyOf ra) (polyOf rb) a b (midpoint u v) x →
      x ∈ atomsOf (polyOf ra) (polyOf rb) := by
    intro x hx
    unfold atomsOf
    exact List.mem_append_right _ (List.mem_flatMap.mpr ⟨(a, b), hs', hall x hx⟩)
  by_cases hL : windingE (faceL a b (midpoint u v)) ra = 0
  · have hR : windingE (faceR a b (midpoint u v)) ra ≠ 0 := by omega
    have haR : locateFace (polyOf ra) (faceR a b (midpoint u v)) = .inside := by
      rw [locateFace_polyOf, if_pos hR]
    exact cell_empty_no_atom hii' (hmemA _ (Or.inr (Or.inr rfl))) haR hbR
  · have haL : locateFace (polyOf ra) (faceL a b (midpoint u v)) = .inside := by
      rw [locateFace_polyOf, if_pos hL]
    exact cell_empty_no_atom hii' (hmemA _ (Or.inr (Or.inl rfl))) haL hbL

/-- both directions (the matrix of the operands in the other order is the transpose) -/
theorem ii_empty_rings_apart {ra rb : List Pt} (hsa : ringSimple ra = true) (hsb : ringSimple rb = true)
    (hii : (relateParts (polyOf ra) (polyOf rb)).ii = .empty) (p : Pt) :
    (onAnySeg p (segs ra) = true → locateParts (polyOf rb) p ≠ .inside) ∧
    (onAnySeg p (segs rb) = true → locateParts (polyOf ra) p ≠ .inside) := by
  refine ⟨fun hp => ii_empty_ring_not_inside hsa hsb hii hp, fun hp => ?_⟩
  apply ii_empty_ring_not_inside hsb hsa _ hp
  rw [relateParts_transpose (polyOf ra) (polyOf rb)]
  generalize relateParts (polyOf ra) (polyOf rb) = M at hii ⊢
  exact hii

/-! ### the hole-pair clause of `polyValid` -/

theorem polyValid_hole_pairs {q : Poly} (h : polyValid q = true) {i j : Nat} (hij : i < j)
    {h1 h2 : List Pt} (e1 : q.ints[i]? = some h1) (e2 : q.ints[j]? = some h2) :
    (relateParts (polyOf h1) (polyOf h2)).ii = .empty ∧
      dimLe0 (relateParts (polyOf h1) (polyOf h2)).bb = true := by
  unfold polyValid polyValid.polyValidRings at h
  simp only [Bool.and_eq_true] at h
  obtain ⟨⟨⟨_, _⟩, hp⟩, _⟩ := h
  have hs1 : (q.ints.map (fun h => (h.headD ⟨0, 0⟩, h.headD ⟨0, 0⟩)))[i]? =
      some (h1.headD ⟨0, 0⟩, h1.headD ⟨0, 0⟩) := by
    rw [List.getElem?_map, e1]; rfl
  have hs2 : (q.ints.map (fun h => (h.headD ⟨0, 0⟩, h.headD ⟨0, 0⟩)))[j]? =
      some (h2.headD ⟨0, 0⟩, h2.headD ⟨0, 0⟩) := by
    rw [List.getElem?_map, e2]; rfl
  have := Geo.Proofs.C12.allPairs_spec hp hij hs1 hs2
  simp only [e1, e2, Bool.and_eq_true, beq_iff_eq] at this
  exact this

/-- **H2 from validity**: in an OGC-valid polygon a point strictly inside one hole (for geo's
`coord_pos_relative_to_ring`) is on no hole ring. -/
theorem hole_inside_off_rings {q : Poly} (hv : polyValid q = true) (p : Pt) :
    ∀ h ∈ q.ints, ∀ h' ∈ q.ints, ringPos p h = .inside → onAnySeg p (segs h') = false := by
  intro h hh h' hh' hin
  obtain ⟨_, hsimple, _⟩ := polyValid_unpack hv
  have hsh := hsimple h hh
  have hsh' := hsimple h' hh'
  rw [Geo.Proofs.Loc.ringPos_eq_ringLoc p h (ringOK_of_simple hsh), Geo.Proofs.Loc.ringLoc_inside_iff] at hin
  have hlin : locateParts (polyOf h) p = .inside := (locate_polyOf_inside_iff h p).mpr hin
  obtain ⟨i, hi⟩ := List.getElem?_of_mem hh
  obtain ⟨j, hj⟩ := List.getElem?_of_mem hh'
  cases hon : onAnySeg p (segs h') with
  | false => rfl
  | true =>
    exfalso
    rcases lt_trichotomy i j with hij | hij | hij
    · obtain ⟨hii, _⟩ := polyValid_hole_pairs hv hij hi hj
      exact (ii_empty_rings_apart hsh hsh' hii p).2 hon hlin
    · subst hij
      have : h = h' := by rw [hi] at hj; exact Option.some.inj hj
      subst this
      rw [hin.1] at hon; cases hon
    · obtain ⟨hii, _⟩ := polyValid_hole_pairs hv hij hj hi
      exact (ii_empty_rings_apart hsh' hsh hii p).1 hon hlin

/-- `coordinate_position` of every OGC-valid polygon is the specification's location, at every point. -/
theorem coordPos_polygon_valid_full (q : Poly) (p : Pt) (hv : polyValid q = true) :
    coordPos (.polygon q) p = locate (.polygon q) p :=
  coordPos_polygon_valid q p hv (hole_inside_off_rings hv p)

end Geo.Proofs.WIND
