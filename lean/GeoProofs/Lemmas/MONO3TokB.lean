/-
  MONO3 (C10): the writes of `process_next_pt` in the token view — a starting segment takes a fresh chain index or a free
  token as `chain_idx`, the segment below takes two tokens as `help`, `helper_chain` is a non-owning reference.
-/
import GeoProofs.Lemmas.MONO3Tok

namespace Geo.Proofs.MONO3
open Geo Geo.Mono Geo.MonoBuild Geo.Proofs.C10 Geo.Proofs.MONO Geo.Proofs.MONO2

variable {st st' : St} {H : Nat → Prop} {T : List Nat} {m : Nat}

/-- a starting segment takes the chain index `k`: fresh (`m ≤ k`), or a free token -/
theorem Tok.setChainIdx {o : Nat} {s : Seg} {b : Bool} {k : Nat} {T' : List Nat} {m' : Nat} (h : Tok st H T m)
    (hset : st.setInfo o (fun i => { i with nextIsInside := b, chainIdx := k }) = some st')
    (hs : st.segs[o]? = some s) (ho : H o ∨ (s.info.help = none ∧ s.info.helperChain = none))
    (hk : (m ≤ k ∧ T' = T) ∨ (k ∈ T ∧ T' = T.erase k)) (hm : m ≤ m') (hkm : k < m') (hm' : m' ≤ st.chains.length) :
    Tok st' (fun j => H j ∨ j = o) T' m' := by
  have hT'sub : ∀ t ∈ T', t ∈ T := by
    rcases hk with ⟨_, e⟩ | ⟨_, e⟩
    · rw [e]; exact fun _ h => h
    · rw [e]; exact fun _ h => List.mem_of_mem_erase h
  have hT'nd : T'.Nodup := by
    rcases hk with ⟨_, e⟩ | ⟨_, e⟩
    · rw [e]; exact h.tnd
    · rw [e]; exact h.tnd.erase _
  have hkT' : ∀ t ∈ T', t ≠ k := by
    rcases hk with ⟨g, e⟩ | ⟨g, e⟩
    · rw [e]; intro t ht; have := h.tlt t ht; omega
    · rw [e]; intro t ht e'
      rw [e'] at ht
      exact (List.Nodup.mem_erase_iff h.tnd).1 ht |>.1 rfl
  have hfree : ∀ (j : Nat) (sj : Seg), st.segs[j]? = some sj → H j → ∀ b', refOf sj.info b' ≠ some k := by
    rcases hk with ⟨g, _⟩ | ⟨g, _⟩
    · intro j sj hj hh b' hr
      have := (h.lt j sj hj hh).1 b' k hr
      omega
    · exact h.tfree k g
  refine h.update hset hs (fun j hj => hj) hm hm' hT'nd hT'sub ?_ ?_
  · intro a x hr
    rcases refOf_cases hr with ⟨e1, e2⟩ | hx
    · subst e1
      simp only at e2
      subst e2
      refine ⟨hkm, hkT', Or.inr ⟨hfree, ?_⟩⟩
      intro a' hr'
      by_contra hne
      have hr'' : refOf s.info a' = some x := by
        rw [← refOf_help_congr (inf := s.info) (inf' := { s.info with nextIsInside := b, chainIdx := x }) rfl hne]
        exact hr'
      rcases ho with g | ⟨g, _⟩
      · exact hfree o s hs g a' hr''
      · rcases refOf_cases hr'' with ⟨e, _⟩ | ⟨_, y, e⟩ | ⟨_, y, e⟩
        · exact hne e
        · rw [g] at e; cases e
        · rw [g] at e; cases e
    · have hne : a ≠ 0 := by rcases hx with ⟨e, _⟩ | ⟨e, _⟩ <;> omega
      have hr'' : refOf s.info a = some x := by
        rw [← refOf_help_congr (inf := s.info) (inf' := { s.info with nextIsInside := b, chainIdx := k }) rfl hne]
        exact hr
      rcases ho with g | ⟨g, _⟩
      · refine ⟨Nat.lt_of_lt_of_le ((h.lt o s hs g).1 a x hr'') hm, ?_, Or.inl ⟨g, hr''⟩⟩
        intro t ht e
        exact h.tfree t (hT'sub t ht) o s hs g a (e ▸ hr'')
      · rcases refOf_cases hr'' with ⟨e, _⟩ | ⟨_, y, e⟩ | ⟨_, y, e⟩
        · exact absurd e hne
        · rw [g] at e; cases e
        · rw [g] at e; cases e
  · intro k' hk'
    simp only at hk'
    rcases ho with g | ⟨_, g⟩
    · exact Nat.lt_of_lt_of_le ((h.lt o s hs g).2 k' hk') hm
    · rw [g] at hk'; cases hk'

/-- the segment below registers the tokens `x`, `y` as its `help` -/
theorem Tok.setHelp {o : Nat} {s : Seg} {x y : Nat} (h : Tok st H T m)
    (hset : st.setInfo o (fun i => { i with help := some (x, y) }) = some st')
    (hs : st.segs[o]? = some s) (ho : H o) (hx : x ∈ T) (hy : y ∈ T) (hxy : x ≠ y) :
    Tok st' H ((T.erase x).erase y) m := by
  have hnd : ((T.erase x).erase y).Nodup := (h.tnd.erase _).erase _
  have hsub : ∀ t ∈ (T.erase x).erase y, t ∈ T := fun t ht => List.mem_of_mem_erase (List.mem_of_mem_erase ht)
  have hnx : ∀ t ∈ (T.erase x).erase y, t ≠ x := by
    intro t ht e
    rw [e] at ht
    exact ((List.Nodup.mem_erase_iff h.tnd).1 (List.mem_of_mem_erase ht)).1 rfl
  have hny : ∀ t ∈ (T.erase x).erase y, t ≠ y := by
    intro t ht e
    rw [e] at ht
    exact ((List.Nodup.mem_erase_iff (h.tnd.erase _)).1 ht).1 rfl
  refine h.update hset hs (fun j hj => Or.inl hj) (Nat.le_refl _) h.le hnd hsub ?_ ?_
  · intro a k hr
    rcases refOf_cases hr with ⟨e1, e2⟩ | ⟨e1, z, e2⟩ | ⟨e1, z, e2⟩
    · subst e1
      simp only at e2
      have hr0 : refOf s.info 0 = some k := by simp only [refOf]; rw [e2]
      refine ⟨(h.lt o s hs ho).1 0 k hr0, ?_, Or.inl ⟨ho, hr0⟩⟩
      intro t ht e
      exact h.tfree t (hsub t ht) o s hs ho 0 (e ▸ hr0)
    · subst e1
      simp only [Option.some.injEq, Prod.mk.injEq] at e2
      obtain ⟨e2, _⟩ := e2
      subst e2
      refine ⟨h.tlt _ hx, hnx, Or.inr ⟨h.tfree _ hx, ?_⟩⟩
      intro a' hr'
      rcases refOf_cases hr' with ⟨e1, e3⟩ | ⟨e1, _⟩ | ⟨e1, z', e3⟩
      · exfalso
        subst e1
        simp only at e3
        exact h.tfree _ hx o s hs ho 0 (by simp only [refOf]; rw [e3])
      · exact e1
      · simp only [Option.some.injEq, Prod.mk.injEq] at e3
        exact absurd e3.2.symm hxy
    · subst e1
      simp only [Option.some.injEq, Prod.mk.injEq] at e2
      obtain ⟨_, e2⟩ := e2
      subst e2
      refine ⟨h.tlt _ hy, hny, Or.inr ⟨h.tfree _ hy, ?_⟩⟩
      intro a' hr'
      rcases refOf_cases hr' with ⟨e1, e3⟩ | ⟨e1, z', e3⟩ | ⟨e1, _⟩
      · exfalso
        subst e1
        simp only at e3
        exact h.tfree _ hy o s hs ho 0 (by simp only [refOf]; rw [e3])
      · simp only [Option.some.injEq, Prod.mk.injEq] at e3
        exact absurd e3.1 hxy
      · exact e1
  · intro k' hk'
    exact (h.lt o s hs ho).2 k' hk'

/-- `helper_chain` of the segment below is set to an index below `m` -/
theorem Tok.setHelperChain {o : Nat} {s : Seg} {k : Nat} (h : Tok st H T m)
    (hset : st.setInfo o (fun i => { i with helperChain := some k }) = some st')
    (hs : st.segs[o]? = some s) (ho : H o) (hk : k < m) : Tok st' H T m := by
  refine h.update hset hs (fun j hj => Or.inl hj) (Nat.le_refl _) h.le h.tnd (fun _ h => h) ?_ ?_
  · intro a x hr
    have hr' : refOf s.info a = some x := by
      match a, hr with
      | 0, hr => exact hr
      | 1, hr => exact hr
      | 2, hr => exact hr
      | n + 3, hr => simp [refOf] at hr
    refine ⟨(h.lt o s hs ho).1 a x hr', ?_, Or.inl ⟨ho, hr'⟩⟩
    intro t ht e
    exact h.tfree t ht o s hs ho a (e ▸ hr')
  · intro k' hk'
    simp only [Option.some.injEq] at hk'
    omega

end Geo.Proofs.MONO3
