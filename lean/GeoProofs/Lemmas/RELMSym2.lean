/-
  RELM — `propagate_side_labels` slot-wise, and the symmetry of `compute_labeling`:
  the labels of a star for the operands in the other order are the swapped labels.
-/
import GeoProofs.Lemmas.RELMSym1

namespace Geo.Proofs.RELM
open Geo Geo.GG Geo.RI

/-! ### `propagate_side_labels` on the slots -/

def startT : List TopoPos → Option Pos → Option Pos
  | [], acc => acc
  | t :: ts, acc => startT ts (if t.isArea then (match t.left with | some p => some p | none => acc) else acc)

def loopT : List TopoPos → Pos → Option (List TopoPos)
  | [], _ => some []
  | t :: ts, cur =>
    let t := if t.on.isNone then t.setOn cur else t
    if t.isArea then
      match t.right with
      | some _ =>
        (match t.left with
         | none => none
         | some lp => (loopT ts lp).map (t :: ·))
      | none => (loopT ts cur).map ((t.setRight cur).setLeft cur :: ·)
    else (loopT ts cur).map (t :: ·)

def propT (ts : List TopoPos) : Option (List TopoPos) :=
  match startT ts none with
  | none => some ts
  | some start => loopT ts start

/-- write the slots `ts` into slot `idx` of the labels `ls` -/
def setSlots (idx : Nat) (ls : List Label) (ts : List TopoPos) : List Label :=
  List.zipWith (fun l t => l.set idx t) ls ts

theorem startPosition_eq (idx : Nat) : ∀ (ls : List Label) (acc : Option Pos),
    startPosition idx ls acc = startT (ls.map (·.get idx)) acc
  | [], _ => rfl
  | l :: ls, acc => by
      simp only [startPosition, List.map_cons, startT]
      exact startPosition_eq idx ls _

theorem loopT_length : ∀ (ts : List TopoPos) (cur : Pos) (ts' : List TopoPos), loopT ts cur = some ts' →
    ts'.length = ts.length
  | [], _, ts', h => by simp only [loopT] at h; cases h; rfl
  | t :: ts, cur, ts', h => by
      simp only [loopT] at h
      have tail : ∀ (x : TopoPos) (c : Pos), (loopT ts c).map (x :: ·) = some ts' → ts'.length = (t :: ts).length := by
        intro x c hm
        cases hr : loopT ts c with
        | none => rw [hr] at hm; cases hm
        | some r =>
          rw [hr] at hm
          simp only [Option.map_some, Option.some.injEq] at hm
          subst hm
          simp [loopT_length ts c r hr]
      generalize (if t.on.isNone = true then t.setOn cur else t) = t0 at h
      by_cases hA : t0.isArea = true
      · rw [if_pos hA] at h
        cases hR : t0.right with
        | some rp =>
          rw [hR] at h
          simp only at h
          cases hL : t0.left with
          | none => rw [hL] at h; cases h
          | some lp => rw [hL] at h; exact tail _ _ h
        | none => rw [hR] at h; exact tail _ _ h
      · rw [if_neg hA] at h
        exact tail _ _ h

theorem propagateLoop_eq (idx : Nat) : ∀ (ls : List Label) (cur : Pos),
    propagateLoop idx ls cur = (loopT (ls.map (·.get idx)) cur).map (setSlots idx ls)
  | [], _ => rfl
  | l :: ls, cur => by
      simp only [propagateLoop, List.map_cons, loopT]
      have ih := propagateLoop_eq idx ls
      -- the label after the `on` step
      have h1 : (if (l.onPos idx).isNone = true then l.setOn idx cur else l) =
          l.set idx (if (l.get idx).on.isNone = true then (l.get idx).setOn cur else l.get idx) := by
        show (if (l.get idx).on.isNone = true then l.set idx ((l.get idx).setOn cur) else l) = _
        split
        · rfl
        · exact (set_get l idx).symm
      rw [h1]
      generalize (if (l.get idx).on.isNone = true then (l.get idx).setOn cur else l.get idx) = t
      have hg : (l.set idx t).get idx = t := by
        cases l; unfold Label.set Label.get; split <;> rfl
      have hss : ∀ (t' : TopoPos), (l.set idx t).set idx t' = l.set idx t' := by
        intro t'; cases l; unfold Label.set; split <;> rfl
      have cons : ∀ (t' : TopoPos) (o : Option (List TopoPos)),
          (o.map (setSlots idx ls)).map (l.set idx t' :: ·) = (o.map (t' :: ·)).map (setSlots idx (l :: ls)) := by
        intro t' o; cases o <;> rfl
      simp only [Label.isGeomArea, Label.rightPos, Label.leftPos, hg]
      by_cases hA : t.isArea = true
      · rw [if_pos hA, if_pos hA]
        cases hR : t.right with
        | some rp =>
          simp only
          cases hL : t.left with
          | none => rfl
          | some lp => simp only; rw [ih, cons]
        | none =>
          simp only
          have : ((l.set idx t).setRight idx cur).setLeft idx cur = l.set idx ((t.setRight cur).setLeft cur) := by
            cases l
            unfold Label.setLeft Label.setRight Label.set Label.get
            by_cases h : idx = 0 <;> simp [h]
          rw [this, ih, cons]
      · rw [if_neg hA, if_neg hA, ih, cons]

theorem propagate_eq (idx : Nat) (ls : List Label) :
    propagateSideLabels idx ls = (propT (ls.map (·.get idx))).map (setSlots idx ls) := by
  unfold propagateSideLabels propT
  rw [startPosition_eq]
  cases startT (ls.map (·.get idx)) none with
  | none =>
    simp only [Option.map_some]
    congr 1
    unfold setSlots
    induction ls with
    | nil => rfl
    | cons l ls ih => simp only [List.map_cons, List.zipWith_cons_cons, set_get, ← ih]
  | some st => exact propagateLoop_eq idx ls st

theorem propT_length {ts ts' : List TopoPos} (h : propT ts = some ts') : ts'.length = ts.length := by
  unfold propT at h
  split at h
  · cases h; rfl
  · exact loopT_length _ _ _ h

/-! ### `setSlots` -/

theorem setSlots_get_same (idx : Nat) : ∀ (ls : List Label) (ts : List TopoPos), ts.length = ls.length →
    (setSlots idx ls ts).map (·.get idx) = ts
  | [], [], _ => rfl
  | l :: ls, t :: ts, h => by
      simp only [setSlots, List.zipWith_cons_cons, List.map_cons]
      have := setSlots_get_same idx ls ts (by simpa using h)
      unfold setSlots at this
      rw [this]
      congr 1
      cases l; unfold Label.set Label.get; split <;> rfl
  | [], _ :: _, h => by simp at h
  | _ :: _, [], h => by simp at h

theorem setSlots0_get1 : ∀ (ls : List Label) (ts : List TopoPos), ts.length = ls.length →
    (setSlots 0 ls ts).map (·.get 1) = ls.map (·.get 1)
  | [], [], _ => rfl
  | l :: ls, t :: ts, h => by
      simp only [setSlots, List.zipWith_cons_cons, List.map_cons]
      have := setSlots0_get1 ls ts (by simpa using h)
      unfold setSlots at this
      rw [this]
      rfl
  | [], _ :: _, h => by simp at h
  | _ :: _, [], h => by simp at h

theorem setSlots1_get0 : ∀ (ls : List Label) (ts : List TopoPos), ts.length = ls.length →
    (setSlots 1 ls ts).map (·.get 0) = ls.map (·.get 0)
  | [], [], _ => rfl
  | l :: ls, t :: ts, h => by
      simp only [setSlots, List.zipWith_cons_cons, List.map_cons]
      have := setSlots1_get0 ls ts (by simpa using h)
      unfold setSlots at this
      rw [this]
      rfl
  | [], _ :: _, h => by simp at h
  | _ :: _, [], h => by simp at h

theorem setSlots_comm : ∀ (ls : List Label) (ts us : List TopoPos),
    setSlots 1 (setSlots 0 ls ts) us = setSlots 0 (setSlots 1 ls us) ts
  | [], _, _ => by simp [setSlots]
  | _ :: _, [], [] => by simp [setSlots]
  | _ :: _, [], _ :: _ => by simp [setSlots]
  | _ :: _, _ :: _, [] => by simp [setSlots]
  | l :: ls, t :: ts, u :: us => by
      have := setSlots_comm ls ts us
      unfold setSlots at this ⊢
      simp only [List.zipWith_cons_cons, this]
      rfl

theorem setSlots_swap (idx : Nat) : ∀ (ls : List Label) (ts : List TopoPos),
    (setSlots idx ls ts).map Label.swap = setSlots (other idx) (ls.map Label.swap) ts
  | [], _ => by simp [setSlots]
  | _ :: _, [] => by simp [setSlots]
  | l :: ls, t :: ts => by
      have := setSlots_swap idx ls ts
      unfold setSlots at this ⊢
      simp only [List.zipWith_cons_cons, List.map_cons, this]
      congr 1
      cases l; unfold Label.set Label.swap other
      by_cases h : idx = 0 <;> simp [h]

theorem setSlots_length (idx : Nat) (ls : List Label) (ts : List TopoPos) (h : ts.length = ls.length) :
    (setSlots idx ls ts).length = ls.length := by
  unfold setSlots; simp [h]

/-! ### the two propagations commute and are exchanged by the swap -/

theorem map_get_swap (idx : Nat) (ls : List Label) :
    (ls.map Label.swap).map (·.get idx) = ls.map (·.get (other idx)) := by
  rw [List.map_map]
  apply List.map_congr_left
  intro l _
  exact swap_get l idx

theorem propagate_swap (idx : Nat) (ls : List Label) :
    propagateSideLabels idx (ls.map Label.swap) = (propagateSideLabels (other idx) ls).map (·.map Label.swap) := by
  rw [propagate_eq, propagate_eq, map_get_swap, Option.map_map]
  congr 1
  funext ts
  by_cases h : idx = 0
  · subst h
    simp only [Function.comp]
    have := setSlots_swap 1 ls ts
    simpa [other] using this.symm
  · have h1 : other idx = 0 := by simp [other, h]
    simp only [Function.comp, h1]
    have := setSlots_swap 0 ls ts
    rw [this]
    -- `setSlots idx` for an index other than 0 writes slot 1
    have hidx : ∀ (ls' : List Label), setSlots idx ls' ts = setSlots 1 ls' ts := by
      intro ls'
      unfold setSlots
      congr 1
      funext l t
      cases l; unfold Label.set; simp [h]
    rw [hidx]
    rfl

/-- the two propagations, in either order -/
theorem propagate_comm (ls : List Label) :
    (propagateSideLabels 0 ls).bind (propagateSideLabels 1) = (propagateSideLabels 1 ls).bind (propagateSideLabels 0) := by
  simp only [propagate_eq]
  cases hA : propT (ls.map (·.get 0)) with
  | none =>
    simp only [Option.map_none, Option.bind_none]
    cases hB : propT (ls.map (·.get 1)) with
    | none => rfl
    | some us =>
      simp only [Option.map_some, Option.bind_some]
      rw [setSlots1_get0 ls us (by rw [propT_length hB, List.length_map]), hA]
      rfl
  | some ts =>
    have lt : ts.length = ls.length := by rw [propT_length hA, List.length_map]
    simp only [Option.map_some, Option.bind_some]
    rw [setSlots0_get1 ls ts lt]
    cases hB : propT (ls.map (·.get 1)) with
    | none => rfl
    | some us =>
      have lu : us.length = ls.length := by rw [propT_length hB, List.length_map]
      simp only [Option.map_some, Option.bind_some]
      rw [setSlots1_get0 ls us lu, hA]
      simp only [Option.map_some]
      rw [setSlots_comm]

/-! ### the collapse flag -/

theorem collapseFlag_swap (idx : Nat) (ls : List Label) :
    collapseFlag idx (ls.map Label.swap) = collapseFlag (other idx) ls := by
  unfold collapseFlag
  rw [List.getLast?_map]
  cases ls.getLast? with
  | none => rfl
  | some l =>
    simp only [Option.map_some, Label.isLineAt, Label.onPos, swap_get]

theorem collapseFlag_mapSlot_other (ls : List Label) (f : Label → Label) (idx : Nat)
    (hf : ∀ l, (f l).get idx = l.get idx) : collapseFlag idx (ls.map f) = collapseFlag idx ls := by
  unfold collapseFlag
  rw [List.getLast?_map]
  cases ls.getLast? with
  | none => rfl
  | some l => simp only [Option.map_some, Label.isLineAt, Label.onPos, hf]

/-! ### `compute_labeling` for the operands in the other order -/

/-- exchange the slots of the labels of the edge ends of a bundle (the key is an edge end too) -/
def swapB (b : Bundle) : Bundle := ⟨swapE b.key, b.ends.map swapE⟩

theorem fill_swap (a b : Geom) (c0 c1 : Bool) (c : Pt) (l : Label) :
    fillEmpty a c1 c (fillEmpty b c0 c l.swap 0) 1 = (fillEmpty b c0 c (fillEmpty a c1 c l 0) 1).swap := by
  simp only [fillEmpty_eq]
  rw [mapSlot_swap, mapSlot_swap]
  cases l
  rfl

/-- `into_labeled` of a star with the two propagations as one `bind` -/
theorem starLabels_eq_bind (a b : Geom) (c : Pt) (star : List Bundle) :
    starLabels a b c star =
      ((propagateSideLabels 0 (star.map (fun bd => bundleLabel bd.ends))).bind (propagateSideLabels 1)).map
        (fun lsF => lsF.map (fun l =>
          fillEmpty b (collapseFlag 1 lsF) c (fillEmpty a (collapseFlag 0 lsF) c l 0) 1)) := by
  unfold starLabels
  simp only
  cases propagateSideLabels 0 (star.map (fun bd => bundleLabel bd.ends)) with
  | none => rfl
  | some ls0 =>
    simp only [Option.bind_some]
    cases propagateSideLabels 1 ls0 <;> rfl

/-- **the labels of a star for the operands in the other order**: build the star from the swapped
edge ends, call `into_labeled` with the graphs exchanged — the result is the list of swapped labels. -/
theorem starLabels_swap (a b : Geom) (c : Pt) (star : List Bundle) :
    starLabels b a c (star.map swapB) = (starLabels a b c star).map (·.map Label.swap) := by
  rw [starLabels_eq_bind, starLabels_eq_bind]
  have hls : (star.map swapB).map (fun bd => bundleLabel bd.ends) =
      (star.map (fun bd => bundleLabel bd.ends)).map Label.swap := by
    rw [List.map_map, List.map_map]
    apply List.map_congr_left
    intro bd _
    simp only [Function.comp, swapB, bundleLabel_swap]
  rw [hls]
  generalize star.map (fun bd => bundleLabel bd.ends) = ls
  have key : (propagateSideLabels 0 (ls.map Label.swap)).bind (propagateSideLabels 1) =
      ((propagateSideLabels 0 ls).bind (propagateSideLabels 1)).map (·.map Label.swap) := by
    rw [propagate_swap 0, propagate_comm]
    show ((propagateSideLabels 1 ls).map _).bind _ = _
    cases propagateSideLabels 1 ls with
    | none => rfl
    | some ls1 =>
      simp only [Option.map_some, Option.bind_some]
      rw [propagate_swap 1]
      rfl
  rw [key]
  cases (propagateSideLabels 0 ls).bind (propagateSideLabels 1) with
  | none => rfl
  | some lsF =>
    simp only [Option.map_some, Option.some.injEq]
    rw [collapseFlag_swap, collapseFlag_swap, List.map_map, List.map_map]
    apply List.map_congr_left
    intro l _
    simp only [Function.comp]
    exact fill_swap a b _ _ c l

end Geo.Proofs.RELM
