/-
  C08 helper lemmas — uniqueness of the strict hull: two rings accepted by the checker
  `isStrictHull` for the same coordinates have the same vertices.

  Proof: a vertex `x` of the first ring with neighbours `u`, `w` is the only zero among the input
  coordinates of the affine function `L p = cross u x p + cross x w p ≥ 0`. Take a vertex `z` of the
  second ring where `L` is least, with its neighbours `z⁻`, `z⁺`. `x` is left of or on both edges
  at `z`, i.e. in the cone `z + s (z⁺ - z) + t (z⁻ - z)`, `s, t ≥ 0`, where `L ≥ L z`. So
  `L z ≤ L x = 0`, hence `L z = 0` and `z = x`.
-/
import GeoModel.Hull
import GeoProofs.Lemmas.C08QSort
import GeoProofs.Lemmas.C08QHull
import GeoProofs.Lemmas.QHULRing

namespace Geo.Proofs.C08
open Geo Geo.Hull

/-- what the checker establishes about the vertex list `v = h.dropLast`, as a periodic sequence -/
structure CycHull (v pts : List Pt) : Prop where
  n2 : 2 ≤ v.length
  turn : ∀ j, 0 < cross (cyc v j) (cyc v (j + 1)) (cyc v (j + 1 + 1))
  mem : ∀ j, cyc v j ∈ pts
  left : ∀ j, ∀ p ∈ pts, 0 ≤ cross (cyc v j) (cyc v (j + 1)) p

theorem cyc_mem (v : List Pt) (hn : 0 < v.length) (j : Nat) : cyc v j ∈ v := by
  have h := cyc_lt v (j % v.length) (Nat.mod_lt j hn)
  have e : cyc v (j % v.length) = cyc v j := by simpa using cyc_succ_mod v j 0
  rw [e] at h
  exact List.mem_of_getElem? h

theorem mem_cyc (v : List Pt) (x : Pt) (hx : x ∈ v) : ∃ j, x = cyc v j := by
  obtain ⟨j, hj⟩ := List.getElem?_of_mem hx
  have hl := (List.getElem?_eq_some_iff.1 hj).1
  rw [cyc_lt v j hl] at hj
  exact ⟨j, (Option.some.inj hj).symm⟩

theorem cycHull_of_isStrictHull (h pts : List Pt) (hs : isStrictHull h pts = true) :
    CycHull h.dropLast pts ∧ (∀ x ∈ h, x ∈ h.dropLast) ∧ (∀ x ∈ h.dropLast, x ∈ h) := by
  unfold isStrictHull at hs
  simp only [Bool.and_eq_true, List.all_eq_true, List.contains_eq_mem, decide_eq_true_eq,
    beq_iff_eq] at hs
  obtain ⟨⟨⟨⟨_, hc⟩, ht⟩, hv⟩, hl⟩ := hs
  obtain ⟨hn2, hturn⟩ := cyc_turn _ ht
  have hring := closed_ring_eq h hc (by omega)
  have hsub : ∀ x ∈ h.dropLast, x ∈ h := fun x hx => List.dropLast_subset h hx
  generalize h.dropLast = v at *
  have hn : 0 < v.length := by omega
  refine ⟨⟨hn2, ?_, ?_, ?_⟩, ?_, hsub⟩
  · intro j
    have := hturn j
    rwa [cD_turn] at this
  · intro j
    exact hv _ (hsub _ (cyc_mem v hn j))
  · intro j p hp
    have hj := Nat.mod_lt j hn
    have e0 : cyc v (j % v.length) = cyc v j := by simpa using cyc_succ_mod v j 0
    have e1 := cyc_succ_mod v j 1
    have hg := edges_get (v ++ v.take 1) (j % v.length) _ _
      (cyc_append_take v 1 (by omega) _ (by omega)) (cyc_append_take v 1 (by omega) _ (by omega))
    rw [e0, e1, ← hring] at hg
    exact hl p hp (cyc v j, cyc v (j + 1)) (List.mem_of_getElem? hg)
  · intro x hx
    rw [hring] at hx
    rcases List.mem_append.1 hx with hx | hx
    · exact hx
    · exact List.mem_of_mem_take hx

theorem exists_min_on (f : Pt → Rat) : ∀ l : List Pt, l ≠ [] → ∃ z ∈ l, ∀ y ∈ l, f z ≤ f y
  | [], h => absurd rfl h
  | [a], _ => ⟨a, by simp, by intro y hy; simp at hy; rw [hy]⟩
  | a :: b :: t, _ => by
    obtain ⟨z, hz, hmin⟩ := exists_min_on f (b :: t) (by simp)
    by_cases hle : f a ≤ f z
    · refine ⟨a, by simp, ?_⟩
      intro y hy
      rcases List.mem_cons.1 hy with hy | hy
      · rw [hy]
      · exact le_trans hle (hmin y hy)
    · refine ⟨z, List.mem_cons_of_mem _ hz, ?_⟩
      intro y hy
      rcases List.mem_cons.1 hy with hy | hy
      · rw [hy]; exact le_of_lt (not_le.1 hle)
      · exact hmin y hy

/-- two lines through `x` that are not parallel meet only in `x` -/
theorem eq_of_two_lines {u x w z : Pt} (hD : cross u x w ≠ 0) (h1 : cross u x z = 0)
    (h2 : cross x w z = 0) : z = x := by
  have hx : (z.x - x.x) * cross u x w = -(x.x - u.x) * cross x w z + (w.x - x.x) * cross u x z := by
    unfold cross; ring
  have hy : (z.y - x.y) * cross u x w = -(x.y - u.y) * cross x w z + (w.y - x.y) * cross u x z := by
    unfold cross; ring
  rw [h1, h2] at hx hy
  simp only [mul_zero, add_zero] at hx hy
  have ex : z.x - x.x = 0 := (mul_eq_zero.1 hx).resolve_right hD
  have ey : z.y - x.y = 0 := (mul_eq_zero.1 hy).resolve_right hD
  cases z; cases x
  simp only [Pt.mk.injEq] at *
  constructor <;> linarith

/-- the cone inequality: an affine function (here a sum of two `cross` terms) at a point `x` of the
cone at `z` spanned by the edges to `zm`, `zp` -/
theorem cone_identity (u x' w zm z zp x : Pt) :
    ((cross u x' x + cross x' w x) - (cross u x' z + cross x' w z)) * cross zm z zp =
      ((cross u x' zm + cross x' w zm) - (cross u x' z + cross x' w z)) * cross z zp x +
      ((cross u x' zp + cross x' w zp) - (cross u x' z + cross x' w z)) * cross zm z x := by
  unfold cross; ring

/-- **every vertex of one strict hull is a vertex of any other strict hull of the same
coordinates** -/
theorem cycHull_vertex_mem (v k pts : List Pt) (hv : CycHull v pts) (hk : CycHull k pts) (j : Nat) :
    cyc v (j + 1) ∈ k := by
  have hkn : 0 < k.length := by have := hk.n2; omega
  have hkne : k ≠ [] := by intro h; rw [h] at hkn; simp at hkn
  obtain ⟨z, hz, hmin⟩ := exists_min_on
    (fun p => cross (cyc v j) (cyc v (j + 1)) p + cross (cyc v (j + 1)) (cyc v (j + 1 + 1)) p) k hkne
  obtain ⟨i, hi⟩ := mem_cyc k z hz
  -- an index with a predecessor
  have hi' : z = cyc k (i + k.length - 1 + 1) := by
    rw [hi, show i + k.length - 1 + 1 = i + k.length by omega, cyc_per]
  generalize i + k.length - 1 = i0 at hi'
  have hD := hk.turn i0
  have hA := hk.left i0 _ (hv.mem (j + 1))
  have hB := hk.left (i0 + 1) _ (hv.mem (j + 1))
  have hm := hmin _ (cyc_mem k hkn i0)
  have hp := hmin _ (cyc_mem k hkn (i0 + 1 + 1))
  have hz1 := hv.left j z (by rw [hi]; exact hk.mem i)
  have hz2 := hv.left (j + 1) z (by rw [hi]; exact hk.mem i)
  rw [← hi'] at hD hA hB
  have key := cone_identity (cyc v j) (cyc v (j + 1)) (cyc v (j + 1 + 1)) (cyc k i0) z
    (cyc k (i0 + 1 + 1)) (cyc v (j + 1))
  rw [cross_self_right, cross_self_outer] at key
  have hnn : 0 ≤ (0 + 0 - (cross (cyc v j) (cyc v (j + 1)) z + cross (cyc v (j + 1)) (cyc v (j + 1 + 1)) z)) *
      cross (cyc k i0) z (cyc k (i0 + 1 + 1)) := by
    rw [key]
    exact add_nonneg (mul_nonneg (by linarith) hB) (mul_nonneg (by linarith) hA)
  have hL : cross (cyc v j) (cyc v (j + 1)) z + cross (cyc v (j + 1)) (cyc v (j + 1 + 1)) z ≤ 0 := by
    by_contra hpos
    have := mul_neg_of_neg_of_pos (by linarith [not_le.1 hpos] :
      0 + 0 - (cross (cyc v j) (cyc v (j + 1)) z + cross (cyc v (j + 1)) (cyc v (j + 1 + 1)) z) < 0) hD
    linarith
  have e1 : cross (cyc v j) (cyc v (j + 1)) z = 0 := by linarith
  have e2 : cross (cyc v (j + 1)) (cyc v (j + 1 + 1)) z = 0 := by linarith
  have := eq_of_two_lines (ne_of_gt (hv.turn j)) e1 e2
  rw [← this]; exact hz

/-- **uniqueness of the strict hull**: two rings accepted by the checker for the same coordinates
have the same vertex set -/
theorem strictHull_unique (h k pts : List Pt) (hh : isStrictHull h pts = true)
    (hk : isStrictHull k pts = true) : sameVertexSet h k = true := by
  obtain ⟨ch, hh1, hh2⟩ := cycHull_of_isStrictHull h pts hh
  obtain ⟨ck, hk1, hk2⟩ := cycHull_of_isStrictHull k pts hk
  have hper := fun (v : List Pt) (j : Nat) => cyc_per v j
  have dir : ∀ (h k : List Pt), CycHull h.dropLast pts → CycHull k.dropLast pts →
      (∀ x ∈ h, x ∈ h.dropLast) → (∀ x ∈ k.dropLast, x ∈ k) → ∀ x ∈ h, x ∈ k := by
    intro h k ch ck hh1 hk2 x hx
    obtain ⟨j, hj⟩ := mem_cyc _ x (hh1 x hx)
    have hn := ch.n2
    have : x = cyc h.dropLast (j + h.dropLast.length - 1 + 1) := by
      rw [hj, show j + h.dropLast.length - 1 + 1 = j + h.dropLast.length by omega, cyc_per]
    rw [this]
    exact hk2 _ (cycHull_vertex_mem _ _ pts ch ck _)
  unfold sameVertexSet
  simp only [Bool.and_eq_true, List.all_eq_true, List.contains_eq_mem, decide_eq_true_eq]
  exact ⟨dir h k ch ck hh1 hk2, dir k h ck ch hk1 hh2⟩

end Geo.Proofs.C08
