/-
  SMLX (C05), part 10: the two definitions of "simple closed ring" agree.

  `simpleRing` (GeoModel/SimpleRing.lean: orientation tests `segsMeet` / `foldsBack` on the array of merged
  coordinates; what the C05 driver branches on) and `ringSimple` (GeoModel/Valid.lean: `line_intersection` and
  `Line: Intersects<Line>` on the list of merged segments; what the theorems are stated for) are the same
  Boolean function: `simpleRing_eq_ringSimple`. Pair by pair: consecutive segments through
  `adjacentOk_iff` / `foldsBack_iff`, the others through `lineLine_iff` / `segsMeet_iff`.
-/
import GeoProofs.Lemmas.SMLXSegs
import GeoProofs.Lemmas.C14PRing
import GeoProofs.Lemmas.C14PGeom
import GeoProofs.Lemmas.C02QHoles

set_option linter.unusedSimpArgs false
set_option linter.unusedVariables false

namespace Geo.Proofs.SMLX
open Geo Geo.V Geo.Proofs.Kernel Geo.Proofs.C14P

theorem dedupConsec_eq : ∀ l : List Pt, dedupConsec l = dedupConsecutive l
  | [] => rfl
  | [_] => rfl
  | a :: b :: rest => by
    simp only [dedupConsec, dedupConsecutive]
    by_cases h : a = b
    · simp [h, dedupConsec_eq (b :: rest)]
    · simp [h, dedupConsec_eq (b :: rest)]

/-- the per-pair test of `simpleRing` on the coordinates `a b` (edge `i`) and `c e` (edge `j`) -/
def okS (m i j : Nat) (a b c e : Pt) : Bool :=
  if j = i + 1 then !foldsBack b a e
  else if i = 0 && j = m - 1 then !foldsBack a b c
  else !segsMeet a b c e

theorem bool_not_eq_of_iff {x y : Bool} (h : x = true ↔ ¬ (y = true)) : x = !y := by
  cases x <;> cases y <;> simp_all

theorem bool_not_eq_not_of_iff {x y : Bool} (h : x = true ↔ y = true) : (!x) = !y := by
  cases x <;> cases y <;> simp_all

/-- pair by pair the two tests agree, on a closed list without repeated consecutive coordinates -/
theorem okS_eq_okR {d : List Pt} (hnd : ∀ s ∈ segs d, s.1 ≠ s.2) (hc : d.head? = d.getLast?)
    {i j : Nat} (hij : i < j) (hj : j + 1 < d.length) {a b c e : Pt}
    (ha : d[i]? = some a) (hb : d[i + 1]? = some b) (hcj : d[j]? = some c) (he : d[j + 1]? = some e) :
    okS (d.length - 1) i j a b c e = okR (segs d).length i j (a, b) (c, e) := by
  have hlen : (segs d).length = d.length - 1 := segs_length d
  have s1 : (a, b) ∈ segs d := List.mem_of_getElem? ((segs_getElem? d i (a, b)).mpr ⟨ha, hb⟩)
  have s2 : (c, e) ∈ segs d := List.mem_of_getElem? ((segs_getElem? d j (c, e)).mpr ⟨hcj, he⟩)
  have nab : a ≠ b := hnd _ s1
  have nce : c ≠ e := hnd _ s2
  unfold okS okR
  by_cases h1 : j = i + 1
  · subst h1
    rw [hb] at hcj
    have : b = c := Option.some.inj hcj
    subst this
    rw [if_pos rfl]
    have : ((i + 1 == i + 1) = true) := by simp
    rw [if_pos this]
    symm
    apply bool_not_eq_of_iff
    rw [adjacentOk_iff a b e nab nce, foldsBack_iff b a e nab nce]
  · rw [if_neg h1]
    have e1 : (j == i + 1) = false := by simpa using h1
    rw [e1]
    simp only [Bool.false_eq_true, if_false]
    by_cases h2 : i = 0 ∧ j = d.length - 1 - 1
    · obtain ⟨rfl, hjm⟩ := h2
      have c1 : (decide (0 = 0) && decide (j = d.length - 1 - 1)) = true := by simp [hjm]
      have c2 : ((0 : Nat) == 0 && j + 1 == (segs d).length) = true := by
        rw [hlen]; simp; omega
      rw [if_pos c1, if_pos c2]
      -- the last coordinate is the first
      have hea : e = a := by
        have h0 : d.head? = d[0]? := by cases d <;> simp
        have hl : d.getLast? = d[d.length - 1]? := List.getLast?_eq_getElem?
        have : j + 1 = d.length - 1 := by omega
        rw [this] at he
        rw [h0, hl, ha, he] at hc
        exact (Option.some.inj hc).symm
      subst hea
      symm
      apply bool_not_eq_of_iff
      rw [adjacentOk_iff c e b nce nab, foldsBack_symm, foldsBack_iff e c b nce nab]
    · have c1 : (decide (i = 0) && decide (j = d.length - 1 - 1)) = false := by
        rw [Bool.eq_false_iff]; intro hh; apply h2; simpa using hh
      have c2 : (i == 0 && j + 1 == (segs d).length) = false := by
        rw [Bool.eq_false_iff]; intro hh; apply h2
        rw [hlen] at hh
        simp only [Bool.and_eq_true, beq_iff_eq] at hh
        exact ⟨hh.1, by omega⟩
      rw [c1, c2]
      simp only [Bool.false_eq_true, if_false]
      apply bool_not_eq_not_of_iff
      rw [segsMeet_iff, lineLine_iff]

/-- **the two definitions of a simple closed ring are the same function** -/
theorem simpleRing_eq_ringSimple (r : List Pt) : simpleRing r = ringSimple r := by
  have hh := dedup_head? r
  have hl := dedup_getLast? r
  have hle := Geo.Proofs.C02Q.dedup_length_le r
  have hlen : (segs (dedupConsecutive r)).length = (dedupConsecutive r).length - 1 := segs_length _
  rw [ringSimple_def]
  unfold simpleRing
  rw [dedupConsec_eq]
  by_cases hA : r.length < 4 ∨ r.head? ≠ r.getLast?
  · have c : (decide (r.length < 4) || decide (r.head? ≠ r.getLast?)) = true := by simpa using hA
    rw [if_pos c]
    symm
    rw [Bool.eq_false_iff]
    intro h
    simp only [Bool.and_eq_true, decide_eq_true_eq] at h
    obtain ⟨⟨h1, h2⟩, _⟩ := h
    rcases hA with hA | hA
    · omega
    · rw [hh, hl] at h1; exact hA h1
  · have c : (decide (r.length < 4) || decide (r.head? ≠ r.getLast?)) = false := by
      rw [Bool.eq_false_iff]; intro h; apply hA; simpa using h
    rw [if_neg (by rw [c]; simp)]
    have hcl : r.head? = r.getLast? := by
      by_contra h; exact hA (Or.inr h)
    have hcd : (dedupConsecutive r).head? = (dedupConsecutive r).getLast? := by rw [hh, hl]; exact hcl
    simp only [List.size_toArray]
    by_cases hm : (dedupConsecutive r).length - 1 < 3
    · rw [if_pos hm]
      symm
      rw [Bool.eq_false_iff]
      intro h
      simp only [Bool.and_eq_true, decide_eq_true_eq] at h
      omega
    · rw [if_neg hm]
      have e1 : decide ((dedupConsecutive r).head? = (dedupConsecutive r).getLast?) = true := by simpa using hcd
      have e2 : decide ((segs (dedupConsecutive r)).length ≥ 3) = true := by
        simp only [decide_eq_true_eq]; omega
      rw [e1, e2, Bool.true_and, Bool.true_and]
      rw [Bool.eq_iff_iff, allPairs_iff]
      simp only [List.all_eq_true, List.mem_range]
      have hnd := segs_dedup_nd r
      constructor
      · intro h i j s t hij hs ht
        obtain ⟨s1, s2⟩ := (segs_getElem? _ i s).mp hs
        obtain ⟨t1, t2⟩ := (segs_getElem? _ j t).mp ht
        have hjl : j + 1 < (dedupConsecutive r).length := (List.getElem?_eq_some_iff.1 t2).1
        have := h i (by omega) j (by omega)
        rw [if_neg (by omega)] at this
        simp only [s1, s2, t1, t2, Option.getD_some, List.getElem!_toArray, List.getElem!_eq_getElem?_getD] at this
        have hk := okS_eq_okR hnd hcd hij hjl s1 s2 t1 t2
        unfold okS at hk
        rw [← hk]
        exact this
      · intro h i hi j hj
        by_cases hji : j ≤ i
        · rw [if_pos hji]
        · rw [if_neg hji]
          have hij : i < j := by omega
          have hjl : j + 1 < (dedupConsecutive r).length := by omega
          obtain ⟨a, ha⟩ : ∃ a, (dedupConsecutive r)[i]? = some a := ⟨_, List.getElem?_eq_getElem (by omega)⟩
          obtain ⟨b, hb⟩ : ∃ b, (dedupConsecutive r)[i + 1]? = some b := ⟨_, List.getElem?_eq_getElem (by omega)⟩
          obtain ⟨c', hc'⟩ : ∃ c, (dedupConsecutive r)[j]? = some c := ⟨_, List.getElem?_eq_getElem (by omega)⟩
          obtain ⟨e, he⟩ : ∃ e, (dedupConsecutive r)[j + 1]? = some e := ⟨_, List.getElem?_eq_getElem hjl⟩
          have := h i j (a, b) (c', e) hij ((segs_getElem? _ i (a, b)).mpr ⟨ha, hb⟩)
            ((segs_getElem? _ j (c', e)).mpr ⟨hc', he⟩)
          have hk := okS_eq_okR hnd hcd hij hjl ha hb hc' he
          rw [← hk] at this
          unfold okS at this
          simp only [ha, hb, hc', he, Option.getD_some, List.getElem!_toArray, List.getElem!_eq_getElem?_getD]
          exact this

end Geo.Proofs.SMLX
