/-
  C02Z, part 5: the pairs `LineString × Line` and `LineString × LineString` of `contains` on the validity domain, outside
  the one class of inputs for which the completeness of the truncation loop is not proved:

      the line string is CLOSED and its first (= last) coordinate lies strictly inside the query segment      (`noWrap = false`)

  — the query runs through the closure point, i.e. the first edge of the ring continues the last one; there the first pass
  over the segments leaves a stretch of the query that only the second pass (up to the first cut segment) removes.
  For every other input (every open line string; every closed one whose closure point is not strictly inside the query)
  the first pass answers (`lsContainsLine_complete`), and

      lsContainsLine cs a b = true  ⇔  every point of `[a, b]` is on the line string                 (`lsContainsLine_iff_noWrap`)

  hence `containsM = is_contains (relateSpec ..)` for both pairs (`containsM_lineString_line_noWrap`,
  `containsM_lineString_lineString_noWrap`).
-/
import GeoProofs.Lemmas.C02ZLoop
import GeoProofs.Lemmas.C02ZSimple
import GeoProofs.Lemmas.C02ZLs

set_option linter.unusedSimpArgs false
set_option linter.unusedVariables false

namespace Geo.Proofs.C02Z
open Geo Geo.Proofs.Kernel Geo.Proofs.Spec Geo.Proofs.C02Y

/-- the query `[a, b]` does not run through the closure point of a closed line string -/
def noWrap (cs : List Pt) (a b : Pt) : Bool :=
  !isClosedLS cs || (match cs.head? with | some w => !lineContainsCoord a b w | none => true)

theorem noWrap_of_open {cs : List Pt} (h : isClosedLS cs = false) (a b : Pt) : noWrap cs a b = true := by
  simp [noWrap, h]

/-- the segments of a valid line string as a `SimpleChain` whose exceptional point is harmless for the query -/
theorem chain_of_noWrap {cs : List Pt} (hs : lineStringSimple cs = true) {a b : Pt} (hab : a ≠ b)
    (hnw : noWrap cs a b = true) : ∃ w, SimpleChain w (segs cs) ∧ lineContainsCoord a b w = false := by
  cases hcl : isClosedLS cs with
  | false =>
    refine ⟨a, simpleChain_of_simple_open hs hcl a, ?_⟩
    have hne : (a == b) = false := by simpa using hab
    simp [lineContainsCoord, hne]
  | true =>
    cases hh : cs.head? with
    | none =>
      have : cs = [] := by simpa using hh
      subst this
      exact absurd hs (by decide)
    | some w =>
      refine ⟨w, simpleChain_of_simple hs w hh, ?_⟩
      simpa [noWrap, hcl, hh] using hnw

/-- **the truncation loop decides "the segment lies on the line string"** (valid line string, non-degenerate query not
running through the closure point of a closed line string) -/
theorem lsContainsLine_iff_noWrap (cs : List Pt) (a b : Pt) (hd : inDomain (.lineString cs) = true) (hab : a ≠ b)
    (hnw : noWrap cs a b = true) :
    lsContainsLine cs a b = true ↔ ∀ x, SegMem x a b → ∃ s ∈ segs cs, SegMem x s.1 s.2 := by
  refine ⟨lsContainsLine_sound cs a b hab, fun hcov => ?_⟩
  have hv : cs.isEmpty = true ∨ lineStringSimple cs = true := by simpa [inDomain, validGeom] using hd
  rcases hv with he | hs
  · have : cs = [] := List.isEmpty_iff.mp he
    subst this
    obtain ⟨s, hs, _⟩ := hcov a (SegMem_left a b)
    simp [segs] at hs
  · obtain ⟨w, hchain, hw⟩ := chain_of_noWrap hs hab hnw
    exact lsContainsLine_complete cs a b hab w hchain hw hcov

/-- `LineString: Contains<Line>` is the mask `T*****FF*` on the specification -/
theorem containsM_lineString_line_noWrap (cs : List Pt) (c d : Pt) (ha : inDomain (.lineString cs) = true)
    (hb : inDomain (.line c d) = true) (hnw : noWrap cs c d = true) :
    containsM (.lineString cs) (.line c d) = Gen.isContains (relateSpec (.lineString cs) (.line c d)) := by
  have hcd : c ≠ d := by simpa [inDomain, validGeom] using hb
  exact containsM_lineString_line_of_loop cs c d hb (lsContainsLine_iff_noWrap cs c d ha hcd hnw)

/-- no proper segment of the argument runs through the closure point of the closed line string `cs` -/
def noWrapLs (cs ds : List Pt) : Bool := (segs ds).all (fun s => s.1 == s.2 || noWrap cs s.1 s.2)

theorem noWrapLs_of_open {cs : List Pt} (h : isClosedLS cs = false) (ds : List Pt) : noWrapLs cs ds = true := by
  simp [noWrapLs, noWrap_of_open h]

/-- `LineString: Contains<LineString>` is the mask `T*****FF*` on the specification -/
theorem containsM_lineString_lineString_noWrap (cs ds : List Pt) (ha : inDomain (.lineString cs) = true)
    (hb : inDomain (.lineString ds) = true) (hnw : noWrapLs cs ds = true) :
    containsM (.lineString cs) (.lineString ds) =
      Gen.isContains (relateSpec (.lineString cs) (.lineString ds)) := by
  apply containsM_lineString_lineString_of_loop cs ds ha hb
  intro s hs hne hcov
  have h := List.all_eq_true.mp hnw s hs
  have hnw' : noWrap cs s.1 s.2 = true := by
    rcases Bool.or_eq_true_iff.mp h with h | h
    · exact absurd (by simpa using h) hne
    · exact h
  exact (lsContainsLine_iff_noWrap cs s.1 s.2 ha hne hnw').mpr hcov

end Geo.Proofs.C02Z
