/-
  C06 helper layer 4: ring-level agreement of the code's contributions with the specification's
  atoms; the interior accumulator of a polygon.
-/
import GeoProofs.Lemmas.C06Ring
import GeoProofs.Lemmas.C06Dom

namespace Geo.Proofs.C06
open Geo Geo.Cen

theorem lineC_eq_atom (len : Pt → Pt → Rat) (a b : Pt) : lineC len a b = (segAtom len a b).toWC := by
  unfold lineC segAtom
  split <;> rfl

theorem lineStringC_eq_atoms (len : Pt → Pt → Rat) (cs : List Pt) :
    lineStringC len cs = (lineStringAtoms len cs).map Atom.toWC := by
  match cs with
  | [] => rfl
  | [c] => rfl
  | a :: b :: t =>
    simp only [lineStringC, lineStringAtoms, List.map_map]
    apply List.map_congr_left
    intro l _
    exact lineC_eq_atom len l.1 l.2

theorem lsDims_cons (f : Pt) (t : List Pt) :
    lsDims (f :: t) = if (f :: t).all (fun c => c = f) then 1 else 2 := by
  simp only [lsDims]
  by_cases h : (f :: t).any (fun c => f ≠ c)
  · rw [if_pos h]
    have : ¬ ((f :: t).all (fun c => decide (c = f)) = true) := by
      simp only [List.any_eq_true, List.all_eq_true, decide_eq_true_eq] at h ⊢
      rcases h with ⟨c, hc, hne⟩
      intro hall
      exact hne (hall c hc).symm
    rw [if_neg this]
  · rw [if_neg h]
    have : (f :: t).all (fun c => decide (c = f)) = true := by
      simp only [List.any_eq_true, List.all_eq_true, decide_eq_true_eq, not_exists, not_and, not_not] at h ⊢
      intro c hc
      exact (h c hc).symm
    rw [if_pos this]

/-- [T] ring level: what `add_ring` contributes is exactly the specification's atoms of the ring
(textbook area and centroid; outline for a ring without area; the point for a collapsed ring). -/
theorem ringC_eq_atoms (len : Pt → Pt → Rat) (r : List Pt) :
    ringC len r = (ringAtoms len r).map Atom.toWC := by
  unfold ringC ringAtoms
  by_cases h : ringArea r = 0
  · have ht : twiceAreaText r = 0 := by
      have := ringArea_eq_text r; rw [h] at this; linarith
    rw [if_pos h, if_pos ht]
    cases r with
    | nil => rfl
    | cons f t =>
      simp only
      rw [lsDims_cons]
      by_cases hall : (f :: t).all (fun c => decide (c = f)) = true
      · rw [if_pos hall, if_pos hall]; rfl
      · rw [if_neg hall, if_neg hall]
        exact lineStringC_eq_atoms len (f :: t)
  · have ht : twiceAreaText r ≠ 0 := by
      intro h0; apply h; rw [ringArea_eq_text, h0]; simp
    rw [if_neg h, if_neg ht]
    cases r with
    | nil => exact absurd (by simp [ringArea, twiceArea_nil]) h
    | cons s t =>
      simp only [List.map_cons, List.map_nil, Atom.toWC]
      rw [ringCentroid_shift s t h, ringArea_eq_text]

end Geo.Proofs.C06
