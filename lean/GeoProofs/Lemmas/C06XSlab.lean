/-
  C06X helper layer 3: the first moment of a closed ring about a horizontal line as a sum over horizontal slabs
  (the first-moment companion of `SMLX.shoelace2_slabs`).

  * `edgeM e`: six times the contribution of the edge to `∮ x y dy = ∫∫ y`;
    `ringMomentY_edges`: on a closed ring `Σ det(p, q)(p.y + q.y) = Σ edgeM` (the difference telescopes), so
    `Σ edgeM = 6 · ringMoment 0 1 0`.
  * `slabM e (u, v)`: six times `∫_u^v y · x_e(y) dy` for an edge crossing the slab, with the crossing abscissa
    linear in the level (exact two-point form `(v − u)(x(u)(2u + v) + x(v)(u + 2v))`), signed by the direction.
  * `edge_slabsM`: for a strictly increasing list of levels containing both end ordinates, `edgeM e = Σ slabM e s`.
  * `momentY_slabs`: `Σ_e edgeM e = Σ_s (v − u)·((2u + v)·lo s + (u + 2v)·hi s)` with `lo`, `hi` the signed sums of
    the crossing abscissae at the lower / upper end of the slab (limits from inside the slab): with the rings of a
    polygon signed by their orientation these are the lengths of the cross-sections of the region, and all
    coefficients are non-negative when the levels are — the form from which the moment hypothesis of
    `centroid_in_hull_polygon_partial` follows for `f = y − y₀` once the cross-section of the shell is known to
    dominate those of the holes.
-/
import GeoProofs.Lemmas.SMLXLevel
import GeoProofs.Lemmas.C06XMoment

set_option linter.unusedSimpArgs false
set_option linter.unusedVariables false

namespace Geo.Proofs.C06X
open Geo Geo.IP Geo.Proofs.Kernel Geo.Proofs.C12 Geo.Proofs.C05L Geo.Proofs.SMLX

/-- six times the contribution of the edge to `∮ x y dy` -/
def edgeM (e : Pt × Pt) : Rat :=
  (e.2.y - e.1.y) * (2 * e.1.x * e.1.y + e.1.x * e.2.y + e.2.x * e.1.y + 2 * e.2.x * e.2.y)

/-- six times `∫ y · x_e(y) dy` over the slab, signed by the direction in which the edge crosses it -/
def slabM (e : Pt × Pt) (s : Rat × Rat) : Rat :=
  ((sgnE ((s.1 + s.2) / 2) e : Int) : Rat) *
    ((s.2 - s.1) * (xAt s.1 e * (2 * s.1 + s.2) + xAt s.2 e * (s.1 + 2 * s.2)))

theorem edgeM_swap (a b : Pt) : edgeM (b, a) = - edgeM (a, b) := by unfold edgeM; ring

theorem slabM_swap (a b : Pt) (s : Rat × Rat) : slabM (b, a) s = - slabM (a, b) s := by
  unfold slabM
  rw [sgnE_swap]
  by_cases h : a.y = b.y
  · have : sgnE ((s.1 + s.2) / 2) (a, b) = 0 := by
      unfold sgnE; simp only [h]
      have h1 : ¬ (b.y < (s.1 + s.2) / 2 ∧ (s.1 + s.2) / 2 < b.y) := fun hh => by linarith [hh.1, hh.2]
      simp [h1]
    simp [this]
  · rw [xAt_swap _ a b h, xAt_swap _ a b h]; push_cast; ring

/-- cumulative moment under an upward edge `(a, b)` below the level `y` -/
def cumM (a b : Pt) (y : Rat) : Rat :=
  if y ≤ a.y then 0
  else if b.y ≤ y then edgeM (a, b)
  else (y - a.y) * (a.x * (2 * a.y + y) + xAt y (a, b) * (a.y + 2 * y))

theorem slab_upM (a b : Pt) (hab : a.y < b.y) (u v : Rat) (huv : u < v)
    (h1 : ¬ (u < a.y ∧ a.y < v)) (h2 : ¬ (u < b.y ∧ b.y < v)) :
    slabM (a, b) (u, v) = cumM a b v - cumM a b u := by
  have hd : b.y - a.y ≠ 0 := by linarith
  unfold slabM cumM
  simp only
  by_cases c1 : v ≤ a.y
  · have c2 : u ≤ a.y := by linarith
    have hs : sgnE ((u + v) / 2) (a, b) = 0 := by
      unfold sgnE
      have n1 : ¬ (a.y < (u + v) / 2 ∧ (u + v) / 2 < b.y) := fun hh => by linarith [hh.1]
      have n2 : ¬ (b.y < (u + v) / 2 ∧ (u + v) / 2 < a.y) := fun hh => by linarith [hh.1, hh.2]
      simp [n1, n2]
    simp [hs, c1, c2]
  · have c1' : a.y < v := not_le.mp c1
    have c2 : a.y ≤ u := by
      by_contra hh
      exact h1 ⟨not_le.mp hh, c1'⟩
    by_cases c3 : b.y ≤ u
    · have c4 : b.y ≤ v := by linarith
      have hs : sgnE ((u + v) / 2) (a, b) = 0 := by
        unfold sgnE
        have n1 : ¬ (a.y < (u + v) / 2 ∧ (u + v) / 2 < b.y) := fun hh => by linarith [hh.2]
        have n2 : ¬ (b.y < (u + v) / 2 ∧ (u + v) / 2 < a.y) := fun hh => by linarith [hh.1, hh.2]
        simp [n1, n2]
      have c5 : ¬ u ≤ a.y := by linarith
      simp [hs, c1, c4, c3, c5]
    · have c3' : u < b.y := not_le.mp c3
      have c4 : v ≤ b.y := by
        by_contra hh
        exact h2 ⟨c3', not_le.mp hh⟩
      have hs : sgnE ((u + v) / 2) (a, b) = 1 := by
        unfold sgnE
        have n1 : a.y < (u + v) / 2 ∧ (u + v) / 2 < b.y := ⟨by linarith, by linarith⟩
        simp [n1]
      rw [hs]
      simp only [Int.cast_one, one_mul, if_neg c1]
      by_cases c5 : u ≤ a.y
      · have e5 : u = a.y := le_antisymm c5 c2
        subst e5
        simp only [if_pos (le_refl _), sub_zero]
        by_cases c6 : b.y ≤ v
        · have e6 : v = b.y := le_antisymm c4 c6
          subst e6
          simp only [if_pos (le_refl _), xAt, edgeM]
          field_simp
          ring
        · simp only [if_neg c6, xAt]
          field_simp
          ring
      · simp only [if_neg c5, if_neg c3]
        by_cases c6 : b.y ≤ v
        · have e6 : v = b.y := le_antisymm c4 c6
          subst e6
          simp only [if_pos (le_refl _), xAt, edgeM]
          field_simp
          ring
        · simp only [if_neg c6, xAt]
          field_simp
          ring

theorem edge_slabs_upM (a b : Pt) (hab : a.y < b.y) (Y : List Rat) (hs : Y.Pairwise (· < ·))
    (h1 : a.y ∈ Y) (h2 : b.y ∈ Y) :
    sumRat ((pairsQ Y).map (slabM (a, b))) = edgeM (a, b) := by
  have hcongr : sumRat ((pairsQ Y).map (slabM (a, b))) =
      sumRat ((pairsQ Y).map (fun s => cumM a b s.2 - cumM a b s.1)) := by
    apply sumRat_map_congr
    rintro ⟨u, v⟩ hm
    obtain ⟨g1, g2⟩ := pairsQ_gap Y hs (u, v) hm
    exact slab_upM a b hab u v g1 (g2 _ h1) (g2 _ h2)
  rw [hcongr]
  match Y, hs, h1, h2 with
  | y0 :: t, hs, h1, h2 =>
    rw [pairsQ_telescope]
    have hlo : y0 ≤ a.y := sorted_first_le y0 t hs _ h1
    have hhi : b.y ≤ lastQ y0 t := sorted_le_last y0 t hs _ h2
    unfold cumM
    have n1 : ¬ lastQ y0 t ≤ a.y := by linarith
    simp [hlo, hhi, n1]

/-- **one edge, cut at the levels of `Y`** -/
theorem edge_slabsM (e : Pt × Pt) (Y : List Rat) (hs : Y.Pairwise (· < ·))
    (h1 : e.1.y ∈ Y) (h2 : e.2.y ∈ Y) :
    sumRat ((pairsQ Y).map (slabM e)) = edgeM e := by
  obtain ⟨a, b⟩ := e
  simp only at h1 h2 ⊢
  rcases lt_trichotomy a.y b.y with h | h | h
  · exact edge_slabs_upM a b h Y hs h1 h2
  · have e0 : edgeM (a, b) = 0 := by unfold edgeM; simp only [h]; ring
    rw [e0]
    apply sumRat_map_zero
    intro s _
    unfold slabM
    have : sgnE ((s.1 + s.2) / 2) (a, b) = 0 := by
      unfold sgnE; simp only [h]
      have n1 : ¬ (b.y < (s.1 + s.2) / 2 ∧ (s.1 + s.2) / 2 < b.y) := fun hh => by linarith [hh.1, hh.2]
      simp [n1]
    simp [this]
  · have := edge_slabs_upM b a h Y hs h2 h1
    have hsw : sumRat ((pairsQ Y).map (slabM (a, b))) =
        - sumRat ((pairsQ Y).map (slabM (b, a))) := by
      have : ∀ s ∈ pairsQ Y, slabM (a, b) s = (-1) * slabM (b, a) s := by
        intro s _; rw [slabM_swap b a s]; ring
      rw [sumRat_map_congr this, sumRat_map_mul]; ring
    rw [hsw, this, edgeM_swap]; ring

/-- signed sum of the crossing abscissae at the lower / upper end of the slab, the signs taken inside it -/
def loF (s : Rat × Rat) (es : List (Pt × Pt)) : Rat :=
  sumRat (es.map (fun e => ((sgnE ((s.1 + s.2) / 2) e : Int) : Rat) * xAt s.1 e))
def hiF (s : Rat × Rat) (es : List (Pt × Pt)) : Rat :=
  sumRat (es.map (fun e => ((sgnE ((s.1 + s.2) / 2) e : Int) : Rat) * xAt s.2 e))

/-- **the first moment of a closed ring about the x-axis as a sum over slabs** -/
theorem momentY_slabs (r : List Pt) (Y : List Rat) (hs : Y.Pairwise (· < ·)) (hY : ∀ v ∈ r, v.y ∈ Y) :
    sumRat ((segs r).map edgeM) =
      sumRat ((pairsQ Y).map (fun s =>
        (s.2 - s.1) * ((2 * s.1 + s.2) * loF s (segs r) + (s.1 + 2 * s.2) * hiF s (segs r)))) := by
  have h1 : sumRat ((segs r).map edgeM) =
      sumRat ((segs r).map (fun e => sumRat ((pairsQ Y).map (fun s => slabM e s)))) := by
    apply sumRat_map_congr
    intro e he
    obtain ⟨m1, m2⟩ := Geo.Proofs.Spec.mem_of_mem_segs he
    exact (edge_slabsM e Y hs (hY _ m1) (hY _ m2)).symm
  rw [h1, sumRat_comm]
  apply sumRat_map_congr
  intro s _
  unfold loF hiF slabM
  rw [← sumRat_map_mul, ← sumRat_map_mul, ← sumRat_map_add, ← sumRat_map_mul]
  apply sumRat_map_congr
  intro e _
  ring

/-- the area in the same form: the midpoint level is the mean of the two ends -/
theorem levelF_mid (s : Rat × Rat) (es : List (Pt × Pt)) :
    2 * levelF ((s.1 + s.2) / 2) es = loF s es + hiF s es := by
  unfold levelF loF hiF
  rw [← sumRat_map_mul, ← sumRat_map_add]
  apply sumRat_map_congr
  intro e _
  unfold xAt
  ring

/-! ### bridge to `ringMoment` -/

theorem sumR_eq_sumRat (l : List Rat) : Geo.Cen.sumR l = sumRat l := by
  induction l with
  | nil => rfl
  | cons a t ih => simp [Geo.Cen.sumR, sumRat, ih]

theorem ringMomentY_open (a : Pt) (t : List Pt) :
    sumRat ((segs (a :: t)).map edgeM) =
      sumRat ((segs (a :: t)).map (fun l => Geo.Cen.det l.1 l.2 * (l.1.y + l.2.y))) +
        (2 * (lastD a t).x * (lastD a t).y * (lastD a t).y - 2 * a.x * a.y * a.y) := by
  induction t generalizing a with
  | nil => simp [segs, sumRat, lastD]
  | cons b t ih =>
    simp only [segs, List.map_cons, sumRat, lastD, ih b, edgeM, Geo.Cen.det]
    ring

/-- on a closed ring the edge moments sum to six times the shoelace first moment about the x-axis -/
theorem ringMomentY_edges (r : List Pt) (hc : r.head? = r.getLast?) :
    sumRat ((segs r).map edgeM) = 6 * Geo.Proofs.C06.ringMoment 0 1 0 r := by
  unfold Geo.Proofs.C06.ringMoment
  rw [sumR_eq_sumRat, windows2_eq_segs]
  cases r with
  | nil => simp [segs, sumRat]
  | cons a t =>
    rw [ringMomentY_open, lastD_of_closed hc]
    have : sumRat ((segs (a :: t)).map (fun l => Geo.Cen.det l.1 l.2 *
        (0 * l.1.x + 1 * l.1.y + 0 + (0 * l.2.x + 1 * l.2.y + 0) + 0))) =
        sumRat ((segs (a :: t)).map (fun l => Geo.Cen.det l.1 l.2 * (l.1.y + l.2.y))) := by
      apply sumRat_map_congr
      intro e _; ring
    rw [this]; ring

end Geo.Proofs.C06X

namespace Geo.Proofs.C06X
open Geo Geo.Proofs.SMLX

/-- **the first moment of a closed ring about the x-axis as a sum over horizontal slabs**: for strictly
increasing levels `Y` containing the ordinates of all coordinates,
`6 · ringMoment 0 1 0 r = Σ_{(u, v) consecutive in Y} (v − u)·((2u + v)·lo + (u + 2v)·hi)`. -/
theorem ring_first_moment_slabs (r : List Pt) (hc : r.head? = r.getLast?) (Y : List Rat)
    (hs : Y.Pairwise (· < ·)) (hY : ∀ v ∈ r, v.y ∈ Y) :
    6 * Geo.Proofs.C06.ringMoment 0 1 0 r =
      sumRat ((pairsQ Y).map (fun s =>
        (s.2 - s.1) * ((2 * s.1 + s.2) * loF s (segs r) + (s.1 + 2 * s.2) * hiF s (segs r)))) := by
  rw [← ringMomentY_edges r hc, momentY_slabs r Y hs hY]

example : ([⟨0, 0⟩, ⟨2, 0⟩, ⟨0, 2⟩, ⟨0, 0⟩] : List Pt).head? = ([⟨0, 0⟩, ⟨2, 0⟩, ⟨0, 2⟩, ⟨0, 0⟩] : List Pt).getLast? ∧
    ([0, 2] : List Rat).Pairwise (· < ·) ∧
    ∀ v ∈ ([⟨0, 0⟩, ⟨2, 0⟩, ⟨0, 2⟩, ⟨0, 0⟩] : List Pt), v.y ∈ ([0, 2] : List Rat) := by
  refine ⟨by simp, by simp, ?_⟩
  intro v hv
  simp only [List.mem_cons, List.not_mem_nil, or_false] at hv
  rcases hv with rfl | rfl | rfl | rfl <;> simp

end Geo.Proofs.C06X
