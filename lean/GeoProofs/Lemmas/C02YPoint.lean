/-
  C02Y, part 6: `Point: Contains<X>` (`pointContains`: "X is not empty and every coordinate of X is the point") is the
  mask `T*****FF*` on the DE-9IM specification, for every `X` of the validity domain (nested collections included).

  Model side (`pcFacts`, mutual over the geometry): on the domain

      pointContains p g = true  ⇔  every written coordinate of g is p  ∧  p is located in the interior of g

  — a valid Line / LineString / Polygon / Rect / Triangle / non-empty MultiLineString / MultiPolygon has two distinct
  coordinates (both sides false), the empty ones have no point at all (both sides false), `dims g = Empty` exactly for
  those (the members a collection skips).
  Specification side: `II ≠ F` ⇔ `p` interior to `g` (`relate_point_cell_left`); a coordinate `≠ p` is a vertex atom
  located in `g` and outside the point (`isContains_false_of_vertex`, `coords_located`); when all coordinates are `p`
  every segment is degenerate and `p` is the only vertex, so no atom is outside the point.
-/
import GeoProofs.Lemmas.C02YMask
import GeoProofs.Lemmas.C02YCoords
import GeoProofs.Lemmas.C02YContains

set_option linter.unusedSimpArgs false
set_option linter.unusedVariables false

namespace Geo.Proofs.C02Y
open Geo Geo.Proofs.Kernel Geo.Proofs.Spec Geo.Proofs.C02X

/-! ### the model side -/

structure PCFacts (p : Pt) (g : Geom) : Prop where
  star : pointContains p g = true ↔ (∀ c ∈ allCoords (parts g), c = p) ∧ locate g p = .inside
  three : (∀ c ∈ allCoords (parts g), c = p) → dims g ≠ .empty → locate g p = .inside
  four : dims g = .empty → allCoords (parts g) = [] ∧ locate g p ≠ .inside

def TwoDistinct (g : Geom) : Prop := ∃ c1 ∈ allCoords (parts g), ∃ c2 ∈ allCoords (parts g), c1 ≠ c2

theorem pcFacts_two {p : Pt} {g : Geom} (h2 : TwoDistinct g) (hpc : pointContains p g = false)
    (hdim : dims g ≠ .empty) : PCFacts p g := by
  have hno : ¬ (∀ c ∈ allCoords (parts g), c = p) := by
    intro h
    obtain ⟨c1, h1, c2, h2', hne⟩ := h2
    exact hne ((h c1 h1).trans (h c2 h2').symm)
  refine ⟨?_, fun h => absurd h hno, fun h => absurd h hdim⟩
  rw [hpc]
  constructor
  · intro h; cases h
  · rintro ⟨h, _⟩; exact absurd h hno

theorem pcFacts_empty {p : Pt} {g : Geom} (hc : allCoords (parts g) = []) (hpc : pointContains p g = false)
    (hloc : ∀ x, locate g x = .outside) (hdim : dims g = .empty) : PCFacts p g := by
  refine ⟨?_, fun _ h => absurd hdim h, fun _ => ⟨hc, by rw [hloc p]; intro e; cases e⟩⟩
  rw [hpc]
  constructor
  · intro h; cases h
  · rintro ⟨_, h⟩; rw [hloc p] at h; cases h

theorem lsDims_cons (f : Pt) (t : List Pt) : lsDims (f :: t) = .one ∨ lsDims (f :: t) = .zero := by
  simp only [lsDims]
  split
  · exact Or.inl rfl
  · exact Or.inr rfl

theorem polyDims_ne_empty {q : Poly} (h : q.ext ≠ []) : polyDims q ≠ .empty := by
  unfold polyDims
  cases he : q.ext with
  | nil => exact absurd he h
  | cons first rest =>
    simp only
    cases hd : rest.dropWhile (· == first) with
    | nil => simp
    | cons second rest2 =>
      simp only
      split <;> simp

theorem foldl_max_rank (l : List Poly) (m0 : Dim) :
    m0.rank ≤ (l.foldl (fun m p => m.max (polyDims p)) m0).rank := by
  induction l generalizing m0 with
  | nil => exact le_refl _
  | cons q t ih =>
    rw [List.foldl_cons]
    refine le_trans ?_ (ih _)
    unfold Dim.max
    split
    · exact le_refl _
    · rename_i hr
      omega

theorem mpolyDims_cons_ne_empty {q : Poly} (t : List Poly) (h : q.ext ≠ []) : mpolyDims (q :: t) ≠ .empty := by
  unfold mpolyDims
  rw [List.foldl_cons]
  have h1 := foldl_max_rank t (Dim.empty.max (polyDims q))
  have h2 : 1 ≤ (Dim.empty.max (polyDims q)).rank := by
    have := polyDims_ne_empty h
    unfold Dim.max
    cases hp : polyDims q <;> simp [hp, Dim.rank] at this ⊢
  intro e
  rw [e] at h1
  have h0 : Dim.empty.rank = 0 := rfl
  omega

theorem pcFacts_line (p a b : Pt) (hd : inDomain (.line a b) = true) : PCFacts p (.line a b) := by
  have hab : a ≠ b := by simpa [inDomain, validGeom] using hd
  have hne : (a == b) = false := by simpa using hab
  apply pcFacts_two
  · exact ⟨a, by simp [allCoords, parts], b, by simp [allCoords, parts], hab⟩
  · simp [pointContains, hne]
  · simp [dims, hne]

theorem pcFacts_lineString (p : Pt) (cs : List Pt) (hd : inDomain (.lineString cs) = true) :
    PCFacts p (.lineString cs) := by
  have hv : cs.isEmpty = true ∨ lineStringSimple cs = true := by simpa [inDomain, validGeom] using hd
  rcases hv with he | hs
  · have : cs = [] := List.isEmpty_iff.mp he
    subst this
    apply pcFacts_empty
    · simp [allCoords, parts]
    · simp [pointContains]
    · intro x
      by_contra h
      obtain ⟨s, hs, _⟩ := (located_lineString [] x).mp h
      simp [segs] at hs
    · simp [dims, lsDims]
  · obtain ⟨c1, h1, c2, h2, hne⟩ := lineStringSimple_two hs
    apply pcFacts_two
    · exact ⟨c1, by simpa [allCoords, parts] using h1, c2, by simpa [allCoords, parts] using h2, hne⟩
    · cases hpc : pointContains p (.lineString cs) with
      | false => rfl
      | true =>
        exfalso
        simp only [pointContains] at hpc
        split at hpc
        · cases hpc
        · rw [List.all_eq_true] at hpc
          have e1 := hpc c1 h1
          have e2 := hpc c2 h2
          rw [beq_iff_eq] at e1 e2
          exact hne (e1.trans e2.symm)
    · cases cs with
      | nil => cases h1
      | cons f t =>
        simp only [dims]
        rcases lsDims_cons f t with e | e <;> rw [e] <;> simp

theorem pcFacts_polygon (p : Pt) (q : Poly) (hd : inDomain (.polygon q) = true) : PCFacts p (.polygon q) := by
  rcases polygon_dom_cases hd with ⟨he, hi⟩ | hv
  · obtain ⟨ext, ints⟩ := q
    simp only at he hi
    subst he; subst hi
    apply pcFacts_empty
    · simp [allCoords, parts, Poly.rings]
    · simp [pointContains]
    · exact locate_empty_polygon
    · simp [dims, polyDims]
  · obtain ⟨c1, h1, c2, h2, hne⟩ := ringSimple_two (Geo.Proofs.C02Q.polyValid_unpack hv).1
    have hm : ∀ c ∈ q.ext, c ∈ allCoords (parts (.polygon q)) := fun c hc =>
      mem_allCoords_ring (ps := parts (.polygon q)) (q := q) (r := q.ext) (by simp [parts]) (by simp [Poly.rings]) hc
    have hext : q.ext ≠ [] := by intro e; rw [e] at h1; cases h1
    apply pcFacts_two
    · exact ⟨c1, hm c1 h1, c2, hm c2 h2, hne⟩
    · cases hpc : pointContains p (.polygon q) with
      | false => rfl
      | true =>
        exfalso
        simp only [pointContains] at hpc
        split at hpc
        · cases hpc
        · rw [List.all_eq_true] at hpc
          have e1 := hpc c1 (by simp [Poly.coords, h1])
          have e2 := hpc c2 (by simp [Poly.coords, h2])
          rw [beq_iff_eq] at e1 e2
          exact hne (e1.trans e2.symm)
    · simp only [dims]
      exact polyDims_ne_empty hext

theorem pcFacts_mls (p : Pt) (ls : List (List Pt)) (hd : inDomain (.multiLineString ls) = true) :
    PCFacts p (.multiLineString ls) := by
  have hv : multiLineValid ls = true := by simpa [inDomain, validGeom] using hd
  unfold multiLineValid at hv
  rw [Bool.and_eq_true, List.all_eq_true] at hv
  cases ls with
  | nil =>
    apply pcFacts_empty
    · simp [allCoords, parts]
    · simp [pointContains]
    · intro x
      by_contra h
      obtain ⟨cs, hcs, _⟩ := (located_mls [] x).mp h
      cases hcs
    · simp [dims, mlsDims]
  | cons cs t =>
    obtain ⟨c1, h1, c2, h2, hne⟩ := lineStringSimple_two (hv.1 cs List.mem_cons_self)
    have hm : ∀ c ∈ cs, c ∈ allCoords (parts (.multiLineString (cs :: t))) := fun c hc =>
      mem_allCoords_curve (ps := parts (.multiLineString (cs :: t))) (cv := cs) (by simp [parts]) hc
    have hcs : cs ≠ [] := by intro e; rw [e] at h1; cases h1
    apply pcFacts_two
    · exact ⟨c1, hm c1 h1, c2, hm c2 h2, hne⟩
    · cases hpc : pointContains p (.multiLineString (cs :: t)) with
      | false => rfl
      | true =>
        exfalso
        simp only [pointContains] at hpc
        split at hpc
        · cases hpc
        · rw [List.all_eq_true] at hpc
          have hf : cs ∈ (cs :: t).filter (fun cs => !cs.isEmpty) := by
            rw [List.mem_filter]
            refine ⟨List.mem_cons_self, ?_⟩
            cases cs with
            | nil => exact absurd rfl hcs
            | cons _ _ => rfl
          have ha := hpc cs hf
          rw [List.all_eq_true] at ha
          have e1 := ha c1 h1
          have e2 := ha c2 h2
          rw [beq_iff_eq] at e1 e2
          exact hne (e1.trans e2.symm)
    · simp only [dims]
      cases cs with
      | nil => exact absurd rfl hcs
      | cons f r =>
        unfold mlsDims
        rcases lsDims_cons f r with e | e
        · have : ((f :: r) :: t).any (fun l => lsDims l == .one) = true := by
            rw [List.any_cons, e]; rfl
          rw [if_pos this]; simp
        · split
          · simp
          · have : ((f :: r) :: t).any (fun l => lsDims l == .zero) = true := by
              rw [List.any_cons, e]; rfl
            rw [if_pos this]; simp

theorem pcFacts_mpg (p : Pt) (ps : List Poly) (hd : inDomain (.multiPolygon ps) = true) :
    PCFacts p (.multiPolygon ps) := by
  have hv := multiPolygon_dom hd
  cases ps with
  | nil =>
    apply pcFacts_empty
    · simp [allCoords, parts]
    · simp [pointContains]
    · intro x
      by_contra h
      obtain ⟨q, hq, _⟩ := (located_multiPolygon [] x).mp h
      cases hq
    · simp [dims, mpolyDims]
  | cons q t =>
    have hq := multiPolyValid_members hv q List.mem_cons_self
    obtain ⟨c1, h1, c2, h2, hne⟩ := ringSimple_two (Geo.Proofs.C02Q.polyValid_unpack hq).1
    have hm : ∀ c ∈ q.ext, c ∈ allCoords (parts (.multiPolygon (q :: t))) := fun c hc =>
      mem_allCoords_ring (ps := parts (.multiPolygon (q :: t))) (q := q) (r := q.ext) (by simp [parts])
        (by simp [Poly.rings]) hc
    have hext : q.ext ≠ [] := by intro e; rw [e] at h1; cases h1
    apply pcFacts_two
    · exact ⟨c1, hm c1 h1, c2, hm c2 h2, hne⟩
    · cases hpc : pointContains p (.multiPolygon (q :: t)) with
      | false => rfl
      | true =>
        exfalso
        simp only [pointContains] at hpc
        split at hpc
        · cases hpc
        · rw [List.all_eq_true] at hpc
          have hf : q ∈ (q :: t).filter (fun poly => !poly.ext.isEmpty) := by
            rw [List.mem_filter]
            refine ⟨List.mem_cons_self, ?_⟩
            cases he : q.ext with
            | nil => exact absurd he hext
            | cons _ _ => rfl
          have ha := hpc q hf
          rw [List.all_eq_true] at ha
          have e1 := ha c1 (by simp [Poly.coords, h1])
          have e2 := ha c2 (by simp [Poly.coords, h2])
          rw [beq_iff_eq] at e1 e2
          exact hne (e1.trans e2.symm)
    · simp only [dims]
      exact mpolyDims_cons_ne_empty t hext

theorem pcFacts_rect (p mn mx : Pt) (hd : inDomain (.rect mn mx) = true) : PCFacts p (.rect mn mx) := by
  obtain ⟨hx, _⟩ := rect_dom hd
  have hne : mn ≠ mx := by intro e; rw [e] at hx; exact lt_irrefl _ hx
  have hb : (mn == mx) = false := by simpa using hne
  apply pcFacts_two
  · refine ⟨⟨mx.x, mn.y⟩, by simp [allCoords, parts, Poly.rings, SM.rectToPolygon], ⟨mn.x, mx.y⟩,
      by simp [allCoords, parts, Poly.rings, SM.rectToPolygon], ?_⟩
    intro e
    have := congrArg Pt.x e
    simp only at this
    rw [this] at hx
    exact lt_irrefl _ hx
  · simp [pointContains, hb]
  · simp only [dims]
    unfold rectDims
    rw [hb]
    simp only [Bool.false_eq_true, if_false]
    split <;> simp

theorem pcFacts_triangle (p a b c : Pt) (hd : inDomain (.triangle a b c) = true) : PCFacts p (.triangle a b c) := by
  have hcr := triangle_dom hd
  have hab : a ≠ b := by
    intro e
    apply hcr
    rw [e]
    simp [cross]
  have hb : (a == b) = false := by simpa using hab
  have hcol : (orient a b c == .col) = false := by
    have : orient a b c ≠ .col := by simpa [inDomain, validGeom] using hd
    simpa using this
  apply pcFacts_two
  · exact ⟨a, by simp [allCoords, parts, Poly.rings], b, by simp [allCoords, parts, Poly.rings], hab⟩
  · simp [pointContains, hb]
  · simp only [dims]
    unfold triDims
    rw [hcol]
    simp

theorem pcFacts_point (p q : Pt) : PCFacts p (.point q) := by
  have hc : allCoords (parts (.point q)) = [q] := by simp [allCoords, parts]
  refine ⟨?_, ?_, ?_⟩
  · rw [hc]
    simp only [pointContains, beq_iff_eq, List.mem_singleton, forall_eq]
    constructor
    · intro e; subst e; exact ⟨rfl, locate_point_self p⟩
    · rintro ⟨e, _⟩; exact e.symm
  · intro h _
    rw [hc] at h
    have : q = p := h q (by simp)
    subst this
    exact locate_point_self q
  · intro h; simp [dims] at h

theorem pcFacts_multiPoint (p : Pt) (qs : List Pt) : PCFacts p (.multiPoint qs) := by
  have hc : allCoords (parts (.multiPoint qs)) = qs := by simp [allCoords, parts]
  have hl : locate (.multiPoint qs) p = .inside ↔ p ∈ qs := by
    rw [locate_multiPoint_eq]
    by_cases h : p ∈ qs <;> simp [h]
  refine ⟨?_, ?_, ?_⟩
  · rw [hc, hl]
    simp only [pointContains]
    cases qs with
    | nil => simp
    | cons x t =>
      simp only [List.isEmpty_cons, Bool.false_eq_true, if_false, List.all_eq_true, beq_iff_eq]
      constructor
      · intro h
        refine ⟨h, ?_⟩
        rw [← h x List.mem_cons_self]
        exact List.mem_cons_self
      · rintro ⟨h, _⟩; exact h
  · intro h hdim
    rw [hc] at h
    rw [hl]
    cases qs with
    | nil => simp [dims] at hdim
    | cons x t =>
      rw [← h x List.mem_cons_self]
      exact List.mem_cons_self
  · intro h
    have : qs = [] := by
      cases qs with
      | nil => rfl
      | cons x t => simp [dims] at h
    subst this
    exact ⟨hc, fun h' => absurd (hl.mp h') (by simp)⟩

/-! ### collections -/

theorem dimsList_empty_iff : ∀ (gs : List Geom), dimsList gs = .empty ↔ ∀ g ∈ gs, dims g = .empty
  | [] => by simp [dimsList]
  | g :: t => by
      rw [dimsList]
      have ih := dimsList_empty_iff t
      constructor
      · intro h
        have h1 : dims g = .empty ∧ dimsList t = .empty := by
          unfold Dim.max at h
          split at h
          · rename_i hr
            rw [h] at hr
            refine ⟨h, ?_⟩
            cases hd : dimsList t <;> simp [hd, Dim.rank] at hr ⊢
          · rename_i hr
            rw [h] at hr
            simp [Dim.rank] at hr
        intro x hx
        rcases List.mem_cons.mp hx with rfl | hx
        · exact h1.1
        · exact ih.mp h1.2 x hx
      · intro h
        rw [h g List.mem_cons_self, ih.mpr (fun x hx => h x (List.mem_cons_of_mem _ hx))]
        rfl

theorem pointContainsAll_iff (p : Pt) : ∀ (gs : List Geom),
    pointContainsAll p gs = true ↔ ∀ g ∈ gs, dims g = .empty ∨ pointContains p g = true
  | [] => by simp [pointContainsAll]
  | g :: t => by
      rw [pointContainsAll, Bool.and_eq_true, pointContainsAll_iff p t]
      constructor
      · rintro ⟨h1, h2⟩ x hx
        rcases List.mem_cons.mp hx with rfl | hx
        · by_cases hd : dims x = .empty
          · exact Or.inl hd
          · right
            have : (dims x == .empty) = false := by simpa using hd
            rw [this] at h1
            simpa using h1
        · exact h2 x hx
      · intro h
        refine ⟨?_, fun x hx => h x (List.mem_cons_of_mem _ hx)⟩
        rcases h g List.mem_cons_self with hd | hp
        · rw [hd]; rfl
        · split
          · rfl
          · exact hp

mutual
theorem pcFacts : ∀ (p : Pt) (g : Geom), inDomain g = true → PCFacts p g
  | p, .point q, _ => pcFacts_point p q
  | p, .multiPoint qs, _ => pcFacts_multiPoint p qs
  | p, .line a b, hd => pcFacts_line p a b hd
  | p, .lineString cs, hd => pcFacts_lineString p cs hd
  | p, .polygon q, hd => pcFacts_polygon p q hd
  | p, .multiLineString ls, hd => pcFacts_mls p ls hd
  | p, .multiPolygon ps, hd => pcFacts_mpg p ps hd
  | p, .rect mn mx, hd => pcFacts_rect p mn mx hd
  | p, .triangle a b c, hd => pcFacts_triangle p a b c hd
  | p, .collection gs, hd => by
      obtain ⟨hok, hl⟩ := inDomain_collection hd
      have hm := pcFacts_list p gs hl
      have hco : ∀ c, c ∈ allCoords (parts (.collection gs)) ↔ ∃ g ∈ gs, c ∈ allCoords (parts g) := by
        intro c
        constructor
        · intro h; exact mem_allCoords_partsList (gs := gs) h
        · rintro ⟨g, hg, h⟩; exact allCoords_partsList_of_mem hg h
      have hins := locate_collection_inside hd p
      have hdl : dims (.collection gs) = dimsList gs := by rw [dims]
      refine ⟨?_, ?_, ?_⟩
      · have hpc : pointContains p (.collection gs) = true ↔
            dimsList gs ≠ .empty ∧ pointContainsAll p gs = true := by
          rw [pointContains]
          by_cases hde : dimsList gs = .empty
          · simp [hde]
          · have : (dimsList gs == .empty) = false := by simpa using hde
            simp [this, hde]
        rw [hpc, pointContainsAll_iff, hins]
        constructor
        · rintro ⟨hne, hall⟩
          constructor
          · intro c hc
            obtain ⟨g, hg, hcg⟩ := (hco c).mp hc
            rcases hall g hg with hd0 | hp
            · rw [((hm g hg).four hd0).1] at hcg; cases hcg
            · exact ((hm g hg).star.mp hp).1 c hcg
          · have : ∃ g ∈ gs, dims g ≠ .empty := by
              by_contra hno
              apply hne
              rw [dimsList_empty_iff]
              intro g hg
              by_contra hx
              exact hno ⟨g, hg, hx⟩
            obtain ⟨g, hg, hx⟩ := this
            rcases hall g hg with hd0 | hp
            · exact absurd hd0 hx
            · exact ⟨g, hg, ((hm g hg).star.mp hp).2⟩
        · rintro ⟨hall, g, hg, hin⟩
          constructor
          · intro he
            exact ((hm g hg).four ((dimsList_empty_iff gs).mp he g hg)).2 hin
          · intro x hx
            by_cases hd0 : dims x = .empty
            · exact Or.inl hd0
            · right
              have hax : ∀ c ∈ allCoords (parts x), c = p := fun c hc => hall c ((hco c).mpr ⟨x, hx, hc⟩)
              exact (hm x hx).star.mpr ⟨hax, (hm x hx).three hax hd0⟩
      · intro hall hne
        rw [hdl] at hne
        rw [hins]
        have : ∃ g ∈ gs, dims g ≠ .empty := by
          by_contra hno
          apply hne
          rw [dimsList_empty_iff]
          intro g hg
          by_contra hx
          exact hno ⟨g, hg, hx⟩
        obtain ⟨g, hg, hx⟩ := this
        exact ⟨g, hg, (hm g hg).three (fun c hc => hall c ((hco c).mpr ⟨g, hg, hc⟩)) hx⟩
      · intro he
        rw [hdl, dimsList_empty_iff] at he
        constructor
        · rw [List.eq_nil_iff_forall_not_mem]
          intro c hc
          obtain ⟨g, hg, hcg⟩ := (hco c).mp hc
          rw [((hm g hg).four (he g hg)).1] at hcg
          cases hcg
        · intro h'
          obtain ⟨g, hg, hin⟩ := hins.mp h'
          exact ((hm g hg).four (he g hg)).2 hin
theorem pcFacts_list : ∀ (p : Pt) (gs : List Geom), inDomainList gs = true → ∀ g ∈ gs, PCFacts p g
  | _, [], _ => fun g hg => by cases hg
  | p, a :: t, h => by
      simp only [inDomainList, Bool.and_eq_true] at h
      intro g hg
      rcases List.mem_cons.mp hg with e | hg
      · rw [e]; exact pcFacts p a h.1
      · exact pcFacts_list p t h.2 g hg
end

end Geo.Proofs.C02Y
