/-
  C02X, part 14: what `Polygon: Intersects<Polygon>` computes, exactly (`polyPoly_iff`):

      polyPoly p q  ⇔  some ring point of `q` lies in `p`  ∨  some shell point of `p` lies in `q`

  (bounding-box early returns included; `p`, `q` polygons of the domain or `to_polygon` of a Rect / Triangle).
  Hence `polyPoly p q = true` implies that the polygons have a common point (`polyPoly_sound`: no false
  positive), and the converse holds under the one hypothesis that is not proved here
  (`polyPoly_common_partial`): two polygons with a common point have a ring point of the second in the first
  or a shell point of the first in the second (for valid polygons this is the connectedness of a polygon:
  if the boundaries do not meet, one polygon lies inside the other).
-/
import GeoProofs.Lemmas.C02XTable

set_option linter.unusedSimpArgs false
set_option linter.unusedVariables false

namespace Geo.Proofs.C02X
open Geo Geo.Proofs.Kernel Geo.Proofs.Spec Geo.Proofs.C02Q Geo.Proofs.WIND

theorem domFacts_lineString (cs : List Pt) : DomFacts (.lineString cs) :=
  ⟨rfl, fun c hc => Hull.self (by simpa [allCoords, parts, exteriorCoords] using hc),
    fun q hq => by simp [parts] at hq⟩

/-- a hole-free polygon on a closed ring (e.g. `to_polygon` of a Rect or a Triangle) as a piece -/
theorem pieceFacts_ringPoly (r : List Pt) (hr : Geo.Proofs.Loc.RingOK r) : PieceFacts (.polygon ⟨r, []⟩) where
  facts := domFacts_ringPoly r hr.1
  kp := by
    intro c
    simp only [coordX, polyCoord]
    rw [coordPos_ringPoly r hr c]
    simp
  kl := by
    intro a b
    simp only [lineX]
    have hok : ∀ r' ∈ (⟨r, []⟩ : Poly).rings, Geo.Proofs.Loc.RingOK r' := by
      intro r' hr'
      simp only [Poly.rings, List.mem_singleton] at hr'
      rw [hr']; exact hr
    exact polyLine_iff ⟨r, []⟩ hok a b (coordPos_ringPoly r hr a) (coordPos_ringPoly r hr b)

theorem pieceFacts_rectPoly (mn mx : Pt) : PieceFacts (.polygon (rectPoly mn mx)) :=
  pieceFacts_ringPoly _ ⟨rfl, by simp [SM.rectToPolygon]⟩

theorem pieceFacts_triPoly (a b c : Pt) : PieceFacts (.polygon (triPoly a b c)) :=
  pieceFacts_ringPoly _ ⟨rfl, by simp⟩

/-- `LineString: Intersects<Polygon>` (bounding-box test, then any segment against the polygon) -/
theorem lsPoly_iff (cs : List Pt) (p : Poly) (pf : PieceFacts (.polygon p)) :
    lsPoly cs p = true ↔ ∃ s ∈ segs cs, ∃ x, SegMem x s.1 s.2 ∧ locate (.polygon p) x ≠ .outside := by
  unfold lsPoly
  have hkl : ∀ s : Pt × Pt, polyLine p s.1 s.2 = true ↔
      ∃ x, SegMem x s.1 s.2 ∧ locate (.polygon p) x ≠ .outside := fun s => pf.kl s.1 s.2
  constructor
  · intro h
    split at h
    · cases h
    · rw [List.any_eq_true] at h
      obtain ⟨s, hs, h⟩ := h
      exact ⟨s, hs, (hkl s).mp h⟩
  · rintro ⟨s, hs, x, h1, h2⟩
    rw [disjointBB_false_of_common_facts (domFacts_lineString cs) pf.facts
      ((located_lineString cs x).mpr ⟨s, hs, h1⟩) h2]
    simp only [Bool.false_eq_true, if_false, List.any_eq_true]
    exact ⟨s, hs, (hkl s).mpr ⟨x, h1, h2⟩⟩

/-- some ring point of `q` lies in `p`, or some shell point of `p` lies in `q` -/
def BoundaryMeets (p q : Poly) : Prop :=
  (∃ r ∈ q.rings, ∃ s ∈ segs r, ∃ x, SegMem x s.1 s.2 ∧ locate (.polygon p) x ≠ .outside) ∨
  (∃ s ∈ segs p.ext, ∃ x, SegMem x s.1 s.2 ∧ locate (.polygon q) x ≠ .outside)

theorem located_on_ring {q : Poly} {r : List Pt} (hr : r ∈ q.rings) {s : Pt × Pt} (hs : s ∈ segs r) {x : Pt}
    (hx : SegMem x s.1 s.2) : locate (.polygon q) x ≠ .outside := by
  apply located_of_on_ring (ps := parts (.polygon q)) (q := q) (by simp [parts]) hr
  rw [Geo.Proofs.Spec.onAnySeg_iff]
  exact ⟨s, hs, (lineCoord_iff _ _ _).mpr hx⟩

/-- **what `Polygon: Intersects<Polygon>` computes** -/
theorem polyPoly_iff (p q : Poly) (pfp : PieceFacts (.polygon p)) (pfq : PieceFacts (.polygon q)) :
    polyPoly p q = true ↔ BoundaryMeets p q := by
  unfold polyPoly BoundaryMeets
  constructor
  · intro h
    split at h
    · cases h
    · rw [Bool.or_eq_true, Bool.or_eq_true, List.any_eq_true] at h
      rcases h with (h | ⟨r, hr, h⟩) | h
      · left
        obtain ⟨s, hs, hx⟩ := (lsPoly_iff q.ext p pfp).mp h
        exact ⟨q.ext, by simp [Poly.rings], s, hs, hx⟩
      · left
        obtain ⟨s, hs, hx⟩ := (lsPoly_iff r p pfp).mp h
        exact ⟨r, by simp [Poly.rings, hr], s, hs, hx⟩
      · right
        exact (lsPoly_iff p.ext q pfq).mp h
  · intro h
    have hcommon : ∃ x, locate (.polygon p) x ≠ .outside ∧ locate (.polygon q) x ≠ .outside := by
      rcases h with ⟨r, hr, s, hs, x, h1, h2⟩ | ⟨s, hs, x, h1, h2⟩
      · exact ⟨x, h2, located_on_ring hr hs h1⟩
      · exact ⟨x, located_on_ring (by simp [Poly.rings]) hs h1, h2⟩
    obtain ⟨x, c1, c2⟩ := hcommon
    rw [disjointBB_false_of_common_facts pfp.facts pfq.facts c1 c2]
    simp only [Bool.false_eq_true, if_false]
    rw [Bool.or_eq_true, Bool.or_eq_true, List.any_eq_true]
    rcases h with ⟨r, hr, s, hs, hx⟩ | ⟨s, hs, hx⟩
    · rcases List.mem_cons.mp hr with rfl | hr
      · exact Or.inl (Or.inl ((lsPoly_iff q.ext p pfp).mpr ⟨s, hs, hx⟩))
      · exact Or.inl (Or.inr ⟨r, hr, (lsPoly_iff r p pfp).mpr ⟨s, hs, hx⟩⟩)
    · exact Or.inr ((lsPoly_iff p.ext q pfq).mpr ⟨s, hs, hx⟩)

theorem boundaryMeets_common {p q : Poly} (h : BoundaryMeets p q) : Common (.polygon p) (.polygon q) := by
  rcases h with ⟨r, hr, s, hs, x, h1, h2⟩ | ⟨s, hs, x, h1, h2⟩
  · exact ⟨x, h2, located_on_ring hr hs h1⟩
  · exact ⟨x, located_on_ring (by simp [Poly.rings]) hs h1, h2⟩

/-- **no false positive**: `polyPoly p q = true` ⇒ the polygons have a common point -/
theorem polyPoly_sound (p q : Poly) (pfp : PieceFacts (.polygon p)) (pfq : PieceFacts (.polygon q))
    (h : polyPoly p q = true) : Common (.polygon p) (.polygon q) :=
  boundaryMeets_common ((polyPoly_iff p q pfp pfq).mp h)

/-- `polyPoly p q` ⇔ common point, given the missing step `hgap`. Full statement (no `hgap`, valid polygons):
needs "if the boundaries of two valid polygons do not meet and the polygons have a common point, the shell of
one lies in the other" (connectedness of a valid polygon); not proved. -/
theorem polyPoly_common_partial (p q : Poly) (pfp : PieceFacts (.polygon p)) (pfq : PieceFacts (.polygon q))
    (hgap : Common (.polygon p) (.polygon q) → BoundaryMeets p q) :
    polyPoly p q = true ↔ Common (.polygon p) (.polygon q) :=
  ⟨polyPoly_sound p q pfp pfq, fun h => (polyPoly_iff p q pfp pfq).mpr (hgap h)⟩

end Geo.Proofs.C02X

namespace Geo.Proofs.C02X
open Geo Geo.Proofs.Kernel Geo.Proofs.Spec

/-- Polygon, Rect, Triangle -/
def arealPrim : Geom → Bool
  | .polygon _ | .rect _ _ | .triangle _ _ _ => true
  | _ => false

/-- **no false positive on the pairs of Polygon / Rect / Triangle**: `intersects(a, b) = true` implies that the
operands have a common point, i.e. that the mask "not `FF*FF****`" holds on the specification. -/
theorem intersectsM_arealPrim_sound (a b : Geom) (ha : inDomain a = true) (hb : inDomain b = true)
    (pa : arealPrim a = true) (pb : arealPrim b = true) (h : intersectsM a b = true) :
    Gen.isIntersects (relateSpec a b) = true := by
  apply (isIntersects_iff_common_point_closed (pa := parts a) (pb := parts b)
    (dom_facts a ha).closed (dom_facts b hb).closed).mpr
  have key : Common a b := by
    cases a <;> simp only [arealPrim, Bool.false_eq_true] at pa <;>
      cases b <;> simp only [arealPrim, Bool.false_eq_true] at pb <;>
      simp only [intersectsM, vsPiece, isxFlat, polyX, rectX, triX] at h
    · rename_i p q
      exact (polyPoly_sound q p (pieceFacts_polygon q hb) (pieceFacts_polygon p ha) h).symm
    · rename_i p mn mx
      exact polyPoly_sound p (rectPoly mn mx) (pieceFacts_polygon p ha) (pieceFacts_rectPoly mn mx) h
    · rename_i p t0 t1 t2
      exact polyPoly_sound p (triPoly t0 t1 t2) (pieceFacts_polygon p ha) (pieceFacts_triPoly t0 t1 t2) h
    · rename_i mn mx p
      exact (polyPoly_sound p (rectPoly mn mx) (pieceFacts_polygon p hb) (pieceFacts_rectPoly mn mx) h).symm
    · rename_i amn amx bmn bmx
      exact ((rectRect_iff bmn bmx amn amx (rect_dom hb).1 (rect_dom hb).2 (rect_dom ha).1 (rect_dom ha).2).mp h).symm
    · rename_i mn mx t0 t1 t2
      exact (polyPoly_sound (triPoly t0 t1 t2) (rectPoly mn mx) (pieceFacts_triPoly t0 t1 t2)
        (pieceFacts_rectPoly mn mx) h).symm
    · rename_i t0 t1 t2 p
      exact (polyPoly_sound p (triPoly t0 t1 t2) (pieceFacts_polygon p hb) (pieceFacts_triPoly t0 t1 t2) h).symm
    · rename_i t0 t1 t2 mn mx
      exact polyPoly_sound (triPoly t0 t1 t2) (rectPoly mn mx) (pieceFacts_triPoly t0 t1 t2)
        (pieceFacts_rectPoly mn mx) h
    · rename_i t0 t1 t2 u0 u1 u2
      exact (polyPoly_sound (triPoly u0 u1 u2) (triPoly t0 t1 t2) (pieceFacts_triPoly u0 u1 u2)
        (pieceFacts_triPoly t0 t1 t2) h).symm
  exact key

end Geo.Proofs.C02X
