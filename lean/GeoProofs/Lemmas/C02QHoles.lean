/-
  C02Q, part 3: hypothesis H1 of `coordPos_polygon_eq_locate_partial` from OGC validity.

  `polyValid` demands `BE = F` in `relateParts (polyOf hole) (polyOf shell)`. Every point `p` of the
  hole ring is a vertex of the arrangement, or lies strictly inside an elementary sub-segment
  `(u, v)` of a hole edge. In the second case the location relative to the shell is constant on the
  open sub-segment (no edge of the shell meets it unless it covers it, and the winding number is
  constant along a segment that meets no edge: `windingE_const`), so the midpoint atom of `(u, v)` is
  located like `p`. Hence `p` outside the shell would put a `0`- or `1`-dimensional atom into the
  cell `BE`.
-/
import GeoProofs.Lemmas.C02QWinding
import GeoProofs.Lemmas.C01QLine
import GeoProofs.Lemmas.RelateSpecReverse
import GeoModel.Valid

namespace Geo.Proofs.C02Q
open Geo Geo.Proofs.Kernel Geo.Proofs.Spec

/-! ### sorted lists -/

abbrev Sorted (a : Pt) (l : List Pt) : Prop := l.Pairwise (fun u v => dist2 a u ≤ dist2 a v)

/-- in a sorted list, a key strictly between the keys of two members and different from every
member's key lies strictly between the keys of two consecutive members -/
theorem sorted_straddle {a : Pt} {l : List Pt} (h : Sorted a l) {x y : Pt} (hx : x ∈ l) (hy : y ∈ l)
    {k : Rat} (h1 : dist2 a x < k) (h2 : k < dist2 a y) (hk : ∀ w ∈ l, dist2 a w ≠ k) :
    ∃ u v, (u, v) ∈ segs l ∧ dist2 a u < k ∧ k < dist2 a v := by
  induction l generalizing x with
  | nil => cases hx
  | cons h0 t ih =>
    have h' := List.pairwise_cons.mp h
    have hmin : ∀ z ∈ h0 :: t, dist2 a h0 ≤ dist2 a z := by
      intro z hz
      rcases List.mem_cons.mp hz with rfl | hz
      · exact le_refl _
      · exact h'.1 z hz
    have h0k : dist2 a h0 < k := lt_of_le_of_lt (hmin x hx) h1
    have hyt : y ∈ t := by
      rcases List.mem_cons.mp hy with rfl | hy'
      · exact absurd h0k (not_lt.mpr h2.le)
      · exact hy'
    cases t with
    | nil => cases hyt
    | cons h2' rest =>
      by_cases hk2 : k < dist2 a h2'
      · exact ⟨h0, h2', by simp [segs], h0k, hk2⟩
      · have hlt : dist2 a h2' < k :=
          lt_of_le_of_ne (not_lt.mp hk2) (hk h2' (by simp))
        obtain ⟨u, v, huv, hu, hv⟩ := ih h'.2 (x := h2') (by simp) hyt hlt
          (fun w hw => hk w (List.mem_cons_of_mem _ hw))
        exact ⟨u, v, by simp only [segs, List.mem_cons]; exact Or.inr huv, hu, hv⟩

/-! ### distances along a segment -/

theorem dist2_param {a b x : Pt} {t : Rat} (hx : x.x = a.x + t * (b.x - a.x))
    (hy : x.y = a.y + t * (b.y - a.y)) :
    dist2 a x = t * t * ((b.x - a.x) * (b.x - a.x) + (b.y - a.y) * (b.y - a.y)) := by
  unfold dist2; rw [hx, hy]; ring

/-- along a segment from `a`, the squared distance from `a` is monotone: a point between two points
of the segment has its distance between theirs -/
theorem dist2_between {a b x y z : Pt} (hab : a ≠ b) (hx : SegMem x a b) (hy : SegMem y a b)
    (hz : SegMem z x y) (hle : dist2 a x ≤ dist2 a y) :
    dist2 a x ≤ dist2 a z ∧ dist2 a z ≤ dist2 a y := by
  obtain ⟨tx, tx0, _, xx, xy⟩ := hx
  obtain ⟨ty, ty0, _, yx, yy⟩ := hy
  obtain ⟨r, r0, r1, zx, zy⟩ := hz
  have hL := seg_len_pos hab
  generalize hLd : (b.x - a.x) * (b.x - a.x) + (b.y - a.y) * (b.y - a.y) = L at hL
  have dx : dist2 a x = tx * tx * L := by rw [dist2_param xx xy, hLd]
  have dy : dist2 a y = ty * ty * L := by rw [dist2_param yx yy, hLd]
  have zx' : z.x = a.x + (tx + r * (ty - tx)) * (b.x - a.x) := by rw [zx, xx, yx]; ring
  have zy' : z.y = a.y + (tx + r * (ty - tx)) * (b.y - a.y) := by rw [zy, xy, yy]; ring
  have dz : dist2 a z = (tx + r * (ty - tx)) * (tx + r * (ty - tx)) * L := by
    rw [dist2_param zx' zy', hLd]
  have hxy : tx ≤ ty := by
    by_contra hc
    have hc : ty < tx := not_le.mp hc
    have : ty * ty < tx * tx := by nlinarith
    have := mul_lt_mul_of_pos_right this hL
    rw [dx, dy] at hle
    linarith
  have hm0 : 0 ≤ r * (ty - tx) := mul_nonneg r0 (by linarith)
  have hm1 : r * (ty - tx) ≤ ty - tx := by
    have := mul_le_mul_of_nonneg_right r1 (by linarith : 0 ≤ ty - tx)
    linarith
  rw [dx, dy, dz]
  constructor
  · apply mul_le_mul_of_nonneg_right _ hL.le
    nlinarith
  · apply mul_le_mul_of_nonneg_right _ hL.le
    nlinarith

theorem dist2_self (a : Pt) : dist2 a a = 0 := by unfold dist2; ring

theorem dist2_pos {a p : Pt} (h : p ≠ a) : 0 < dist2 a p := by
  have h1 := mul_self_nonneg (p.x - a.x)
  have h2 := mul_self_nonneg (p.y - a.y)
  have e : dist2 a p = (p.x - a.x) * (p.x - a.x) + (p.y - a.y) * (p.y - a.y) := by
    unfold dist2; ring
  rw [e]
  by_contra hc
  have e1 : (p.x - a.x) * (p.x - a.x) = 0 := by linarith
  have e2 : (p.y - a.y) * (p.y - a.y) = 0 := by linarith
  have e1' := mul_self_eq_zero.mp e1
  have e2' := mul_self_eq_zero.mp e2
  exact h (Pt.ext' (by linarith) (by linarith))

/-! ### an elementary sub-segment around a non-vertex point -/

/-- the data of an elementary sub-segment `(u, v)` of the segment `(a, b)` in an arrangement -/
structure Elem (verts : List Pt) (a b u v : Pt) : Prop where
  hab : a ≠ b
  pair : (u, v) ∈ segs (sortByDist a (verts.filter (fun w => lineCoord a b w)))
  ne : u ≠ v

/-- strictly inside the elementary sub-segment -/
def Within (a b u v z : Pt) : Prop := SegMem z a b ∧ dist2 a u < dist2 a z ∧ dist2 a z < dist2 a v

theorem Elem.mem {verts : List Pt} {a b u v : Pt} (E : Elem verts a b u v) :
    (u ∈ verts ∧ SegMem u a b) ∧ (v ∈ verts ∧ SegMem v a b) := by
  obtain ⟨hu, hv⟩ := mem_of_mem_segs E.pair
  rw [mem_sortByDist, List.mem_filter] at hu hv
  exact ⟨⟨hu.1, (lineCoord_iff _ _ _).mp hu.2⟩, ⟨hv.1, (lineCoord_iff _ _ _).mp hv.2⟩⟩

/-- no vertex of the arrangement on `(a, b)` is strictly inside an elementary sub-segment -/
theorem Elem.no_vertex {verts : List Pt} {a b u v : Pt} (E : Elem verts a b u v) {w : Pt}
    (hw : w ∈ verts) (hwm : SegMem w a b) : dist2 a w ≤ dist2 a u ∨ dist2 a v ≤ dist2 a w := by
  have hw' : w ∈ sortByDist a (verts.filter (fun w => lineCoord a b w)) := by
    rw [mem_sortByDist, List.mem_filter]; exact ⟨hw, (lineCoord_iff _ _ _).mpr hwm⟩
  exact (sorted_consecutive (sortByDist_sorted a _) E.pair).2 w hw'

theorem Elem.midpoint_within {verts : List Pt} {a b u v : Pt} (E : Elem verts a b u v) :
    Within a b u v (midpoint u v) := by
  obtain ⟨⟨_, hu⟩, ⟨_, hv⟩⟩ := E.mem
  have hle := (sorted_consecutive (sortByDist_sorted a _) E.pair).1
  obtain ⟨h1, h2⟩ := dist2_midpoint_between E.hab hu hv E.ne hle
  exact ⟨SegMem_midpoint hu hv, h1, h2⟩

/-- the points of a segment between two points strictly inside stay strictly inside -/
theorem Within.convex {a b u v x y z : Pt} (hab : a ≠ b) (hx : Within a b u v x) (hy : Within a b u v y)
    (hz : SegMem z x y) : Within a b u v z := by
  have hzm : SegMem z a b := SegMem_convex hx.1 hy.1 hz
  rcases le_total (dist2 a x) (dist2 a y) with hle | hle
  · obtain ⟨h1, h2⟩ := dist2_between hab hx.1 hy.1 hz hle
    exact ⟨hzm, lt_of_lt_of_le hx.2.1 h1, lt_of_le_of_lt h2 hy.2.2⟩
  · obtain ⟨h1, h2⟩ := dist2_between hab hy.1 hx.1 (SegMem_symm hz) hle
    exact ⟨hzm, lt_of_lt_of_le hy.2.1 h1, lt_of_le_of_lt h2 hx.2.2⟩

/-- every point of a non-degenerate segment of the arrangement that is not a vertex lies strictly
inside an elementary sub-segment -/
theorem exists_elem {verts : List Pt} {a b p : Pt} (hab : a ≠ b) (ha : a ∈ verts) (hb : b ∈ verts)
    (hp : SegMem p a b) (hnv : p ∉ verts) : ∃ u v, Elem verts a b u v ∧ Within a b u v p := by
  have hpa : p ≠ a := fun e => hnv (e ▸ ha)
  have hpb : p ≠ b := fun e => hnv (e ▸ hb)
  have ha' : a ∈ sortByDist a (verts.filter (fun w => lineCoord a b w)) := by
    rw [mem_sortByDist, List.mem_filter]; exact ⟨ha, (lineCoord_iff _ _ _).mpr (SegMem_left a b)⟩
  have hb' : b ∈ sortByDist a (verts.filter (fun w => lineCoord a b w)) := by
    rw [mem_sortByDist, List.mem_filter]; exact ⟨hb, (lineCoord_iff _ _ _).mpr (SegMem_right a b)⟩
  have h1 : dist2 a a < dist2 a p := by rw [dist2_self]; exact dist2_pos hpa
  have h2 : dist2 a p < dist2 a b := by
    have hle := (dist2_between hab (SegMem_left a b) (SegMem_right a b) hp
      (by rw [dist2_self]; exact (dist2_pos (Ne.symm hab)).le)).2
    exact lt_of_le_of_ne hle (fun e => hpb (dist2_inj_on_seg hab hp (SegMem_right a b) e))
  have hk : ∀ w ∈ sortByDist a (verts.filter (fun w => lineCoord a b w)), dist2 a w ≠ dist2 a p := by
    intro w hw e
    rw [mem_sortByDist, List.mem_filter] at hw
    have := dist2_inj_on_seg hab ((lineCoord_iff _ _ _).mp hw.2) hp e
    exact hnv (this ▸ hw.1)
  obtain ⟨u, v, huv, hu, hv⟩ := sorted_straddle (sortByDist_sorted a _) ha' hb' h1 h2 hk
  have hne : u ≠ v := fun e => by rw [e] at hu; exact lt_irrefl _ (lt_trans hv hu)
  exact ⟨u, v, ⟨hab, huv, hne⟩, hp, hu, hv⟩

/-! ### an edge of the arrangement meets an elementary sub-segment in all or nothing -/

theorem segVertex_mem_verts {pa pb : Parts} {s t : Pt × Pt} (hs : s ∈ pa.allSegs ++ pb.allSegs)
    (ht : t ∈ pa.allSegs ++ pb.allSegs) {q : Pt} (hq : q ∈ segVertex s t) : q ∈ vertsOf pa pb := by
  unfold vertsOf
  rw [Geo.Proofs.Spec.mem_dedupPts]
  apply List.mem_append_right
  rw [mem_pairVertices_iff]
  exact ⟨s, hs, t, ht, hq⟩

/-- if an edge `(c, d)` of the arrangement contains one point strictly inside an elementary
sub-segment, it contains all of them -/
theorem edge_all_or_nothing {pa pb : Parts} {a b c d u v z : Pt}
    (hs : (a, b) ∈ pa.allSegs ++ pb.allSegs) (ht : (c, d) ∈ pa.allSegs ++ pb.allSegs)
    (E : Elem (vertsOf pa pb) a b u v) (hz : Within a b u v z) (hzc : SegMem z c d)
    {z' : Pt} (hz' : Within a b u v z') : SegMem z' c d := by
  have hab := E.hab
  cases hli : lineIntersection a b c d with
  | none =>
    exact absurd ⟨z, hz.1, hzc⟩ ((Geo.Proofs.C11.li_none_iff a b c d).mp hli)
  | some r =>
    cases r with
    | single q f =>
      exfalso
      have hzq := (Geo.Proofs.C11.li_single_exact a b c d q f hli z).mp ⟨hz.1, hzc⟩
      have hqv : q ∈ vertsOf pa pb := by
        apply segVertex_mem_verts hs ht (s := (a, b)) (t := (c, d))
        unfold segVertex
        simp only [hli, List.mem_singleton]
      rw [← hzq] at hqv
      rcases E.no_vertex hqv hz.1 with h | h
      · exact absurd hz.2.1 (not_lt.mpr h)
      · exact absurd hz.2.2 (not_lt.mpr h)
    | collinear x y =>
      have hex := Geo.Proofs.C11.li_collinear_exact a b c d x y hli
      obtain ⟨ex, ey⟩ := li_collinear_endpoints a b c d x y hli
      obtain ⟨ea1, ea2⟩ := ends_mem_vertsOf hs
      obtain ⟨ec1, ec2⟩ := ends_mem_vertsOf ht
      have hxv : x ∈ vertsOf pa pb := by
        rcases ex with e | e | e | e <;> rw [e] <;> assumption
      have hyv : y ∈ vertsOf pa pb := by
        rcases ey with e | e | e | e <;> rw [e] <;> assumption
      have hxm : SegMem x a b := ((hex x).mpr (SegMem_left x y)).1
      have hym : SegMem y a b := ((hex y).mpr (SegMem_right x y)).1
      have hzxy : SegMem z x y := (hex z).mp ⟨hz.1, hzc⟩
      -- orient the common part along the segment
      have key : ∀ x y : Pt, x ∈ vertsOf pa pb → y ∈ vertsOf pa pb → SegMem x a b → SegMem y a b →
          SegMem z x y → dist2 a x ≤ dist2 a y → SegMem z' x y := by
        intro x y hxv hyv hxm hym hzxy hle
        obtain ⟨b1, b2⟩ := dist2_between hab hxm hym hzxy hle
        have hxu : dist2 a x ≤ dist2 a u := by
          rcases E.no_vertex hxv hxm with h | h
          · exact h
          · exact absurd (lt_of_le_of_lt b1 hz.2.2) (not_lt.mpr h)
        have hvy : dist2 a v ≤ dist2 a y := by
          rcases E.no_vertex hyv hym with h | h
          · exact absurd (lt_of_lt_of_le hz.2.1 b2) (not_lt.mpr h)
          · exact h
        exact segMem_of_between hab hxm hym hz'.1 (lt_of_le_of_lt hxu hz'.2.1)
          (lt_of_lt_of_le hz'.2.2 hvy)
      rcases le_total (dist2 a x) (dist2 a y) with hle | hle
      · exact ((hex z').mpr (key x y hxv hyv hxm hym hzxy hle)).2
      · exact ((hex z').mpr (SegMem_symm (key y x hyv hxv hym hxm (SegMem_symm hzxy) hle))).2

/-! ### location relative to a ring is constant on an elementary sub-segment -/

theorem allSegs_polyOf (r : List Pt) : (polyOf r).allSegs = segs r := by
  simp [polyOf, Parts.allSegs, Parts.curveSegs, Parts.areaSegs, Poly.rings]

theorem locate_polyOf_outside_iff (r : List Pt) (h2 : 2 ≤ r.length) (p : Pt) :
    locateParts (polyOf r) p = .outside ↔
      onAnySeg p (segs r) = false ∧ windingE (EPt.ofPt p) r = 0 := by
  unfold polyOf
  rw [Geo.Proofs.Loc.locateParts_ring]
  have hs : (r == [p]) = false := by
    cases hr : r == [p] with
    | false => rfl
    | true =>
      have : r = [p] := by simpa using hr
      rw [this] at h2; simp at h2
  rw [hs]
  by_cases hon : onAnySeg p (segs r) = true
  · simp [hon]
  · have hon' : onAnySeg p (segs r) = false := by simpa using hon
    by_cases hw : windingE (EPt.ofPt p) r = 0 <;> simp [hon', hw]

theorem locate_polyOf_boundary {r : List Pt} {p : Pt} (h : onAnySeg p (segs r) = true) :
    locateParts (polyOf r) p = .onBoundary := by
  unfold polyOf
  rw [Geo.Proofs.Loc.locateParts_ring]
  simp [h]

/-- **outside a closed ring is constant on an elementary sub-segment** of an edge of the other
operand -/
theorem outside_const {pa : Parts} {ext : List Pt} (hc : ext.head? = ext.getLast?) (h2 : 2 ≤ ext.length)
    {a b u v : Pt} (hs : (a, b) ∈ pa.allSegs ++ (polyOf ext).allSegs)
    (E : Elem (vertsOf pa (polyOf ext)) a b u v) {p m : Pt} (hp : Within a b u v p)
    (hm : Within a b u v m) (hout : locateParts (polyOf ext) p = .outside) :
    locateParts (polyOf ext) m = .outside := by
  rw [locate_polyOf_outside_iff ext h2] at hout ⊢
  obtain ⟨hon, hw⟩ := hout
  -- no point strictly inside the sub-segment is on the ring
  have hoff : ∀ z, Within a b u v z → ∀ s ∈ segs ext, ¬ SegMem z s.1 s.2 := by
    intro z hz s hs' hzs
    have ht : (s.1, s.2) ∈ pa.allSegs ++ (polyOf ext).allSegs := by
      rw [allSegs_polyOf]; exact List.mem_append_right _ hs'
    have := edge_all_or_nothing hs ht E hz hzs hp
    have hon' : onAnySeg p (segs ext) = true := by
      rw [Geo.Proofs.Loc.onAnySeg_iff]
      exact ⟨s, hs', (lineCoord_iff _ _ _).mpr this⟩
    rw [hon] at hon'; cases hon'
  constructor
  · cases hb : onAnySeg m (segs ext) with
    | false => rfl
    | true =>
      rw [Geo.Proofs.Loc.onAnySeg_iff] at hb
      obtain ⟨s, hs', hl⟩ := hb
      exact absurd ((lineCoord_iff _ _ _).mp hl) (hoff m hm s hs')
  · rw [windingE_const ext hc m p ?_, hw]
    intro s hs' ⟨x, hx1, hx2⟩
    exact hoff x (Within.convex E.hab hm hp hx2) s hs' hx1

/-- **the location relative to a closed ring is constant on an elementary sub-segment** of any edge
of the arrangement (of either operand) -/
theorem ring_location_const {pa : Parts} {ext : List Pt} (hc : ext.head? = ext.getLast?) (h2 : 2 ≤ ext.length)
    {a b u v : Pt} (hs : (a, b) ∈ pa.allSegs ++ (polyOf ext).allSegs)
    (E : Elem (vertsOf pa (polyOf ext)) a b u v) {p m : Pt} (hp : Within a b u v p)
    (hm : Within a b u v m) : locateParts (polyOf ext) m = locateParts (polyOf ext) p := by
  have bnd : ∀ x y, Within a b u v x → Within a b u v y → locateParts (polyOf ext) x = .onBoundary →
      locateParts (polyOf ext) y = .onBoundary := by
    intro x y hx hy hb
    have hon : onAnySeg x (segs ext) = true := by
      unfold polyOf at hb
      rw [Geo.Proofs.Loc.locateParts_ring] at hb
      have hs1 : (ext == [x]) = false := by
        cases hr : ext == [x] with
        | false => rfl
        | true =>
          have : ext = [x] := by simpa using hr
          rw [this] at h2; simp at h2
      rw [hs1] at hb
      by_cases hon : onAnySeg x (segs ext) = true
      · exact hon
      · have hon' : onAnySeg x (segs ext) = false := by simpa using hon
        rw [hon'] at hb
        split at hb <;> simp at hb
    rw [Geo.Proofs.Loc.onAnySeg_iff] at hon
    obtain ⟨s, hs', hl⟩ := hon
    have ht : (s.1, s.2) ∈ pa.allSegs ++ (polyOf ext).allSegs := by
      rw [allSegs_polyOf]; exact List.mem_append_right _ hs'
    have := edge_all_or_nothing hs ht E hx ((lineCoord_iff _ _ _).mp hl) hy
    apply locate_polyOf_boundary
    rw [Geo.Proofs.Loc.onAnySeg_iff]
    exact ⟨s, hs', (lineCoord_iff _ _ _).mpr this⟩
  have out : ∀ x y, Within a b u v x → Within a b u v y → locateParts (polyOf ext) x = .outside →
      locateParts (polyOf ext) y = .outside := fun x y hx hy ho => outside_const hc h2 hs E hx hy ho
  cases hlp : locateParts (polyOf ext) p with
  | onBoundary => exact bnd p m hp hm hlp
  | outside => exact out p m hp hm hlp
  | inside =>
    cases hlm : locateParts (polyOf ext) m with
    | inside => rfl
    | onBoundary => rw [bnd m p hm hp hlm] at hlp; cases hlp
    | outside => rw [out m p hm hp hlm] at hlp; cases hlp

/-! ### H1 -/

theorem cell_empty_no_atom {pa pb : Parts} {X Y : Pos} (h : (relateParts pa pb).get X Y = .empty)
    {x : Atom} (hx : x ∈ atomsOf pa pb) (hX : x.posA = X) (hY : x.posB = Y) : False := by
  have := cell_ge_of_atom hx
  rw [hX, hY, h] at this
  have hd := atom_dim_ne_empty hx
  cases hdim : x.dim <;> simp [hdim, Dim.rank] at this hd

/-- if the cell `BE` of `(hole ring, closed shell ring)` is empty, no point of the hole ring is
located outside the shell -/
theorem hole_point_not_outside {h ext : List Pt} (hc : ext.head? = ext.getLast?) (h2 : 2 ≤ ext.length)
    (hbe : (relateParts (polyOf h) (polyOf ext)).be = .empty) {p : Pt}
    (hp : onAnySeg p (segs h) = true) : locateParts (polyOf ext) p ≠ .outside := by
  intro hout
  have hbe' : (relateParts (polyOf h) (polyOf ext)).get .onBoundary .outside = .empty := hbe
  rw [Geo.Proofs.Loc.onAnySeg_iff] at hp
  obtain ⟨⟨a, b⟩, hs, hl⟩ := hp
  have hpm : SegMem p a b := (lineCoord_iff _ _ _).mp hl
  have hs' : (a, b) ∈ (polyOf h).allSegs ++ (polyOf ext).allSegs := by
    rw [allSegs_polyOf]; exact List.mem_append_left _ hs
  have onh : ∀ z, SegMem z a b → locateParts (polyOf h) z = .onBoundary := by
    intro z hz
    apply locate_polyOf_boundary
    rw [Geo.Proofs.Loc.onAnySeg_iff]
    exact ⟨(a, b), hs, (lineCoord_iff _ _ _).mpr hz⟩
  obtain ⟨ha, hb⟩ := ends_mem_vertsOf hs'
  by_cases hv : p ∈ vertsOf (polyOf h) (polyOf ext)
  · exact cell_empty_no_atom hbe' (vertex_atom_mem hv) (onh p hpm) hout
  · have hab : a ≠ b := by
      intro e
      subst e
      rw [SegMem_degenerate] at hpm
      exact hv (hpm ▸ ha)
    obtain ⟨u, v, E, hw⟩ := exists_elem hab ha hb hpm hv
    have hmw := E.midpoint_within
    have hm := outside_const hc h2 hs' E hw hmw hout
    obtain ⟨_, _, hall⟩ := segAtoms_of_pair (polyOf h) (polyOf ext) hab E.pair E.ne
    have hx : (⟨.one, locateParts (polyOf h) (midpoint u v), locateParts (polyOf ext) (midpoint u v)⟩ : Atom) ∈
        atomsOf (polyOf h) (polyOf ext) := by
      unfold atomsOf
      exact List.mem_append_right _ (List.mem_flatMap.mpr ⟨(a, b), hs', hall _ (Or.inl rfl)⟩)
    exact cell_empty_no_atom hbe' hx (onh _ hmw.1) hm

/-! ### closed rings from `ringSimple` -/

theorem segs_length' : ∀ r : List Pt, (segs r).length = r.length - 1
  | [] => rfl
  | [a] => rfl
  | a :: b :: t => by simp [segs, segs_length' (b :: t)]

theorem dedup_head' : ∀ (b : Pt) (t : List Pt), ∃ t', dedupConsecutive (b :: t) = b :: t'
  | b, [] => ⟨[], rfl⟩
  | b, c :: t => by
      simp only [dedupConsecutive]
      by_cases h : b = c
      · subst h
        simp only [beq_self_eq_true, if_true]
        exact dedup_head' b t
      · have : (b == c) = false := by simp [h]
        simp only [this, Bool.false_eq_true, if_false]
        exact ⟨_, rfl⟩

theorem dedup_head?' (r : List Pt) : (dedupConsecutive r).head? = r.head? := by
  cases r with
  | nil => rfl
  | cons b t =>
    obtain ⟨t', ht'⟩ := dedup_head' b t
    rw [ht']; rfl

theorem dedup_getLast?' : ∀ r : List Pt, (dedupConsecutive r).getLast? = r.getLast?
  | [] => rfl
  | [a] => rfl
  | a :: b :: t => by
      simp only [dedupConsecutive]
      by_cases h : a = b
      · subst h
        simp only [beq_self_eq_true, if_true]
        rw [dedup_getLast?' (a :: t), List.getLast?_cons_cons]
      · have hab : (a == b) = false := by simp [h]
        simp only [hab, Bool.false_eq_true, if_false]
        have ih := dedup_getLast?' (b :: t)
        obtain ⟨t', ht'⟩ := dedup_head' b t
        rw [ht'] at ih ⊢
        rw [List.getLast?_cons_cons, ih, List.getLast?_cons_cons]

theorem dedup_length_le : ∀ r : List Pt, (dedupConsecutive r).length ≤ r.length
  | [] => by simp [dedupConsecutive]
  | [a] => by simp [dedupConsecutive]
  | a :: b :: t => by
      simp only [dedupConsecutive]
      have ih := dedup_length_le (b :: t)
      split
      · simp only [List.length_cons] at ih ⊢; omega
      · simp only [List.length_cons] at ih ⊢; omega

/-- a simple ring is closed and has at least two (in fact four) coordinates -/
theorem ringOK_of_simple {r : List Pt} (h : ringSimple r = true) : Geo.Proofs.Loc.RingOK r := by
  unfold ringSimple at h
  simp only [Bool.and_eq_true, decide_eq_true_eq] at h
  obtain ⟨⟨hcl, hn⟩, _⟩ := h
  rw [dedup_head?', dedup_getLast?'] at hcl
  refine ⟨hcl, ?_⟩
  rw [segs_length'] at hn
  have := dedup_length_le r
  omega

/-- what `polyValid` says about single rings and about each hole against the shell -/
theorem polyValid_unpack {q : Poly} (h : polyValid q = true) :
    ringSimple q.ext = true ∧ (∀ r ∈ q.ints, ringSimple r = true) ∧
      (∀ r ∈ q.ints, (relateParts (polyOf r) (polyOf q.ext)).be = .empty) := by
  unfold polyValid polyValid.polyValidRings at h
  simp only [Bool.and_eq_true, List.all_eq_true, beq_iff_eq] at h
  obtain ⟨⟨⟨⟨h1, h2⟩, h3⟩, _⟩, _⟩ := h
  exact ⟨h1, h2, fun r hr => (h3 r hr).1.2⟩

/-- **H1 from validity**: in an OGC-valid polygon no point of a hole ring is outside the shell ring
(for geo's own `coord_pos_relative_to_ring`). -/
theorem hole_ring_in_shell {q : Poly} (hv : polyValid q = true) {r : List Pt} (hr : r ∈ q.ints)
    {p : Pt} (hp : onAnySeg p (segs r) = true) : ringPos p q.ext ≠ .outside := by
  obtain ⟨h1, _, h3⟩ := polyValid_unpack hv
  have hok := ringOK_of_simple h1
  rw [Geo.Proofs.Loc.ringPos_eq_ringLoc p q.ext hok, Ne, Geo.Proofs.Loc.ringLoc_outside_iff]
  have := hole_point_not_outside hok.1 hok.2 (h3 r hr) hp
  rwa [Ne, locate_polyOf_outside_iff q.ext hok.2] at this

/-- `coordinate_position` of an OGC-valid polygon is the specification's location at every point
that is not strictly inside one hole and on the ring of another one. -/
theorem coordPos_polygon_valid (q : Poly) (p : Pt) (hv : polyValid q = true)
    (H2 : ∀ h ∈ q.ints, ∀ h' ∈ q.ints, ringPos p h = .inside → onAnySeg p (segs h') = false) :
    coordPos (.polygon q) p = locate (.polygon q) p := by
  obtain ⟨h1, h2, _⟩ := polyValid_unpack hv
  exact Geo.Proofs.Loc.coordPos_polygon_eq_locate_at q p (ringOK_of_simple h1)
    (fun h hh => ringOK_of_simple (h2 h hh)) (fun h hh hp => hole_ring_in_shell hv hh hp) H2

end Geo.Proofs.C02Q
