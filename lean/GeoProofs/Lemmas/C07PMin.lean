/-
  GeoProofs.Lemmas.C07PMin — "the value is the true minimum of `|x − y|²` over all pairs of points":
  lifted from the segment–segment result (`C07PSegSeg.lean`) to `Line × Line`, `Line × LineString`,
  `nearest_neighbour_distance`, `LineString × LineString` and the point kernels.
-/
import GeoProofs.Lemmas.C07Kernels
import GeoProofs.Lemmas.C07Bbox
import GeoProofs.Lemmas.C07PSegSeg

namespace Geo.Proofs.C07
open Geo Geo.Proofs.Kernel

/-- `m` is the minimum of `|x − y|²` over `x ∈ A`, `y ∈ B`: a lower bound that is attained -/
def IsMinDist (A B : Pt → Prop) (m : Rat) : Prop :=
  (∀ x y, A x → B y → m ≤ dist2 x y) ∧ ∃ x y, A x ∧ B y ∧ m = dist2 x y

theorem IsMinDist.swap {A B : Pt → Prop} {m : Rat} (h : IsMinDist A B m) : IsMinDist B A m := by
  obtain ⟨h1, x, y, hx, hy, e⟩ := h
  exact ⟨fun y' x' hy' hx' => by rw [dist2_symm]; exact h1 x' y' hx' hy',
    y, x, hy, hx, by rw [dist2_symm]; exact e⟩

/-- the minimum is unique -/
theorem IsMinDist.unique {A B : Pt → Prop} {m m' : Rat} (h : IsMinDist A B m) (h' : IsMinDist A B m') :
    m = m' := by
  obtain ⟨l, x, y, hx, hy, e⟩ := h
  obtain ⟨l', x', y', hx', hy', e'⟩ := h'
  have := l x' y' hx' hy'; have := l' x y hx hy
  linarith

theorem IsMinDist.nonneg {A B : Pt → Prop} {m : Rat} (h : IsMinDist A B m) : 0 ≤ m := by
  obtain ⟨_, x, y, _, _, e⟩ := h
  rw [e]; exact dist2_nonneg x y

/-- two sets with a common point are at distance zero -/
theorem IsMinDist_zero_of_common {A B : Pt → Prop} {p : Pt} (ha : A p) (hb : B p) : IsMinDist A B 0 :=
  ⟨fun x y _ _ => dist2_nonneg x y, p, p, ha, hb, ((dist2_eq_zero_iff p p).mpr rfl).symm⟩

/-- the points of a line string: the union of its closed segments -/
def LsPts (cs : List Pt) (x : Pt) : Prop := ∃ se ∈ segs cs, SegMem x se.1 se.2

theorem OnLs_iff_LsPts (p : Pt) (cs : List Pt) : OnLs p cs ↔ LsPts cs p := by
  unfold OnLs LsPts
  simp only [lineCoord_iff]

/-- every vertex of a line string with at least one segment is one of its points -/
theorem LsPts_of_mem : ∀ {cs : List Pt} {q : Pt}, segs cs ≠ [] → q ∈ cs → LsPts cs q
  | [], _, h, _ => (h rfl).elim
  | [_], _, h, _ => (h rfl).elim
  | a :: b :: rest, q, _, hq => by
    rcases List.mem_cons.mp hq with rfl | hq'
    · exact ⟨(q, b), by simp [segs], SegMem_left q b⟩
    · by_cases hr : segs (b :: rest) = []
      · have hb : q = b := by
          cases rest with
          | nil => simpa using hq'
          | cons c r => simp [segs] at hr
        subst hb
        exact ⟨(a, q), by simp [segs], SegMem_right a q⟩
      · obtain ⟨se, hse, hx⟩ := LsPts_of_mem hr hq'
        exact ⟨se, by simp only [segs]; exact List.mem_cons_of_mem _ hse, hx⟩

/-! ### the `min` folds -/

/-- a fold over a non-empty list of finite values is finite -/
theorem foldMin_finite {α} {f : α → DV} : ∀ {l : List α}, l ≠ [] → (∀ e ∈ l, ∃ q, f e = .fin q) →
    ∃ q, foldMin f l = .fin q
  | [], h, _ => (h rfl).elim
  | x :: xs, _, hf => by
    obtain ⟨q, hq⟩ := hf x List.mem_cons_self
    rw [foldMin_cons, hq]
    by_cases hxs : xs = []
    · subst hxs; exact ⟨q, by rw [foldMin_nil, DV.min_inf]⟩
    · obtain ⟨q', hq'⟩ := foldMin_finite hxs (fun e he => hf e (List.mem_cons_of_mem _ he))
      rw [hq']
      exact ⟨_, rfl⟩

/-- **minimum through a fold**: if every element value is the minimum distance from `A` to its own
set `B e`, the fold is the minimum distance from `A` to the union of the `B e` -/
theorem foldMin_IsMinDist {α} {f : α → DV} {l : List α} {A : Pt → Prop} {B : α → Pt → Prop}
    (hf : ∀ e ∈ l, ∃ q, f e = .fin q ∧ IsMinDist A (B e) q) {m : Rat} (hm : foldMin f l = .fin m) :
    IsMinDist A (fun y => ∃ e ∈ l, B e y) m := by
  have hG : ∀ e ∈ l, (f e).Ge0 := by
    intro e he
    obtain ⟨q, hq, hmin⟩ := hf e he
    rw [hq]; exact hmin.nonneg
  obtain ⟨⟨e, he, hfe⟩, hlb⟩ := foldMin_fin hG hm
  constructor
  · rintro x y hx ⟨e', he', hy⟩
    obtain ⟨q, hq, hmin⟩ := hf e' he'
    have h1 := hlb e' he'
    rw [hq] at h1
    exact le_trans h1 (hmin.1 x y hx hy)
  · obtain ⟨q, hq, hmin⟩ := hf e he
    rw [hfe] at hq
    obtain rfl := DV.fin.inj hq
    obtain ⟨x, y, hx, hy, e'⟩ := hmin.2
    exact ⟨x, y, hx, ⟨e, he, hy⟩, e'⟩

/-! ### point kernels -/

theorem ptPt2_IsMinDist (p q : Pt) : IsMinDist (· = p) (· = q) (dist2 p q) :=
  ⟨fun x y hx hy => by rw [hx, hy], p, q, rfl, rfl, rfl⟩

theorem psd2_IsMinDist (p a b : Pt) : IsMinDist (· = p) (fun x => SegMem x a b) (psd2 p a b) := by
  constructor
  · intro x y hx hy; rw [hx]; exact psd2_le_of_SegMem hy
  · obtain ⟨x, hx, e⟩ := psd2_attained p a b
    exact ⟨p, x, rfl, hx, e⟩

/-- a fold of `line_segment_distance` over the segments of a line string -/
theorem segFold_IsMinDist (p : Pt) (cs : List Pt) {m : Rat} (hm : foldMin (segD p) (segs cs) = .fin m) :
    IsMinDist (· = p) (LsPts cs) m :=
  foldMin_IsMinDist (B := fun se x => SegMem x se.1 se.2)
    (fun se _ => ⟨psd2 p se.1 se.2, rfl, psd2_IsMinDist p se.1 se.2⟩) hm

/-- `Point × LineString` is the true minimum wherever the tolerance test has no false positive
(finding K4) -/
theorem ptLs2_IsMinDist {p : Pt} {cs : List Pt} (hne : cs ≠ [])
    (hT : lsContainsPointTol cs p = true → OnLs p cs) {m : Rat} (hm : ptLs2 p cs = .fin m) :
    IsMinDist (· = p) (LsPts cs) m := by
  unfold ptLs2 at hm
  by_cases hc : lsContainsPointTol cs p = true
  · simp only [hc, Bool.true_or, if_true] at hm
    obtain rfl := DV.fin.inj hm
    exact IsMinDist_zero_of_common (p := p) rfl ((OnLs_iff_LsPts p cs).mp (hT hc))
  · have he : cs.isEmpty = false := by
      cases cs with
      | nil => exact (hne rfl).elim
      | cons _ _ => rfl
    simp only [hc, he, Bool.or_self, Bool.false_eq_true, if_false] at hm
    exact segFold_IsMinDist p cs hm

/-! ### Line × Line, Line × LineString -/

theorem lineLine2_finite (a b c d : Pt) : ∃ q, lineLine2 a b c d = .fin q := by
  by_cases h : lineLine a b c d = true
  · exact ⟨0, (lineLine2_zero_iff a b c d).mpr h⟩
  · have h' : lineLine a b c d = false := by simpa using h
    rcases lineLine2_cases a b c d h' with e | e | e | e <;> exact ⟨_, e⟩

/-- for disjoint segments `Line × Line` is exactly the smallest end-point distance -/
theorem lineLine2_eq_min4 {a b c d : Pt} (h : lineLine a b c d = false) :
    lineLine2 a b c d = .fin (min4 a b c d) := by
  obtain ⟨m1, m2, m3, m4⟩ := min4_le a b c d
  rcases lineLine2_cases a b c d h with e | e | e | e
  all_goals
    obtain ⟨l1, l2, l3, l4⟩ := lineLine2_Lb_inv a b c d (m := _) (by rw [e]; exact le_refl _) h
    rw [e]
    congr 1
    apply le_antisymm
    · exact le_min (le_min l1 l2) (le_min l3 l4)
    · assumption

/-- **Line × Line is the true minimum** over all pairs of points of the two closed segments -/
theorem lineLine2_IsMinDist (a b c d : Pt) {m : Rat} (hm : lineLine2 a b c d = .fin m) :
    IsMinDist (fun x => SegMem x a b) (fun y => SegMem y c d) m := by
  by_cases h : lineLine a b c d = true
  · rw [(lineLine2_zero_iff a b c d).mpr h] at hm
    obtain rfl := DV.fin.inj hm
    obtain ⟨p, h1, h2⟩ := (lineLine_iff a b c d).mp h
    exact IsMinDist_zero_of_common h1 h2
  · have h' : lineLine a b c d = false := by simpa using h
    rw [lineLine2_eq_min4 h'] at hm
    obtain rfl := DV.fin.inj hm
    have hno : ¬ ∃ p, SegMem p a b ∧ SegMem p c d := fun hc => h ((lineLine_iff a b c d).mpr hc)
    exact ⟨fun x y hx hy => segseg_min4_le hno hx hy, min4_attained a b c d⟩

/-- **Line × LineString is the true minimum** -/
theorem lineLs2_IsMinDist (a b : Pt) (cs : List Pt) {m : Rat} (hm : lineLs2 a b cs = .fin m) :
    IsMinDist (fun x => SegMem x a b) (LsPts cs) m := by
  unfold lineLs2 at hm
  refine foldMin_IsMinDist (B := fun se x => SegMem x se.1 se.2) (fun se _ => ?_) hm
  obtain ⟨q, hq⟩ := lineLine2_finite a b se.1 se.2
  exact ⟨q, hq, lineLine2_IsMinDist a b se.1 se.2 hq⟩

theorem lineLs2_finite (a b : Pt) {cs : List Pt} (h : segs cs ≠ []) : ∃ q, lineLs2 a b cs = .fin q :=
  foldMin_finite h (fun se _ => lineLine2_finite a b se.1 se.2)

/-! ### nearest_neighbour_distance, LineString × LineString -/

/-- **nearest_neighbour_distance is the true minimum** over all pairs of points of two line strings
none of whose segments meet (the situation in which the code calls it) -/
theorem nnDist2_IsMinDist {g1 g2 : List Pt} (h1 : segs g1 ≠ []) (h2 : segs g2 ≠ [])
    (hno : ∀ s ∈ segs g1, ∀ t ∈ segs g2, ¬ ∃ p, SegMem p s.1 s.2 ∧ SegMem p t.1 t.2)
    {m : Rat} (hm : nnDist2 g1 g2 = .fin m) : IsMinDist (LsPts g1) (LsPts g2) m := by
  obtain ⟨hA, hB⟩ := nnDist2_le h1 h2 hm
  constructor
  · rintro x y ⟨s, hs, hx⟩ ⟨t, ht, hy⟩
    have ms := segs_mem hs
    have mt := segs_mem ht
    refine le_trans ?_ (segseg_min4_le (hno s hs t ht) hx hy)
    unfold min4
    refine le_min (le_min ?_ ?_) (le_min ?_ ?_)
    · obtain ⟨z, hz, e⟩ := psd2_attained s.1 t.1 t.2
      rw [e]; exact hB s.1 ms.1 t ht z hz
    · obtain ⟨z, hz, e⟩ := psd2_attained s.2 t.1 t.2
      rw [e]; exact hB s.2 ms.2 t ht z hz
    · obtain ⟨z, hz, e⟩ := psd2_attained t.1 s.1 s.2
      rw [e]; exact hA t.1 mt.1 s hs z hz
    · obtain ⟨z, hz, e⟩ := psd2_attained t.2 s.1 s.2
      rw [e]; exact hA t.2 mt.2 s hs z hz
  · rcases nnDist2_attained h1 h2 hm with ⟨q, hq, se, hse, x, hx, e⟩ | ⟨q, hq, se, hse, x, hx, e⟩
    · exact ⟨x, q, ⟨se, hse, hx⟩, LsPts_of_mem h2 hq, by rw [dist2_symm]; exact e⟩
    · exact ⟨q, x, LsPts_of_mem h1 hq, ⟨se, hse, hx⟩, e⟩

theorem nnOneWay_finite {cs qs : List Pt} (hc : segs cs ≠ []) (hq : qs ≠ []) :
    ∃ q, nnOneWay cs qs = .fin q := by
  rw [nnOneWay_eq qs hc]
  exact foldMin_finite hq (fun p _ => foldMin_finite hc (fun se _ => ⟨_, rfl⟩))

theorem nnDist2_finite {g1 g2 : List Pt} (h1 : segs g1 ≠ []) (h2 : segs g2 ≠ []) :
    ∃ q, nnDist2 g1 g2 = .fin q := by
  have n1 : g1 ≠ [] := by rintro rfl; exact h1 rfl
  have n2 : g2 ≠ [] := by rintro rfl; exact h2 rfl
  obtain ⟨q1, e1⟩ := nnOneWay_finite h1 n2
  obtain ⟨q2, e2⟩ := nnOneWay_finite h2 n1
  unfold nnDist2
  rw [e1, e2]
  exact ⟨_, rfl⟩

/-- **LineString × LineString is the true minimum** over all pairs of points -/
theorem lsLs2_IsMinDist {as bs : List Pt} (h1 : segs as ≠ []) (h2 : segs bs ≠ [])
    {m : Rat} (hm : lsLs2 as bs = .fin m) : IsMinDist (LsPts as) (LsPts bs) m := by
  unfold lsLs2 at hm
  by_cases h : lsLsIntersects as bs = true
  · simp only [h, if_true] at hm
    obtain rfl := DV.fin.inj hm
    obtain ⟨s, hs, t, ht, hx⟩ := (lsLsIntersects_iff as bs).mp h
    obtain ⟨p, hp1, hp2⟩ := (lineLine_iff _ _ _ _).mp hx
    exact IsMinDist_zero_of_common (p := p) ⟨s, hs, hp2⟩ ⟨t, ht, hp1⟩
  · simp only [h, Bool.false_eq_true, if_false] at hm
    refine nnDist2_IsMinDist h1 h2 (fun s hs t ht hc => h ?_) hm
    obtain ⟨p, hp1, hp2⟩ := hc
    exact (lsLsIntersects_iff as bs).mpr ⟨s, hs, t, ht, (lineLine_iff _ _ _ _).mpr ⟨p, hp2, hp1⟩⟩

theorem lsLs2_finite {as bs : List Pt} (h1 : segs as ≠ []) (h2 : segs bs ≠ []) :
    ∃ q, lsLs2 as bs = .fin q := by
  unfold lsLs2
  split
  · exact ⟨0, rfl⟩
  · exact nnDist2_finite h1 h2

theorem ptLs2_finite (p : Pt) {cs : List Pt} (h : segs cs ≠ []) : ∃ q, ptLs2 p cs = .fin q := by
  unfold ptLs2
  split
  · exact ⟨0, rfl⟩
  · exact foldMin_finite h (fun se _ => ⟨_, rfl⟩)

end Geo.Proofs.C07
