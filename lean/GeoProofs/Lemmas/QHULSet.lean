/-
  C08 helper lemmas (quick-hull) — containment from the structure of the recursion.

  `hull_set(a, b, set)` is called with points strictly left of `a → b`. Whatever point `f` of the
  slice the (rounded, tie-prone) farthest-point search picks, the points the call drops are exactly
  those that are neither strictly left of `f → b` nor strictly left of `a → f`: they lie in the
  closed triangle `a b f`, three coordinates that end up in the ring. By induction every point of
  the slice is in the convex hull (`Inside`) of `a`, `b` and the coordinates pushed by the call. At the top
  level the points dropped by the two partitions are collinear with the lexicographic extremes
  `min`, `max` and lie between them. Hence **every input coordinate is in the convex hull of the
  ring of `quickHullRaw`, for every rounding function** — also when the ring is not convex.
-/
import GeoModel.Hull
import GeoProofs.Lemmas.C08Mem
import GeoProofs.Lemmas.C08QScan
import GeoProofs.Lemmas.C08QHull
import GeoProofs.Lemmas.C08QQuick
import GeoProofs.Lemmas.QHULPart
import Mathlib.Tactic.Linarith
import Mathlib.Tactic.Ring

namespace Geo.Proofs.C08
open Geo Geo.Hull

theorem isCcw_true_iff (a b c : Pt) : isCcw a b c = true ↔ 0 < cross a b c := by
  unfold isCcw
  rw [beq_iff_eq, orient_ccw_iff']

theorem isCcw_false_iff (a b c : Pt) : isCcw a b c = false ↔ cross a b c ≤ 0 := by
  rw [← not_lt, ← isCcw_true_iff]
  cases isCcw a b c <;> simp

/-! ### `hull_set` -/

theorem hullSet_length (rnd : Rat → Rat) (fuel : Nat) : ∀ (a b : Pt) (set : List Pt),
    (hullSet rnd fuel a b set).1.length = set.length := by
  induction fuel with
  | zero => intro a b set; simp [hullSet]
  | succ n ih =>
    intro a b set
    unfold hullSet
    split
    · rfl
    · rfl
    · rename_i hne1 hne2
      have hne : set ≠ [] := fun h => hne1 h
      dsimp only
      have hl := swapRemove_length set (argmaxLast (set.map (score rnd a b))) hne
      generalize swapRemove set (argmaxLast (set.map (score rnd a b))) = sr at *
      have hp1 := (partition_spec (isCcw sr.1 b) sr.2).2.2
      generalize partition (isCcw sr.1 b) sr.2 = p1 at *
      have ih1 := ih sr.1 b p1.1
      generalize hullSet rnd n sr.1 b p1.1 = r1 at *
      have hp2 := (partition_spec (isCcw a sr.1) (r1.1 ++ p1.2)).2.2
      generalize partition (isCcw a sr.1) (r1.1 ++ p1.2) = p2 at *
      have ih2 := ih a sr.1 p2.1
      generalize hullSet rnd n a sr.1 p2.1 = r2 at *
      simp only [List.length_cons, List.length_append] at hp2 ⊢
      omega

/-- a point of the closed triangle `a b f` (given by the three tests of `hull_set`) -/
theorem inside_dropped {a b f x : Pt} (hf : 0 < cross a b f) (hx : 0 < cross a b x)
    (h1 : cross f b x ≤ 0) (h2 : cross a f x ≤ 0) : Inside [a, b, f] x := by
  have e1 : cross b f x = - cross f b x := by unfold cross; ring
  have e2 : cross f a x = - cross a f x := by unfold cross; ring
  exact inside_triangle hf (le_of_lt hx) (by linarith) (by linarith)

/-- **containment invariant of `hull_set`** (any rounding, any tie-break): every point of the slice
is in the convex hull of `a`, `b` and the coordinates the call pushes. -/
theorem hullSet_inside (rnd : Rat → Rat) (fuel : Nat) : ∀ (a b : Pt) (set : List Pt),
    set.length ≤ fuel → (∀ x ∈ set, 0 < cross a b x) →
    ∀ x ∈ set, Inside (a :: b :: (hullSet rnd fuel a b set).2) x := by
  induction fuel with
  | zero =>
    intro a b set hl _ x hx
    have : set = [] := List.eq_nil_of_length_eq_zero (by omega)
    rw [this] at hx; simp at hx
  | succ n ih =>
    intro a b set hlen hleft x hx
    unfold hullSet
    split
    · simp at hx
    · simp at hx; subst hx; exact Inside.of_mem (by simp)
    · rename_i hne1 hne2
      have hne : set ≠ [] := fun h => hne1 h
      dsimp only
      have hl := swapRemove_length set (argmaxLast (set.map (score rnd a b))) hne
      have hfm := swapRemove_fst_mem set (argmaxLast (set.map (score rnd a b))) hne
      have hs2 := swapRemove_snd_subset set (argmaxLast (set.map (score rnd a b)))
      have hcov := swapRemove_cover set (argmaxLast (set.map (score rnd a b))) x hx
      generalize swapRemove set (argmaxLast (set.map (score rnd a b))) = sr at *
      have hf : 0 < cross a b sr.1 := hleft _ hfm
      have hp1 := partition_spec (isCcw sr.1 b) sr.2
      have hp1c := partition_cover (isCcw sr.1 b) sr.2
      have hp1s := partition_subset (isCcw sr.1 b) sr.2
      generalize partition (isCcw sr.1 b) sr.2 = p1 at *
      have ih1 := ih sr.1 b p1.1 (by omega)
        (fun y hy => (isCcw_true_iff _ _ _).1 (hp1.1 y hy))
      have hr1c := hullSet_cover rnd n sr.1 b p1.1
      have hr1s := (hullSet_subset rnd n sr.1 b p1.1).1
      have hr1l := hullSet_length rnd n sr.1 b p1.1
      generalize hullSet rnd n sr.1 b p1.1 = r1 at *
      have hp2 := partition_spec (isCcw a sr.1) (r1.1 ++ p1.2)
      have hp2c := partition_cover (isCcw a sr.1) (r1.1 ++ p1.2)
      generalize partition (isCcw a sr.1) (r1.1 ++ p1.2) = p2 at *
      have hp2l := hp2.2.2
      rw [List.length_append] at hp2l
      have ih2 := ih a sr.1 p2.1 (by omega)
        (fun y hy => (isCcw_true_iff _ _ _).1 (hp2.1 y hy))
      generalize hullSet rnd n a sr.1 p2.1 = r2 at *
      rcases hcov with hxf | hxs
      · exact Inside.of_mem (by rw [hxf]; simp)
      · rcases hp1c x hxs with hx1 | hx1
        · exact (ih1 x hx1).mono (by
            intro s hs
            simp only [List.mem_cons, List.mem_append] at hs ⊢
            tauto)
        · rcases hp2c x (List.mem_append_right _ hx1) with hx2 | hx2
          · exact (ih2 x hx2).mono (by
              intro s hs
              simp only [List.mem_cons, List.mem_append] at hs ⊢
              tauto)
          · have hd := inside_dropped hf (hleft x hx) ((isCcw_false_iff _ _ _).1 (hp1.2.1 x hx1))
              ((isCcw_false_iff _ _ _).1 (hp2.2.1 x hx2))
            exact hd.mono (by
              intro s hs
              simp only [List.mem_cons, List.mem_append, List.not_mem_nil, or_false] at hs ⊢
              tauto)

/-! ### the top level -/

/-- a point on the line through `m` and `M` that is lexicographically between them is on the
segment -/
theorem inside_segment_lex {m M x : Pt} (h1 : ¬ lexLt x m = true) (h2 : ¬ lexLt M x = true)
    (h0 : cross m M x = 0) : Inside [m, M] x := by
  rw [lexLt_iff] at h1 h2
  have hx1 : m.x ≤ x.x := by
    by_contra h; exact h1 (Or.inl (not_le.1 h))
  have hx2 : x.x ≤ M.x := by
    by_contra h; exact h2 (Or.inl (not_le.1 h))
  intro u v hS
  have hm := hS m (by simp)
  have hM := hS M (by simp)
  rcases lt_or_eq_of_le (le_trans hx1 hx2) with hD | hD
  · have key : (M.x - m.x) * cross u v x =
        (M.x - x.x) * cross u v m + (x.x - m.x) * cross u v M + (v.x - u.x) * cross m M x := by
      unfold cross; ring
    rw [h0, mul_zero, add_zero] at key
    have hnn : 0 ≤ (M.x - m.x) * cross u v x := by
      rw [key]
      exact add_nonneg (mul_nonneg (by linarith) hm) (mul_nonneg (by linarith) hM)
    by_contra hneg
    have := mul_neg_of_pos_of_neg (by linarith : 0 < M.x - m.x) (not_le.1 hneg)
    linarith
  · have hxm : x.x = m.x := by linarith
    have hxM : M.x = x.x := by linarith
    have hy1 : m.y ≤ x.y := by
      by_contra h; exact h1 (Or.inr ⟨hxm, not_le.1 h⟩)
    have hy2 : x.y ≤ M.y := by
      by_contra h; exact h2 (Or.inr ⟨hxM, not_le.1 h⟩)
    rcases lt_or_eq_of_le (le_trans hy1 hy2) with hE | hE
    · have key : (M.y - m.y) * cross u v x =
          (M.y - x.y) * cross u v m + (x.y - m.y) * cross u v M + (v.y - u.y) * cross m M x := by
        unfold cross; ring
      rw [h0, mul_zero, add_zero] at key
      have hnn : 0 ≤ (M.y - m.y) * cross u v x := by
        rw [key]
        exact add_nonneg (mul_nonneg (by linarith) hm) (mul_nonneg (by linarith) hM)
      by_contra hneg
      have := mul_neg_of_pos_of_neg (by linarith : 0 < M.y - m.y) (not_le.1 hneg)
      linarith
    · have : x = m := by
        cases x; cases m
        simp only [Pt.mk.injEq] at *
        constructor <;> linarith
      rw [this]; exact hm

/-- **every input coordinate is in the convex hull of the ring quick-hull builds**, before any
verification, for every rounding function and every tie-break of the farthest-point search. -/
theorem quickHullRaw_inside (rnd : Rat → Rat) (pts : List Pt) (h2 : 2 ≤ pts.length) :
    ∀ x ∈ pts, Inside (quickHullRaw rnd pts).2 x := by
  intro x hx
  have hext := quickHull_extremes pts h2
  unfold quickHullRaw
  dsimp only at hext ⊢
  have hc1 := swapRemove_cover pts (leastGreatest pts).1 x hx
  generalize swapRemove pts (leastGreatest pts).1 = s1 at *
  have hc2 := swapRemove_cover s1.2
    ((if (leastGreatest pts).2 = 0 then (leastGreatest pts).1 else (leastGreatest pts).2) - 1)
  generalize swapRemove s1.2
    ((if (leastGreatest pts).2 = 0 then (leastGreatest pts).1 else (leastGreatest pts).2) - 1) = s2 at *
  have hp1 := partition_spec (isCcw s2.1 s1.1) s2.2
  have hp1c := partition_cover (isCcw s2.1 s1.1) s2.2
  generalize partition (isCcw s2.1 s1.1) s2.2 = p1 at *
  have ih1 := hullSet_inside rnd p1.1.length s2.1 s1.1 p1.1 (le_refl _)
    (fun y hy => (isCcw_true_iff _ _ _).1 (hp1.1 y hy))
  generalize hullSet rnd p1.1.length s2.1 s1.1 p1.1 = r1 at *
  have hp2 := partition_spec (isCcw s1.1 s2.1) (r1.1 ++ p1.2)
  have hp2c := partition_cover (isCcw s1.1 s2.1) (r1.1 ++ p1.2)
  generalize partition (isCcw s1.1 s2.1) (r1.1 ++ p1.2) = p2 at *
  have ih2 := hullSet_inside rnd p2.1.length s1.1 s2.1 p2.1 (le_refl _)
    (fun y hy => (isCcw_true_iff _ _ _).1 (hp2.1 y hy))
  generalize hullSet rnd p2.1.length s1.1 s2.1 p2.1 = r2 at *
  have hsub : ∀ s, s ∈ r1.2 ++ s2.1 :: (r2.2 ++ [s1.1]) →
      s ∈ close (r1.2 ++ s2.1 :: (r2.2 ++ [s1.1])) := subset_close _
  have hmn : s1.1 ∈ r1.2 ++ s2.1 :: (r2.2 ++ [s1.1]) := by simp
  have hmx : s2.1 ∈ r1.2 ++ s2.1 :: (r2.2 ++ [s1.1]) := by simp
  rcases hc1 with hx1 | hx1
  · exact Inside.of_mem (hsub _ (by rw [hx1]; exact hmn))
  · rcases hc2 x hx1 with hx2 | hx2
    · exact Inside.of_mem (hsub _ (by rw [hx2]; exact hmx))
    · rcases hp1c x hx2 with hx3 | hx3
      · exact (ih1 x hx3).mono (by
          intro s hs
          apply hsub
          simp only [List.mem_cons, List.mem_append, List.not_mem_nil, or_false] at hs ⊢
          tauto)
      · rcases hp2c x (List.mem_append_right _ hx3) with hx4 | hx4
        · exact (ih2 x hx4).mono (by
            intro s hs
            apply hsub
            simp only [List.mem_cons, List.mem_append, List.not_mem_nil, or_false] at hs ⊢
            tauto)
        · have c1 := (isCcw_false_iff _ _ _).1 (hp1.2.1 x hx3)
          have c2 := (isCcw_false_iff _ _ _).1 (hp2.2.1 x hx4)
          have e : cross s2.1 s1.1 x = - cross s1.1 s2.1 x := by unfold cross; ring
          have h0 : cross s1.1 s2.1 x = 0 := by linarith
          exact (inside_segment_lex (hext.1 x hx) (hext.2 x hx) h0).mono (by
            intro s hs
            apply hsub
            simp only [List.mem_cons, List.mem_append, List.not_mem_nil, or_false] at hs ⊢
            tauto)

/-! ### a ring with at most two distinct coordinates spans only collinear inputs -/

theorem collinear_of_inside_pair {a b : Pt} {pts : List Pt} (h : ∀ q ∈ pts, Inside [a, b] q) :
    hasTriangle pts = false := by
  cases ht : hasTriangle pts with
  | false => rfl
  | true =>
    exfalso
    obtain ⟨x, hx, y, hy, z, hz, hne⟩ := hasTriangle_witness ht
    apply hne
    by_cases hab : lexLt a b = true
    · have hI : ∀ q ∈ pts, cross a b q = 0 := fun q hq =>
        inside_pair ((h q hq).mono (by intro s hs; simp at hs ⊢; tauto))
      exact collinear_of_line ((inH_iff_lexLt a b).2 hab) (hI x hx) (hI y hy) (hI z hz)
    · rcases lexLt_tricho a b hab with heq | hba
      · subst heq
        have hI : ∀ q ∈ pts, q = a := fun q hq =>
          inside_point ((h q hq).mono (by intro s hs; simp at hs ⊢; tauto))
        rw [hI x hx, hI y hy]
        exact cross_self_left _ _
      · have hI : ∀ q ∈ pts, cross b a q = 0 := fun q hq => inside_pair (h q hq)
        exact collinear_of_line ((inH_iff_lexLt b a).2 hba) (hI x hx) (hI y hy) (hI z hz)

/-- a closed ring with at most three coordinates has at most two distinct ones -/
theorem short_ring_pair (r : List Pt) (hc : r.head? = r.getLast?) (hl : r.length ≤ 3) :
    ∃ a b : Pt, ∀ v ∈ r, v = a ∨ v = b := by
  match r, hc, hl with
  | [], _, _ => exact ⟨default, default, by simp⟩
  | [a], _, _ => exact ⟨a, a, by simp⟩
  | [a, b], _, _ => exact ⟨a, b, by simp⟩
  | [a, b, c], hc, _ =>
    refine ⟨a, b, ?_⟩
    have : a = c := by simpa using hc
    subst this
    intro v hv; simp at hv; tauto
  | _ :: _ :: _ :: _ :: _, _, hl => simp at hl

/-- with three non-collinear input coordinates the ring of quick-hull has at least four
coordinates, so `quick_hull` does verify it -/
theorem quickHullRaw_ring_long (rnd : Rat → Rat) (pts : List Pt) (h2 : 2 ≤ pts.length)
    (ht : hasTriangle pts = true) : 4 ≤ (quickHullRaw rnd pts).2.length := by
  by_contra hlt
  have hcl : (quickHullRaw rnd pts).2.head? = (quickHullRaw rnd pts).2.getLast? := by
    unfold quickHullRaw; exact close_closed _
  obtain ⟨a, b, hab⟩ := short_ring_pair _ hcl (by omega)
  have := collinear_of_inside_pair (a := a) (b := b) (pts := pts) (fun q hq =>
    (quickHullRaw_inside rnd pts h2 q hq).mono (by
      intro s hs
      rcases hab s hs with h | h <;> simp [h]))
  rw [ht] at this
  exact Bool.noConfusion this

end Geo.Proofs.C08
