/-
  RELM3 — the Exterior row of the SPECIFICATION for `Point × linear B`, and the whole matrix
  `relate(Point p, B) = relateSpec (Point p) B` for every linear `B` of the domain on the graph path.
  Specification: `EI = 1` as soon as `B` has a non-degenerate segment (the midpoint of an elementary sub-segment is
  not a vertex of the arrangement, hence not `p` and not an end point), `EB = 0` exactly when some point other than
  `p` is located on the boundary of `B` (such a point is an end point of a curve, hence a vertex of the arrangement;
  an elementary midpoint or a face sample is never on the boundary of a linear operand).
-/
import GeoProofs.Lemmas.RELM3Ext
import GeoProofs.Lemmas.C02XConst
import GeoProofs.Lemmas.TRANDims

namespace Geo.Proofs.RELM3
open Geo Geo.GG Geo.RI Geo.Proofs.Spec Geo.Proofs.RELM Geo.Proofs.RELM2 Geo.Proofs.Kernel

theorem cell_le_iff {pa pb : Parts} {X Y : Pos} (hne : ¬ (X = .outside ∧ Y = .outside)) (d : Dim) :
    d.rank ≤ ((relateParts pa pb).get X Y).rank ↔
      d = .empty ∨ ∃ x ∈ atomsOf pa pb, x.posA = X ∧ x.posB = Y ∧ d.rank ≤ x.dim.rank := by
  rw [relateParts_eq, get_set, if_neg (fun e => hne ⟨e.1.symm, e.2.symm⟩), fold_get]

theorem locate_pt (p v : Pt) : locateParts ⟨[p], [], []⟩ v = if v = p then .inside else .outside := by
  rw [Geo.Proofs.Spec.locateParts_points _ _ rfl rfl]
  simp

theorem locateFace_linear (ls : List (List Pt)) (e : EPt) : locateFace ⟨[], ls, []⟩ e = .outside := by
  unfold locateFace
  simp

/-- a boundary point of a linear operand is a coordinate of one of its curves -/
theorem boundary_mem_curve {ls : List (List Pt)} {v : Pt} (h : locateParts ⟨[], ls, []⟩ v = .onBoundary) :
    ∃ c ∈ ls, v ∈ c := by
  rw [locateParts_linear_boundary _ _ rfl rfl] at h
  have hne : esum v ls ≠ 0 := by
    have := h.2
    rw [endpointCount_eq_esum] at this
    intro e
    rw [e] at this
    cases this
  obtain ⟨c, hc, hec⟩ := exists_endC_of_esum hne
  obtain ⟨_, he⟩ := endC_ne_zero hec
  refine ⟨c, hc, ?_⟩
  rcases he with e | e
  · exact List.mem_of_mem_head? e
  · exact List.mem_of_getLast? e

theorem boundary_mem_verts {ls : List (List Pt)} {pa : Parts} {v : Pt}
    (h : locateParts ⟨[], ls, []⟩ v = .onBoundary) : v ∈ vertsOf pa ⟨[], ls, []⟩ := by
  obtain ⟨c, hc, hv⟩ := boundary_mem_curve h
  exact Geo.Proofs.C02X.allCoords_mem_verts_right (mem_allCoords_curve (ps := ⟨[], ls, []⟩) hc hv)

/-- **the Exterior row of the specification, `Point × linear B`** -/
theorem spec_ext_row_linear (p : Pt) (ls : List (List Pt)) {l : List Pt} (hl : l ∈ ls) (hlong : Long l) :
    (relateParts ⟨[p], [], []⟩ ⟨[], ls, []⟩).get .outside .inside = .one ∧
    (∀ d : Dim, d.rank ≤ ((relateParts ⟨[p], [], []⟩ ⟨[], ls, []⟩).get .outside .onBoundary).rank ↔
      d = .empty ∨ (d.rank ≤ Dim.zero.rank ∧ ∃ v, v ≠ p ∧ locateParts ⟨[], ls, []⟩ v = .onBoundary)) := by
  refine ⟨?_, ?_⟩
  · apply Dim.eq_of_le_iff
    intro d
    rw [cell_le_iff (by simp)]
    constructor
    · rintro (rfl | ⟨x, hx, hxa, hxb, hd⟩)
      · exact Nat.zero_le _
      · rcases mem_atomsOf_cases hx with ⟨v, _, rfl⟩ | ⟨s, _, _, m, _, _, rfl | rfl | rfl⟩
        · exact Nat.le_trans hd (show Dim.zero.rank ≤ Dim.one.rank by decide)
        · exact hd
        · simp only [locateFace_linear] at hxb; cases hxb
        · simp only [locateFace_linear] at hxb; cases hxb
    · intro hd
      right
      -- a non-degenerate segment of `l`
      obtain ⟨f, s, r, hdd⟩ := hlong
      have hseg : (f, s) ∈ segs l := segs_dedup_sub _ l (by rw [hdd]; exact List.mem_cons_self ..)
      have hfs : f ≠ s := by
        have := Geo.Proofs.C12.dedup_segs_ne l (f, s) (by
          rw [← dedup_eq_dedupConsecutive, hdd]; exact List.mem_cons_self ..)
        exact this
      have hall : (f, s) ∈ (⟨[p], [], []⟩ : Parts).allSegs ++ (⟨[], ls, []⟩ : Parts).allSegs := by
        apply List.mem_append_right
        unfold Parts.allSegs Parts.curveSegs
        exact List.mem_append_left _ (List.mem_flatMap.2 ⟨l, hl, hseg⟩)
      obtain ⟨m, hm, hnv, hat⟩ := exists_atoms_of_seg hall hfs
      have hmp : m ≠ p := fun e => hnv (e ▸ pts_mem_vertsOf (by simp))
      have hlocB : locateParts ⟨[], ls, []⟩ m = .inside := by
        have hon : onAnySeg m (ls.flatMap segs) = true :=
          onAnySeg_flatMap hl (onAnySeg_of_mem_segs hseg hm)
        cases hc : locateParts ⟨[], ls, []⟩ m with
        | inside => rfl
        | onBoundary => exact absurd (boundary_mem_verts hc) hnv
        | outside =>
          rw [locateParts_linear _ _ rfl rfl] at hc
          simp only [Parts.curveSegs, hon, if_true] at hc
          split at hc <;> cases hc
      refine ⟨⟨.one, locateParts ⟨[p], [], []⟩ m, locateParts ⟨[], ls, []⟩ m⟩, hat _ (Or.inl rfl), ?_, hlocB, hd⟩
      rw [locate_pt, if_neg hmp]
  · intro d
    rw [cell_le_iff (by simp)]
    constructor
    · rintro (rfl | ⟨x, hx, hxa, hxb, hd⟩)
      · exact Or.inl rfl
      · right
        rcases mem_atomsOf_cases hx with ⟨v, _, rfl⟩ | ⟨s, _, _, m, _, hnv, rfl | rfl | rfl⟩
        · refine ⟨hd, v, ?_, hxb⟩
          intro e
          simp only [locate_pt, e, if_true] at hxa
          cases hxa
        · exact absurd (boundary_mem_verts hxb) hnv
        · simp only [locateFace_linear] at hxb; cases hxb
        · simp only [locateFace_linear] at hxb; cases hxb
    · rintro (rfl | ⟨hd, v, hvp, hvb⟩)
      · exact Or.inl rfl
      · right
        refine ⟨_, vertex_atom_mem (boundary_mem_verts hvb), ?_, hvb, hd⟩
        rw [locate_pt, if_neg hvp]

/-! ### the whole matrix -/

theorem ninv_addSelfIntersectionCoords {idx : Nat} (q : Pos) : ∀ (cs : List Pt) {G : Graph}, NInv idx G.nodes →
    NInv idx (addSelfIntersectionCoords idx q cs G).nodes
  | [], _, h => h
  | c :: cs, _, h => ninv_addSelfIntersectionCoords q cs (ninv_addSelfIntersectionNode h c q)

theorem ninv_addSelfIntersectionItems {idx : Nat} : ∀ (items : List (Option Pos × List Pt)) {G : Graph},
    NInv idx G.nodes → NInv idx (addSelfIntersectionItems idx items G).nodes
  | [], _, h => h
  | (none, _) :: rest, _, h => ninv_addSelfIntersectionItems rest h
  | (some q, cs) :: rest, _, h => ninv_addSelfIntersectionItems rest (ninv_addSelfIntersectionCoords q cs h)

/-- the node map of the self-noded graph of a linear operand: distinct coordinates, labelled slots -/
theorem ninv_fresh_linear {ar : Arith} {g : Geom} {ls : List (List Pt)} (h : LinearAs g ls) :
    NInv 1 (freshGraph ar 1 g).nodes := by
  rw [fresh_nodes]
  apply ninv_addSelfIntersectionItems
  rw [selfNodeBase_nodes, h.graph 1, buildGraph_mls_nodes]
  exact ninv_addLineStrings ls (ninv_nil 1)

theorem max_ne_two {a b : Dim} (ha : (a == .two) = false) (hb : (b == .two) = false) : (a.max b == .two) = false := by
  unfold Dim.max
  split <;> assumption

mutual
theorem dims_linOk : ∀ (g : Geom), linOk g = true → (dims g == .two) = false
  | .line a b, _ => by
      simp only [dims]
      split <;> rfl
  | .lineString cs, _ => Geo.Proofs.TRANDims.lsDims_ne_two cs
  | .multiLineString ls, _ => by
      simp only [dims, mlsDims]
      split
      · rfl
      · split <;> rfl
  | .collection gs, h => by
      have hl : linOkList gs = true := by simpa [linOk] using h
      simp only [dims]
      exact dims_linOkList gs hl
  | .point _, h => by simp [linOk] at h
  | .polygon _, h => by simp [linOk] at h
  | .multiPoint _, h => by simp [linOk] at h
  | .multiPolygon _, h => by simp [linOk] at h
  | .rect _ _, h => by simp [linOk] at h
  | .triangle _ _ _, h => by simp [linOk] at h
theorem dims_linOkList : ∀ (gs : List Geom), linOkList gs = true → (dimsList gs == .two) = false
  | [], _ => rfl
  | g :: gs, h => by
      simp only [linOkList, Bool.and_eq_true] at h
      simp only [dimsList]
      exact max_ne_two (dims_linOk g h.1) (dims_linOkList gs h.2)
end

theorem relateGraph_ee (ar : Arith) (a b : Geom) {m : IM} (h : relateGraph ar a b = some m) : m.ee = .two :=
  ee_of_le ((le_properIM _ _ _ _ _).trans (relateGraph_ge ar a b h)) emptyDisjoint_ee

/-- an `IM` is determined by its nine cells -/
theorem im_ext {m m' : IM} (h : ∀ X Y, m.get X Y = m'.get X Y) : m = m' := by
  cases m; cases m'
  have h1 := h .inside .inside; have h2 := h .inside .onBoundary; have h3 := h .inside .outside
  have h4 := h .onBoundary .inside; have h5 := h .onBoundary .onBoundary; have h6 := h .onBoundary .outside
  have h7 := h .outside .inside; have h8 := h .outside .onBoundary; have h9 := h .outside .outside
  simp only [IM.get] at h1 h2 h3 h4 h5 h6 h7 h8 h9
  simp [h1, h2, h3, h4, h5, h6, h7, h8, h9]

/-- **`relate(Point p, B) = relateSpec (Point p) B`, the whole matrix**, on the graph path, for every linear `B` of
the domain that has an edge (exact arithmetic) -/
theorem point_linear_full (p : Pt) (b : Geom) (hd : inDomain b = true) (hl : linOk b = true)
    (hne : (freshGraph Arith.exact 1 b).edges ≠ []) {m : IM}
    (h : relateGraph Arith.exact (.point p) b = some m) : m = relateSpec (.point p) b := by
  have hA := linearAs_of_linOk b hd hl
  have hE : ∀ e ∈ (freshGraph Arith.exact 1 b).edges, e.label = lineLabel 1 :=
    fun e he => (fresh_mls_edge _ 1 b _ (hA.graph 1) he).1
  -- some curve is long
  obtain ⟨e0, he0⟩ := List.exists_mem_of_ne_nil _ hne
  obtain ⟨_, l, hlm, _, hlong⟩ := fresh_mls_edge _ 1 b _ (hA.graph 1) he0
  have hdb : (dims b == .two) = false := by
    exact dims_linOk b hl
  have hN : NInv 1 (freshGraph Arith.exact 1 b).nodes := ninv_fresh_linear hA
  obtain ⟨i1, i2⟩ := point_ext_row_linear Arith.exact p b hE hne hdb hN h
  have hspec : relateSpec (.point p) b = relateParts ⟨[p], [], []⟩ ⟨[], (parts b).curves, []⟩ := by
    unfold relateSpec
    rw [hA.parts]
    rfl
  obtain ⟨s1, s2⟩ := spec_ext_row_linear p (parts b).curves hlm hlong
  have hNL := nodesLocate_linear hA
  apply im_ext
  intro X Y
  by_cases hX : X = .outside
  · subst hX
    cases Y with
    | inside => rw [i1, hspec, s1]
    | onBoundary =>
      rw [hspec]
      apply Dim.eq_of_le_iff
      intro d
      rw [i2, s2]
      constructor
      · rintro (h0 | ⟨h1, g, hg, hgc, hgb⟩)
        · exact Or.inl h0
        · right
          refine ⟨h1, g.coord, hgc, ?_⟩
          have := hNL g hg
          rw [hgb] at this
          have hloc : locate b g.coord = locateParts ⟨[], (parts b).curves, []⟩ g.coord := by
            unfold locate; rw [hA.parts]
          rw [← hloc]
          exact (Option.some.inj this).symm
      · rintro (h0 | ⟨h1, v, hvp, hvb⟩)
        · exact Or.inl h0
        · right
          refine ⟨h1, ?_⟩
          -- a boundary point is a node of the graph
          have hloc : locate b v = .onBoundary := by
            unfold locate; rw [hA.parts]; exact hvb
          by_cases hvn : v ∈ (freshGraph Arith.exact 1 b).nodes.map (·.coord)
          · obtain ⟨g, hg, hgc⟩ := List.mem_map.1 hvn
            refine ⟨g, hg, by rw [hgc]; exact hvp, ?_⟩
            rw [hNL g hg, hgc, hloc]
          · exfalso
            have h0 := esum_zero_of_not_node Arith.exact hA v hvn
            rw [locateParts_linear_boundary _ _ rfl rfl] at hvb
            have := hvb.2
            simp only at this
            rw [h0] at this
            cases this
    | outside =>
      have e1 : m.ee = .two := relateGraph_ee _ _ _ h
      have e2 : (relateSpec (.point p) b).get .outside .outside = .two := by
        unfold relateSpec
        rw [relateParts_eq, get_set, if_pos ⟨rfl, rfl⟩]
      rw [e2]
      exact e1
  · exact point_rows_eq_spec_linear p b hd hl h X Y hX

end Geo.Proofs.RELM3
