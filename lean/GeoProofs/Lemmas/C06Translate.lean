/-
  C06 helper layer 5: translation. Every contribution of the translated geometry is the
  translated contribution; the fold commutes with translating the accumulator.
-/
import GeoProofs.Lemmas.C06Dom
import Mathlib.Tactic.FieldSimp

namespace Geo.Proofs.C06
open Geo Geo.Cen

/-- translate a weighted centroid by `d`: the accumulated coordinate moves by `weight · d` -/
def trW (d : Pt) (w : WC) : WC := ⟨w.dim, w.weight, w.acc + Pt.smul w.weight d⟩

theorem padd_right_cancel {a b d : Pt} : a + d = b + d ↔ a = b := by
  constructor
  · intro h
    have hx := congrArg Pt.x h
    have hy := congrArg Pt.y h
    simp only [add_x, add_y] at hx hy
    apply Pt.ext' <;> linarith
  · intro h; rw [h]

theorem psub_translate (a s d : Pt) : (a + d) - (s + d) = a - s := by
  apply Pt.ext' <;> simp

theorem WC.ext' {a b : WC} (h1 : a.dim = b.dim) (h2 : a.weight = b.weight) (h3 : a.acc = b.acc) : a = b := by
  cases a; cases b; simp_all

theorem trW_addAssign (d : Pt) (a b : WC) : trW d (a.addAssign b) = (trW d a).addAssign (trW d b) := by
  by_cases h1 : a.dim < b.dim
  · have l : a.addAssign b = b := by simp [WC.addAssign, h1]
    have r : (trW d a).addAssign (trW d b) = trW d b := by
      have h1' : (trW d a).dim < (trW d b).dim := h1
      simp [WC.addAssign, h1']
    rw [l, r]
  · by_cases h2 : b.dim < a.dim
    · have l : a.addAssign b = a := by simp [WC.addAssign, h1, h2]
      have r : (trW d a).addAssign (trW d b) = trW d a := by
        have h1' : ¬ (trW d a).dim < (trW d b).dim := h1
        have h2' : (trW d b).dim < (trW d a).dim := h2
        simp [WC.addAssign, h1', h2']
      rw [l, r]
    · have l : a.addAssign b = ⟨a.dim, a.weight + b.weight, a.acc + b.acc⟩ := by simp [WC.addAssign, h1, h2]
      have r : (trW d a).addAssign (trW d b) =
          ⟨(trW d a).dim, (trW d a).weight + (trW d b).weight, (trW d a).acc + (trW d b).acc⟩ := by
        have h1' : ¬ (trW d a).dim < (trW d b).dim := h1
        have h2' : ¬ (trW d b).dim < (trW d a).dim := h2
        simp [WC.addAssign, h1', h2']
      rw [l, r]
      apply WC.ext'
      · rfl
      · rfl
      · apply Pt.ext' <;> simp [trW] <;> ring

theorem trW_subAssign (d : Pt) (a b : WC) : trW d (a.subAssign b) = (trW d a).subAssign (trW d b) := by
  by_cases h1 : a.dim < b.dim
  · have l : a.subAssign b = b := by simp [WC.subAssign, h1]
    have r : (trW d a).subAssign (trW d b) = trW d b := by
      have h1' : (trW d a).dim < (trW d b).dim := h1
      simp [WC.subAssign, h1']
    rw [l, r]
  · by_cases h2 : b.dim < a.dim
    · have l : a.subAssign b = a := by simp [WC.subAssign, h1, h2]
      have r : (trW d a).subAssign (trW d b) = trW d a := by
        have h1' : ¬ (trW d a).dim < (trW d b).dim := h1
        have h2' : (trW d b).dim < (trW d a).dim := h2
        simp [WC.subAssign, h1', h2']
      rw [l, r]
    · have l : a.subAssign b = ⟨a.dim, a.weight - b.weight, a.acc - b.acc⟩ := by simp [WC.subAssign, h1, h2]
      have r : (trW d a).subAssign (trW d b) =
          ⟨(trW d a).dim, (trW d a).weight - (trW d b).weight, (trW d a).acc - (trW d b).acc⟩ := by
        have h1' : ¬ (trW d a).dim < (trW d b).dim := h1
        have h2' : ¬ (trW d b).dim < (trW d a).dim := h2
        simp [WC.subAssign, h1', h2']
      rw [l, r]
      apply WC.ext'
      · rfl
      · rfl
      · apply Pt.ext' <;> simp [trW] <;> ring

theorem addWC_tr (d : Pt) (o : Op) (w : WC) : addWC (o.map (trW d)) (trW d w) = (addWC o w).map (trW d) := by
  cases o with
  | none => rfl
  | some c => simp [addWC, trW_addAssign]

theorem foldWC_tr (d : Pt) (o : Op) (l : List WC) :
    foldWC (o.map (trW d)) (l.map (trW d)) = (foldWC o l).map (trW d) := by
  induction l generalizing o with
  | nil => rfl
  | cons w t ih => simp only [List.map_cons, foldWC_cons, addWC_tr, ih]

/-! ### contributions of translated parts -/

theorem coordC_tr (d c : Pt) : coordC (c + d) = trW d (coordC c) := by
  simp only [coordC, trW, WC.mk.injEq, true_and]
  apply Pt.ext' <;> simp <;> ring

theorem mid_tr (a b d : Pt) : mid (a + d) (b + d) = mid a b + d := by
  apply Pt.ext' <;> simp [mid] <;> ring

theorem lineC_tr (len : Pt → Pt → Rat) (d : Pt) (hlen : ∀ a b, len (a + d) (b + d) = len a b) (a b : Pt) :
    lineC len (a + d) (b + d) = trW d (lineC len a b) := by
  unfold lineC
  by_cases h : a = b
  · rw [if_pos h, if_pos (padd_right_cancel.2 h)]; exact coordC_tr d a
  · rw [if_neg h, if_neg (fun h' => h (padd_right_cancel.1 h'))]
    simp only [trW, hlen, mid_tr, WC.mk.injEq, true_and]
    apply Pt.ext' <;> simp <;> ring

theorem windows2_map (f : Pt → Pt) (cs : List Pt) :
    windows2 (cs.map f) = (windows2 cs).map (fun l => (f l.1, f l.2)) := by
  match cs with
  | [] => rfl
  | [a] => rfl
  | a :: b :: t =>
    simp only [List.map_cons, windows2]
    have := windows2_map f (b :: t)
    simp only [List.map_cons] at this
    rw [this]

theorem lineStringC_tr (len : Pt → Pt → Rat) (d : Pt) (hlen : ∀ a b, len (a + d) (b + d) = len a b)
    (cs : List Pt) : lineStringC len (cs.map (· + d)) = (lineStringC len cs).map (trW d) := by
  match cs with
  | [] => rfl
  | [c] => simp [lineStringC, coordC_tr]
  | a :: b :: t =>
    have h1 : lineStringC len ((a :: b :: t).map (· + d)) =
        (windows2 ((a :: b :: t).map (· + d))).map (fun l => lineC len l.1 l.2) := by
      simp [lineStringC]
    have h2 : lineStringC len (a :: b :: t) = (windows2 (a :: b :: t)).map (fun l => lineC len l.1 l.2) := by
      simp [lineStringC]
    rw [h1, h2, windows2_map, List.map_map, List.map_map]
    apply List.map_congr_left
    intro l _
    exact lineC_tr len d hlen l.1 l.2

theorem isClosed_tr (d : Pt) (r : List Pt) : isClosed (r.map (· + d)) = isClosed r := by
  unfold isClosed
  rw [List.head?_map, List.getLast?_map]
  cases r.head? <;> cases r.getLast? <;> simp [padd_right_cancel]

theorem twiceArea_tr (d : Pt) (r : List Pt) : twiceArea (r.map (· + d)) = twiceArea r := by
  unfold twiceArea
  rw [List.length_map, isClosed_tr]
  cases r with
  | nil => rfl
  | cons s t =>
    simp only [List.map_cons]
    have := windows2_map (· + d) (s :: t)
    simp only [List.map_cons] at this
    rw [this, List.foldl_map]
    simp only [psub_translate]

theorem ringArea_tr (d : Pt) (r : List Pt) : ringArea (r.map (· + d)) = ringArea r := by
  unfold ringArea; rw [twiceArea_tr]

theorem lsDims_tr (d : Pt) (r : List Pt) : lsDims (r.map (· + d)) = lsDims r := by
  cases r with
  | nil => rfl
  | cons f t =>
    simp only [lsDims, List.map_cons]
    have : ((f + d) :: t.map (· + d)).any (fun c => decide (f + d ≠ c)) = (f :: t).any (fun c => decide (f ≠ c)) := by
      rw [← List.map_cons (f := (· + d)), List.any_map]
      congr 1
      funext c
      simp [padd_right_cancel]
    rw [this]

theorem ringAccum_tr (d s : Pt) (r : List Pt) : ringAccum (s + d) (r.map (· + d)) = ringAccum s r := by
  unfold ringAccum
  rw [windows2_map, List.foldl_map]
  simp only [psub_translate]

theorem ringC_tr (len : Pt → Pt → Rat) (d : Pt) (hlen : ∀ a b, len (a + d) (b + d) = len a b)
    (r : List Pt) : ringC len (r.map (· + d)) = (ringC len r).map (trW d) := by
  unfold ringC
  rw [ringArea_tr, lsDims_tr]
  by_cases h : ringArea r = 0
  · rw [if_pos h, if_pos h]
    cases r with
    | nil => simp [lsDims]
    | cons f t =>
      have hd : lsDims (f :: t) = 1 ∨ lsDims (f :: t) = 2 := by
        simp only [lsDims]; split <;> simp
      rcases hd with hd | hd
      · simp [hd, coordC_tr]
      · simp only [hd]
        exact lineStringC_tr len d hlen (f :: t)
  · rw [if_neg h, if_neg h]
    cases r with
    | nil => rfl
    | cons s t =>
      have := ringAccum_tr d s (s :: t)
      simp only [List.map_cons] at this ⊢
      rw [this]
      simp only [List.map_nil, trW, List.cons.injEq, WC.mk.injEq, true_and, and_true]
      apply Pt.ext' <;> simp <;> ring

theorem foldl_addRing_eq (len : Pt → Pt → Rat) (o : Op) (rs : List (List Pt)) :
    rs.foldl (addRing len) o = foldWC o (rs.map (ringC len)).flatten := by
  induction rs generalizing o with
  | nil => rfl
  | cons r t ih =>
    simp only [List.foldl_cons, List.map_cons, List.flatten_cons, foldWC_append]
    rw [addRing_eq, ih]

theorem addRing_none_tr (len : Pt → Pt → Rat) (d : Pt) (hlen : ∀ a b, len (a + d) (b + d) = len a b)
    (r : List Pt) : addRing len none (r.map (· + d)) = (addRing len none r).map (trW d) := by
  rw [addRing_eq, addRing_eq, ringC_tr len d hlen]
  exact foldWC_tr d none _

theorem ints_tr (len : Pt → Pt → Rat) (d : Pt) (hlen : ∀ a b, len (a + d) (b + d) = len a b)
    (rs : List (List Pt)) :
    (rs.map (·.map (· + d))).foldl (addRing len) none = (rs.foldl (addRing len) none).map (trW d) := by
  rw [foldl_addRing_eq, foldl_addRing_eq]
  have : ((rs.map (·.map (· + d))).map (ringC len)).flatten = ((rs.map (ringC len)).flatten).map (trW d) := by
    rw [List.map_flatten, List.map_map, List.map_map]
    congr 1
    apply List.map_congr_left
    intro r _
    exact ringC_tr len d hlen r
  rw [this]
  exact foldWC_tr d none _

theorem polyC_tr (len : Pt → Pt → Rat) (d : Pt) (hlen : ∀ a b, len (a + d) (b + d) = len a b)
    (p : Poly) : polyC len (polyMapG (· + d) p) = (polyC len p).map (trW d) := by
  unfold polyC polyMapG
  simp only
  rw [addRing_none_tr len d hlen, ints_tr len d hlen]
  cases addRing len none p.ext with
  | none => rfl
  | some e =>
    cases p.ints.foldl (addRing len) none with
    | none => rfl
    | some i =>
      simp only [Option.map_some]
      have hdim : (trW d i).dim = i.dim := rfl
      rw [hdim]
      by_cases h3 : i.dim = 3
      · rw [if_pos h3, if_pos h3, ← trW_subAssign]
        have hw : (trW d (e.subAssign i)).weight = (e.subAssign i).weight := rfl
        rw [hw]
        by_cases h0 : (e.subAssign i).weight = 0
        · rw [if_pos h0, if_pos h0]; exact lineStringC_tr len d hlen p.ext
        · rw [if_neg h0, if_neg h0]; rfl
      · rw [if_neg h3, if_neg h3]; rfl

theorem rectC_tr (len : Pt → Pt → Rat) (d : Pt) (hlen : ∀ a b, len (a + d) (b + d) = len a b)
    (mn mx : Pt) : rectC len (mn + d) (mx + d) = (rectC len mn mx).map (trW d) := by
  have hdims : rectDims (mn + d) (mx + d) = rectDims mn mx := by
    simp only [rectDims, padd_right_cancel, add_x, add_y, add_left_inj]
  have harea : ∀ k : Nat, ([⟨k, ((mx + d).x - (mn + d).x) * ((mx + d).y - (mn + d).y),
        Pt.smul (((mx + d).x - (mn + d).x) * ((mx + d).y - (mn + d).y)) (rectCenter (mn + d) (mx + d))⟩] : List WC) =
      [⟨k, (mx.x - mn.x) * (mx.y - mn.y), Pt.smul ((mx.x - mn.x) * (mx.y - mn.y)) (rectCenter mn mx)⟩].map (trW d) := by
    intro k
    simp only [List.map_cons, List.map_nil]
    congr 1
    apply WC.ext'
    · rfl
    · simp [trW]
    · apply Pt.ext' <;> simp [trW, rectCenter] <;> ring
  unfold rectC
  rw [hdims]
  generalize rectDims mn mx = k
  match k with
  | 0 => exact harea 3
  | 1 => simp [coordC_tr]
  | 2 => simp [lineC_tr len d hlen]
  | n + 3 => exact harea 3

theorem crossProd_tr (a b c d : Pt) : crossProd (a + d) (b + d) (c + d) = crossProd a b c := by
  simp only [crossProd, add_x, add_y]; ring

theorem triC_tr (len : Pt → Pt → Rat) (d : Pt) (hlen : ∀ a b, len (a + d) (b + d) = len a b)
    (a b c : Pt) : triC len (a + d) (b + d) (c + d) = (triC len a b c).map (trW d) := by
  have hdims : triDims (a + d) (b + d) (c + d) = triDims a b c := by
    simp only [triDims, crossProd_tr, padd_right_cancel]
  have harea : triArea (a + d) (b + d) (c + d) = triArea a b c := by
    simp only [triArea, psub_translate]
  have hA : ([⟨3, rabs (triArea a b c), Pt.smul (rabs (triArea a b c)) (Pt.divS ((a + d) + (b + d) + (c + d)) 3)⟩] : List WC) =
      [⟨3, rabs (triArea a b c), Pt.smul (rabs (triArea a b c)) (Pt.divS (a + b + c) 3)⟩].map (trW d) := by
    simp only [List.map_cons, List.map_nil]
    congr 1
    apply WC.ext'
    · rfl
    · rfl
    · apply Pt.ext' <;> simp [trW] <;> ring
  unfold triC
  rw [hdims, harea]
  generalize triDims a b c = k
  match k with
  | 0 => exact hA
  | 1 => simp [coordC_tr]
  | 2 => simp [lineC_tr len d hlen]
  | n + 3 => exact hA

mutual
theorem contribs_tr (len : Pt → Pt → Rat) (d : Pt) (hlen : ∀ a b, len (a + d) (b + d) = len a b) :
    ∀ g : Geom, contribs len (mapG (· + d) g) = (contribs len g).map (trW d)
  | .point p => by simp [mapG, contribs, coordC_tr]
  | .line a b => by simp [mapG, contribs, lineC_tr len d hlen]
  | .lineString cs => by simp only [mapG, contribs]; exact lineStringC_tr len d hlen cs
  | .polygon p => by simp only [mapG, contribs]; exact polyC_tr len d hlen p
  | .multiPoint ps => by
      simp only [mapG, contribs, List.map_map]
      apply List.map_congr_left; intro p _; exact coordC_tr d p
  | .multiLineString ls => by
      simp only [mapG, contribs, List.map_flatten, List.map_map]
      congr 1
      apply List.map_congr_left; intro l _; exact lineStringC_tr len d hlen l
  | .multiPolygon ps => by
      simp only [mapG, contribs, List.map_flatten, List.map_map]
      congr 1
      apply List.map_congr_left; intro p _; exact polyC_tr len d hlen p
  | .rect mn mx => by simp only [mapG, contribs]; exact rectC_tr len d hlen mn mx
  | .triangle a b c => by simp only [mapG, contribs]; exact triC_tr len d hlen a b c
  | .collection gs => by simp only [mapG, contribs]; exact contribsList_tr len d hlen gs
theorem contribsList_tr (len : Pt → Pt → Rat) (d : Pt) (hlen : ∀ a b, len (a + d) (b + d) = len a b) :
    ∀ gs : List Geom, contribsList len (mapGList (· + d) gs) = (contribsList len gs).map (trW d)
  | [] => rfl
  | g :: gs => by
      simp only [mapGList, contribsList, List.map_append]
      rw [contribs_tr len d hlen g, contribsList_tr len d hlen gs]
end

/-- the accumulator of the translated geometry is the translated accumulator -/
theorem addGeom_tr (len : Pt → Pt → Rat) (d : Pt) (hlen : ∀ a b, len (a + d) (b + d) = len a b) (g : Geom) :
    addGeom len none (mapG (· + d) g) = (addGeom len none g).map (trW d) := by
  rw [addGeom_eq, addGeom_eq, contribs_tr len d hlen]
  exact foldWC_tr d none _

theorem centroid_trW (d : Pt) (w : WC) (hw : w.weight ≠ 0) :
    Pt.divS (trW d w).acc (trW d w).weight = Pt.divS w.acc w.weight + d := by
  apply Pt.ext' <;> simp [trW] <;> field_simp

end Geo.Proofs.C06
