/-
  C08 helper lemmas (quick-hull) — the slice operations, specified:
  `partition_slice` really partitions (first part satisfies the predicate, second part does not,
  nothing lost), `swap_with_first_and_remove` removes the element at the index, and
  `least_and_greatest_index` + the two removals of `quick_hull` take out a lexicographically least
  and a lexicographically greatest coordinate.
-/
import GeoModel.Hull
import GeoProofs.Lemmas.C08Mem
import GeoProofs.Lemmas.C08QSort
import GeoProofs.Lemmas.C08QHull

namespace Geo.Proofs.C08
open Geo Geo.Hull

/-! ### `partition_slice` -/

theorem mem_takeWhile_pred {α : Type} (p : α → Bool) : ∀ (l : List α) (x : α),
    x ∈ l.takeWhile p → p x = true := by
  intro l
  induction l with
  | nil => intro x h; simp at h
  | cons a t ih =>
    intro x h
    rw [List.takeWhile_cons] at h
    split at h
    · rcases List.mem_cons.1 h with h | h
      · rw [h]; assumption
      · exact ih x h
    · simp at h

theorem partitionSlice_spec (pred : Pt → Bool) (fuel : Nat) :
    ∀ xs : List Pt, xs.length < fuel →
      (∀ x ∈ (partitionSlice pred fuel xs).1, pred x = true) ∧
      (∀ x ∈ (partitionSlice pred fuel xs).2, pred x = false) ∧
      (partitionSlice pred fuel xs).1.length + (partitionSlice pred fuel xs).2.length = xs.length := by
  induction fuel with
  | zero => intro xs h; omega
  | succ n ih =>
    intro xs hlen
    have hsplit : xs.takeWhile pred ++ xs.dropWhile pred = xs := List.takeWhile_append_dropWhile
    have hpre : ∀ y ∈ xs.takeWhile pred, pred y = true := fun y hy => mem_takeWhile_pred pred xs y hy
    have hrr : (xs.dropWhile pred).reverse.takeWhile (fun p => !pred p) ++
        (xs.dropWhile pred).reverse.dropWhile (fun p => !pred p) = (xs.dropWhile pred).reverse :=
      List.takeWhile_append_dropWhile
    have hrest : xs.dropWhile pred =
        ((xs.dropWhile pred).reverse.dropWhile (fun p => !pred p)).reverse ++
          ((xs.dropWhile pred).reverse.takeWhile (fun p => !pred p)).reverse := by
      have := congrArg List.reverse hrr
      rw [List.reverse_append, List.reverse_reverse] at this
      exact this.symm
    have hsuf : ∀ y ∈ ((xs.dropWhile pred).reverse.takeWhile (fun p => !pred p)).reverse,
        pred y = false := by
      intro y hy
      have := mem_takeWhile_pred _ _ y (List.mem_reverse.1 hy)
      simpa using this
    have hlenx : xs.length = (xs.takeWhile pred).length +
        (((xs.dropWhile pred).reverse.dropWhile (fun p => !pred p)).reverse.length +
          ((xs.dropWhile pred).reverse.takeWhile (fun p => !pred p)).reverse.length) := by
      conv_lhs => rw [← hsplit]
      rw [List.length_append]
      conv_lhs => rw [hrest]
      rw [List.length_append]
    simp only [partitionSlice]
    split
    · -- body empty: the rest is all non-`pred`
      rename_i hb
      refine ⟨hpre, ?_, ?_⟩
      · intro x hx
        rw [hrest, hb] at hx
        exact hsuf x (by simpa using hx)
      · rw [← List.length_append, hsplit]
    · rename_i f body' hb
      -- the head of the body is the head of the rest: it fails `pred`
      have hfne : xs.dropWhile pred ≠ [] := by
        intro h0
        rw [h0] at hb
        simp at hb
      have hfhead : (xs.dropWhile pred).head hfne = f := by
        rw [List.head_eq_iff_head?_eq_some]
        rw [hrest, hb]
        rfl
      have hf : pred f = false := by
        rw [← hfhead]; exact List.head_dropWhile_not pred hfne
      -- the last element of the body satisfies `pred`
      have hbne : (xs.dropWhile pred).reverse.dropWhile (fun p => !pred p) ≠ [] := by
        intro h0
        rw [h0] at hb
        simp at hb
      have hlast := List.head_dropWhile_not (fun p => !pred p) hbne
      split
      · -- body = [f]: impossible
        rename_i hrev
        exfalso
        have hb' : body' = [] := by simpa using hrev
        rw [hb'] at hb
        have hd : (xs.dropWhile pred).reverse.dropWhile (fun p => !pred p) = [f] := by
          have := congrArg List.reverse hb
          simpa using this
        simp only [hd, List.head_cons, Bool.not_eq_false'] at hlast
        rw [hf] at hlast
        exact Bool.false_ne_true hlast
      · rename_i t innerRev hrev
        have hb' : body' = innerRev.reverse ++ [t] := by
          have := congrArg List.reverse hrev
          simpa using this
        have hd : (xs.dropWhile pred).reverse.dropWhile (fun p => !pred p) = t :: (innerRev ++ [f]) := by
          have := congrArg List.reverse hb
          rw [List.reverse_reverse, hb'] at this
          simpa using this
        have ht : pred t = true := by
          simp only [hd, List.head_cons, Bool.not_eq_false'] at hlast
          exact hlast
        have hbl : ((xs.dropWhile pred).reverse.dropWhile (fun p => !pred p)).reverse.length
            = innerRev.length + 2 := by
          rw [hb, hb']; simp
        have hrec := ih innerRev.reverse (by rw [List.length_reverse]; omega)
        refine ⟨?_, ?_, ?_⟩
        · intro x hx
          rcases List.mem_append.1 hx with h | h
          · exact hpre x h
          · rcases List.mem_cons.1 h with h | h
            · rw [h]; exact ht
            · exact hrec.1 x h
        · intro x hx
          rcases List.mem_append.1 hx with h | h
          · exact hrec.2.1 x h
          · rcases List.mem_cons.1 h with h | h
            · rw [h]; exact hf
            · exact hsuf x h
        · have h3 := hrec.2.2
          rw [List.length_reverse] at h3
          simp only [List.length_append, List.length_cons]
          omega

theorem partition_spec (pred : Pt → Bool) (xs : List Pt) :
    (∀ x ∈ (partition pred xs).1, pred x = true) ∧
    (∀ x ∈ (partition pred xs).2, pred x = false) ∧
    (partition pred xs).1.length + (partition pred xs).2.length = xs.length :=
  partitionSlice_spec pred _ xs (Nat.lt_succ_self _)

/-! ### `swap_with_first_and_remove` -/

theorem swapRemove_length (l : List Pt) (idx : Nat) (h : l ≠ []) :
    (swapRemove l idx).2.length + 1 = l.length := by
  cases l with
  | nil => exact absurd rfl h
  | cons a t =>
    simp only [swapRemove]
    split <;> simp

/-- the removed element is the one at the index -/
theorem swapRemove_fst_get (l : List Pt) (idx : Nat) (v : Pt) (h : l[idx]? = some v) :
    (swapRemove l idx).1 = v := by
  cases l with
  | nil => simp at h
  | cons a t =>
    simp only [swapRemove]
    split
    · rename_i h0; subst h0; simpa using h
    · rename_i h0
      obtain ⟨k, hk⟩ : ∃ k, idx = k + 1 := ⟨idx - 1, by omega⟩
      subst hk
      simp only [List.getElem?_cons_succ] at h
      simp [List.getD_eq_getElem?_getD, h]

/-! ### `least_and_greatest_index` -/

theorem leastGreatestGo_spec : ∀ (t pre : List Pt) (mn mx : Nat × Pt),
    (pre ++ t)[mn.1]? = some mn.2 → (pre ++ t)[mx.1]? = some mx.2 →
    (∀ x ∈ pre, ¬ lexLt x mn.2 = true) → (∀ x ∈ pre, ¬ lexLt mx.2 x = true) →
    ∃ m M, (pre ++ t)[(leastGreatestGo t pre.length mn mx).1]? = some m ∧
      (pre ++ t)[(leastGreatestGo t pre.length mn mx).2]? = some M ∧
      (∀ x ∈ pre ++ t, ¬ lexLt x m = true) ∧ (∀ x ∈ pre ++ t, ¬ lexLt M x = true) := by
  intro t
  induction t with
  | nil =>
    intro pre mn mx h1 h2 h3 h4
    exact ⟨mn.2, mx.2, by simpa [leastGreatestGo] using h1, by simpa [leastGreatestGo] using h2,
      by simpa using h3, by simpa using h4⟩
  | cons q t ih =>
    intro pre mn mx h1 h2 h3 h4
    simp only [leastGreatestGo]
    have happ : pre ++ q :: t = (pre ++ [q]) ++ t := by simp
    have hq : (pre ++ q :: t)[pre.length]? = some q := by simp
    have hlen : (pre ++ [q]).length = pre.length + 1 := by simp
    have := ih (pre ++ [q]) (if lexLt q mn.2 then (pre.length, q) else mn)
      (if lexLt mx.2 q then (pre.length, q) else mx)
      (by
        rw [← happ]
        split
        · exact hq
        · exact h1)
      (by
        rw [← happ]
        split
        · exact hq
        · exact h2)
      (by
        intro x hx
        rcases List.mem_append.1 hx with hx | hx
        · split
          · rename_i hlt
            exact fun hxq => h3 x hx (lexLt_trans hxq hlt)
          · exact h3 x hx
        · simp at hx; subst hx
          split
          · exact lexLt_irrefl _
          · assumption)
      (by
        intro x hx
        rcases List.mem_append.1 hx with hx | hx
        · split
          · rename_i hlt
            exact fun hqx => h4 x hx (lexLt_trans hlt hqx)
          · exact h4 x hx
        · simp at hx; subst hx
          split
          · exact lexLt_irrefl _
          · assumption)
    rw [hlen, ← happ] at this
    exact this

theorem leastGreatest_spec (p : Pt) (t : List Pt) :
    ∃ m M, (p :: t)[(leastGreatest (p :: t)).1]? = some m ∧
      (p :: t)[(leastGreatest (p :: t)).2]? = some M ∧
      (∀ x ∈ p :: t, ¬ lexLt x m = true) ∧ (∀ x ∈ p :: t, ¬ lexLt M x = true) := by
  have := leastGreatestGo_spec t [p] (0, p) (0, p) (by simp) (by simp)
    (by intro x hx; simp at hx; subst hx; exact lexLt_irrefl _)
    (by intro x hx; simp at hx; subst hx; exact lexLt_irrefl _)
  simpa [leastGreatest] using this

/-- a coordinate that is neither less nor greater than a least one is that one -/
theorem eq_of_not_lexLt {a b : Pt} (h1 : ¬ lexLt a b = true) (h2 : ¬ lexLt b a = true) : a = b := by
  rcases lexLt_tricho a b h1 with h | h
  · exact h
  · exact absurd h h2

/-- **the two coordinates `quick_hull` removes first** are a lexicographically least and a
lexicographically greatest coordinate of the input -/
theorem quickHull_extremes (pts : List Pt) (h2 : 2 ≤ pts.length) :
    let mm := leastGreatest pts
    let s1 := swapRemove pts mm.1
    let s2 := swapRemove s1.2 ((if mm.2 = 0 then mm.1 else mm.2) - 1)
    (∀ x ∈ pts, ¬ lexLt x s1.1 = true) ∧ (∀ x ∈ pts, ¬ lexLt s2.1 x = true) := by
  intro mm s1 s2
  cases pts with
  | nil => simp at h2
  | cons h t =>
    obtain ⟨m, M, hm, hM, hmin, hmax⟩ := leastGreatest_spec h t
    have hs1 : s1.1 = m := swapRemove_fst_get _ _ _ hm
    refine ⟨by rw [hs1]; exact hmin, ?_⟩
    have hne : h :: t ≠ [] := by simp
    have hs1ne : s1.2 ≠ [] := by
      have hl : s1.2.length + 1 = (h :: t).length := swapRemove_length (h :: t) mm.1 hne
      intro h0
      rw [h0] at hl
      simp only [List.length_cons, List.length_nil] at hl h2
      omega
    have hs2mem : s2.1 ∈ h :: t :=
      swapRemove_snd_subset _ _ _ (swapRemove_fst_mem _ _ hs1ne)
    by_cases hmM : m = M
    · -- all coordinates are equal
      have hall : ∀ x ∈ h :: t, x = M := by
        intro x hx
        have := eq_of_not_lexLt (hmin x hx) (by rw [hmM]; exact hmax x hx)
        rw [this, hmM]
      rw [hall _ hs2mem]
      exact hmax
    · have hidx : mm.1 ≠ mm.2 := by
        intro he
        rw [he, hM] at hm
        exact hmM (Option.some.inj hm).symm
      suffices hs2 : s2.1 = M by rw [hs2]; exact hmax
      apply swapRemove_fst_get
      show (swapRemove (h :: t) mm.1).2[(if mm.2 = 0 then mm.1 else mm.2) - 1]? = some M
      simp only [swapRemove]
      by_cases h0 : mm.1 = 0
      · rw [if_pos h0]
        have hM0 : mm.2 ≠ 0 := fun h' => hidx (by rw [h0, h'])
        rw [if_neg hM0]
        obtain ⟨k, hk⟩ : ∃ k, mm.2 = k + 1 := ⟨mm.2 - 1, by omega⟩
        rw [hk] at hM ⊢
        simpa using hM
      · rw [if_neg h0]
        obtain ⟨j, hj⟩ : ∃ j, mm.1 = j + 1 := ⟨mm.1 - 1, by omega⟩
        have hjlt : j < t.length := by
          rw [hj] at hm
          simp only [List.getElem?_cons_succ] at hm
          exact (List.getElem?_eq_some_iff.1 hm).1
        by_cases hM0 : mm.2 = 0
        · rw [if_pos hM0]
          rw [hM0] at hM
          simp only [List.getElem?_cons_zero] at hM
          rw [hj]
          simp only [Nat.add_sub_cancel]
          rw [List.getElem?_set_self hjlt]
          exact hM
        · rw [if_neg hM0]
          obtain ⟨k, hk⟩ : ∃ k, mm.2 = k + 1 := ⟨mm.2 - 1, by omega⟩
          rw [hk] at hM
          simp only [List.getElem?_cons_succ] at hM
          rw [hk, hj]
          simp only [Nat.add_sub_cancel]
          rw [List.getElem?_set_ne (by omega)]
          exact hM

end Geo.Proofs.C08
