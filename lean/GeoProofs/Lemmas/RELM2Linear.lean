/-
  RELM2 — `NodesLocate` for Point, MultiPoint and a non-degenerate Line: the nodes of the
  self-noded graph carry the specification's location (any arithmetic: self-noding finds nothing).
-/
import GeoProofs.Lemmas.RELM2Locate
import GeoProofs.Lemmas.RELMMultiPoint

namespace Geo.Proofs.RELM2
open Geo Geo.GG Geo.RI Geo.Proofs.Spec Geo.Proofs.RELM Geo.Proofs.Kernel

/-! ### Point, MultiPoint -/

theorem nodesLocate_point (ar : Arith) (q : Pt) : NodesLocate ar (.point q) := by
  intro n hn
  have hnodes : (freshGraph ar 1 (.point q)).nodes = [⟨q, Label.emptyLine.setOn 1 .inside⟩] := rfl
  rw [hnodes, List.mem_singleton] at hn
  subst hn
  have : locate (.point q) q = .inside := by
    show locateParts ⟨[q], [], []⟩ q = .inside
    rw [RELM.locateParts_points]; simp [posIn]
  rw [this]
  rfl

theorem eisAreNodes_point (ar : Arith) (q : Pt) : EisAreNodes ar (.point q) := by
  intro e he
  have : (freshGraph ar 1 (.point q)).edges = [] := rfl
  rw [this] at he
  cases he

theorem nodesLocate_multiPoint (ar : Arith) (qs : List Pt) : NodesLocate ar (.multiPoint qs) := by
  intro n hn
  rw [fresh_multiPoint] at hn
  obtain ⟨_, _, h3, h4⟩ := addPoints_spec 1 qs Graph.empty
  have hin := h3 (fun n hn => by cases hn) n hn
  have hmem : n.coord ∈ qs := by
    have := (h4 n.coord).1 (List.mem_map.2 ⟨n, hn, rfl⟩)
    rcases this with h | h
    · exact h
    · simp [Graph.empty] at h
  have : locate (.multiPoint qs) n.coord = .inside := by
    show locateParts ⟨qs, [], []⟩ n.coord = .inside
    rw [RELM.locateParts_points]; simp [posIn, hmem]
  rw [this]
  exact hin

theorem eisAreNodes_multiPoint (ar : Arith) (qs : List Pt) : EisAreNodes ar (.multiPoint qs) := by
  intro e he
  rw [fresh_multiPoint] at he
  cases he

/-! ### Line -/

theorem fresh_line_edges (ar : Arith) (a b : Pt) :
    (freshGraph ar 1 (.line a b)).edges = [⟨[a, b], lineLabel 1, true, []⟩] := rfl

theorem fresh_line_nodes (ar : Arith) (a b : Pt) (hab : a ≠ b) :
    (freshGraph ar 1 (.line a b)).nodes =
      [⟨a, boundaryUpdate 1 Label.emptyLine⟩, ⟨b, boundaryUpdate 1 Label.emptyLine⟩] := by
  rw [fresh_nodes, fresh_line_edges]
  simp only [List.map_cons, List.map_nil]
  have : (lineLabel 1).onPos 1 = some .inside := rfl
  rw [this]
  simp only [addSelfIntersectionItems, addSelfIntersectionCoords, selfNodeBase_nodes]
  show upsertNode b (boundaryUpdate 1) (upsertNode a (boundaryUpdate 1) []) = _
  simp only [upsertNode, if_neg hab]

theorem locate_line_end (a b : Pt) (hab : a ≠ b) :
    locate (.line a b) a = .onBoundary ∧ locate (.line a b) b = .onBoundary := by
  constructor
  · show locateParts ⟨[], [[a, b]], []⟩ a = .onBoundary
    rw [locateParts_linear_boundary _ _ rfl rfl]
    refine ⟨onAnySeg_of_mem_segs (a := a) (b := b) (by simp [Parts.curveSegs, segs]) (SegMem_left _ _), ?_⟩
    simp [Geo.endpointCount, hab]
  · show locateParts ⟨[], [[a, b]], []⟩ b = .onBoundary
    rw [locateParts_linear_boundary _ _ rfl rfl]
    refine ⟨onAnySeg_of_mem_segs (a := a) (b := b) (by simp [Parts.curveSegs, segs]) (SegMem_right _ _), ?_⟩
    simp [Geo.endpointCount, hab, Ne.symm hab]

theorem nodesLocate_line (ar : Arith) (a b : Pt) (hab : a ≠ b) : NodesLocate ar (.line a b) := by
  intro n hn
  rw [fresh_line_nodes ar a b hab] at hn
  have hB : (boundaryUpdate 1 Label.emptyLine).onPos 1 = some .onBoundary := rfl
  simp only [List.mem_cons, List.not_mem_nil, or_false] at hn
  rcases hn with rfl | rfl
  · rw [(locate_line_end a b hab).1]; exact hB
  · rw [(locate_line_end a b hab).2]; exact hB

theorem eisAreNodes_line (ar : Arith) (a b : Pt) : EisAreNodes ar (.line a b) := by
  intro e he r hr
  rw [fresh_line_edges] at he
  simp only [List.mem_singleton] at he
  subst he
  cases hr

end Geo.Proofs.RELM2
