/-
  RELM — the transpose law for all geometries without a zero-length `Line`: the edges
  `GeometryGraph::new` builds have no two equal consecutive coordinates, self-noding and the mutual
  phase leave sorted lists of valid records on them, hence all edge ends have non-zero length.
-/
import GeoProofs.Lemmas.RELMEnds

namespace Geo.Proofs.RELM
open Geo Geo.GG Geo.RI Geo.Proofs.Kernel

/-! ### the edges `GeometryGraph::new` builds -/

theorem distinct_cons {a b : Pt} {l : List Pt} (hab : a ≠ b) (h : Distinct (b :: l)) : Distinct (a :: b :: l) := by
  intro k x y hx hy
  cases k with
  | zero =>
    simp only [List.getElem?_cons_zero, Option.some.injEq, List.getElem?_cons_succ] at hx hy
    subst hx hy; exact hab
  | succ k => exact h k x y (by simpa using hx) (by simpa using hy)

theorem distinct_single (a : Pt) : Distinct [a] := by
  intro k x y _ hy
  simp at hy

theorem distinct_nil : Distinct [] := by
  intro k x y hx _
  simp at hx

theorem distinct_dedupFrom (prev : Pt) : ∀ (l : List Pt), Distinct (prev :: dedupFrom prev l)
  | [] => distinct_single prev
  | c :: rest => by
      simp only [dedupFrom]
      split
      · exact distinct_dedupFrom prev rest
      · rename_i hne
        exact distinct_cons (Ne.symm hne) (distinct_dedupFrom c rest)

theorem distinct_dedup : ∀ (l : List Pt), Distinct (dedup l)
  | [] => distinct_nil
  | c :: rest => distinct_dedupFrom c rest

mutual
/-- no `Line` with equal end points anywhere in the geometry -/
def noZeroLine : Geom → Bool
  | .line a b => a != b
  | .collection gs => noZeroLineList gs
  | _ => true
def noZeroLineList : List Geom → Bool
  | [] => true
  | g :: gs => noZeroLine g && noZeroLineList gs
end

/-- all edges of the graph have pairwise different consecutive coordinates -/
def EdgesDistinct (G : Graph) : Prop := ∀ e ∈ G.edges, Distinct e.coords

theorem ed_insertEdge {e : Edge} {G : Graph} (he : Distinct e.coords) (h : EdgesDistinct G) :
    EdgesDistinct (insertEdge e G) := by
  intro e' he'
  simp only [insertEdge, List.mem_append, List.mem_singleton] at he'
  rcases he' with he' | rfl
  · exact h _ he'
  · exact he

theorem ed_nodes {G : Graph} (ns : List Node) (h : EdgesDistinct G) : EdgesDistinct { G with nodes := ns } := h

theorem ed_addLineString (idx : Nat) (cs : List Pt) {G : Graph} (h : EdgesDistinct G) :
    EdgesDistinct (addLineString idx cs G) := by
  unfold addLineString
  have hd := distinct_dedup cs
  cases hdd : dedup cs with
  | nil => exact h
  | cons first rest =>
    cases rest with
    | nil => exact h
    | cons second rest' =>
      rw [hdd] at hd
      exact ed_insertEdge hd h

theorem ed_addPolygonRing (idx : Nat) (ring : List Pt) (l r : Pos) {G : Graph} (h : EdgesDistinct G) :
    EdgesDistinct (addPolygonRing idx ring l r G) := by
  unfold addPolygonRing
  split
  · exact h
  · exact ed_insertEdge (e := GG.ringEdge idx ring l r) (distinct_dedup ring) h

theorem ed_addHoles (idx : Nat) : ∀ (hs : List (List Pt)) {G : Graph}, EdgesDistinct G → EdgesDistinct (addHoles idx hs G)
  | [], _, h => h
  | x :: xs, _, h => ed_addHoles idx xs (ed_addPolygonRing idx x _ _ h)

theorem ed_addPolygon (idx : Nat) (p : Poly) {G : Graph} (h : EdgesDistinct G) : EdgesDistinct (addPolygon idx p G) :=
  ed_addHoles idx p.ints (ed_addPolygonRing idx p.ext _ _ h)

theorem ed_addPoints (idx : Nat) : ∀ (ps : List Pt) {G : Graph}, EdgesDistinct G → EdgesDistinct (addPoints idx ps G)
  | [], _, h => h
  | p :: ps, _, h => ed_addPoints idx ps (G := addPoint idx p _) h

theorem ed_addLineStrings (idx : Nat) : ∀ (ls : List (List Pt)) {G : Graph}, EdgesDistinct G →
    EdgesDistinct (addLineStrings idx ls G)
  | [], _, h => h
  | l :: ls, _, h => ed_addLineStrings idx ls (ed_addLineString idx l h)

theorem ed_addPolygons (idx : Nat) : ∀ (ps : List Poly) {G : Graph}, EdgesDistinct G → EdgesDistinct (addPolygons idx ps G)
  | [], _, h => h
  | p :: ps, _, h => ed_addPolygons idx ps (ed_addPolygon idx p h)

mutual
theorem ed_addGeometry (idx : Nat) : ∀ (g : Geom) (G : Graph), noZeroLine g = true → EdgesDistinct G →
    EdgesDistinct (addGeometry idx g G)
  | .point p, G, _, h => by simp only [addGeometry]; exact h
  | .line a b, G, hz, h => by
    simp only [addGeometry, addLine]
    have hab : a ≠ b := by simpa [noZeroLine] using hz
    exact ed_insertEdge (e := ⟨[a, b], lineLabel idx⟩) (distinct_cons hab (distinct_single b)) h
  | .lineString cs, G, _, h => by
    simp only [addGeometry]; split
    · exact h
    · exact ed_addLineString idx cs h
  | .polygon p, G, _, h => by
    simp only [addGeometry]; split
    · exact h
    · exact ed_addPolygon idx p h
  | .multiPoint ps, G, _, h => by
    simp only [addGeometry]; split
    · exact h
    · exact ed_addPoints idx ps h
  | .multiLineString ls, G, _, h => by
    simp only [addGeometry]; split
    · exact h
    · exact ed_addLineStrings idx ls h
  | .multiPolygon ps, G, _, h => by
    simp only [addGeometry]; split
    · exact h
    · exact ed_addPolygons idx ps (G := { G with useRule := false }) h
  | .rect mn mx, G, _, h => by simp only [addGeometry]; exact ed_addPolygon idx _ h
  | .triangle a b c, G, _, h => by simp only [addGeometry]; exact ed_addPolygon idx _ h
  | .collection gs, G, hz, h => by
    simp only [addGeometry]; split
    · exact h
    · exact ed_addGeometries idx gs G (by simpa [noZeroLine] using hz) h
theorem ed_addGeometries (idx : Nat) : ∀ (gs : List Geom) (G : Graph), noZeroLineList gs = true → EdgesDistinct G →
    EdgesDistinct (addGeometries idx gs G)
  | [], G, _, h => by simp only [addGeometries]; exact h
  | g :: gs, G, hz, h => by
    simp only [addGeometries]
    simp only [noZeroLineList, Bool.and_eq_true] at hz
    exact ed_addGeometries idx gs _ hz.2 (ed_addGeometry idx g G hz.1 h)
end

theorem buildGraph_distinct (idx : Nat) (g : Geom) (hz : noZeroLine g = true) : EdgesDistinct (buildGraph idx g) :=
  ed_addGeometry idx g Graph.empty hz (fun e he => by cases he)

/-! ### edges through self-noding and the mutual phase -/

/-- a well-formed edge: distinct consecutive coordinates, sorted list of valid records -/
def EdgeWF (e : REdge) : Prop := Distinct e.coords ∧ SortedEI e.eis ∧ ∀ r ∈ e.eis, ValidRec e.coords r

theorem freshGraph_edgeWF (idx : Nat) (g : Geom) (hz : noZeroLine g = true) :
    ∀ e ∈ (freshGraph Arith.exact idx g).edges, EdgeWF e := by
  intro e he
  obtain ⟨hs, hv⟩ := freshGraph_wf idx g e he
  refine ⟨?_, hs, hv⟩
  -- coordinates are those of an edge of the built graph
  rw [fresh_edges] at he
  have h1 : toEdge e ∈ (buildGraph idx g).edges := by
    have := List.mem_map_of_mem (f := toEdge) he
    rwa [selfIntersections_toEdge, map_toEdge_ofEdge] at this
  exact buildGraph_distinct idx g hz _ h1

theorem applyM_wf {es : List REdge} (hw : ∀ e ∈ es, EdgeWF e) {evs : List MEv}
    (hval : ∀ i r, MEv.ins i r ∈ evs → ∃ e, es[i]? = some e ∧ ValidRec e.coords r) :
    ∀ e ∈ applyM es evs, EdgeWF e := by
  intro e he
  obtain ⟨i, hi⟩ := List.getElem?_of_mem he
  rw [getElem?_applyM] at hi
  cases he0 : es[i]? with
  | none => rw [he0] at hi; cases hi
  | some e0 =>
    rw [he0] at hi
    simp only [Option.map_some, Option.some.injEq] at hi
    subst hi
    have hw0 := hw e0 (List.mem_of_getElem? he0)
    refine ⟨hw0.1, insertAll_sorted _ _ hw0.2.1, ?_⟩
    intro r hr
    rcases mem_insertAll_subset _ _ r hr with h | h
    · exact hw0.2.2 r h
    · obtain ⟨e', he', hv'⟩ := hval i r ((mem_mrecsFor i r evs).1 h)
      rw [he0] at he'; cases he'
      exact hv'

theorem mutualGraphs_edgeWF {ga gb : RGraph} (ha : ∀ e ∈ ga.edges, EdgeWF e) (hb : ∀ e ∈ gb.edges, EdgeWF e) :
    (∀ e ∈ (mutualGraphs Arith.exact ga gb).1.edges, EdgeWF e) ∧
    (∀ e ∈ (mutualGraphs Arith.exact ga gb).2.1.edges, EdgeWF e) := by
  unfold mutualGraphs edgeIntersections
  simp only
  have hseg : ∀ pr ∈ mutualPairs (allSegs gb.edges) (allSegs ga.edges), SegIn ga.edges pr.1 ∧ SegIn gb.edges pr.2 := by
    intro pr hpr
    rw [mem_mutualPairs] at hpr
    exact ⟨allSegs_segIn _ _ hpr.1, allSegs_segIn _ _ hpr.2⟩
  rw [mutualRows_eq_fold, mutualFold_eq _ _ _ hseg]
  simp only
  constructor
  · apply applyM_wf ha
    intro i r hir
    simp only [List.mem_flatMap] at hir
    obtain ⟨pr, hpr, hev⟩ := hir
    exact (mEvents_valid (hseg pr hpr).1 (hseg pr hpr).2).1 i r hev
  · apply applyM_wf hb
    intro i r hir
    simp only [List.mem_flatMap] at hir
    obtain ⟨pr, hpr, hev⟩ := hir
    exact (mEvents_valid (hseg pr hpr).1 (hseg pr hpr).2).2 i r hev

/-- **all edge ends have non-zero length** when no `Line` has equal end points -/
theorem endsNonZero_of_noZeroLine (a b : Geom) (ha : noZeroLine a = true) (hb : noZeroLine b = true) :
    EndsNonZero a b := by
  unfold EndsNonZero nodedGraphs
  obtain ⟨wa, wb⟩ := mutualGraphs_edgeWF (freshGraph_edgeWF 0 a ha) (freshGraph_edgeWF 1 b hb)
  generalize mutualGraphs Arith.exact (freshGraph Arith.exact 0 a) (freshGraph Arith.exact 1 b) = mg at wa wb ⊢
  obtain ⟨ga, gb, hp, hpi⟩ := mg
  simp only at wa wb ⊢
  cases hEa : endsForEdges ga.edges with
  | none => trivial
  | some ea =>
    cases hEb : endsForEdges gb.edges with
    | none => trivial
    | some eb =>
      simp only
      intro x hx
      rcases List.mem_append.1 hx with h | h
      · exact endsForEdges_nonzero _ _ wa hEa x h
      · exact endsForEdges_nonzero _ _ wb hEb x h

/-- **The transpose law of the implementation, for all geometries without a zero-length `Line`**
(exact arithmetic): `relate(b, a) = relate(a, b)ᵀ`, panic for panic — valid or invalid operands alike. -/
theorem relateImpl_transpose_noZeroLine (a b : Geom) (ha : noZeroLine a = true) (hb : noZeroLine b = true) :
    relateImpl? b a = (relateImpl? a b).map IM.transpose :=
  relateImpl_transpose a b (endsNonZero_of_noZeroLine a b ha hb)

end Geo.Proofs.RELM
