/-
  MONO2 (C10): list facts about the mirrored small `sort_by` (it only permutes) and `Vec::drain(range)` (both the
  drained range and the rest are sublists of the vector).
-/
import GeoProofs.Lemmas.MONO2Defs

namespace Geo.Proofs.MONO2
open Geo Geo.Mono Geo.MonoBuild

theorem insRev_perm {cmp : Nat → Nat → Option Ordering} (x : Nat) :
    ∀ (acc acc' : List Nat), insRev cmp x acc = some acc' → acc'.Perm (x :: acc)
  | [], acc', h => by
    simp only [insRev, Option.some.injEq] at h
    subst h; exact List.Perm.refl _
  | y :: ys, acc', h => by
    unfold insRev at h
    split at h
    · cases h
    · cases hr : insRev cmp x ys with
      | none => rw [hr] at h; cases h
      | some r =>
        rw [hr] at h
        simp only [Option.map_some, Option.some.injEq] at h
        subst h
        have ih := insRev_perm x ys r hr
        exact (List.Perm.cons y ih).trans (List.Perm.swap x y ys)
    · simp only [Option.some.injEq] at h
      subst h; exact List.Perm.refl _

theorem sortGo_perm {cmp : Nat → Nat → Option Ordering} :
    ∀ (v acc w : List Nat), sortGo cmp v acc = some w → w.Perm (v ++ acc)
  | [], acc, w, h => by
    simp only [sortGo, Option.some.injEq] at h
    subst h
    simp
  | x :: xs, acc, w, h => by
    unfold sortGo at h
    split at h
    · cases h
    · rename_i acc' hins
      have h1 := sortGo_perm xs acc' w h
      have h2 := insRev_perm (cmp := cmp) x acc acc' hins
      refine h1.trans ?_
      refine (List.Perm.append_left xs h2).trans ?_
      simp

/-- the mirrored insertion sort only permutes -/
theorem sortBy_perm {cmp : Nat → Nat → Option Ordering} {v w : List Nat} (h : sortBy cmp v = some w) : w.Perm v := by
  have := sortGo_perm (cmp := cmp) v [] w h
  simpa using this

/-- the rest of a drained vector is made of elements of the vector, in order -/
theorem drainRange_rest_sublist (v : List Nat) (a b : Nat) (h : a ≤ b) : (drainRange v a b).2.Sublist v := by
  unfold drainRange
  simp only
  have h1 : (v.drop b).Sublist (v.drop a) := by
    have : v.drop b = (v.drop a).drop (b - a) := by
      rw [List.drop_drop]; congr 1; omega
    rw [this]; exact List.drop_sublist _ _
  have h2 : (v.take a ++ v.drop b).Sublist (v.take a ++ v.drop a) := List.Sublist.append_left h1 _
  rwa [List.take_append_drop] at h2

/-- the drained range is made of elements of the vector, in order -/
theorem drainRange_drained_sublist (v : List Nat) (a b : Nat) : (drainRange v a b).1.Sublist v := by
  unfold drainRange
  simp only
  exact (List.drop_sublist _ _).trans (List.take_sublist _ _)

end Geo.Proofs.MONO2
