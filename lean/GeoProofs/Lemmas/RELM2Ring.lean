/-
  RELM2 — a closed LineString (a ring written as a line string; any coordinates, simple or not, but not a
  single coordinate): `compute_self_nodes` runs without the self-check (`is_rings`), the single edge
  records nothing, the start vertex is inserted twice as a boundary point and ends up `Inside` (mod-2
  rule) — the specification's location of a point of a closed curve.  Hence `NodesLocate`.
-/
import GeoProofs.Lemmas.RELM2Dom
namespace Geo.Proofs.RELM2
open Geo Geo.GG Geo.RI Geo.Proofs.Spec Geo.Proofs.RELM Geo.Proofs.Kernel

theorem segsFrom_edge (k : Nat) : ∀ (cs : List Pt) (i : Nat), ∀ s ∈ segsFrom k i cs, s.edge = k
  | [], _, s, h => by simp [segsFrom] at h
  | [_], _, s, h => by simp [segsFrom] at h
  | a :: b :: rest, i, s, h => by
      simp only [segsFrom, List.mem_cons] at h
      rcases h with rfl | h
      · rfl
      · exact segsFrom_edge k (b :: rest) (i + 1) s h

theorem selfRow_noop (ar : Arith) (s0 : Seg) : ∀ (l : List Seg) (es : List REdge),
    (∀ s1 ∈ l, s1.edge = s0.edge) → selfRow ar false s0 l es = es
  | [], _, _ => rfl
  | s1 :: rest, es, h => by
      have h1 : s0.edge = s1.edge := (h s1 (List.mem_cons_self ..)).symm
      simp only [selfRow, Bool.false_or, h1, bne_self_eq_false, Bool.false_eq_true, if_false]
      exact selfRow_noop ar s0 rest es (fun s hs => h s (List.mem_cons_of_mem _ hs))

theorem selfRows_noop (ar : Arith) (all : List Seg) (k : Nat) (hall : ∀ s ∈ all, s.edge = k) :
    ∀ (l : List Seg) (es : List REdge), (∀ s ∈ l, s.edge = k) → selfRows ar false all l es = es
  | [], _, _ => rfl
  | s0 :: rest, es, h => by
      simp only [selfRows]
      rw [selfRow_noop ar s0 all es (fun s1 h1 => by rw [hall s1 h1, h s0 (List.mem_cons_self ..)])]
      exact selfRows_noop ar all k hall rest es (fun s hs => h s (List.mem_cons_of_mem _ hs))

/-- self-noding of a single edge of a ring type (no self-check) records nothing -/
theorem selfIntersections_single_noCheck (ar : Arith) (e : REdge) : selfIntersections ar false [e] = [e] := by
  unfold selfIntersections
  have hall : ∀ s ∈ allSegs [e], s.edge = 0 := by
    intro s hs
    simp only [allSegs, allSegsFrom, List.append_nil, edgeSegs] at hs
    exact segsFrom_edge 0 _ 0 s hs
  exact selfRows_noop ar _ 0 hall _ _ hall

end Geo.Proofs.RELM2

namespace Geo.Proofs.RELM2
open Geo Geo.GG Geo.RI Geo.Proofs.Spec Geo.Proofs.RELM Geo.Proofs.Kernel

theorem items_nil_noop (idx : Nat) : ∀ (items : List (Option Pos × List Pt)) (G : Graph),
    (∀ it ∈ items, it.2 = []) → addSelfIntersectionItems idx items G = G
  | [], _, _ => rfl
  | (none, _) :: rest, G, h => by
      simp only [addSelfIntersectionItems]
      exact items_nil_noop idx rest G (fun it hit => h it (List.mem_cons_of_mem _ hit))
  | (some p, cs) :: rest, G, h => by
      have : cs = [] := h (some p, cs) (List.mem_cons_self ..)
      subst this
      simp only [addSelfIntersectionItems, addSelfIntersectionCoords]
      exact items_nil_noop idx rest G (fun it hit => h it (List.mem_cons_of_mem _ hit))

/-- if self-noding records nothing, the nodes are those of the built graph -/
theorem fresh_nodes_of_no_eis (ar : Arith) (idx : Nat) (g : Geom)
    (h : ∀ e ∈ (freshGraph ar idx g).edges, e.eis = []) :
    (freshGraph ar idx g).nodes = (buildGraph idx g).nodes := by
  rw [fresh_nodes, items_nil_noop]
  · rfl
  · intro it hit
    obtain ⟨e, he, rfl⟩ := List.mem_map.1 hit
    simp [h e he]

theorem buildGraph_lineString_edges (idx : Nat) (cs : List Pt) :
    (buildGraph idx (.lineString cs)).edges = [] ∨ ∃ e, (buildGraph idx (.lineString cs)).edges = [e] := by
  unfold buildGraph
  simp only [addGeometry]
  split
  · exact Or.inl rfl
  · unfold addLineString
    split
    · exact Or.inl rfl
    · exact Or.inl rfl
    · exact Or.inr ⟨_, rfl⟩

theorem fresh_closedLineString_no_eis (ar : Arith) (cs : List Pt) (hcl : isClosedLS cs = true) :
    ∀ e ∈ (freshGraph ar 1 (.lineString cs)).edges, e.eis = [] := by
  intro e he
  rw [fresh_edges] at he
  have hr : isRings (.lineString cs) = true := hcl
  rw [hr] at he
  rcases buildGraph_lineString_edges 1 cs with h0 | ⟨e0, h0⟩
  · rw [h0] at he
    simp [selfIntersections, allSegs, allSegsFrom, selfRows] at he
  · rw [h0] at he
    simp only [Bool.not_true, List.map_cons, List.map_nil] at he
    rw [selfIntersections_single_noCheck] at he
    simp only [List.mem_singleton] at he
    subst he
    rfl

end Geo.Proofs.RELM2

namespace Geo.Proofs.RELM2
open Geo Geo.GG Geo.RI Geo.Proofs.Spec Geo.Proofs.RELM Geo.Proofs.Kernel

theorem locate_closedLineString (cs : List Pt) (c : Pt) (hcl : isClosedLS cs = true)
    (hon : onAnySeg c (segs cs) = true) : locate (.lineString cs) c = .inside := by
  show locateParts ⟨[], [cs], []⟩ c = .inside
  rw [locateParts_linear_inside _ _ rfl rfl]
  refine ⟨by simpa [Parts.curveSegs] using hon, ?_⟩
  have hcl' : cs.head? = cs.getLast? := by simpa [isClosedLS] using hcl
  simp only [Geo.endpointCount, List.foldl_cons, List.foldl_nil]
  cases hh : cs.head? with
  | none => simp
  | some f => simp [← hcl', hh]

theorem nodesLocate_closedLineString (ar : Arith) (cs : List Pt) (hcl : isClosedLS cs = true) (hlen : cs.length ≠ 1) :
    NodesLocate ar (.lineString cs) := by
  intro n hn
  rw [fresh_nodes_of_no_eis ar 1 _ (fresh_closedLineString_no_eis ar cs hcl)] at hn
  have hcl' : cs.head? = cs.getLast? := by simpa [isClosedLS] using hcl
  unfold buildGraph at hn
  simp only [addGeometry] at hn
  split at hn
  · cases hn
  · unfold addLineString at hn
    split at hn
    · cases hn
    · rename_i c hd
      have hn' : n = ⟨c, Label.emptyLine.setOn 1 .inside⟩ := by simpa [addPoint, insertPoint, upsertNode, Graph.empty] using hn
      subst hn'
      have hon : onAnySeg c (segs cs) = true := by
        match cs, hd, hlen with
        | [], hd, _ => simp [dedup] at hd
        | [x], _, hlen => simp at hlen
        | x :: y :: t, hd, _ =>
          simp only [dedup, dedupFrom, List.cons.injEq] at hd
          obtain ⟨rfl, hd2⟩ := hd
          split at hd2
          · rename_i hy
            subst hy
            exact onAnySeg_of_mem_segs (a := y) (b := y) (List.mem_cons_self ..) (SegMem_left _ _)
          · cases hd2
      rw [locate_closedLineString cs c hcl hon]
      rfl
    · rename_i first rest hne hd
      simp only at hn
      have hlast : (first :: rest).getLast?.getD first = first := by
        rw [← hd, Geo.Proofs.RELM.dedup_getLast?, ← hcl', ← Geo.Proofs.C17L.dedup_head?, hd]
        rfl
      rw [hlast] at hn
      have hn' : n = ⟨first, boundaryUpdate 1 (boundaryUpdate 1 Label.emptyLine)⟩ := by
        simpa [insertEdge, insertBoundaryPoint, upsertNode, Graph.empty] using hn
      subst hn'
      have hmem : first ∈ cs := mem_of_mem_dedup cs first (by rw [hd]; exact List.mem_cons_self ..)
      have hl2 : 2 ≤ cs.length := by
        match cs, hmem, hlen with
        | [_], _, hlen => simp at hlen
        | _ :: _ :: _, _, _ => simp
      rw [locate_closedLineString cs first hcl (onAnySeg_of_mem cs first hmem hl2)]
      rfl

theorem eisAreNodes_closedLineString (ar : Arith) (cs : List Pt) (hcl : isClosedLS cs = true) :
    EisAreNodes ar (.lineString cs) := by
  intro e he r hr
  rw [fresh_closedLineString_no_eis ar cs hcl e he] at hr
  cases hr

end Geo.Proofs.RELM2
