/-
  Lemmas about the executable DE-9IM specification (GeoModel/RelateSpec.lean), part 4:
  swapping the operands transposes the matrix.
-/
import GeoModel.RelateSpec
import GeoProofs.Lemmas.SegmentSpec
import GeoProofs.Lemmas.LISpec
import GeoProofs.Props.C11
import GeoProofs.Lemmas.RelateSpecLemmas
import Mathlib.Data.List.Perm.Basic
import Mathlib.Tactic.Linarith
import Mathlib.Tactic.Ring
import Mathlib.Tactic.LinearCombination
import Mathlib.Tactic.Tauto

namespace Geo.Proofs.Spec
open Geo Geo.Proofs.Kernel

/-! ### `dedupPts` -/

theorem dedup_foldl_mem (l acc : List Pt) (x : Pt) :
    x ∈ l.foldl (fun acc p => if acc.any (· == p) then acc else p :: acc) acc ↔ x ∈ acc ∨ x ∈ l := by
  induction l generalizing acc with
  | nil => simp
  | cons a t ih =>
    rw [List.foldl_cons, ih]
    by_cases h : acc.any (· == a) = true
    · simp only [h, if_true, List.mem_cons]
      rw [List.any_eq_true] at h
      obtain ⟨y, hy, e⟩ := h
      rw [beq_iff_eq] at e
      constructor
      · rintro (g | g)
        · exact Or.inl g
        · exact Or.inr (Or.inr g)
      · rintro (g | g | g)
        · exact Or.inl g
        · exact Or.inl (g ▸ e ▸ hy)
        · exact Or.inr g
    · rw [Bool.not_eq_true] at h
      simp only [h, Bool.false_eq_true, if_false, List.mem_cons]
      tauto

theorem mem_dedupPts (l : List Pt) (x : Pt) : x ∈ dedupPts l ↔ x ∈ l := by
  unfold dedupPts; rw [dedup_foldl_mem]; simp

theorem dedup_foldl_nodup (l acc : List Pt) (h : acc.Nodup) :
    (l.foldl (fun acc p => if acc.any (· == p) then acc else p :: acc) acc).Nodup := by
  induction l generalizing acc with
  | nil => exact h
  | cons a t ih =>
    rw [List.foldl_cons]
    apply ih
    by_cases g : acc.any (· == a) = true
    · simp only [g, if_true]; exact h
    · have g' := g
      rw [Bool.not_eq_true] at g'
      simp only [g', Bool.false_eq_true, if_false]
      rw [List.any_eq_true] at g
      rw [List.nodup_cons]
      exact ⟨fun ha => g ⟨a, ha, by simp⟩, h⟩

theorem nodup_dedupPts (l : List Pt) : (dedupPts l).Nodup :=
  dedup_foldl_nodup l [] List.nodup_nil

/-! ### intersection vertices -/

theorem segVertex_symm (s t : Pt × Pt) : segVertex s t = segVertex t s := by
  have h := Geo.Proofs.C11.li_symm s.1 s.2 t.1 t.2
  unfold segVertex
  revert h
  cases lineIntersection s.1 s.2 t.1 t.2 with
  | none =>
    cases lineIntersection t.1 t.2 s.1 s.2 with
    | none => intro _; rfl
    | some r => cases r <;> simp [LIEquiv]
  | some r =>
    cases r with
    | single x f =>
      cases lineIntersection t.1 t.2 s.1 s.2 with
      | none => simp [LIEquiv]
      | some r' =>
        cases r' with
        | single y g => simp only [LIEquiv]; rintro ⟨rfl, _⟩; rfl
        | collinear _ _ => simp [LIEquiv]
    | collinear x y =>
      cases lineIntersection t.1 t.2 s.1 s.2 with
      | none => simp [LIEquiv]
      | some r' =>
        cases r' with
        | single y g => simp [LIEquiv]
        | collinear _ _ => intro _; rfl

theorem mem_pairVertices_append (A B : List (Pt × Pt)) (x : Pt) :
    x ∈ pairVertices (A ++ B) ↔
      x ∈ pairVertices A ∨ x ∈ pairVertices B ∨ ∃ s ∈ A, ∃ t ∈ B, x ∈ segVertex s t := by
  induction A with
  | nil => simp [pairVertices]
  | cons a A' ih =>
    simp only [List.cons_append, pairVertices, List.mem_append, List.flatMap_append, ih, List.mem_flatMap,
      List.mem_cons, exists_eq_or_imp]
    constructor
    · rintro ((h | h) | h | h | h)
      · exact Or.inl (Or.inl h)
      · exact Or.inr (Or.inr (Or.inl h))
      · exact Or.inl (Or.inr h)
      · exact Or.inr (Or.inl h)
      · exact Or.inr (Or.inr (Or.inr h))
    · rintro ((h | h) | h | h | h)
      · exact Or.inl (Or.inl h)
      · exact Or.inr (Or.inl h)
      · exact Or.inr (Or.inr (Or.inl h))
      · exact Or.inl (Or.inr h)
      · exact Or.inr (Or.inr (Or.inr h))

theorem mem_pairVertices_comm (A B : List (Pt × Pt)) (x : Pt) :
    x ∈ pairVertices (A ++ B) ↔ x ∈ pairVertices (B ++ A) := by
  rw [mem_pairVertices_append, mem_pairVertices_append]
  constructor
  · rintro (h | h | ⟨s, hs, t, ht, h⟩)
    · exact Or.inr (Or.inl h)
    · exact Or.inl h
    · exact Or.inr (Or.inr ⟨t, ht, s, hs, by rw [segVertex_symm]; exact h⟩)
  · rintro (h | h | ⟨s, hs, t, ht, h⟩)
    · exact Or.inr (Or.inl h)
    · exact Or.inl h
    · exact Or.inr (Or.inr ⟨t, ht, s, hs, by rw [segVertex_symm]; exact h⟩)

/-! ### sorting along a segment -/

theorem insertByDist_comm (a x y : Pt) (L : List Pt) (hxy : dist2 a x < dist2 a y) :
    insertByDist a x (insertByDist a y L) = insertByDist a y (insertByDist a x L) := by
  have n1 : ¬ dist2 a y ≤ dist2 a x := not_le.mpr hxy
  induction L with
  | nil => simp [insertByDist, hxy.le, n1]
  | cons q qs ih =>
    by_cases h1 : dist2 a x ≤ dist2 a q <;> by_cases h2 : dist2 a y ≤ dist2 a q
    · simp [insertByDist, h1, h2, hxy.le, n1]
    · simp [insertByDist, h1, h2, n1]
    · exact absurd (le_trans hxy.le h2) h1
    · simp [insertByDist, h1, h2, ih]

theorem insertByDist_comm' (a x y : Pt) (L : List Pt) (hxy : dist2 a x ≠ dist2 a y) :
    insertByDist a x (insertByDist a y L) = insertByDist a y (insertByDist a x L) := by
  rcases lt_or_gt_of_ne hxy with h | h
  · exact insertByDist_comm a x y L h
  · exact (insertByDist_comm a y x L h).symm

/-- list without duplicates on which the sort key is injective -/
def Good (a : Pt) (l : List Pt) : Prop :=
  l.Nodup ∧ ∀ u ∈ l, ∀ v ∈ l, dist2 a u = dist2 a v → u = v

theorem Good.perm {a : Pt} {l l' : List Pt} (h : l.Perm l') (g : Good a l) : Good a l' :=
  ⟨h.nodup_iff.mp g.1, fun u hu v hv e => g.2 u (h.mem_iff.mpr hu) v (h.mem_iff.mpr hv) e⟩

theorem Good.tail {a x : Pt} {l : List Pt} (g : Good a (x :: l)) : Good a l :=
  ⟨(List.nodup_cons.mp g.1).2, fun u hu v hv e => g.2 u (List.mem_cons_of_mem _ hu) v (List.mem_cons_of_mem _ hv) e⟩

/-- The sorted list of the vertices on a segment is determined by their set. -/
theorem sortByDist_perm (a : Pt) {l l' : List Pt} (h : l.Perm l') (g : Good a l) :
    sortByDist a l = sortByDist a l' := by
  induction h with
  | nil => rfl
  | cons x _ ih =>
    simp only [sortByDist, List.foldr_cons] at ih ⊢
    rw [ih g.tail]
  | swap x y l =>
    simp only [sortByDist, List.foldr_cons]
    apply insertByDist_comm'
    intro e
    have hne : y ≠ x := (List.nodup_cons.mp g.1).1 ∘ (fun e => by simp [e])
    exact hne (g.2 y (by simp) x (by simp) e)
  | trans h1 _ ih1 ih2 => rw [ih1 g, ih2 (g.perm h1)]

/-- distinct points of a segment are at distinct distances from its start -/
theorem dist2_inj_on_seg {a b u v : Pt} (hab : a ≠ b) (hu : SegMem u a b) (hv : SegMem v a b)
    (h : dist2 a u = dist2 a v) : u = v := by
  obtain ⟨t, t0, _, ux, uy⟩ := hu
  obtain ⟨t', t0', _, vx, vy⟩ := hv
  have hL : 0 < (b.x - a.x) * (b.x - a.x) + (b.y - a.y) * (b.y - a.y) := by
    by_contra hc
    have h1 := mul_self_nonneg (b.x - a.x)
    have h2 := mul_self_nonneg (b.y - a.y)
    have e1 : (b.x - a.x) * (b.x - a.x) = 0 := by linarith
    have e2 : (b.y - a.y) * (b.y - a.y) = 0 := by linarith
    have e1' := mul_self_eq_zero.mp e1
    have e2' := mul_self_eq_zero.mp e2
    exact hab (Pt.ext' (by linarith) (by linarith))
  unfold dist2 at h
  rw [ux, uy, vx, vy] at h
  have key : (t - t') * ((t + t') * ((b.x - a.x) * (b.x - a.x) + (b.y - a.y) * (b.y - a.y))) = 0 := by
    linear_combination h
  have ht : t = t' := by
    rcases mul_eq_zero.mp key with k | k
    · linarith
    · rcases mul_eq_zero.mp k with k | k
      · linarith
      · exact absurd k (ne_of_gt hL)
  apply Pt.ext'
  · rw [ux, vx, ht]
  · rw [uy, vy, ht]

theorem good_filter_on_seg {a b : Pt} (hab : a ≠ b) {verts : List Pt} (hn : verts.Nodup) :
    Good a (verts.filter (fun v => lineCoord a b v)) := by
  refine ⟨List.Nodup.sublist List.filter_sublist hn, ?_⟩
  intro u hu v hv e
  rw [List.mem_filter] at hu hv
  exact dist2_inj_on_seg hab ((lineCoord_iff _ _ _).mp hu.2) ((lineCoord_iff _ _ _).mp hv.2) e

/-! ### the atoms of one segment -/

/-- `segAtoms` depends on the vertex list only through its set (for duplicate-free lists). -/
theorem segAtoms_congr (pa pb : Parts) {verts verts' : List Pt} (h : verts.Perm verts') (hn : verts.Nodup)
    (s : Pt × Pt) : segAtoms pa pb verts s = segAtoms pa pb verts' s := by
  obtain ⟨a, b⟩ := s
  simp only [segAtoms]
  by_cases hab : (a == b) = true
  · simp [hab]
  · have hab' : a ≠ b := fun e => hab (by simp [e])
    rw [sortByDist_perm a (h.filter _) (good_filter_on_seg hab' hn)]

theorem segAtoms_swap (pa pb : Parts) (verts : List Pt) (s : Pt × Pt) :
    segAtoms pb pa verts s = (segAtoms pa pb verts s).map swapAB := by
  obtain ⟨a, b⟩ := s
  simp only [segAtoms]
  by_cases hab : (a == b) = true
  · simp [hab]
  · rw [Bool.not_eq_true] at hab
    simp only [hab, Bool.false_eq_true, if_false, List.map_flatMap]
    congr 1
    funext ⟨u, v⟩
    by_cases huv : (u == v) = true
    · simp [huv]
    · simp [huv, swapAB]

/-! ### the atom list of `relateParts` -/

def endsOf (ss : List (Pt × Pt)) : List Pt := ss.flatMap (fun s => [s.1, s.2])

def singleOf : List Pt → List Pt
  | [p] => [p]
  | _ => []

/-- the vertex list of `relateParts` -/
def vertsOf (pa pb : Parts) : List Pt :=
  dedupPts (endsOf (pa.allSegs ++ pb.allSegs) ++
    (pa.curves ++ pb.curves ++ (pa.areas ++ pb.areas).flatMap Poly.rings).flatMap singleOf ++
    pa.pts ++ pb.pts ++ pairVertices (pa.allSegs ++ pb.allSegs))

/-- the atom list of `relateParts` -/
def atomsOf (pa pb : Parts) : List Atom :=
  (vertsOf pa pb).map (fun v => ⟨.zero, locateParts pa v, locateParts pb v⟩) ++
    (pa.allSegs ++ pb.allSegs).flatMap (segAtoms pa pb (vertsOf pa pb))

/-- `relateParts` is the maximum over its atoms, then `EE = 2`. -/
theorem relateParts_eq (pa pb : Parts) :
    relateParts pa pb = (fold (atomsOf pa pb)).set .outside .outside .two := rfl

theorem mem_vertsOf_comm (pa pb : Parts) (x : Pt) : x ∈ vertsOf pa pb ↔ x ∈ vertsOf pb pa := by
  unfold vertsOf
  rw [mem_dedupPts, mem_dedupPts]
  have hp := mem_pairVertices_comm pa.allSegs pb.allSegs x
  simp only [endsOf, List.flatMap_append, List.mem_append] at hp ⊢
  tauto

theorem vertsOf_perm (pa pb : Parts) : (vertsOf pa pb).Perm (vertsOf pb pa) :=
  (List.perm_ext_iff_of_nodup (nodup_dedupPts _) (nodup_dedupPts _)).mpr (mem_vertsOf_comm pa pb)

/-- the atoms of `(B, A)` are, as a set, the atoms of `(A, B)` with the two positions exchanged -/
theorem mem_atomsOf_swap (pa pb : Parts) (x : Atom) :
    x ∈ atomsOf pb pa ↔ x ∈ (atomsOf pa pb).map swapAB := by
  have hv := vertsOf_perm pb pa
  have hs : ∀ s, segAtoms pb pa (vertsOf pb pa) s = (segAtoms pa pb (vertsOf pa pb) s).map swapAB := by
    intro s
    rw [segAtoms_congr pb pa hv (nodup_dedupPts _), segAtoms_swap]
  unfold atomsOf
  simp only [List.map_append, List.mem_append, List.map_map, List.map_flatMap, List.mem_flatMap, List.mem_map, hs]
  constructor
  · rintro (⟨v, hv', e⟩ | ⟨s, hs', h⟩)
    · exact Or.inl ⟨v, hv.mem_iff.mp hv', e⟩
    · exact Or.inr ⟨s, hs'.symm, h⟩
  · rintro (⟨v, hv', e⟩ | ⟨s, hs', h⟩)
    · exact Or.inl ⟨v, hv.mem_iff.mpr hv', e⟩
    · exact Or.inr ⟨s, hs'.symm, h⟩

/-- **Transposition**: relating the operands in the other order transposes the matrix. -/
theorem relateParts_transpose (pa pb : Parts) : relateParts pb pa = (relateParts pa pb).transpose := by
  rw [relateParts_eq, relateParts_eq, set_transpose, ← fold_swap]
  rw [fold_mem_congr (mem_atomsOf_swap pa pb)]

end Geo.Proofs.Spec
