/-
  MONO2 (C10, builder of the monotone pieces): the chain operations of `process_next_pt` (steps 3 to 5) keep every
  chain lexicographically increasing when the chain references of the segments it reads are owned (`HP`).
  Part A: the primitive operations, `reduceIncoming`, `lastIdx`.
-/
import GeoProofs.Lemmas.MONO2Defs

namespace Geo.Proofs.MONO2
open Geo Geo.Mono Geo.MonoBuild Geo.Proofs.C10 Geo.Proofs.MONO

theorem chainAt_eq {st : St} {k : Nat} {c : List Pt} : chainAt st k = some c ↔ st.chains[k]? = some (some c) := by
  constructor
  · intro h
    unfold chainAt at h
    split at h
    · cases h; assumption
    · cases h
  · intro h
    unfold chainAt; rw [h]

theorem chainAt_lt {st : St} {k : Nat} {c : List Pt} (h : chainAt st k = some c) : k < st.chains.length :=
  (List.getElem?_eq_some_iff.1 (chainAt_eq.1 h)).1

theorem chainAt_set_ne (st : St) (i k : Nat) (x : ChainSlot) (h : k ≠ i) :
    chainAt { st with chains := st.chains.set i x } k = chainAt st k := by
  unfold chainAt
  simp only
  rw [List.getElem?_set_ne (Ne.symm h)]

theorem chainAt_set_none (st : St) (i : Nat) : chainAt { st with chains := st.chains.set i none } i = none := by
  unfold chainAt
  simp only
  rw [List.getElem?_set]
  by_cases h : i < st.chains.length <;> simp [h]

theorem chainAt_set_some (st : St) (i : Nat) (c : List Pt) (hi : i < st.chains.length) :
    chainAt { st with chains := st.chains.set i (some c) } i = some c := by
  unfold chainAt
  simp only
  rw [List.getElem?_set]
  simp [hi]

/-- the strict chain invariant gives the weak one -/
def CW (pt : Pt) (st : St) : Prop :=
  ∀ k ch, chainAt st k = some ch →
    lexSorted ch = true ∧ 2 ≤ ch.length ∧ ∀ q ∈ ch.dropLast, lexLt pt q = false

def TipLt (pt : Pt) (st : St) (k : Nat) : Prop :=
  ∀ ch t, chainAt st k = some ch → ch.getLast? = some t → lexLt t pt = true

def TipIs (pt : Pt) (st : St) (k : Nat) : Prop :=
  ∀ ch, chainAt st k = some ch → ch.getLast? = some pt

/-- `st'` has the live chains of `st` or fewer -/
def Sub (st st' : St) : Prop := ∀ k c, chainAt st' k = some c → chainAt st k = some c

theorem CB.sub {pt : Pt} {st st' : St} (h : CB pt st) (hs : Sub st st') : CB pt st' :=
  fun k c hc => h k c (hs k c hc)

theorem TipLt.sub {pt : Pt} {st st' : St} {k : Nat} (h : TipLt pt st k) (hs : Sub st st') : TipLt pt st' k :=
  fun c t hc => h c t (hs k c hc)

theorem TipIs.sub {pt : Pt} {st st' : St} {k : Nat} (h : TipIs pt st k) (hs : Sub st st') : TipIs pt st' k :=
  fun c hc => h c (hs k c hc)

theorem mem_body_or_tip {c : List Pt} {q : Pt} (hq : q ∈ c) : q ∈ c.dropLast ∨ c.getLast? = some q := by
  have hne : c ≠ [] := List.ne_nil_of_mem hq
  have := List.dropLast_concat_getLast hne
  rw [← this] at hq
  rcases List.mem_append.1 hq with g | g
  · exact Or.inl g
  · right
    simp only [List.mem_singleton] at g
    rw [List.getLast?_eq_some_getLast hne, g]

theorem dropLast_concat' (c : List Pt) (p : Pt) : (c ++ [p]).dropLast = c := by simp

/-! ### the primitive operations -/

theorem takeChain_eq {st st' : St} {i : Nat} {c : List Pt} (h : st.takeChain i = some (c, st')) :
    chainAt st i = some c ∧ st' = { st with chains := st.chains.set i none } := by
  unfold St.takeChain at h
  split at h
  · rename_i c0 hc
    simp only [Option.some.injEq, Prod.mk.injEq] at h
    obtain ⟨h1, h2⟩ := h
    subst h1
    exact ⟨chainAt_eq.2 hc, h2.symm⟩
  · cases h

theorem takeChain_sub {st st' : St} {i : Nat} {c : List Pt} (h : st.takeChain i = some (c, st')) :
    Sub st st' ∧ st'.segs = st.segs ∧ st'.chains.length = st.chains.length ∧ st'.outputs = st.outputs := by
  obtain ⟨_, e⟩ := takeChain_eq h
  subst e
  refine ⟨?_, rfl, by simp, rfl⟩
  intro k c' hc'
  by_cases hk : k = i
  · subst hk; rw [chainAt_set_none] at hc'; cases hc'
  · rw [chainAt_set_ne _ _ _ _ hk] at hc'; exact hc'

theorem pushChain_eq {st st' : St} {i : Nat} {p : Pt} (h : st.pushChain i p = some st') :
    ∃ c, chainAt st i = some c ∧ st' = { st with chains := st.chains.set i (some (c ++ [p])) } := by
  unfold St.pushChain St.modifyChain at h
  split at h
  · rename_i c hc
    simp only [Option.some.injEq] at h
    exact ⟨c, chainAt_eq.2 hc, h.symm⟩
  · cases h

theorem setInfo_eq {st st' : St} {i : Nat} {f : Info → Info} (h : st.setInfo i f = some st') :
    ∃ s, st.segs[i]? = some s ∧ st' = { st with segs := st.segs.set i { s with info := f s.info } } := by
  unfold St.setInfo at h
  split at h
  · rename_i s hs
    simp only [Option.some.injEq] at h
    exact ⟨s, hs, h.symm⟩
  · cases h

theorem setInfo_chainAt {st st' : St} {i : Nat} {f : Info → Info} (h : st.setInfo i f = some st') (k : Nat) :
    chainAt st' k = chainAt st k := by
  obtain ⟨s, _, e⟩ := setInfo_eq h
  subst e; rfl

/-- pushing the current point onto a chain whose tip lies strictly before it -/
theorem push_cb {pt : Pt} {st st' : St} {k : Nat} (hcb : CB pt st) (ht : TipLt pt st k)
    (h : st.pushChain k pt = some st') :
    CB pt st' ∧ TipIs pt st' k ∧ (∀ j, j ≠ k → chainAt st' j = chainAt st j) ∧ st'.segs = st.segs ∧
      st'.chains.length = st.chains.length ∧ st'.outputs = st.outputs := by
  obtain ⟨c, hc, e⟩ := pushChain_eq h
  subst e
  have hk := chainAt_lt hc
  obtain ⟨s1, s2, s3⟩ := hcb k c hc
  refine ⟨?_, ?_, fun j hj => chainAt_set_ne _ _ _ _ hj, rfl, by simp, rfl⟩
  · intro j c' hc'
    by_cases hj : j = k
    · subst hj
      rw [chainAt_set_some _ _ _ hk] at hc'
      cases hc'
      refine ⟨lexSorted_append c pt s1 (fun t ht' => ht c t hc ht'), by simp; omega, ?_⟩
      rw [dropLast_concat']
      intro q hq
      rcases mem_body_or_tip hq with g | g
      · exact s3 q g
      · exact ht c q hc g
    · rw [chainAt_set_ne _ _ _ _ hj] at hc'
      exact hcb j c' hc'
  · intro c' hc'
    rw [chainAt_set_some _ _ _ hk] at hc'
    cases hc'
    simp

/-- pushing a coordinate after the current point onto a chain whose tip is the current point -/
theorem push_cw {pt r : Pt} {st st' : St} {k : Nat} (hcw : CW pt st) (ht : TipIs pt st k) (hr : lexLt pt r = true)
    (h : st.pushChain k r = some st') :
    CW pt st' ∧ (∀ j, j ≠ k → chainAt st' j = chainAt st j) ∧ st'.segs = st.segs ∧
      st'.chains.length = st.chains.length ∧ st'.outputs = st.outputs := by
  obtain ⟨c, hc, e⟩ := pushChain_eq h
  subst e
  have hk := chainAt_lt hc
  obtain ⟨s1, s2, s3⟩ := hcw k c hc
  refine ⟨?_, fun j hj => chainAt_set_ne _ _ _ _ hj, rfl, by simp, rfl⟩
  intro j c' hc'
  by_cases hj : j = k
  · subst hj
    rw [chainAt_set_some _ _ _ hk] at hc'
    cases hc'
    refine ⟨lexSorted_append c r s1 (fun t ht' => ?_), by simp; omega, ?_⟩
    · have := ht c hc
      rw [this] at ht'; cases ht'; exact hr
    · rw [dropLast_concat']
      intro q hq
      rcases mem_body_or_tip hq with g | g
      · exact s3 q g
      · have := ht c hc
        rw [this] at g; cases g; exact lexLt_irrefl _
  · rw [chainAt_set_ne _ _ _ _ hj] at hc'
    exact hcw j c' hc'

theorem CB.cw {pt : Pt} {st : St} (h : CB pt st) : CW pt st := by
  intro k c hc
  obtain ⟨a, b, d⟩ := h k c hc
  exact ⟨a, b, fun q hq => lexLt_asymm (d q hq)⟩

/-- a taken chain extended by the current point -/
theorem sorted_concat_pt {pt : Pt} {st : St} {k : Nat} {c : List Pt} (hcb : CB pt st) (ht : TipLt pt st k)
    (hc : chainAt st k = some c) : lexSorted (c ++ [pt]) = true ∧ 2 ≤ (c ++ [pt]).length := by
  obtain ⟨s1, s2, _⟩ := hcb k c hc
  exact ⟨lexSorted_append c pt s1 (fun t ht' => ht c t hc ht'), by simp; omega⟩

/-! ### ownership of the references of the segments in `S` -/

/-- the chain references of the segments in `S` are below `n`, pairwise different, the `help` ones are closed; the
chain of every segment in `I` has its tip at `pt` -/
structure HP (pt : Pt) (I S : List Nat) (n : Nat) (st : St) : Prop where
  lt : ∀ i ∈ S, ∀ s a k, st.segs[i]? = some s → refOf s.info a = some k → k < n
  inj : ∀ i ∈ S, ∀ j ∈ S, ∀ s t a b k, st.segs[i]? = some s → st.segs[j]? = some t →
    refOf s.info a = some k → refOf t.info b = some k → i = j ∧ a = b
  cl : ∀ i ∈ S, ∀ s a k, st.segs[i]? = some s → a ≠ 0 → refOf s.info a = some k → TipLt pt st k
  t0 : ∀ i ∈ I, ∀ s, st.segs[i]? = some s → TipIs pt st s.info.chainIdx

/-- the payloads of `st'` reference what the payloads of `st` reference, or less -/
def InfoSub (st st' : St) : Prop :=
  ∀ (i : Nat) (s' : Seg), st'.segs[i]? = some s' → ∃ s : Seg, st.segs[i]? = some s ∧ s'.line = s.line ∧
    s'.info.chainIdx = s.info.chainIdx ∧ (s'.info.help = s.info.help ∨ s'.info.help = none)

theorem InfoSub.refl (st : St) : InfoSub st st := fun _ s h => ⟨s, h, rfl, rfl, Or.inl rfl⟩

theorem InfoSub.trans {a b c : St} (h1 : InfoSub a b) (h2 : InfoSub b c) : InfoSub a c := by
  intro i s hs
  obtain ⟨s1, e1, l1, c1, p1⟩ := h2 i s hs
  obtain ⟨s2, e2, l2, c2, p2⟩ := h1 i s1 e1
  refine ⟨s2, e2, by rw [l1, l2], by rw [c1, c2], ?_⟩
  rcases p1 with p1 | p1
  · rcases p2 with p2 | p2
    · left; rw [p1, p2]
    · right; rw [p1, p2]
  · right; exact p1

theorem infoSub_of_segs {st st' : St} (h : st'.segs = st.segs) : InfoSub st st' := by
  intro i s hs; rw [h] at hs; exact ⟨s, hs, rfl, rfl, Or.inl rfl⟩

theorem refOf_sub {s s' : Seg} (hc : s'.info.chainIdx = s.info.chainIdx)
    (hh : s'.info.help = s.info.help ∨ s'.info.help = none) {a k : Nat} (h : refOf s'.info a = some k) :
    refOf s.info a = some k := by
  match a with
  | 0 => simp only [refOf, Option.some.injEq] at h ⊢; rw [← hc]; exact h
  | 1 =>
    simp only [refOf] at h ⊢
    rcases hh with hh | hh
    · rw [← hh]; exact h
    · rw [hh] at h; cases h
  | 2 =>
    simp only [refOf] at h ⊢
    rcases hh with hh | hh
    · rw [← hh]; exact h
    · rw [hh] at h; cases h
  | n + 3 => simp [refOf] at h

theorem HP.shrink {pt : Pt} {I S : List Nat} {n : Nat} {st st' : St} (h : HP pt I S n st)
    (hi : InfoSub st st') (hs : Sub st st') : HP pt I S n st' := by
  refine ⟨?_, ?_, ?_, ?_⟩
  · intro i hiS s' a k hs' hr
    obtain ⟨s, e, _, c, p⟩ := hi i s' hs'
    exact h.lt i hiS s a k e (refOf_sub c p hr)
  · intro i hiS j hjS s' t' a b k hs' ht' hr hr'
    obtain ⟨s, e, _, c, p⟩ := hi i s' hs'
    obtain ⟨t, e', _, c', p'⟩ := hi j t' ht'
    exact h.inj i hiS j hjS s t a b k e e' (refOf_sub c p hr) (refOf_sub c' p' hr')
  · intro i hiS s' a k hs' ha hr
    obtain ⟨s, e, _, c, p⟩ := hi i s' hs'
    exact (h.cl i hiS s a k e ha (refOf_sub c p hr)).sub hs
  · intro i hiI s' hs'
    obtain ⟨s, e, _, c, p⟩ := hi i s' hs'
    rw [c]
    exact (h.t0 i hiI s e).sub hs

theorem setInfo_help_none {st st' : St} {i : Nat} (h : st.setInfo i (fun i => { i with help := none }) = some st') :
    InfoSub st st' ∧ Sub st st' ∧ st'.chains = st.chains ∧ st'.outputs = st.outputs := by
  obtain ⟨s, hs, e⟩ := setInfo_eq h
  subst e
  refine ⟨?_, fun k c hc => hc, rfl, rfl⟩
  intro j s' hs'
  simp only at hs'
  rw [List.getElem?_set] at hs'
  by_cases hj : i = j
  · subst hj
    have : i < st.segs.length := (List.getElem?_eq_some_iff.1 hs).1
    simp only [this, if_true] at hs'
    cases hs'
    exact ⟨s, hs, rfl, rfl, Or.inr rfl⟩
  · simp only [hj, if_false] at hs'
    exact ⟨s', hs', rfl, rfl, Or.inl rfl⟩

theorem infoOf_seg {st : St} {i : Nat} {inf : Info} (h : st.infoOf i = some inf) :
    ∃ s, st.segs[i]? = some s ∧ s.info = inf := by
  unfold St.infoOf at h
  cases hs : st.segs[i]? with
  | none => rw [hs] at h; cases h
  | some s => rw [hs] at h; simp only [Option.map_some, Option.some.injEq] at h; exact ⟨s, rfl, h⟩

/-- the summary of a run of chain operations that only takes chains, clears `help` cells and emits pieces -/
structure Shr (st st' : St) : Prop where
  sub : Sub st st'
  info : InfoSub st st'
  len : st'.chains.length = st.chains.length
  outs : ∀ m ∈ st'.outputs, m ∈ st.outputs ∨ wellFormed m = true

theorem Shr.refl (st : St) : Shr st st := ⟨fun _ _ h => h, InfoSub.refl _, rfl, fun _ h => Or.inl h⟩

theorem Shr.trans {a b c : St} (h1 : Shr a b) (h2 : Shr b c) : Shr a c :=
  ⟨fun k x hx => h1.sub k x (h2.sub k x hx), h1.info.trans h2.info, by rw [h2.len, h1.len], fun m hm => by
    rcases h2.outs m hm with g | g
    · exact h1.outs m g
    · exact Or.inr g⟩

theorem takeChain_shr {st st' : St} {i : Nat} {c : List Pt} (h : st.takeChain i = some (c, st')) : Shr st st' := by
  obtain ⟨a, b, d, e⟩ := takeChain_sub h
  exact ⟨a, infoSub_of_segs b, d, fun m hm => Or.inl (by rw [e] at hm; exact hm)⟩

theorem setInfo_help_shr {st st' : St} {i : Nat} (h : st.setInfo i (fun i => { i with help := none }) = some st') :
    Shr st st' := by
  obtain ⟨a, b, d, e⟩ := setInfo_help_none h
  exact ⟨b, a, by rw [d], fun m hm => Or.inl (by rw [e] at hm; exact hm)⟩

theorem outputs_shr (st : St) (ms : List MonoPoly) (h : ∀ m ∈ ms, wellFormed m = true) :
    Shr st { st with outputs := st.outputs ++ ms } :=
  ⟨fun _ _ h => h, InfoSub.refl _, rfl, fun m hm => by
    rcases List.mem_append.1 hm with g | g
    · exact Or.inl g
    · exact Or.inr (h m g)⟩

/-! ### Step 3: `reduceIncoming` -/

theorem reduceIncoming_shr (pt : Pt) (I S : List Nat) (n : Nat) (hIS : ∀ i ∈ I, i ∈ S) :
    ∀ (l : List Nat) (st st' : St), (∀ x ∈ l, x ∈ I) → CB pt st → HP pt I S n st →
    reduceIncoming pt l st = some st' → Shr st st'
  | [], st, st', _, _, _, h => by
    simp only [reduceIncoming] at h; cases h; exact Shr.refl _
  | [_], st, st', _, _, _, h => by
    simp only [reduceIncoming] at h; cases h
  | first :: second :: rest, st, st', hl, hcb, hp, h => by
    simp only [reduceIncoming] at h
    have hfI : first ∈ I := hl first (by simp)
    have hrest : ∀ x ∈ rest, x ∈ I := fun x hx => hl x (by simp [hx])
    osplit h
    rename_i fi si hfi hsi
    obtain ⟨sf, hsf, hsfi⟩ := infoOf_seg hfi
    osplit h
    rename_i fc st1 h1
    have r1 := takeChain_shr h1
    obtain ⟨hfc, _⟩ := takeChain_eq h1
    osplit h
    rename_i sc st2 h2
    have r2 := r1.trans (takeChain_shr h2)
    obtain ⟨hsc, _⟩ := takeChain_eq h2
    have wfc := hcb _ fc hfc
    have wsc := hcb _ sc (r1.sub _ _ hsc)
    osplit h
    · rename_i h0 h1' hh
      osplit h
      rename_i st3 h3
      have r3 := r2.trans (setInfo_help_shr h3)
      osplit h
      rename_i fhc st4 h4
      have r4 := r3.trans (takeChain_shr h4)
      obtain ⟨hfhc, _⟩ := takeChain_eq h4
      osplit h
      rename_i shc st5 h5
      have r5 := r4.trans (takeChain_shr h5)
      obtain ⟨hshc, _⟩ := takeChain_eq h5
      osplit h
      rename_i m1 m2 hm1 hm2
      -- the help chains are closed
      have c0 : TipLt pt st h0 := hp.cl first (hIS _ hfI) sf 1 h0 hsf (by decide) (by
        simp only [refOf]; rw [hsfi, hh]; rfl)
      have c1 : TipLt pt st h1' := hp.cl first (hIS _ hfI) sf 2 h1' hsf (by decide) (by
        simp only [refOf]; rw [hsfi, hh]; rfl)
      have e0 := sorted_concat_pt hcb c0 (r3.sub _ _ hfhc)
      have e1 := sorted_concat_pt hcb c1 (r4.sub _ _ hshc)
      have w1 := finishWith_wellFormed hm1 wfc.1 e0.1 wfc.2.1 e0.2
      have w2 := finishWith_wellFormed hm2 e1.1 wsc.1 e1.2 wsc.2.1
      have r6 := r5.trans (outputs_shr st5 [m1, m2] (by
        intro m hm
        simp only [List.mem_cons, List.not_mem_nil, or_false] at hm
        rcases hm with e | e <;> rw [e] <;> assumption))
      exact r6.trans (reduceIncoming_shr pt I S n hIS rest _ _ hrest (hcb.sub r6.sub) (hp.shrink r6.info r6.sub) h)
    · osplit h
      rename_i m hm
      have w := finishWith_wellFormed hm wfc.1 wsc.1 wfc.2.1 wsc.2.1
      have r6 := r2.trans (outputs_shr st2 [m] (by
        intro m' hm'
        simp only [List.mem_cons, List.not_mem_nil, or_false] at hm'
        rw [hm']; exact w))
      exact r6.trans (reduceIncoming_shr pt I S n hIS rest _ _ hrest (hcb.sub r6.sub) (hp.shrink r6.info r6.sub) h)

end Geo.Proofs.MONO2
