/-
  C02Z: a closed ring whose coordinates lie in a closed box winds only about perturbed points (face samples of the
  specification) that are inside the half-open box, in the lexicographic order of the symbolic infinitesimal:

      windingE p ring ≠ 0  ⇒  mn.y ≤ p.y < mx.y  ∧  mn.x ≤ p.x < mx.x                              (`windingE_box`)

  the non-strict (infinitesimal) versions of `windingE_above / below / right / left` of RelateSpecBBox, where the
  standard part of the point is strictly beyond the coordinates. Above and below every edge fails the level test; on
  the right every crossing edge has the wrong cross sign; on the left every crossing edge counts, and the sum
  telescopes on a closed ring.
-/
import GeoProofs.Lemmas.C02YRectWind
import Mathlib.Tactic.Linarith
import Mathlib.Tactic.Ring

set_option linter.unusedSimpArgs false
set_option linter.unusedVariables false

namespace Geo.Proofs.C02Z
open Geo Geo.Proofs.Kernel Geo.Proofs.Spec Geo.Proofs.Loc Geo.Proofs.C02Y

/-! ### the sign of the cross product from its two coefficients -/

theorem eCrossSign_nonpos {s e : Pt} {p : EPt}
    (h0 : (e.x - s.x) * (p.y0 - e.y) - (e.y - s.y) * (p.x0 - e.x) ≤ 0)
    (h1 : (e.x - s.x) * (p.y0 - e.y) - (e.y - s.y) * (p.x0 - e.x) = 0 →
      (e.x - s.x) * p.y1 - (e.y - s.y) * p.x1 ≤ 0) : eCrossSign s e p ≤ 0 := by
  unfold eCrossSign
  simp only
  generalize (e.x - s.x) * (p.y0 - e.y) - (e.y - s.y) * (p.x0 - e.x) = a at h0 h1
  generalize (e.x - s.x) * p.y1 - (e.y - s.y) * p.x1 = b at h1
  split_ifs with g1 g2 g3 g4
  · exact absurd g1 (not_lt.mpr h0)
  · decide
  · exact absurd g3 (not_lt.mpr (h1 (le_antisymm h0 (not_lt.mp g2))))
  · decide
  · decide

theorem eCrossSign_one {s e : Pt} {p : EPt}
    (h0 : 0 ≤ (e.x - s.x) * (p.y0 - e.y) - (e.y - s.y) * (p.x0 - e.x))
    (h1 : (e.x - s.x) * (p.y0 - e.y) - (e.y - s.y) * (p.x0 - e.x) = 0 →
      0 < (e.x - s.x) * p.y1 - (e.y - s.y) * p.x1) : eCrossSign s e p = 1 := by
  unfold eCrossSign
  simp only
  generalize (e.x - s.x) * (p.y0 - e.y) - (e.y - s.y) * (p.x0 - e.x) = a at h0 h1
  generalize (e.x - s.x) * p.y1 - (e.y - s.y) * p.x1 = b at h1
  split_ifs with g1 g2 g3 g4
  · rfl
  · exact absurd g2 (not_lt.mpr h0)
  · rfl
  · exact absurd (h1 (le_antisymm (not_lt.mp g1) h0)) g3
  · exact absurd (h1 (le_antisymm (not_lt.mp g1) h0)) g3

/-! ### the two coefficients for an upward edge in range, the point beyond both end points -/

/-- the point at or right of both end points: `cross ≤ 0` -/
theorem right_core {sx sy ex ey x0 x1 y0 y1 k : Rat} (ha : 0 ≤ y0 - sy) (hb : 0 ≤ ey - y0) (hab : 0 < ey - sy)
    (ha0 : y0 = sy → 0 ≤ y1) (hb0 : y0 = ey → y1 < 0) (hs : sx ≤ k) (he : ex ≤ k) (hx : k ≤ x0)
    (hx1 : x0 = k → 0 ≤ x1) :
    (ex - sx) * (y0 - ey) - (ey - sy) * (x0 - ex) ≤ 0 ∧
    ((ex - sx) * (y0 - ey) - (ey - sy) * (x0 - ex) = 0 → (ex - sx) * y1 - (ey - sy) * x1 ≤ 0) := by
  have e0 : (ex - sx) * (y0 - ey) - (ey - sy) * (x0 - ex) =
      -((y0 - sy) * (x0 - ex)) - (ey - y0) * (x0 - sx) := by ring
  have p1 : 0 ≤ (y0 - sy) * (x0 - ex) := mul_nonneg ha (by linarith)
  have p2 : 0 ≤ (ey - y0) * (x0 - sx) := mul_nonneg hb (by linarith)
  rw [e0]
  refine ⟨by linarith, fun h0 => ?_⟩
  have q1 : (y0 - sy) * (x0 - ex) = 0 := by linarith
  have q2 : (ey - y0) * (x0 - sx) = 0 := by linarith
  rcases mul_eq_zero.mp q1 with a0 | u0
  · have hy : y0 = sy := by linarith
    have hb' : ey - y0 ≠ 0 := by intro g; linarith
    have v0 : x0 - sx = 0 := (mul_eq_zero.mp q2).resolve_left hb'
    have hk : x0 = k := by linarith
    have g1 := hx1 hk
    have g2 := ha0 hy
    have g3 := mul_nonneg (show 0 ≤ sx - ex by linarith) g2
    have g4 := mul_nonneg hab.le g1
    nlinarith
  · have hk : x0 = k := by linarith
    have g1 := hx1 hk
    have g4 := mul_nonneg hab.le g1
    rcases mul_eq_zero.mp q2 with b0 | v0
    · have hy : y0 = ey := by linarith
      have g2 := hb0 hy
      have g3 := mul_nonneg (show 0 ≤ ex - sx by linarith) (show 0 ≤ -y1 by linarith)
      nlinarith
    · have g5 : ex - sx = 0 := by linarith
      rw [g5]; linarith

/-- the point strictly (infinitesimally) left of both end points: `cross > 0` -/
theorem left_core {sx sy ex ey x0 x1 y0 y1 k : Rat} (ha : 0 ≤ y0 - sy) (hb : 0 ≤ ey - y0) (hab : 0 < ey - sy)
    (ha0 : y0 = sy → 0 ≤ y1) (hb0 : y0 = ey → y1 < 0) (hs : k ≤ sx) (he : k ≤ ex) (hx : x0 ≤ k)
    (hx1 : x0 = k → x1 < 0) :
    0 ≤ (ex - sx) * (y0 - ey) - (ey - sy) * (x0 - ex) ∧
    ((ex - sx) * (y0 - ey) - (ey - sy) * (x0 - ex) = 0 → 0 < (ex - sx) * y1 - (ey - sy) * x1) := by
  have e0 : (ex - sx) * (y0 - ey) - (ey - sy) * (x0 - ex) =
      (y0 - sy) * (ex - x0) + (ey - y0) * (sx - x0) := by ring
  have p1 : 0 ≤ (y0 - sy) * (ex - x0) := mul_nonneg ha (by linarith)
  have p2 : 0 ≤ (ey - y0) * (sx - x0) := mul_nonneg hb (by linarith)
  rw [e0]
  refine ⟨by linarith, fun h0 => ?_⟩
  have q1 : (y0 - sy) * (ex - x0) = 0 := by linarith
  have q2 : (ey - y0) * (sx - x0) = 0 := by linarith
  rcases mul_eq_zero.mp q1 with a0 | u0
  · have hy : y0 = sy := by linarith
    have hb' : ey - y0 ≠ 0 := by intro g; linarith
    have v0 : sx - x0 = 0 := (mul_eq_zero.mp q2).resolve_left hb'
    have hk : x0 = k := by linarith
    have g1 := hx1 hk
    have g2 := ha0 hy
    have g3 := mul_nonneg (show 0 ≤ ex - sx by linarith) g2
    have g4 := mul_pos hab (show 0 < -x1 by linarith)
    nlinarith
  · have hk : x0 = k := by linarith
    have g1 := hx1 hk
    have g4 := mul_pos hab (show 0 < -x1 by linarith)
    rcases mul_eq_zero.mp q2 with b0 | v0
    · have hy : y0 = ey := by linarith
      have g2 := hb0 hy
      have g3 := mul_nonneg (show 0 ≤ sx - ex by linarith) (show 0 ≤ -y1 by linarith)
      nlinarith
    · have g5 : ex - sx = 0 := by linarith
      rw [g5]; linarith

/-- an upward edge in range, in the lexicographic order -/
theorem up_facts {s e : Pt} {p : EPt} (h1 : eLe s.y 0 p.y0 p.y1 = true) (h2 : eLt p.y0 p.y1 e.y 0 = true) :
    0 ≤ p.y0 - s.y ∧ 0 ≤ e.y - p.y0 ∧ 0 < e.y - s.y ∧ (p.y0 = s.y → 0 ≤ p.y1) ∧ (p.y0 = e.y → p.y1 < 0) := by
  rw [eLe_iff] at h1; rw [eLt_iff] at h2
  rcases h1 with h1 | ⟨h1, h1'⟩ <;> rcases h2 with h2 | ⟨h2, h2'⟩ <;>
    refine ⟨by linarith, by linarith, by linarith, fun g => by linarith, fun g => by linarith⟩

theorem cross_up_right {s e : Pt} {p : EPt} {k : Rat} (h1 : eLe s.y 0 p.y0 p.y1 = true)
    (h2 : eLt p.y0 p.y1 e.y 0 = true) (hs : s.x ≤ k) (he : e.x ≤ k) (hp : ¬ ELt p.x0 p.x1 k 0) :
    eCrossSign s e p ≤ 0 := by
  obtain ⟨a, b, ab, a0, b0⟩ := up_facts h1 h2
  have hx : k ≤ p.x0 := by
    by_contra g; exact hp (Or.inl (not_le.mp g))
  have hx1 : p.x0 = k → 0 ≤ p.x1 := by
    intro g
    by_contra g'; exact hp (Or.inr ⟨g, not_le.mp g'⟩)
  obtain ⟨c0, c1⟩ := right_core a b ab a0 b0 hs he hx hx1
  exact eCrossSign_nonpos c0 c1

theorem cross_up_left {s e : Pt} {p : EPt} {k : Rat} (h1 : eLe s.y 0 p.y0 p.y1 = true)
    (h2 : eLt p.y0 p.y1 e.y 0 = true) (hs : k ≤ s.x) (he : k ≤ e.x) (hp : ELt p.x0 p.x1 k 0) :
    eCrossSign s e p = 1 := by
  obtain ⟨a, b, ab, a0, b0⟩ := up_facts h1 h2
  have hx : p.x0 ≤ k := by
    rcases hp with g | ⟨g, _⟩ <;> linarith
  have hx1 : p.x0 = k → p.x1 < 0 := by
    intro g
    rcases hp with g' | ⟨_, g'⟩
    · linarith
    · exact g'
  obtain ⟨c0, c1⟩ := left_core a b ab a0 b0 hs he hx hx1
  exact eCrossSign_one c0 c1

/-! ### one edge -/

/-- both end points at or below `k`, the point at or above `k` -/
theorem edgeW_aboveE (p : EPt) (s e : Pt) {k : Rat} (hs : s.y ≤ k) (he : e.y ≤ k) (hp : ELe k 0 p.y0 p.y1) :
    edgeW p (s, e) = 0 := by
  simp only [edgeW]
  have h1 : eLe s.y 0 p.y0 p.y1 = true := (eLe_iff' _ _ _ _).mpr (ELe_of_le hs hp)
  have h2 : ¬ eLt p.y0 p.y1 e.y 0 = true := by
    intro g
    exact (ELt_iff_not_ELe _ _ _ _).mp (ELt_of_le he ((eLt_iff' _ _ _ _).mp g)) hp
  simp [h1, h2]

/-- both end points at or above `k`, the point below `k` -/
theorem edgeW_belowE (p : EPt) (s e : Pt) {k : Rat} (hs : k ≤ s.y) (he : k ≤ e.y) (hp : ELt p.y0 p.y1 k 0) :
    edgeW p (s, e) = 0 := by
  simp only [edgeW]
  have hk : ¬ ELe k 0 p.y0 p.y1 := (ELt_iff_not_ELe _ _ _ _).mp hp
  have h1 : ¬ eLe s.y 0 p.y0 p.y1 = true := fun g => hk (ELe_of_le hs ((eLe_iff' _ _ _ _).mp g))
  have h2 : ¬ eLe e.y 0 p.y0 p.y1 = true := fun g => hk (ELe_of_le he ((eLe_iff' _ _ _ _).mp g))
  simp [h1, h2]

/-- both end points at or left of `k`, the point at or right of `k` -/
theorem edgeW_rightE (p : EPt) (s e : Pt) {k : Rat} (hs : s.x ≤ k) (he : e.x ≤ k) (hp : ¬ ELt p.x0 p.x1 k 0) :
    edgeW p (s, e) = 0 := by
  simp only [edgeW]
  by_cases h1 : eLe s.y 0 p.y0 p.y1 = true
  · by_cases h2 : eLt p.y0 p.y1 e.y 0 = true
    · have hc := cross_up_right h1 h2 hs he hp
      have hc' : ¬ eCrossSign s e p > 0 := by omega
      simp [h1, h2, hc']
    · simp [h1, h2]
  · by_cases h2 : eLe e.y 0 p.y0 p.y1 = true
    · have h1' : eLt p.y0 p.y1 s.y 0 = true := (eLt_iff_not_eLe _ _ _ _).mpr h1
      have hc := cross_up_right h2 h1' he hs hp
      rw [eCrossSign_swap s e p] at hc
      have hc' : ¬ eCrossSign s e p < 0 := by omega
      simp [h1, h2, hc']
    · simp [h1, h2]

/-- both end points at or right of `k`, the point left of `k`: upward crossings count `+1`, downward `-1` -/
theorem edgeW_leftE (p : EPt) (s e : Pt) {k : Rat} (hs : k ≤ s.x) (he : k ≤ e.x) (hp : ELt p.x0 p.x1 k 0) :
    edgeW p (s, e) = lvl p e - lvl p s := by
  simp only [edgeW, lvl]
  by_cases h1 : eLe s.y 0 p.y0 p.y1 = true
  · by_cases h2 : eLt p.y0 p.y1 e.y 0 = true
    · have hc := cross_up_left h1 h2 hs he hp
      have h2' : ¬ eLe e.y 0 p.y0 p.y1 = true := (eLt_iff_not_eLe _ _ _ _).mp h2
      rw [hc]; simp [h1, h2, h2']
    · have h2' : eLe e.y 0 p.y0 p.y1 = true := by
        by_contra hc; exact h2 ((eLt_iff_not_eLe _ _ _ _).mpr hc)
      simp [h1, h2, h2']
  · by_cases h2 : eLe e.y 0 p.y0 p.y1 = true
    · have h1' : eLt p.y0 p.y1 s.y 0 = true := (eLt_iff_not_eLe _ _ _ _).mpr h1
      have hc := cross_up_left h2 h1' he hs hp
      rw [eCrossSign_swap s e p] at hc
      have hc' : eCrossSign s e p = -1 := by omega
      rw [hc']; simp [h1, h2]
    · simp [h1, h2]

/-! ### whole rings -/

theorem windingE_aboveE (p : EPt) (ring : List Pt) {k : Rat} (h : ∀ c ∈ ring, c.y ≤ k) (hp : ELe k 0 p.y0 p.y1) :
    windingE p ring = 0 := by
  rw [windingE_eq_wsum]
  apply wsum_zero
  rintro ⟨s, e⟩ hs
  obtain ⟨h1, h2⟩ := mem_of_mem_segs hs
  exact edgeW_aboveE p s e (h s h1) (h e h2) hp

theorem windingE_belowE (p : EPt) (ring : List Pt) {k : Rat} (h : ∀ c ∈ ring, k ≤ c.y) (hp : ELt p.y0 p.y1 k 0) :
    windingE p ring = 0 := by
  rw [windingE_eq_wsum]
  apply wsum_zero
  rintro ⟨s, e⟩ hs
  obtain ⟨h1, h2⟩ := mem_of_mem_segs hs
  exact edgeW_belowE p s e (h s h1) (h e h2) hp

theorem windingE_rightE (p : EPt) (ring : List Pt) {k : Rat} (h : ∀ c ∈ ring, c.x ≤ k)
    (hp : ¬ ELt p.x0 p.x1 k 0) : windingE p ring = 0 := by
  rw [windingE_eq_wsum]
  apply wsum_zero
  rintro ⟨s, e⟩ hs
  obtain ⟨h1, h2⟩ := mem_of_mem_segs hs
  exact edgeW_rightE p s e (h s h1) (h e h2) hp

theorem windingE_leftE (p : EPt) (ring : List Pt) (hc : ring.head? = ring.getLast?) {k : Rat}
    (h : ∀ c ∈ ring, k ≤ c.x) (hp : ELt p.x0 p.x1 k 0) : windingE p ring = 0 := by
  rw [windingE_eq_wsum]
  cases ring with
  | nil => rfl
  | cons a t =>
    rw [wsum_telescope p (lvl p) a t]
    · rw [List.head?_cons, List.getLast?_eq_getLast_of_ne_nil (List.cons_ne_nil _ _)] at hc
      injection hc with hc
      rw [← hc]; omega
    · rintro ⟨s, e⟩ hs
      obtain ⟨h1, h2⟩ := mem_of_mem_segs hs
      exact edgeW_leftE p s e (h s h1) (h e h2) hp

/-- **a closed ring in a closed box winds only about perturbed points of the half-open box** -/
theorem windingE_box (e : EPt) (ring : List Pt) (hc : ring.head? = ring.getLast?) (mn mx : Pt)
    (hbox : ∀ c ∈ ring, mn.x ≤ c.x ∧ c.x ≤ mx.x ∧ mn.y ≤ c.y ∧ c.y ≤ mx.y) (hw : windingE e ring ≠ 0) :
    ELe mn.y 0 e.y0 e.y1 ∧ ELt e.y0 e.y1 mx.y 0 ∧ ELt e.x0 e.x1 mx.x 0 ∧ ¬ ELt e.x0 e.x1 mn.x 0 := by
  refine ⟨?_, ?_, ?_, ?_⟩
  · by_contra g
    exact hw (windingE_belowE e ring (fun c hc => (hbox c hc).2.2.1) ((ELt_iff_not_ELe _ _ _ _).mpr g))
  · by_contra g
    have g' : ELe mx.y 0 e.y0 e.y1 := by
      by_contra g2; exact g ((ELt_iff_not_ELe _ _ _ _).mpr g2)
    exact hw (windingE_aboveE e ring (fun c hc => (hbox c hc).2.2.2) g')
  · by_contra g
    exact hw (windingE_rightE e ring (fun c hc => (hbox c hc).2.1) g)
  · intro g
    exact hw (windingE_leftE e ring hc (fun c hc => (hbox c hc).1) g)

end Geo.Proofs.C02Z
