/-
  SMLX (C05), part 8: `winding_order` of a simple ring against the sign of its exact area.

  `simple_pivot_area`: for a simple ring the determinant of the pivot triple of `winding_order` is not 0 and
  has the sign of the shoelace sum: both have the sign of `2L − 1`, `L` the side constant of the ring
  (`pivot_side`, `area_sign`).
-/
import GeoProofs.Lemmas.SMLXPivotSide
import GeoProofs.Lemmas.SMLXPivot

set_option linter.unusedSimpArgs false
set_option linter.unusedVariables false

namespace Geo.Proofs.SMLX
open Geo Geo.IP Geo.Proofs.Kernel Geo.Proofs.Spec Geo.Proofs.C02Q Geo.Proofs.C12 Geo.Proofs.WIND
open Geo.Proofs.C05L

theorem simple_length {r : List Pt} (h : ringSimple r = true) : 4 ≤ r.length := by
  have h3 := (ringSimple_spec h).2.1
  rw [segs_length] at h3
  have := dedup_length_le r
  omega

/-- **pivot determinant and shoelace sum of a simple ring have the same, non-zero, sign** -/
theorem simple_pivot_area {r : List Pt} (h : ringSimple r = true) :
    ∃ pv p nx, pivotTriple r = some (pv, p, nx) ∧
      ((0 < cross pv p nx ∧ 0 < shoelace2 r) ∨ (cross pv p nx < 0 ∧ shoelace2 r < 0)) := by
  have hc := closed_of_simple h
  obtain ⟨a, b, ha, hb, hab⟩ := simple_two_coords h
  obtain ⟨⟨pv, p, nx⟩, ht⟩ := pivotTriple_isSome ha hb hab
  obtain ⟨hp, hmin, e1, e2, n1, n2⟩ := pivotTriple_edges hc ht
  obtain ⟨L, hL01, hL⟩ := simple_faces h
  have s1 := pivot_side h hL01 hL hp hmin e1 e2 n1 n2
  have s2 := area_sign h hL01 hL
  refine ⟨pv, p, nx, ht, ?_⟩
  rcases hL01 with rfl | rfl
  · right
    push_cast at s1 s2
    exact ⟨by linarith, by linarith⟩
  · left
    push_cast at s1 s2
    exact ⟨by linarith, by linarith⟩

end Geo.Proofs.SMLX
