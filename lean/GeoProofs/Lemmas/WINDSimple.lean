/-
  WIND, part 2: a point of a simple ring (`ringSimple`) that is not one of its coordinates lies on
  exactly one edge occurrence of the ring as written (zero-length edges from repeated coordinates
  included in the count: they contain only their own coordinate).
-/
import GeoProofs.Lemmas.WINDJump
import GeoProofs.Lemmas.C12QSimple
import GeoProofs.Lemmas.C02QHoles
import GeoProofs.Lemmas.C12QValid

set_option linter.unusedSimpArgs false

namespace Geo.Proofs.WIND
open Geo Geo.Proofs.Kernel Geo.Proofs.Loc Geo.Proofs.Spec

/-- the non-degenerate edges of a coordinate list are the edges of the merged list -/
theorem segs_filter_nondeg : ∀ l : List Pt,
    (segs l).filter (fun se => !(se.1 == se.2)) = segs (dedupConsecutive l)
  | [] => rfl
  | [_] => rfl
  | a :: b :: rest => by
    have ih := segs_filter_nondeg (b :: rest)
    simp only [dedupConsecutive]
    by_cases hab : (a == b) = true
    · rw [if_pos hab]
      simp only [segs, List.filter_cons, hab, Bool.not_true, Bool.false_eq_true, if_false]
      exact ih
    · rw [if_neg hab]
      have hab' : (a == b) = false := by simpa using hab
      obtain ⟨t, ht⟩ := Geo.Proofs.C02Q.dedup_head' b rest
      rw [ht] at ih ⊢
      simp only [segs, List.filter_cons, hab', Bool.not_false, if_true]
      rw [ih]

theorem filter_length_le_one {α : Type} (p : α → Bool) :
    ∀ l : List α, l.Pairwise (fun s t => ¬ (p s = true ∧ p t = true)) → (l.filter p).length ≤ 1
  | [], _ => by simp
  | a :: t, h => by
    rw [List.pairwise_cons] at h
    have ih := filter_length_le_one p t h.2
    by_cases ha : p a = true
    · have : t.filter p = [] := by
        rw [List.filter_eq_nil_iff]
        intro x hx hpx
        exact h.1 x hx ⟨ha, hpx⟩
      simp [List.filter_cons, ha, this]
    · have ha' : p a = false := by simpa using ha
      simp only [List.filter_cons, ha', Bool.false_eq_true, if_false]
      exact ih

theorem eq_singleton_of_mem_of_length_le_one {α : Type} {l : List α} {x : α} (hx : x ∈ l)
    (hl : l.length ≤ 1) : l = [x] := by
  match l, hx, hl with
  | [y], hx, _ => simp only [List.mem_singleton] at hx; rw [hx]
  | _ :: _ :: _, _, hl => simp at hl

/-- **a non-vertex point of a simple ring lies on exactly one edge occurrence** -/
theorem simple_unique_edge {r0 : List Pt} (hs : ringSimple r0 = true) {a b m : Pt}
    (hab : (a, b) ∈ segs r0) (hm : SegMem m a b) (hnv : m ∉ r0) :
    (segs r0).filter (onE m) = [(a, b)] := by
  -- edges through `m` are non-degenerate
  have hnd : ∀ se ∈ segs r0, onE m se = true → (!(se.1 == se.2)) = true := by
    intro se hse hon
    by_contra hc
    have he : se.1 = se.2 := by simpa using hc
    have hmem := (mem_of_mem_segs hse).1
    unfold onE at hon
    rw [← he, Geo.Proofs.Loc.lineCoord_degenerate] at hon
    exact hnv (hon ▸ hmem)
  have h1 : (segs r0).filter (onE m) = (segs (dedupConsecutive r0)).filter (onE m) := by
    rw [← segs_filter_nondeg, List.filter_filter]
    apply List.filter_congr
    intro se hse
    cases hon : onE m se with
    | false => simp
    | true => simp [hnd se hse hon]
  have hmem : (a, b) ∈ (segs r0).filter (onE m) := by
    rw [List.mem_filter]
    exact ⟨hab, (lineCoord_iff _ _ _).mpr hm⟩
  apply eq_singleton_of_mem_of_length_le_one hmem
  rw [h1]
  apply filter_length_le_one
  obtain ⟨_, _, hp⟩ := Geo.Proofs.C12.ringSimple_spec hs
  rw [List.pairwise_iff_getElem]
  intro i j hi hj hij hboth
  have z1 : SegMem m ((segs (dedupConsecutive r0))[i]).1 ((segs (dedupConsecutive r0))[i]).2 :=
    (lineCoord_iff _ _ _).mp hboth.1
  have z2 : SegMem m ((segs (dedupConsecutive r0))[j]).1 ((segs (dedupConsecutive r0))[j]).2 :=
    (lineCoord_iff _ _ _).mp hboth.2
  have := hp i j hij _ _ (List.getElem?_eq_getElem hi) (List.getElem?_eq_getElem hj) m z1 z2
  exact hnv (Geo.Proofs.C12.dedup_mem _ _ this)

example : (segs [⟨0, 0⟩, ⟨4, 0⟩, ⟨0, 4⟩, (⟨0, 0⟩ : Pt)]).filter (onE ⟨2, 0⟩) = [(⟨0, 0⟩, ⟨4, 0⟩)] :=
  simple_unique_edge (by decide +kernel) (by simp [segs])
    ⟨1 / 2, by norm_num, by norm_num, by norm_num, by norm_num⟩ (by decide)

theorem mem_dedup_of_mem : ∀ (l : List Pt) (v : Pt), v ∈ l → v ∈ dedupConsecutive l
  | [], _, h => h
  | [_], _, h => h
  | a :: b :: rest, v, h => by
    simp only [dedupConsecutive]
    by_cases hab : (a == b) = true
    · rw [if_pos hab]
      have e : a = b := by simpa using hab
      rcases List.mem_cons.1 h with rfl | h
      · exact mem_dedup_of_mem (b :: rest) _ (by rw [e]; simp)
      · exact mem_dedup_of_mem (b :: rest) v h
    · rw [if_neg hab]
      rcases List.mem_cons.1 h with rfl | h
      · simp
      · exact List.mem_cons_of_mem _ (mem_dedup_of_mem (b :: rest) v h)

/-- every point of a simple ring lies on a non-degenerate edge of the ring -/
theorem simple_on_nondeg_edge {r0 : List Pt} (hs : ringSimple r0 = true) {p : Pt}
    (hp : onAnySeg p (segs r0) = true) : ∃ a b, (a, b) ∈ segs r0 ∧ a ≠ b ∧ SegMem p a b := by
  rw [Geo.Proofs.Loc.onAnySeg_iff] at hp
  obtain ⟨⟨a, b⟩, hse, hl⟩ := hp
  by_cases hab : a = b
  · subst hab
    have hpa : p = a := (Geo.Proofs.Loc.lineCoord_degenerate a p).mp hl
    subst hpa
    -- `p` is a coordinate of the merged ring, hence an end point of one of its edges
    have hpd : p ∈ dedupConsecutive r0 := by
      have h0 : (p, p) ∈ segs r0 := hse
      have : p ∈ r0 := (mem_of_mem_segs h0).1
      exact mem_dedup_of_mem r0 p this
    have hlen : 2 ≤ (dedupConsecutive r0).length := by
      have := (Geo.Proofs.C12.ringSimple_spec hs).2.1
      rw [Geo.Proofs.C02Q.segs_length'] at this
      omega
    obtain ⟨s, hs', hps⟩ := Geo.Proofs.C12.mem_segs_end (dedupConsecutive r0) p hlen hpd
    rw [← segs_filter_nondeg, List.mem_filter] at hs'
    obtain ⟨s1, s2⟩ := s
    have hne : s1 ≠ s2 := by simpa using hs'.2
    refine ⟨s1, s2, hs'.1, hne, ?_⟩
    rcases hps with h | h
    · simp only at h; rw [h]; exact SegMem_left _ _
    · simp only at h; rw [h]; exact SegMem_right _ _
  · exact ⟨a, b, hse, hab, (lineCoord_iff _ _ _).mp hl⟩

end Geo.Proofs.WIND
