/-
  C01Q, part 1: what the atoms of the arrangement are.

  * the vertices on a segment are sorted by distance from its start, so the midpoint of an
    elementary sub-segment is never a vertex of the arrangement (`midpoint_not_mem`);
  * every atom is a vertex, or a midpoint / face sample of a non-degenerate segment at a point of
    the segment that is not a vertex (`mem_atomsOf_cases`), and every non-degenerate segment
    contributes such atoms (`exists_segAtoms`);
  * for operands with separated bounding boxes, the atoms that are not exterior to `A` come from
    `A` (`atom_from_A`).
-/
import GeoModel.RelateSpec
import GeoProofs.Lemmas.SegmentSpec
import GeoProofs.Lemmas.RelateSpecLemmas
import GeoProofs.Lemmas.RelateSpecLocate
import GeoProofs.Lemmas.RelateSpecBBox
import GeoProofs.Lemmas.RelateSpecSwap
import GeoProofs.Lemmas.RelateSpecDisjoint
import Mathlib.Tactic.Linarith
import Mathlib.Tactic.Ring

namespace Geo.Proofs.Spec
open Geo Geo.Proofs.Kernel

/-! ### the sort along a segment -/

theorem insertByDist_sorted (a p : Pt) (l : List Pt)
    (h : l.Pairwise (fun u v => dist2 a u ≤ dist2 a v)) :
    (insertByDist a p l).Pairwise (fun u v => dist2 a u ≤ dist2 a v) := by
  induction l with
  | nil => simp [insertByDist]
  | cons q qs ih =>
    rw [List.pairwise_cons] at h
    simp only [insertByDist]
    split
    · rename_i hle
      rw [List.pairwise_cons]
      refine ⟨?_, List.pairwise_cons.mpr h⟩
      intro x hx
      rcases List.mem_cons.mp hx with rfl | hx
      · exact hle
      · exact le_trans hle (h.1 x hx)
    · rename_i hle
      rw [List.pairwise_cons]
      refine ⟨?_, ih h.2⟩
      intro x hx
      rcases (mem_insertByDist a p x qs).mp hx with rfl | hx
      · exact le_of_lt (not_le.mp hle)
      · exact h.1 x hx

theorem sortByDist_sorted (a : Pt) (l : List Pt) :
    (sortByDist a l).Pairwise (fun u v => dist2 a u ≤ dist2 a v) := by
  induction l with
  | nil => simp [sortByDist]
  | cons q qs ih =>
    simp only [sortByDist, List.foldr_cons] at ih ⊢
    exact insertByDist_sorted a q _ ih

/-- consecutive elements of a sorted list are in order, and nothing lies strictly between them -/
theorem sorted_consecutive {a : Pt} {l : List Pt} (h : l.Pairwise (fun u v => dist2 a u ≤ dist2 a v))
    {u v : Pt} (huv : (u, v) ∈ segs l) :
    dist2 a u ≤ dist2 a v ∧ ∀ w ∈ l, dist2 a w ≤ dist2 a u ∨ dist2 a v ≤ dist2 a w := by
  induction l with
  | nil => simp [segs] at huv
  | cons x t ih =>
    cases t with
    | nil => simp [segs] at huv
    | cons y rest =>
      rw [List.pairwise_cons] at h
      simp only [segs, List.mem_cons] at huv
      rcases huv with e | huv
      · have e1 : u = x := (Prod.mk.inj e).1
        have e2 : v = y := (Prod.mk.inj e).2
        subst e1; subst e2
        refine ⟨h.1 v (by simp), ?_⟩
        intro w hw
        rcases List.mem_cons.mp hw with rfl | hw
        · exact Or.inl (le_refl _)
        · right
          rcases List.mem_cons.mp hw with rfl | hw'
          · exact le_refl _
          · exact (List.pairwise_cons.mp h.2).1 w hw'
      · obtain ⟨h1, h2⟩ := ih h.2 huv
        refine ⟨h1, ?_⟩
        intro w hw
        rcases List.mem_cons.mp hw with rfl | hw
        · exact Or.inl (h.1 u (mem_of_mem_segs huv).1)
        · exact h2 w hw

/-- a list containing two different elements has two different consecutive elements -/
theorem exists_consecutive_ne {l : List Pt} {a b : Pt} (ha : a ∈ l) (hb : b ∈ l) (hab : a ≠ b) :
    ∃ u v, (u, v) ∈ segs l ∧ u ≠ v := by
  induction l with
  | nil => cases ha
  | cons x t ih =>
    cases t with
    | nil =>
      simp only [List.mem_singleton] at ha hb
      exact absurd (ha.trans hb.symm) hab
    | cons y rest =>
      by_cases hxy : x = y
      · subst hxy
        have ha' : a ∈ x :: rest := by
          rcases List.mem_cons.mp ha with rfl | h
          · simp
          · exact h
        have hb' : b ∈ x :: rest := by
          rcases List.mem_cons.mp hb with rfl | h
          · simp
          · exact h
        obtain ⟨u, v, huv, hne⟩ := ih ha' hb'
        exact ⟨u, v, by simp [segs, huv], hne⟩
      · exact ⟨x, y, by simp [segs], hxy⟩

theorem seg_len_pos {a b : Pt} (hab : a ≠ b) :
    0 < (b.x - a.x) * (b.x - a.x) + (b.y - a.y) * (b.y - a.y) := by
  by_contra hc
  have h1 := mul_self_nonneg (b.x - a.x)
  have h2 := mul_self_nonneg (b.y - a.y)
  have e1 : (b.x - a.x) * (b.x - a.x) = 0 := by linarith
  have e2 : (b.y - a.y) * (b.y - a.y) = 0 := by linarith
  have e1' := mul_self_eq_zero.mp e1
  have e2' := mul_self_eq_zero.mp e2
  exact hab (Pt.ext' (by linarith) (by linarith))

theorem SegMem_midpoint {a b u v : Pt} (hu : SegMem u a b) (hv : SegMem v a b) :
    SegMem (midpoint u v) a b := by
  obtain ⟨t, t0, t1, ux, uy⟩ := hu
  obtain ⟨t', t0', t1', vx, vy⟩ := hv
  refine ⟨(t + t') / 2, by linarith, by linarith, ?_, ?_⟩
  · simp only [midpoint]; rw [ux, vx]; ring
  · simp only [midpoint]; rw [uy, vy]; ring

/-- the midpoint of two different points of a segment, the first not farther from the start than
the second, lies strictly between them in distance from the start -/
theorem dist2_midpoint_between {a b u v : Pt} (hab : a ≠ b) (hu : SegMem u a b) (hv : SegMem v a b)
    (huv : u ≠ v) (hle : dist2 a u ≤ dist2 a v) :
    dist2 a u < dist2 a (midpoint u v) ∧ dist2 a (midpoint u v) < dist2 a v := by
  obtain ⟨t, t0, _, ux, uy⟩ := hu
  obtain ⟨t', t0', _, vx, vy⟩ := hv
  have hL := seg_len_pos hab
  generalize hLd : (b.x - a.x) * (b.x - a.x) + (b.y - a.y) * (b.y - a.y) = L at hL
  have du : dist2 a u = t * t * L := by
    unfold dist2; rw [ux, uy, ← hLd]; ring
  have dv : dist2 a v = t' * t' * L := by
    unfold dist2; rw [vx, vy, ← hLd]; ring
  have dm : dist2 a (midpoint u v) = ((t + t') / 2) * ((t + t') / 2) * L := by
    unfold dist2 midpoint; simp only; rw [ux, uy, vx, vy, ← hLd]; ring
  have hne : t ≠ t' := by
    intro e
    apply huv
    apply Pt.ext'
    · rw [ux, vx, e]
    · rw [uy, vy, e]
  have hlt : t < t' := by
    rcases lt_or_gt_of_ne hne with h | h
    · exact h
    · exfalso
      rw [du, dv] at hle
      have h1 : t' * t' < t * t := by nlinarith
      have h2 : t' * t' * L < t * t * L := mul_lt_mul_of_pos_right h1 hL
      linarith
  rw [du, dv, dm]
  constructor
  · apply mul_lt_mul_of_pos_right _ hL
    nlinarith
  · apply mul_lt_mul_of_pos_right _ hL
    nlinarith

/-- **the midpoint of an elementary sub-segment is not one of the sorted points** -/
theorem midpoint_not_mem {a b : Pt} (hab : a ≠ b) {l : List Pt} (hl : ∀ w ∈ l, SegMem w a b)
    {u v : Pt} (huv : (u, v) ∈ segs (sortByDist a l)) (hne : u ≠ v) : midpoint u v ∉ l := by
  intro hm
  obtain ⟨hu, hv⟩ := mem_of_mem_segs huv
  rw [mem_sortByDist] at hu hv
  obtain ⟨hle, hbt⟩ := sorted_consecutive (sortByDist_sorted a l) huv
  obtain ⟨h1, h2⟩ := dist2_midpoint_between hab (hl u hu) (hl v hv) hne hle
  rcases hbt (midpoint u v) ((mem_sortByDist a _ l).mpr hm) with h | h
  · linarith
  · linarith

/-! ### the atoms of one segment -/

/-- left / right face samples beside the point `m` of the segment `(a, b)` -/
def faceL (a b m : Pt) : EPt := ⟨m.x, -(b.y - a.y), m.y, b.x - a.x⟩
def faceR (a b m : Pt) : EPt := ⟨m.x, - -(b.y - a.y), m.y, -(b.x - a.x)⟩

/-- the three atoms at the point `m` of the segment `(a, b)` -/
def IsAtomAt (pa pb : Parts) (a b m : Pt) (x : Atom) : Prop :=
  x = ⟨.one, locateParts pa m, locateParts pb m⟩ ∨
  x = ⟨.two, locateFace pa (faceL a b m), locateFace pb (faceL a b m)⟩ ∨
  x = ⟨.two, locateFace pa (faceR a b m), locateFace pb (faceR a b m)⟩

theorem segAtoms_degenerate (pa pb : Parts) (verts : List Pt) (a : Pt) : segAtoms pa pb verts (a, a) = [] := by
  simp [segAtoms]

/-- every atom of a segment sits at a point of the segment that is not a vertex -/
theorem mem_segAtoms_at {pa pb : Parts} {verts : List Pt} {a b : Pt} {x : Atom}
    (hx : x ∈ segAtoms pa pb verts (a, b)) :
    a ≠ b ∧ ∃ m, SegMem m a b ∧ m ∉ verts ∧ IsAtomAt pa pb a b m x := by
  by_cases hab : a = b
  · subst hab; rw [segAtoms_degenerate] at hx; cases hx
  refine ⟨hab, ?_⟩
  have hab' : (a == b) = false := by simpa using hab
  simp only [segAtoms, hab', Bool.false_eq_true, if_false] at hx
  rw [List.mem_flatMap] at hx
  obtain ⟨⟨u, v⟩, huv, hx⟩ := hx
  by_cases hne : u = v
  · subst hne; simp at hx
  have hne' : (u == v) = false := by simpa using hne
  simp only [hne', Bool.false_eq_true, if_false] at hx
  have hl : ∀ w ∈ verts.filter (fun v => lineCoord a b v), SegMem w a b := by
    intro w hw
    rw [List.mem_filter] at hw
    exact (lineCoord_iff _ _ _).mp hw.2
  obtain ⟨hu, hv⟩ := mem_of_mem_segs huv
  rw [mem_sortByDist] at hu hv
  have hm := SegMem_midpoint (hl u hu) (hl v hv)
  have hnm := midpoint_not_mem hab hl huv hne
  refine ⟨midpoint u v, hm, ?_, ?_⟩
  · intro hmv
    exact hnm (List.mem_filter.mpr ⟨hmv, (lineCoord_iff _ _ _).mpr hm⟩)
  · simp only [List.mem_cons, List.not_mem_nil, or_false] at hx
    exact hx

/-- every non-degenerate segment whose end points are vertices carries the three atoms of one of
its elementary sub-segments -/
theorem exists_segAtoms (pa pb : Parts) {verts : List Pt} {a b : Pt} (hab : a ≠ b)
    (ha : a ∈ verts) (hb : b ∈ verts) :
    ∃ m, SegMem m a b ∧ m ∉ verts ∧ ∀ x, IsAtomAt pa pb a b m x → x ∈ segAtoms pa pb verts (a, b) := by
  have hl : ∀ w ∈ verts.filter (fun v => lineCoord a b v), SegMem w a b := by
    intro w hw
    rw [List.mem_filter] at hw
    exact (lineCoord_iff _ _ _).mp hw.2
  have ha' : a ∈ sortByDist a (verts.filter (fun v => lineCoord a b v)) := by
    rw [mem_sortByDist, List.mem_filter]
    exact ⟨ha, (lineCoord_iff _ _ _).mpr (SegMem_left a b)⟩
  have hb' : b ∈ sortByDist a (verts.filter (fun v => lineCoord a b v)) := by
    rw [mem_sortByDist, List.mem_filter]
    exact ⟨hb, (lineCoord_iff _ _ _).mpr (SegMem_right a b)⟩
  obtain ⟨u, v, huv, hne⟩ := exists_consecutive_ne ha' hb' hab
  obtain ⟨hu, hv⟩ := mem_of_mem_segs huv
  rw [mem_sortByDist] at hu hv
  have hm := SegMem_midpoint (hl u hu) (hl v hv)
  have hnm := midpoint_not_mem hab hl huv hne
  refine ⟨midpoint u v, hm, ?_, ?_⟩
  · intro hmv
    exact hnm (List.mem_filter.mpr ⟨hmv, (lineCoord_iff _ _ _).mpr hm⟩)
  · intro x hx
    have hab' : (a == b) = false := by simpa using hab
    have hne' : (u == v) = false := by simpa using hne
    simp only [segAtoms, hab', Bool.false_eq_true, if_false]
    rw [List.mem_flatMap]
    refine ⟨(u, v), huv, ?_⟩
    simp only [hne', Bool.false_eq_true, if_false, List.mem_cons, List.not_mem_nil, or_false]
    exact hx

/-! ### the atoms of the arrangement -/

theorem ends_mem_vertsOf {pa pb : Parts} {s : Pt × Pt} (hs : s ∈ pa.allSegs ++ pb.allSegs) :
    s.1 ∈ vertsOf pa pb ∧ s.2 ∈ vertsOf pa pb := by
  unfold vertsOf
  rw [mem_dedupPts, mem_dedupPts]
  simp only [List.mem_append, endsOf, List.mem_flatMap]
  constructor
  · exact Or.inl (Or.inl (Or.inl (Or.inl ⟨s, List.mem_append.mp hs, by simp⟩)))
  · exact Or.inl (Or.inl (Or.inl (Or.inl ⟨s, List.mem_append.mp hs, by simp⟩)))

theorem pts_mem_vertsOf {pa pb : Parts} {c : Pt} (hc : c ∈ pa.pts) : c ∈ vertsOf pa pb := by
  unfold vertsOf
  rw [mem_dedupPts]
  simp only [List.mem_append]
  exact Or.inl (Or.inl (Or.inr hc))

/-- every atom is a vertex atom, or one of the three atoms at a non-vertex point of a
non-degenerate segment -/
theorem mem_atomsOf_cases {pa pb : Parts} {x : Atom} (hx : x ∈ atomsOf pa pb) :
    (∃ v ∈ vertsOf pa pb, x = ⟨.zero, locateParts pa v, locateParts pb v⟩) ∨
    (∃ s ∈ pa.allSegs ++ pb.allSegs, s.1 ≠ s.2 ∧ ∃ m, SegMem m s.1 s.2 ∧ m ∉ vertsOf pa pb ∧
      IsAtomAt pa pb s.1 s.2 m x) := by
  unfold atomsOf at hx
  rw [List.mem_append, List.mem_map, List.mem_flatMap] at hx
  rcases hx with ⟨v, hv, rfl⟩ | ⟨s, hs, hx⟩
  · exact Or.inl ⟨v, hv, rfl⟩
  · obtain ⟨a, b⟩ := s
    obtain ⟨hab, m, h1, h2, h3⟩ := mem_segAtoms_at hx
    exact Or.inr ⟨(a, b), hs, hab, m, h1, h2, h3⟩

theorem vertex_atom_mem {pa pb : Parts} {v : Pt} (hv : v ∈ vertsOf pa pb) :
    (⟨.zero, locateParts pa v, locateParts pb v⟩ : Atom) ∈ atomsOf pa pb := by
  unfold atomsOf
  exact List.mem_append_left _ (List.mem_map.mpr ⟨v, hv, rfl⟩)

/-- a non-degenerate segment of either operand carries the three atoms of a non-vertex point -/
theorem exists_atoms_of_seg {pa pb : Parts} {s : Pt × Pt} (hs : s ∈ pa.allSegs ++ pb.allSegs)
    (hne : s.1 ≠ s.2) :
    ∃ m, SegMem m s.1 s.2 ∧ m ∉ vertsOf pa pb ∧ ∀ x, IsAtomAt pa pb s.1 s.2 m x → x ∈ atomsOf pa pb := by
  obtain ⟨h1, h2⟩ := ends_mem_vertsOf hs
  obtain ⟨a, b⟩ := s
  obtain ⟨m, hm, hnv, hall⟩ := exists_segAtoms pa pb hne h1 h2
  refine ⟨m, hm, hnv, ?_⟩
  intro x hx
  unfold atomsOf
  exact List.mem_append_right _ (List.mem_flatMap.mpr ⟨(a, b), hs, hall x hx⟩)

theorem atom_dim_ne_empty {pa pb : Parts} {x : Atom} (hx : x ∈ atomsOf pa pb) : x.dim ≠ .empty := by
  rcases mem_atomsOf_cases hx with ⟨v, _, rfl⟩ | ⟨s, _, _, m, _, _, rfl | rfl | rfl⟩ <;> simp

/-! ### separated operands: the atoms not exterior to `A` come from `A` -/

theorem box_of_SegMem {ps : Parts} {s : Pt × Pt} (hs : s ∈ ps.allSegs) {m : Pt} (hm : SegMem m s.1 s.2) :
    Box ps m.x m.y :=
  box_of_seg hs ((lineCoord_iff _ _ _).mpr hm)

/-- for separated operands, an atom that is not exterior to `A` is a vertex atom or an atom of a
non-degenerate segment of `A`; it is exterior to `B` -/
theorem atom_from_A {pa pb : Parts} (h : Sep pa pb) (ca : ClosedExt pa) (cb : ClosedExt pb) {x : Atom}
    (hx : x ∈ atomsOf pa pb) (hA : x.posA ≠ .outside) :
    x.posB = .outside ∧
    ((∃ v ∈ vertsOf pa pb, x = ⟨.zero, locateParts pa v, locateParts pb v⟩) ∨
     (∃ s ∈ pa.allSegs, s.1 ≠ s.2 ∧ ∃ m, SegMem m s.1 s.2 ∧ m ∉ vertsOf pa pb ∧ IsAtomAt pa pb s.1 s.2 m x)) := by
  refine ⟨(atom_outside_of_sep h ca cb hx).resolve_left hA, ?_⟩
  rcases mem_atomsOf_cases hx with hv | ⟨s, hs, hne, m, hm, hnv, hat⟩
  · exact Or.inl hv
  · rcases List.mem_append.mp hs with hs | hs
    · exact Or.inr ⟨s, hs, hne, m, hm, hnv, hat⟩
    · exfalso
      have bm : Box pb m.x m.y := box_of_SegMem hs hm
      have far := far_of_box h.symm ca bm
      rcases hat with rfl | rfl | rfl
      · exact hA (locateParts_far far)
      · exact hA (locateFace_far (e := faceL s.1 s.2 m) far)
      · exact hA (locateFace_far (e := faceR s.1 s.2 m) far)

end Geo.Proofs.Spec
