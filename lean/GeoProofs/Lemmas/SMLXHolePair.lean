/-
  SMLX (C14): the `II` cell of the DE-9IM specification for two hole polygons is `F` or `2`.

  `relateParts (polyOf h1) (polyOf h2)` is a maximum over atoms. Every atom of dimension 0 or 1 is
  located at a point of one of the two rings (an end point of a segment, a single-coordinate ring, an
  intersection vertex, the midpoint of a piece of a segment); such a point is on the boundary of the
  polygon whose ring it lies on, never in its interior. So only face samples (dimension 2) can be
  located `(Interior, Interior)`.
-/
import GeoProofs.Lemmas.C14PPairs
import GeoProofs.Lemmas.C02QHoles
import GeoProofs.Lemmas.LISpec

namespace Geo.Proofs.SMLX
open Geo Geo.V Geo.Proofs.Spec Geo.Proofs.Kernel

/-- a point of a ring (on one of its segments, or the coordinate of a one-coordinate ring) is not in the
interior of the polygon of that ring -/
theorem locate_polyOf_ne_inside {r : List Pt} {p : Pt}
    (h : onAnySeg p (segs r) = true ∨ r = [p]) : locateParts (polyOf r) p ≠ .inside := by
  unfold polyOf
  rw [Geo.Proofs.Loc.locateParts_ring]
  rcases h with h | h
  · simp [h]
  · subst h
    have hw : windingE (EPt.ofPt p) [p] = 0 := rfl
    simp [segs, onAnySeg, hw]

theorem onAnySeg_of_mem {ss : List (Pt × Pt)} {s : Pt × Pt} {p : Pt} (hs : s ∈ ss)
    (hp : lineCoord s.1 s.2 p = true) : onAnySeg p ss = true :=
  (Geo.Proofs.Loc.onAnySeg_iff p ss).mpr ⟨s, hs, hp⟩

/-- every vertex of the arrangement of two ring polygons lies on one of the two rings -/
theorem vert_on_ring {h1 h2 : List Pt} {v : Pt} (hv : v ∈ vertsOf (polyOf h1) (polyOf h2)) :
    (onAnySeg v (segs h1) = true ∨ h1 = [v]) ∨ (onAnySeg v (segs h2) = true ∨ h2 = [v]) := by
  unfold vertsOf at hv
  rw [mem_dedupPts] at hv
  simp only [Geo.Proofs.C02Q.allSegs_polyOf, List.mem_append, endsOf, List.mem_flatMap] at hv
  rcases hv with (((⟨s, hs, hv⟩ | ⟨c, hc, hv⟩) | hv) | hv) | hv
  · have hv' : v = s.1 ∨ v = s.2 := by simpa using hv
    have hon : lineCoord s.1 s.2 v = true := by
      rw [lineCoord_iff]
      rcases hv' with rfl | rfl
      · exact SegMem_left _ _
      · exact SegMem_right _ _
    rcases hs with hs | hs
    · exact Or.inl (Or.inl (onAnySeg_of_mem hs hon))
    · exact Or.inr (Or.inl (onAnySeg_of_mem hs hon))
  · have hc' : c = h1 ∨ c = h2 := by
      simpa [polyOf, Poly.rings] using hc
    have hcv : c = [v] := by
      unfold singleOf at hv
      split at hv
      · simp only [List.mem_singleton] at hv; subst hv; rfl
      · simp at hv
    rcases hc' with rfl | rfl
    · exact Or.inl (Or.inr hcv)
    · exact Or.inr (Or.inr hcv)
  · simp [polyOf] at hv
  · simp [polyOf] at hv
  · obtain ⟨s, hs, t, _, hx⟩ := mem_pairVertices hv
    have hl := segVertex_on_first hx
    rw [List.mem_append] at hs
    rcases hs with hs | hs
    · exact Or.inl (Or.inl (onAnySeg_of_mem hs hl))
    · exact Or.inr (Or.inl (onAnySeg_of_mem hs hl))

/-- the midpoint of two points of a segment is a point of the segment -/
theorem lineCoord_midpoint {a b u v : Pt} (hu : lineCoord a b u = true) (hv : lineCoord a b v = true) :
    lineCoord a b (midpoint u v) = true := by
  rw [lineCoord_iff] at hu hv ⊢
  apply SegMem_convex hu hv
  exact ⟨1 / 2, by norm_num, by norm_num, by simp only [midpoint]; ring, by simp only [midpoint]; ring⟩

/-- an atom of a segment located `(Interior, Interior)` for two ring polygons is a face sample -/
theorem segAtoms_ii_two {h1 h2 : List Pt} {verts : List Pt} {s : Pt × Pt}
    (hs : s ∈ segs h1 ++ segs h2) {x : Atom}
    (hx : x ∈ segAtoms (polyOf h1) (polyOf h2) verts s)
    (hA : x.posA = .inside) (hB : x.posB = .inside) : x.dim = .two := by
  obtain ⟨a, b⟩ := s
  simp only [segAtoms] at hx
  split at hx
  · simp at hx
  · rw [List.mem_flatMap] at hx
    obtain ⟨⟨u, v⟩, huv, hx⟩ := hx
    obtain ⟨hu, hv⟩ := mem_of_mem_segs huv
    rw [Geo.Proofs.Spec.mem_sortByDist, List.mem_filter] at hu hv
    have hm := lineCoord_midpoint hu.2 hv.2
    split at hx
    · simp at hx
    · simp only [List.mem_cons, List.not_mem_nil, or_false] at hx
      rcases hx with rfl | rfl | rfl
      · exfalso
        rw [List.mem_append] at hs
        rcases hs with hs | hs
        · exact locate_polyOf_ne_inside (Or.inl (onAnySeg_of_mem hs hm)) hA
        · exact locate_polyOf_ne_inside (Or.inl (onAnySeg_of_mem hs hm)) hB
      · rfl
      · rfl

/-- **the `II` cell of two ring polygons is `F` or `2`** (the hypothesis `hS1` of
`holePair_iff_partial`, for every pair of coordinate lists) -/
theorem relateParts_polyOf_ii (h1 h2 : List Pt) :
    (relateParts (polyOf h1) (polyOf h2)).ii = .empty ∨ (relateParts (polyOf h1) (polyOf h2)).ii = .two := by
  have hget : (relateParts (polyOf h1) (polyOf h2)).ii =
      (fold (atomsOf (polyOf h1) (polyOf h2))).get .inside .inside := by
    rw [relateParts_eq]
    show ((fold _).set .outside .outside .two).get .inside .inside = _
    rw [get_set]; simp
  rw [hget]
  by_cases h0 : (fold (atomsOf (polyOf h1) (polyOf h2))).get .inside .inside = .empty
  · exact Or.inl h0
  · right
    -- some atom located (inside, inside) has dimension ≥ 0-dimensional; it must be a face sample
    have h1r : Dim.zero.rank ≤ ((fold (atomsOf (polyOf h1) (polyOf h2))).get .inside .inside).rank := by
      cases hd : (fold (atomsOf (polyOf h1) (polyOf h2))).get .inside .inside
      · exact absurd hd h0
      all_goals simp [Dim.rank]
    rcases (fold_get _ _ _ _).mp h1r with hz | ⟨a, ha, hA, hB, _⟩
    · cases hz
    · have hdim : a.dim = .two := by
        unfold atomsOf at ha
        rw [List.mem_append] at ha
        rcases ha with ha | ha
        · obtain ⟨v, hv, rfl⟩ := List.mem_map.mp ha
          exfalso
          rcases vert_on_ring hv with h | h
          · exact locate_polyOf_ne_inside h hA
          · exact locate_polyOf_ne_inside h hB
        · obtain ⟨s, hs, hx⟩ := List.mem_flatMap.mp ha
          rw [Geo.Proofs.C02Q.allSegs_polyOf, Geo.Proofs.C02Q.allSegs_polyOf] at hs
          exact segAtoms_ii_two hs hx hA hB
      apply Dim.rank_inj
      have hge : Dim.two.rank ≤ ((fold (atomsOf (polyOf h1) (polyOf h2))).get .inside .inside).rank :=
        (fold_get _ _ _ _).mpr (Or.inr ⟨a, ha, hA, hB, by rw [hdim]⟩)
      have hle : ((fold (atomsOf (polyOf h1) (polyOf h2))).get .inside .inside).rank ≤ Dim.two.rank := by
        cases (fold (atomsOf (polyOf h1) (polyOf h2))).get .inside .inside <;> simp [Dim.rank]
      omega

end Geo.Proofs.SMLX
