/-
  SMLX (C05), part 4: the side of a simple ring, and the crossings of a level.

  * `simple_faces`: a simple ring has a number `L ∈ {0, 1}` such that beside *every* point of the ring that
    is not a coordinate the left face sample has winding number `L` and the right one `L − 1`
    (`walk_all` + `windingE_jump` + `exists_outer_edge` of the WIND files, restated with the constant
    made explicit). `L = 1`: the interior is on the left of every edge; `L = 0`: on the right.
  * `crossing_suffix`: on a level `y` that avoids the coordinates, the signed count of the crossings at or
    to the right of a crossing of the edge `e` is `L` when `e` crosses upward and `L − 1` when it crosses
    downward (it is the winding number of a point just left of the crossing, `winding_level`, which the
    link lemma `windingE_link` identifies with a face sample).
-/
import GeoProofs.Lemmas.WINDJordan

set_option linter.unusedSimpArgs false
set_option linter.unusedVariables false

namespace Geo.Proofs.SMLX
open Geo Geo.IP Geo.Proofs.Kernel Geo.Proofs.Spec Geo.Proofs.C02Q Geo.Proofs.C12 Geo.Proofs.WIND

/-- **the side of a simple ring** -/
theorem simple_faces {r0 : List Pt} (h : ringSimple r0 = true) :
    ∃ L : Int, (L = 0 ∨ L = 1) ∧ ∀ a b P, (a, b) ∈ segs r0 → SegMem P a b → P ∉ r0 →
      windingE (faceL a b P) r0 = L ∧ windingE (faceR a b P) r0 = L - 1 := by
  have hc := closed_of_simple h
  have hn3 := (ringSimple_spec h).2.1
  have h0 : 0 < (segs (dedupConsecutive r0)).length := by omega
  obtain ⟨s0, hs0⟩ : ∃ s0, (segs (dedupConsecutive r0))[0]? = some s0 :=
    ⟨_, List.getElem?_eq_getElem h0⟩
  have hne0 : s0.1 ≠ s0.2 := dedup_segs_ne r0 s0 (List.mem_of_getElem? hs0)
  have hQ : SInside (midpoint s0.1 s0.2) s0 := sinside_midpoint hne0
  have key : ∀ a b P, (a, b) ∈ segs r0 → SegMem P a b → P ∉ r0 →
      windingE (faceL a b P) r0 =
        windingE (faceL s0.1 s0.2 (midpoint s0.1 s0.2)) (dedupConsecutive r0) ∧
      windingE (faceL a b P) r0 = windingE (faceR a b P) r0 + 1 := by
    intro a b P hab hP hnv
    obtain ⟨ha, hb⟩ := mem_of_mem_segs hab
    have hPa : P ≠ a := fun e => hnv (e ▸ ha)
    have hPb : P ≠ b := fun e => hnv (e ▸ hb)
    have habne : a ≠ b := by
      intro e; subst e
      exact hPa ((SegMem_degenerate _ a).mp hP)
    have hmem : (a, b) ∈ segs (dedupConsecutive r0) := by
      rw [← segs_filter_nondeg, List.mem_filter]
      exact ⟨hab, by simpa using habne⟩
    obtain ⟨i, hi⟩ := List.getElem?_of_mem hmem
    refine ⟨?_, windingE_jump r0 hc (simple_unique_edge h hab hP hnv) habne hP hPa hPb⟩
    rw [← windingE_dedup]
    exact walk_all h hs0 hQ i (a, b) hi P ⟨hP, hPa, hPb⟩
  refine ⟨windingE (faceL s0.1 s0.2 (midpoint s0.1 s0.2)) (dedupConsecutive r0), ?_, ?_⟩
  · obtain ⟨a0, b0, P0, hab0, hP0, hnv0, hout⟩ := exists_outer_edge h
    obtain ⟨k3, k4⟩ := key a0 b0 P0 hab0 hP0 hnv0
    rcases hout with h0' | h0' <;> omega
  · intro a b P hab hP hnv
    obtain ⟨k1, k2⟩ := key a b P hab hP hnv
    exact ⟨k1, by omega⟩

/-! ### crossings of a level -/

/-- a value below `t0` with no entry of the list in between -/
theorem exists_gap_below (t0 : Rat) : ∀ l : List Rat, ∃ x', x' < t0 ∧ ∀ t ∈ l, t < t0 → t < x'
  | [] => ⟨t0 - 1, by linarith, fun _ h => by cases h⟩
  | a :: l => by
    obtain ⟨x'', h1, h2⟩ := exists_gap_below t0 l
    by_cases ha : a < t0
    · refine ⟨max x'' ((a + t0) / 2), max_lt h1 (by linarith), ?_⟩
      intro t ht hlt
      rcases List.mem_cons.mp ht with rfl | ht
      · exact lt_of_lt_of_le (by linarith) (le_max_right _ _)
      · exact lt_of_lt_of_le (h2 t ht hlt) (le_max_left _ _)
    · refine ⟨x'', h1, ?_⟩
      intro t ht hlt
      rcases List.mem_cons.mp ht with rfl | ht
      · exact absurd hlt ha
      · exact h2 t ht hlt

/-- the signed count depends on the predicate only at the crossing abscissae -/
theorem psum_congr (y : Rat) (P Q : Rat → Bool) (es : List (Pt × Pt))
    (h : ∀ t ∈ es.flatMap (crossXs y), P t = Q t) : psum y P es = psum y Q es := by
  induction es with
  | nil => rfl
  | cons e es ih =>
    rw [psum_cons, psum_cons, ih (fun t ht => h t (by
      simp only [List.flatMap_cons, List.mem_append]; exact Or.inr ht))]
    by_cases h0 : sgnE y e = 0
    · simp [h0]
    · have := h (xAt y e) (by simp [List.flatMap_cons, crossXs, h0])
      rw [this]

/-- signed count of the crossings at or to the right of the abscissa `t0` -/
def sge (y t0 : Rat) (es : List (Pt × Pt)) : Int := psum y (fun t => decide (t0 ≤ t)) es

/-- **the signed count of the crossings from a crossing on, to the right** -/
theorem crossing_suffix {r0 : List Pt} (h : ringSimple r0 = true) {L : Int}
    (hL : ∀ a b P, (a, b) ∈ segs r0 → SegMem P a b → P ∉ r0 →
      windingE (faceL a b P) r0 = L ∧ windingE (faceR a b P) r0 = L - 1)
    {y : Rat} (hy : ∀ v ∈ r0, v.y ≠ y) {a b : Pt} (hab : (a, b) ∈ segs r0)
    (hsg : sgnE y (a, b) ≠ 0) :
    sge y (xAt y (a, b)) (segs r0) = if sgnE y (a, b) = 1 then L else L - 1 := by
  have hc := closed_of_simple h
  set x0 := xAt y (a, b) with hx0
  obtain ⟨x', hx'lt, hgap⟩ := exists_gap_below x0 ((segs r0).flatMap (crossXs y))
  have hP : SegMem ⟨x0, y⟩ a b := xAt_segMem hsg
  have hnv : (⟨x0, y⟩ : Pt) ∉ r0 := fun hm => hy _ hm rfl
  obtain ⟨fL, fR⟩ := hL a b ⟨x0, y⟩ hab hP hnv
  have hone := simple_unique_edge h hab hP hnv
  obtain ⟨ha, hb⟩ := mem_of_mem_segs hab
  have hPa : (⟨x0, y⟩ : Pt) ≠ a := fun e => hnv (e ▸ ha)
  have hPb : (⟨x0, y⟩ : Pt) ≠ b := fun e => hnv (e ▸ hb)
  have habne : a ≠ b := by
    intro e; subst e
    exact hPa ((SegMem_degenerate _ a).mp hP)
  have hdne : b.y - a.y ≠ 0 := sgnE_ne_zero_ne hsg
  have hcr : cross a b ⟨x', y⟩ = (b.y - a.y) * (x0 - x') := cross_eq_xAt a b x' y hdne
  have hD : cross a b ⟨x', y⟩ ≠ 0 := by
    rw [hcr]; exact mul_ne_zero hdne (by linarith)
  -- the segment from the sample point to the crossing meets no other edge
  have hclear : ∀ se ∈ segs r0, onE ⟨x0, y⟩ se = false →
      ¬ ∃ x, SegMem x se.1 se.2 ∧ SegMem x ⟨x', y⟩ ⟨x0, y⟩ := by
    intro se hse hoff ⟨x, hx1, hx2⟩
    have hxy : x.y = y := segMem_horiz hx2
    obtain ⟨r, hr0, hr1, hxx, _⟩ := hx2
    simp only at hxx
    have hxle : x.x ≤ x0 := by nlinarith
    have hxge : x' ≤ x.x := by nlinarith
    have hon : onAnySeg ⟨x.x, y⟩ (segs r0) = true := by
      rw [Geo.Proofs.Loc.onAnySeg_iff]
      refine ⟨se, hse, (lineCoord_iff _ _ _).mpr ?_⟩
      have : (⟨x.x, y⟩ : Pt) = x := Pt.ext' rfl hxy.symm
      rw [this]; exact hx1
    have hcrx := on_ring_crossing hy hon
    have hge : x0 ≤ x.x := by
      by_contra hlt
      have := hgap x.x hcrx (not_le.mp hlt)
      linarith
    have hxe : x = ⟨x0, y⟩ := Pt.ext' (by simp only; linarith) hxy
    rw [hxe] at hx1
    have : onE ⟨x0, y⟩ se = true := (lineCoord_iff _ _ _).mpr hx1
    rw [hoff] at this; cases this
  have hlink := windingE_link r0 hc hone habne hP hPa hPb hD hclear
  -- the winding number of the sample point is the signed count from the crossing on
  have hw : windingE (EPt.ofPt ⟨x', y⟩) r0 = sge y x0 (segs r0) := by
    rw [winding_level x' y r0 hc hy]
    have h2 := psum_split y (fun t => decide (t ≤ x')) (segs r0)
    rw [sum_sgnE_closed y r0 hc hy] at h2
    have h3 : psum y (fun t => !(fun t => decide (t ≤ x')) t) (segs r0) = sge y x0 (segs r0) := by
      unfold sge
      apply psum_congr
      intro t ht
      by_cases hle : t ≤ x'
      · have : ¬ x0 ≤ t := by linarith
        simp [hle, this]
      · have : x0 ≤ t := by
          by_contra hlt
          exact hle (le_of_lt (hgap t ht (not_le.mp hlt)))
        simp [hle, this]
    rw [h3] at h2
    omega
  rw [← hw, hlink, hcr, fL, fR]
  rcases (sgnE_ne_zero_iff y (a, b)).1 hsg with ⟨h1, h2⟩ | ⟨h1, h2⟩
  · simp only at h1 h2
    have hs1 : sgnE y (a, b) = 1 := by unfold sgnE; simp [h1, h2]
    have : 0 < (b.y - a.y) * (x0 - x') := mul_pos (by linarith) (by linarith)
    rw [if_pos this, if_pos hs1]
  · simp only at h1 h2
    have hs1 : sgnE y (a, b) = -1 := by
      unfold sgnE
      have n1 : ¬ (a.y < y ∧ y < b.y) := fun hh => by linarith [hh.1]
      simp [n1, h1, h2]
    have : ¬ 0 < (b.y - a.y) * (x0 - x') := by
      have : (b.y - a.y) * (x0 - x') < 0 := mul_neg_of_neg_of_pos (by linarith) (by linarith)
      linarith
    rw [if_neg this, hs1]; simp

end Geo.Proofs.SMLX
