/-
  RELM — `Point × anything` for the model of the implementation, part 1: what the pipeline does to
  the slot of an operand that has no edges. Every component of the other operand's graph ends up
  `Outside` of the point, except the node at the point's coordinate.
-/
import GeoProofs.Lemmas.RELMNodes
import GeoProofs.Lemmas.RELMAtoms
import GeoProofs.Lemmas.RELMSwap

namespace Geo.Proofs.RELM
open Geo Geo.GG Geo.RI Geo.Proofs.Spec

/-- slot 0 of the label has never been written -/
def AEmpty (l : Label) : Prop := SlotEmpty l.a

/-! ### edges of a graph built for argument index 1 carry nothing in slot 0 -/

theorem fresh_edges (ar : Arith) (idx : Nat) (g : Geom) :
    (freshGraph ar idx g).edges =
      selfIntersections ar (!isRings g) ((buildGraph idx g).edges.map REdge.ofEdge) := rfl

theorem fresh1_edges_aEmpty (ar : Arith) (b : Geom) : ∀ e ∈ (freshGraph ar 1 b).edges, AEmpty e.label := by
  intro e he
  rw [fresh_edges] at he
  have h1 : toEdge e ∈ (buildGraph 1 b).edges := by
    have := List.mem_map_of_mem (f := toEdge) he
    rwa [selfIntersections_toEdge, map_toEdge_ofEdge] at this
  rw [← Geo.Proofs.C17.swap_buildGraph] at h1
  simp only [Graph.swapLabels, List.mem_map] at h1
  obtain ⟨e1, he1, h⟩ := h1
  have hb := (Geo.Proofs.C17.buildGraph_other_slot_unset b).2 e1 he1
  have : e.label = e1.label.swap := by
    have := congrArg Edge.label h
    simpa [Edge.swap, toEdge] using this.symm
  unfold AEmpty
  rw [this]
  exact hb

/-! ### edge ends inherit the label of their edge (possibly flipped) -/

theorem endForPrev_label {e : REdge} {cur : EI} {prev : Option EI} {l : List EdgeEnd}
    (h : endForPrev e cur prev = some l) : ∀ x ∈ l, x.label = e.label.flip := by
  unfold endForPrev at h
  simp only at h
  have go : ∀ i, (match e.coords[i]? with
      | none => none
      | some c => some [(⟨cur.coord, match prev with
          | some p => if p.seg ≥ i then p.coord else c
          | none => c, e.label.flip⟩ : EdgeEnd)]) = some l → ∀ x ∈ l, x.label = e.label.flip := by
    intro i hi
    split at hi
    · cases hi
    · cases hi
      intro x hx
      simp only [List.mem_singleton] at hx
      subst hx; rfl
  split at h
  · split at h
    · cases h; intro x hx; cases hx
    · exact go _ h
  · exact go _ h

theorem endForNext_label {e : REdge} {cur : EI} {next : Option EI} {l : List EdgeEnd}
    (h : endForNext e cur next = some l) : ∀ x ∈ l, x.label = e.label := by
  unfold endForNext at h
  simp only at h
  split at h
  · cases h; intro x hx; cases hx
  · split at h
    · cases h
    · cases h
      intro x hx
      simp only [List.mem_singleton] at hx
      subst hx; rfl

theorem endsLoop_label (e : REdge) : ∀ (eis : List EI) (prev : Option EI) (l : List EdgeEnd),
    endsLoop e prev eis = some l → ∀ x ∈ l, x.label = e.label ∨ x.label = e.label.flip
  | [], _, l, h => by
      simp only [endsLoop] at h; cases h; intro x hx; cases hx
  | cur :: rest, prev, l, h => by
      simp only [endsLoop] at h
      split at h
      · rename_i a b c ha hb hc
        cases h
        intro x hx
        simp only [List.mem_append] at hx
        rcases hx with (hx | hx) | hx
        · exact Or.inr (endForPrev_label ha x hx)
        · exact Or.inl (endForNext_label hb x hx)
        · exact endsLoop_label e rest (some cur) c hc x hx
      · cases h

theorem endsForEdges_label : ∀ (es : List REdge) (l : List EdgeEnd), endsForEdges es = some l →
    ∀ x ∈ l, ∃ e ∈ es, x.label = e.label ∨ x.label = e.label.flip
  | [], l, h => by
      simp only [endsForEdges] at h; cases h; intro x hx; cases hx
  | e :: es, l, h => by
      simp only [endsForEdges] at h
      split at h
      · rename_i a b ha hb
        cases h
        intro x hx
        simp only [List.mem_append] at hx
        rcases hx with hx | hx
        · exact ⟨e, List.mem_cons_self .., endsLoop_label e _ none a ha x hx⟩
        · obtain ⟨e', he', h'⟩ := endsForEdges_label es b hb x hx
          exact ⟨e', List.mem_cons_of_mem _ he', h'⟩
      · cases h

theorem endsForEdges_aEmpty {es : List REdge} {l : List EdgeEnd} (h : endsForEdges es = some l)
    (hes : ∀ e ∈ es, AEmpty e.label) : ∀ x ∈ l, AEmpty x.label := by
  intro x hx
  obtain ⟨e, he, h'⟩ := endsForEdges_label es l h x hx
  rcases h' with h' | h'
  · rw [h']; exact hes e he
  · unfold AEmpty; rw [h', flip_a]; exact (hes e he).flip

/-! ### stars made of such edge ends -/

def StarAEmpty (star : List Bundle) : Prop := ∀ bd ∈ star, ∀ e ∈ bd.ends, AEmpty e.label

theorem starInsert_aEmpty (ar : Arith) (e : EdgeEnd) (he : AEmpty e.label) :
    ∀ (s : List Bundle), StarAEmpty s → StarAEmpty (starInsert ar e s)
  | [], _ => by
      intro bd hbd x hx
      simp only [starInsert, List.mem_singleton] at hbd
      subst hbd
      simp only [List.mem_singleton] at hx
      subst hx; exact he
  | b :: bs, hs => by
      intro bd hbd x hx
      simp only [starInsert] at hbd
      split at hbd
      · simp only [List.mem_cons] at hbd
        rcases hbd with rfl | hbd
        · exact hs _ (List.mem_cons_self ..) x hx
        · exact starInsert_aEmpty ar e he bs (fun bd hbd => hs bd (List.mem_cons_of_mem _ hbd)) bd hbd x hx
      · simp only [List.mem_cons] at hbd
        rcases hbd with rfl | hbd
        · simp only [List.mem_append, List.mem_singleton] at hx
          rcases hx with hx | rfl
          · exact hs _ (List.mem_cons_self ..) x hx
          · exact he
        · exact hs bd (List.mem_cons_of_mem _ hbd) x hx
      · simp only [List.mem_cons] at hbd
        rcases hbd with rfl | rfl | hbd
        · simp only [List.mem_singleton] at hx
          subst hx; exact he
        · exact hs _ (List.mem_cons_self ..) x hx
        · exact hs bd (List.mem_cons_of_mem _ hbd) x hx

/-! ### the label of a bundle of such edge ends -/

theorem computeLabelOn0_of_aEmpty {ends : List EdgeEnd} (h : ∀ e ∈ ends, AEmpty e.label) (l : Label) :
    computeLabelOn ends l 0 = l := by
  unfold computeLabelOn
  have hf : ends.filter (fun e => e.label.onPos 0 == some .onBoundary) = [] := by
    rw [List.filter_eq_nil_iff]
    intro e he
    simp [onPos0, (h e he).on]
  have ha : ends.any (fun e => e.label.onPos 0 == some .inside) = false := by
    rw [List.any_eq_false]
    intro e he
    simp [onPos0, (h e he).on]
  simp only [hf, ha, List.length_nil, Nat.lt_irrefl, if_false, Bool.false_eq_true]

theorem sideLoop0_none (side : Label → Nat → Option Pos) :
    ∀ (ends : List EdgeEnd), (∀ e ∈ ends, side e.label 0 = none) → sideLoop side 0 ends none = none
  | [], _ => rfl
  | e :: es, h => by
      simp only [sideLoop]
      have he := h e (List.mem_cons_self ..)
      have hes := sideLoop0_none side es fun x hx => h x (List.mem_cons_of_mem _ hx)
      split
      · rw [he]; exact hes
      · exact hes

theorem bundleLabelStep0_of_aEmpty {ends : List EdgeEnd} (h : ∀ e ∈ ends, AEmpty e.label) (isArea : Bool) (l : Label) :
    bundleLabelStep ends isArea l 0 = l := by
  unfold bundleLabelStep
  simp only [computeLabelOn0_of_aEmpty h]
  split
  · rw [sideLoop0_none Label.leftPos ends (fun e he => by simp [leftPos0, (h e he).left]),
      sideLoop0_none Label.rightPos ends (fun e he => by simp [rightPos0, (h e he).right])]
  · rfl

theorem computeLabelOn1_a (ends : List EdgeEnd) (l : Label) : (computeLabelOn ends l 1).a = l.a := by
  unfold computeLabelOn
  simp only
  split <;> rfl

theorem bundleLabelStep1_a (ends : List EdgeEnd) (isArea : Bool) (l : Label) :
    (bundleLabelStep ends isArea l 1).a = l.a := by
  unfold bundleLabelStep
  simp only
  split
  · split <;> split <;> simp [computeLabelOn1_a]
  · exact computeLabelOn1_a ends l

theorem bundleLabel_aEmpty {ends : List EdgeEnd} (h : ∀ e ∈ ends, AEmpty e.label) : AEmpty (bundleLabel ends) := by
  unfold bundleLabel AEmpty
  simp only [bundleLabelStep1_a, bundleLabelStep0_of_aEmpty h]
  split
  · exact Or.inr rfl
  · exact Or.inl rfl

/-! ### `compute_labeling` on a star of such bundles -/

theorem startPosition0_none : ∀ (ls : List Label), (∀ l ∈ ls, AEmpty l) → startPosition 0 ls none = none
  | [], _ => rfl
  | l :: ls, h => by
      simp only [startPosition]
      have hl : l.leftPos 0 = none := by simp [leftPos0, (h l (List.mem_cons_self ..)).left]
      rw [hl]
      simp only [ite_self]
      exact startPosition0_none ls fun x hx => h x (List.mem_cons_of_mem _ hx)

theorem propagate0_of_aEmpty {ls : List Label} (h : ∀ l ∈ ls, AEmpty l) : propagateSideLabels 0 ls = some ls := by
  unfold propagateSideLabels
  rw [startPosition0_none ls h]

/-- propagation for operand 1 never touches slot 0 -/
theorem propagateLoop1_a (P : TopoPos → Prop) : ∀ (ls : List Label) (cur : Pos) (ls' : List Label),
    propagateLoop 1 ls cur = some ls' → (∀ l ∈ ls, P l.a) → ∀ l ∈ ls', P l.a
  | [], _, ls', h, _ => by
      simp only [propagateLoop] at h; cases h; intro l hl; cases hl
  | l :: ls, cur, ls', h, hP => by
      have hl := hP l (List.mem_cons_self ..)
      have hrest : ∀ x ∈ ls, P x.a := fun x hx => hP x (List.mem_cons_of_mem _ hx)
      simp only [propagateLoop] at h
      generalize hl0 : (if (l.onPos 1).isNone = true then l.setOn 1 cur else l) = l0 at h
      have hl0a : P l0.a := by
        rw [← hl0]; split <;> simpa using hl
      have tail : ∀ (x : Label) (c : Pos), P x.a → (propagateLoop 1 ls c).map (x :: ·) = some ls' →
          ∀ y ∈ ls', P y.a := by
        intro x c hx hm
        cases hr : propagateLoop 1 ls c with
        | none => rw [hr] at hm; cases hm
        | some r =>
          rw [hr] at hm
          simp only [Option.map_some, Option.some.injEq] at hm
          subst hm
          intro y hy
          simp only [List.mem_cons] at hy
          rcases hy with rfl | hy
          · exact hx
          · exact propagateLoop1_a P ls c r hr hrest y hy
      by_cases hA : l0.isGeomArea 1 = true
      · rw [if_pos hA] at h
        cases hR : l0.rightPos 1 with
        | some rp =>
          rw [hR] at h
          simp only at h
          cases hL : l0.leftPos 1 with
          | none => rw [hL] at h; cases h
          | some lp => rw [hL] at h; exact tail l0 lp hl0a h
        | none =>
          rw [hR] at h
          exact tail _ cur (by simpa using hl0a) h
      · rw [if_neg hA] at h
        exact tail l0 cur hl0a h

theorem propagate1_a (P : TopoPos → Prop) {ls ls' : List Label} (h : propagateSideLabels 1 ls = some ls')
    (hP : ∀ l ∈ ls, P l.a) : ∀ l ∈ ls', P l.a := by
  unfold propagateSideLabels at h
  split at h
  · cases h; exact hP
  · exact propagateLoop1_a P ls _ ls' h hP

theorem collapseFlag0_of_aEmpty {ls : List Label} (h : ∀ l ∈ ls, AEmpty l) : collapseFlag 0 ls = false := by
  unfold collapseFlag
  split
  · rename_i l hl
    have := h l (List.mem_of_getLast? hl)
    simp [onPos0, this.on]
  · rfl

theorem fillEmpty1_a (g : Geom) (c : Bool) (pt : Pt) (l : Label) : (fillEmpty g c pt l 1).a = l.a := by
  unfold fillEmpty
  split <;> simp

/-- a star whose edge ends all come from operand B, next to an operand A that is not an area:
every bundle is `Outside` of A in all positions -/
theorem starLabels_outside {a b : Geom} (ha : (dims a == .two) = false) {c : Pt} {star : List Bundle}
    {ls : List Label} (h : starLabels a b c star = some ls) (hs : StarAEmpty star) :
    ∀ l ∈ ls, SlotOutside l.a := by
  unfold starLabels at h
  simp only at h
  have h0 : ∀ l ∈ star.map (fun bd => bundleLabel bd.ends), AEmpty l := by
    intro l hl
    simp only [List.mem_map] at hl
    obtain ⟨bd, hbd, rfl⟩ := hl
    exact bundleLabel_aEmpty (hs bd hbd)
  rw [propagate0_of_aEmpty h0] at h
  simp only at h
  split at h
  · cases h
  · rename_i ls1 h1
    have h1' : ∀ l ∈ ls1, AEmpty l := propagate1_a SlotEmpty h1 h0
    cases h
    intro l hl
    simp only [List.mem_map] at hl
    obtain ⟨l1, hl1, rfl⟩ := hl
    rw [fillEmpty1_a, collapseFlag0_of_aEmpty h1']
    have he := h1' l1 hl1
    unfold fillEmpty
    simp only [Label.isAnyEmptyAt, get0, he.isAnyEmpty, if_true, Bool.false_eq_true, if_false, ha, setAllIfEmpty0_a]
    exact he.setAllIfEmpty .outside

/-! ### atoms -/

theorem mem_optAtom {d : Dim} {pa pb : Option Pos} {t : Atom} (h : t ∈ optAtom d pa pb) :
    pa = some t.posA ∧ pb = some t.posB ∧ t.dim = d := by
  unfold optAtom at h
  split at h
  · simp only [List.mem_singleton] at h
    subst h; exact ⟨rfl, rfl, rfl⟩
  · cases h

theorem SlotOutside.on {t : TopoPos} (h : SlotOutside t) : t.on = some .outside := by
  rcases h with rfl | rfl <;> rfl

theorem SlotOutside.left {t : TopoPos} (h : SlotOutside t) : t.left = some .outside ∨ t.left = none := by
  rcases h with rfl | rfl
  · exact Or.inr rfl
  · exact Or.inl rfl

theorem SlotOutside.right {t : TopoPos} (h : SlotOutside t) : t.right = some .outside ∨ t.right = none := by
  rcases h with rfl | rfl
  · exact Or.inr rfl
  · exact Or.inl rfl

/-- a component that is `Outside` of A contributes to the Exterior row only -/
theorem labelAtoms_outside {l : Label} (h : SlotOutside l.a) : ∀ t ∈ labelAtoms l, t.posA = .outside := by
  intro t ht
  unfold labelAtoms at ht
  simp only [List.mem_append] at ht
  rcases ht with ht | ht
  · have := (mem_optAtom ht).1
    rw [onPos0, h.on] at this
    exact (Option.some.inj this).symm
  · split at ht
    · simp only [List.mem_append] at ht
      rcases ht with ht | ht
      · have := (mem_optAtom ht).1
        rw [leftPos0] at this
        rcases h.left with h' | h' <;> rw [h'] at this
        · exact (Option.some.inj this).symm
        · cases this
      · have := (mem_optAtom ht).1
        rw [rightPos0] at this
        rcases h.right with h' | h' <;> rw [h'] at this
        · exact (Option.some.inj this).symm
        · cases this
    · cases ht

/-! ### isolated edges of B against an operand of dimension 0 -/

theorem labelIsolatedEdges_outside {a : Geom} (ha : ¬ (dims a).rank > Dim.zero.rank) :
    ∀ (es : List REdge) (ls : List Label), labelIsolatedEdges a 0 es = some ls →
      (∀ e ∈ es, AEmpty e.label) → ∀ l ∈ ls, SlotOutside l.a
  | [], ls, h, _ => by
      simp only [labelIsolatedEdges] at h; cases h; intro l hl; cases hl
  | e :: es, ls, h, hes => by
      simp only [labelIsolatedEdges] at h
      have hrest : ∀ x ∈ es, AEmpty x.label := fun x hx => hes x (List.mem_cons_of_mem _ hx)
      split at h
      · split at h
        · rename_i l1 ls1 hl1 hls1
          cases h
          intro l hl
          simp only [List.mem_cons] at hl
          rcases hl with rfl | hl
          · unfold labelIsolatedEdge at hl1
            rw [if_neg ha] at hl1
            cases hl1
            rw [setAll0_a]
            exact (hes e (List.mem_cons_self ..)).setAll .outside
          · exact labelIsolatedEdges_outside ha es ls1 hls1 hrest l hl
        · cases h
      · exact labelIsolatedEdges_outside ha es ls h hrest

end Geo.Proofs.RELM
