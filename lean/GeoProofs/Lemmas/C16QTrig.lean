/-
  C16Q — part 3: the engine's constant `piQ`, range reduction, `sinQ`, `cosQ`, `sqrtQ`, `toRad`.

    * `piQ < π < piQ + 2·10^-40` (from the degree-65 Taylor polynomial evaluated exactly at two rationals);
    * `reduce x ∈ [-piQ, piQ)`; the series argument `rd (reduce x)` has `|y| ≤ 63/20`;
    * `|sinQ x − sin x| ≤ 2^-92 + |k|·4·10^-40` with `k` the reduction's multiple of `2·piQ`
      (`k = 0` on `[-piQ, piQ)`; `≤ 2^-91` for `|x| ≤ 1000`); the same for `cosQ`;
    * `sqrtQ`: `0 ≤ r`, `r² ≤ q < (r + 2^-100)²`, `|r − √q| ≤ 2^-100`.
-/
import GeoProofs.Lemmas.C16QTaylor
import Mathlib.Analysis.SpecialFunctions.Trigonometric.Bounds
import Mathlib.Analysis.SpecialFunctions.Sqrt

namespace Geo.Proofs.C16Q
open Geo Geo.Geodesy Geo.GeodesyNum

/-! ### `piQ` -/

/-- computable Taylor sum (for kernel evaluation) -/
def tsum (s : ℕ) (y : ℚ) : ℕ → ℚ
  | 0 => 0
  | n + 1 => tsum s y n + Tk s y n

theorem tsum_eq (s : ℕ) (y : ℚ) (n : ℕ) : tsum s y n = ∑ k ∈ Finset.range n, Tk s y k := by
  induction n with
  | zero => simp [tsum]
  | succ n ih => rw [tsum, ih, Finset.sum_range_succ]

theorem tsum_cast (s : ℕ) (y : ℚ) (n : ℕ) :
    ((tsum s y n : ℚ) : ℝ) = ∑ k ∈ Finset.range n, TkR s (y : ℝ) k := by
  rw [tsum_eq, Rat.cast_sum]
  exact Finset.sum_congr rfl (fun k _ => Tk_cast s y k)

theorem tsum_piQ_pos : (1 : ℚ) / 10 ^ 41 < tsum 1 piQ 33 := by decide +kernel

theorem tsum_piQ_hi_neg : tsum 1 (piQ + 2 / 10 ^ 40) 33 < -(1 : ℚ) / 10 ^ 41 := by decide +kernel

theorem piQ_bounds : (3 : ℚ) < piQ ∧ piQ < 3142 / 1000 := by
  unfold piQ; constructor <;> norm_num

theorem two_pow_190_small : (1 : ℝ) / 2 ^ 190 < 1 / 10 ^ 41 := by norm_num

/-- [T] the engine's π is below π … -/
theorem piQ_lt_pi : (piQ : ℝ) < Real.pi := by
  by_contra hcon
  have hle : Real.pi ≤ (piQ : ℝ) := not_lt.mp hcon
  have hb : |(piQ : ℝ)| ≤ 63 / 20 := by
    have := cast_abs_le (y := piQ) (c := 63 / 20) (by
      rw [abs_le]; constructor <;> [linarith [piQ_bounds.1]; linarith [piQ_bounds.2]])
    push_cast at this; exact this
  have ht := sin_taylor (piQ : ℝ) hb
  rw [← tsum_cast] at ht
  have hpos : ((1 / 10 ^ 41 : ℚ) : ℝ) < ((tsum 1 piQ 33 : ℚ) : ℝ) := Rat.cast_lt.mpr tsum_piQ_pos
  push_cast at hpos
  have h4 : (piQ : ℝ) < 4 := by
    have : ((piQ : ℚ) : ℝ) < ((3142 / 1000 : ℚ) : ℝ) := Rat.cast_lt.mpr piQ_bounds.2
    push_cast at this; linarith
  have hs : Real.sin (piQ : ℝ) ≤ 0 := by
    rw [← Real.sin_pi_sub]
    apply Real.sin_nonpos_of_nonpos_of_neg_pi_le
    · linarith
    · linarith [Real.two_le_pi]
  have := two_pow_190_small
  rw [abs_le] at ht
  linarith [ht.1, ht.2]

/-- … by less than 2·10^-40. -/
theorem pi_lt_piQ_add : Real.pi < (piQ : ℝ) + 2 / 10 ^ 40 := by
  by_contra hcon
  have hle : (piQ : ℝ) + 2 / 10 ^ 40 ≤ Real.pi := not_lt.mp hcon
  have hq : |piQ + 2 / 10 ^ 40| ≤ (63 / 20 : ℚ) := by
    rw [abs_le]; constructor
    · have := piQ_bounds.1; have : (0 : ℚ) < 2 / 10 ^ 40 := by norm_num
      linarith
    · have := piQ_bounds.2
      have : (2 : ℚ) / 10 ^ 40 < 1 / 1000 := by norm_num
      linarith
  have hb := cast_abs_le hq
  have ht := sin_taylor ((piQ + 2 / 10 ^ 40 : ℚ) : ℝ) (by push_cast at hb ⊢; exact hb)
  rw [← tsum_cast] at ht
  have hneg : ((tsum 1 (piQ + 2 / 10 ^ 40) 33 : ℚ) : ℝ) < ((-(1 : ℚ) / 10 ^ 41 : ℚ) : ℝ) :=
    Rat.cast_lt.mpr tsum_piQ_hi_neg
  push_cast at hneg ht
  have h3 : (0 : ℝ) ≤ (piQ : ℝ) + 2 / 10 ^ 40 := by
    have : ((3 : ℚ) : ℝ) < ((piQ : ℚ) : ℝ) := Rat.cast_lt.mpr piQ_bounds.1
    push_cast at this
    have : (0 : ℝ) < 2 / 10 ^ 40 := by norm_num
    linarith
  have hs : 0 ≤ Real.sin ((piQ : ℝ) + 2 / 10 ^ 40) := Real.sin_nonneg_of_nonneg_of_le_pi h3 hle
  have := two_pow_190_small
  rw [abs_le] at ht
  linarith [ht.1, ht.2]

/-- [T] `|π − piQ| ≤ 2·10^-40` -/
theorem abs_pi_sub_piQ : |Real.pi - (piQ : ℝ)| ≤ 2 / 10 ^ 40 := by
  rw [abs_le]; constructor <;> linarith [piQ_lt_pi, pi_lt_piQ_add]

/-! ### range reduction -/

/-- the multiple of `2·piQ` removed by `reduce` -/
def redK (x : ℚ) : ℤ := (x / (2 * piQ) + 1 / 2).floor

theorem reduce_eq (x : ℚ) : reduce x = x - 2 * piQ * (redK x : ℚ) := rfl

theorem piQ_pos : (0 : ℚ) < piQ := by linarith [piQ_bounds.1]

/-- [T] `reduce` lands in `[-piQ, piQ)` -/
theorem reduce_range (x : ℚ) : -piQ ≤ reduce x ∧ reduce x < piQ := by
  rw [reduce_eq]
  obtain ⟨h1, h2⟩ := floor_bounds (x / (2 * piQ) + 1 / 2)
  have hp := piQ_pos
  have e : x = x / (2 * piQ) * (2 * piQ) := by field_simp
  change ((redK x : ℤ) : ℚ) ≤ _ at h1
  change _ < ((redK x : ℤ) : ℚ) + 1 at h2
  set k : ℚ := (redK x : ℚ)
  set w := x / (2 * piQ)
  constructor <;> nlinarith

/-- `reduce` is the identity on `[-piQ, piQ)` -/
theorem redK_zero (x : ℚ) (h1 : -piQ ≤ x) (h2 : x < piQ) : redK x = 0 := by
  unfold redK
  have hp := piQ_pos
  apply le_antisymm
  · have : (x / (2 * piQ) + 1 / 2).floor < 1 := by
      rw [Rat.floor_lt_iff]; push_cast
      have : x / (2 * piQ) < 1 / 2 := by
        rw [div_lt_iff₀ (by positivity)]; linarith
      linarith
    omega
  · rw [Rat.le_floor_iff]; push_cast
    have : -(1 : ℚ) / 2 ≤ x / (2 * piQ) := by
      rw [le_div_iff₀ (by positivity)]; linarith
    linarith

theorem abs_redK_le (x : ℚ) : |(redK x : ℚ)| ≤ |x| / 6 + 1 := by
  obtain ⟨h1, h2⟩ := floor_bounds (x / (2 * piQ) + 1 / 2)
  change ((redK x : ℤ) : ℚ) ≤ _ at h1
  change _ < ((redK x : ℤ) : ℚ) + 1 at h2
  have hp := piQ_bounds.1
  have hw : |x / (2 * piQ)| ≤ |x| / 6 := by
    rw [abs_div, abs_of_pos (by linarith : (0 : ℚ) < 2 * piQ)]
    apply div_le_div_of_nonneg_left (abs_nonneg x) (by norm_num) (by linarith)
  rw [abs_le] at hw ⊢
  constructor <;> linarith [hw.1, hw.2]

/-- the argument handed to the series -/
theorem reduced_arg_range (x : ℚ) : |rd (reduce x)| ≤ 63 / 20 := by
  obtain ⟨h1, h2⟩ := reduce_range x
  have a := rd_le (reduce x)
  have b := lt_rd_add (reduce x)
  have hu : u < 1 / 1000 := by unfold u; norm_num
  have := piQ_bounds.2
  rw [abs_le]; constructor <;> linarith

/-! ### `sinQ`, `cosQ` -/

theorem sinQ_eq (x : ℚ) : sinQ x = series (rd (reduce x) * rd (reduce x)) 1 32 0 (rd (reduce x)) (rd (reduce x)) := rfl
theorem cosQ_eq (x : ℚ) : cosQ x = series (rd (reduce x) * rd (reduce x)) 0 32 0 1 1 := rfl

theorem u_cast : ((u : ℚ) : ℝ) = 1 / 2 ^ 100 := by unfold u; push_cast; ring

/-- the reduced, rounded argument against the exactly reduced real argument -/
theorem reduced_arg_close (x : ℚ) :
    |((rd (reduce x) : ℚ) : ℝ) - ((x : ℝ) - (redK x : ℝ) * (2 * Real.pi))| ≤
      1 / 2 ^ 100 + |(redK x : ℝ)| * (4 / 10 ^ 40) := by
  have h1 := cast_abs_le (abs_rd_sub (reduce x))
  rw [u_cast] at h1
  have h2 := abs_pi_sub_piQ
  have e : ((rd (reduce x) : ℚ) : ℝ) - ((x : ℝ) - (redK x : ℝ) * (2 * Real.pi)) =
      (((rd (reduce x) - reduce x : ℚ)) : ℝ) + 2 * (redK x : ℝ) * (Real.pi - (piQ : ℝ)) := by
    rw [reduce_eq]; push_cast; ring
  rw [e]
  refine le_trans (abs_add_le _ _) (add_le_add h1 ?_)
  rw [abs_mul, abs_mul, abs_of_pos (by norm_num : (0 : ℝ) < 2)]
  have := abs_nonneg (redK x : ℝ)
  nlinarith

/-- [T] accuracy of the engine's sine for EVERY rational argument: series rounding and truncation
(2^-93), rounding of the reduced argument (2^-100), and the error of `piQ` times the reduction multiple. -/
theorem ratSin_close (x : ℚ) :
    |((sinQ x : ℚ) : ℝ) - Real.sin (x : ℝ)| ≤ 1 / 2 ^ 92 + |(redK x : ℝ)| * (4 / 10 ^ 40) := by
  have h1 := sinSeries_close (rd (reduce x)) (reduced_arg_range x)
  rw [← sinQ_eq] at h1
  have h2 := Real.abs_sin_sub_sin_le ((rd (reduce x) : ℚ) : ℝ) ((x : ℝ) - (redK x : ℝ) * (2 * Real.pi))
  rw [Real.sin_sub_int_mul_two_pi] at h2
  have h3 := reduced_arg_close x
  unfold epsSeries at h1
  have e : ((sinQ x : ℚ) : ℝ) - Real.sin (x : ℝ) =
      (((sinQ x : ℚ) : ℝ) - Real.sin ((rd (reduce x) : ℚ) : ℝ)) +
        (Real.sin ((rd (reduce x) : ℚ) : ℝ) - Real.sin (x : ℝ)) := by ring
  rw [e]
  refine le_trans (abs_add_le _ _) ?_
  have : (1 : ℝ) / 2 ^ 93 + 1 / 2 ^ 100 ≤ 1 / 2 ^ 92 := by norm_num
  linarith

/-- [T] the same for the cosine. -/
theorem ratCos_close (x : ℚ) :
    |((cosQ x : ℚ) : ℝ) - Real.cos (x : ℝ)| ≤ 1 / 2 ^ 92 + |(redK x : ℝ)| * (4 / 10 ^ 40) := by
  have h1 := cosSeries_close (rd (reduce x)) (reduced_arg_range x)
  rw [← cosQ_eq] at h1
  have h2 := Real.abs_cos_sub_cos_le ((rd (reduce x) : ℚ) : ℝ) ((x : ℝ) - (redK x : ℝ) * (2 * Real.pi))
  rw [Real.cos_sub_int_mul_two_pi] at h2
  have h3 := reduced_arg_close x
  unfold epsSeries at h1
  have e : ((cosQ x : ℚ) : ℝ) - Real.cos (x : ℝ) =
      (((cosQ x : ℚ) : ℝ) - Real.cos ((rd (reduce x) : ℚ) : ℝ)) +
        (Real.cos ((rd (reduce x) : ℚ) : ℝ) - Real.cos (x : ℝ)) := by ring
  rw [e]
  refine le_trans (abs_add_le _ _) ?_
  have : (1 : ℝ) / 2 ^ 93 + 1 / 2 ^ 100 ≤ 1 / 2 ^ 92 := by norm_num
  linarith

/-- [T] on the interval the reduction maps to, `[-piQ, piQ)`, nothing is subtracted: 2^-92. -/
theorem ratSin_close_reduced (x : ℚ) (h1 : -piQ ≤ x) (h2 : x < piQ) :
    |((sinQ x : ℚ) : ℝ) - Real.sin (x : ℝ)| ≤ 1 / 2 ^ 92 := by
  have h := ratSin_close x
  rw [redK_zero x h1 h2] at h
  simpa using h

theorem ratCos_close_reduced (x : ℚ) (h1 : -piQ ≤ x) (h2 : x < piQ) :
    |((cosQ x : ℚ) : ℝ) - Real.cos (x : ℝ)| ≤ 1 / 2 ^ 92 := by
  have h := ratCos_close x
  rw [redK_zero x h1 h2] at h
  simpa using h

theorem redK_small (x : ℚ) (hx : |x| ≤ 1000) : |(redK x : ℝ)| * (4 / 10 ^ 40) ≤ 1 / 2 ^ 92 := by
  have h := abs_redK_le x
  have h' : |(redK x : ℚ)| ≤ 200 := by linarith
  have h'' := cast_abs_le h'
  push_cast at h''
  have : (200 : ℝ) * (4 / 10 ^ 40) ≤ 1 / 2 ^ 92 := by norm_num
  nlinarith [abs_nonneg (redK x : ℝ)]

/-- [T] for every argument up to 1000 in absolute value (the driver's are below 20): 2^-91. -/
theorem ratSin_close_1000 (x : ℚ) (hx : |x| ≤ 1000) :
    |((sinQ x : ℚ) : ℝ) - Real.sin (x : ℝ)| ≤ 1 / 2 ^ 91 := by
  have h := ratSin_close x
  have h2 := redK_small x hx
  have : (1 : ℝ) / 2 ^ 92 + 1 / 2 ^ 92 = 1 / 2 ^ 91 := by norm_num
  linarith

theorem ratCos_close_1000 (x : ℚ) (hx : |x| ≤ 1000) :
    |((cosQ x : ℚ) : ℝ) - Real.cos (x : ℝ)| ≤ 1 / 2 ^ 91 := by
  have h := ratCos_close x
  have h2 := redK_small x hx
  have : (1 : ℝ) / 2 ^ 92 + 1 / 2 ^ 92 = 1 / 2 ^ 91 := by norm_num
  linarith

/-! ### `sqrtQ` -/

theorem sqrtQ_nonpos (q : ℚ) (hq : q ≤ 0) : sqrtQ q = 0 := by simp [sqrtQ, hq]

theorem sqrtQ_pos_eq (q : ℚ) (hq : 0 < q) :
    sqrtQ q = (Nat.sqrt (q * (grid : ℚ) * (grid : ℚ)).floor.toNat : ℚ) / (grid : ℚ) := by
  simp [sqrtQ, not_le.mpr hq]

/-- [T] the grid square root (pure rational arithmetic): `r ≥ 0` and `r² ≤ q < (r + 2^-100)²` for
`q ≥ 0`. -/
theorem ratSqrt_close (q : ℚ) (hq : 0 ≤ q) :
    0 ≤ sqrtQ q ∧ sqrtQ q ^ 2 ≤ q ∧ q < (sqrtQ q + u) ^ 2 := by
  rcases eq_or_lt_of_le hq with h0 | hpos
  · rw [← h0, sqrtQ_nonpos 0 le_rfl]
    refine ⟨le_rfl, by norm_num, ?_⟩
    have := u_pos; positivity
  · rw [sqrtQ_pos_eq q hpos, grid_cast]
    set G : ℚ := 2 ^ 100 with hG
    have hGpos : 0 < G := by positivity
    obtain ⟨f1, f2⟩ := floor_bounds (q * G * G)
    have hfl : 0 ≤ (q * G * G).floor := by
      rw [Rat.le_floor_iff]; push_cast; positivity
    set n : ℕ := (q * G * G).floor.toNat with hn
    have hnf : ((n : ℕ) : ℚ) = (((q * G * G).floor : ℤ) : ℚ) := by
      rw [hn]; exact_mod_cast Int.toNat_of_nonneg hfl
    rw [← hnf] at f1 f2
    have s1 : ((Nat.sqrt n * Nat.sqrt n : ℕ) : ℚ) ≤ (n : ℚ) := by exact_mod_cast Nat.sqrt_le n
    have s2 : ((n + 1 : ℕ) : ℚ) ≤ (((Nat.sqrt n).succ * (Nat.sqrt n).succ : ℕ) : ℚ) := by
      exact_mod_cast Nat.succ_le_of_lt (Nat.lt_succ_sqrt n)
    push_cast at s1 s2
    set r : ℚ := (Nat.sqrt n : ℚ) with hr
    have hr0 : 0 ≤ r := by rw [hr]; positivity
    have hu : u = 1 / G := rfl
    refine ⟨div_nonneg hr0 hGpos.le, ?_, ?_⟩
    · rw [div_pow, div_le_iff₀ (by positivity)]
      nlinarith
    · rw [hu, ← add_div, div_pow, lt_div_iff₀ (by positivity)]
      nlinarith

/-- [T] the residual form: `|r² − q| ≤ 2·r·2^-100 + 2^-200`. -/
theorem ratSqrt_residual (q : ℚ) (hq : 0 ≤ q) :
    |sqrtQ q ^ 2 - q| ≤ 2 * sqrtQ q * u + u ^ 2 := by
  obtain ⟨h0, h1, h2⟩ := ratSqrt_close q hq
  rw [abs_le]; constructor <;> nlinarith

/-- [T] against the real square root: within one grid step, from below. -/
theorem ratSqrt_real (q : ℚ) (hq : 0 ≤ q) :
    ((sqrtQ q : ℚ) : ℝ) ≤ Real.sqrt (q : ℝ) ∧ Real.sqrt (q : ℝ) < ((sqrtQ q : ℚ) : ℝ) + 1 / 2 ^ 100 := by
  obtain ⟨h0, h1, h2⟩ := ratSqrt_close q hq
  have h0R : (0 : ℝ) ≤ ((sqrtQ q : ℚ) : ℝ) := by exact_mod_cast h0
  have h1R : ((sqrtQ q : ℚ) : ℝ) ^ 2 ≤ (q : ℝ) := by exact_mod_cast h1
  have h2R : (q : ℝ) < (((sqrtQ q : ℚ) : ℝ) + 1 / 2 ^ 100) ^ 2 := by
    have := (Rat.cast_lt (K := ℝ)).mpr h2
    rw [← u_cast]; push_cast at this ⊢; exact this
  constructor
  · exact Real.le_sqrt_of_sq_le h1R
  · rw [Real.sqrt_lt' (by positivity)]; exact h2R

end Geo.Proofs.C16Q
