/-
  C02X, part 3: members of a valid MultiPolygon — no point is interior to one member and on the
  boundary of another (`multiPolyValid_apart`), hence `coordinate_position = locate` for every
  valid MultiPolygon with no hypothesis left.

  `multiPolyValid` demands `II = F` in `relateParts (partsOfPoly m) (partsOfPoly m')`. Let `p` be
  interior to `m` and on a ring of `m'`. On the edge of `m'` through `p` take the elementary
  sub-segment of the arrangement `(m, m')` around / adjacent to `p` (`adj_elem`): its midpoint is off
  every ring of `m` with the winding numbers of `p`, so both face samples beside it are interior to
  `m` (`windingE_perturb`), and one of them is interior to `m'` (`valid_side_inside`). That face atom
  puts `2` into `II`.
-/
import GeoProofs.Lemmas.C02XSide

set_option linter.unusedSimpArgs false
set_option linter.unusedVariables false

namespace Geo.Proofs.C02X
open Geo Geo.Proofs.Kernel Geo.Proofs.Spec Geo.Proofs.C02Q Geo.Proofs.WIND

/-! ### reading `locate` of a single polygon -/

theorem locate_polygon_inside {q : Poly} {p : Pt} (h : locate (.polygon q) p = .inside) :
    (∀ r ∈ q.rings, onAnySeg p (segs r) = false) ∧ windingE (EPt.ofPt p) q.ext ≠ 0 ∧
      ∀ h ∈ q.ints, windingE (EPt.ofPt p) h = 0 := by
  have hl : locate (.polygon q) p = locateParts ⟨[], [], [q]⟩ p := rfl
  rw [hl, Geo.Proofs.Loc.locateParts_poly] at h
  by_cases hc : (!(q.rings.any fun r => onAnySeg p (segs r)) &&
      (windingE (EPt.ofPt p) q.ext != 0 && q.ints.all (fun h => windingE (EPt.ofPt p) h == 0))) = true
  · simp only [Bool.and_eq_true, Bool.not_eq_true', List.any_eq_false, bne_iff_ne, ne_eq,
      List.all_eq_true, beq_iff_eq] at hc
    obtain ⟨h1, h2, h3⟩ := hc
    refine ⟨fun r hr => ?_, h2, h3⟩
    cases hon : onAnySeg p (segs r) with
    | false => rfl
    | true => exact absurd hon (h1 r hr)
  · rw [if_neg hc] at h
    split at h <;> cases h

theorem locate_polygon_boundary {q : Poly} {p : Pt} (hok : ∀ r ∈ q.rings, Geo.Proofs.Loc.RingOK r)
    (h : locate (.polygon q) p = .onBoundary) : ∃ r ∈ q.rings, onAnySeg p (segs r) = true := by
  have hl : locate (.polygon q) p = locateParts ⟨[], [], [q]⟩ p := rfl
  rw [hl, Geo.Proofs.Loc.locateParts_poly] at h
  split at h
  · cases h
  · split at h
    · rename_i hb
      rw [Bool.or_eq_true] at hb
      rcases hb with hb | hb
      · obtain ⟨r, hr, hon⟩ := List.any_eq_true.mp hb
        exact ⟨r, hr, hon⟩
      · obtain ⟨r, hr, hon⟩ := List.any_eq_true.mp hb
        rw [Geo.Proofs.Loc.ring_ne_single (hok r hr)] at hon
        cases hon
    · cases h

theorem rings_ok {q : Poly} (hv : polyValid q = true) : ∀ r ∈ q.rings, Geo.Proofs.Loc.RingOK r :=
  fun r hr => ringOK_of_simple (rings_simple hv r hr)

theorem locateFace_partsOfPoly (q : Poly) (e : EPt) :
    locateFace (partsOfPoly q) e = if insidePolyE e q = true then .inside else .outside := by
  simp [locateFace, partsOfPoly]

theorem allSegs_partsOfPoly (q : Poly) : (partsOfPoly q).allSegs = q.rings.flatMap segs := by
  simp [partsOfPoly, Parts.allSegs, Parts.curveSegs, Parts.areaSegs]

/-! ### the core -/

/-- **two valid polygons with `II = F`: no point is interior to the first and on the boundary of the
second** -/
theorem valid_polys_apart {m m' : Poly} (hv : polyValid m = true) (hv' : polyValid m' = true)
    (hii : (relateParts (partsOfPoly m) (partsOfPoly m')).ii = .empty) (p : Pt)
    (hin : locate (.polygon m) p = .inside) : locate (.polygon m') p ≠ .onBoundary := by
  intro hb
  have hii' : (relateParts (partsOfPoly m) (partsOfPoly m')).get .inside .inside = .empty := hii
  obtain ⟨hoffm, hwe, hwh⟩ := locate_polygon_inside hin
  obtain ⟨r', hr', hon⟩ := locate_polygon_boundary (rings_ok hv') hb
  obtain ⟨a, b, hse, hab, hpm⟩ := simple_on_nondeg_edge (rings_simple hv' r' hr') hon
  have hsubm : ∀ r ∈ m.rings, ∀ s ∈ segs r, s ∈ (partsOfPoly m).allSegs ++ (partsOfPoly m').allSegs := by
    intro r hr s hs
    rw [allSegs_partsOfPoly]
    exact List.mem_append_left _ (List.mem_flatMap.mpr ⟨r, hr, hs⟩)
  have hsubm' : ∀ r ∈ m'.rings, ∀ s ∈ segs r, s ∈ (partsOfPoly m).allSegs ++ (partsOfPoly m').allSegs := by
    intro r hr s hs
    rw [allSegs_partsOfPoly m']
    exact List.mem_append_right _ (List.mem_flatMap.mpr ⟨r, hr, hs⟩)
  have hs : (a, b) ∈ (partsOfPoly m).allSegs ++ (partsOfPoly m').allSegs := hsubm' r' hr' _ hse
  obtain ⟨u, v, E, _, hall⟩ := adj_elem hs hab hpm
  have hmw := E.midpoint_within
  obtain ⟨_, hnv, hatoms⟩ := segAtoms_of_pair (partsOfPoly m) (partsOfPoly m') hab E.pair E.ne
  -- the midpoint is a coordinate of no ring of either polygon
  have hncoord : ∀ r : List Pt, Geo.Proofs.Loc.RingOK r →
      (∀ s ∈ segs r, s ∈ (partsOfPoly m).allSegs ++ (partsOfPoly m').allSegs) → midpoint u v ∉ r := by
    intro r hok hsub hmem
    obtain ⟨s, hs1, hs2⟩ := Geo.Proofs.C12.mem_segs_end r _ hok.2 hmem
    obtain ⟨e1, e2⟩ := ends_mem_vertsOf (hsub s hs1)
    rcases hs2 with h | h
    · exact hnv (h ▸ e1)
    · exact hnv (h ▸ e2)
  -- both face samples are interior to `m`
  have hinm : ∀ x1 y1 : Rat, insidePolyE ⟨(midpoint u v).x, x1, (midpoint u v).y, y1⟩ m = true := by
    intro x1 y1
    have hext : m.ext ∈ m.rings := by simp [Poly.rings]
    unfold insidePolyE
    rw [Bool.and_eq_true]
    constructor
    · obtain ⟨hoff, hw⟩ := hall m.ext (rings_ok hv _ hext).1 (hsubm _ hext) (hoffm _ hext)
      rw [windingE_perturb m.ext (rings_ok hv _ hext).1 _ x1 y1 hoff, hw]
      simpa using hwe
    · rw [List.all_eq_true]
      intro h hh
      have hmem : h ∈ m.rings := by simp [Poly.rings, hh]
      obtain ⟨hoff, hw⟩ := hall h (rings_ok hv _ hmem).1 (hsubm _ hmem) (hoffm _ hmem)
      rw [windingE_perturb h (rings_ok hv _ hmem).1 _ x1 y1 hoff, hw, hwh h hh]; rfl
  have hmemA : ∀ x, IsAtomAt (partsOfPoly m) (partsOfPoly m') a b (midpoint u v) x →
      x ∈ atomsOf (partsOfPoly m) (partsOfPoly m') := by
    intro x hx
    unfold atomsOf
    exact List.mem_append_right _ (List.mem_flatMap.mpr ⟨(a, b), hs, hatoms x hx⟩)
  have hside := valid_side_inside hv' hr' hse hmw.1
    (fun r hr => hncoord r (rings_ok hv' r hr) (hsubm' r hr))
  rcases hside with hL | hR
  · have hA : locateFace (partsOfPoly m) (faceL a b (midpoint u v)) = .inside := by
      rw [locateFace_partsOfPoly]; exact if_pos (hinm _ _)
    have hB : locateFace (partsOfPoly m') (faceL a b (midpoint u v)) = .inside := by
      rw [locateFace_partsOfPoly, if_pos hL]
    exact cell_empty_no_atom hii' (hmemA _ (Or.inr (Or.inl rfl))) hA hB
  · have hA : locateFace (partsOfPoly m) (faceR a b (midpoint u v)) = .inside := by
      rw [locateFace_partsOfPoly]; exact if_pos (hinm _ _)
    have hB : locateFace (partsOfPoly m') (faceR a b (midpoint u v)) = .inside := by
      rw [locateFace_partsOfPoly, if_pos hR]
    exact cell_empty_no_atom hii' (hmemA _ (Or.inr (Or.inr rfl))) hA hB

/-- the same with the matrix of the operands in the other order -/
theorem valid_polys_apart' {m m' : Poly} (hv : polyValid m = true) (hv' : polyValid m' = true)
    (hii : (relateParts (partsOfPoly m') (partsOfPoly m)).ii = .empty) (p : Pt)
    (hin : locate (.polygon m) p = .inside) : locate (.polygon m') p ≠ .onBoundary := by
  apply valid_polys_apart hv hv' _ p hin
  rw [relateParts_transpose (partsOfPoly m') (partsOfPoly m)]
  generalize relateParts (partsOfPoly m') (partsOfPoly m) = M at hii ⊢
  exact hii

/-! ### the member-pair clause of `multiPolyValid` -/

theorem multiPolyValid_members {ps : List Poly} (h : multiPolyValid ps = true) :
    ∀ m ∈ ps, polyValid m = true := by
  unfold multiPolyValid at h
  rw [Bool.and_eq_true, List.all_eq_true] at h
  exact h.1

theorem multiPolyValid_pairs {ps : List Poly} (h : multiPolyValid ps = true) {i j : Nat} (hij : i < j)
    {p1 p2 : Poly} (e1 : ps[i]? = some p1) (e2 : ps[j]? = some p2) :
    (relateParts (partsOfPoly p1) (partsOfPoly p2)).ii = .empty ∧
      dimLe0 (relateParts (partsOfPoly p1) (partsOfPoly p2)).bb = true := by
  unfold multiPolyValid at h
  rw [Bool.and_eq_true] at h
  have hs1 : (ps.map (fun _ => ((⟨0, 0⟩ : Pt), (⟨0, 0⟩ : Pt))))[i]? = some (⟨0, 0⟩, ⟨0, 0⟩) := by
    rw [List.getElem?_map, e1]; rfl
  have hs2 : (ps.map (fun _ => ((⟨0, 0⟩ : Pt), (⟨0, 0⟩ : Pt))))[j]? = some (⟨0, 0⟩, ⟨0, 0⟩) := by
    rw [List.getElem?_map, e2]; rfl
  have := Geo.Proofs.C12.allPairs_spec h.2 hij hs1 hs2
  simp only [e1, e2, Bool.and_eq_true, beq_iff_eq] at this
  exact this

/-- **members of a valid MultiPolygon: no point is interior to one member and on the boundary of
another** (the hypothesis `hd` of `coordPos_multiPolygon_eq_locate_valid_partial`). -/
theorem multiPolyValid_apart {ps : List Poly} (hv : multiPolyValid ps = true) (p : Pt) :
    ∀ m ∈ ps, ∀ m' ∈ ps, locate (.polygon m) p = .inside → locate (.polygon m') p ≠ .onBoundary := by
  intro m hm m' hm' hin
  have hvm := multiPolyValid_members hv m hm
  have hvm' := multiPolyValid_members hv m' hm'
  obtain ⟨i, hi⟩ := List.getElem?_of_mem hm
  obtain ⟨j, hj⟩ := List.getElem?_of_mem hm'
  rcases lt_trichotomy i j with hij | hij | hij
  · exact valid_polys_apart hvm hvm' (multiPolyValid_pairs hv hij hi hj).1 p hin
  · subst hij
    have : m = m' := by rw [hi] at hj; exact Option.some.inj hj
    subst this
    rw [hin]; intro h; cases h
  · exact valid_polys_apart' hvm hvm' (multiPolyValid_pairs hv hij hj hi).1 p hin

/-- **MultiPolygon, OGC-valid: `coordinate_position` is the specification's point location at every
point.** -/
theorem coordPos_multiPolygon_valid (ps : List Poly) (p : Pt) (hv : multiPolyValid ps = true) :
    coordPos (.multiPolygon ps) p = locate (.multiPolygon ps) p :=
  Geo.Proofs.Loc.coordPos_multiPolygon_eq_locate_of ps p
    (fun m hm => coordPos_polygon_valid_full m p (multiPolyValid_members hv m hm))
    (multiPolyValid_apart hv p)

end Geo.Proofs.C02X
