/-
  C02X, part 10: every geometry of the validity domain against a Point.

  * `coordPos_dom`: `coordinate_position g p = locate g p` for every `g` of the domain (all ten types,
    nested collections with pairwise disjoint members), away from known finding K9
    (`noK9`: `p` is an end point of at most one open member of every MultiLineString inside `g`);
  * `intersectsM_dom_point`: `g.intersects(Point)` = "not `FF*FF****`" on the specification, no K9 clause;
  * `containsM_dom_point`: `g.contains(Point)` = `T*****FF*` on the specification;
  * `intersectsM_point_symm`: `Point.intersects(g) = g.intersects(Point)` for every `g` (all inputs).
-/
import GeoProofs.Lemmas.C02XAcc
import GeoProofs.Lemmas.C02XCommon
import GeoProofs.Lemmas.C02XMulti
import GeoProofs.Lemmas.C02XSegs
import GeoProofs.Lemmas.C02QContains
import GeoModel.Contains

set_option linter.unusedSimpArgs false
set_option linter.unusedVariables false

namespace Geo.Proofs.C02X
open Geo Geo.Proofs.Kernel Geo.Proofs.Spec Geo.Proofs.C02Q Geo.Proofs.WIND

/-! ### members of a domain collection -/

theorem inDomainList_mem : ∀ {gs : List Geom}, inDomainList gs = true → ∀ g ∈ gs, inDomain g = true
  | [], _, g, hg => by cases hg
  | x :: t, h, g, hg => by
      simp only [inDomainList, Bool.and_eq_true] at h
      rcases List.mem_cons.mp hg with rfl | hg
      · exact h.1
      · exact inDomainList_mem h.2 g hg

theorem inDomain_collection {gs : List Geom} (h : inDomain (.collection gs) = true) :
    collectionOk gs = true ∧ inDomainList gs = true := by
  simpa only [inDomain, Bool.and_eq_true] using h

theorem collectionOk_pairs {gs : List Geom} (h : collectionOk gs = true) {i j : Nat} (hij : i < j)
    {g1 g2 : Geom} (e1 : gs[i]? = some g1) (e2 : gs[j]? = some g2) :
    Gen.isIntersects (relateSpec g1 g2) = false := by
  unfold collectionOk at h
  simp only [Bool.and_eq_true] at h
  have hs1 : (gs.map (fun _ => ((⟨0, 0⟩ : Pt), (⟨0, 0⟩ : Pt))))[i]? = some (⟨0, 0⟩, ⟨0, 0⟩) := by
    rw [List.getElem?_map, e1]; rfl
  have hs2 : (gs.map (fun _ => ((⟨0, 0⟩ : Pt), (⟨0, 0⟩ : Pt))))[j]? = some (⟨0, 0⟩, ⟨0, 0⟩) := by
    rw [List.getElem?_map, e2]; rfl
  have := Geo.Proofs.C12.allPairs_spec h.2 hij hs1 hs2
  simp only [e1, e2, Bool.and_eq_true, beq_iff_eq] at this
  obtain ⟨⟨⟨h1, h2⟩, h3⟩, h4⟩ := this
  simp [Gen.isIntersects, Gen.isDisjoint, h1, h2, h3, h4]

/-- **members of a domain collection are pairwise disjoint as point sets**: at every point at most
one member is not `Outside` -/
theorem collection_apart {gs : List Geom} (hok : collectionOk gs = true) (hd : inDomainList gs = true)
    (p : Pt) : gs.Pairwise (ApartAt p) := by
  rw [List.pairwise_iff_getElem]
  intro i j hi hj hij
  have c1 := (dom_facts _ (inDomainList_mem hd _ (List.getElem_mem hi))).closed
  have c2 := (dom_facts _ (inDomainList_mem hd _ (List.getElem_mem hj))).closed
  have hf := collectionOk_pairs hok hij (List.getElem?_eq_getElem hi) (List.getElem?_eq_getElem hj)
  unfold ApartAt
  by_cases h1 : locate gs[i] p = .outside
  · exact Or.inl h1
  · by_cases h2 : locate gs[j] p = .outside
    · exact Or.inr h2
    · exfalso
      have : Gen.isIntersects (relateSpec gs[i] gs[j]) = true :=
        (isIntersects_iff_common_point_closed c1 c2).mpr ⟨p, h1, h2⟩
      rw [hf] at this; cases this

/-! ### away from K9 -/

mutual
/-- `p` is an end point of at most one open member of every MultiLineString inside `g` -/
def noK9 (p : Pt) : Geom → Bool
  | .multiLineString ls => decide (endpointCount p ls ≤ 1)
  | .collection gs => noK9List p gs
  | .point _ | .line _ _ | .lineString _ | .polygon _ | .multiPoint _ | .multiPolygon _
  | .rect _ _ | .triangle _ _ _ => true
def noK9List (p : Pt) : List Geom → Bool
  | [] => true
  | g :: gs => noK9 p g && noK9List p gs
end

/-! ### `coordinate_position` on the whole domain -/

theorem polygon_dom_cases {q : Poly} (h : inDomain (.polygon q) = true) :
    (q.ext = [] ∧ q.ints = []) ∨ polyValid q = true := by
  have hv : (q.ext.isEmpty && q.ints.isEmpty) = true ∨ polyValid q = true := by
    simpa [inDomain, validGeom] using h
  rcases hv with he | hv
  · rw [Bool.and_eq_true, List.isEmpty_iff, List.isEmpty_iff] at he
    exact Or.inl he
  · exact Or.inr hv

theorem coordPos_polygon_dom (q : Poly) (p : Pt) (h : inDomain (.polygon q) = true) :
    coordPos (.polygon q) p = locate (.polygon q) p := by
  rcases polygon_dom_cases h with ⟨he, hi⟩ | hv
  · obtain ⟨ext, ints⟩ := q
    simp only at he hi
    subst he; subst hi
    have hl : locate (.polygon ⟨[], []⟩) p = locateParts ⟨[], [], [⟨[], []⟩]⟩ p := rfl
    rw [hl, Geo.Proofs.Loc.locateParts_poly]
    simp [coordPos, calcPos, calcPolygon, PosAcc.result, Poly.rings, segs, onAnySeg, windingE]
  · exact coordPos_polygon_valid_full q p hv

theorem rect_dom {mn mx : Pt} (h : inDomain (.rect mn mx) = true) : mn.x < mx.x ∧ mn.y < mx.y := by
  simpa [inDomain, validGeom] using h

theorem triangle_dom {a b c : Pt} (h : inDomain (.triangle a b c) = true) : cross a b c ≠ 0 := by
  have : orient a b c ≠ .col := by simpa [inDomain, validGeom] using h
  intro e
  exact this ((orient_col_iff a b c).mpr e)

theorem multiPolygon_dom {ps : List Poly} (h : inDomain (.multiPolygon ps) = true) :
    multiPolyValid ps = true := by
  simpa [inDomain, validGeom] using h

mutual
/-- **`coordinate_position` is the specification's point location for every geometry of the validity
domain**, away from K9. Full statement (no `noK9`): false, see `coordPos_mls_ne_locate_witness`
(open known finding K9). -/
theorem coordPos_dom : ∀ (g : Geom) (p : Pt), inDomain g = true → noK9 p g = true →
    coordPos g p = locate g p
  | .point q, p, _, _ => Geo.Proofs.Loc.coordPos_point_eq_locate q p
  | .line a b, p, _, _ => Geo.Proofs.Loc.coordPos_line_eq_locate a b p
  | .lineString cs, p, _, _ => Geo.Proofs.Loc.coordPos_lineString_eq_locate cs p
  | .multiPoint qs, p, _, _ => Geo.Proofs.Loc.coordPos_multiPoint_eq_locate qs p
  | .triangle a b c, p, _, _ => Geo.Proofs.Loc.coordPos_triangle_eq_locate a b c p
  | .rect mn mx, p, h, _ => Geo.Proofs.Loc.coordPos_rect_eq_locate mn mx p (rect_dom h).1 (rect_dom h).2
  | .polygon q, p, h, _ => coordPos_polygon_dom q p h
  | .multiLineString ls, p, _, hk =>
      Geo.Proofs.Loc.coordPos_mls_eq_locate_of_count ls p (by simpa [noK9] using hk)
  | .multiPolygon ps, p, h, _ => coordPos_multiPolygon_valid ps p (multiPolygon_dom h)
  | .collection gs, p, h, hk => by
      obtain ⟨hok, hl⟩ := inDomain_collection h
      have hk' : noK9List p gs = true := by simpa [noK9] using hk
      have hm := coordPos_dom_list gs p hl hk'
      have := coordPos_list gs p hm (collection_apart hok hl p) ⟨false, 0⟩ (Same.refl _)
      show (calcPos (.collection gs) p ⟨false, 0⟩).result = locateParts (parts (.collection gs)) p
      simpa only [calcPos, parts] using this
theorem coordPos_dom_list : ∀ (gs : List Geom) (p : Pt), inDomainList gs = true → noK9List p gs = true →
    ∀ g ∈ gs, coordPos g p = locate g p
  | [], _, _, _ => fun g hg => by cases hg
  | x :: t, p, h, hk => by
      simp only [inDomainList, Bool.and_eq_true] at h
      simp only [noK9List, Bool.and_eq_true] at hk
      intro g hg
      rcases List.mem_cons.mp hg with e | hg
      · rw [e]; exact coordPos_dom x p h.1 hk.1
      · exact coordPos_dom_list t p h.2 hk.2 g hg
end

/-! ### `intersects(Point)` on the whole domain -/

theorem locate_point_self (c : Pt) : locate (.point c) c = .inside := by
  simp [locate, parts, locateParts, Parts.areaSegs, Parts.curveSegs, onAnySeg]

theorem bbox_point (c : Pt) : ∀ mn mx, boundingRect (.point c) = some (mn, mx) → InBox mn mx c := by
  intro mn mx h
  simp only [boundingRect, rectNewPts, SM.rectNew, lt_self_iff_false, if_false, Option.some.injEq,
    Prod.mk.injEq] at h
  obtain ⟨rfl, rfl⟩ := h
  exact ⟨le_refl _, le_refl _, le_refl _, le_refl _⟩

/-- the bounding-box early return of `X: Intersects<Point>` loses nothing on the domain -/
theorem disjointBB_point_outside {g : Geom} (hd : inDomain g = true) (c : Pt)
    (h : disjointBB g (.point c) = true) : locate g c = .outside := by
  rcases disjointBB_no_common_point hd (by rfl : inDomain (.point c) = true) h c with h | h
  · exact h
  · rw [locate_point_self] at h; cases h

theorem isx_mls_point (ls : List (List Pt)) (c : Pt) :
    intersectsM (.multiLineString ls) (.point c) = (locate (.multiLineString ls) c != .outside) := by
  have hloc : (locate (.multiLineString ls) c != .outside) = onAnySeg c (ls.flatMap segs) := by
    unfold locate
    simp only [parts]
    rw [Geo.Proofs.Loc.locateParts_noAreas]
    by_cases hon : onAnySeg c (ls.flatMap segs) = true
    · rw [hon]; simp only [if_true]; split <;> rfl
    · have : onAnySeg c (ls.flatMap segs) = false := by simpa using hon
      rw [this]; simp
  have hin : ∀ cs : List Pt, (if disjointBB (.lineString cs) (.point c) = true then false
      else (segs cs).any (fun s => vsPiece (.point c) (.line s.1 s.2))) = onAnySeg c (segs cs) := by
    intro cs
    rw [← isxFlat_lineString_point]
    simp only [vsPiece, isxFlat, coordX, lineX]
  rw [hloc, intersectsM]
  simp only [hin]
  rw [← Geo.Proofs.Loc.onAnySeg_flatMap]
  by_cases hd : disjointBB (.multiLineString ls) (.point c) = true
  · rw [if_pos hd]
    symm
    cases hon : onAnySeg c (ls.flatMap segs) with
    | false => rfl
    | true =>
      exfalso
      rw [Geo.Proofs.Spec.onAnySeg_iff] at hon
      obtain ⟨t, ht, hl⟩ := hon
      have := disjointBB_false_of_common (a := .multiLineString ls) (b := .point c) (x := c)
        (linear_seg_in_bbox (.multiLineString ls) rfl (by rw [curveSegs_mls]; exact ht)
          ((lineCoord_iff _ _ _).mp hl)) (bbox_point c)
      rw [this] at hd; cases hd
  · rw [if_neg hd]

theorem isx_multiPolygon_point (ps : List Poly) (c : Pt) (hd : inDomain (.multiPolygon ps) = true) :
    intersectsM (.multiPolygon ps) (.point c) = (locate (.multiPolygon ps) c != .outside) := by
  have hv := multiPolygon_dom hd
  have hmem : ∀ q ∈ ps, vsPiece (.point c) (.polygon q) = (locate (.polygon q) c != .outside) := by
    intro q hq
    simp only [vsPiece, isxFlat, coordX, polyCoord]
    rw [coordPos_polygon_valid_full q c (multiPolyValid_members hv q hq)]
  rw [intersectsM]
  by_cases hdb : disjointBB (.multiPolygon ps) (.point c) = true
  · rw [if_pos hdb, disjointBB_point_outside hd c hdb]; rfl
  · rw [if_neg hdb, Geo.Proofs.Loc.locate_multiPolygon]
    by_cases hi : (ps.any fun m => locate (.polygon m) c == .inside) = true
    · rw [if_pos hi]
      obtain ⟨m, hm, h⟩ := List.any_eq_true.mp hi
      have : (ps.any fun q => vsPiece (.point c) (.polygon q)) = true := by
        rw [List.any_eq_true]
        refine ⟨m, hm, ?_⟩
        rw [hmem m hm]
        have : locate (.polygon m) c = .inside := by simpa using h
        rw [this]; rfl
      rw [this]; rfl
    · rw [if_neg hi]
      by_cases hb : (ps.any fun m => locate (.polygon m) c == .onBoundary) = true
      · rw [if_pos hb]
        obtain ⟨m, hm, h⟩ := List.any_eq_true.mp hb
        have : (ps.any fun q => vsPiece (.point c) (.polygon q)) = true := by
          rw [List.any_eq_true]
          refine ⟨m, hm, ?_⟩
          rw [hmem m hm]
          have : locate (.polygon m) c = .onBoundary := by simpa using h
          rw [this]; rfl
        rw [this]; rfl
      · rw [if_neg hb]
        have : (ps.any fun q => vsPiece (.point c) (.polygon q)) = false := by
          rw [List.any_eq_false]
          intro m hm
          rw [hmem m hm]
          have h1 : ¬ (locate (.polygon m) c == .inside) = true := fun e => hi (List.any_eq_true.mpr ⟨m, hm, e⟩)
          have h2 : ¬ (locate (.polygon m) c == .onBoundary) = true := fun e => hb (List.any_eq_true.mpr ⟨m, hm, e⟩)
          cases hloc : locate (.polygon m) c <;> simp_all
        rw [this]; rfl

mutual
/-- **`g.intersects(Point)` for every geometry `g` of the validity domain is "not `Outside`"** -/
theorem isx_dom_point : ∀ (g : Geom) (c : Pt), inDomain g = true →
    intersectsM g (.point c) = (locate g c != .outside)
  | .point q, c, _ => by
      rw [Geo.Proofs.Loc.intersectsM_point_point, Geo.Proofs.Loc.isIntersects_relate_point]
  | .line a b, c, _ => by
      rw [Geo.Proofs.Loc.intersectsM_line_point, Geo.Proofs.Loc.isIntersects_relate_point]
  | .lineString cs, c, _ => by
      rw [Geo.Proofs.Loc.intersectsM_lineString_point, Geo.Proofs.Loc.isIntersects_relate_point]
  | .multiPoint qs, c, _ => by
      rw [Geo.Proofs.Loc.intersectsM_multiPoint_point, Geo.Proofs.Loc.isIntersects_relate_point]
  | .triangle a b t, c, h => by
      rw [Geo.Proofs.Loc.intersectsM_triangle_point a b t c (triangle_dom h),
        Geo.Proofs.Loc.isIntersects_relate_point]
  | .rect mn mx, c, h => by
      rw [Geo.Proofs.Loc.intersectsM_rect_point mn mx c (rect_dom h).1 (rect_dom h).2,
        Geo.Proofs.Loc.isIntersects_relate_point]
  | .polygon q, c, h => by
      rw [Geo.Proofs.Loc.intersectsM_polygon_point q c (coordPos_polygon_dom q c h),
        Geo.Proofs.Loc.isIntersects_relate_point]
  | .multiLineString ls, c, _ => isx_mls_point ls c
  | .multiPolygon ps, c, h => isx_multiPolygon_point ps c h
  | .collection gs, c, h => by
      obtain ⟨hok, hl⟩ := inDomain_collection h
      have hm := isx_dom_point_list gs c hl
      rw [Geo.Proofs.Loc.intersectsM_collection]
      by_cases hdb : disjointBB (.collection gs) (.point c) = true
      · rw [hdb, disjointBB_point_outside h c hdb]; rfl
      · have hdb' : disjointBB (.collection gs) (.point c) = false := by simpa using hdb
        rw [hdb']
        simp only [Bool.not_false, Bool.true_and]
        have hloc : locate (.collection gs) c = locateParts (partsList gs) c := rfl
        rw [hloc]
        rcases partsList_located gs c (collection_apart hok hl c) with ⟨h1, h2⟩ | ⟨g, hg, h1, h2⟩
        · rw [h2]
          have : (gs.any fun g => intersectsM g (.point c)) = false := by
            rw [List.any_eq_false]
            intro g hg
            rw [hm g hg, h1 g hg]; simp
          rw [this]; rfl
        · rw [h2]
          have : (gs.any fun g => intersectsM g (.point c)) = true := by
            rw [List.any_eq_true]
            refine ⟨g, hg, ?_⟩
            rw [hm g hg]
            cases hloc' : locate g c <;> simp_all
          rw [this]
          cases hloc' : locate g c <;> simp_all
theorem isx_dom_point_list : ∀ (gs : List Geom) (c : Pt), inDomainList gs = true →
    ∀ g ∈ gs, intersectsM g (.point c) = (locate g c != .outside)
  | [], _, _ => fun g hg => by cases hg
  | x :: t, c, h => by
      simp only [inDomainList, Bool.and_eq_true] at h
      intro g hg
      rcases List.mem_cons.mp hg with e | hg
      · rw [e]; exact isx_dom_point x c h.1
      · exact isx_dom_point_list t c h.2 g hg
end

/-- **`intersects(g, Point)` = "not `FF*FF****`" on the DE-9IM specification, every `g` of the domain** -/
theorem intersectsM_dom_point (g : Geom) (c : Pt) (h : inDomain g = true) :
    intersectsM g (.point c) = Gen.isIntersects (relateSpec g (.point c)) := by
  rw [isx_dom_point g c h, Geo.Proofs.Loc.isIntersects_relate_point]

/-! ### `contains(Point)` on the whole domain -/

theorem lineString_dom_length {cs : List Pt} (h : inDomain (.lineString cs) = true) :
    cs = [] ∨ 2 ≤ cs.length := by
  have hv : cs.isEmpty = true ∨ lineStringSimple cs = true := by simpa [inDomain, validGeom] using h
  rcases hv with he | hs
  · left; exact List.isEmpty_iff.mp he
  · right
    unfold lineStringSimple at hs
    simp only [Bool.and_eq_true, decide_eq_true_eq] at hs
    have h1 := hs.1.1
    rw [segs_length'] at h1
    have := dedup_length_le cs
    omega

theorem containsCoordAny_eq (gs : List Geom) (c : Pt) :
    containsCoordAny gs c = gs.any (fun g => containsCoord g c) := by
  induction gs with
  | nil => rw [containsCoordAny]; rfl
  | cons g t ih => rw [containsCoordAny, ih]; rfl

mutual
/-- **`g.contains(Point)` for every geometry `g` of the validity domain is "located in the interior"** -/
theorem contains_dom_point : ∀ (g : Geom) (c : Pt), inDomain g = true →
    containsM g (.point c) = (locate g c == .inside)
  | .point q, c, _ => by
      rw [Geo.Proofs.Loc.containsM_point_point, Geo.Proofs.Loc.isContains_relate_point]
  | .line a b, c, _ => by
      rw [Geo.Proofs.Loc.containsM_line_point, Geo.Proofs.Loc.isContains_relate_point]
  | .lineString cs, c, h => by
      rcases lineString_dom_length h with rfl | h2
      · rfl
      · exact containsM_lineString_point cs c h2
  | .multiPoint qs, c, _ => by
      rw [Geo.Proofs.Loc.containsM_multiPoint_point, Geo.Proofs.Loc.isContains_relate_point]
  | .triangle a b t, c, _ => by
      rw [Geo.Proofs.Loc.containsM_triangle_point, Geo.Proofs.Loc.isContains_relate_point]
  | .rect mn mx, c, h => by
      rw [Geo.Proofs.Loc.containsM_rect_point mn mx c (rect_dom h).1 (rect_dom h).2,
        Geo.Proofs.Loc.isContains_relate_point]
  | .polygon q, c, h => by
      rw [Geo.Proofs.Loc.containsM_polygon_point q c (coordPos_polygon_dom q c h),
        Geo.Proofs.Loc.isContains_relate_point]
  | .multiLineString ls, c, _ => containsM_mls_point ls c
  | .multiPolygon ps, c, h => by
      have hv := multiPolygon_dom h
      rw [Geo.Proofs.Loc.containsM_point_rhs]
      simp only [containsCoord, containsCoordFlat, polyContainsCoord]
      rw [Geo.Proofs.Loc.locate_multiPolygon]
      have e : (ps.any fun q => coordPos (.polygon q) c == .inside) =
          ps.any fun m => locate (.polygon m) c == .inside := by
        rw [Bool.eq_iff_iff, List.any_eq_true, List.any_eq_true]
        constructor <;> rintro ⟨m, hm, h'⟩ <;> refine ⟨m, hm, ?_⟩
        · rw [← coordPos_polygon_valid_full m c (multiPolyValid_members hv m hm)]; exact h'
        · rw [coordPos_polygon_valid_full m c (multiPolyValid_members hv m hm)]; exact h'
      rw [e]
      by_cases hi : (ps.any fun m => locate (.polygon m) c == .inside) = true
      · rw [hi]; simp
      · have hi' : (ps.any fun m => locate (.polygon m) c == .inside) = false := by simpa using hi
        rw [hi']
        simp only [Bool.false_eq_true, if_false]
        split <;> rfl
  | .collection gs, c, h => by
      obtain ⟨hok, hl⟩ := inDomain_collection h
      have hm := contains_dom_point_list gs c hl
      rw [Geo.Proofs.Loc.containsM_point_rhs]
      have hcc : containsCoord (.collection gs) c = containsCoordAny gs c := by rw [containsCoord]
      rw [hcc, containsCoordAny_eq]
      have hm' : ∀ g ∈ gs, containsCoord g c = (locate g c == .inside) := by
        intro g hg; rw [← Geo.Proofs.Loc.containsM_point_rhs]; exact hm g hg
      have hloc : locate (.collection gs) c = locateParts (partsList gs) c := rfl
      rw [hloc]
      rcases partsList_located gs c (collection_apart hok hl c) with ⟨h1, h2⟩ | ⟨g, hg, h1, h2⟩
      · rw [h2]
        have : (gs.any fun g => containsCoord g c) = false := by
          rw [List.any_eq_false]
          intro g hg
          rw [hm' g hg, h1 g hg]; simp
        rw [this]; rfl
      · rw [h2]
        rw [Bool.eq_iff_iff, List.any_eq_true]
        constructor
        · rintro ⟨x, hx, hcx⟩
          rw [hm' x hx] at hcx
          have hxin : locate x c = .inside := by simpa using hcx
          -- `x` is the member that is not `Outside`
          have hap := collection_apart hok hl c
          rcases partsList_located gs c hap with ⟨k1, _⟩ | ⟨g', hg', k1, k2⟩
          · rw [k1 x hx] at hxin; cases hxin
          · have hxg : locate x c = locate g c := by
              -- both equal the location of the concatenation
              have e1 : locateParts (partsList gs) c = locate x c := by
                obtain ⟨i, hi⟩ := List.getElem?_of_mem hx
                obtain ⟨j, hj⟩ := List.getElem?_of_mem hg
                by_cases hij : i = j
                · subst hij
                  rw [hi] at hj
                  rw [Option.some.inj hj]; exact h2
                · exfalso
                  rw [List.pairwise_iff_getElem] at hap
                  have hil : i < gs.length := (List.getElem?_eq_some_iff.mp hi).1
                  have hjl : j < gs.length := (List.getElem?_eq_some_iff.mp hj).1
                  have exi : gs[i] = x := (List.getElem?_eq_some_iff.mp hi).2
                  have exj : gs[j] = g := (List.getElem?_eq_some_iff.mp hj).2
                  rcases Nat.lt_or_gt_of_ne hij with hlt | hgt
                  · rcases hap i j hil hjl hlt with h | h
                    · rw [exi, hxin] at h; cases h
                    · rw [exj] at h; exact h1 h
                  · rcases hap j i hjl hil hgt with h | h
                    · rw [exj] at h; exact h1 h
                    · rw [exi, hxin] at h; cases h
              rw [← e1, h2]
            rw [← hxg, hxin]; rfl
        · intro hgin
          exact ⟨g, hg, by rw [hm' g hg]; exact hgin⟩
theorem contains_dom_point_list : ∀ (gs : List Geom) (c : Pt), inDomainList gs = true →
    ∀ g ∈ gs, containsM g (.point c) = (locate g c == .inside)
  | [], _, _ => fun g hg => by cases hg
  | x :: t, c, h => by
      simp only [inDomainList, Bool.and_eq_true] at h
      intro g hg
      rcases List.mem_cons.mp hg with e | hg
      · rw [e]; exact contains_dom_point x c h.1
      · exact contains_dom_point_list t c h.2 g hg
end

/-- **`contains(g, Point)` = `T*****FF*` on the DE-9IM specification, every `g` of the domain** -/
theorem containsM_dom_point (g : Geom) (c : Pt) (h : inDomain g = true) :
    containsM g (.point c) = Gen.isContains (relateSpec g (.point c)) := by
  rw [contains_dom_point g c h, Geo.Proofs.Loc.isContains_relate_point]

/-! ### a Point on the left -/

mutual
/-- `Y: Intersects<Point>` through the symmetric impls is `Y.intersects(Point)` -/
theorem vsPiece_point : ∀ (g : Geom) (c : Pt), vsPiece g (.point c) = intersectsM g (.point c)
  | .point q, c => by
      simp only [intersectsM, vsPiece, isxFlat, coordX]
      exact Geo.Proofs.Loc.beq_pt_comm _ _
  | .line a b, c => by simp only [intersectsM, vsPiece, isxFlat, coordX, lineX]
  | .lineString cs, c => by simp only [intersectsM, vsPiece, isxFlat, coordX, lineX]
  | .multiPoint qs, c => by
      simp only [intersectsM, vsPiece, isxFlat, coordX]
      congr 1; funext q; exact Geo.Proofs.Loc.beq_pt_comm _ _
  | .triangle a b t, c => by simp only [intersectsM, vsPiece, isxFlat, coordX, triX]
  | .rect mn mx, c => by simp only [intersectsM, vsPiece, isxFlat, coordX, rectX]
  | .polygon q, c => by simp only [intersectsM, vsPiece, isxFlat, coordX, polyX]
  | .multiLineString ls, c => by simp only [intersectsM, vsPiece, isxFlat, coordX, lineX]
  | .multiPolygon ps, c => by simp only [intersectsM, vsPiece, isxFlat, coordX, polyX]
  | .collection gs, c => by
      rw [intersectsM]
      simp only [vsPiece]
      rw [isxColl, isxCollAny_point gs c]
theorem isxCollAny_point : ∀ (gs : List Geom) (c : Pt), isxCollAny gs (.point c) = intersectsAny gs (.point c)
  | [], c => by rw [isxCollAny, intersectsAny]
  | g :: t, c => by
      have hv := vsPiece_point g c
      have ht := isxCollAny_point t c
      rw [intersectsAny, ← hv, ← ht]
      cases g <;> simp only [isxCollAny, vsPiece]
end

/-- **`Point.intersects(g) = g.intersects(Point)` for every `g`, all inputs** -/
theorem intersectsM_point_symm (g : Geom) (c : Pt) : intersectsM (.point c) g = intersectsM g (.point c) := by
  rw [intersectsM, vsPiece_point]

end Geo.Proofs.C02X
