/-
  GeoProofs.Lemmas.LocateLemmas — the modelled `coordinate_position` fast paths
  (GeoModel/Locate.lean, GeoModel/Segment.lean) against the specification `locate`
  (GeoModel/RelateSpec.lean).
-/
import GeoModel.Contains
import GeoProofs.Lemmas.SegmentSpec
import GeoProofs.Lemmas.RingSpec
import GeoProofs.Props.C19

namespace Geo.Proofs.Loc
open Geo Geo.Proofs.Kernel

/-! ### 1. the two winding computations agree -/

/-- the increment `windingE` adds for one edge -/
def specInc (p : EPt) (s e : Pt) : Int :=
  if eLe s.y 0 p.y0 p.y1 then
    if eLt p.y0 p.y1 e.y 0 then (if eCrossSign s e p > 0 then 1 else 0) else 0
  else
    if eLe e.y 0 p.y0 p.y1 then (if eCrossSign s e p < 0 then -1 else 0) else 0

/-- the same increment for an unperturbed point, in terms of `cross` -/
def ptInc (p s e : Pt) : Int :=
  if s.y ≤ p.y then (if p.y < e.y then (if 0 < cross s e p then 1 else 0) else 0)
  else (if e.y ≤ p.y then (if cross s e p < 0 then -1 else 0) else 0)

theorem foldl_add_sum {α : Type} (f : α → Int) (l : List α) (w : Int) :
    l.foldl (fun w a => w + f a) w = w + (l.map f).sum := by
  induction l generalizing w with
  | nil => simp
  | cons a t ih => simp only [List.foldl_cons, List.map_cons, List.sum_cons, ih]; omega

/-- `windingE` is the sum of the per-edge increments. -/
theorem windingE_eq_sum (p : EPt) (ring : List Pt) :
    windingE p ring = ((segs ring).map (fun se => specInc p se.1 se.2)).sum := by
  have h : windingE p ring = (segs ring).foldl (fun w se => w + specInc p se.1 se.2) 0 := by
    unfold windingE
    congr 1
    funext w se
    obtain ⟨s, e⟩ := se
    simp only [specInc]
    split <;> split <;> (try split) <;> omega
  rw [h, foldl_add_sum]; simp

theorem eCrossSign_ofPt (s e p : Pt) :
    eCrossSign s e (EPt.ofPt p) =
      if cross s e p > 0 then 1 else if cross s e p < 0 then -1 else 0 := by
  have h : (e.x - s.x) * (p.y - e.y) - (e.y - s.y) * (p.x - e.x) = cross s e p := rfl
  simp only [eCrossSign, EPt.ofPt, mul_zero, sub_zero, lt_irrefl, if_false, gt_iff_lt, h]

theorem specInc_ofPt (p s e : Pt) : specInc (EPt.ofPt p) s e = ptInc p s e := by
  have h1 : ∀ a b : Rat, eLe a 0 b 0 = decide (a ≤ b) := by
    intro a b
    rcases lt_trichotomy a b with h | h | h
    · simp [eLe, h, h.le]
    · simp [eLe, h]
    · have : ¬ a ≤ b := not_le.mpr h
      have h' : ¬ a < b := by linarith
      simp [eLe, this, h', h.ne']
  have h2 : ∀ a b : Rat, eLt a 0 b 0 = decide (a < b) := by
    intro a b
    by_cases h : a < b <;> simp [eLt, h]
  have hy0 : (EPt.ofPt p).y0 = p.y := rfl
  have hy1 : (EPt.ofPt p).y1 = 0 := rfl
  unfold specInc ptInc
  rw [hy0, hy1, h1, h1, h2, eCrossSign_ofPt]
  rcases lt_trichotomy (cross s e p) 0 with hc | hc | hc
  · have : ¬ (0 < cross s e p) := by linarith
    simp [hc, this]
  · simp [hc]
  · have : ¬ (cross s e p < 0) := by linarith
    simp [hc, this]

/-- Per edge: when geo's edge visit does not report "on boundary", its winding increment is the
one the specification adds. -/
theorem ringEdge_some_eq {p s e : Pt} {d : Int} (h : ringEdge p s e = some d) :
    d = specInc (EPt.ofPt p) s e := by
  rw [specInc_ofPt]
  unfold ringEdge at h
  unfold ptInc
  by_cases h1 : s.y ≤ p.y
  · rw [if_pos h1] at h; rw [if_pos h1]
    by_cases h2 : e.y ≥ p.y
    · rw [if_pos h2] at h
      rcases lt_trichotomy (cross s e p) 0 with hc | hc | hc
      · have ho : orient s e p = .cw := (orient_cw_iff _ _ _).mpr hc
        have : ¬ (0 < cross s e p) := by linarith
        simp [ho] at h
        simp [this, h]
      · have ho : orient s e p = .col := (orient_col_iff _ _ _).mpr hc
        simp [ho] at h
        simp [hc, h.2]
      · have ho : orient s e p = .ccw := (orient_ccw_iff _ _ _).mpr hc
        by_cases h3 : e.y = p.y
        · simp [ho, h3] at h
          simp [h3, h]
        · have : p.y < e.y := lt_of_le_of_ne h2 (Ne.symm h3)
          simp [ho, h3] at h
          simp [this, hc, h]
    · rw [if_neg h2] at h
      have : ¬ p.y < e.y := fun h' => h2 h'.le
      simp at h
      simp [this, h]
  · rw [if_neg h1] at h; rw [if_neg h1]
    by_cases h2 : e.y ≤ p.y
    · rw [if_pos h2] at h; rw [if_pos h2]
      rcases lt_trichotomy (cross s e p) 0 with hc | hc | hc
      · have ho : orient s e p = .cw := (orient_cw_iff _ _ _).mpr hc
        simp [ho] at h
        simp [hc, h]
      · have ho : orient s e p = .col := (orient_col_iff _ _ _).mpr hc
        simp [ho] at h
        simp [hc, h.2]
      · have ho : orient s e p = .ccw := (orient_ccw_iff _ _ _).mpr hc
        have : ¬ (cross s e p < 0) := by linarith
        simp [ho] at h
        simp [this, h]
    · rw [if_neg h2] at h; rw [if_neg h2]
      simp at h; exact h.symm

/-- geo's winding loop, when it does not stop at a boundary hit, adds up the specification's
increments. -/
theorem ringWinding_eq (p : Pt) (es : List (Pt × Pt)) (w w' : Int)
    (h : ringWinding p es w = some w') :
    w' = w + (es.map (fun se => specInc (EPt.ofPt p) se.1 se.2)).sum := by
  induction es generalizing w with
  | nil => simp [ringWinding] at h; simp [h]
  | cons hd tl ih =>
    obtain ⟨s, e⟩ := hd
    unfold ringWinding at h
    cases hre : ringEdge p s e with
    | none => rw [hre] at h; cases h
    | some d =>
      rw [hre] at h
      have := ih (w + d) h
      rw [this, ringEdge_some_eq hre]
      simp only [List.map_cons, List.sum_cons]; omega

theorem ringPos_cons2 (p a b : Pt) (rest : List Pt) :
    ringPos p (a :: b :: rest) =
      match ringWinding p (segs (a :: b :: rest)) 0 with
      | none => .onBoundary
      | some w => if w == 0 then .outside else .inside := rfl

/-- Off the ring, geo's `coord_pos_relative_to_ring` says `Inside` exactly when the
specification's winding number is non-zero. -/
theorem ringPos_eq_spec (p : Pt) (ring : List Pt) (h2 : 2 ≤ ring.length)
    (hb : ringPos p ring ≠ .onBoundary) :
    ringPos p ring = .inside ↔ windingE (EPt.ofPt p) ring ≠ 0 := by
  match ring, h2 with
  | a :: b :: rest, _ =>
    rw [ringPos_cons2] at hb ⊢
    cases hw : ringWinding p (segs (a :: b :: rest)) 0 with
    | none => rw [hw] at hb; exact absurd rfl hb
    | some w =>
      have := ringWinding_eq p _ 0 w hw
      rw [zero_add, ← windingE_eq_sum] at this
      rw [← this]
      simp only []
      by_cases hz : w = 0 <;> simp [hz]

/-- … and `Outside` exactly when it is zero. -/
theorem ringPos_outside_iff (p : Pt) (ring : List Pt) (h2 : 2 ≤ ring.length)
    (hb : ringPos p ring ≠ .onBoundary) :
    ringPos p ring = .outside ↔ windingE (EPt.ofPt p) ring = 0 := by
  have h := ringPos_eq_spec p ring h2 hb
  constructor
  · intro ho
    by_contra hne
    rw [h.mpr hne] at ho; cases ho
  · intro hz
    cases hp : ringPos p ring with
    | onBoundary => exact absurd hp hb
    | inside => exact absurd hz (h.mp hp)
    | outside => rfl

example : ringPos ⟨1, 1⟩ [⟨0, 0⟩, ⟨4, 0⟩, ⟨0, 4⟩, ⟨0, 0⟩] = .inside ↔
    windingE (EPt.ofPt ⟨1, 1⟩) [⟨0, 0⟩, ⟨4, 0⟩, ⟨0, 4⟩, ⟨0, 0⟩] ≠ 0 :=
  ringPos_eq_spec _ _ (by simp) (by decide +kernel)

/-! ### 2. `coordinate_position` = `locate`: zero- and one-dimensional types -/

theorem beq_pt_comm (a b : Pt) : (a == b) = (b == a) := by
  by_cases h : a = b
  · subst h; rfl
  · have h' : ¬ b = a := fun e => h e.symm
    simp [h, h']

/-- `locate` on a geometry without areal members -/
theorem locateParts_noAreas (pts : List Pt) (curves : List (List Pt)) (p : Pt) :
    locateParts ⟨pts, curves, []⟩ p =
      if onAnySeg p (curves.flatMap segs) then
        (if endpointCount p curves % 2 == 1 then .onBoundary else .inside)
      else if pts.any (· == p) then .inside else .outside := by
  simp only [locateParts, Parts.areaSegs, Parts.curveSegs, List.any_nil, List.flatMap_nil, onAnySeg,
    Bool.false_eq_true, if_false, Bool.or_false]
  rfl

theorem coordPos_point_eq_locate (q p : Pt) : coordPos (.point q) p = locate (.point q) p := by
  unfold locate
  simp only [parts]
  rw [locateParts_noAreas]
  simp only [coordPos, calcPos, calcPoint, onAnySeg, endpointCount, List.flatMap_nil, List.any_nil,
    List.any_cons, Bool.or_false]
  by_cases h : q = p <;> simp [h, PosAcc.result]

theorem coordPos_multiPoint_eq_locate (qs : List Pt) (p : Pt) :
    coordPos (.multiPoint qs) p = locate (.multiPoint qs) p := by
  unfold locate
  simp only [parts]
  rw [locateParts_noAreas]
  simp only [coordPos, calcPos, onAnySeg, List.flatMap_nil, List.any_nil]
  by_cases h : qs.any (· == p) = true
  · simp [h, PosAcc.result]
  · simp [h, PosAcc.result]

/-- end points of one curve equal to `p` (0 for a closed curve) -/
def epc (p : Pt) (c : List Pt) : Nat :=
  match c.head?, c.getLast? with
  | some f, some l => if f == l then 0 else (if p == f then 1 else 0) + (if p == l then 1 else 0)
  | _, _ => 0

theorem endpointCount_eq_sum (p : Pt) (curves : List (List Pt)) :
    endpointCount p curves = (curves.map (epc p)).sum := by
  have h : ∀ n, curves.foldl (fun n c =>
      match c.head?, c.getLast? with
      | some f, some l => if f == l then n else n + (if p == f then 1 else 0) + (if p == l then 1 else 0)
      | _, _ => n) n = n + (curves.map (epc p)).sum := by
    induction curves with
    | nil => simp
    | cons c t ih =>
      intro n
      simp only [List.foldl_cons, List.map_cons, List.sum_cons]
      rw [ih]
      have : (match c.head?, c.getLast? with
        | some f, some l => if f == l then n else n + (if p == f then 1 else 0) + (if p == l then 1 else 0)
        | _, _ => n) = n + epc p c := by
        unfold epc
        split
        · split <;> omega
        · rfl
      rw [this]; omega
  unfold endpointCount
  exact (h 0).trans (by simp)

theorem epc_le_one (p : Pt) (c : List Pt) : epc p c ≤ 1 := by
  unfold epc
  split
  · rename_i f l _ _
    by_cases hfl : f = l
    · simp [hfl]
    · by_cases h1 : p = f
      · subst h1; simp [hfl]
      · by_cases h2 : p = l
        · subst h2; simp [hfl, Ne.symm hfl]
        · simp [hfl, h1, h2]
  · omega

theorem lineCoord_left (a b : Pt) : lineCoord a b a = true := (lineCoord_iff _ _ _).mpr (SegMem_left _ _)
theorem lineCoord_right (a b : Pt) : lineCoord a b b = true := (lineCoord_iff _ _ _).mpr (SegMem_right _ _)
theorem lineCoord_degenerate (a p : Pt) : lineCoord a a p = true ↔ p = a := by
  rw [lineCoord_iff, SegMem_degenerate]

theorem segs_mem {l : List Pt} {s e : Pt} (h : (s, e) ∈ segs l) : s ∈ l ∧ e ∈ l := by
  induction l with
  | nil => simp [segs] at h
  | cons a t ih =>
    cases t with
    | nil => simp [segs] at h
    | cons b rest =>
      rw [segs] at h
      rcases List.mem_cons.mp h with h | h
      · injection h with h1 h2
        subst h1; subst h2
        simp
      · have := ih h
        exact ⟨List.mem_cons_of_mem _ this.1, List.mem_cons_of_mem _ this.2⟩

/-- bounding-box rejection is sound for point-on-linestring: a point on a segment is inside the
bounding box of the coordinates -/
theorem onAnySeg_in_bbox {cs : List Pt} {mn mx p : Pt} (hb : getBoundingRect cs = some (mn, mx))
    (h : onAnySeg p (segs cs) = true) : rectCoord mn mx p = true := by
  unfold onAnySeg at h
  rw [List.any_eq_true] at h
  obtain ⟨⟨a, b⟩, hm, hl⟩ := h
  obtain ⟨ha, hb'⟩ := segs_mem hm
  have hbd := (Geo.Proofs.C19.getBoundingRect_bounds cs mn mx hb).1
  have ba := hbd a ha
  have bb := hbd b hb'
  simp only at hl
  rw [lineCoord_eq, pointInRect_iff] at hl
  obtain ⟨_, hx, hy⟩ := hl
  rw [rectCoord_iff]
  refine ⟨?_, ?_, ?_, ?_⟩
  · rcases hx with h | h <;> linarith [ba.1, bb.1]
  · rcases hx with h | h <;> linarith [ba.2.1, bb.2.1]
  · rcases hy with h | h <;> linarith [ba.2.2.1, bb.2.2.1]
  · rcases hy with h | h <;> linarith [ba.2.2.2, bb.2.2.2]

/-- `LineString: Intersects<Coord>` (with its bounding-box early return) is "on some segment". -/
theorem lineStringCoord_eq (cs : List Pt) (p : Pt) : lineStringCoord cs p = onAnySeg p (segs cs) := by
  unfold lineStringCoord
  cases hb : getBoundingRect cs with
  | none => rfl
  | some r =>
    obtain ⟨mn, mx⟩ := r
    simp only
    by_cases hr : rectRect mn mx p p = true
    · simp [hr]; rfl
    · have hr' : rectRect mn mx p p = false := by simpa using hr
      simp only [hr', Bool.not_false, if_true]
      by_contra hne
      have hon : onAnySeg p (segs cs) = true := by
        cases h : onAnySeg p (segs cs) with
        | true => rfl
        | false => rw [h] at hne; exact absurd rfl hne
      have := onAnySeg_in_bbox hb hon
      rw [rectCoord_iff] at this
      apply hr
      rw [rectRect_eq]
      exact ⟨this.2.1, this.2.2.2, this.1, this.2.2.1⟩

theorem epc_eq_one_iff {p f l : Pt} {cs : List Pt} (hf : cs.head? = some f) (hl : cs.getLast? = some l) :
    epc p cs = 1 ↔ f ≠ l ∧ (p = f ∨ p = l) := by
  unfold epc
  rw [hf, hl]
  simp only
  by_cases hfl : f = l
  · simp [hfl]
  · by_cases h1 : p = f
    · subst h1; simp [hfl]
    · by_cases h2 : p = l
      · subst h2; simp [hfl, Ne.symm hfl]
      · simp [hfl, h1, h2]

theorem calcLineString_ge3 (cs : List Pt) (p : Pt) (acc : PosAcc) (h : 3 ≤ cs.length) :
    calcLineString cs p acc =
      match getBoundingRect cs with
      | none => acc
      | some (mn, mx) =>
        if !rectCoord mn mx p then acc
        else if !isClosedLS cs && (some p == cs.head? || some p == cs.getLast?) then
          { acc with bcount := acc.bcount + 1 }
        else if lineStringCoord cs p then { acc with inside := true }
        else acc := by
  match cs, h with
  | a :: b :: c :: rest, _ => rfl

theorem head_onAnySeg (a b : Pt) (rest : List Pt) : onAnySeg a (segs (a :: b :: rest)) = true := by
  simp [segs, onAnySeg, lineCoord_left]

theorem last_onAnySeg (a b : Pt) (rest : List Pt) :
    onAnySeg ((a :: b :: rest).getLast (by simp)) (segs (a :: b :: rest)) = true := by
  obtain ⟨s', hs'⟩ := segs_last rest a b
  unfold onAnySeg
  rw [List.any_eq_true]
  exact ⟨_, hs', lineCoord_right _ _⟩

/-- The LineString clause of `coordinate_position` for an arbitrary accumulator: one boundary hit
when `p` is an end point of the open curve, else `inside` when `p` is on a segment. -/
theorem calcLineString_eq (cs : List Pt) (p : Pt) (acc : PosAcc) :
    calcLineString cs p acc =
      if epc p cs = 1 then { acc with bcount := acc.bcount + 1 }
      else if onAnySeg p (segs cs) then { acc with inside := true } else acc := by
  match cs with
  | [] => simp [calcLineString, epc, segs, onAnySeg]
  | [a] => simp [calcLineString, epc, segs, onAnySeg]
  | [a, b] =>
    have hf : [a, b].head? = some a := rfl
    have hl : [a, b].getLast? = some b := rfl
    have hs : onAnySeg p (segs [a, b]) = lineCoord a b p := by simp [segs, onAnySeg]
    rw [hs]
    show calcLine a b p acc = _
    unfold calcLine calcPoint
    by_cases hab : a = b
    · subst hab
      have h0 : ¬ epc p [a, a] = 1 := by rw [epc_eq_one_iff hf hl]; simp
      rw [if_neg h0]
      by_cases hp : a = p
      · subst hp; simp [lineCoord_left]
      · have : ¬ lineCoord a a p = true := by
          rw [lineCoord_degenerate]; exact fun h => hp h.symm
        simp [hp, this]
    · by_cases h1 : p = a ∨ p = b
      · have h0 : epc p [a, b] = 1 := by rw [epc_eq_one_iff hf hl]; exact ⟨hab, h1⟩
        rw [if_pos h0]
        rcases h1 with h1 | h1 <;> simp [hab, h1]
      · have h0 : ¬ epc p [a, b] = 1 := by rw [epc_eq_one_iff hf hl]; exact fun h => h1 h.2
        rw [if_neg h0]
        simp only [not_or] at h1
        simp [hab, h1.1, h1.2]
  | a :: b :: c :: rest =>
    rw [calcLineString_ge3 _ _ _ (by simp)]
    generalize hcs : a :: b :: c :: rest = cs
    have hf : cs.head? = some a := by rw [← hcs]; rfl
    have hne : a :: b :: c :: rest ≠ [] := by simp
    have hl : cs.getLast? = some ((a :: b :: c :: rest).getLast hne) := by
      rw [← hcs]; exact List.getLast?_eq_getLast_of_ne_nil hne
    have hfon : onAnySeg a (segs cs) = true := by rw [← hcs]; exact head_onAnySeg _ _ _
    have hlon : onAnySeg ((a :: b :: c :: rest).getLast hne) (segs cs) = true := by
      rw [← hcs]; exact last_onAnySeg _ _ _
    generalize (a :: b :: c :: rest).getLast hne = l at hl hlon
    cases hb : getBoundingRect cs with
    | none =>
      rw [Geo.Proofs.C19.getBoundingRect_none_iff] at hb
      rw [hb] at hcs; cases hcs
    | some r =>
      obtain ⟨mn, mx⟩ := r
      simp only
      have hclosed : isClosedLS cs = decide (a = l) := by
        unfold isClosedLS; rw [hf, hl]; simp
      by_cases hrc : rectCoord mn mx p = true
      · simp only [hrc, Bool.not_true, Bool.false_eq_true, if_false]
        by_cases h1 : a ≠ l ∧ (p = a ∨ p = l)
        · have h0 : epc p cs = 1 := (epc_eq_one_iff hf hl).mpr h1
          rw [if_pos h0, hclosed, hf, hl]
          have : (!decide (a = l) && (some p == some a || some p == some l)) = true := by
            rcases h1 with ⟨h1, h2 | h2⟩ <;> simp [h1, h2]
          rw [if_pos this]
        · have h0 : ¬ epc p cs = 1 := fun h => h1 ((epc_eq_one_iff hf hl).mp h)
          rw [if_neg h0, hclosed, hf, hl]
          have : ¬ (!decide (a = l) && (some p == some a || some p == some l)) = true := by
            intro h
            apply h1
            simpa using h
          rw [if_neg this, lineStringCoord_eq]
      · have hrc' : rectCoord mn mx p = false := by simpa using hrc
        simp only [hrc', Bool.not_false, if_true]
        have hon : ¬ onAnySeg p (segs cs) = true := fun h => hrc (onAnySeg_in_bbox hb h)
        have h0 : ¬ epc p cs = 1 := by
          rw [epc_eq_one_iff hf hl]
          rintro ⟨_, h | h⟩
          · exact hon (h ▸ hfon)
          · exact hon (h ▸ hlon)
        rw [if_neg h0, if_neg hon]

theorem onAnySeg_of_epc {p : Pt} {cs : List Pt} (h : epc p cs = 1) : onAnySeg p (segs cs) = true := by
  match cs with
  | [] => simp [epc] at h
  | [a] => simp [epc] at h
  | a :: b :: rest =>
    have hf : (a :: b :: rest).head? = some a := rfl
    have hl := List.getLast?_eq_getLast_of_ne_nil (l := a :: b :: rest) (by simp)
    rw [epc_eq_one_iff hf hl] at h
    rcases h with ⟨_, h | h⟩
    · rw [h]; exact head_onAnySeg _ _ _
    · rw [h]; exact last_onAnySeg _ _ _

theorem result_bcount1 (i : Bool) : PosAcc.result ⟨i, 0 + 1⟩ = .onBoundary := by simp [PosAcc.result]
theorem result_inside : PosAcc.result ⟨true, 0⟩ = .inside := by simp [PosAcc.result]
theorem result_outside : PosAcc.result ⟨false, 0⟩ = .outside := by simp [PosAcc.result]

/-- `coordinate_position` of a LineString (any number of coordinates, open or closed) is the
specification's location. -/
theorem coordPos_lineString_eq_locate (cs : List Pt) (p : Pt) :
    coordPos (.lineString cs) p = locate (.lineString cs) p := by
  unfold locate
  simp only [parts]
  rw [locateParts_noAreas, endpointCount_eq_sum]
  simp only [coordPos, calcPos, List.flatMap_cons, List.flatMap_nil, List.append_nil, List.map_cons,
    List.map_nil, List.sum_cons, List.sum_nil, Nat.add_zero, List.any_nil]
  rw [calcLineString_eq]
  have h1 := epc_le_one p cs
  by_cases he : epc p cs = 1
  · have hon : onAnySeg p (segs cs) = true := onAnySeg_of_epc he
    simp [he, hon, PosAcc.result]
  · have he0 : epc p cs = 0 := by omega
    by_cases hon : onAnySeg p (segs cs) = true <;> simp [he0, hon, PosAcc.result]

/-- `coordinate_position` of a Line (degenerate or not): end points are boundary, other points of
the segment interior. -/
theorem coordPos_line_eq_locate (a b p : Pt) : coordPos (.line a b) p = locate (.line a b) p := by
  have h1 : coordPos (.line a b) p = coordPos (.lineString [a, b]) p := by
    simp only [coordPos, calcPos]; rfl
  have h2 : locate (.line a b) p = locate (.lineString [a, b]) p := rfl
  rw [h1, h2, coordPos_lineString_eq_locate]

example : coordPos (.line ⟨0, 0⟩ ⟨2, 2⟩) ⟨1, 1⟩ = .inside := by
  rw [coordPos_line_eq_locate]; decide +kernel

/-! ### MultiLineString (known finding K9) -/

/-- the MultiLineString fold: members add their boundary hits to the shared counter -/
theorem mls_fold (p : Pt) (ls : List (List Pt)) (acc : PosAcc) :
    ls.foldl (fun a cs => calcLineString cs p a) acc =
      ⟨acc.inside || ls.any (fun cs => decide (epc p cs = 0) && onAnySeg p (segs cs)),
       acc.bcount + (ls.map (epc p)).sum⟩ := by
  induction ls generalizing acc with
  | nil => simp
  | cons cs t ih =>
    simp only [List.foldl_cons, List.any_cons, List.map_cons, List.sum_cons]
    rw [ih, calcLineString_eq]
    have h1 := epc_le_one p cs
    by_cases he : epc p cs = 1
    · simp [he]; omega
    · have he0 : epc p cs = 0 := by omega
      by_cases hon : onAnySeg p (segs cs) = true
      · simp [he0, hon]
      · simp [he0, hon]

theorem onAnySeg_flatMap (p : Pt) (ls : List (List Pt)) :
    onAnySeg p (ls.flatMap segs) = ls.any (fun cs => onAnySeg p (segs cs)) := by
  unfold onAnySeg
  rw [List.any_flatMap]

theorem sum_epc_zero {p : Pt} {ls : List (List Pt)} (h : (ls.map (epc p)).sum = 0) :
    ∀ cs ∈ ls, epc p cs = 0 := by
  induction ls with
  | nil => simp
  | cons c t ih =>
    simp only [List.map_cons, List.sum_cons] at h
    intro cs hm
    rcases List.mem_cons.mp hm with h' | h'
    · rw [h']; omega
    · exact ih (by omega) cs h'

theorem sum_epc_pos {p : Pt} {ls : List (List Pt)} (h : 0 < (ls.map (epc p)).sum) :
    ∃ cs ∈ ls, epc p cs = 1 := by
  induction ls with
  | nil => simp at h
  | cons c t ih =>
    simp only [List.map_cons, List.sum_cons] at h
    have h1 := epc_le_one p c
    by_cases hc : epc p c = 1
    · exact ⟨c, List.mem_cons_self, hc⟩
    · obtain ⟨cs, hm, he⟩ := ih (by omega)
      exact ⟨cs, List.mem_cons_of_mem _ hm, he⟩

/-- MultiLineString: when `p` is an end point of at most one open member, the modelled
`coordinate_position` is the specification's location. (Without the hypothesis: K9.) -/
theorem coordPos_mls_eq_locate_of_count (ls : List (List Pt)) (p : Pt)
    (h : endpointCount p ls ≤ 1) :
    coordPos (.multiLineString ls) p = locate (.multiLineString ls) p := by
  unfold locate
  simp only [parts]
  rw [locateParts_noAreas, onAnySeg_flatMap]
  rw [endpointCount_eq_sum] at h ⊢
  simp only [coordPos, calcPos, List.any_nil]
  rw [mls_fold]
  simp only [Bool.false_or, Nat.zero_add]
  by_cases hN : (ls.map (epc p)).sum = 1
  · obtain ⟨cs, hm, he⟩ := sum_epc_pos (p := p) (ls := ls) (by omega)
    have : ls.any (fun cs => onAnySeg p (segs cs)) = true := by
      rw [List.any_eq_true]; exact ⟨cs, hm, onAnySeg_of_epc he⟩
    simp [hN, this, PosAcc.result]
  · have hN0 : (ls.map (epc p)).sum = 0 := by omega
    have hz := sum_epc_zero hN0
    have : ls.any (fun cs => decide (epc p cs = 0) && onAnySeg p (segs cs)) =
        ls.any (fun cs => onAnySeg p (segs cs)) := by
      rw [Bool.eq_iff_iff, List.any_eq_true, List.any_eq_true]
      constructor
      · rintro ⟨cs, hm, h⟩; exact ⟨cs, hm, by simpa [hz cs hm] using h⟩
      · rintro ⟨cs, hm, h⟩; exact ⟨cs, hm, by simpa [hz cs hm] using h⟩
    rw [this]
    by_cases hon : ls.any (fun cs => onAnySeg p (segs cs)) = true
    · simp [hN0, hon, PosAcc.result]
    · simp [hN0, hon, PosAcc.result]

/-! ### 2b. areal types without holes: Triangle, Rect -/

/-- `locate` on a single ring without holes -/
theorem locateParts_ring (ring : List Pt) (p : Pt) :
    locateParts ⟨[], [], [⟨ring, []⟩]⟩ p =
      if (!onAnySeg p (segs ring) && windingE (EPt.ofPt p) ring != 0) = true then .inside
      else if (onAnySeg p (segs ring) || ring == [p]) = true then .onBoundary else .outside := by
  simp only [locateParts, Parts.areaSegs, Parts.curveSegs, List.any_nil, List.flatMap_nil, onAnySeg,
    Bool.false_eq_true, if_false, Bool.or_false, List.any_cons, Poly.rings, List.flatMap_cons,
    List.append_nil, insidePolyE, List.all_nil, Bool.and_true]
  rfl

theorem windingE_ofPt (p : Pt) (ring : List Pt) :
    windingE (EPt.ofPt p) ring = ((segs ring).map (fun se => ptInc p se.1 se.2)).sum := by
  rw [windingE_eq_sum]
  congr 1
  apply List.map_congr_left
  intro se _
  exact specInc_ofPt p se.1 se.2

/-- a point collinear with a non-horizontal edge and within its half-open y-range is on the edge -/
theorem lineCoord_of_cross_up {s e p : Pt} (hc : cross s e p = 0) (h1 : s.y ≤ p.y) (h2 : p.y < e.y) :
    lineCoord s e p = true := by
  rw [lineCoord_iff]
  have hd : e.y - s.y ≠ 0 := by intro h; linarith
  have hpos : 0 < e.y - s.y := by linarith
  refine ⟨(p.y - s.y) / (e.y - s.y), div_nonneg (by linarith) hpos.le,
    (div_le_one hpos).mpr (by linarith), ?_, ?_⟩
  · unfold cross at hc
    field_simp
    linarith
  · field_simp; ring

theorem lineCoord_of_cross_down {s e p : Pt} (hc : cross s e p = 0) (h1 : e.y ≤ p.y) (h2 : p.y < s.y) :
    lineCoord s e p = true := by
  rw [lineCoord_iff]
  apply SegMem_symm
  rw [← lineCoord_iff]
  apply lineCoord_of_cross_up _ h1 h2
  rw [cross_rev, hc, neg_zero]

/-- the height identity: the three edge determinants weigh the vertex heights around `p.y` to 0 -/
theorem cross_heights (s t u p : Pt) :
    cross t u p * (s.y - p.y) + cross u s p * (t.y - p.y) + cross s t p * (u.y - p.y) = 0 := by
  unfold cross; ring

/-- all three edge determinants strictly of one sign -/
def SameSign (s t u p : Pt) : Prop :=
  (0 < cross s t p ∧ 0 < cross t u p ∧ 0 < cross u s p) ∨
  (cross s t p < 0 ∧ cross t u p < 0 ∧ cross u s p < 0)

theorem SameSign_rot {s t u p : Pt} : SameSign s t u p ↔ SameSign t u s p := by
  unfold SameSign; tauto

/-- one vertex at or below the ray, the next two above -/
theorem tri_low_high_high {s t u p : Pt} (hs : s.y ≤ p.y) (ht : p.y < t.y) (hu : p.y < u.y)
    (n1 : lineCoord s t p = false) (n3 : lineCoord u s p = false) :
    ptInc p s t + ptInc p t u + ptInc p u s ≠ 0 ↔ SameSign s t u p := by
  have e1 : ptInc p s t = if 0 < cross s t p then 1 else 0 := by
    unfold ptInc; rw [if_pos hs, if_pos ht]
  have e2 : ptInc p t u = 0 := by
    unfold ptInc; rw [if_neg (by linarith), if_neg (by linarith)]
  have e3 : ptInc p u s = if cross u s p < 0 then -1 else 0 := by
    unfold ptInc; rw [if_neg (by linarith), if_pos hs]
  have c1 : cross s t p ≠ 0 := by
    intro h; rw [lineCoord_of_cross_up h hs ht] at n1; cases n1
  have c3 : cross u s p ≠ 0 := by
    intro h; rw [lineCoord_of_cross_down h hs hu] at n3; cases n3
  have hY := cross_heights s t u p
  rw [e1, e2, e3]
  unfold SameSign
  rcases lt_or_gt_of_ne c1 with h1 | h1 <;> rcases lt_or_gt_of_ne c3 with h3 | h3
  · -- both negative
    have n1' : ¬ 0 < cross s t p := by linarith
    rw [if_neg n1', if_pos h3]
    have h2 : cross t u p < 0 := by
      by_contra hc
      have hc : 0 ≤ cross t u p := le_of_not_gt hc
      have := mul_nonneg hc (sub_nonneg.mpr hs)
      have := mul_pos (neg_pos.mpr h3) (sub_pos.mpr ht)
      have := mul_pos (neg_pos.mpr h1) (sub_pos.mpr hu)
      nlinarith
    constructor
    · intro _; exact Or.inr ⟨h1, h2, h3⟩
    · intro _; decide
  · have n1' : ¬ 0 < cross s t p := by linarith
    have n3' : ¬ cross u s p < 0 := by linarith
    rw [if_neg n1', if_neg n3']
    constructor
    · intro h; exact absurd rfl h
    · rintro (⟨h, _, _⟩ | ⟨_, _, h⟩) <;> linarith
  · rw [if_pos h1, if_pos h3]
    constructor
    · intro h; exact absurd rfl h
    · rintro (⟨_, _, h⟩ | ⟨h, _, _⟩) <;> linarith
  · have n3' : ¬ cross u s p < 0 := by linarith
    rw [if_pos h1, if_neg n3']
    have h2 : 0 < cross t u p := by
      by_contra hc
      have hc : cross t u p ≤ 0 := le_of_not_gt hc
      have := mul_nonneg (neg_nonneg.mpr hc) (sub_nonneg.mpr hs)
      have := mul_pos h3 (sub_pos.mpr ht)
      have := mul_pos h1 (sub_pos.mpr hu)
      nlinarith
    constructor
    · intro _; exact Or.inl ⟨h1, h2, h3⟩
    · intro _; decide

/-- the far edge horizontal at the height of `p`, `p` strictly on the inner side of both others -/
theorem flat_neg {s t u p : Pt} (hs : p.y < s.y) (ht : t.y = p.y) (hu : u.y = p.y)
    (h1 : cross s t p < 0) (h3 : cross u s p < 0) : lineCoord t u p = true := by
  have e1 : cross s t p = (s.y - p.y) * (p.x - t.x) := by unfold cross; rw [ht]; ring
  have e3 : cross u s p = (s.y - p.y) * (u.x - p.x) := by unfold cross; rw [hu]; ring
  have hpos : 0 < s.y - p.y := by linarith
  have x1 : p.x < t.x := by
    by_contra hc; have := mul_nonneg hpos.le (sub_nonneg.mpr (le_of_not_gt hc)); linarith
  have x3 : u.x < p.x := by
    by_contra hc; have := mul_nonneg hpos.le (sub_nonneg.mpr (le_of_not_gt hc)); linarith
  rw [lineCoord_eq, pointInRect_iff]
  refine ⟨by unfold cross; rw [ht, hu]; ring, Or.inr ⟨x3.le, x1.le⟩, Or.inl ⟨ht.le, hu.ge⟩⟩

theorem flat_pos {s t u p : Pt} (hs : p.y < s.y) (ht : t.y = p.y) (hu : u.y = p.y)
    (h1 : 0 < cross s t p) (h3 : 0 < cross u s p) : lineCoord t u p = true := by
  have e1 : cross s t p = (s.y - p.y) * (p.x - t.x) := by unfold cross; rw [ht]; ring
  have e3 : cross u s p = (s.y - p.y) * (u.x - p.x) := by unfold cross; rw [hu]; ring
  have hpos : 0 < s.y - p.y := by linarith
  have x1 : t.x < p.x := by
    by_contra hc
    have := mul_nonneg hpos.le (sub_nonneg.mpr (le_of_not_gt hc)); nlinarith
  have x3 : p.x < u.x := by
    by_contra hc
    have := mul_nonneg hpos.le (sub_nonneg.mpr (le_of_not_gt hc)); nlinarith
  rw [lineCoord_eq, pointInRect_iff]
  refine ⟨by unfold cross; rw [ht, hu]; ring, Or.inl ⟨x1.le, x3.le⟩, Or.inl ⟨ht.le, hu.ge⟩⟩

/-- one vertex above the ray, the next two at or below -/
theorem tri_high_low_low {s t u p : Pt} (hs : p.y < s.y) (ht : t.y ≤ p.y) (hu : u.y ≤ p.y)
    (n1 : lineCoord s t p = false) (n2 : lineCoord t u p = false) (n3 : lineCoord u s p = false) :
    ptInc p s t + ptInc p t u + ptInc p u s ≠ 0 ↔ SameSign s t u p := by
  have e1 : ptInc p s t = if cross s t p < 0 then -1 else 0 := by
    unfold ptInc; rw [if_neg (by linarith), if_pos ht]
  have e2 : ptInc p t u = 0 := by
    unfold ptInc; rw [if_pos ht, if_neg (by linarith)]
  have e3 : ptInc p u s = if 0 < cross u s p then 1 else 0 := by
    unfold ptInc; rw [if_pos hu, if_pos hs]
  have c1 : cross s t p ≠ 0 := by
    intro h; rw [lineCoord_of_cross_down h ht hs] at n1; cases n1
  have c3 : cross u s p ≠ 0 := by
    intro h; rw [lineCoord_of_cross_up h hu hs] at n3; cases n3
  have hY := cross_heights s t u p
  rw [e1, e2, e3]
  unfold SameSign
  rcases lt_or_gt_of_ne c1 with h1 | h1 <;> rcases lt_or_gt_of_ne c3 with h3 | h3
  · have n3' : ¬ 0 < cross u s p := by linarith
    rw [if_pos h1, if_neg n3']
    have h2 : cross t u p < 0 := by
      have a1 := mul_nonneg (neg_nonneg.mpr h3.le) (sub_nonneg.mpr ht)
      have a2 := mul_nonneg (neg_nonneg.mpr h1.le) (sub_nonneg.mpr hu)
      have hle : cross t u p ≤ 0 := by
        by_contra hc
        have := mul_pos (lt_of_not_ge hc) (sub_pos.mpr hs); nlinarith
      rcases hle.lt_or_eq with h | h
      · exact h
      · exfalso
        rw [h, zero_mul] at hY
        have b1 : -cross u s p * (p.y - t.y) = 0 := by nlinarith
        have b2 : -cross s t p * (p.y - u.y) = 0 := by nlinarith
        have t1 : t.y = p.y := by rcases mul_eq_zero.mp b1 with x | x <;> linarith
        have t2 : u.y = p.y := by rcases mul_eq_zero.mp b2 with x | x <;> linarith
        rw [flat_neg hs t1 t2 h1 h3] at n2; cases n2
    constructor
    · intro _; exact Or.inr ⟨h1, h2, h3⟩
    · intro _; decide
  · rw [if_pos h1, if_pos h3]
    constructor
    · intro h; exact absurd rfl h
    · rintro (⟨h, _, _⟩ | ⟨_, _, h⟩) <;> linarith
  · have n1' : ¬ cross s t p < 0 := by linarith
    have n3' : ¬ 0 < cross u s p := by linarith
    rw [if_neg n1', if_neg n3']
    constructor
    · intro h; exact absurd rfl h
    · rintro (⟨_, _, h⟩ | ⟨h, _, _⟩) <;> linarith
  · have n1' : ¬ cross s t p < 0 := by linarith
    rw [if_neg n1', if_pos h3]
    have h2 : 0 < cross t u p := by
      have a1 := mul_nonneg h3.le (sub_nonneg.mpr ht)
      have a2 := mul_nonneg h1.le (sub_nonneg.mpr hu)
      have hle : 0 ≤ cross t u p := by
        by_contra hc
        have := mul_pos (neg_pos.mpr (lt_of_not_ge hc)) (sub_pos.mpr hs); nlinarith
      rcases hle.lt_or_eq with h | h
      · exact h
      · exfalso
        rw [← h, zero_mul] at hY
        have b1 : cross u s p * (p.y - t.y) = 0 := by nlinarith
        have b2 : cross s t p * (p.y - u.y) = 0 := by nlinarith
        have t1 : t.y = p.y := by rcases mul_eq_zero.mp b1 with x | x <;> linarith
        have t2 : u.y = p.y := by rcases mul_eq_zero.mp b2 with x | x <;> linarith
        rw [flat_pos hs t1 t2 h1 h3] at n2; cases n2
    constructor
    · intro _; exact Or.inl ⟨h1, h2, h3⟩
    · intro _; decide

theorem tri_all_low {s t u p : Pt} (hs : s.y ≤ p.y) (ht : t.y ≤ p.y) (hu : u.y ≤ p.y) :
    ptInc p s t + ptInc p t u + ptInc p u s ≠ 0 ↔ SameSign s t u p := by
  have e1 : ptInc p s t = 0 := by unfold ptInc; rw [if_pos hs, if_neg (by linarith)]
  have e2 : ptInc p t u = 0 := by unfold ptInc; rw [if_pos ht, if_neg (by linarith)]
  have e3 : ptInc p u s = 0 := by unfold ptInc; rw [if_pos hu, if_neg (by linarith)]
  rw [e1, e2, e3]
  have hY := cross_heights s t u p
  constructor
  · intro h; exact absurd rfl h
  · intro h _
    have key : ∀ w1 w2 w3 : Rat, 0 < w1 → 0 < w2 → 0 < w3 →
        w2 * (s.y - p.y) + w3 * (t.y - p.y) + w1 * (u.y - p.y) = 0 → t.y = p.y ∧ u.y = p.y := by
      intro w1 w2 w3 h1 h2 h3 hz
      have a1 := mul_nonneg h2.le (sub_nonneg.mpr hs)
      have a2 := mul_nonneg h3.le (sub_nonneg.mpr ht)
      have a3 := mul_nonneg h1.le (sub_nonneg.mpr hu)
      have b2 : w3 * (p.y - t.y) = 0 := by nlinarith
      have b3 : w1 * (p.y - u.y) = 0 := by nlinarith
      constructor
      · rcases mul_eq_zero.mp b2 with x | x <;> linarith
      · rcases mul_eq_zero.mp b3 with x | x <;> linarith
    have hz : ∀ (e1 : t.y = p.y) (e2 : u.y = p.y), cross t u p = 0 := by
      intro e1 e2; unfold cross; rw [e1, e2]; ring
    rcases h with ⟨h1, h2, h3⟩ | ⟨h1, h2, h3⟩
    · obtain ⟨e1, e2⟩ := key _ _ _ h1 h2 h3 hY
      have := hz e1 e2; linarith
    · obtain ⟨e1, e2⟩ := key (-cross s t p) (-cross t u p) (-cross u s p) (by linarith) (by linarith)
        (by linarith) (by linarith)
      have := hz e1 e2; linarith

theorem tri_all_high {s t u p : Pt} (hs : p.y < s.y) (ht : p.y < t.y) (hu : p.y < u.y) :
    ptInc p s t + ptInc p t u + ptInc p u s ≠ 0 ↔ SameSign s t u p := by
  have e1 : ptInc p s t = 0 := by unfold ptInc; rw [if_neg (by linarith), if_neg (by linarith)]
  have e2 : ptInc p t u = 0 := by unfold ptInc; rw [if_neg (by linarith), if_neg (by linarith)]
  have e3 : ptInc p u s = 0 := by unfold ptInc; rw [if_neg (by linarith), if_neg (by linarith)]
  rw [e1, e2, e3]
  have hY := cross_heights s t u p
  constructor
  · intro h; exact absurd rfl h
  · intro h _
    rcases h with ⟨h1, h2, h3⟩ | ⟨h1, h2, h3⟩
    · have := mul_pos h2 (sub_pos.mpr hs)
      have := mul_pos h3 (sub_pos.mpr ht)
      have := mul_pos h1 (sub_pos.mpr hu)
      linarith
    · have := mul_pos (neg_pos.mpr h2) (sub_pos.mpr hs)
      have := mul_pos (neg_pos.mpr h3) (sub_pos.mpr ht)
      have := mul_pos (neg_pos.mpr h1) (sub_pos.mpr hu)
      nlinarith

/-- Off the three edges, the specification's winding number of a triangle ring is non-zero exactly
when the three edge determinants have one strict sign (no orientation or non-degeneracy
assumption). -/
theorem tri_winding {a b c p : Pt} (n1 : lineCoord a b p = false) (n2 : lineCoord b c p = false)
    (n3 : lineCoord c a p = false) :
    ptInc p a b + ptInc p b c + ptInc p c a ≠ 0 ↔ SameSign a b c p := by
  have r1 : ptInc p a b + ptInc p b c + ptInc p c a = ptInc p b c + ptInc p c a + ptInc p a b := by omega
  have r2 : ptInc p a b + ptInc p b c + ptInc p c a = ptInc p c a + ptInc p a b + ptInc p b c := by omega
  have s1 : SameSign a b c p ↔ SameSign b c a p := SameSign_rot
  have s2 : SameSign a b c p ↔ SameSign c a b p := SameSign_rot.symm
  by_cases ha : a.y ≤ p.y <;> by_cases hb : b.y ≤ p.y <;> by_cases hc : c.y ≤ p.y
  · exact tri_all_low ha hb hc
  · rw [r2, s2]; exact tri_high_low_low (lt_of_not_ge hc) ha hb n3 n1 n2
  · rw [r1, s1]; exact tri_high_low_low (lt_of_not_ge hb) hc ha n2 n3 n1
  · exact tri_low_high_high ha (lt_of_not_ge hb) (lt_of_not_ge hc) n1 n3
  · exact tri_high_low_low (lt_of_not_ge ha) hb hc n1 n2 n3
  · rw [r1, s1]; exact tri_low_high_high hb (lt_of_not_ge hc) (lt_of_not_ge ha) n2 n1
  · rw [r2, s2]; exact tri_low_high_high hc (lt_of_not_ge ha) (lt_of_not_ge hb) n3 n2
  · exact tri_all_high (lt_of_not_ge ha) (lt_of_not_ge hb) (lt_of_not_ge hc)

theorem calcTriangle_eq (a b c p : Pt) (acc : PosAcc) :
    calcTriangle a b c p acc =
      if (lineCoord a b p || lineCoord b c p || lineCoord c a p) = true then
        { acc with bcount := acc.bcount + 1 }
      else if triContainsCoord a b c p = true then { acc with inside := true } else acc := rfl

/-- `coordinate_position` of a Triangle (after the fix; any vertex order, degenerate or not) is the
specification's location on the ring `[a, b, c, a]`. -/
theorem coordPos_triangle_eq_locate (a b c p : Pt) :
    coordPos (.triangle a b c) p = locate (.triangle a b c) p := by
  have hl : locate (.triangle a b c) p = locateParts ⟨[], [], [⟨[a, b, c, a], []⟩]⟩ p := rfl
  rw [hl, locateParts_ring, windingE_ofPt]
  have hs : segs [a, b, c, a] = [(a, b), (b, c), (c, a)] := rfl
  have hne : ([a, b, c, a] == [p]) = false := by simp
  rw [hs, hne]
  simp only [coordPos, calcPos, calcTriangle_eq, onAnySeg, List.any_cons, List.any_nil, Bool.or_false,
    List.map_cons, List.map_nil, List.sum_cons, List.sum_nil, add_zero]
  by_cases n1 : lineCoord a b p = true
  · simp [n1, PosAcc.result]
  by_cases n2 : lineCoord b c p = true
  · simp [n2, PosAcc.result]
  by_cases n3 : lineCoord c a p = true
  · simp [n3, PosAcc.result]
  have n1' : lineCoord a b p = false := by simpa using n1
  have n2' : lineCoord b c p = false := by simpa using n2
  have n3' : lineCoord c a p = false := by simpa using n3
  have hw := tri_winding n1' n2' n3'
  rw [← add_assoc] at *
  by_cases ht : triContainsCoord a b c p = true
  · have : ptInc p a b + ptInc p b c + ptInc p c a ≠ 0 := hw.mpr ((triContainsCoord_iff a b c p).mp ht)
    simp [n1', n2', n3', ht, this, PosAcc.result]
  · have : ptInc p a b + ptInc p b c + ptInc p c a = 0 := by
      by_contra hne
      exact ht ((triContainsCoord_iff a b c p).mpr (hw.mp hne))
    simp [n1', n2', n3', ht, this, PosAcc.result]

example : coordPos (.triangle ⟨0, 0⟩ ⟨2, 0⟩ ⟨0, 2⟩) ⟨0, 1⟩ = .onBoundary := by
  rw [coordPos_triangle_eq_locate]; decide +kernel

/-! ### Rect -/

theorem lineCoord_vert (x y1 y2 : Rat) (p : Pt) :
    lineCoord ⟨x, y1⟩ ⟨x, y2⟩ p = true ↔
      p.x = x ∧ ((y1 ≤ p.y ∧ p.y ≤ y2) ∨ (y2 ≤ p.y ∧ p.y ≤ y1)) := by
  rw [lineCoord_eq, pointInRect_iff]
  simp only [cross]
  constructor
  · rintro ⟨_, hx, hy⟩
    refine ⟨?_, hy⟩
    rcases hx with h1 | h1 <;> linarith
  · rintro ⟨hx, hy⟩
    exact ⟨by rw [hx]; ring, Or.inl ⟨hx.ge, hx.le⟩, hy⟩

theorem lineCoord_horiz (x1 x2 y : Rat) (p : Pt) :
    lineCoord ⟨x1, y⟩ ⟨x2, y⟩ p = true ↔
      p.y = y ∧ ((x1 ≤ p.x ∧ p.x ≤ x2) ∨ (x2 ≤ p.x ∧ p.x ≤ x1)) := by
  rw [lineCoord_eq, pointInRect_iff]
  simp only [cross]
  constructor
  · rintro ⟨_, hx, hy⟩
    refine ⟨?_, hx⟩
    rcases hy with h1 | h1 <;> linarith
  · rintro ⟨hy, hx⟩
    exact ⟨by rw [hy]; ring, hx, Or.inl ⟨hy.ge, hy.le⟩⟩

/-- the four edges of `Rect::to_polygon` contain `p` exactly when `p` is in the closed box and on
one of the four bounding lines -/
theorem rect_onSeg (a b c d : Rat) (p : Pt) (hac : a < c) (hbd : b < d) :
    onAnySeg p (segs (SM.rectToPolygon ⟨⟨a, b⟩, ⟨c, d⟩⟩)) = true ↔
      ¬ p.x < a ∧ ¬ c < p.x ∧ ¬ p.y < b ∧ ¬ d < p.y ∧ (p.x ≤ a ∨ p.y ≤ b ∨ c ≤ p.x ∨ d ≤ p.y) := by
  have hs : segs (SM.rectToPolygon ⟨⟨a, b⟩, ⟨c, d⟩⟩) =
      [(⟨c, b⟩, ⟨c, d⟩), (⟨c, d⟩, ⟨a, d⟩), (⟨a, d⟩, ⟨a, b⟩), (⟨a, b⟩, ⟨c, b⟩)] := rfl
  rw [hs]
  simp only [onAnySeg, List.any_cons, List.any_nil, Bool.or_false, Bool.or_eq_true,
    lineCoord_vert, lineCoord_horiz, not_lt]
  constructor
  · rintro (⟨h1, h2 | h2⟩ | ⟨h1, h2 | h2⟩ | ⟨h1, h2 | h2⟩ | ⟨h1, h2 | h2⟩)
    all_goals first
      | (exfalso; linarith [h2.1, h2.2])
      | (refine ⟨by linarith [h2.1, h2.2], by linarith [h2.1, h2.2], by linarith [h2.1, h2.2],
          by linarith [h2.1, h2.2], ?_⟩
         first
          | (left; linarith)
          | (right; left; linarith)
          | (right; right; left; linarith)
          | (right; right; right; linarith))
  · rintro ⟨h1, h2, h3, h4, h5 | h5 | h5 | h5⟩
    · right; right; left; exact ⟨le_antisymm h5 h1, Or.inr ⟨h3, h4⟩⟩
    · right; right; right; exact ⟨le_antisymm h5 h3, Or.inl ⟨h1, h2⟩⟩
    · left; exact ⟨le_antisymm h2 h5, Or.inl ⟨h3, h4⟩⟩
    · right; left; exact ⟨le_antisymm h4 h5, Or.inr ⟨h1, h2⟩⟩

theorem rect_winding (a b c d : Rat) (p : Pt) (hac : a < c) (hbd : b < d) :
    windingE (EPt.ofPt p) (SM.rectToPolygon ⟨⟨a, b⟩, ⟨c, d⟩⟩) ≠ 0 ↔
      ¬ p.y < b ∧ ¬ d ≤ p.y ∧ ¬ p.x < a ∧ ¬ c ≤ p.x := by
  have hs : segs (SM.rectToPolygon ⟨⟨a, b⟩, ⟨c, d⟩⟩) =
      [(⟨c, b⟩, ⟨c, d⟩), (⟨c, d⟩, ⟨a, d⟩), (⟨a, d⟩, ⟨a, b⟩), (⟨a, b⟩, ⟨c, b⟩)] := rfl
  rw [windingE_ofPt, hs]
  simp only [List.map_cons, List.map_nil, List.sum_cons, List.sum_nil, add_zero]
  have hdb : 0 < d - b := by linarith
  have e1 : ptInc p ⟨c, b⟩ ⟨c, d⟩ = if b ≤ p.y ∧ p.y < d ∧ p.x < c then 1 else 0 := by
    have hc : cross ⟨c, b⟩ ⟨c, d⟩ p = (d - b) * (c - p.x) := by simp only [cross]; ring
    unfold ptInc
    rw [hc]
    by_cases h1 : b ≤ p.y
    · by_cases h2 : p.y < d
      · by_cases h3 : p.x < c
        · have : 0 < (d - b) * (c - p.x) := mul_pos hdb (by linarith)
          simp [h1, h2, h3, this]
        · have : ¬ 0 < (d - b) * (c - p.x) := by
            intro h; have := mul_nonneg hdb.le (sub_nonneg.mpr (not_lt.mp h3)); nlinarith
          simp [h1, h2, h3, this]
      · simp [h1, h2]
    · have : ¬ d ≤ p.y := by intro h; linarith
      simp [h1, this]
  have e2 : ptInc p ⟨c, d⟩ ⟨a, d⟩ = 0 := by
    unfold ptInc
    by_cases h1 : d ≤ p.y
    · have : ¬ p.y < d := by linarith
      simp [h1, this]
    · simp [h1]
  have e3 : ptInc p ⟨a, d⟩ ⟨a, b⟩ = if b ≤ p.y ∧ p.y < d ∧ p.x < a then -1 else 0 := by
    have hc : cross ⟨a, d⟩ ⟨a, b⟩ p = (d - b) * (p.x - a) := by simp only [cross]; ring
    unfold ptInc
    rw [hc]
    by_cases h1 : d ≤ p.y
    · have h2 : ¬ p.y < b := by linarith
      have h3 : ¬ p.y < d := by linarith
      simp [h1, h2, h3]
    · by_cases h2 : b ≤ p.y
      · by_cases h3 : p.x < a
        · have : (d - b) * (p.x - a) < 0 := by
            have := mul_pos hdb (sub_pos.mpr h3); nlinarith
          simp [h1, h2, h3, this, not_le.mp h1]
        · have : ¬ (d - b) * (p.x - a) < 0 := by
            intro h; have := mul_nonneg hdb.le (sub_nonneg.mpr (not_lt.mp h3)); linarith
          simp [h1, h2, h3, this]
      · simp [h1, h2]
  have e4 : ptInc p ⟨a, b⟩ ⟨c, b⟩ = 0 := by
    unfold ptInc
    by_cases h1 : b ≤ p.y
    · have : ¬ p.y < b := by linarith
      simp [h1, this]
    · simp [h1]
  rw [e1, e2, e3, e4]
  by_cases y1 : p.y < b
  · have : ¬ b ≤ p.y := by linarith
    simp [y1, this]
  by_cases y4 : d ≤ p.y
  · have : ¬ p.y < d := by linarith
    simp [y4, this]
  by_cases x1 : p.x < a
  · have : p.x < c := by linarith
    simp [y1, y4, x1, this, not_lt.mp y1, not_le.mp y4]
  by_cases x4 : c ≤ p.x
  · have : ¬ p.x < c := by linarith
    simp [y1, y4, x1, x4, this]
  · simp [y1, y4, x1, x4, not_lt.mp y1, not_le.mp y4, not_le.mp x4]

theorem calcRect_eq (a b c d : Rat) (p : Pt) :
    (calcRect ⟨a, b⟩ ⟨c, d⟩ p ⟨false, 0⟩).result =
      if p.x < a ∨ p.y < b ∨ c < p.x ∨ d < p.y then .outside
      else if p.x ≤ a ∨ p.y ≤ b ∨ c ≤ p.x ∨ d ≤ p.y then .onBoundary else .inside := by
  unfold calcRect
  simp only
  by_cases h1 : p.x < a
  · simp [h1, PosAcc.result]
  by_cases h2 : p.y < b
  · simp [h1, h2, PosAcc.result]
  by_cases h3 : c < p.x
  · simp [h1, h2, h3, PosAcc.result]
  by_cases h4 : d < p.y
  · simp [h1, h2, h3, h4, PosAcc.result]
  rw [if_neg h1, if_neg h2, if_neg h3, if_neg h4,
    if_neg (show ¬(p.x < a ∨ p.y < b ∨ c < p.x ∨ d < p.y) by tauto)]
  have q1 : (p.x == a) = decide (p.x ≤ a) := by
    by_cases h : p.x = a
    · simp [h]
    · have : ¬ p.x ≤ a := fun h' => h (le_antisymm h' (not_lt.mp h1))
      simp [h, this]
  have q2 : (p.y == b) = decide (p.y ≤ b) := by
    by_cases h : p.y = b
    · simp [h]
    · have : ¬ p.y ≤ b := fun h' => h (le_antisymm h' (not_lt.mp h2))
      simp [h, this]
  have q3 : (c == p.x) = decide (c ≤ p.x) := by
    by_cases h : c = p.x
    · simp [h]
    · have : ¬ c ≤ p.x := fun h' => h (le_antisymm h' (not_lt.mp h3))
      simp [h, this]
  have q4 : (d == p.y) = decide (d ≤ p.y) := by
    by_cases h : d = p.y
    · simp [h]
    · have : ¬ d ≤ p.y := fun h' => h (le_antisymm h' (not_lt.mp h4))
      simp [h, this]
  rw [q1, q2, q3, q4]
  by_cases h : p.x ≤ a ∨ p.y ≤ b ∨ c ≤ p.x ∨ d ≤ p.y
  · rw [if_pos h]
    have : (decide (p.x ≤ a) || decide (p.y ≤ b) || decide (c ≤ p.x) || decide (d ≤ p.y)) = true := by
      simpa [or_assoc] using h
    rw [if_pos this]; simp [PosAcc.result]
  · rw [if_neg h]
    have : ¬ (decide (p.x ≤ a) || decide (p.y ≤ b) || decide (c ≤ p.x) || decide (d ≤ p.y)) = true := by
      simpa [or_assoc] using h
    rw [if_neg this]; simp [PosAcc.result]

/-- `coordinate_position` of a non-degenerate Rect is the specification's location on the ring of
`Rect::to_polygon`. -/
theorem coordPos_rect_eq_locate (mn mx p : Pt) (hx : mn.x < mx.x) (hy : mn.y < mx.y) :
    coordPos (.rect mn mx) p = locate (.rect mn mx) p := by
  obtain ⟨a, b⟩ := mn
  obtain ⟨c, d⟩ := mx
  simp only at hx hy
  have hl : locate (.rect ⟨a, b⟩ ⟨c, d⟩) p =
      locateParts ⟨[], [], [⟨SM.rectToPolygon ⟨⟨a, b⟩, ⟨c, d⟩⟩, []⟩]⟩ p := rfl
  have hne : (SM.rectToPolygon ⟨⟨a, b⟩, ⟨c, d⟩⟩ == [p]) = false := by simp [SM.rectToPolygon]
  have hc : coordPos (.rect ⟨a, b⟩ ⟨c, d⟩) p = (calcRect ⟨a, b⟩ ⟨c, d⟩ p ⟨false, 0⟩).result := by
    simp only [coordPos, calcPos]
  rw [hl, locateParts_ring, hne, hc, calcRect_eq]
  have hS := rect_onSeg a b c d p hx hy
  have hW := rect_winding a b c d p hx hy
  by_cases hs : onAnySeg p (segs (SM.rectToPolygon ⟨⟨a, b⟩, ⟨c, d⟩⟩)) = true
  · rw [hs]
    obtain ⟨h1, h2, h3, h4, h5⟩ := hS.mp hs
    rw [if_neg (by tauto), if_pos h5]
    simp
  · have hs' : onAnySeg p (segs (SM.rectToPolygon ⟨⟨a, b⟩, ⟨c, d⟩⟩)) = false := by simpa using hs
    rw [hs']
    rw [hS] at hs
    simp only [Bool.not_false, Bool.true_and, Bool.or_false, bne_iff_ne, Bool.false_eq_true, if_false]
    by_cases hw : windingE (EPt.ofPt p) (SM.rectToPolygon ⟨⟨a, b⟩, ⟨c, d⟩⟩) ≠ 0
    · rw [if_pos hw]
      obtain ⟨y1, y4, x1, x4⟩ := hW.mp hw
      have h5 : ¬ (p.x ≤ a ∨ p.y ≤ b ∨ c ≤ p.x ∨ d ≤ p.y) := by
        intro h5
        apply hs
        refine ⟨x1, by intro h; exact x4 h.le, y1, by intro h; exact y4 h.le, h5⟩
      rw [if_neg (by intro h; rcases h with h | h | h | h <;> [exact x1 h; exact y1 h; exact x4 h.le; exact y4 h.le]),
        if_neg h5]
    · rw [if_neg hw]
      rw [hW] at hw
      by_cases hout : p.x < a ∨ p.y < b ∨ c < p.x ∨ d < p.y
      · rw [if_pos hout]
      · exfalso
        simp only [not_or] at hout
        obtain ⟨o1, o2, o3, o4⟩ := hout
        by_cases h5 : p.x ≤ a ∨ p.y ≤ b ∨ c ≤ p.x ∨ d ≤ p.y
        · exact hs ⟨o1, o3, o2, o4, h5⟩
        · simp only [not_or] at h5
          exact hw ⟨o2, h5.2.2.2, o1, h5.2.2.1⟩

example : coordPos (.rect ⟨0, 0⟩ ⟨2, 3⟩) ⟨2, 1⟩ = locate (.rect ⟨0, 0⟩ ⟨2, 3⟩) ⟨2, 1⟩ :=
  coordPos_rect_eq_locate _ _ _ (by norm_num) (by norm_num)

/-! ### 3. Polygon, MultiPolygon -/

/-- closed with at least two coordinates (what the ring lemmas need; valid rings have ≥ 4) -/
def RingOK (r : List Pt) : Prop := r.head? = r.getLast? ∧ 2 ≤ r.length

/-- the specification's position relative to one ring -/
def ringLoc (p : Pt) (r : List Pt) : Pos :=
  if onAnySeg p (segs r) = true then .onBoundary
  else if windingE (EPt.ofPt p) r ≠ 0 then .inside else .outside

theorem onAnySeg_iff (p : Pt) (ss : List (Pt × Pt)) :
    onAnySeg p ss = true ↔ ∃ edge ∈ ss, lineCoord edge.1 edge.2 p = true := by
  unfold onAnySeg
  rw [List.any_eq_true]

/-- On a closed ring geo's `coord_pos_relative_to_ring` is the specification's ring position. -/
theorem ringPos_eq_ringLoc (p : Pt) (r : List Pt) (h : RingOK r) : ringPos p r = ringLoc p r := by
  unfold ringLoc
  have hb := ringPos_boundary_iff_closed p r h.2 h.1
  rw [← onAnySeg_iff] at hb
  by_cases hon : onAnySeg p (segs r) = true
  · rw [if_pos hon]; exact hb.mpr hon
  · rw [if_neg hon]
    have hnb : ringPos p r ≠ .onBoundary := fun h' => hon (hb.mp h')
    by_cases hw : windingE (EPt.ofPt p) r ≠ 0
    · rw [if_pos hw]; exact (ringPos_eq_spec p r h.2 hnb).mpr hw
    · rw [if_neg hw]
      exact (ringPos_outside_iff p r h.2 hnb).mpr (not_not.mp hw)

theorem ringLoc_boundary_iff (p : Pt) (r : List Pt) :
    ringLoc p r = .onBoundary ↔ onAnySeg p (segs r) = true := by
  unfold ringLoc
  by_cases hon : onAnySeg p (segs r) = true
  · simp [hon]
  · rw [if_neg hon]; split <;> simp [hon]

theorem ringLoc_inside_iff (p : Pt) (r : List Pt) :
    ringLoc p r = .inside ↔ onAnySeg p (segs r) = false ∧ windingE (EPt.ofPt p) r ≠ 0 := by
  unfold ringLoc
  by_cases hon : onAnySeg p (segs r) = true
  · simp [hon]
  · rw [if_neg hon]
    have : onAnySeg p (segs r) = false := by simpa using hon
    split <;> simp_all

theorem ringLoc_outside_iff (p : Pt) (r : List Pt) :
    ringLoc p r = .outside ↔ onAnySeg p (segs r) = false ∧ windingE (EPt.ofPt p) r = 0 := by
  unfold ringLoc
  by_cases hon : onAnySeg p (segs r) = true
  · simp [hon]
  · rw [if_neg hon]
    have : onAnySeg p (segs r) = false := by simpa using hon
    split <;> simp_all

theorem locateParts_poly (poly : Poly) (p : Pt) :
    locateParts ⟨[], [], [poly]⟩ p =
      if (!(poly.rings.any fun r => onAnySeg p (segs r)) &&
          (windingE (EPt.ofPt p) poly.ext != 0 && poly.ints.all (fun h => windingE (EPt.ofPt p) h == 0))) = true
        then .inside
      else if ((poly.rings.any fun r => onAnySeg p (segs r)) || poly.rings.any (fun r => r == [p])) = true
        then .onBoundary
      else .outside := by
  simp only [locateParts, Parts.areaSegs, Parts.curveSegs, List.any_nil, List.flatMap_nil,
    Bool.false_eq_true, if_false, List.any_cons, Bool.or_false, List.flatMap_cons,
    List.append_nil, insidePolyE, onAnySeg_flatMap]
  simp only [onAnySeg, List.any_nil, Bool.false_eq_true, if_false]
  rfl

/-- the holes loop, from the empty accumulator, when no point strictly inside one hole lies on
another hole's ring -/
theorem calcHoles_result (p : Pt) (hs : List (List Pt)) (hok : ∀ h ∈ hs, RingOK h)
    (H2 : ∀ h ∈ hs, ∀ h' ∈ hs, ringPos p h = .inside → onAnySeg p (segs h') = false) :
    (calcHoles p hs ⟨false, 0⟩).result =
      if (hs.any fun h => onAnySeg p (segs h)) = true then .onBoundary
      else if (hs.all fun h => windingE (EPt.ofPt p) h == 0) = true then .inside else .outside := by
  induction hs with
  | nil => simp [calcHoles, PosAcc.result]
  | cons h t ih =>
    have hokt : ∀ h ∈ t, RingOK h := fun x hx => hok x (List.mem_cons_of_mem _ hx)
    have H2t : ∀ x ∈ t, ∀ y ∈ t, ringPos p x = .inside → onAnySeg p (segs y) = false :=
      fun x hx y hy => H2 x (List.mem_cons_of_mem _ hx) y (List.mem_cons_of_mem _ hy)
    have hrl := ringPos_eq_ringLoc p h (hok h List.mem_cons_self)
    unfold calcHoles
    cases hp : ringPos p h with
    | outside =>
      simp only
      rw [hrl, ringLoc_outside_iff] at hp
      rw [ih hokt H2t]
      simp [hp.1, hp.2]
    | onBoundary =>
      simp only
      rw [hrl, ringLoc_boundary_iff] at hp
      simp [hp, PosAcc.result]
    | inside =>
      simp only
      have hall : ∀ y ∈ h :: t, onAnySeg p (segs y) = false :=
        fun y hy => H2 h List.mem_cons_self y hy hp
      rw [hrl, ringLoc_inside_iff] at hp
      have hany : ((h :: t).any fun h => onAnySeg p (segs h)) = false := by
        rw [List.any_eq_false]
        intro y hy; rw [hall y hy]; simp
      rw [hany]
      have hw : (windingE (EPt.ofPt p) h == 0) = false := by simpa using hp.2
      simp [hw, PosAcc.result]

theorem ring_ne_single {r : List Pt} (h : RingOK r) (p : Pt) : (r == [p]) = false := by
  match r, h.2 with
  | a :: b :: rest, _ => simp

/-- **Polygon.** With closed rings, and for a query point `p` such that (H1) `p` on a hole ring is
not outside the shell and (H2) `p` strictly inside one hole is on no hole ring, the modelled
`coordinate_position` is the specification's location. -/
theorem coordPos_polygon_eq_locate_at (poly : Poly) (p : Pt)
    (hext : RingOK poly.ext) (hints : ∀ h ∈ poly.ints, RingOK h)
    (H1 : ∀ h ∈ poly.ints, onAnySeg p (segs h) = true → ringPos p poly.ext ≠ .outside)
    (H2 : ∀ h ∈ poly.ints, ∀ h' ∈ poly.ints, ringPos p h = .inside → onAnySeg p (segs h') = false) :
    coordPos (.polygon poly) p = locate (.polygon poly) p := by
  have hl : locate (.polygon poly) p = locateParts ⟨[], [], [poly]⟩ p := rfl
  have hne : poly.ext.isEmpty = false := by
    match h : poly.ext, hext.2 with
    | a :: b :: rest, _ => rfl
  have hsingle : (poly.rings.any fun r => r == [p]) = false := by
    rw [List.any_eq_false]
    intro r hr
    have : RingOK r := by
      rcases List.mem_cons.mp hr with h | h
      · rw [h]; exact hext
      · exact hints r h
    rw [ring_ne_single this]; simp
  have hrings : (poly.rings.any fun r => onAnySeg p (segs r)) =
      (onAnySeg p (segs poly.ext) || poly.ints.any fun r => onAnySeg p (segs r)) := by
    simp [Poly.rings]
  rw [hl, locateParts_poly, hsingle, hrings]
  have hc : coordPos (.polygon poly) p = (calcPolygon poly p ⟨false, 0⟩).result := by
    simp only [coordPos, calcPos]
  rw [hc]
  unfold calcPolygon
  rw [hne]
  simp only [Bool.false_eq_true, if_false, Bool.or_false]
  have hrl := ringPos_eq_ringLoc p poly.ext hext
  cases hp : ringPos p poly.ext with
  | outside =>
    simp only
    have hp' := hp
    rw [hrl, ringLoc_outside_iff] at hp'
    have hany : (poly.ints.any fun r => onAnySeg p (segs r)) = false := by
      rw [List.any_eq_false]
      intro h hh hon
      exact H1 h hh hon hp
    simp [hp'.1, hp'.2, hany, PosAcc.result]
  | onBoundary =>
    simp only
    rw [hrl, ringLoc_boundary_iff] at hp
    simp [hp, PosAcc.result]
  | inside =>
    simp only
    rw [hrl, ringLoc_inside_iff] at hp
    rw [calcHoles_result p poly.ints hints H2]
    have hw : (windingE (EPt.ofPt p) poly.ext != 0) = true := by simpa using hp.2
    rw [hp.1, hw]
    by_cases hany : (poly.ints.any fun r => onAnySeg p (segs r)) = true
    · simp [hany]
    · have hany' : (poly.ints.any fun r => onAnySeg p (segs r)) = false := by simpa using hany
      rw [hany']
      simp

/-! #### MultiPolygon -/

/-- the holes loop for an arbitrary accumulator -/
theorem calcHoles_acc (p : Pt) (hs : List (List Pt)) (acc : PosAcc) :
    calcHoles p hs acc =
      match (calcHoles p hs ⟨false, 0⟩).result with
      | .onBoundary => { acc with bcount := acc.bcount + 1 }
      | .inside => { acc with inside := true }
      | .outside => acc := by
  induction hs with
  | nil => simp [calcHoles, PosAcc.result]
  | cons h t ih =>
    unfold calcHoles
    cases ringPos p h with
    | outside => simp only; exact ih
    | onBoundary => simp [PosAcc.result]
    | inside => simp [PosAcc.result]

/-- the Polygon clause for an arbitrary accumulator, through its own `coordinate_position` -/
theorem calcPolygon_acc (poly : Poly) (p : Pt) (acc : PosAcc) :
    calcPolygon poly p acc =
      match coordPos (.polygon poly) p with
      | .onBoundary => { acc with bcount := acc.bcount + 1 }
      | .inside => { acc with inside := true }
      | .outside => acc := by
  have hc : coordPos (.polygon poly) p = (calcPolygon poly p ⟨false, 0⟩).result := by
    simp only [coordPos, calcPos]
  rw [hc]
  unfold calcPolygon
  by_cases he : poly.ext.isEmpty = true
  · simp [he, PosAcc.result]
  · rw [if_neg he, if_neg he]
    cases ringPos p poly.ext with
    | outside => simp [PosAcc.result]
    | onBoundary => simp [PosAcc.result]
    | inside => simp only; exact calcHoles_acc p poly.ints acc

theorem mpoly_fold (p : Pt) (ps : List Poly) (acc : PosAcc) :
    ps.foldl (fun a poly => calcPolygon poly p a) acc =
      ⟨acc.inside || ps.any (fun m => coordPos (.polygon m) p == .inside),
       acc.bcount + (ps.filter (fun m => coordPos (.polygon m) p == .onBoundary)).length⟩ := by
  induction ps generalizing acc with
  | nil => simp
  | cons m t ih =>
    simp only [List.foldl_cons, List.any_cons, List.filter_cons]
    rw [ih, calcPolygon_acc]
    have e1 : (Pos.outside == Pos.inside) = false := rfl
    have e2 : (Pos.outside == Pos.onBoundary) = false := rfl
    have e3 : (Pos.onBoundary == Pos.inside) = false := rfl
    have e4 : (Pos.inside == Pos.onBoundary) = false := rfl
    cases coordPos (.polygon m) p with
    | outside => simp [e1, e2]
    | onBoundary => simp [e3]; omega
    | inside => simp [e4]

/-- the MultiPolygon clause (after the fix): boundary if any member reports boundary, else inside
if any member reports inside -/
theorem coordPos_multiPolygon (ps : List Poly) (p : Pt) :
    coordPos (.multiPolygon ps) p =
      if (ps.any fun m => coordPos (.polygon m) p == .onBoundary) = true then .onBoundary
      else if (ps.any fun m => coordPos (.polygon m) p == .inside) = true then .inside else .outside := by
  have hc : coordPos (.multiPolygon ps) p = (calcMultiPolygon ps p ⟨false, 0⟩).result := by
    simp only [coordPos, calcPos]
  rw [hc]
  unfold calcMultiPolygon
  simp only [mpoly_fold, Bool.false_or, Nat.zero_add]
  by_cases hb : (ps.any fun m => coordPos (.polygon m) p == .onBoundary) = true
  · have : 0 < (ps.filter (fun m => coordPos (.polygon m) p == .onBoundary)).length := by
      rw [List.length_pos_iff]
      obtain ⟨m, hm, h⟩ := List.any_eq_true.mp hb
      intro hnil
      rw [List.filter_eq_nil_iff] at hnil
      exact hnil m hm h
    simp [hb, this, PosAcc.result]
  · have : (ps.filter (fun m => coordPos (.polygon m) p == .onBoundary)).length = 0 := by
      rw [List.length_eq_zero_iff, List.filter_eq_nil_iff]
      intro m hm h
      exact hb (List.any_eq_true.mpr ⟨m, hm, h⟩)
    rw [this, if_neg hb]
    by_cases hi : (ps.any fun m => coordPos (.polygon m) p == .inside) = true <;> simp [hi, PosAcc.result]

theorem any_or_any {α : Type} (l : List α) (f g : α → Bool) :
    (l.any f || l.any g) = l.any (fun a => f a || g a) := by
  induction l with
  | nil => rfl
  | cons a t ih =>
    simp only [List.any_cons, ← ih]
    cases f a <;> cases g a <;> cases t.any f <;> cases t.any g <;> rfl

/-- `locate` on areal members only, raw form -/
theorem locateParts_areas_raw (ps : List Poly) (p : Pt) :
    locateParts ⟨[], [], ps⟩ p =
      if (ps.any fun m => !(onAnySeg p (m.rings.flatMap segs)) && insidePolyE (EPt.ofPt p) m) = true
        then .inside
      else if (ps.any fun m => onAnySeg p (m.rings.flatMap segs) || m.rings.any (fun r => r == [p])) = true
        then .onBoundary
      else .outside := by
  have h1 : onAnySeg p ((ps.flatMap Poly.rings).flatMap segs) =
      ps.any (fun m => onAnySeg p (m.rings.flatMap segs)) := by
    unfold onAnySeg
    rw [List.flatMap_assoc, List.any_flatMap]
  simp only [locateParts, Parts.areaSegs, Parts.curveSegs, List.flatMap_nil, List.any_nil, h1,
    any_or_any]
  simp only [onAnySeg, List.any_nil, Bool.false_eq_true, if_false]
  rfl

/-- `locate` of a MultiPolygon through the locations relative to its members: interior of a
member first, then boundary of a member. -/
theorem locate_multiPolygon (ps : List Poly) (p : Pt) :
    locate (.multiPolygon ps) p =
      if (ps.any fun m => locate (.polygon m) p == .inside) = true then .inside
      else if (ps.any fun m => locate (.polygon m) p == .onBoundary) = true then .onBoundary
      else .outside := by
  have hl : locate (.multiPolygon ps) p = locateParts ⟨[], [], ps⟩ p := rfl
  have h1 : ∀ m : Poly, locate (.polygon m) p =
      if (!(onAnySeg p (m.rings.flatMap segs)) && insidePolyE (EPt.ofPt p) m) = true then .inside
      else if (onAnySeg p (m.rings.flatMap segs) || m.rings.any (fun r => r == [p])) = true
        then .onBoundary else .outside := by
    intro m
    rw [show locate (.polygon m) p = locateParts ⟨[], [], [m]⟩ p from rfl, locateParts_areas_raw]
    simp only [List.any_cons, List.any_nil, Bool.or_false]
  rw [hl, locateParts_areas_raw]
  have hI : (ps.any fun m => locate (.polygon m) p == .inside) =
      ps.any fun m => !(onAnySeg p (m.rings.flatMap segs)) && insidePolyE (EPt.ofPt p) m := by
    rw [Bool.eq_iff_iff, List.any_eq_true, List.any_eq_true]
    constructor
    · rintro ⟨m, hm, h⟩
      refine ⟨m, hm, ?_⟩
      rw [h1] at h
      by_cases hi : (!(onAnySeg p (m.rings.flatMap segs)) && insidePolyE (EPt.ofPt p) m) = true
      · exact hi
      · rw [if_neg hi] at h
        split at h <;> cases h
    · rintro ⟨m, hm, h⟩
      refine ⟨m, hm, ?_⟩
      rw [h1, if_pos h]; rfl
  rw [hI]
  by_cases hi : (ps.any fun m => !(onAnySeg p (m.rings.flatMap segs)) && insidePolyE (EPt.ofPt p) m) = true
  · rw [if_pos hi, if_pos hi]
  · rw [if_neg hi, if_neg hi]
    have hB : (ps.any fun m => locate (.polygon m) p == .onBoundary) =
        ps.any fun m => onAnySeg p (m.rings.flatMap segs) || m.rings.any (fun r => r == [p]) := by
      rw [Bool.eq_iff_iff, List.any_eq_true, List.any_eq_true]
      have hni : ∀ m ∈ ps, ¬ (!(onAnySeg p (m.rings.flatMap segs)) && insidePolyE (EPt.ofPt p) m) = true :=
        fun m hm h => hi (List.any_eq_true.mpr ⟨m, hm, h⟩)
      constructor
      · rintro ⟨m, hm, h⟩
        refine ⟨m, hm, ?_⟩
        rw [h1, if_neg (hni m hm)] at h
        by_cases hb : (onAnySeg p (m.rings.flatMap segs) || m.rings.any (fun r => r == [p])) = true
        · exact hb
        · rw [if_neg hb] at h; cases h
      · rintro ⟨m, hm, h⟩
        refine ⟨m, hm, ?_⟩
        rw [h1, if_neg (hni m hm), if_pos h]; rfl
    rw [hB]

/-- **MultiPolygon.** If the members' `coordinate_position` is the specification's location and no
point is in the interior of one member and on the boundary of another (members of a valid
MultiPolygon have disjoint interiors and touch only at points), the modelled
`coordinate_position` of the MultiPolygon is the specification's location. -/
theorem coordPos_multiPolygon_eq_locate_of (ps : List Poly) (p : Pt)
    (hm : ∀ m ∈ ps, coordPos (.polygon m) p = locate (.polygon m) p)
    (hd : ∀ m ∈ ps, ∀ m' ∈ ps, locate (.polygon m) p = .inside → locate (.polygon m') p ≠ .onBoundary) :
    coordPos (.multiPolygon ps) p = locate (.multiPolygon ps) p := by
  rw [coordPos_multiPolygon, locate_multiPolygon]
  have e1 : (ps.any fun m => coordPos (.polygon m) p == .onBoundary) =
      ps.any fun m => locate (.polygon m) p == .onBoundary := by
    rw [Bool.eq_iff_iff, List.any_eq_true, List.any_eq_true]
    constructor <;> rintro ⟨m, h, h'⟩ <;> refine ⟨m, h, ?_⟩
    · rw [← hm m h]; exact h'
    · rw [hm m h]; exact h'
  have e2 : (ps.any fun m => coordPos (.polygon m) p == .inside) =
      ps.any fun m => locate (.polygon m) p == .inside := by
    rw [Bool.eq_iff_iff, List.any_eq_true, List.any_eq_true]
    constructor <;> rintro ⟨m, h, h'⟩ <;> refine ⟨m, h, ?_⟩
    · rw [← hm m h]; exact h'
    · rw [hm m h]; exact h'
  rw [e1, e2]
  by_cases hi : (ps.any fun m => locate (.polygon m) p == .inside) = true
  · have hb : ¬ (ps.any fun m => locate (.polygon m) p == .onBoundary) = true := by
      intro hb
      obtain ⟨m, hmm, h⟩ := List.any_eq_true.mp hi
      obtain ⟨m', hmm', h'⟩ := List.any_eq_true.mp hb
      exact hd m hmm m' hmm' (by simpa using h) (by simpa using h')
    rw [if_neg hb, if_pos hi, if_pos hi]
  · rw [if_neg hi, if_neg hi]

/-! ### 4. folds, bounding-box rejection and symmetry of `intersectsM` -/

/-- a point of a segment of `cs` is inside the bounding box of `cs` -/
theorem segMem_in_bbox {cs : List Pt} {mn mx a b p : Pt} (hb : getBoundingRect cs = some (mn, mx))
    (hm : (a, b) ∈ segs cs) (hp : SegMem p a b) : rectCoord mn mx p = true := by
  apply onAnySeg_in_bbox hb
  rw [onAnySeg_iff]
  exact ⟨(a, b), hm, (lineCoord_iff a b p).mpr hp⟩

/-- **bounding-box rejection is sound for the segment kernel**: if the bounding boxes of two
coordinate lists do not intersect, no segment of one meets a segment of the other. -/
theorem disjoint_bbox_segs {cs ds : List Pt} {amn amx bmn bmx : Pt}
    (ha : getBoundingRect cs = some (amn, amx)) (hb : getBoundingRect ds = some (bmn, bmx))
    (hd : rectRect amn amx bmn bmx = false) :
    ∀ s ∈ segs cs, ∀ t ∈ segs ds, lineLine s.1 s.2 t.1 t.2 = false := by
  intro s hs t ht
  by_contra hne
  have hl : lineLine s.1 s.2 t.1 t.2 = true := by simpa using hne
  rw [lineLine_iff] at hl
  obtain ⟨p, h1, h2⟩ := hl
  have r1 := segMem_in_bbox ha (by simpa using hs) h1
  have r2 := segMem_in_bbox hb (by simpa using ht) h2
  rw [rectCoord_iff] at r1 r2
  have : rectRect amn amx bmn bmx = true := by
    rw [rectRect_eq]
    refine ⟨?_, ?_, ?_, ?_⟩ <;> linarith [r1.1, r1.2.1, r1.2.2.1, r1.2.2.2, r2.1, r2.2.1, r2.2.2.1, r2.2.2.2]
  rw [this] at hd; cases hd

/-- `has_disjoint_bboxes(LineString, LineString)` is sound for the segment kernel. -/
theorem disjointBB_lineString_sound (cs ds : List Pt)
    (h : disjointBB (.lineString cs) (.lineString ds) = true) :
    ∀ s ∈ segs cs, ∀ t ∈ segs ds, lineLine s.1 s.2 t.1 t.2 = false := by
  unfold disjointBB at h
  simp only [boundingRect] at h
  cases ha : getBoundingRect cs with
  | none => rw [ha] at h; cases h
  | some A =>
    cases hb : getBoundingRect ds with
    | none => rw [ha, hb] at h; cases h
    | some B =>
      obtain ⟨amn, amx⟩ := A
      obtain ⟨bmn, bmx⟩ := B
      rw [ha, hb] at h
      exact disjoint_bbox_segs ha hb (by simpa using h)

/-- a point of the segment `ab` is inside `Rect::new(a, b)` -/
theorem segMem_in_rectNew {a b p : Pt} (hp : SegMem p a b) :
    rectCoord (rectNewPts a b).1 (rectNewPts a b).2 p = true := by
  have hr := hp.inRect
  rw [pointInRect_iff] at hr
  obtain ⟨hx, hy⟩ := hr
  rw [rectCoord_iff]
  simp only [rectNewPts, SM.rectNew]
  by_cases h1 : a.x < b.x <;> by_cases h2 : a.y < b.y <;> simp only [h1, h2, if_true, if_false] <;>
    (refine ⟨?_, ?_, ?_, ?_⟩ <;> first
      | (rcases hx with h | h <;> linarith [h.1, h.2])
      | (rcases hy with h | h <;> linarith [h.1, h.2]))

/-- `LineString: Intersects<Line>`: the bounding-box early return loses nothing. -/
theorem lsLine_eq (cs : List Pt) (a b : Pt) :
    lsLine cs a b = (segs cs).any (fun s => lineLine s.1 s.2 a b) := by
  unfold lsLine
  by_cases hd : disjointBB (.lineString cs) (.line a b) = true
  · rw [if_pos hd]
    symm
    rw [List.any_eq_false]
    intro s hs hl
    rw [lineLine_iff] at hl
    obtain ⟨p, h1, h2⟩ := hl
    unfold disjointBB at hd
    simp only [boundingRect] at hd
    cases ha : getBoundingRect cs with
    | none => rw [ha] at hd; cases hd
    | some A =>
      obtain ⟨amn, amx⟩ := A
      rw [ha] at hd
      have r1 := segMem_in_bbox ha (by simpa using hs) h1
      have r2 := segMem_in_rectNew h2
      rw [rectCoord_iff] at r1 r2
      have : rectRect amn amx (rectNewPts a b).1 (rectNewPts a b).2 = true := by
        rw [rectRect_eq]
        refine ⟨?_, ?_, ?_, ?_⟩ <;>
          linarith [r1.1, r1.2.1, r1.2.2.1, r1.2.2.2, r2.1, r2.2.1, r2.2.2.1, r2.2.2.2]
      simp [this] at hd
  · rw [if_neg hd]

/-! #### folds -/

theorem intersectsM_point (c : Pt) (b : Geom) : intersectsM (.point c) b = vsPiece b (.point c) := by
  rw [intersectsM]

/-- `MultiPoint: Intersects<G>` is `any` over the points. -/
theorem intersectsM_multiPoint (cs : List Pt) (b : Geom) :
    intersectsM (.multiPoint cs) b = cs.any (fun c => intersectsM (.point c) b) := by
  rw [intersectsM]
  congr 1

theorem intersectsAny_eq (gs : List Geom) (b : Geom) :
    intersectsAny gs b = gs.any (fun g => intersectsM g b) := by
  induction gs with
  | nil => rw [intersectsAny]; rfl
  | cons g t ih => rw [intersectsAny, ih]; rfl

/-- `GeometryCollection: Intersects<G>` is the bounding-box test followed by `any` over members. -/
theorem intersectsM_collection (gs : List Geom) (b : Geom) :
    intersectsM (.collection gs) b =
      (!disjointBB (.collection gs) b && gs.any (fun g => intersectsM g b)) := by
  rw [intersectsM, intersectsAny_eq]
  cases disjointBB (.collection gs) b <;> simp

/-- `MultiPolygon: Intersects<G>`: bounding-box test, then `any` over the member polygons. -/
theorem intersectsM_multiPolygon (ps : List Poly) (b : Geom) :
    intersectsM (.multiPolygon ps) b =
      (!disjointBB (.multiPolygon ps) b && ps.any (fun p => intersectsM (.polygon p) b)) := by
  rw [intersectsM]
  have : (fun p => vsPiece b (.polygon p)) = fun p => intersectsM (.polygon p) b := by
    funext p; rw [intersectsM]
  rw [this]
  cases disjointBB (.multiPolygon ps) b <;> simp

/-- `LineString: Intersects<G>`: bounding-box test, then `any` over the segments. -/
theorem intersectsM_lineString (cs : List Pt) (b : Geom) :
    intersectsM (.lineString cs) b =
      (!disjointBB (.lineString cs) b && (segs cs).any (fun s => intersectsM (.line s.1 s.2) b)) := by
  rw [intersectsM]
  have : (fun s : Pt × Pt => vsPiece b (.line s.1 s.2)) = fun s => intersectsM (.line s.1 s.2) b := by
    funext s; rw [intersectsM]
  rw [this]
  cases disjointBB (.lineString cs) b <;> simp

/-! #### symmetry -/

/-- the primitive operand types of the symmetric kernel impls -/
def prim : Geom → Bool
  | .point _ | .line _ _ | .rect _ _ | .triangle _ _ _ | .polygon _ => true
  | _ => false

/-- pairs of primitives whose two dispatch orders reach the same kernel term (all except
Triangle × Triangle and Polygon × Polygon, which go through the asymmetric `polyPoly`) -/
def kernelPair : Geom → Geom → Bool
  | .triangle _ _ _, .triangle _ _ _ => false
  | .polygon _, .polygon _ => false
  | a, b => prim a && prim b

/-- `intersects` is symmetric on every primitive pair (Point, Line, Rect, Triangle, Polygon), except
the two pairs that run the asymmetric `Polygon × Polygon` body. -/
theorem intersectsM_symm_kernel (a b : Geom) (h : kernelPair a b = true) :
    intersectsM a b = intersectsM b a := by
  cases a <;> cases b <;> simp only [kernelPair, prim, Bool.and_true, Bool.and_false, Bool.false_eq_true] at h <;>
    simp only [intersectsM, vsPiece, isxFlat, coordX, lineX, rectX, triX, polyX]
  · exact beq_pt_comm _ _
  · exact lineLine_symm _ _ _ _
  · rename_i amn amx bmn bmx
    unfold rectRect
    by_cases h1 : bmx.x < amn.x <;> by_cases h2 : bmx.y < amn.y <;> by_cases h3 : bmn.x > amx.x <;>
      by_cases h4 : bmn.y > amx.y <;> simp [h1, h2, h3, h4]

/-- `MultiPoint × primitive` is symmetric. -/
theorem intersectsM_symm_multiPoint (cs : List Pt) (b : Geom) (h : prim b = true) :
    intersectsM (.multiPoint cs) b = intersectsM b (.multiPoint cs) := by
  cases b <;> simp only [prim, Bool.false_eq_true] at h <;>
    simp only [intersectsM, vsPiece, isxFlat, coordX, lineX, rectX, triX, polyX]
  congr 1
  funext c
  exact beq_pt_comm _ _

/-! ### 5. the DE-9IM specification against a Point right-hand side -/

theorem IM.get_set (m : IM) (a b : Pos) (d : Dim) (X Y : Pos) :
    (m.set a b d).get X Y = if a = X ∧ b = Y then d else m.get X Y := by
  cases a <;> cases b <;> cases X <;> cases Y <;> simp [IM.set, IM.get]

theorem Dim.rank_pos {d : Dim} (h : d ≠ .empty) : 0 < d.rank := by
  cases d <;> simp [Dim.rank] at h ⊢

theorem Dim.rank_eq_zero {d : Dim} (h : ¬ 0 < d.rank) : d = .empty := by
  cases d <;> simp [Dim.rank] at h ⊢

theorem IM.get_setAtLeast_ne_empty (m : IM) (a b : Pos) (d : Dim) (X Y : Pos) (hd : d ≠ .empty) :
    (m.setAtLeast a b d).get X Y ≠ .empty ↔ m.get X Y ≠ .empty ∨ (a = X ∧ b = Y) := by
  unfold IM.setAtLeast
  by_cases hr : (m.get a b).rank < d.rank
  · rw [if_pos hr, IM.get_set]
    by_cases hab : a = X ∧ b = Y
    · rw [if_pos hab]; simp [hd, hab]
    · rw [if_neg hab]; simp [hab]
  · rw [if_neg hr]
    constructor
    · intro h; exact Or.inl h
    · rintro (h | ⟨h1, h2⟩)
      · exact h
      · subst h1; subst h2
        intro he
        rw [he] at hr
        exact hr (Dim.rank_pos hd)

theorem fold_get_ne_empty (L : List Atom) (m0 : IM) (X Y : Pos) (hd : ∀ a ∈ L, a.dim ≠ .empty) :
    (L.foldl (fun m a => m.setAtLeast a.posA a.posB a.dim) m0).get X Y ≠ .empty ↔
      m0.get X Y ≠ .empty ∨ ∃ a ∈ L, a.posA = X ∧ a.posB = Y := by
  induction L generalizing m0 with
  | nil => simp
  | cons a t ih =>
    rw [List.foldl_cons, ih _ (fun x hx => hd x (List.mem_cons_of_mem _ hx)),
      IM.get_setAtLeast_ne_empty _ _ _ _ _ _ (hd a List.mem_cons_self)]
    constructor
    · rintro ((h | h) | ⟨x, hx, h⟩)
      · exact Or.inl h
      · exact Or.inr ⟨a, List.mem_cons_self, h⟩
      · exact Or.inr ⟨x, List.mem_cons_of_mem _ hx, h⟩
    · rintro (h | ⟨x, hx, h⟩)
      · exact Or.inl (Or.inl h)
      · rcases List.mem_cons.mp hx with e | e
        · subst e; exact Or.inl (Or.inr h)
        · exact Or.inr ⟨x, e, h⟩

theorem mem_dedupPts {l : List Pt} {p : Pt} (h : p ∈ l) : p ∈ dedupPts l := by
  unfold dedupPts
  have key : ∀ (l : List Pt) (acc : List Pt), (p ∈ acc ∨ p ∈ l) →
      p ∈ l.foldl (fun acc p => if acc.any (· == p) then acc else p :: acc) acc := by
    intro l
    induction l with
    | nil => intro acc h; simpa using h
    | cons q t ih =>
      intro acc h
      rw [List.foldl_cons]
      apply ih
      rcases h with h | h
      · left
        split
        · exact h
        · exact List.mem_cons_of_mem _ h
      · rcases List.mem_cons.mp h with e | e
        · left
          subst e
          split
          · rename_i hany
            obtain ⟨x, hx, hxe⟩ := List.any_eq_true.mp hany
            have : x = p := by simpa using hxe
            rw [← this]; exact hx
          · exact List.mem_cons_self
        · exact Or.inr e
  exact key l [] (Or.inr h)

/-- the atoms of one segment are midpoints (dim 1) and face samples (dim 2) -/
theorem mem_segAtoms {pa pb : Parts} {verts : List Pt} {s : Pt × Pt} {x : Atom}
    (h : x ∈ segAtoms pa pb verts s) :
    (∃ m : Pt, x = ⟨.one, locateParts pa m, locateParts pb m⟩) ∨
    (∃ l : EPt, x = ⟨.two, locateFace pa l, locateFace pb l⟩) := by
  obtain ⟨a, b⟩ := s
  unfold segAtoms at h
  simp only at h
  split at h
  · cases h
  · rw [List.mem_flatMap] at h
    obtain ⟨⟨u, v⟩, _, hx⟩ := h
    simp only at hx
    split at hx
    · cases hx
    · simp only [List.mem_cons, List.not_mem_nil, or_false] at hx
      rcases hx with e | e | e
      · exact Or.inl ⟨_, e⟩
      · exact Or.inr ⟨_, e⟩
      · exact Or.inr ⟨_, e⟩

/-- the atom list of `relateParts` -/
def atomsOf (pa pb : Parts) : List Atom :=
  let ss := (pa.allSegs ++ pb.allSegs)
  let ends := ss.flatMap (fun (a, b) => [a, b])
  let singles := (pa.curves ++ pb.curves ++ (pa.areas ++ pb.areas).flatMap Poly.rings).flatMap
    (fun c => match c with | [p] => [p] | _ => [])
  let verts := dedupPts (ends ++ singles ++ pa.pts ++ pb.pts ++ pairVertices ss)
  let vAtoms : List Atom := verts.map (fun v => ⟨.zero, locateParts pa v, locateParts pb v⟩)
  let sAtoms := ss.flatMap (segAtoms pa pb verts)
  vAtoms ++ sAtoms

theorem relateParts_eq (pa pb : Parts) :
    relateParts pa pb =
      ((atomsOf pa pb).foldl (fun m a => m.setAtLeast a.posA a.posB a.dim) IM.empty).set
        .outside .outside .two := rfl

/-- every atom is a vertex (dim 0), a midpoint (dim 1) or a face sample (dim 2), located in both
operands -/
theorem mem_atomsOf {pa pb : Parts} {x : Atom} (h : x ∈ atomsOf pa pb) :
    (∃ v : Pt, x = ⟨.zero, locateParts pa v, locateParts pb v⟩) ∨
    (∃ m : Pt, x = ⟨.one, locateParts pa m, locateParts pb m⟩) ∨
    (∃ l : EPt, x = ⟨.two, locateFace pa l, locateFace pb l⟩) := by
  unfold atomsOf at h
  simp only at h
  rcases List.mem_append.mp h with h | h
  · obtain ⟨v, _, e⟩ := List.mem_map.mp h
    exact Or.inl ⟨v, e.symm⟩
  · obtain ⟨s, _, hx⟩ := List.mem_flatMap.mp h
    exact Or.inr (mem_segAtoms hx)

/-- the isolated points of both operands are vertices of the arrangement -/
theorem vertex_atom_of_pt {pa pb : Parts} {c : Pt} (hc : c ∈ pb.pts) :
    (⟨.zero, locateParts pa c, locateParts pb c⟩ : Atom) ∈ atomsOf pa pb := by
  unfold atomsOf
  simp only
  apply List.mem_append_left
  apply List.mem_map.mpr
  refine ⟨c, mem_dedupPts ?_, rfl⟩
  simp [hc]

theorem atoms_dim_ne_empty {pa pb : Parts} {x : Atom} (h : x ∈ atomsOf pa pb) : x.dim ≠ .empty := by
  rcases mem_atomsOf h with ⟨_, e⟩ | ⟨_, e⟩ | ⟨_, e⟩ <;> (rw [e]; simp)

theorem locateParts_point (c v : Pt) :
    locateParts ⟨[c], [], []⟩ v = if v = c then .inside else .outside := by
  rw [locateParts_noAreas]
  simp only [List.flatMap_nil, onAnySeg, List.any_nil, Bool.false_eq_true, if_false, List.any_cons,
    Bool.or_false]
  by_cases h : v = c
  · subst h; simp
  · have : ¬ c = v := fun e => h e.symm
    simp [h, this]

theorem locateFace_point (c : Pt) (l : EPt) : locateFace ⟨[c], [], []⟩ l = .outside := by
  simp [locateFace]

/-- cells of the specification matrix against a Point, columns Interior and Boundary of the point:
the only atoms there are located at the point itself. -/
theorem relate_point_cell (pa : Parts) (c : Pt) (X Y : Pos) (hY : Y ≠ .outside) :
    (relateParts pa ⟨[c], [], []⟩).get X Y ≠ .empty ↔ (Y = .inside ∧ locateParts pa c = X) := by
  rw [relateParts_eq, IM.get_set, if_neg (by tauto),
    fold_get_ne_empty _ _ _ _ (fun a h => atoms_dim_ne_empty h)]
  have h0 : IM.empty.get X Y = .empty := by cases X <;> cases Y <;> rfl
  have hpt : ∀ v : Pt, locateParts pa v = X → locateParts ⟨[c], [], []⟩ v = Y →
      Y = .inside ∧ locateParts pa c = X := by
    intro v h1 h2
    rw [locateParts_point] at h2
    by_cases hv : v = c
    · rw [if_pos hv] at h2; rw [← hv]; exact ⟨h2.symm, h1⟩
    · rw [if_neg hv] at h2; exact absurd h2.symm hY
  constructor
  · rintro (h | ⟨x, hx, h1, h2⟩)
    · exact absurd h0 h
    · rcases mem_atomsOf hx with ⟨v, e⟩ | ⟨v, e⟩ | ⟨l, e⟩
      · rw [e] at h1 h2; exact hpt v h1 h2
      · rw [e] at h1 h2; exact hpt v h1 h2
      · rw [e] at h2
        simp only at h2
        rw [locateFace_point] at h2
        exact absurd h2.symm hY
  · rintro ⟨hY', hX⟩
    right
    refine ⟨_, vertex_atom_of_pt (pa := pa) (pb := ⟨[c], [], []⟩) (c := c) (by simp), hX, ?_⟩
    simp only
    rw [locateParts_point, if_pos rfl, hY']

/-- **`contains` against a Point, on the specification**: the mask `T*****FF*` on the DE-9IM
specification of `(A, Point c)` holds exactly when `c` is located in the interior of `A`. -/
theorem isContains_relate_point (a : Geom) (c : Pt) :
    Gen.isContains (relateSpec a (.point c)) = (locate a c == .inside) := by
  have hr : relateSpec a (.point c) = relateParts (parts a) ⟨[c], [], []⟩ := rfl
  have hii := relate_point_cell (parts a) c .inside .inside (by decide)
  have hei := relate_point_cell (parts a) c .outside .inside (by decide)
  have heb := relate_point_cell (parts a) c .outside .onBoundary (by decide)
  rw [hr]
  unfold Gen.isContains locate
  change ((relateParts (parts a) ⟨[c], [], []⟩).get .inside .inside != .empty &&
    (relateParts (parts a) ⟨[c], [], []⟩).get .outside .inside == .empty &&
    (relateParts (parts a) ⟨[c], [], []⟩).get .outside .onBoundary == .empty) = _
  have e3 : (relateParts (parts a) ⟨[c], [], []⟩).get .outside .onBoundary = .empty := by
    by_contra h
    have := (heb.mp h).1
    cases this
  rw [e3]
  cases hl : locateParts (parts a) c with
  | inside =>
    have e1 : (relateParts (parts a) ⟨[c], [], []⟩).get .inside .inside ≠ .empty := hii.mpr ⟨rfl, hl⟩
    have e2 : (relateParts (parts a) ⟨[c], [], []⟩).get .outside .inside = .empty := by
      by_contra h
      have := (hei.mp h).2
      rw [hl] at this; cases this
    rw [e2]
    simp [e1]
  | onBoundary =>
    have e1 : (relateParts (parts a) ⟨[c], [], []⟩).get .inside .inside = .empty := by
      by_contra h
      have := (hii.mp h).2
      rw [hl] at this; cases this
    rw [e1]; rfl
  | outside =>
    have e1 : (relateParts (parts a) ⟨[c], [], []⟩).get .inside .inside = .empty := by
      by_contra h
      have := (hii.mp h).2
      rw [hl] at this; cases this
    rw [e1]; rfl

/-- **`intersects` against a Point, on the specification**: not `FF*FF****` exactly when `c` is
not in the exterior of `A`. -/
theorem isIntersects_relate_point (a : Geom) (c : Pt) :
    Gen.isIntersects (relateSpec a (.point c)) = (locate a c != .outside) := by
  have hr : relateSpec a (.point c) = relateParts (parts a) ⟨[c], [], []⟩ := rfl
  have hii := relate_point_cell (parts a) c .inside .inside (by decide)
  have hib := relate_point_cell (parts a) c .inside .onBoundary (by decide)
  have hbi := relate_point_cell (parts a) c .onBoundary .inside (by decide)
  have hbb := relate_point_cell (parts a) c .onBoundary .onBoundary (by decide)
  rw [hr]
  unfold Gen.isIntersects Gen.isDisjoint locate
  change (!((relateParts (parts a) ⟨[c], [], []⟩).get .inside .inside == .empty &&
    (relateParts (parts a) ⟨[c], [], []⟩).get .inside .onBoundary == .empty &&
    (relateParts (parts a) ⟨[c], [], []⟩).get .onBoundary .inside == .empty &&
    (relateParts (parts a) ⟨[c], [], []⟩).get .onBoundary .onBoundary == .empty)) = _
  have e2 : (relateParts (parts a) ⟨[c], [], []⟩).get .inside .onBoundary = .empty := by
    by_contra h
    have := (hib.mp h).1
    cases this
  have e4 : (relateParts (parts a) ⟨[c], [], []⟩).get .onBoundary .onBoundary = .empty := by
    by_contra h
    have := (hbb.mp h).1
    cases this
  rw [e2, e4]
  cases hl : locateParts (parts a) c with
  | inside =>
    have e1 : (relateParts (parts a) ⟨[c], [], []⟩).get .inside .inside ≠ .empty := hii.mpr ⟨rfl, hl⟩
    have e1' : ((relateParts (parts a) ⟨[c], [], []⟩).get .inside .inside == .empty) = false := by
      simpa using e1
    rw [e1']; rfl
  | onBoundary =>
    have e1 : (relateParts (parts a) ⟨[c], [], []⟩).get .onBoundary .inside ≠ .empty := hbi.mpr ⟨rfl, hl⟩
    have e1' : ((relateParts (parts a) ⟨[c], [], []⟩).get .onBoundary .inside == .empty) = false := by
      simpa using e1
    rw [e1']
    simp only [Bool.not_false, Bool.not_and, Bool.or_true]
    rfl
  | outside =>
    have e1 : (relateParts (parts a) ⟨[c], [], []⟩).get .inside .inside = .empty := by
      by_contra h
      have := (hii.mp h).2
      rw [hl] at this; cases this
    have e3 : (relateParts (parts a) ⟨[c], [], []⟩).get .onBoundary .inside = .empty := by
      by_contra h
      have := (hbi.mp h).2
      rw [hl] at this; cases this
    rw [e1, e3]; rfl

/-! ### 5b. hand-written `Contains<Point>` / `Intersects<Point>` bodies = masks on the specification -/

theorem containsM_point_rhs (a : Geom) (c : Pt) : containsM a (.point c) = containsCoord a c := by
  cases a <;> rfl

/-- Point × Point -/
theorem containsM_point_point (p q : Pt) :
    containsM (.point p) (.point q) = Gen.isContains (relateSpec (.point p) (.point q)) := by
  rw [isContains_relate_point, ← coordPos_point_eq_locate, containsM_point_rhs]
  simp only [containsCoord, containsCoordFlat, coordPos, calcPos, calcPoint]
  by_cases h : p = q <;> simp [h, PosAcc.result]

/-- MultiPoint × Point -/
theorem containsM_multiPoint_point (ps : List Pt) (q : Pt) :
    containsM (.multiPoint ps) (.point q) = Gen.isContains (relateSpec (.multiPoint ps) (.point q)) := by
  rw [isContains_relate_point, ← coordPos_multiPoint_eq_locate, containsM_point_rhs]
  simp only [containsCoord, containsCoordFlat, coordPos, calcPos]
  by_cases h : ps.any (· == q) = true
  · simp [h, PosAcc.result]
  · simp [h, PosAcc.result]

/-- `Line: Contains<Coord>` is "position `Inside`" -/
theorem lineContainsCoord_eq (a b c : Pt) :
    lineContainsCoord a b c = (coordPos (.line a b) c == .inside) := by
  simp only [coordPos, calcPos, calcLine, calcPoint, lineContainsCoord]
  by_cases hab : a = b
  · subst hab
    by_cases hc : a = c <;> simp [hc, PosAcc.result]
  · by_cases h1 : c = a
    · subst h1; simp [hab, PosAcc.result]
    · by_cases h2 : c = b
      · subst h2; simp [hab, PosAcc.result]
      · by_cases hl : lineCoord a b c = true
        · simp [hab, h1, h2, hl, PosAcc.result]
        · simp [hab, h1, h2, hl, PosAcc.result]

/-- Line × Point (degenerate or not) -/
theorem containsM_line_point (a b c : Pt) :
    containsM (.line a b) (.point c) = Gen.isContains (relateSpec (.line a b) (.point c)) := by
  rw [isContains_relate_point, ← coordPos_line_eq_locate, containsM_point_rhs]
  simp only [containsCoord, containsCoordFlat]
  exact lineContainsCoord_eq a b c

/-- `Rect: Contains<Coord>` (strict comparisons) is "position `Inside`" -/
theorem rectContainsCoord_eq (mn mx c : Pt) :
    rectContainsCoord mn mx c = (coordPos (.rect mn mx) c == .inside) := by
  obtain ⟨a, b⟩ := mn
  obtain ⟨x, y⟩ := mx
  have hc : coordPos (.rect ⟨a, b⟩ ⟨x, y⟩) c = (calcRect ⟨a, b⟩ ⟨x, y⟩ c ⟨false, 0⟩).result := by
    simp only [coordPos, calcPos]
  rw [hc, calcRect_eq]
  rw [Bool.eq_iff_iff, rectContainsCoord_iff]
  simp only
  by_cases h1 : c.x < a ∨ c.y < b ∨ x < c.x ∨ y < c.y
  · rw [if_pos h1]
    constructor
    · rintro ⟨g1, g2, g3, g4⟩; exfalso; rcases h1 with h | h | h | h <;> linarith
    · intro h; cases h
  · rw [if_neg h1]
    by_cases h2 : c.x ≤ a ∨ c.y ≤ b ∨ x ≤ c.x ∨ y ≤ c.y
    · rw [if_pos h2]
      constructor
      · rintro ⟨g1, g2, g3, g4⟩; exfalso; rcases h2 with h | h | h | h <;> linarith
      · intro h; cases h
    · rw [if_neg h2]
      simp only [not_or, not_le] at h2
      simp [h2.1, h2.2.1, h2.2.2.1, h2.2.2.2]

/-- Rect × Point, Rect of positive width and height -/
theorem containsM_rect_point (mn mx c : Pt) (hx : mn.x < mx.x) (hy : mn.y < mx.y) :
    containsM (.rect mn mx) (.point c) = Gen.isContains (relateSpec (.rect mn mx) (.point c)) := by
  rw [isContains_relate_point, ← coordPos_rect_eq_locate mn mx c hx hy, containsM_point_rhs]
  simp only [containsCoord, containsCoordFlat]
  exact rectContainsCoord_eq mn mx c

/-- `Triangle: Contains<Coord>` is "position `Inside`" -/
theorem triContainsCoord_eq (a b c p : Pt) :
    triContainsCoord a b c p = (coordPos (.triangle a b c) p == .inside) := by
  simp only [coordPos, calcPos, calcTriangle_eq]
  by_cases ht : triContainsCoord a b c p = true
  · have hs := (triContainsCoord_iff a b c p).mp ht
    have n1 : lineCoord a b p = false := by
      cases h : lineCoord a b p with
      | false => rfl
      | true => rw [lineCoord_eq] at h; rcases hs with hs | hs <;> linarith [h.1, hs.1]
    have n2 : lineCoord b c p = false := by
      cases h : lineCoord b c p with
      | false => rfl
      | true => rw [lineCoord_eq] at h; rcases hs with hs | hs <;> linarith [h.1, hs.2.1]
    have n3 : lineCoord c a p = false := by
      cases h : lineCoord c a p with
      | false => rfl
      | true => rw [lineCoord_eq] at h; rcases hs with hs | hs <;> linarith [h.1, hs.2.2]
    simp [n1, n2, n3, ht, PosAcc.result]
  · have ht' : triContainsCoord a b c p = false := by simpa using ht
    rw [ht']
    by_cases hb : (lineCoord a b p || lineCoord b c p || lineCoord c a p) = true
    · rw [if_pos hb]; simp [PosAcc.result]
    · rw [if_neg hb]; simp [PosAcc.result]

/-- Triangle × Point -/
theorem containsM_triangle_point (a b c p : Pt) :
    containsM (.triangle a b c) (.point p) = Gen.isContains (relateSpec (.triangle a b c) (.point p)) := by
  rw [isContains_relate_point, ← coordPos_triangle_eq_locate, containsM_point_rhs]
  simp only [containsCoord, containsCoordFlat]
  exact triContainsCoord_eq a b c p

/-- Polygon × Point, wherever the Polygon position is the specification's -/
theorem containsM_polygon_point (poly : Poly) (p : Pt)
    (h : coordPos (.polygon poly) p = locate (.polygon poly) p) :
    containsM (.polygon poly) (.point p) = Gen.isContains (relateSpec (.polygon poly) (.point p)) := by
  rw [isContains_relate_point, ← h, containsM_point_rhs]
  rfl

/-! #### `Intersects<Point>` -/

/-- Point × Point -/
theorem intersectsM_point_point (q c : Pt) :
    intersectsM (.point q) (.point c) = Gen.isIntersects (relateSpec (.point q) (.point c)) := by
  rw [isIntersects_relate_point, ← coordPos_point_eq_locate]
  simp only [intersectsM, vsPiece, isxFlat, coordX, coordPos, calcPos, calcPoint]
  by_cases h : q = c
  · subst h; simp [PosAcc.result]
  · have : ¬ c = q := fun e => h e.symm
    simp [h, this, PosAcc.result]

/-- MultiPoint × Point -/
theorem intersectsM_multiPoint_point (qs : List Pt) (c : Pt) :
    intersectsM (.multiPoint qs) (.point c) = Gen.isIntersects (relateSpec (.multiPoint qs) (.point c)) := by
  rw [isIntersects_relate_point, ← coordPos_multiPoint_eq_locate]
  simp only [intersectsM, vsPiece, isxFlat, coordX, coordPos, calcPos]
  have : (qs.any fun q => c == q) = qs.any (· == c) := by
    congr 1; funext q; exact beq_pt_comm _ _
  rw [this]
  by_cases h : qs.any (· == c) = true
  · simp [h, PosAcc.result]
  · simp [h, PosAcc.result]

/-- `Line: Intersects<Coord>` is "position not `Outside`" -/
theorem lineCoord_eq_pos (a b c : Pt) : lineCoord a b c = (coordPos (.line a b) c != .outside) := by
  simp only [coordPos, calcPos, calcLine, calcPoint]
  by_cases hab : a = b
  · subst hab
    by_cases hc : a = c
    · subst hc; simp [lineCoord_left, PosAcc.result]
    · have : ¬ lineCoord a a c = true := by rw [lineCoord_degenerate]; exact fun e => hc e.symm
      simp [hc, this, PosAcc.result]
  · by_cases h1 : c = a
    · subst h1; simp [hab, lineCoord_left, PosAcc.result]
    · by_cases h2 : c = b
      · subst h2; simp [hab, lineCoord_right, PosAcc.result]
      · by_cases hl : lineCoord a b c = true
        · simp [hab, h1, h2, hl, PosAcc.result]
        · simp [hab, h1, h2, hl, PosAcc.result]

/-- Line × Point -/
theorem intersectsM_line_point (a b c : Pt) :
    intersectsM (.line a b) (.point c) = Gen.isIntersects (relateSpec (.line a b) (.point c)) := by
  rw [isIntersects_relate_point, ← coordPos_line_eq_locate, ← lineCoord_eq_pos]
  simp only [intersectsM, vsPiece, isxFlat, coordX]

/-- `Rect: Intersects<Coord>` is "position not `Outside`" -/
theorem rectCoord_eq_pos (mn mx c : Pt) : rectCoord mn mx c = (coordPos (.rect mn mx) c != .outside) := by
  obtain ⟨a, b⟩ := mn
  obtain ⟨x, y⟩ := mx
  have hc : coordPos (.rect ⟨a, b⟩ ⟨x, y⟩) c = (calcRect ⟨a, b⟩ ⟨x, y⟩ c ⟨false, 0⟩).result := by
    simp only [coordPos, calcPos]
  rw [hc, calcRect_eq, Bool.eq_iff_iff, rectCoord_iff]
  simp only
  by_cases h1 : c.x < a ∨ c.y < b ∨ x < c.x ∨ y < c.y
  · rw [if_pos h1]
    constructor
    · rintro ⟨g1, g2, g3, g4⟩; exfalso; rcases h1 with h | h | h | h <;> linarith
    · intro h; exact absurd h (by decide)
  · rw [if_neg h1]
    simp only [not_or, not_lt] at h1
    constructor
    · intro _; split <;> decide
    · intro _; exact ⟨h1.1, h1.2.2.1, h1.2.1, h1.2.2.2⟩

/-- Rect × Point, Rect of positive width and height -/
theorem intersectsM_rect_point (mn mx c : Pt) (hx : mn.x < mx.x) (hy : mn.y < mx.y) :
    intersectsM (.rect mn mx) (.point c) = Gen.isIntersects (relateSpec (.rect mn mx) (.point c)) := by
  rw [isIntersects_relate_point, ← coordPos_rect_eq_locate mn mx c hx hy, ← rectCoord_eq_pos]
  simp only [intersectsM, vsPiece, isxFlat, coordX]

/-- Polygon × Point, wherever the Polygon position is the specification's -/
theorem intersectsM_polygon_point (poly : Poly) (p : Pt)
    (h : coordPos (.polygon poly) p = locate (.polygon poly) p) :
    intersectsM (.polygon poly) (.point p) = Gen.isIntersects (relateSpec (.polygon poly) (.point p)) := by
  rw [isIntersects_relate_point, ← h]
  simp only [intersectsM, vsPiece, isxFlat, coordX, polyCoord]

/-- LineString × Point (bounding-box rejection included) -/
theorem intersectsM_lineString_point (cs : List Pt) (c : Pt) :
    intersectsM (.lineString cs) (.point c) =
      Gen.isIntersects (relateSpec (.lineString cs) (.point c)) := by
  rw [isIntersects_relate_point, ← coordPos_lineString_eq_locate]
  have hr : rectNewPts c c = (c, c) := by simp [rectNewPts, SM.rectNew]
  have hd : disjointBB (.lineString cs) (.point c) =
      (match getBoundingRect cs with
       | none => false
       | some (mn, mx) => !rectRect mn mx c c) := by
    simp only [disjointBB, boundingRect]
    rw [hr]
    cases getBoundingRect cs with
    | none => rfl
    | some r => rfl
  have h1 : intersectsM (.lineString cs) (.point c) = lineStringCoord cs c := by
    simp only [intersectsM, vsPiece, isxFlat, coordX, lineStringCoord]
    rw [hd]
    cases getBoundingRect cs with
    | none => simp only [Bool.false_eq_true, if_false]
    | some r => rfl
  rw [h1, lineStringCoord_eq]
  simp only [coordPos, calcPos, calcLineString_eq]
  have hle := epc_le_one c cs
  by_cases he : epc c cs = 1
  · simp [he, onAnySeg_of_epc he, PosAcc.result]
  · by_cases hon : onAnySeg c (segs cs) = true
    · simp [he, hon, PosAcc.result]
    · simp [he, hon, PosAcc.result]

/-! ### 5c. a Point on the left: `within` -/

theorem vertex_atom_of_pt_left {pa pb : Parts} {c : Pt} (hc : c ∈ pa.pts) :
    (⟨.zero, locateParts pa c, locateParts pb c⟩ : Atom) ∈ atomsOf pa pb := by
  unfold atomsOf
  simp only
  apply List.mem_append_left
  apply List.mem_map.mpr
  refine ⟨c, mem_dedupPts ?_, rfl⟩
  simp [hc]

/-- rows Interior and Boundary of a Point on the left -/
theorem relate_point_cell_left (pb : Parts) (c : Pt) (X Y : Pos) (hX : X ≠ .outside) :
    (relateParts ⟨[c], [], []⟩ pb).get X Y ≠ .empty ↔ (X = .inside ∧ locateParts pb c = Y) := by
  rw [relateParts_eq, IM.get_set, if_neg (by tauto),
    fold_get_ne_empty _ _ _ _ (fun a h => atoms_dim_ne_empty h)]
  have h0 : IM.empty.get X Y = .empty := by cases X <;> cases Y <;> rfl
  have hpt : ∀ v : Pt, locateParts ⟨[c], [], []⟩ v = X → locateParts pb v = Y →
      X = .inside ∧ locateParts pb c = Y := by
    intro v h1 h2
    rw [locateParts_point] at h1
    by_cases hv : v = c
    · rw [if_pos hv] at h1; rw [← hv]; exact ⟨h1.symm, h2⟩
    · rw [if_neg hv] at h1; exact absurd h1.symm hX
  constructor
  · rintro (h | ⟨x, hx, h1, h2⟩)
    · exact absurd h0 h
    · rcases mem_atomsOf hx with ⟨v, e⟩ | ⟨v, e⟩ | ⟨l, e⟩
      · rw [e] at h1 h2; exact hpt v h1 h2
      · rw [e] at h1 h2; exact hpt v h1 h2
      · rw [e] at h1
        simp only at h1
        rw [locateFace_point] at h1
        exact absurd h1.symm hX
  · rintro ⟨hX', hY⟩
    right
    refine ⟨_, vertex_atom_of_pt_left (pa := ⟨[c], [], []⟩) (pb := pb) (c := c) (by simp), ?_, hY⟩
    simp only
    rw [locateParts_point, if_pos rfl, hX']

/-- **`within` of a Point, on the specification**: the mask `T*F**F***` on the DE-9IM
specification of `(Point c, A)` holds exactly when `c` is located in the interior of `A`. -/
theorem isWithin_relate_point (a : Geom) (c : Pt) :
    Gen.isWithin (relateSpec (.point c) a) = (locate a c == .inside) := by
  have hr : relateSpec (.point c) a = relateParts ⟨[c], [], []⟩ (parts a) := rfl
  have hii := relate_point_cell_left (parts a) c .inside .inside (by decide)
  have hie := relate_point_cell_left (parts a) c .inside .outside (by decide)
  have hbe := relate_point_cell_left (parts a) c .onBoundary .outside (by decide)
  rw [hr]
  unfold Gen.isWithin locate
  change ((relateParts ⟨[c], [], []⟩ (parts a)).get .inside .inside != .empty &&
    (relateParts ⟨[c], [], []⟩ (parts a)).get .inside .outside == .empty &&
    (relateParts ⟨[c], [], []⟩ (parts a)).get .onBoundary .outside == .empty) = _
  have e3 : (relateParts ⟨[c], [], []⟩ (parts a)).get .onBoundary .outside = .empty := by
    by_contra h
    have := (hbe.mp h).1
    cases this
  rw [e3]
  cases hl : locateParts (parts a) c with
  | inside =>
    have e1 : (relateParts ⟨[c], [], []⟩ (parts a)).get .inside .inside ≠ .empty := hii.mpr ⟨rfl, hl⟩
    have e2 : (relateParts ⟨[c], [], []⟩ (parts a)).get .inside .outside = .empty := by
      by_contra h
      have := (hie.mp h).2
      rw [hl] at this; cases this
    rw [e2]
    simp [e1]
  | onBoundary =>
    have e1 : (relateParts ⟨[c], [], []⟩ (parts a)).get .inside .inside = .empty := by
      by_contra h
      have := (hii.mp h).2
      rw [hl] at this; cases this
    rw [e1]; rfl
  | outside =>
    have e1 : (relateParts ⟨[c], [], []⟩ (parts a)).get .inside .inside = .empty := by
      by_contra h
      have := (hii.mp h).2
      rw [hl] at this; cases this
    rw [e1]; rfl

/-- `Point.is_within(A)` returns what its own mask gives on the specification whenever
`A.contains(Point)` does. -/
theorem withinM_point_of_contains (a : Geom) (c : Pt)
    (h : containsM a (.point c) = Gen.isContains (relateSpec a (.point c))) :
    withinM (.point c) a = Gen.isWithin (relateSpec (.point c) a) := by
  rw [isWithin_relate_point, ← isContains_relate_point, ← h]; rfl

/-! ### Triangle × Point intersects (non-degenerate triangle) -/

theorem cross_cyc (p q r : Pt) : cross q r p = cross p q r := by unfold cross; ring

/-- a point collinear with edge `ab` and weakly on the inner side of the other two edges of a
non-degenerate triangle is on the edge -/
theorem on_edge_of_weak {a b c p : Pt} (hD : cross a b c ≠ 0) (h0 : cross a b p = 0)
    (hs : (0 ≤ cross b c p ∧ 0 ≤ cross c a p) ∨ (cross b c p ≤ 0 ∧ cross c a p ≤ 0)) :
    lineCoord a b p = true := by
  rw [lineCoord_iff]
  have hsum := cross_sum a b c p
  have hx := bary_x a b c p
  have hy := bary_y a b c p
  rw [h0] at hsum hx hy
  have ht : 0 ≤ cross c a p / cross a b c ∧ cross c a p / cross a b c ≤ 1 := by
    rcases hs with ⟨h1, h2⟩ | ⟨h1, h2⟩
    · have hpos : 0 < cross a b c := lt_of_le_of_ne (by linarith) (Ne.symm hD)
      exact ⟨div_nonneg h2 hpos.le, (div_le_one hpos).mpr (by linarith)⟩
    · have hneg : cross a b c < 0 := lt_of_le_of_ne (by linarith) hD
      exact ⟨div_nonneg_of_nonpos h2 hneg.le, (div_le_one_of_neg hneg).mpr (by linarith)⟩
  refine ⟨cross c a p / cross a b c, ht.1, ht.2, ?_, ?_⟩
  · field_simp
    have : cross b c p = cross a b c - cross c a p := by linarith
    rw [this] at hx
    linarith
  · field_simp
    have : cross b c p = cross a b c - cross c a p := by linarith
    rw [this] at hy
    linarith

/-- a point of edge `ab` is weakly on the inner side of the other two edges -/
theorem weak_of_on_edge {a b c p : Pt} (h : lineCoord a b p = true) :
    ∃ t : Rat, 0 ≤ t ∧ t ≤ 1 ∧ cross a b p = 0 ∧ cross b c p = (1 - t) * cross a b c ∧
      cross c a p = t * cross a b c := by
  have h0 := ((lineCoord_eq a b p).mp h).1
  rw [lineCoord_iff] at h
  obtain ⟨t, t0, t1, hx, hy⟩ := h
  refine ⟨t, t0, t1, h0, ?_, ?_⟩
  · unfold cross; rw [hx, hy]; ring
  · unfold cross; rw [hx, hy]; ring

/-- `Triangle: Intersects<Coord>` (sorted-orientation window test) is "position not `Outside`" for
a non-degenerate triangle -/
theorem triCoord_eq_pos (a b c p : Pt) (hD : cross a b c ≠ 0) :
    triCoord a b c p = (coordPos (.triangle a b c) p != .outside) := by
  simp only [coordPos, calcPos, calcTriangle_eq]
  have e2 : cross b c a = cross a b c := by unfold cross; ring
  have e3 : cross c a b = cross a b c := by unfold cross; ring
  have hD2 : cross b c a ≠ 0 := by rw [e2]; exact hD
  have hD3 : cross c a b ≠ 0 := by rw [e3]; exact hD
  by_cases hb : (lineCoord a b p || lineCoord b c p || lineCoord c a p) = true
  · rw [if_pos hb]
    have : triCoord a b c p = true := by
      rw [triCoord_iff_weak]
      simp only [Bool.or_eq_true] at hb
      rcases hb with (hb | hb) | hb
      · obtain ⟨t, t0, t1, h0, h1, h2⟩ := weak_of_on_edge (c := c) hb
        rw [h0, h1, h2]
        rcases le_total 0 (cross a b c) with hs | hs
        · left; exact ⟨le_refl _, mul_nonneg (by linarith) hs, mul_nonneg t0 hs⟩
        · right; exact ⟨le_refl _, mul_nonpos_of_nonneg_of_nonpos (by linarith) hs,
            mul_nonpos_of_nonneg_of_nonpos t0 hs⟩
      · obtain ⟨t, t0, t1, h0, h1, h2⟩ := weak_of_on_edge (c := a) hb
        rw [e2] at h1 h2
        rw [h0, h1, h2]
        rcases le_total 0 (cross a b c) with hs | hs
        · left; exact ⟨mul_nonneg t0 hs, le_refl _, mul_nonneg (by linarith) hs⟩
        · right; exact ⟨mul_nonpos_of_nonneg_of_nonpos t0 hs, le_refl _,
            mul_nonpos_of_nonneg_of_nonpos (by linarith) hs⟩
      · obtain ⟨t, t0, t1, h0, h1, h2⟩ := weak_of_on_edge (c := b) hb
        rw [e3] at h1 h2
        rw [h0, h1, h2]
        rcases le_total 0 (cross a b c) with hs | hs
        · left; exact ⟨mul_nonneg (by linarith) hs, mul_nonneg t0 hs, le_refl _⟩
        · right; exact ⟨mul_nonpos_of_nonneg_of_nonpos (by linarith) hs,
            mul_nonpos_of_nonneg_of_nonpos t0 hs, le_refl _⟩
    rw [this]; simp [PosAcc.result]
  · rw [if_neg hb]
    simp only [Bool.or_eq_true, not_or] at hb
    obtain ⟨⟨n1, n2⟩, n3⟩ := hb
    by_cases ht : triContainsCoord a b c p = true
    · rw [triContainsCoord_imp_triCoord a b c p ht, if_pos ht]; simp [PosAcc.result]
    · rw [if_neg ht]
      have : ¬ triCoord a b c p = true := by
        intro hw
        rw [triCoord_iff_weak] at hw
        rw [triContainsCoord_iff] at ht
        have c1 : cross a b p ≠ 0 := fun h0 => n1 (on_edge_of_weak hD h0 (by
          rcases hw with ⟨_, h2, h3⟩ | ⟨_, h2, h3⟩
          · exact Or.inl ⟨h2, h3⟩
          · exact Or.inr ⟨h2, h3⟩))
        have c2 : cross b c p ≠ 0 := fun h0 => n2 (on_edge_of_weak hD2 h0 (by
          rcases hw with ⟨h1, _, h3⟩ | ⟨h1, _, h3⟩
          · exact Or.inl ⟨h3, h1⟩
          · exact Or.inr ⟨h3, h1⟩))
        have c3 : cross c a p ≠ 0 := fun h0 => n3 (on_edge_of_weak hD3 h0 (by
          rcases hw with ⟨h1, h2, _⟩ | ⟨h1, h2, _⟩
          · exact Or.inl ⟨h1, h2⟩
          · exact Or.inr ⟨h1, h2⟩))
        apply ht
        rcases hw with ⟨h1, h2, h3⟩ | ⟨h1, h2, h3⟩
        · exact Or.inl ⟨lt_of_le_of_ne h1 (Ne.symm c1), lt_of_le_of_ne h2 (Ne.symm c2),
            lt_of_le_of_ne h3 (Ne.symm c3)⟩
        · exact Or.inr ⟨lt_of_le_of_ne h1 c1, lt_of_le_of_ne h2 c2, lt_of_le_of_ne h3 c3⟩
      have : triCoord a b c p = false := by simpa using this
      rw [this]; simp [PosAcc.result]

/-- Triangle × Point, non-degenerate triangle -/
theorem intersectsM_triangle_point (a b c p : Pt) (hD : cross a b c ≠ 0) :
    intersectsM (.triangle a b c) (.point p) =
      Gen.isIntersects (relateSpec (.triangle a b c) (.point p)) := by
  rw [isIntersects_relate_point, ← coordPos_triangle_eq_locate, ← triCoord_eq_pos a b c p hD]
  simp only [intersectsM, vsPiece, isxFlat, coordX]

end Geo.Proofs.Loc
