/-
  GeoProofs.Lemmas.LocateLemmas — the modelled `coordinate_position` fast paths
  (GeoModel/Locate.lean, GeoModel/Segment.lean) against the specification `locate`
  (GeoModel/RelateSpec.lean).
-/
import GeoModel.Contains
import GeoProofs.Lemmas.SegmentSpec
import GeoProofs.Lemmas.RingSpec
import GeoProofs.Props.C19

namespace Geo.Proofs.Loc
open Geo Geo.Proofs.Kernel

/-! ### 1. the two winding computations agree -/

/-- the increment `windingE` adds for one edge -/
def specInc (p : EPt) (s e : Pt) : Int :=
  if eLe s.y 0 p.y0 p.y1 then
    if eLt p.y0 p.y1 e.y 0 then (if eCrossSign s e p > 0 then 1 else 0) else 0
  else
    if eLe e.y 0 p.y0 p.y1 then (if eCrossSign s e p < 0 then -1 else 0) else 0

/-- the same increment for an unperturbed point, in terms of `cross` -/
def ptInc (p s e : Pt) : Int :=
  if s.y ≤ p.y then (if p.y < e.y then (if 0 < cross s e p then 1 else 0) else 0)
  else (if e.y ≤ p.y then (if cross s e p < 0 then -1 else 0) else 0)

theorem foldl_add_sum {α : Type} (f : α → Int) (l : List α) (w : Int) :
    l.foldl (fun w a => w + f a) w = w + (l.map f).sum := by
  induction l generalizing w with
  | nil => simp
  | cons a t ih => simp only [List.foldl_cons, List.map_cons, List.sum_cons, ih]; omega

/-- `windingE` is the sum of the per-edge increments. -/
theorem windingE_eq_sum (p : EPt) (ring : List Pt) :
    windingE p ring = ((segs ring).map (fun se => specInc p se.1 se.2)).sum := by
  have h : windingE p ring = (segs ring).foldl (fun w se => w + specInc p se.1 se.2) 0 := by
    unfold windingE
    congr 1
    funext w se
    obtain ⟨s, e⟩ := se
    simp only [specInc]
    split <;> split <;> (try split) <;> omega
  rw [h, foldl_add_sum]; simp

theorem eCrossSign_ofPt (s e p : Pt) :
    eCrossSign s e (EPt.ofPt p) =
      if cross s e p > 0 then 1 else if cross s e p < 0 then -1 else 0 := by
  have h : (e.x - s.x) * (p.y - e.y) - (e.y - s.y) * (p.x - e.x) = cross s e p := rfl
  simp only [eCrossSign, EPt.ofPt, mul_zero, sub_zero, lt_irrefl, if_false, gt_iff_lt, h]

theorem specInc_ofPt (p s e : Pt) : specInc (EPt.ofPt p) s e = ptInc p s e := by
  have h1 : ∀ a b : Rat, eLe a 0 b 0 = decide (a ≤ b) := by
    intro a b
    rcases lt_trichotomy a b with h | h | h
    · simp [eLe, h, h.le]
    · simp [eLe, h]
    · have : ¬ a ≤ b := not_le.mpr h
      have h' : ¬ a < b := by linarith
      simp [eLe, this, h', h.ne']
  have h2 : ∀ a b : Rat, eLt a 0 b 0 = decide (a < b) := by
    intro a b
    by_cases h : a < b <;> simp [eLt, h]
  have hy0 : (EPt.ofPt p).y0 = p.y := rfl
  have hy1 : (EPt.ofPt p).y1 = 0 := rfl
  unfold specInc ptInc
  rw [hy0, hy1, h1, h1, h2, eCrossSign_ofPt]
  rcases lt_trichotomy (cross s e p) 0 with hc | hc | hc
  · have : ¬ (0 < cross s e p) := by linarith
    simp [hc, this]
  · simp [hc]
  · have : ¬ (cross s e p < 0) := by linarith
    simp [hc, this]

/-- Per edge: when geo's edge visit does not report "on boundary", its winding increment is the
one the specification adds. -/
theorem ringEdge_some_eq {p s e : Pt} {d : Int} (h : ringEdge p s e = some d) :
    d = specInc (EPt.ofPt p) s e := by
  rw [specInc_ofPt]
  unfold ringEdge at h
  unfold ptInc
  by_cases h1 : s.y ≤ p.y
  · rw [if_pos h1] at h; rw [if_pos h1]
    by_cases h2 : e.y ≥ p.y
    · rw [if_pos h2] at h
      rcases lt_trichotomy (cross s e p) 0 with hc | hc | hc
      · have ho : orient s e p = .cw := (orient_cw_iff _ _ _).mpr hc
        have : ¬ (0 < cross s e p) := by linarith
        simp [ho] at h
        simp [this, h]
      · have ho : orient s e p = .col := (orient_col_iff _ _ _).mpr hc
        simp [ho] at h
        simp [hc, h.2]
      · have ho : orient s e p = .ccw := (orient_ccw_iff _ _ _).mpr hc
        by_cases h3 : e.y = p.y
        · simp [ho, h3] at h
          simp [h3, h]
        · have : p.y < e.y := lt_of_le_of_ne h2 (Ne.symm h3)
          simp [ho, h3] at h
          simp [this, hc, h]
    · rw [if_neg h2] at h
      have : ¬ p.y < e.y := fun h' => h2 h'.le
      simp at h
      simp [this, h]
  · rw [if_neg h1] at h; rw [if_neg h1]
    by_cases h2 : e.y ≤ p.y
    · rw [if_pos h2] at h; rw [if_pos h2]
      rcases lt_trichotomy (cross s e p) 0 with hc | hc | hc
      · have ho : orient s e p = .cw := (orient_cw_iff _ _ _).mpr hc
        simp [ho] at h
        simp [hc, h]
      · have ho : orient s e p = .col := (orient_col_iff _ _ _).mpr hc
        simp [ho] at h
        simp [hc, h.2]
      · have ho : orient s e p = .ccw := (orient_ccw_iff _ _ _).mpr hc
        have : ¬ (cross s e p < 0) := by linarith
        simp [ho] at h
        simp [this, h]
    · rw [if_neg h2] at h; rw [if_neg h2]
      simp at h; exact h.symm

/-- geo's winding loop, when it does not stop at a boundary hit, adds up the specification's
increments. -/
theorem ringWinding_eq (p : Pt) (es : List (Pt × Pt)) (w w' : Int)
    (h : ringWinding p es w = some w') :
    w' = w + (es.map (fun se => specInc (EPt.ofPt p) se.1 se.2)).sum := by
  induction es generalizing w with
  | nil => simp [ringWinding] at h; simp [h]
  | cons hd tl ih =>
    obtain ⟨s, e⟩ := hd
    unfold ringWinding at h
    cases hre : ringEdge p s e with
    | none => rw [hre] at h; cases h
    | some d =>
      rw [hre] at h
      have := ih (w + d) h
      rw [this, ringEdge_some_eq hre]
      simp only [List.map_cons, List.sum_cons]; omega

theorem ringPos_cons2 (p a b : Pt) (rest : List Pt) :
    ringPos p (a :: b :: rest) =
      match ringWinding p (segs (a :: b :: rest)) 0 with
      | none => .onBoundary
      | some w => if w == 0 then .outside else .inside := rfl

/-- Off the ring, geo's `coord_pos_relative_to_ring` says `Inside` exactly when the
specification's winding number is non-zero. -/
theorem ringPos_eq_spec (p : Pt) (ring : List Pt) (h2 : 2 ≤ ring.length)
    (hb : ringPos p ring ≠ .onBoundary) :
    ringPos p ring = .inside ↔ windingE (EPt.ofPt p) ring ≠ 0 := by
  match ring, h2 with
  | a :: b :: rest, _ =>
    rw [ringPos_cons2] at hb ⊢
    cases hw : ringWinding p (segs (a :: b :: rest)) 0 with
    | none => rw [hw] at hb; exact absurd rfl hb
    | some w =>
      have := ringWinding_eq p _ 0 w hw
      rw [zero_add, ← windingE_eq_sum] at this
      rw [← this]
      simp only []
      by_cases hz : w = 0 <;> simp [hz]

/-- … and `Outside` exactly when it is zero. -/
theorem ringPos_outside_iff (p : Pt) (ring : List Pt) (h2 : 2 ≤ ring.length)
    (hb : ringPos p ring ≠ .onBoundary) :
    ringPos p ring = .outside ↔ windingE (EPt.ofPt p) ring = 0 := by
  have h := ringPos_eq_spec p ring h2 hb
  constructor
  · intro ho
    by_contra hne
    rw [h.mpr hne] at ho; cases ho
  · intro hz
    cases hp : ringPos p ring with
    | onBoundary => exact absurd hp hb
    | inside => exact absurd hz (h.mp hp)
    | outside => rfl

example : ringPos ⟨1, 1⟩ [⟨0, 0⟩, ⟨4, 0⟩, ⟨0, 4⟩, ⟨0, 0⟩] = .inside ↔
    windingE (EPt.ofPt ⟨1, 1⟩) [⟨0, 0⟩, ⟨4, 0⟩, ⟨0, 4⟩, ⟨0, 0⟩] ≠ 0 :=
  ringPos_eq_spec _ _ (by simp) (by decide +kernel)

end Geo.Proofs.Loc
