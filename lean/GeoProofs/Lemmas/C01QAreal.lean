/-
  C01Q, part 4: `HasDimensions` against the specification, areal types.
  Row Interior = 2 needs a face sample of the arrangement inside the operand: computed for `Rect`
  (and `Triangle`, see C01QTriangle), an explicit hypothesis `HasInteriorSample` for polygons.
-/
import GeoProofs.Lemmas.C01QTypes

namespace Geo.Proofs.Spec
open Geo Geo.Proofs.Kernel

/-- some face sample of the arrangement lies in the interior of `A`, whatever the other operand is
(for a valid polygon: a fact of type S2 — its interior is not empty and is met by a sample beside one
of its edges) -/
def HasInteriorSample (pa : Parts) : Prop :=
  ∀ pb, ∃ x ∈ atomsOf pa pb, x.dim = .two ∧ x.posA = .inside

/-- some elementary-edge midpoint of the arrangement lies on the boundary of `A` -/
def HasBoundarySample (pa : Parts) : Prop :=
  ∀ pb, ∃ x ∈ atomsOf pa pb, x.dim = .one ∧ x.posA = .onBoundary

theorem rowMax_inside_two {pa pb : Parts} (h : ∃ x ∈ atomsOf pa pb, x.dim = .two ∧ x.posA = .inside) :
    RowMax pa pb .inside .two := by
  obtain ⟨x, hx, hd, hp⟩ := h
  refine ⟨Or.inr ⟨x, hx, hp, hd⟩, ?_⟩
  intro y _ _
  cases y.dim <;> simp [Dim.rank]

theorem locateFace_ne_boundary (pa : Parts) (e : EPt) : locateFace pa e ≠ .onBoundary := by
  unfold locateFace; split <;> simp

theorem rowMax_boundary_one {pa pb : Parts} (h : ∃ x ∈ atomsOf pa pb, x.dim = .one ∧ x.posA = .onBoundary) :
    RowMax pa pb .onBoundary .one := by
  obtain ⟨x, hx, hd, hp⟩ := h
  refine ⟨Or.inr ⟨x, hx, hp, hd⟩, ?_⟩
  intro y hy hY
  rcases mem_atomsOf_cases hy with ⟨v, _, rfl⟩ | ⟨s, _, _, m, _, _, rfl | rfl | rfl⟩
  · simp [Dim.rank]
  · simp [Dim.rank]
  · exact absurd hY (locateFace_ne_boundary _ _)
  · exact absurd hY (locateFace_ne_boundary _ _)

/-! ### one polygon -/

theorem areaSegs_single (q : Poly) : Parts.areaSegs ⟨[], [], [q]⟩ = q.rings.flatMap segs := by
  simp [Parts.areaSegs]

theorem allSegs_single (q : Poly) : Parts.allSegs ⟨[], [], [q]⟩ = q.rings.flatMap segs := by
  simp [Parts.allSegs, Parts.areaSegs, Parts.curveSegs]

/-- a non-degenerate ring segment of a single polygon carries a boundary midpoint -/
theorem poly_boundary_sample (q : Poly) (pb : Parts) {s : Pt × Pt} (hs : s ∈ q.rings.flatMap segs)
    (hne : s.1 ≠ s.2) : ∃ x ∈ atomsOf ⟨[], [], [q]⟩ pb, x.dim = .one ∧ x.posA = .onBoundary := by
  have hs' : s ∈ (Parts.allSegs ⟨[], [], [q]⟩) ++ pb.allSegs :=
    List.mem_append_left _ (by rw [allSegs_single]; exact hs)
  obtain ⟨m, hm, _, hall⟩ := exists_atoms_of_seg hs' hne
  refine ⟨_, hall _ (Or.inl rfl), rfl, ?_⟩
  have hon : onAnySeg m (q.rings.flatMap segs) = true :=
    (onAnySeg_iff _ _).mpr ⟨s, hs, (lineCoord_iff _ _ _).mpr hm⟩
  apply locateParts_areal_boundary_conv _ _ rfl rfl
  · simp [inAnyPoly, hon]
  · left; rw [areaSegs_single]; exact hon

theorem polyDims_two_seg {q : Poly} (h : polyDims q = .two) : ∃ s ∈ segs q.ext, s.1 ≠ s.2 := by
  unfold polyDims at h
  split at h
  · cases h
  · rename_i first rest hext
    split at h
    · cases h
    · rename_i second rest2 heq
      have hw : rest.dropWhile (· == first) ≠ [] := by rw [heq]; simp
      have hnot := List.head_dropWhile_not (· == first) hw
      have hne : second ≠ first := by
        simp only [heq, List.head_cons, beq_eq_false_iff_ne, ne_eq] at hnot
        exact hnot
      have hmem : second ∈ rest := (List.dropWhile_sublist _).subset (by rw [heq]; simp)
      rw [hext]
      obtain ⟨u, v, huv, hn⟩ := exists_consecutive_ne (l := first :: rest) (by simp)
        (List.mem_cons_of_mem _ hmem) (Ne.symm hne)
      exact ⟨(u, v), huv, hn⟩

/-- Polygon of dimension two, *given* an interior face sample. Full statement (without
`HasInteriorSample`): needs that a valid polygon has a non-empty interior met by a sample beside one
of its edges (S2). -/
theorem dimsSpec_polygon_partial (q : Poly) (hd : polyDims q = .two)
    (hi : HasInteriorSample (parts (.polygon q))) : DimsSpec (.polygon q) where
  inside := by
    intro pb
    have : dims (.polygon q) = .two := by simp [dims, hd]
    rw [this]
    exact rowMax_inside_two (hi pb)
  boundary := by
    intro pb
    have : boundaryDims (.polygon q) = .one := by simp [boundaryDims, hd, boundaryOfDims]
    rw [this]
    obtain ⟨s, hs, hne⟩ := polyDims_two_seg hd
    apply rowMax_boundary_one
    exact poly_boundary_sample q pb (by simp [Poly.rings, hs]) hne
  ne := by
    intro _
    simp [dims, hd]

/-- MultiPolygon of dimension two, given interior and boundary samples. -/
theorem dimsSpec_multiPolygon_partial (ps : List Poly) (hd : mpolyDims ps = .two)
    (hi : HasInteriorSample (parts (.multiPolygon ps))) (hb : HasBoundarySample (parts (.multiPolygon ps))) :
    DimsSpec (.multiPolygon ps) where
  inside := by
    intro pb
    have : dims (.multiPolygon ps) = .two := by simp [dims, hd]
    rw [this]
    exact rowMax_inside_two (hi pb)
  boundary := by
    intro pb
    have : boundaryDims (.multiPolygon ps) = .one := by simp [boundaryDims, hd, boundaryOfDims]
    rw [this]
    exact rowMax_boundary_one (hb pb)
  ne := by
    intro _
    simp [dims, hd]

/-! ### Rect -/

theorem rect_winding (X0 X1 Y0 Y1 y : Rat) (hx : X0 < X1) (h0 : Y0 < y) (h1 : y < Y1) :
    windingE ⟨X1, -(Y1 - Y0), y, X1 - X1⟩ [⟨X1, Y0⟩, ⟨X1, Y1⟩, ⟨X0, Y1⟩, ⟨X0, Y0⟩, ⟨X1, Y0⟩] = 1 := by
  rw [windingE_eq_wsum]
  simp only [segs, wsum]
  have hY : 0 < Y1 - Y0 := by linarith
  have e1 : edgeW ⟨X1, -(Y1 - Y0), y, X1 - X1⟩ (⟨X1, Y0⟩, ⟨X1, Y1⟩) = 1 := by
    have a1 : eLe Y0 0 y (X1 - X1) = true := (eLe_iff _ _ _ _).mpr (Or.inl h0)
    have a2 : eLt y (X1 - X1) Y1 0 = true := (eLt_iff _ _ _ _).mpr (Or.inl h1)
    have a3 : eCrossSign ⟨X1, Y0⟩ ⟨X1, Y1⟩ ⟨X1, -(Y1 - Y0), y, X1 - X1⟩ = 1 := by
      unfold eCrossSign
      simp only
      have c0 : (X1 - X1) * (y - Y1) - (Y1 - Y0) * (X1 - X1) = 0 := by ring
      have c1 : 0 < (X1 - X1) * (X1 - X1) - (Y1 - Y0) * -(Y1 - Y0) := by nlinarith
      rw [c0, if_neg (lt_irrefl _), if_neg (lt_irrefl _), if_pos c1]
    simp only [edgeW, a1, a2, a3]; simp
  have e2 : edgeW ⟨X1, -(Y1 - Y0), y, X1 - X1⟩ (⟨X1, Y1⟩, ⟨X0, Y1⟩) = 0 := by
    have a1 : ¬ eLe Y1 0 y (X1 - X1) = true := by
      rw [eLe_iff]; rintro (h | ⟨h, _⟩) <;> linarith
    simp only [edgeW, a1]; simp
  have e3 : edgeW ⟨X1, -(Y1 - Y0), y, X1 - X1⟩ (⟨X0, Y1⟩, ⟨X0, Y0⟩) = 0 := by
    have a1 : ¬ eLe Y1 0 y (X1 - X1) = true := by
      rw [eLe_iff]; rintro (h | ⟨h, _⟩) <;> linarith
    have a3 : eCrossSign ⟨X0, Y1⟩ ⟨X0, Y0⟩ ⟨X1, -(Y1 - Y0), y, X1 - X1⟩ = 1 := by
      apply eCrossSign_of_pos
      unfold c0; simp only
      nlinarith
    simp only [edgeW, a1, a3]; simp
  have e4 : edgeW ⟨X1, -(Y1 - Y0), y, X1 - X1⟩ (⟨X0, Y0⟩, ⟨X1, Y0⟩) = 0 := by
    have a1 : eLe Y0 0 y (X1 - X1) = true := (eLe_iff _ _ _ _).mpr (Or.inl h0)
    have a2 : ¬ eLt y (X1 - X1) Y0 0 = true := by
      rw [eLt_iff]; rintro (h | ⟨h, _⟩) <;> linarith
    simp only [edgeW, a1, a2]; simp
  rw [e1, e2, e3, e4]; rfl

theorem parts_rect_eq (mn mx : Pt) :
    parts (.rect mn mx) = ⟨[], [], [⟨SM.rectToPolygon ⟨mn, mx⟩, []⟩]⟩ := by simp [parts]

/-- a Rect of positive width and height has a face sample in its interior: the left sample beside
its first edge (the right side, walked upwards) -/
theorem rect_interior_sample (mn mx : Pt) (hx : mn.x < mx.x) (hy : mn.y < mx.y) :
    HasInteriorSample (parts (.rect mn mx)) := by
  intro pb
  rw [parts_rect_eq]
  have hs : ((⟨mx.x, mn.y⟩, ⟨mx.x, mx.y⟩) : Pt × Pt) ∈
      (Parts.allSegs ⟨[], [], [⟨SM.rectToPolygon ⟨mn, mx⟩, []⟩]⟩) ++ pb.allSegs := by
    apply List.mem_append_left
    rw [allSegs_single]
    simp [Poly.rings, SM.rectToPolygon, segs]
  have hne : (⟨mx.x, mn.y⟩ : Pt) ≠ ⟨mx.x, mx.y⟩ := by
    intro e
    have := congrArg Pt.y e
    simp only at this
    linarith
  obtain ⟨v1, v2⟩ := ends_mem_vertsOf hs
  obtain ⟨m, hm, hnv, hall⟩ := exists_atoms_of_seg hs hne
  simp only at hm hall v1 v2
  have hma : m ≠ ⟨mx.x, mn.y⟩ := fun e => hnv (e ▸ v1)
  have hmb : m ≠ ⟨mx.x, mx.y⟩ := fun e => hnv (e ▸ v2)
  obtain ⟨t, t0, t1, hmx, hmy⟩ := hm
  simp only at hmx hmy
  have hmx' : m.x = mx.x := by rw [hmx]; ring
  have ht0 : t ≠ 0 := by
    intro e
    apply hma
    apply Pt.ext'
    · exact hmx'
    · rw [hmy, e]; simp
  have ht1 : t ≠ 1 := by
    intro e
    apply hmb
    apply Pt.ext'
    · exact hmx'
    · rw [hmy, e]; simp
  have ht0' : 0 < t := lt_of_le_of_ne t0 (Ne.symm ht0)
  have ht1' : t < 1 := lt_of_le_of_ne t1 ht1
  have hd : 0 < mx.y - mn.y := by linarith
  have hlo : mn.y < m.y := by
    have := mul_pos ht0' hd
    linarith
  have hhi : m.y < mx.y := by
    have : t * (mx.y - mn.y) < 1 * (mx.y - mn.y) := mul_lt_mul_of_pos_right ht1' hd
    linarith
  refine ⟨_, hall _ (Or.inr (Or.inl rfl)), rfl, ?_⟩
  simp only
  have hface : faceL ⟨mx.x, mn.y⟩ ⟨mx.x, mx.y⟩ m = ⟨mx.x, -(mx.y - mn.y), m.y, mx.x - mx.x⟩ := by
    simp [faceL, hmx']
  rw [hface]
  have hw := rect_winding mn.x mx.x mn.y mx.y m.y hx hlo hhi
  unfold locateFace
  simp only [List.any_cons, List.any_nil, insidePolyE, SM.rectToPolygon, hw, List.all_nil]
  rfl

theorem rectDims_two {mn mx : Pt} (hx : mn.x < mx.x) (hy : mn.y < mx.y) : rectDims mn mx = .two := by
  have h1 : mn ≠ mx := fun e => by rw [e] at hx; exact lt_irrefl _ hx
  have h2 : mn.x ≠ mx.x := ne_of_lt hx
  have h3 : mn.y ≠ mx.y := ne_of_lt hy
  simp [rectDims, h1, h2, h3]

/-- Rect of positive width and height -/
theorem dimsSpec_rect (mn mx : Pt) (hx : mn.x < mx.x) (hy : mn.y < mx.y) : DimsSpec (.rect mn mx) where
  inside := by
    intro pb
    have : dims (.rect mn mx) = .two := by simp [dims, rectDims_two hx hy]
    rw [this]
    exact rowMax_inside_two (rect_interior_sample mn mx hx hy pb)
  boundary := by
    intro pb
    have : boundaryDims (.rect mn mx) = .one := by simp [boundaryDims, rectDims_two hx hy, boundaryOfDims]
    rw [this, parts_rect_eq]
    apply rowMax_boundary_one
    apply poly_boundary_sample _ pb (s := (⟨mx.x, mn.y⟩, ⟨mx.x, mx.y⟩))
    · simp [Poly.rings, SM.rectToPolygon, segs]
    · intro e
      have := congrArg Pt.y e
      simp only at this
      linarith
  ne := by
    intro _
    simp [dims, rectDims_two hx hy]

end Geo.Proofs.Spec
