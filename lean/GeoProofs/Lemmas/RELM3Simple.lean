/-
  RELM3 — self-noding of a simple open line string records nothing: the edge `add_line_string` makes has
  the coordinates `dedup cs` (= `dedupConsecutive cs`); two segments of it that are consecutive meet in a
  single point (`adjacentOk`), which `is_trivial_intersection` discards (`is_adjacent_segments`); every
  other pair has `line_intersection = None` (`lineStringSimple`, `li_agrees_intersects`, `li_symm` for the
  pairs visited in the other order).
-/
import GeoProofs.Lemmas.RELM2Ring
import GeoProofs.Lemmas.C12QSimple
import GeoProofs.Props.C11

namespace Geo.Proofs.RELM3
open Geo Geo.GG Geo.RI Geo.Proofs.Spec Geo.Proofs.RELM Geo.Proofs.RELM2 Geo.Proofs.Kernel

/-! ### `dedup` (the graph builder's) is `dedupConsecutive` (the validity domain's) -/

theorem cons_dedupFrom_eq : ∀ (l : List Pt) (prev : Pt), prev :: dedupFrom prev l = dedupConsecutive (prev :: l)
  | [], prev => by simp [dedupFrom, dedupConsecutive]
  | c :: rest, prev => by
      by_cases h : c = prev
      · subst h
        simp only [dedupFrom, if_true, dedupConsecutive, beq_self_eq_true]
        exact cons_dedupFrom_eq rest c
      · have h' : ¬ prev = c := fun e => h e.symm
        simp only [dedupFrom, if_neg h, dedupConsecutive, beq_iff_eq, if_neg h']
        rw [cons_dedupFrom_eq rest c]

theorem dedup_eq_dedupConsecutive : ∀ l : List Pt, dedup l = dedupConsecutive l
  | [] => by simp [dedup, dedupConsecutive]
  | c :: rest => by
      simp only [dedup]
      exact cons_dedupFrom_eq rest c

/-! ### the segments of an edge, by index -/

theorem mem_segsFrom (k : Nat) : ∀ (cs : List Pt) (i : Nat) (s : Seg), s ∈ segsFrom k i cs →
    s.edge = k ∧ ∃ j, (segs cs)[j]? = some (s.p, s.q) ∧ s.idx = i + j
  | [], _, s, h => by simp [segsFrom] at h
  | [_], _, s, h => by simp [segsFrom] at h
  | a :: b :: rest, i, s, h => by
      simp only [segsFrom, List.mem_cons] at h
      rcases h with rfl | h
      · exact ⟨rfl, 0, by simp [segs], rfl⟩
      · obtain ⟨h1, j, h2, h3⟩ := mem_segsFrom k (b :: rest) (i + 1) s h
        exact ⟨h1, j + 1, by simpa [segs] using h2, by omega⟩

/-! ### a self-noding pass that changes nothing -/

theorem selfRow_fix (ar : Arith) (check : Bool) (s0 : Seg) (es : List REdge) : ∀ (l : List Seg),
    (∀ s1 ∈ l, selfAdd ar es s0 s1 = es) → selfRow ar check s0 l es = es
  | [], _ => rfl
  | s1 :: rest, h => by
      simp only [selfRow]
      rw [h s1 (List.mem_cons_self ..)]
      simp only [ite_self]
      exact selfRow_fix ar check s0 es rest (fun s hs => h s (List.mem_cons_of_mem _ hs))

theorem selfRows_fix (ar : Arith) (check : Bool) (all : List Seg) (es : List REdge) : ∀ (l : List Seg),
    (∀ s0 ∈ l, ∀ s1 ∈ all, selfAdd ar es s0 s1 = es) → selfRows ar check all l es = es
  | [], _ => rfl
  | s0 :: rest, h => by
      simp only [selfRows]
      rw [selfRow_fix ar check s0 es all (h s0 (List.mem_cons_self ..))]
      exact selfRows_fix ar check all es rest (fun s hs => h s (List.mem_cons_of_mem _ hs))

theorem selfIntersections_fix (ar : Arith) (check : Bool) (es : List REdge)
    (h : ∀ s0 ∈ allSegs es, ∀ s1 ∈ allSegs es, selfAdd ar es s0 s1 = es) :
    selfIntersections ar check es = es :=
  selfRows_fix ar check _ es _ h

/-- `line_intersection` with the crossing point supplied: same class as `lineIntersection` -/
theorem liWith_none (ar : Arith) {p1 p2 q1 q2 : Pt} (h : lineIntersection p1 p2 q1 q2 = none) :
    lineIntersectionWith ar p1 p2 q1 q2 = none := by
  unfold lineIntersectionWith; rw [h]

theorem liWith_single (ar : Arith) {p1 p2 q1 q2 x : Pt} {f : Bool}
    (h : lineIntersection p1 p2 q1 q2 = some (.single x f)) :
    ∃ y g, lineIntersectionWith ar p1 p2 q1 q2 = some (.single y g) := by
  unfold lineIntersectionWith; rw [h]
  cases f
  · exact ⟨_, _, rfl⟩
  · exact ⟨_, _, rfl⟩

/-- one pair of segments of the single edge `e`: nothing is recorded if the two segments do not meet, or
are consecutive and meet in a single point -/
theorem selfAdd_single_fix (ar : Arith) (e : REdge) (s0 s1 : Seg) (h0 : s0.edge = 0) (h1 : s1.edge = 0)
    (h : s0.idx ≠ s1.idx →
      lineIntersection s0.p s0.q s1.p s1.q = none ∨
      (isAdjacent s0.idx s1.idx = true ∧ ∃ x f, lineIntersection s0.p s0.q s1.p s1.q = some (.single x f))) :
    selfAdd ar [e] s0 s1 = [e] := by
  unfold selfAdd
  by_cases hi : s0.idx = s1.idx
  · simp [h0, h1, hi]
  · have hc : (s0.edge == s1.edge && s0.idx == s1.idx) = false := by simp [hi]
    rw [hc]
    simp only [Bool.false_eq_true, if_false]
    rcases h hi with hn | ⟨hadj, x, f, hs⟩
    · rw [liWith_none ar hn]
    · obtain ⟨y, g, hy⟩ := liWith_single ar hs
      rw [hy, h0]
      simp only [List.getElem?_cons_zero]
      have : isTrivial (.single y g) (0 == s1.edge) s0.idx s1.idx e = true := by
        simp [isTrivial, h1, hadj]
      rw [this]
      simp

/-! ### the pairs of segments of a simple open line string -/

/-- `LIEquiv` transports the class -/
theorem li_none_symm {p1 p2 q1 q2 : Pt} (h : lineIntersection p1 p2 q1 q2 = none) :
    lineIntersection q1 q2 p1 p2 = none := by
  have := Geo.Proofs.C11.li_symm p1 p2 q1 q2
  rw [h] at this
  cases h' : lineIntersection q1 q2 p1 p2 with
  | none => rfl
  | some r => rw [h'] at this; cases r <;> exact absurd this (by simp [LIEquiv])

theorem li_single_symm {p1 p2 q1 q2 x : Pt} {f : Bool} (h : lineIntersection p1 p2 q1 q2 = some (.single x f)) :
    lineIntersection q1 q2 p1 p2 = some (.single x f) := by
  have := Geo.Proofs.C11.li_symm p1 p2 q1 q2
  rw [h] at this
  cases h' : lineIntersection q1 q2 p1 p2 with
  | none => rw [h'] at this; exact absurd this (by simp [LIEquiv])
  | some r =>
    rw [h'] at this
    cases r with
    | single y g =>
      obtain ⟨rfl, rfl⟩ : x = y ∧ f = g := this
      rfl
    | collinear _ _ => exact absurd this (by simp [LIEquiv])

/-- the per-pair facts of an open simple line string, `i < j` -/
theorem simple_open_pair {c0 : List Pt} (hs : lineStringSimple c0 = true) (hop : isClosedLS c0 = false)
    {i j : Nat} (hij : i < j) {s t : Pt × Pt}
    (hsi : (segs (dedupConsecutive c0))[i]? = some s) (htj : (segs (dedupConsecutive c0))[j]? = some t) :
    lineIntersection s.1 s.2 t.1 t.2 = none ∨
      (j = i + 1 ∧ ∃ x f, lineIntersection s.1 s.2 t.1 t.2 = some (.single x f)) := by
  unfold lineStringSimple at hs
  simp only [Bool.and_eq_true] at hs
  have hcl : decide ((dedupConsecutive c0).head? = (dedupConsecutive c0).getLast?) = false := by
    rw [Geo.Proofs.C12.dedup_head, Geo.Proofs.C12.dedup_getLast]
    exact hop
  have := Geo.Proofs.C12.allPairs_spec hs.2 hij hsi htj
  rw [hcl] at this
  simp only [Bool.false_eq_true, false_and, if_false] at this
  by_cases hj : j = i + 1
  · right
    refine ⟨hj, ?_⟩
    simp only [hj, beq_self_eq_true, if_true] at this
    unfold adjacentOk at this
    cases hli : lineIntersection s.1 s.2 t.1 t.2 with
    | none => rw [hli] at this; simp at this
    | some r =>
      cases r with
      | single p f => exact ⟨p, f, rfl⟩
      | collinear _ _ => rw [hli] at this; simp at this
  · left
    have hj' : (j == i + 1) = false := by simpa using hj
    rw [hj'] at this
    simp only [Bool.false_eq_true, if_false, Bool.not_eq_eq_eq_not, Bool.not_true] at this
    have h2 := Geo.Proofs.C11.li_agrees_intersects s.1 s.2 t.1 t.2
    rw [this] at h2
    cases hli : lineIntersection s.1 s.2 t.1 t.2 with
    | none => rfl
    | some r => rw [hli] at h2; simp at h2

theorem isAdjacent_succ (i : Nat) : isAdjacent i (i + 1) = true ∧ isAdjacent (i + 1) i = true := by
  constructor <;> simp [isAdjacent]

/-- **self-noding of the edge of a simple open line string records nothing** -/
theorem selfIntersections_simple_open (ar : Arith) (check : Bool) {c0 : List Pt} (hs : lineStringSimple c0 = true)
    (hop : isClosedLS c0 = false) (e : REdge) (he : e.coords = dedup c0) :
    selfIntersections ar check [e] = [e] := by
  apply selfIntersections_fix
  have hall : ∀ s ∈ allSegs [e], s.edge = 0 ∧ ∃ j, (segs (dedupConsecutive c0))[j]? = some (s.p, s.q) ∧ s.idx = j := by
    intro s hsm
    simp only [allSegs, allSegsFrom, List.append_nil, edgeSegs] at hsm
    obtain ⟨h1, j, h2, h3⟩ := mem_segsFrom 0 _ 0 s hsm
    rw [he, dedup_eq_dedupConsecutive] at h2
    exact ⟨h1, j, h2, by omega⟩
  intro s0 h0 s1 h1
  obtain ⟨e0, i, hi, hi'⟩ := hall s0 h0
  obtain ⟨e1, j, hj, hj'⟩ := hall s1 h1
  apply selfAdd_single_fix ar e s0 s1 e0 e1
  intro hne
  rw [hi', hj'] at hne ⊢
  rcases Nat.lt_or_gt_of_ne hne with hlt | hgt
  · rcases simple_open_pair hs hop hlt hi hj with hn | ⟨rfl, x, f, hx⟩
    · exact Or.inl hn
    · exact Or.inr ⟨(isAdjacent_succ i).1, x, f, hx⟩
  · rcases simple_open_pair hs hop hgt hj hi with hn | ⟨rfl, x, f, hx⟩
    · exact Or.inl (li_none_symm hn)
    · exact Or.inr ⟨(isAdjacent_succ j).2, x, f, li_single_symm hx⟩

end Geo.Proofs.RELM3
