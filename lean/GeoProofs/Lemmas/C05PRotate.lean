/-
  Helper lemmas for C05 (winding order under a change of the start vertex): for a closed ring whose
  lexicographically least point is visited once (`PivotOnce`), moving the start vertex one step
  (`rotate1`) leaves the pivot triple of `winding_order` unchanged and preserves `PivotOnce`.
-/
import GeoModel.Winding
import GeoProofs.Lemmas.C05Area
import GeoProofs.Lemmas.C05Winding

namespace Geo.Proofs.C05L
open Geo

theorem tripleOf_congr (p : Pt) {c c' : List Pt} (hh : c.head? = c'.head?)
    (hl : c.getLast? = c'.getLast?) : tripleOf p c = tripleOf p c' := by
  unfold tripleOf; rw [hh, hl]

theorem getLast?_append_cons (X : List Pt) (p : Pt) (B : List Pt) :
    (X ++ p :: B).getLast? = (p :: B).getLast? := by
  rw [List.getLast?_append, getLast?_cons]; rfl

theorem mem_rotate1 {r : List Pt} {q : Pt} (h : q ∈ rotate1 r) : q ∈ r := by
  match r, h with
  | [], h => exact h
  | [_], h => exact h
  | a :: b :: t, h =>
    have h' : q ∈ (b :: t) ++ [b] := h
    rcases List.mem_append.1 h' with h'' | h''
    · exact List.mem_cons_of_mem _ h''
    · have : q = b := by simpa using h''
      subst this; simp

theorem rotate1_length (r : List Pt) : (rotate1 r).length = r.length := by
  match r with
  | [] => rfl
  | [_] => rfl
  | a :: b :: t => show ((b :: t) ++ [b]).length = _; simp

theorem rotate1_closed (r : List Pt) (hc : r.head? = r.getLast?) :
    (rotate1 r).head? = (rotate1 r).getLast? := by
  match r, hc with
  | [], _ => rfl
  | [_], _ => rfl
  | a :: b :: t, _ =>
    show some b = ((b :: t) ++ [b]).getLast?
    rw [List.getLast?_concat]

/-- one rotation step keeps the pivot triple and the `PivotOnce` shape -/
theorem pivotTriple_rotate1 {r : List Pt} (hc : r.head? = r.getLast?) (h : PivotOnce r) :
    pivotTriple (rotate1 r) = pivotTriple r ∧ PivotOnce (rotate1 r) := by
  match r, hc, h with
  | [], _, h => exact ⟨rfl, h⟩
  | [_], _, h => exact ⟨rfl, h⟩
  | a :: b :: t, hc, h =>
    obtain ⟨p, hmin, hs⟩ := h
    have hmin' : ∀ q ∈ rotate1 (a :: b :: t), lexLt q p = false := fun q hq => hmin q (mem_rotate1 hq)
    have hrot : rotate1 (a :: b :: t) = (b :: t) ++ [b] := rfl
    rcases hs with ⟨A, B, hr, hA, hB⟩ | ⟨m, hr, hm⟩
    · -- the pivot is strictly inside the list
      cases A with
      | nil =>
        exfalso
        simp only [List.nil_append, List.cons.injEq] at hr
        obtain ⟨rfl, rfl⟩ := hr
        have : (b :: t).getLast? = some a := by
          have : (a :: b :: t).getLast? = (b :: t).getLast? := List.getLast?_cons_cons
          rw [← this, ← hc]; rfl
        exact hB (List.mem_of_getLast? this)
      | cons a' A' =>
        simp only [List.cons_append, List.cons.injEq] at hr
        obtain ⟨rfl, hbt⟩ := hr
        -- `B` ends in `a`
        have hlast : (p :: B).getLast? = some a := by
          have h1 : (a :: b :: t).getLast? = (b :: t).getLast? := List.getLast?_cons_cons
          have h2 : (A' ++ p :: B).getLast? = (p :: B).getLast? := getLast?_append_cons _ _ _
          rw [← h2, ← hbt, ← h1, ← hc]; rfl
        have hap : a ≠ p := fun e => hA (e ▸ List.mem_cons_self)
        obtain ⟨B', rfl⟩ : ∃ B', B = B' ++ [a] := by
          rcases List.eq_nil_or_concat B with rfl | ⟨B', z, rfl⟩
          · simp at hlast; exact absurd hlast.symm hap
          · rw [List.concat_eq_append] at hlast ⊢
            refine ⟨B', ?_⟩
            have : (p :: (B' ++ [z])).getLast? = some z := by
              rw [← List.cons_append]; exact List.getLast?_concat
            rw [this] at hlast
            cases hlast; rfl
        have hr0 : pivotTriple (a :: b :: t) = tripleOf p ((B' ++ [a]) ++ a :: A') := by
          have := pivotTriple_shape2 (a :: A') (B' ++ [a]) p hA hB
            (by intro q hq; apply hmin; simpa [hbt] using hq)
          rw [← this]; simp [hbt]
        cases A' with
        | nil =>
          -- the second coordinate is the pivot: the rotated list starts and ends with it
          simp only [List.nil_append, List.cons.injEq] at hbt
          obtain ⟨rfl, rfl⟩ := hbt
          have hshape : rotate1 (a :: b :: (B' ++ [a])) = b :: (B' ++ [a]) ++ [b] := rfl
          refine ⟨?_, b, hmin', Or.inr ⟨B' ++ [a], hshape, hB⟩⟩
          have hmin2 : ∀ q ∈ b :: (B' ++ [a]) ++ [b], lexLt q b = false := by
            rw [← hshape]; exact hmin'
          rw [hr0, hshape, pivotTriple_shape1 (B' ++ [a]) b hB hmin2]
          apply tripleOf_congr
          · cases B' <;> rfl
          · rw [getLast?_append_cons, List.getLast?_concat]; rfl
        | cons b' A'' =>
          simp only [List.cons_append, List.cons.injEq] at hbt
          obtain ⟨rfl, rfl⟩ := hbt
          have hbp : b ≠ p := fun e => hA (e ▸ (List.mem_cons_of_mem _ List.mem_cons_self))
          have hA2 : p ∉ b :: A'' := fun hh => hA (List.mem_cons_of_mem _ hh)
          have hB2 : p ∉ (B' ++ [a]) ++ [b] := by
            intro hh
            rcases List.mem_append.1 hh with hh | hh
            · exact hB hh
            · have : p = b := by simpa using hh
              exact hbp this.symm
          have hshape : rotate1 (a :: b :: (A'' ++ p :: (B' ++ [a]))) =
              (b :: A'') ++ p :: ((B' ++ [a]) ++ [b]) := by
            rw [hrot]; simp
          refine ⟨?_, p, hmin', Or.inl ⟨_, _, hshape, hA2, hB2⟩⟩
          have hmin2 : ∀ q ∈ (b :: A'') ++ p :: ((B' ++ [a]) ++ [b]), lexLt q p = false := by
            rw [← hshape]; exact hmin'
          rw [hr0, hshape, pivotTriple_shape2 _ _ p hA2 hB2 hmin2]
          apply tripleOf_congr
          · cases B' <;> rfl
          · rw [getLast?_append_cons, getLast?_append_cons, List.getLast?_cons_cons]
    · -- the pivot is the first and the closing coordinate
      simp only [List.cons_append, List.cons.injEq] at hr
      obtain ⟨rfl, hbt⟩ := hr
      cases m with
      | nil =>
        simp only [List.nil_append, List.cons.injEq] at hbt
        obtain ⟨rfl, rfl⟩ := hbt
        exact ⟨rfl, b, hmin, Or.inr ⟨[], rfl, by simp⟩⟩
      | cons b' m' =>
        simp only [List.cons_append, List.cons.injEq] at hbt
        obtain ⟨rfl, rfl⟩ := hbt
        have hbp : b ≠ a := fun e => hm (e ▸ List.mem_cons_self)
        have hshape : rotate1 (a :: b :: (m' ++ [a])) = (b :: m') ++ a :: [b] := by
          rw [hrot]; simp
        have hB2 : a ∉ [b] := by simpa using hbp.symm
        refine ⟨?_, a, hmin', Or.inl ⟨_, _, hshape, hm, hB2⟩⟩
        have hr0 : pivotTriple (a :: b :: (m' ++ [a])) = tripleOf a (b :: m') := by
          have := pivotTriple_shape1 (b :: m') a hm (by intro q hq; apply hmin; simpa using hq)
          rw [← this]; simp
        have hmin2 : ∀ q ∈ (b :: m') ++ a :: [b], lexLt q a = false := by
          rw [← hshape]; exact hmin'
        rw [hr0, hshape, pivotTriple_shape2 _ _ a hm hB2 hmin2]
        apply tripleOf_congr
        · rfl
        · show (b :: b :: m').getLast? = _
          rw [List.getLast?_cons_cons]

/-- `k` rotation steps -/
def rotateN : Nat → List Pt → List Pt
  | 0, r => r
  | k + 1, r => rotateN k (rotate1 r)

theorem windingOrder_rotate1 {r : List Pt} (hc : r.head? = r.getLast?) (h : PivotOnce r) :
    windingOrder (rotate1 r) = windingOrder r := by
  unfold windingOrder
  have hcl : ringClosed (rotate1 r) = ringClosed r := by
    simp only [ringClosed, rotate1_closed r hc, hc]
  rw [rotate1_length, hcl, (pivotTriple_rotate1 hc h).1]

theorem windingOrder_rotateN (k : Nat) {r : List Pt} (hc : r.head? = r.getLast?) (h : PivotOnce r) :
    windingOrder (rotateN k r) = windingOrder r ∧ PivotOnce (rotateN k r) ∧
      (rotateN k r).head? = (rotateN k r).getLast? := by
  induction k generalizing r with
  | zero => exact ⟨rfl, h, hc⟩
  | succ k ih =>
    have := ih (rotate1_closed r hc) (pivotTriple_rotate1 hc h).2
    exact ⟨this.1.trans (windingOrder_rotate1 hc h), this.2⟩

end Geo.Proofs.C05L
