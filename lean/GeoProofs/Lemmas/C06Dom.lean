/-
  C06 helper layer 2: dimension dominance of the accumulator fold, emptiness of the
  contribution list.
-/
import GeoProofs.Lemmas.C06Basic

namespace Geo.Proofs.C06
open Geo Geo.Cen

/-- the largest dimension rank among the contributions -/
def mDim : List WC → Nat
  | [] => 0
  | c :: l => max c.dim (mDim l)

/-- total weight of the contributions of dimension `m` -/
def wSum (m : Nat) : List WC → Rat
  | [] => 0
  | c :: l => (if c.dim = m then c.weight else 0) + wSum m l

/-- total accumulated (weighted) coordinate of the contributions of dimension `m` -/
def aSum (m : Nat) : List WC → Pt
  | [] => zeroPt
  | c :: l => (if c.dim = m then c.acc else zeroPt) + aSum m l

/-- "keep only the contributions of maximal dimension, sum weights and accumulators" -/
def dominant : List WC → Op
  | [] => none
  | c :: l => some ⟨mDim (c :: l), wSum (mDim (c :: l)) (c :: l), aSum (mDim (c :: l)) (c :: l)⟩

private theorem merge_aux_w (M : Nat) (c w : WC) (W : Rat) :
    (if c.dim = M then c.weight + w.weight else 0) + W =
      (if c.dim = M then c.weight else 0) + ((if c.dim = M then w.weight else 0) + W) := by
  by_cases h : c.dim = M <;> simp [h, add_assoc]

private theorem merge_aux_a (M : Nat) (c w : WC) (A : Pt) :
    (if c.dim = M then c.acc + w.acc else zeroPt) + A =
      (if c.dim = M then c.acc else zeroPt) + ((if c.dim = M then w.acc else zeroPt) + A) := by
  by_cases h : c.dim = M <;> simp [h, padd_assoc]

theorem dominant_merge (c w : WC) (l : List WC) :
    dominant (c.addAssign w :: l) = dominant (c :: w :: l) := by
  by_cases h1 : c.dim < w.dim
  · have hadd : c.addAssign w = w := by simp [WC.addAssign, h1]
    rw [hadd]
    simp only [dominant, mDim, wSum, aSum]
    have hm : max c.dim (max w.dim (mDim l)) = max w.dim (mDim l) := by omega
    have hne : c.dim ≠ max w.dim (mDim l) := by omega
    simp [hm, hne]
  · by_cases h2 : w.dim < c.dim
    · have hadd : c.addAssign w = c := by simp [WC.addAssign, h1, h2]
      rw [hadd]
      simp only [dominant, mDim, wSum, aSum]
      have hm : max c.dim (max w.dim (mDim l)) = max c.dim (mDim l) := by omega
      have hne : w.dim ≠ max c.dim (mDim l) := by omega
      simp [hm, hne]
    · have he : w.dim = c.dim := by omega
      have hadd : c.addAssign w = ⟨c.dim, c.weight + w.weight, c.acc + w.acc⟩ := by
        simp [WC.addAssign, h1, h2]
      rw [hadd]
      simp only [dominant, mDim, wSum, aSum, he]
      have hm : max c.dim (max c.dim (mDim l)) = max c.dim (mDim l) := by omega
      rw [hm]
      congr 2
      · exact merge_aux_w _ c w _
      · exact merge_aux_a _ c w _

theorem foldWC_some (c : WC) (l : List WC) : foldWC (some c) l = dominant (c :: l) := by
  induction l generalizing c with
  | nil =>
    simp only [foldWC_nil, dominant, mDim, wSum, aSum]
    have : max c.dim 0 = c.dim := by omega
    simp [this]
  | cons w t ih =>
    rw [foldWC_cons]
    show foldWC (some (c.addAssign w)) t = _
    rw [ih, dominant_merge]

theorem foldWC_none (l : List WC) : foldWC none l = dominant l := by
  cases l with
  | nil => rfl
  | cons w t => exact foldWC_some w t

theorem wSum_eq_filter (m : Nat) (l : List WC) :
    wSum m l = sumR ((l.filter (fun c => c.dim = m)).map (·.weight)) := by
  induction l with
  | nil => rfl
  | cons c t ih =>
    simp only [wSum, List.filter_cons]
    by_cases h : c.dim = m
    · simp [h, sumR, ih]
    · simp [h, ih]

theorem aSum_eq_filter (m : Nat) (l : List WC) :
    aSum m l = sumP ((l.filter (fun c => c.dim = m)).map (·.acc)) := by
  induction l with
  | nil => rfl
  | cons c t ih =>
    simp only [aSum, List.filter_cons]
    by_cases h : c.dim = m
    · simp [h, sumP, ih]
    · simp [h, ih]

/-! ### emptiness -/

theorem lineStringC_eq_nil (len : Pt → Pt → Rat) (cs : List Pt) : lineStringC len cs = [] ↔ cs = [] := by
  match cs with
  | [] => simp [lineStringC, windows2]
  | [c] => simp [lineStringC]
  | a :: b :: t => simp [lineStringC, windows2]

theorem twiceArea_nil : twiceArea [] = 0 := by simp [twiceArea]

theorem ringC_eq_nil (len : Pt → Pt → Rat) (r : List Pt) : ringC len r = [] ↔ r = [] := by
  cases r with
  | nil => simp [ringC, ringArea, twiceArea_nil, lsDims]
  | cons c t =>
    simp only [ringC, reduceCtorEq, iff_false]
    split
    · have : lsDims (c :: t) = 1 ∨ lsDims (c :: t) = 2 := by
        simp only [lsDims]; split <;> simp
      rcases this with h | h
      · simp [h]
      · simp only [h]
        simp [lineStringC_eq_nil]
    · simp

theorem polyC_eq_nil (len : Pt → Pt → Rat) (p : Poly) : polyC len p = [] ↔ p.ext = [] := by
  unfold polyC
  have hext : addRing len none p.ext = none ↔ p.ext = [] := by
    rw [addRing_eq, foldWC_eq_none_iff, ringC_eq_nil]; simp
  cases he : addRing len none p.ext with
  | none => simp [← hext, he]
  | some e =>
    have hne : p.ext ≠ [] := by
      intro h; rw [hext.2 h] at he; cases he
    simp only [hne, iff_false]
    cases p.ints.foldl (addRing len) none with
    | none => simp
    | some i =>
      simp only
      split
      · split
        · simp [lineStringC_eq_nil, hne]
        · simp
      · simp

theorem rectC_ne_nil (len : Pt → Pt → Rat) (mn mx : Pt) : rectC len mn mx ≠ [] := by
  unfold rectC; split <;> simp

theorem triC_ne_nil (len : Pt → Pt → Rat) (a b c : Pt) : triC len a b c ≠ [] := by
  unfold triC; split <;> simp

mutual
theorem contribs_eq_nil (len : Pt → Pt → Rat) : ∀ g : Geom, contribs len g = [] ↔ isEmpty g = true
  | .point _ => by simp [contribs, isEmpty]
  | .line _ _ => by simp [contribs, isEmpty]
  | .lineString cs => by simp [contribs, isEmpty, lineStringC_eq_nil]
  | .polygon p => by simp [contribs, isEmpty, polyC_eq_nil]
  | .multiPoint ps => by simp [contribs, isEmpty]
  | .multiLineString ls => by
      simp only [contribs, isEmpty, List.flatten_eq_nil_iff, List.mem_map, List.all_eq_true]
      constructor
      · intro h l hl
        have := h _ ⟨l, hl, rfl⟩
        simpa [lineStringC_eq_nil] using this
      · rintro h _ ⟨l, hl, rfl⟩
        have := h l hl
        simp [lineStringC_eq_nil] at *
        exact this
  | .multiPolygon ps => by
      simp only [contribs, isEmpty, List.flatten_eq_nil_iff, List.mem_map, List.all_eq_true]
      constructor
      · intro h p hp
        have := h _ ⟨p, hp, rfl⟩
        simpa [polyC_eq_nil] using this
      · rintro h _ ⟨p, hp, rfl⟩
        have := h p hp
        simp [polyC_eq_nil] at *
        exact this
  | .rect mn mx => by simp [contribs, isEmpty, rectC_ne_nil]
  | .triangle a b c => by simp [contribs, isEmpty, triC_ne_nil]
  | .collection gs => by simp only [contribs, isEmpty]; exact contribsList_eq_nil len gs
theorem contribsList_eq_nil (len : Pt → Pt → Rat) : ∀ gs : List Geom, contribsList len gs = [] ↔ isEmptyList gs = true
  | [] => by simp [contribsList, isEmptyList]
  | g :: gs => by
      simp only [contribsList, isEmptyList, List.append_eq_nil_iff, Bool.and_eq_true]
      rw [contribs_eq_nil len g, contribsList_eq_nil len gs]
end

end Geo.Proofs.C06
