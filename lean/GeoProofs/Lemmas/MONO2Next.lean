/-
  MONO2 (C10): `next_point` and the chains. While the events of one point `pt` are handled the only write to a chain
  is `fix_top(pt)` on the chain of a segment that ends at `pt`; so the chain invariant `CB pt` is kept, every segment
  reported as ending has the tip of its chain at `pt`, and nothing is emitted.
-/
import GeoProofs.Lemmas.MONO2Defs

namespace Geo.Proofs.MONO2
open Geo Geo.Mono Geo.MonoBuild Geo.Proofs.C10 Geo.Proofs.MONO

/-- the invariant of the handling of the events at `pt`; `o0` / `n0` are the outputs and the number of chain slots at
the start -/
structure NC (pt : Pt) (o0 : List MonoPoly) (n0 : Nat) (st : St) : Prop where
  cb : CB pt st
  tip : TipInc pt st
  rng : ∀ i ∈ st.incoming, i < st.segs.length
  outs : st.outputs = o0
  len : st.chains.length = n0

/-- the segment store only grows and `chain_idx` of a stored segment never changes -/
@[reducible] def Stable (st st' : St) : Prop :=
  ∀ (i : Nat) (s : Seg), st.segs[i]? = some s →
    ∃ s' : Seg, st'.segs[i]? = some s' ∧ s'.info.chainIdx = s.info.chainIdx

variable {pt : Pt} {o0 : List MonoPoly} {n0 : Nat}

theorem NC.stable {st st' : St} (h : NC pt o0 n0 st) (hs : Stable st st')
    (hc : st'.chains = st.chains) (hin : st'.incoming = st.incoming) (ho : st'.outputs = st.outputs) :
    NC pt o0 n0 st' := by
  have hca : ∀ k, chainAt st' k = chainAt st k := by intro k; unfold chainAt; rw [hc]
  refine ⟨?_, ?_, ?_, by rw [ho]; exact h.outs, by rw [hc]; exact h.len⟩
  · intro k ch hk; rw [hca] at hk; exact h.cb k ch hk
  · intro i hi s' ch hs' hch
    rw [hin] at hi
    have hlt := h.rng i hi
    obtain ⟨s'', e1, e2⟩ := hs i st.segs[i] (List.getElem?_eq_getElem hlt)
    rw [hs'] at e1; cases e1
    rw [hca, e2] at hch
    exact h.tip i hi _ ch (List.getElem?_eq_getElem hlt) hch
  · intro i hi
    rw [hin] at hi
    have hlt := h.rng i hi
    obtain ⟨s'', e1, _⟩ := hs i st.segs[i] (List.getElem?_eq_getElem hlt)
    exact (List.getElem?_eq_some_iff.1 e1).1

theorem NC.congr {st st' : St} (h : NC pt o0 n0 st) (h1 : st'.segs = st.segs)
    (h2 : st'.chains = st.chains) (h3 : st'.incoming = st.incoming) (h4 : st'.outputs = st.outputs) :
    NC pt o0 n0 st' :=
  h.stable (fun _ s hs => ⟨s, by rw [h1]; exact hs, rfl⟩) h2 h3 h4

/-- `split_at` copies the payload and touches neither the chains nor the collected segments -/
theorem splitAt_nc {st st' : St} {i nw : Nat} {p : Pt} (h : NC pt o0 n0 st)
    (hsp : st.splitAt i p = some (st', nw)) : NC pt o0 n0 st' := by
  obtain ⟨s, hs, _, hst⟩ := splitAt_spec hsp
  subst hst
  refine h.stable ?_ rfl rfl rfl
  intro j x hj
  simp only
  rw [getElem?_set_append _ _ _ _ _ _ hj]
  by_cases e : i = j
  · subst e
    rw [hs] at hj; cases hj
    rw [if_pos rfl]
    exact ⟨_, rfl, rfl⟩
  · rw [if_neg e]
    exact ⟨x, rfl, rfl⟩

theorem applySplit_nc {st st' : St} {act seg : Nat} {sp : Split} (hn : NC pt o0 n0 st)
    (h : st.applySplit act seg sp = some st') : NC pt o0 n0 st' := by
  unfold St.applySplit at h
  split at h
  · cases h; exact hn
  · osplit h
    rename_i st1 nw h1
    osplit h
    cases h
    exact (splitAt_nc hn h1).congr rfl rfl rfl rfl
  · osplit h
    rename_i st1 nw h1
    osplit h
    cases h
    exact (splitAt_nc hn h1).congr rfl rfl rfl rfl

theorem modifyChain_spec {st st' : St} {i : Nat} {f : List Pt → Option (List Pt)}
    (h : st.modifyChain i f = some st') :
    ∃ c c', st.chains[i]? = some (some c) ∧ f c = some c' ∧
      st' = { st with chains := st.chains.set i (some c') } := by
  unfold St.modifyChain at h
  split at h
  · rename_i c hc
    split at h
    · rename_i c' hf
      cases h
      exact ⟨c, c', hc, hf, rfl⟩
    · cases h
  · cases h

/-- `fix_top(pt)` on the chain of a segment that is reported as ending at `pt` -/
theorem nc_fix {st : St} {sg : Nat} {s : Seg} {c : List Pt} (h : NC pt o0 n0 st)
    (hs : st.segs[sg]? = some s) (hc : st.chains[s.info.chainIdx]? = some (some c)) :
    NC pt o0 n0 { st with incoming := st.incoming ++ [sg],
                          chains := st.chains.set s.info.chainIdx (some (c.dropLast ++ [pt])) } := by
  have hk : s.info.chainIdx < st.chains.length := (List.getElem?_eq_some_iff.1 hc).1
  have hcc : chainAt st s.info.chainIdx = some c := by unfold chainAt; rw [hc]
  obtain ⟨srt, hlen, hlt⟩ := h.cb _ c hcc
  have hca : ∀ k', chainAt { st with
          incoming := st.incoming ++ [sg],
          chains := st.chains.set s.info.chainIdx (some (c.dropLast ++ [pt])) } k' =
      if s.info.chainIdx = k' then some (c.dropLast ++ [pt]) else chainAt st k' := by
    intro k'
    unfold chainAt
    simp only
    rw [List.getElem?_set]
    by_cases e : s.info.chainIdx = k'
    · subst e; simp [hk]
    · simp [e]
  refine ⟨?_, ?_, ?_, h.outs, by simp only [List.length_set]; exact h.len⟩
  · intro k' ch hch
    rw [hca] at hch
    split at hch
    · cases hch
      refine ⟨?_, ?_, ?_⟩
      · exact lexSorted_append _ _ (lexSorted_dropLast c srt) (fun t ht => hlt t (List.mem_of_getLast? ht))
      · simp only [List.length_append, List.length_dropLast, List.length_singleton]; omega
      · rw [List.dropLast_concat]; exact hlt
    · exact h.cb k' ch hch
  · intro i hi si ch hsi hch
    rw [hca] at hch
    split at hch
    · cases hch
      exact List.getLast?_concat
    · rename_i hne
      simp only [List.mem_append, List.mem_singleton] at hi
      rcases hi with hi | hi
      · exact h.tip i hi si ch hsi hch
      · subst hi
        have hsi' : st.segs[i]? = some si := hsi
        rw [hs] at hsi'; cases hsi'
        exact absurd rfl hne
  · intro i hi
    simp only [List.mem_append, List.mem_singleton] at hi
    rcases hi with hi | hi
    · exact h.rng i hi
    · subst hi; exact (List.getElem?_eq_some_iff.1 hs).1

/-- the callback; a `LineRight` event lies at the right end of its segment -/
theorem onEvent_nc {st st' : St} {ev : Ev} (hn : NC ev.pt o0 n0 st)
    (hR : ev.ty = .lineRight → ∃ l, st.lineOf ev.seg = some l ∧ l.right = ev.pt)
    (h : st.onEvent ev = some st') : NC ev.pt o0 n0 st' := by
  unfold St.onEvent at h
  split at h
  · rename_i hty
    osplit h
    rename_i s hs
    obtain ⟨l, hl, e⟩ := hR hty
    obtain ⟨s2, hs2, hl2⟩ := lineOf_seg hl
    rw [hs] at hs2; cases hs2
    have hrt : s.line.right = ev.pt := by rw [hl2]; exact e
    obtain ⟨c, c', hc, hf, hst⟩ := modifyChain_spec h
    subst hst
    have hc' : c' = c.dropLast ++ [ev.pt] := by
      unfold fixTop at hf
      split at hf
      · cases hf
      · rw [hrt] at hf; cases hf; rfl
    subst hc'
    exact nc_fix hn hs hc
  · osplit h
    rename_i s hs
    cases h
    refine hn.stable ?_ rfl rfl rfl
    intro j x hj
    simp only
    rw [List.getElem?_set]
    by_cases e : ev.seg = j
    · subst e
      rw [hs] at hj; cases hj
      have : ev.seg < st.segs.length := (List.getElem?_eq_some_iff.1 hs).1
      simp [this]
    · simp [e, hj]
  · cases h

theorem handle_nc (o0 : List MonoPoly) (n0 : Nat) : ∀ (fuel : Nat),
    (∀ (st st' : St) (ev : Ev), SInv st → EvOk st ev → Lo ev.pt st → NC ev.pt o0 n0 st →
        handleEvent fuel st ev = some st' → NC ev.pt o0 n0 st') ∧
    (∀ (st st' : St) (ev : Ev) (b : Bool) (idx idx' : Nat), SInv st → EvOk st ev → ev.ty = .lineLeft → Lo ev.pt st →
        NC ev.pt o0 n0 st → neighbour fuel st ev b idx = some (st', idx') → NC ev.pt o0 n0 st') ∧
    (∀ (st st' : St) (ev : Ev) (b : Bool) (idx idx' : Nat), SInv st → EvOk st ev → Lo ev.pt st →
        NC ev.pt o0 n0 st → drain fuel st ev b idx = some (st', idx') → NC ev.pt o0 n0 st')
  | 0 => by
    refine ⟨?_, ?_, ?_⟩ <;> intros <;> rename_i h <;> simp [handleEvent, neighbour, drain] at h
  | fuel + 1 => by
    obtain ⟨ihH, ihN, ihD⟩ := handle_nc o0 n0 fuel
    -- the final callback
    have fin : ∀ (st st' : St) (ev : Ev) (ln : LoP), EvOk st ev → st.lineOf ev.seg = some ln →
        (ev.pt != ln.left && ev.pt != ln.right) = false → NC ev.pt o0 n0 st → st.onEvent ev = some st' →
        NC ev.pt o0 n0 st' := by
      intro st st' ev ln hev hln hsp hn h
      obtain ⟨s, hs, hc⟩ := hev
      obtain ⟨s2, hs2, hl2⟩ := lineOf_seg hln
      rw [hs] at hs2; cases hs2
      refine onEvent_nc hn ?_ h
      intro hty
      rcases hc with ⟨e, _⟩ | ⟨_, hlt⟩
      · rw [hty] at e; cases e
      · refine ⟨ln, hln, ?_⟩
        rw [hl2] at hlt
        have hne : ev.pt ≠ ln.left := by
          intro e; rw [e] at hlt; rw [lexLt_irrefl] at hlt; cases hlt
        simp only [Bool.and_eq_false_iff, bne_eq_false_iff_eq] at hsp
        rcases hsp with e | e
        · exact absurd e hne
        · exact e.symm
    refine ⟨?_, ?_, ?_⟩
    · intro st st' ev hi hev hlo hn h
      unfold handleEvent at h
      split at h
      · cases h
      · rename_i ln hln
        split at h
        · cases h; exact hn
        · rename_i hsp
          have hsp' : (ev.pt != ln.left && ev.pt != ln.right) = false := by simpa using hsp
          split at h
          · rename_i hty
            osplit h
            osplit h
            rename_i st1 idx1 hn1
            obtain ⟨i1, x1, l1⟩ := (handle_sinv fuel).2.1 _ _ _ _ _ _ hi hev hty hlo hn1
            have o1 := ihN _ _ _ _ _ _ hi hev hty hlo hn hn1
            osplit h
            rename_i st2 idx2 hn2
            obtain ⟨i2, x2, l2⟩ := (handle_sinv fuel).2.1 _ _ _ _ _ _ i1 (hev.ext x1) hty l1 hn2
            have o2 := ihN _ _ _ _ _ _ i1 (hev.ext x1) hty l1 o1 hn2
            osplit h
            rename_i act hact
            refine onEvent_nc (st := { st2 with active := act }) (o2.congr rfl rfl rfl rfl) ?_ h
            intro e; rw [hty] at e; cases e
          · osplit h
            rename_i idx hidx
            exact fin { st with active := st.active.eraseIdx idx } st' ev ln (hev.congr rfl) hln hsp'
              (hn.congr rfl rfl rfl rfl) h
          · exact fin st st' ev ln hev hln hsp' hn h
    · intro st st' ev b idx idx' hi hev hty hlo hn h
      unfold neighbour at h
      simp only at h
      split at h
      · cases h; exact hn
      · osplit h
        split at h
        · rename_i la lb hla hlb
          obtain ⟨s, hs, hc⟩ := hev
          obtain ⟨sb, hsb, hsbl⟩ := lineOf_seg hlb
          rw [hs] at hsb; cases hsb
          have hpt : lb.left = ev.pt := by
            rcases hc with ⟨_, e⟩ | ⟨e, _⟩
            · rw [← hsbl]; exact e.symm
            · rw [hty] at e; cases e
          osplit h
          rename_i st1 hs1
          obtain ⟨i1, x1, l1⟩ := applySplit_sinv hi hla hlb (by rw [hpt]; exact hlo) hs1
          have o1 := applySplit_nc hn hs1
          rw [hpt] at l1
          exact ihD _ _ _ _ _ _ i1 (EvOk.ext ⟨s, hs, hc⟩ x1) l1 o1 h
        · cases h
    · intro st st' ev b idx idx' hi hev hlo hn h
      unfold drain at h
      osplit h
      rename_i top htop
      split at h
      · rename_i hlt
        osplit h
        rename_i e evs hpop
        obtain ⟨i0, ok0, lo0, hd0⟩ := popped_sinv hi hpop
        rw [htop] at hd0; cases hd0
        have hle : lexLt ev.pt top.pt = false := pt_le_of_ev_le (le_of_lt ((ev_lt_iff _ _).2 hlt))
        have hge : lexLt top.pt ev.pt = false := hlo top (List.mem_of_mem_head? htop)
        have hpt : top.pt = ev.pt := lex_antisymm hge hle
        osplit h
        rename_i st1 hh
        obtain ⟨i1, x1, l1⟩ := (handle_sinv fuel).1 { st with events := evs } st1 top i0 (ok0.congr rfl) lo0 hh
        have o1 := ihH { st with events := evs } st1 top i0 (ok0.congr rfl) lo0
          (by rw [hpt]; exact hn.congr rfl rfl rfl rfl) hh
        rw [hpt] at l1 o1
        have x1' : Ext st st1 := fun i s hs => x1 i s hs
        split at h
        · exact ihD _ _ _ _ _ _ i1 (hev.ext x1') l1 o1 h
        · osplit h
          exact ihD _ _ _ _ _ _ i1 (hev.ext x1') l1 o1 h
      · cases h; exact hn

theorem nextPointLoop_nc (hf : Nat) (pt : Pt) (o0 : List MonoPoly) (n0 : Nat) :
    ∀ (fuel : Nat) (st st' : St), SInv st → Lo pt st →
    (st.events.head?).map (·.pt) = some pt → NC pt o0 n0 st →
    nextPointLoop hf pt fuel st = some st' → NC pt o0 n0 st'
  | 0, st, st', _, _, _, _, h => by simp [nextPointLoop] at h
  | fuel + 1, st, st', hi, hlo, hhd, hn, h => by
    unfold nextPointLoop at h
    osplit h
    rename_i e evs hpop
    obtain ⟨i0, ok0, lo0, hd0⟩ := popped_sinv hi hpop
    have hpt : e.pt = pt := by rw [hd0] at hhd; simpa using hhd
    osplit h
    rename_i st1 hh
    obtain ⟨i1, x1, l1⟩ := (handle_sinv hf).1 { st with events := evs } st1 e i0 (ok0.congr rfl) lo0 hh
    have o1 := (handle_nc o0 n0 hf).1 { st with events := evs } st1 e i0 (ok0.congr rfl) lo0
      (by rw [hpt]; exact hn.congr rfl rfl rfl rfl) hh
    rw [hpt] at l1 o1
    split at h
    · cases h; exact o1
    · rename_i heq
      have : (st1.events.head?).map (·.pt) = some pt := by simpa using heq
      exact nextPointLoop_nc hf pt o0 n0 fuel st1 st' i1 l1 this o1 h

/-- `next_point` keeps the chain invariant at the point it returns, sets the tip of the chain of every ending segment
to that point, and emits nothing -/
theorem nextPoint_chains {fuel : Nat} {st st' : St} {pt : Pt} (hi : SInv st)
    (h0 : st.incoming = [] ∧ st.outgoing = []) (hw : CB pt st)
    (h : nextPoint fuel st = some (st', some pt)) :
    CB pt st' ∧ TipInc pt st' ∧ st'.outputs = st.outputs ∧ st'.chains.length = st.chains.length := by
  unfold nextPoint at h
  split at h
  · cases h
  · rename_i e he
    osplit h
    rename_i st1 hl
    simp only [Option.some.injEq, Prod.mk.injEq] at h
    obtain ⟨h1, h2⟩ := h
    subst h1 h2
    have hd0 : st.events[0]? = some e := by rw [← List.head?_eq_getElem?]; exact he
    have hlo : Lo e.pt st := fun x hx => pt_le_of_ev_le (heapInv_root_min hi.heap hd0 x hx)
    have hhd : (st.events.head?).map (·.pt) = some e.pt := by rw [he]; rfl
    have nc := nextPointLoop_nc fuel e.pt st.outputs st.chains.length fuel st st1 hi hlo hhd
      ⟨hw, ?_, ?_, rfl, rfl⟩ hl
    · exact ⟨nc.cb, nc.tip, nc.outs, nc.len⟩
    · intro i hi'; rw [h0.1] at hi'; cases hi'
    · intro i hi'; rw [h0.1] at hi'; cases hi'

end Geo.Proofs.MONO2
