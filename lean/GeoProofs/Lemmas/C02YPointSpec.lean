/-
  C02Y, part 7: `Point: Contains<X>` = the mask `T*****FF*` on the specification, every `X` of the validity domain
  (`containsM_point_geom`). Specification side of `pcFacts` (C02YPoint).
-/
import GeoProofs.Lemmas.C02YPoint

set_option linter.unusedSimpArgs false
set_option linter.unusedVariables false

namespace Geo.Proofs.C02Y
open Geo Geo.Proofs.Kernel Geo.Proofs.Spec Geo.Proofs.C02X

theorem allSegs_coords {ps : Parts} {s : Pt × Pt} (hs : s ∈ ps.allSegs) :
    s.1 ∈ allCoords ps ∧ s.2 ∈ allCoords ps := by
  unfold Parts.allSegs at hs
  rcases List.mem_append.mp hs with h | h
  · unfold Parts.curveSegs at h
    obtain ⟨c, hc, hsc⟩ := List.mem_flatMap.mp h
    have hm := mem_of_mem_segs hsc
    exact ⟨mem_allCoords_curve hc hm.1, mem_allCoords_curve hc hm.2⟩
  · unfold Parts.areaSegs at h
    obtain ⟨r, hr, hsr⟩ := List.mem_flatMap.mp h
    obtain ⟨q, hq, hrq⟩ := List.mem_flatMap.mp hr
    have hm := mem_of_mem_segs hsr
    exact ⟨mem_allCoords_ring hq hrq hm.1, mem_allCoords_ring hq hrq hm.2⟩

theorem mem_singleOf {c : List Pt} {v : Pt} (h : v ∈ singleOf c) : v ∈ c := by
  match c, h with
  | [q], h => simpa [singleOf] using h
  | [], h => simp [singleOf] at h
  | _ :: _ :: _, h => simp [singleOf] at h

/-- all written coordinates of both operands are `p`: `p` is the only vertex of the arrangement -/
theorem vertsOf_all_eq {pa pb : Parts} {p : Pt} (ha : ∀ c ∈ allCoords pa, c = p) (hb : ∀ c ∈ allCoords pb, c = p)
    {v : Pt} (hv : v ∈ vertsOf pa pb) : v = p := by
  have hseg : ∀ s ∈ pa.allSegs ++ pb.allSegs, s.1 = p ∧ s.2 = p := by
    intro s hs
    rcases List.mem_append.mp hs with h | h
    · exact ⟨ha _ (allSegs_coords h).1, ha _ (allSegs_coords h).2⟩
    · exact ⟨hb _ (allSegs_coords h).1, hb _ (allSegs_coords h).2⟩
  unfold vertsOf at hv
  rw [Geo.Proofs.Spec.mem_dedupPts] at hv
  simp only [List.mem_append] at hv
  rcases hv with (((hv | hv) | hv) | hv) | hv
  · unfold endsOf at hv
    obtain ⟨s, hs, hvs⟩ := List.mem_flatMap.mp hv
    simp only [List.mem_cons, List.not_mem_nil, or_false] at hvs
    rcases hvs with rfl | rfl
    · exact (hseg s hs).1
    · exact (hseg s hs).2
  · obtain ⟨c, hc, hvc⟩ := List.mem_flatMap.mp hv
    have hvc' := mem_singleOf hvc
    simp only [List.mem_append] at hc
    rcases hc with (hc | hc) | hc
    · exact ha v (mem_allCoords_curve hc hvc')
    · exact hb v (mem_allCoords_curve hc hvc')
    · obtain ⟨q, hq, hr⟩ := List.mem_flatMap.mp hc
      rcases List.mem_append.mp hq with hq | hq
      · exact ha v (mem_allCoords_ring hq hr hvc')
      · exact hb v (mem_allCoords_ring hq hr hvc')
  · exact ha v (mem_allCoords_pts hv)
  · exact hb v (mem_allCoords_pts hv)
  · obtain ⟨s, hs, t, _, hst⟩ := mem_pairVertices hv
    have hon := (lineCoord_iff _ _ _).mp (segVertex_on_first hst)
    rw [(hseg s hs).1, (hseg s hs).2, SegMem_degenerate] at hon
    exact hon

theorem allCoords_point (p : Pt) : ∀ c ∈ allCoords (⟨[p], [], []⟩ : Parts), c = p := by
  intro c hc
  simpa [allCoords] using hc

/-- all coordinates of `B` are `p`: no atom of `(Point p, B)` is outside the point -/
theorem no_atom_outside_point {pb : Parts} {p : Pt} (hb : ∀ c ∈ allCoords pb, c = p) {x : Atom}
    (hx : x ∈ atomsOf ⟨[p], [], []⟩ pb) : x.posA ≠ .outside := by
  rcases mem_atomsOf_cases hx with ⟨v, hv, rfl⟩ | ⟨s, hs, hne, _⟩
  · have : v = p := vertsOf_all_eq (allCoords_point p) hb hv
    subst this
    simp only
    rw [Geo.Proofs.Loc.locateParts_point, if_pos rfl]
    intro e; cases e
  · exfalso
    rcases List.mem_append.mp hs with h | h
    · simp [Parts.allSegs, Parts.curveSegs, Parts.areaSegs] at h
    · exact hne ((hb _ (allSegs_coords h).1).trans (hb _ (allSegs_coords h).2).symm)

/-- **`Point: Contains<X>` is the mask `T*****FF*` on the specification, every `X` of the validity domain** -/
theorem containsM_point_geom (p : Pt) (b : Geom) (hb : inDomain b = true) :
    containsM (.point p) b = Gen.isContains (relateSpec (.point p) b) := by
  · have e : containsM (.point p) b = pointContains p b := by
      cases b <;> rfl
    have hr : relateSpec (.point p) b = relateParts ⟨[p], [], []⟩ (parts b) := rfl
    have ca : ClosedRings (⟨[p], [], []⟩ : Parts) := closedRings_of_noAreas rfl
    have cb := (dom_facts b hb).closed
    rw [e, hr, Bool.eq_iff_iff, (pcFacts p b hb).star, isContains_cells]
    have hii := Geo.Proofs.Loc.relate_point_cell_left (parts b) p .inside .inside (by decide)
    constructor
    · rintro ⟨hall, hin⟩
      refine ⟨hii.mpr ⟨rfl, hin⟩, ?_, ?_⟩
      · by_contra hne
        obtain ⟨x, hx, hA, _⟩ := atom_of_cell_right (by intro e; cases e) hne
        exact no_atom_outside_point hall hx hA
      · by_contra hne
        obtain ⟨x, hx, hA, _⟩ := atom_of_cell_right (by intro e; cases e) hne
        exact no_atom_outside_point hall hx hA
    · rintro ⟨h1, h2, h3⟩
      refine ⟨?_, (hii.mp h1).2⟩
      by_contra hno
      have : ∃ c ∈ allCoords (parts b), c ≠ p := by
        by_contra hn
        apply hno
        intro c hc
        by_contra hcp
        exact hn ⟨c, hc, hcp⟩
      obtain ⟨c, hc, hcp⟩ := this
      have hf := isContains_false_of_vertex ca cb (allCoords_mem_verts_right hc)
        (coords_located b hb c hc) (by
          rw [Geo.Proofs.Loc.locateParts_point, if_neg hcp])
      have ht : Gen.isContains (relateParts ⟨[p], [], []⟩ (parts b)) = true :=
        (isContains_cells _).mpr ⟨h1, h2, h3⟩
      rw [hf] at ht
      cases ht

end Geo.Proofs.C02Y
