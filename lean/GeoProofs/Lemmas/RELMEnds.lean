/-
  RELM — every edge end `EdgeEndBuilder` makes has non-zero length, provided no edge has two equal
  consecutive coordinates (true of every edge `GeometryGraph::new` builds except for a `Line` with
  equal end points). Exact arithmetic. This discharges the hypothesis `EndsNonZero` of the
  transpose law for all geometries without a zero-length `Line`.
-/
import GeoProofs.Lemmas.RELMSym6

namespace Geo.Proofs.RELM
open Geo Geo.GG Geo.RI Geo.Proofs.Kernel

/-- no two equal consecutive coordinates -/
def Distinct (cs : List Pt) : Prop := ∀ k a b, cs[k]? = some a → cs[k + 1]? = some b → a ≠ b

theorem nonZero_iff (x : EdgeEnd) : NonZero (dirOf x) ↔ x.c1 ≠ x.c0 := by
  unfold NonZero dirOf
  constructor
  · rintro (h | h) he
    · rw [he] at h; simp at h
    · rw [he] at h; simp at h
  · intro h
    by_contra hc
    simp only [not_or, not_not] at hc
    apply h
    cases hx1 : x.c1; cases hx0 : x.c0
    rw [hx1, hx0] at hc
    simp only at hc
    simp only [Pt.mk.injEq]
    constructor <;> linarith

theorem validRec_dist_nonneg {cs : List Pt} {r : EI} (h : ValidRec cs r) : 0 ≤ r.dist := by
  rcases h with ⟨h0, _⟩ | ⟨_, a, b, _, _, hm, hd, _⟩
  · rw [h0]
  · obtain ⟨t, ht0, _, _, _, he⟩ := edgeDistance_of_segMem hm
    rw [hd, he]
    have : 0 ≤ extent a b := by
      unfold extent; split <;> exact rabs_nonneg _
    exact mul_nonneg ht0 this

theorem edgeDistance_self (a b : Pt) : edgeDistance Arith.exact a a b = 0 := by
  rw [edgeDistance_exact]; simp

/-- two records of one segment with different keys sit at different points -/
theorem validRec_ne {cs : List Pt} {r1 r2 : EI} (h1 : ValidRec cs r1) (h2 : ValidRec cs r2)
    (hs : r1.seg = r2.seg) (hd : r1.dist < r2.dist) : r1.coord ≠ r2.coord := by
  have hn1 := validRec_dist_nonneg h1
  have h2ne : r2.dist ≠ 0 := by intro h; rw [h] at hd; linarith
  rcases h2 with ⟨h0, _⟩ | ⟨_, a, b, ha, hb, hm, hdist, _⟩
  · exact absurd h0 h2ne
  · rcases h1 with ⟨h0, hc⟩ | ⟨_, a', b', ha', hb', hm', hdist', _⟩
    · intro he
      rw [hs, ha] at hc
      cases hc
      rw [← he, edgeDistance_self] at hdist
      exact h2ne hdist
    · intro he
      rw [hs, ha] at ha'; rw [hs, hb] at hb'
      cases ha'; cases hb'
      rw [hdist, hdist', he] at hd
      exact lt_irrefl _ hd

section ends
variable {e : REdge}

theorem endForNext_nonzero (hd : Distinct e.coords) {cur : EI} {next : Option EI} (hc : ValidRec e.coords cur)
    (hn : ∀ n, next = some n → ValidRec e.coords n ∧ KeyLt cur n) {l : List EdgeEnd}
    (h : endForNext e cur next = some l) : ∀ x ∈ l, NonZero (dirOf x) := by
  unfold endForNext at h
  simp only at h
  split at h
  · cases h; intro x hx; cases hx
  · cases hcn : e.coords[cur.seg + 1]? with
    | none => rw [hcn] at h; cases h
    | some c =>
      rw [hcn] at h
      simp only [Option.some.injEq] at h
      subst h
      intro x hx
      simp only [List.mem_singleton] at hx
      subst hx
      rw [nonZero_iff]
      simp only
      -- the default: the next vertex
      have hdef : c ≠ cur.coord := by
        rcases hc with ⟨_, hcc⟩ | ⟨_, a, b, _, hb, _, _, hne⟩
        · exact (hd cur.seg cur.coord c hcc hcn).symm
        · rw [hcn] at hb; cases hb; exact hne.symm
      cases next with
      | none => exact hdef
      | some n =>
        simp only
        split
        · rename_i hseg
          have hseg' : n.seg = cur.seg := by simpa using hseg
          obtain ⟨hvn, hlt⟩ := hn n rfl
          rcases hlt with hlt | ⟨_, hlt⟩
          · omega
          · exact (validRec_ne hc hvn hseg'.symm hlt).symm
        · exact hdef

theorem endForPrev_nonzero (hd : Distinct e.coords) {cur : EI} {prev : Option EI} (hc : ValidRec e.coords cur)
    (hp : ∀ p, prev = some p → ValidRec e.coords p ∧ KeyLt p cur) {l : List EdgeEnd}
    (h : endForPrev e cur prev = some l) : ∀ x ∈ l, NonZero (dirOf x) := by
  unfold endForPrev at h
  simp only at h
  by_cases hz : (cur.dist == 0) = true
  · have hz' : cur.dist = 0 := by simpa using hz
    rw [if_pos hz] at h
    split at h
    · cases h; intro x hx; cases hx
    · rename_i hs0
      have hk : cur.seg ≠ 0 := by simpa using hs0
      cases hcp : e.coords[cur.seg - 1]? with
      | none => rw [hcp] at h; cases h
      | some c =>
        rw [hcp] at h
        simp only [Option.some.injEq] at h
        subst h
        intro x hx
        simp only [List.mem_singleton] at hx
        subst hx
        rw [nonZero_iff]
        simp only
        have hcur : e.coords[cur.seg]? = some cur.coord := by
          rcases hc with ⟨_, hcc⟩ | ⟨hne, _⟩
          · exact hcc
          · exact absurd hz' hne
        have hidx : cur.seg - 1 + 1 = cur.seg := by omega
        have hdef : c ≠ cur.coord := hd (cur.seg - 1) c cur.coord hcp (by rw [hidx]; exact hcur)
        cases prev with
        | none => exact hdef
        | some p =>
          simp only
          split
          · rename_i hge
            obtain ⟨hvp, hlt⟩ := hp p rfl
            have hpn := validRec_dist_nonneg hvp
            have hps : p.seg = cur.seg - 1 := by
              rcases hlt with hlt | ⟨_, hlt⟩
              · omega
              · rw [hz'] at hlt; linarith
            rcases hvp with ⟨_, hpc⟩ | ⟨_, a, b, _, hb, _, _, hne⟩
            · rw [hps, hcp] at hpc; cases hpc; exact hdef
            · rw [hps, hidx, hcur] at hb; cases hb; exact hne
          · exact hdef
  · have hz' : cur.dist ≠ 0 := by simpa using hz
    rw [if_neg hz] at h
    cases hcp : e.coords[cur.seg]? with
    | none => rw [hcp] at h; cases h
    | some c =>
      rw [hcp] at h
      simp only [Option.some.injEq] at h
      subst h
      intro x hx
      simp only [List.mem_singleton] at hx
      subst hx
      rw [nonZero_iff]
      simp only
      have hdef : c ≠ cur.coord := by
        rcases hc with ⟨h0, _⟩ | ⟨_, a, b, ha, _, _, hdist, _⟩
        · exact absurd h0 hz'
        · rw [hcp] at ha; cases ha
          intro he
          rw [← he, edgeDistance_self] at hdist
          exact hz' hdist
      cases prev with
      | none => exact hdef
      | some p =>
        simp only
        split
        · rename_i hge
          obtain ⟨hvp, hlt⟩ := hp p rfl
          rcases hlt with hlt | ⟨hseg, hlt⟩
          · omega
          · exact validRec_ne hvp hc hseg hlt
        · exact hdef

theorem endsLoop_nonzero (hd : Distinct e.coords) : ∀ (eis : List EI) (prev : Option EI) (l : List EdgeEnd),
    SortedEI eis → (∀ r ∈ eis, ValidRec e.coords r) →
    (∀ p, prev = some p → ValidRec e.coords p ∧ ∀ r ∈ eis, KeyLt p r) →
    endsLoop e prev eis = some l → ∀ x ∈ l, NonZero (dirOf x)
  | [], _, l, _, _, _, h => by
      simp only [endsLoop] at h; cases h; intro x hx; cases hx
  | cur :: rest, prev, l, hs, hv, hp, h => by
      simp only [endsLoop] at h
      have hsc := List.pairwise_cons.1 hs
      have hvc := hv cur (List.mem_cons_self ..)
      split at h
      · rename_i a b c ha hb hc
        cases h
        intro x hx
        simp only [List.mem_append] at hx
        rcases hx with (hx | hx) | hx
        · refine endForPrev_nonzero hd hvc ?_ ha x hx
          intro p hpe
          obtain ⟨hvp, hlt⟩ := hp p hpe
          exact ⟨hvp, hlt cur (List.mem_cons_self ..)⟩
        · refine endForNext_nonzero hd hvc ?_ hb x hx
          intro n hn
          cases rest with
          | nil => simp at hn
          | cons n' rest' =>
            simp only [List.head?_cons, Option.some.injEq] at hn
            subst hn
            exact ⟨hv _ (List.mem_cons_of_mem _ (List.mem_cons_self ..)), hsc.1 _ (List.mem_cons_self ..)⟩
        · refine endsLoop_nonzero hd rest (some cur) c hsc.2 (fun r hr => hv r (List.mem_cons_of_mem _ hr)) ?_ hc x hx
          intro p hpe
          cases hpe
          exact ⟨hvc, hsc.1⟩
      · cases h

end ends

theorem addEndpoints_wf {e : REdge} (hs : SortedEI e.eis) (hv : ∀ r ∈ e.eis, ValidRec e.coords r) :
    SortedEI e.addEndpoints.eis ∧ ∀ r ∈ e.addEndpoints.eis, ValidRec e.coords r := by
  unfold REdge.addEndpoints
  cases hh : e.coords.head? with
  | none => exact ⟨hs, hv⟩
  | some f =>
    cases hl : e.coords.getLast? with
    | none => exact ⟨hs, hv⟩
    | some lst =>
      simp only
      refine ⟨eiInsert_sorted _ _ (eiInsert_sorted _ _ hs), ?_⟩
      intro r hr
      rcases eiInsert_mem_subset _ r _ hr with rfl | hr
      · left
        refine ⟨rfl, ?_⟩
        simp only
        rw [List.getLast?_eq_getElem?] at hl
        exact hl
      · rcases eiInsert_mem_subset _ r _ hr with rfl | hr
        · left
          refine ⟨rfl, ?_⟩
          simp only
          rw [List.head?_eq_getElem?] at hh
          exact hh
        · exact hv r hr

/-- **the edge ends of a well-formed edge without repeated coordinates have non-zero length** -/
theorem endsForEdge_nonzero {e : REdge} (hd : Distinct e.coords) (hs : SortedEI e.eis)
    (hv : ∀ r ∈ e.eis, ValidRec e.coords r) {l : List EdgeEnd} (h : endsForEdge e = some l) :
    ∀ x ∈ l, NonZero (dirOf x) := by
  obtain ⟨hs', hv'⟩ := addEndpoints_wf hs hv
  unfold endsForEdge at h
  exact endsLoop_nonzero hd _ none l hs' hv' (fun p hp => by cases hp) h

theorem endsForEdges_nonzero : ∀ (es : List REdge) (l : List EdgeEnd),
    (∀ e ∈ es, Distinct e.coords ∧ SortedEI e.eis ∧ ∀ r ∈ e.eis, ValidRec e.coords r) →
    endsForEdges es = some l → ∀ x ∈ l, NonZero (dirOf x)
  | [], l, _, h => by simp only [endsForEdges] at h; cases h; intro x hx; cases hx
  | e :: es, l, hw, h => by
      simp only [endsForEdges] at h
      split at h
      · rename_i a b ha hb
        cases h
        intro x hx
        simp only [List.mem_append] at hx
        have he := hw e (List.mem_cons_self ..)
        rcases hx with hx | hx
        · exact endsForEdge_nonzero he.1 he.2.1 he.2.2 ha x hx
        · exact endsForEdges_nonzero es b (fun e' he' => hw e' (List.mem_cons_of_mem _ he')) hb x hx
      · cases h

end Geo.Proofs.RELM
