/-
  Translator tie for geo/src/algorithm/centroid.rs: the accumulator methods of `WeightedCentroid` / `CentroidOperation`
  of the hand-written model `GeoModel/Centroid.lean` equal the terms regenerated from the Rust bodies
  (`GeoModel/Gen/CentroidGen.lean`), including the `Coord` operators of geo-types they are written with.
  `Euclidean.length(line)` is the parameter `len` on both sides.
-/
import GeoModel.Centroid
import GeoModel.Gen.CentroidGen
import Mathlib.Tactic.NormNum

namespace Geo.Proofs.TRAN2Centroid
open Geo Geo.Cen
open scoped Geo.Gen

/-! ### the `Coord` operators -/

theorem coordAdd_eq (a b : Pt) : a + b = Gen.coordAdd a b := rfl
theorem coordSub_eq (a b : Pt) : a - b = Gen.coordSub a b := rfl

theorem mul_eq_smul (c : Pt) (w : Rat) : (c * w : Pt) = Pt.smul w c := by
  show Pt.mk (c.x * w) (c.y * w) = Pt.mk (w * c.x) (w * c.y)
  rw [Rat.mul_comm c.x, Rat.mul_comm c.y]

theorem div_eq_divS (c : Pt) (w : Rat) : (c / w : Pt) = Pt.divS c w := rfl

/-! ### `WeightedCentroid` -/

theorem wcAddAssign_eq (a b : WC) : Gen.wcAddAssign a b = a.addAssign b := by
  unfold Gen.wcAddAssign WC.addAssign
  rcases Nat.lt_trichotomy a.dim b.dim with h | h | h
  · simp [Nat.compare_eq_lt.2 h, h]
  · have : ¬ a.dim < b.dim := by omega
    have h' : ¬ b.dim < a.dim := by omega
    simp [Nat.compare_eq_eq.2 h, this, h']
  · have : ¬ a.dim < b.dim := by omega
    simp [Nat.compare_eq_gt.2 h, this, h]

theorem wcSubAssign_eq (a b : WC) : Gen.wcSubAssign a b = a.subAssign b := by
  unfold Gen.wcSubAssign WC.subAssign
  rcases Nat.lt_trichotomy a.dim b.dim with h | h | h
  · simp [Nat.compare_eq_lt.2 h, h]
  · have : ¬ a.dim < b.dim := by omega
    have h' : ¬ b.dim < a.dim := by omega
    simp [Nat.compare_eq_eq.2 h, this, h']
  · have : ¬ a.dim < b.dim := by omega
    simp [Nat.compare_eq_gt.2 h, this, h]

/-! ### `CentroidOperation` -/

theorem opCentroid_eq (o : Op) : Gen.opCentroid o = o.centroid := rfl

theorem centroidDimensions_eq (o : Op) : Gen.centroidDimensions o = o.dims := by
  cases o <;> rfl

theorem addWeightedCentroid_eq (o : Op) (w : WC) : Gen.addWeightedCentroid o w = addWC o w := by
  cases o <;> simp [Gen.addWeightedCentroid, addWC, wcAddAssign_eq]

theorem addCentroid_eq (o : Op) (d : Nat) (c : Pt) (w : Rat) : Gen.addCentroid o d c w = addCentroid o d c w := by
  simp [Gen.addCentroid, addCentroid, addWeightedCentroid_eq, mul_eq_smul]

theorem addCoord_eq (o : Op) (c : Pt) : Gen.addCoord o c = addCoord o c := by
  simp [Gen.addCoord, addCoord, addCentroid_eq]

theorem lineCentroid_eq (a b : Pt) : Gen.lineCentroid a b = mid a b := by
  have : ((1 : Rat) + 1) = 2 := by norm_num
  simp [Gen.lineCentroid, mid, div_eq_divS, this]

theorem addLine_eq (len : Pt → Pt → Rat) (o : Op) (l : Pt × Pt) : Gen.addLine len o l = addLine len o l.1 l.2 := by
  unfold Gen.addLine addLine Gen.cenLineDimensions
  by_cases h : l.1 = l.2
  · simp [h, addCoord_eq]
  · simp [h, addCentroid_eq, lineCentroid_eq]

theorem foldl_addLine_eq (len : Pt → Pt → Rat) (ls : List (Pt × Pt)) (o : Op) :
    List.foldl (fun (s : Op) line => Gen.addLine len s line) o ls = addLines len o ls := by
  unfold addLines
  simp only [addLine_eq]

theorem addLineString_eq (len : Pt → Pt → Rat) (o : Op) (cs : List Pt) :
    Gen.addLineString len o cs = addLineString len o cs := by
  unfold Gen.addLineString addLineString
  simp only [centroidDimensions_eq, id]
  by_cases hd : o.dims > 2
  · simp [hd]
  · simp only [hd, decide_false, Bool.false_eq_true, if_false]
    match cs with
    | [] => simp [foldl_addLine_eq]
    | [c] => simp [Gen.idx, addCoord_eq]
    | c :: d :: rest => simp [foldl_addLine_eq]

theorem addMultiLineString_eq (len : Pt → Pt → Rat) (o : Op) (ls : List (List Pt)) :
    Gen.addMultiLineString len o ls = addMultiLineString len o ls := by
  unfold Gen.addMultiLineString addMultiLineString
  simp only [centroidDimensions_eq, id, addLineString_eq]
  by_cases hd : o.dims > 2 <;> simp [hd]

theorem addMultiPoint_eq (o : Op) (ps : List Pt) : Gen.addMultiPoint o ps = addMultiPoint o ps := by
  unfold Gen.addMultiPoint addMultiPoint
  simp only [centroidDimensions_eq, id, addCoord_eq]
  by_cases hd : o.dims > 1 <;> simp [hd]

/-! ### rings, rects, polygons -/

theorem twiceArea_eq (r : List Pt) : Cen.twiceArea r = Gen.cenTwiceSignedRingArea r := by
  unfold Cen.twiceArea Gen.cenTwiceSignedRingArea
  by_cases h3 : r.length < 3
  · simp [h3]
  · simp only [h3, if_false, decide_false, Bool.false_eq_true]
    match r with
    | [] => simp at h3
    | s :: rest =>
      obtain ⟨l, hl⟩ : ∃ l, (s :: rest).getLast? = some l := ⟨_, List.getLast?_eq_some_getLast (by simp)⟩
      simp only [Cen.isClosed, hl, List.head?_cons, Gen.unwrap, Gen.idx, List.getD_cons_zero]
      by_cases hc : s = l
      · simp [hc, Gen.lineDeterminant]
        rfl
      · simp [hc]

theorem cenRingArea_eq (r : List Pt) : Cen.ringArea r = Gen.cenGetLinestringArea r := by
  have : ((1 : Rat) + 1) = 2 := by norm_num
  simp [Cen.ringArea, Gen.cenGetLinestringArea, twiceArea_eq, this]

theorem cenLsDims_eq (cs : List Pt) : Cen.lsDims cs = Gen.cenLineStringDimensions cs := by
  unfold Cen.lsDims Gen.cenLineStringDimensions
  match cs with
  | [] => rfl
  | f :: rest =>
    simp only [List.isEmpty_cons, Bool.false_eq_true, if_false, Gen.idx, List.getD_cons_zero]
    have hf : (fun c => decide (f ≠ c)) = (fun coord => f != coord) := by
      funext c; by_cases h : f = c <;> simp [h]
    rw [hf]

theorem ringAccum_eq (s : Pt) (r : List Pt) :
    List.foldl (α := Pt) (β := Pt × Pt) (fun accum line =>
      accum + ((((fun c => c - s) line.2) + ((fun c => c - s) line.1)) * Gen.lineDeterminant ((fun c => c - s) line.1) ((fun c => c - s) line.2) : Pt))
      zeroPt (windows2 r) = Cen.ringAccum s r := by
  unfold Cen.ringAccum
  congr 1
  funext acc l
  simp only [mul_eq_smul]
  rfl

theorem addRing_eq (len : Pt → Pt → Rat) (o : Op) (r : List Pt) : Gen.addRing len o r = Cen.addRing len o r := by
  unfold Gen.addRing Cen.addRing
  rw [← cenRingArea_eq, ← cenLsDims_eq]
  simp only [id, beq_iff_eq]
  by_cases ha : Cen.ringArea r = 0
  · simp only [ha, if_true]
    cases r with
    | nil => simp [Cen.lsDims]
    | cons c t =>
      simp only [Gen.idx, List.getD_cons_zero, addCoord_eq, addLineString_eq]
      generalize Cen.lsDims (c :: t) = n
      match n with
      | 0 => rfl
      | 1 => rfl
      | n + 2 => rfl
  · simp only [ha, if_false]
    match r with
    | [] => simp [Cen.ringArea, Cen.twiceArea] at ha
    | s :: rest =>
      simp only [Gen.idx, List.getD_cons_zero, addCentroid_eq, div_eq_divS]
      rw [ringAccum_eq]

theorem rectDims_eq (mn mx : Pt) : Gen.cenRectDimensions mn mx = Cen.rectDims mn mx := by
  unfold Gen.cenRectDimensions Cen.rectDims
  by_cases h : mn = mx
  · simp [h]
  · by_cases h2 : mn.x = mx.x ∨ mn.y = mx.y
    · simp [h, h2]
    · simp [h, h2]

theorem addRect_eq (len : Pt → Pt → Rat) (o : Op) (mn mx : Pt) : Gen.addRect len o ⟨mn, mx⟩ = Cen.addRect len o mn mx := by
  unfold Gen.addRect Cen.addRect
  rw [rectDims_eq]
  simp only [id, addLine_eq, addCoord_eq, addCentroid_eq]
  unfold Cen.rectDims
  by_cases h : mn = mx
  · simp [h]
  · by_cases h2 : mn.x = mx.x ∨ mn.y = mx.y
    · simp [h, h2]
    · have h11 : ((1 : Rat) + 1) = 2 := by norm_num
      simp [h, h2, Gen.rectCenter, Cen.rectCenter, Gen.rectWidth, Gen.rectHeight, h11]

theorem foldl_third {α β γ δ : Type} (f : γ → δ → γ) (a : α) (b : β) (l : List δ) (c : γ) :
    List.foldl (fun (s : α × β × γ) x => (s.1, s.2.1, f s.2.2 x)) (a, b, c) l = (a, b, List.foldl f c l) := by
  induction l generalizing c with
  | nil => rfl
  | cons x xs ih => simp [List.foldl, ih]

theorem addPolygon_eq (len : Pt → Pt → Rat) (o : Op) (p : Poly) : Gen.addPolygon len o p = Cen.addPolygon len o p := by
  unfold Gen.addPolygon Cen.addPolygon
  simp only [addRing_eq, id]
  rw [foldl_third (fun i r => Cen.addRing len i r)]
  simp only [addWeightedCentroid_eq, addLineString_eq, wcSubAssign_eq]
  cases he : Cen.addRing len none p.ext with
  | none => rfl
  | some e =>
    cases hi : List.foldl (Cen.addRing len) none p.ints with
    | none => simp
    | some i =>
      by_cases h3 : i.dim = 3
      · by_cases hw : (e.subAssign i).weight = 0 <;> simp [h3, hw]
      · simp [h3]

end Geo.Proofs.TRAN2Centroid
