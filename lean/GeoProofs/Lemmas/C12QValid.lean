/-
  GeoProofs.Lemmas.C12QValid — what `polyValid` (GeoModel/Valid.lean) gives the polygon scan with
  holes: all rings simple (hence closed, crossings of one ring pairwise distinct, bounding box of the
  shell proper), and every hole coordinate inside the bounding box of the exterior ring (from the
  `BE = F` clause of the hole/shell DE-9IM matrix: a hole vertex outside the box would be a
  boundary-in-exterior atom).
-/
import GeoModel.Valid
import GeoProofs.Lemmas.C12QFold
import GeoProofs.Lemmas.LocateLemmas
import GeoProofs.Lemmas.RelateSpecBBox
import Mathlib.Tactic.Linarith

namespace Geo.Proofs.C12
open Geo Geo.IP Geo.Proofs.Kernel

/-! ### segment end points are arrangement vertices -/

theorem vertex_atom_of_end {pa pb : Parts} {s : Pt × Pt} (hs : s ∈ pa.allSegs) :
    (⟨.zero, locateParts pa s.1, locateParts pb s.1⟩ : Atom) ∈ Geo.Proofs.Loc.atomsOf pa pb := by
  unfold Geo.Proofs.Loc.atomsOf
  simp only
  apply List.mem_append_left
  apply List.mem_map.mpr
  refine ⟨s.1, Geo.Proofs.Loc.mem_dedupPts ?_, rfl⟩
  apply List.mem_append_left
  apply List.mem_append_left
  apply List.mem_append_left
  apply List.mem_append_left
  rw [List.mem_flatMap]
  exact ⟨s, List.mem_append_left _ hs, by obtain ⟨a, b⟩ := s; simp⟩

/-- `BE = F`: no atom is on the boundary of `A` and in the exterior of `B` -/
theorem no_be_atom {pa pb : Parts} (h : (relateParts pa pb).be = .empty) :
    ∀ a ∈ Geo.Proofs.Loc.atomsOf pa pb, ¬ (a.posA = .onBoundary ∧ a.posB = .outside) := by
  intro a ha hab
  have hget : (relateParts pa pb).get .onBoundary .outside = .empty := h
  rw [Geo.Proofs.Loc.relateParts_eq, Geo.Proofs.Loc.IM.get_set] at hget
  simp only [reduceCtorEq, false_and, if_false] at hget
  have := (Geo.Proofs.Loc.fold_get_ne_empty (Geo.Proofs.Loc.atomsOf pa pb) IM.empty .onBoundary .outside
    (fun x hx => Geo.Proofs.Loc.atoms_dim_ne_empty hx)).2 (Or.inr ⟨a, ha, hab⟩)
  exact this hget

/-- every coordinate of a list with at least two entries starts a segment or ends one; in a closed
list every coordinate starts one -/
theorem mem_segs_end : ∀ (l : List Pt) (v : Pt), 2 ≤ l.length → v ∈ l →
    ∃ s ∈ segs l, v = s.1 ∨ v = s.2
  | [], _, h, _ => by simp at h
  | [_], _, h, _ => by simp at h
  | [a, b], v, _, hv => by
    refine ⟨(a, b), by simp [segs], ?_⟩
    simp only [List.mem_cons, List.not_mem_nil, or_false] at hv
    exact hv
  | a :: b :: c :: t, v, _, hv => by
    rcases List.mem_cons.1 hv with rfl | hv
    · exact ⟨(v, b), by simp [segs], Or.inl rfl⟩
    · obtain ⟨s, hs, h⟩ := mem_segs_end (b :: c :: t) v (by simp) hv
      exact ⟨s, by rw [segs]; exact List.mem_cons_of_mem _ hs, h⟩

theorem length_of_simple {r0 : List Pt} (h : ringSimple r0 = true) : 2 ≤ r0.length := by
  have := (ringSimple_spec h).2.1
  match r0, this with
  | [], h => simp [dedupConsecutive, segs] at h
  | [_], h => simp [dedupConsecutive, segs] at h
  | _ :: _ :: _, _ => simp

/-- a ring vertex is on the boundary of the polygon made of that ring -/
theorem locate_ring_vertex {r : List Pt} {s : Pt × Pt} (hs : s ∈ segs r) (p : Pt)
    (hp : p = s.1 ∨ p = s.2) : locateParts (polyOf r) p = .onBoundary := by
  have hon : onAnySeg p (segs r) = true := by
    rw [Geo.Proofs.Spec.onAnySeg_iff]
    refine ⟨s, hs, ?_⟩
    rcases hp with rfl | rfl
    · exact Geo.Proofs.Loc.lineCoord_left _ _
    · exact Geo.Proofs.Loc.lineCoord_right _ _
  unfold polyOf
  rw [Geo.Proofs.Loc.locateParts_ring]
  simp [hon]

/-- `BE = F` for (hole, shell): every hole coordinate is inside the closed bounding box of the
(closed) exterior ring -/
theorem ring_in_bbox_of_be {hole ext : List Pt} {mn mx : Pt}
    (hbe : (relateParts (polyOf hole) (polyOf ext)).be = .empty)
    (hlen : 2 ≤ hole.length) (hclosed : ext.head? = ext.getLast?)
    (hb : getBoundingRect ext = some (mn, mx)) :
    ∀ v ∈ hole, (mn.x ≤ v.x ∧ v.x ≤ mx.x) ∧ (mn.y ≤ v.y ∧ v.y ≤ mx.y) := by
  intro v hv
  obtain ⟨s, hs, hvs⟩ := mem_segs_end hole v hlen hv
  have hbd := (Geo.Proofs.C19.getBoundingRect_bounds ext mn mx hb).1
  by_contra hout
  -- `v` is strictly outside the box on one of the four sides
  have hside : (∀ c ∈ Geo.Proofs.Spec.allCoords (polyOf ext), c.x < v.x) ∨
      ((∀ c ∈ Geo.Proofs.Spec.allCoords (polyOf ext), v.x < c.x) ∧
        ∀ q ∈ (polyOf ext).areas, q.ext.head? = q.ext.getLast?) ∨
      (∀ c ∈ Geo.Proofs.Spec.allCoords (polyOf ext), c.y < v.y) ∨
      (∀ c ∈ Geo.Proofs.Spec.allCoords (polyOf ext), v.y < c.y) := by
    have hmem : ∀ c ∈ Geo.Proofs.Spec.allCoords (polyOf ext), c ∈ ext := by
      intro c hc
      simpa [Geo.Proofs.Spec.allCoords, polyOf, Poly.rings] using hc
    by_cases h1 : mx.x < v.x
    · exact Or.inl (fun c hc => by have := hbd c (hmem c hc); linarith [this.2.1])
    · by_cases h2 : v.x < mn.x
      · refine Or.inr (Or.inl ⟨fun c hc => by have := hbd c (hmem c hc); linarith [this.1], ?_⟩)
        intro q hq
        simp only [polyOf, List.mem_singleton] at hq
        rw [hq]; exact hclosed
      · by_cases h3 : mx.y < v.y
        · exact Or.inr (Or.inr (Or.inl (fun c hc => by have := hbd c (hmem c hc); linarith [this.2.2.2])))
        · by_cases h4 : v.y < mn.y
          · exact Or.inr (Or.inr (Or.inr (fun c hc => by have := hbd c (hmem c hc); linarith [this.2.2.1])))
          · exact absurd ⟨⟨not_lt.1 h2, not_lt.1 h1⟩, ⟨not_lt.1 h4, not_lt.1 h3⟩⟩ hout
  have hB : locateParts (polyOf ext) v = .outside := Geo.Proofs.Spec.locate_outside_bbox _ _ hside
  have hA : locateParts (polyOf hole) v = .onBoundary := locate_ring_vertex hs v hvs
  have hsa : s ∈ (polyOf hole).allSegs := by
    simp [Parts.allSegs, Parts.curveSegs, Parts.areaSegs, polyOf, Poly.rings, hs]
  rcases hvs with rfl | rfl
  · exact no_be_atom hbe _ (vertex_atom_of_end (pb := polyOf ext) hsa) ⟨hA, hB⟩
  · -- the end point of `s`: use the reversed membership through the swapped segment list
    have : (⟨.zero, locateParts (polyOf hole) s.2, locateParts (polyOf ext) s.2⟩ : Atom) ∈
        Geo.Proofs.Loc.atomsOf (polyOf hole) (polyOf ext) := by
      unfold Geo.Proofs.Loc.atomsOf
      simp only
      apply List.mem_append_left
      apply List.mem_map.mpr
      refine ⟨s.2, Geo.Proofs.Loc.mem_dedupPts ?_, rfl⟩
      apply List.mem_append_left
      apply List.mem_append_left
      apply List.mem_append_left
      apply List.mem_append_left
      rw [List.mem_flatMap]
      exact ⟨s, List.mem_append_left _ hsa, by obtain ⟨a, b⟩ := s; simp⟩
    exact no_be_atom hbe _ this ⟨hA, hB⟩

/-! ### `polyValid` unpacked -/

theorem polyValid_spec {p : Poly} (h : polyValid p = true) :
    ringSimple p.ext = true ∧ (∀ hole ∈ p.ints, ringSimple hole = true) ∧
    (∀ hole ∈ p.ints, (relateParts (polyOf hole) (polyOf p.ext)).be = .empty) := by
  unfold polyValid at h
  rw [Bool.and_eq_true] at h
  have h1 := h.1
  unfold polyValid.polyValidRings at h1
  simp only [Bool.and_eq_true, List.all_eq_true, beq_iff_eq, bne_iff_ne] at h1
  obtain ⟨⟨⟨he, hh⟩, hm⟩, _⟩ := h1
  exact ⟨he, hh, fun hole hhole => (hm hole hhole).1.2⟩

/-- all rings of a valid polygon are closed; hole coordinates are inside the shell's bounding box,
which is proper -/
theorem valid_scan_facts {p : Poly} (h : polyValid p = true) {mn mx : Pt}
    (hb : getBoundingRect p.ext = some (mn, mx)) :
    (∀ r ∈ p.rings, ringSimple r = true) ∧ (∀ r ∈ p.rings, r.head? = r.getLast?) ∧
    (mn.x < mx.x ∧ mn.y < mx.y) ∧
    (∀ v ∈ p.coords, (mn.x ≤ v.x ∧ v.x ≤ mx.x) ∧ (mn.y ≤ v.y ∧ v.y ≤ mx.y)) := by
  obtain ⟨he, hh, hbe⟩ := polyValid_spec h
  have hsimple : ∀ r ∈ p.rings, ringSimple r = true := by
    intro r hr
    rcases List.mem_cons.1 hr with rfl | hr
    · exact he
    · exact hh r hr
  refine ⟨hsimple, fun r hr => closed_of_simple (hsimple r hr), bbox_proper_of_simple he hb, ?_⟩
  intro v hv
  unfold Poly.coords at hv
  rcases List.mem_append.1 hv with hv | hv
  · have := (Geo.Proofs.C19.getBoundingRect_bounds p.ext mn mx hb).1 v hv
    exact ⟨⟨this.1, this.2.1⟩, this.2.2⟩
  · obtain ⟨hole, hhole, hvh⟩ := List.mem_flatten.1 hv
    exact ring_in_bbox_of_be (hbe hole hhole) (length_of_simple (hh hole hhole)) (closed_of_simple he) hb v hvh

/-! ### distinct hit abscissae from per-ring simplicity and cross-ring disjointness -/

/-- with a proper scan segment the model's hit list of every edge is its crossing list -/
theorem hit_edge_of_lt (poly : Poly) (x1 x2 y : Rat)
    (hy : ∀ v ∈ poly.coords, v.y ≠ y) (hxb : ∀ v ∈ poly.coords, x1 ≤ v.x ∧ v.x ≤ x2) (hlt : x1 < x2)
    {e : Pt × Pt} (he : e ∈ poly.lines) : hitXs ⟨x1, y⟩ ⟨x2, y⟩ e = crossXs y e := by
  obtain ⟨m1, m2⟩ := mem_lines_coords he
  apply hitXs_eq_crossXs e x1 x2 y (hy _ m1) (hy _ m2)
  · intro h; exact xAt_bounds h (hxb _ m1) (hxb _ m2)
  · exact hitXs_nodup_of_lt e x1 x2 y (hy _ m1) (hy _ m2) hlt

theorem ring_hits_eq (poly : Poly) (x1 x2 y : Rat)
    (hy : ∀ v ∈ poly.coords, v.y ≠ y) (hxb : ∀ v ∈ poly.coords, x1 ≤ v.x ∧ v.x ≤ x2) (hlt : x1 < x2)
    {r : List Pt} (hr : r ∈ poly.rings) :
    (windows2 r).flatMap (hitXs ⟨x1, y⟩ ⟨x2, y⟩) = (segs r).flatMap (crossXs y) := by
  rw [windows2_eq_segs]
  apply List.flatMap_congr
  intro e he
  apply hit_edge_of_lt poly x1 x2 y hy hxb hlt
  rw [lines_eq, List.mem_flatMap]; exact ⟨r, hr, he⟩

/-- the whole hit list is duplicate-free when every ring is simple, no hole crossing is a shell
crossing and the crossings of different holes are disjoint -/
theorem hits_nodup_of_rings (poly : Poly) (x1 x2 y : Rat)
    (hy : ∀ v ∈ poly.coords, v.y ≠ y) (hxb : ∀ v ∈ poly.coords, x1 ≤ v.x ∧ v.x ≤ x2) (hlt : x1 < x2)
    (hsimple : ∀ r ∈ poly.rings, ringSimple r = true)
    (hce : ∀ hole ∈ poly.ints, ∀ t ∈ (windows2 hole).flatMap (hitXs ⟨x1, y⟩ ⟨x2, y⟩),
      t ∉ (windows2 poly.ext).flatMap (hitXs ⟨x1, y⟩ ⟨x2, y⟩))
    (hch : poly.ints.Pairwise (fun h1 h2 => ∀ t ∈ (windows2 h1).flatMap (hitXs ⟨x1, y⟩ ⟨x2, y⟩),
      t ∉ (windows2 h2).flatMap (hitXs ⟨x1, y⟩ ⟨x2, y⟩))) :
    (poly.lines.flatMap (hitXs ⟨x1, y⟩ ⟨x2, y⟩)).Nodup := by
  have hcongr : poly.lines.flatMap (hitXs ⟨x1, y⟩ ⟨x2, y⟩) = poly.lines.flatMap (crossXs y) :=
    List.flatMap_congr (fun e he => hit_edge_of_lt poly x1 x2 y hy hxb hlt he)
  have hext_r : poly.ext ∈ poly.rings := by simp [Poly.rings]
  have hhole_r : ∀ hole ∈ poly.ints, hole ∈ poly.rings := fun hole hh => by simp [Poly.rings, hh]
  rw [hcongr, lines_eq]
  simp only [Poly.rings, List.flatMap_cons, List.flatMap_append]
  rw [List.nodup_append]
  refine ⟨?_, ?_, ?_⟩
  · exact crossings_nodup_of_simple (hsimple _ hext_r) y
      (fun v hv => hy v (mem_rings_coords hext_r hv))
  · rw [List.flatMap_assoc, List.nodup_flatMap]
    refine ⟨fun hole hh => crossings_nodup_of_simple (hsimple _ (hhole_r hole hh)) y
      (fun v hv => hy v (mem_rings_coords (hhole_r hole hh) hv)), ?_⟩
    -- pairwise disjoint
    have : ∀ h1 ∈ poly.ints, ∀ h2 ∈ poly.ints,
        (∀ t ∈ (windows2 h1).flatMap (hitXs ⟨x1, y⟩ ⟨x2, y⟩),
          t ∉ (windows2 h2).flatMap (hitXs ⟨x1, y⟩ ⟨x2, y⟩)) →
        Function.onFun List.Disjoint (fun h => (segs h).flatMap (crossXs y)) h1 h2 := by
      intro h1 m1 h2 m2 hd t ht1 ht2
      simp only at ht1 ht2
      rw [← ring_hits_eq poly x1 x2 y hy hxb hlt (hhole_r h1 m1)] at ht1
      rw [← ring_hits_eq poly x1 x2 y hy hxb hlt (hhole_r h2 m2)] at ht2
      exact hd t ht1 ht2
    exact List.Pairwise.imp_of_mem (fun {a b} ma mb hab => this a ma b mb hab) hch
  · intro a ha b hb hab
    rw [List.flatMap_assoc, List.mem_flatMap] at hb
    obtain ⟨hole, hh, hb⟩ := hb
    rw [← ring_hits_eq poly x1 x2 y hy hxb hlt (hhole_r hole hh)] at hb
    rw [← ring_hits_eq poly x1 x2 y hy hxb hlt hext_r] at ha
    exact hce hole hh b hb (hab ▸ ha)

end Geo.Proofs.C12
