/-
  C16Q — part 5: the Haversine distance of the rational engine against the real-number formula.

  `c = 2·asin √h = arccos (1 − 2h)`: every step up to `h` is Lipschitz (errors add), and the single
  inversion at the end is done a posteriori on the cosine (`arccos_post`), so no case split between
  "near coincident" (√ not Lipschitz) and "near antipodal" (asin not Lipschitz) is needed.
-/
import GeoProofs.Lemmas.C16QAsin

namespace Geo.Proofs.C16Q
open Geo Geo.Geodesy Geo.GeodesyNum

/-! ### perturbation of products -/

theorem mul_pert {x y x' y' e1 e2 : ℝ} (hx : |x| ≤ 1) (hy : |y| ≤ 1) (hx' : |x' - x| ≤ e1)
    (hy' : |y' - y| ≤ e2) : |x' * y' - x * y| ≤ e1 + e2 + e1 * e2 := by
  have e : x' * y' - x * y = (x' - x) * y + x * (y' - y) + (x' - x) * (y' - y) := by ring
  rw [e]
  have he1 : 0 ≤ e1 := le_trans (abs_nonneg _) hx'
  have he2 : 0 ≤ e2 := le_trans (abs_nonneg _) hy'
  have t1 : |(x' - x) * y| ≤ e1 := by
    rw [abs_mul]; calc |x' - x| * |y| ≤ e1 * 1 := mul_le_mul hx' hy (abs_nonneg _) he1
      _ = e1 := mul_one _
  have t2 : |x * (y' - y)| ≤ e2 := by
    rw [abs_mul]; calc |x| * |y' - y| ≤ 1 * e2 := mul_le_mul hx hy' (abs_nonneg _) (by norm_num)
      _ = e2 := one_mul _
  have t3 : |(x' - x) * (y' - y)| ≤ e1 * e2 := by
    rw [abs_mul]; exact mul_le_mul hx' hy' (abs_nonneg _) he1
  calc |(x' - x) * y + x * (y' - y) + (x' - x) * (y' - y)|
      ≤ |(x' - x) * y + x * (y' - y)| + |(x' - x) * (y' - y)| := abs_add_le _ _
    _ ≤ |(x' - x) * y| + |x * (y' - y)| + |(x' - x) * (y' - y)| := by linarith [abs_add_le ((x' - x) * y) (x * (y' - y))]
    _ ≤ _ := by linarith

theorem abs_mul_le_one {x y : ℝ} (hx : |x| ≤ 1) (hy : |y| ≤ 1) : |x * y| ≤ 1 := by
  rw [abs_mul]; calc |x| * |y| ≤ 1 * 1 := mul_le_mul hx hy (abs_nonneg _) (by norm_num)
    _ = 1 := one_mul _

/-- the error of `sq s + c1 * c2 * sq s'` from errors `e ≤ 2^-90` of the four factors -/
theorem h_pert {s1 s2 c1 c2 s1' s2' c1' c2' : ℝ}
    (hs1 : |s1| ≤ 1) (hs2 : |s2| ≤ 1) (hc1 : |c1| ≤ 1) (hc2 : |c2| ≤ 1)
    (e1 : |s1' - s1| ≤ 1 / 2 ^ 90) (e2 : |s2' - s2| ≤ 1 / 2 ^ 90)
    (e3 : |c1' - c1| ≤ 1 / 2 ^ 90) (e4 : |c2' - c2| ≤ 1 / 2 ^ 90) :
    |(s1' * s1' + c1' * c2' * (s2' * s2')) - (s1 * s1 + c1 * c2 * (s2 * s2))| ≤ 1 / 2 ^ 87 := by
  have p1 := mul_pert hs1 hs1 e1 e1
  have p2 := mul_pert hc1 hc2 e3 e4
  have p3 := mul_pert hs2 hs2 e2 e2
  have b : (1 : ℝ) / 2 ^ 90 + 1 / 2 ^ 90 + 1 / 2 ^ 90 * (1 / 2 ^ 90) ≤ (21 / 10) / 2 ^ 90 := by norm_num
  have p4 := mul_pert (abs_mul_le_one hc1 hc2) (abs_mul_le_one hs2 hs2) (le_trans p2 b) (le_trans p3 b)
  have b2 : (21 / 10 : ℝ) / 2 ^ 90 + (21 / 10) / 2 ^ 90 + (21 / 10) / 2 ^ 90 * ((21 / 10) / 2 ^ 90) ≤ (43 / 10) / 2 ^ 90 := by
    norm_num
  have e : (s1' * s1' + c1' * c2' * (s2' * s2')) - (s1 * s1 + c1 * c2 * (s2 * s2)) =
      (s1' * s1' - s1 * s1) + (c1' * c2' * (s2' * s2') - c1 * c2 * (s2 * s2)) := by ring
  rw [e]
  refine le_trans (abs_add_le _ _) ?_
  have : (21 / 10 : ℝ) / 2 ^ 90 + (43 / 10) / 2 ^ 90 ≤ 1 / 2 ^ 87 := by norm_num
  linarith

/-! ### degrees to radians -/

/-- `toRad` of the engine against `d·π/180`, for `|d| ≤ 1000` degrees -/
theorem toRad_close (d : ℚ) (hd : |d| ≤ 1000) :
    |((rd (d * piQ / 180) : ℚ) : ℝ) - (d : ℝ) * (Real.pi / 180)| ≤ 1 / 2 ^ 99 := by
  have h1 := cast_abs_le (abs_rd_sub (d * piQ / 180))
  rw [u_cast] at h1
  have h2 := abs_pi_sub_piQ
  have hdR := cast_abs_le hd
  push_cast at hdR h1
  have e : ((rd (d * piQ / 180) : ℚ) : ℝ) - (d : ℝ) * (Real.pi / 180) =
      (((rd (d * piQ / 180) : ℚ) : ℝ) - (d : ℝ) * (piQ : ℝ) / 180) + -((d : ℝ) / 180 * (Real.pi - (piQ : ℝ))) := by ring
  rw [e]
  refine le_trans (abs_add_le _ _) ?_
  have h3 : |(d : ℝ) / 180 * (Real.pi - (piQ : ℝ))| ≤ 1000 / 180 * (2 / 10 ^ 40) := by
    rw [abs_mul]
    apply mul_le_mul _ h2 (abs_nonneg _) (by norm_num)
    rw [abs_div, abs_of_pos (by norm_num : (0 : ℝ) < 180)]
    exact div_le_div_of_nonneg_right hdR (by norm_num)
  rw [abs_neg]
  have : (1 : ℝ) / 2 ^ 100 + 1000 / 180 * (2 / 10 ^ 40) ≤ 1 / 2 ^ 99 := by norm_num
  linarith

theorem toRad_abs (d : ℚ) (hd : |d| ≤ 1000) : |rd (d * piQ / 180)| ≤ 20 := by
  have a := rd_le (d * piQ / 180)
  have b := lt_rd_add (d * piQ / 180)
  have hu : u < 1 / 1000 := by unfold u; norm_num
  have hp := piQ_bounds
  rw [abs_le] at hd ⊢
  constructor <;> nlinarith [hd.1, hd.2]

/-- the engine's cosine of a latitude-like angle -/
theorem cos_deg_close (d : ℚ) (hd : |d| ≤ 1000) :
    |((cosQ (rd (d * piQ / 180)) : ℚ) : ℝ) - Real.cos ((d : ℝ) * (Real.pi / 180))| ≤ 1 / 2 ^ 90 := by
  have h1 := ratCos_close_1000 (rd (d * piQ / 180)) (le_trans (toRad_abs d hd) (by norm_num))
  have h2 := Real.abs_cos_sub_cos_le ((rd (d * piQ / 180) : ℚ) : ℝ) ((d : ℝ) * (Real.pi / 180))
  have h3 := toRad_close d hd
  have e : ((cosQ (rd (d * piQ / 180)) : ℚ) : ℝ) - Real.cos ((d : ℝ) * (Real.pi / 180)) =
      (((cosQ (rd (d * piQ / 180)) : ℚ) : ℝ) - Real.cos ((rd (d * piQ / 180) : ℚ) : ℝ)) +
      (Real.cos ((rd (d * piQ / 180) : ℚ) : ℝ) - Real.cos ((d : ℝ) * (Real.pi / 180))) := by ring
  rw [e]
  refine le_trans (abs_add_le _ _) ?_
  have : (1 : ℝ) / 2 ^ 91 + 1 / 2 ^ 99 ≤ 1 / 2 ^ 90 := by norm_num
  linarith

/-- the engine's sine of half a difference angle -/
theorem sin_half_deg_close (d : ℚ) (hd : |d| ≤ 1000) :
    |((sinQ (rd (d * piQ / 180) / (1 + 1)) : ℚ) : ℝ) - Real.sin ((d : ℝ) * (Real.pi / 180) / (1 + 1))| ≤ 1 / 2 ^ 90 := by
  have hq : |rd (d * piQ / 180) / (1 + 1)| ≤ 1000 := by
    have := toRad_abs d hd
    rw [abs_le] at this ⊢
    constructor <;> linarith [this.1, this.2]
  have h1 := ratSin_close_1000 (rd (d * piQ / 180) / (1 + 1)) hq
  have h2 := Real.abs_sin_sub_sin_le ((rd (d * piQ / 180) / (1 + 1) : ℚ) : ℝ) ((d : ℝ) * (Real.pi / 180) / (1 + 1))
  have h3 := toRad_close d hd
  have h4 : |((rd (d * piQ / 180) / (1 + 1) : ℚ) : ℝ) - (d : ℝ) * (Real.pi / 180) / (1 + 1)| ≤ 1 / 2 ^ 99 := by
    have e : ((rd (d * piQ / 180) / (1 + 1) : ℚ) : ℝ) - (d : ℝ) * (Real.pi / 180) / (1 + 1) =
        (((rd (d * piQ / 180) : ℚ) : ℝ) - (d : ℝ) * (Real.pi / 180)) / 2 := by push_cast; ring
    rw [e, abs_div, abs_of_pos (by norm_num : (0 : ℝ) < 2)]
    have := abs_nonneg (((rd (d * piQ / 180) : ℚ) : ℝ) - (d : ℝ) * (Real.pi / 180))
    linarith
  have e : ((sinQ (rd (d * piQ / 180) / (1 + 1)) : ℚ) : ℝ) - Real.sin ((d : ℝ) * (Real.pi / 180) / (1 + 1)) =
      (((sinQ (rd (d * piQ / 180) / (1 + 1)) : ℚ) : ℝ) - Real.sin ((rd (d * piQ / 180) / (1 + 1) : ℚ) : ℝ)) +
      (Real.sin ((rd (d * piQ / 180) / (1 + 1) : ℚ) : ℝ) - Real.sin ((d : ℝ) * (Real.pi / 180) / (1 + 1))) := by ring
  rw [e]
  refine le_trans (abs_add_le _ _) ?_
  have : (1 : ℝ) / 2 ^ 91 + 1 / 2 ^ 99 ≤ 1 / 2 ^ 90 := by norm_num
  linarith

/-! ### `h` -/

/-- the real-number `h` (what `havH (realTrig _)` unfolds to) -/
noncomputable def hReal (a b : P2 ℝ) : ℝ :=
  Real.sin ((b.2 - a.2) * (Real.pi / 180) / (1 + 1)) * Real.sin ((b.2 - a.2) * (Real.pi / 180) / (1 + 1)) +
    Real.cos (a.2 * (Real.pi / 180)) * Real.cos (b.2 * (Real.pi / 180)) *
      (Real.sin ((b.1 - a.1) * (Real.pi / 180) / (1 + 1)) * Real.sin ((b.1 - a.1) * (Real.pi / 180) / (1 + 1)))

theorem havH_rat_eq (a b : P2 ℚ) : havH ratTrig a b =
    sinQ (rd ((b.2 - a.2) * piQ / 180) / (1 + 1)) * sinQ (rd ((b.2 - a.2) * piQ / 180) / (1 + 1)) +
      cosQ (rd (a.2 * piQ / 180)) * cosQ (rd (b.2 * piQ / 180)) *
        (sinQ (rd ((b.1 - a.1) * piQ / 180) / (1 + 1)) * sinQ (rd ((b.1 - a.1) * piQ / 180) / (1 + 1))) := rfl

/-- the point with real coordinates -/
def castP (a : P2 ℚ) : P2 ℝ := ((a.1 : ℝ), (a.2 : ℝ))

/-- [T] the engine's `h` is within 2^-87 of the real `h` -/
theorem h_close (a b : P2 ℚ) (ha : |a.2| ≤ 90) (hb : |b.2| ≤ 90) (hl : |b.1 - a.1| ≤ 1000) :
    |((havH ratTrig a b : ℚ) : ℝ) - hReal (castP a) (castP b)| ≤ 1 / 2 ^ 87 := by
  have hdl : |b.2 - a.2| ≤ 1000 := by
    rw [abs_le] at ha hb ⊢; constructor <;> linarith [ha.1, ha.2, hb.1, hb.2]
  have k1 := sin_half_deg_close (b.2 - a.2) hdl
  have k2 := sin_half_deg_close (b.1 - a.1) hl
  have k3 := cos_deg_close a.2 (le_trans ha (by norm_num))
  have k4 := cos_deg_close b.2 (le_trans hb (by norm_num))
  rw [havH_rat_eq]
  unfold hReal castP
  push_cast at k1 k2 ⊢
  exact h_pert (Real.abs_sin_le_one _) (Real.abs_sin_le_one _) (Real.abs_cos_le_one _) (Real.abs_cos_le_one _)
    k1 k2 k3 k4

/-- `0 ≤ h ≤ 1` for latitudes in `[-π/2, π/2]` -/
theorem h_range (p1 p2 l : ℝ) (h1 : |p1| ≤ Real.pi / 2) (h2 : |p2| ≤ Real.pi / 2) :
    0 ≤ Real.sin ((p2 - p1) / 2) * Real.sin ((p2 - p1) / 2) + Real.cos p1 * Real.cos p2 * (Real.sin l * Real.sin l) ∧
    Real.sin ((p2 - p1) / 2) * Real.sin ((p2 - p1) / 2) + Real.cos p1 * Real.cos p2 * (Real.sin l * Real.sin l) ≤ 1 := by
  rw [abs_le] at h1 h2
  have c1 : 0 ≤ Real.cos p1 := Real.cos_nonneg_of_neg_pi_div_two_le_of_le (by linarith [h1.1]) h1.2
  have c2 : 0 ≤ Real.cos p2 := Real.cos_nonneg_of_neg_pi_div_two_le_of_le (by linarith [h2.1]) h2.2
  have cc : 0 ≤ Real.cos p1 * Real.cos p2 := mul_nonneg c1 c2
  have sl : Real.sin l * Real.sin l ≤ 1 := by nlinarith [Real.sin_sq_add_cos_sq l, sq_nonneg (Real.cos l)]
  have sl0 : 0 ≤ Real.sin l * Real.sin l := mul_self_nonneg _
  have hh : Real.cos (p2 - p1) = 1 - 2 * Real.sin ((p2 - p1) / 2) ^ 2 := by
    rw [← Real.cos_two_mul_eq_one_sub]; congr 1; ring
  rw [Real.cos_sub] at hh
  have ha := Real.cos_add p1 p2
  have hle := Real.cos_le_one (p1 + p2)
  constructor
  · have := mul_self_nonneg (Real.sin ((p2 - p1) / 2))
    have := mul_nonneg cc sl0
    linarith
  · have : Real.cos p1 * Real.cos p2 * (Real.sin l * Real.sin l) ≤ Real.cos p1 * Real.cos p2 := by
      nlinarith
    nlinarith

theorem hReal_range (a b : P2 ℚ) (ha : |a.2| ≤ 90) (hb : |b.2| ≤ 90) :
    0 ≤ hReal (castP a) (castP b) ∧ hReal (castP a) (castP b) ≤ 1 := by
  have hpi := Real.pi_pos
  have conv : ∀ d : ℚ, |d| ≤ 90 → |(d : ℝ) * (Real.pi / 180)| ≤ Real.pi / 2 := by
    intro d hd
    have := cast_abs_le hd
    push_cast at this
    rw [abs_mul, abs_of_pos (by positivity : (0 : ℝ) < Real.pi / 180)]
    nlinarith
  have := h_range ((a.2 : ℝ) * (Real.pi / 180)) ((b.2 : ℝ) * (Real.pi / 180))
    (((b.1 : ℝ) - (a.1 : ℝ)) * (Real.pi / 180) / (1 + 1)) (conv _ ha) (conv _ hb)
  unfold hReal castP
  have e : ((b.2 : ℝ) - (a.2 : ℝ)) * (Real.pi / 180) / (1 + 1) =
      ((b.2 : ℝ) * (Real.pi / 180) - (a.2 : ℝ) * (Real.pi / 180)) / 2 := by ring
  simp only [e]
  exact this

/-! ### the central angle -/

theorem two_arcsin_sqrt (h : ℝ) (h0 : 0 ≤ h) (h1 : h ≤ 1) :
    (1 + 1) * Real.arcsin (Real.sqrt h) = Real.arccos (1 - 2 * h) := by
  have hs0 := Real.sqrt_nonneg h
  have hs1 : Real.sqrt h ≤ 1 := by
    rw [Real.sqrt_le_iff]; constructor <;> [norm_num; linarith]
  have t0 : 0 ≤ Real.arcsin (Real.sqrt h) := Real.arcsin_nonneg.mpr hs0
  have t1 := Real.arcsin_le_pi_div_two (Real.sqrt h)
  have hc : Real.cos (2 * Real.arcsin (Real.sqrt h)) = 1 - 2 * h := by
    rw [Real.cos_two_mul_eq_one_sub, Real.sin_arcsin (by linarith) hs1, Real.sq_sqrt h0]
  rw [← hc, Real.arccos_cos (by linarith) (by linarith)]
  ring

theorem final_bound : 2 * (1 / 2 ^ 43 : ℝ) + Real.pi * Real.sqrt ((3 / 2 ^ 87) / 2) ≤ 1 / 2 ^ 40 := by
  have h1 : Real.sqrt ((3 / 2 ^ 87 : ℝ) / 2) ≤ 7 / 2 ^ 46 := by
    apply Real.sqrt_le_iff.mpr
    constructor <;> norm_num
  have h2 : Real.pi ≤ 3.15 := by linarith [pi_lt_piQ_add, (show ((piQ : ℚ) : ℝ) < ((3142 / 1000 : ℚ) : ℝ) from
    Rat.cast_lt.mpr piQ_bounds.2), (show ((3142 / 1000 : ℚ) : ℝ) + 2 / 10 ^ 40 ≤ 3.15 by norm_num)]
  have := Real.pi_pos
  calc 2 * (1 / 2 ^ 43 : ℝ) + Real.pi * Real.sqrt ((3 / 2 ^ 87) / 2)
      ≤ 2 * (1 / 2 ^ 43 : ℝ) + 3.15 * (7 / 2 ^ 46) := by
        have := mul_le_mul h2 h1 (Real.sqrt_nonneg _) (by norm_num : (0 : ℝ) ≤ 3.15)
        linarith
    _ ≤ 1 / 2 ^ 40 := by norm_num

/-- the engine's doubled arcsine `2a` (given the certificate): within 2^-43 of `[0, π]`, and its cosine
within 3·2^-87 of `1 − 2h` — every step up to here is Lipschitz -/
theorem central_cos (a b : P2 ℚ) (ha : |a.2| ≤ 90) (hb : |b.2| ≤ 90) (hl : |b.1 - a.1| ≤ 1000)
    (hc : havCert a b = true) :
    -(1 / 2 ^ 43 : ℝ) ≤ 2 * ((asinQ (sqrtQ (havH ratTrig a b)) : ℚ) : ℝ) ∧
    2 * ((asinQ (sqrtQ (havH ratTrig a b)) : ℚ) : ℝ) ≤ Real.pi + 1 / 2 ^ 43 ∧
    |Real.cos (2 * ((asinQ (sqrtQ (havH ratTrig a b)) : ℚ) : ℝ)) - (1 - 2 * hReal (castP a) (castP b))|
      ≤ 3 / 2 ^ 87 := by
  set hq : ℚ := havH ratTrig a b with hqdef
  set h : ℝ := hReal (castP a) (castP b) with hdef
  obtain ⟨h0, h1⟩ := hReal_range a b ha hb
  rw [← hdef] at h0 h1
  have hΔ : |(hq : ℝ) - h| ≤ 1 / 2 ^ 87 := h_close a b ha hb hl
  set s : ℚ := sqrtQ hq with hsdef
  have hcert : asinCert s = true := hc
  -- range and residual of the certified arcsine
  obtain ⟨c1, _, _⟩ := asinCert_spec s hcert
  obtain ⟨_, r2, r3⟩ := asinCert_real s hcert
  have hs0 : 0 ≤ s := by
    rw [hsdef]
    by_cases hpos : 0 ≤ hq
    · exact (ratSqrt_close hq hpos).1
    · rw [sqrtQ_nonpos hq (not_le.mp hpos).le]
  rw [if_pos hs0] at c1
  have c1R : -(1 / 2 ^ 44 : ℝ) ≤ ((asinQ s : ℚ) : ℝ) := by
    have := (Rat.cast_le (K := ℝ)).mpr c1; push_cast at this; exact this
  -- s² against h
  have hs2 : |((s : ℝ)) ^ 2 - h| ≤ 1 / 2 ^ 87 + 5 / 2 ^ 100 ∧ (s : ℝ) ≤ 2 := by
    by_cases hpos : 0 ≤ hq
    · obtain ⟨q0, q1, q2⟩ := ratSqrt_close hq hpos
      rw [← hsdef] at q0 q1 q2
      have q1R : (s : ℝ) ^ 2 ≤ (hq : ℝ) := by exact_mod_cast q1
      have q2R : (hq : ℝ) < ((s : ℝ) + 1 / 2 ^ 100) ^ 2 := by
        have := (Rat.cast_lt (K := ℝ)).mpr q2
        rw [← u_cast]; push_cast at this ⊢; exact this
      have s0R : (0 : ℝ) ≤ (s : ℝ) := by exact_mod_cast q0
      rw [abs_le] at hΔ
      have sle : (s : ℝ) ≤ 2 := by nlinarith [hΔ.2]
      refine ⟨?_, sle⟩
      rw [abs_le]; constructor <;> nlinarith [hΔ.1, hΔ.2]
    · have hz : s = 0 := by rw [hsdef, sqrtQ_nonpos hq (not_le.mp hpos).le]
      have hneg : (hq : ℝ) < 0 := by exact_mod_cast not_le.mp hpos
      rw [hz]
      rw [abs_le] at hΔ
      refine ⟨?_, by norm_num⟩
      rw [abs_le]; constructor <;> norm_num <;> linarith [hΔ.1, hΔ.2]
  obtain ⟨hs2a, hs2b⟩ := hs2
  have hs0R : (0 : ℝ) ≤ (s : ℝ) := by exact_mod_cast hs0
  -- sin² of the result against h
  set A : ℝ := ((asinQ s : ℚ) : ℝ) with hA
  have hσ : |Real.sin A ^ 2 - (s : ℝ) ^ 2| ≤ 3 * (1 / 2 ^ 90 + 1 / 2 ^ 92) := by
    have e : Real.sin A ^ 2 - (s : ℝ) ^ 2 = (Real.sin A - (s : ℝ)) * (Real.sin A + (s : ℝ)) := by ring
    rw [e, abs_mul]
    have b1 : |Real.sin A + (s : ℝ)| ≤ 3 := by
      have := Real.abs_sin_le_one A
      rw [abs_le] at this ⊢
      constructor <;> linarith [this.1, this.2]
    calc |Real.sin A - (s : ℝ)| * |Real.sin A + (s : ℝ)| ≤ (1 / 2 ^ 90 + 1 / 2 ^ 92) * 3 :=
          mul_le_mul r3 b1 (abs_nonneg _) (by positivity)
      _ = _ := by ring
  have hcos : |Real.cos (2 * A) - (1 - 2 * h)| ≤ 3 / 2 ^ 87 := by
    rw [Real.cos_two_mul_eq_one_sub]
    have e : 1 - 2 * Real.sin A ^ 2 - (1 - 2 * h) = -2 * ((Real.sin A ^ 2 - (s : ℝ) ^ 2) + ((s : ℝ) ^ 2 - h)) := by ring
    rw [e, abs_mul]
    have := abs_add_le (Real.sin A ^ 2 - (s : ℝ) ^ 2) ((s : ℝ) ^ 2 - h)
    have e2 : |(-2 : ℝ)| = 2 := by norm_num
    rw [e2]
    have : (2 : ℝ) * (3 * (1 / 2 ^ 90 + 1 / 2 ^ 92) + (1 / 2 ^ 87 + 5 / 2 ^ 100)) ≤ 3 / 2 ^ 87 := by norm_num
    linarith
  have e43 : (1 : ℝ) / 2 ^ 43 = 2 * (1 / 2 ^ 44) := by norm_num
  exact ⟨by linarith, by linarith, hcos⟩

/-- [T] the central angle of the engine, GIVEN the arcsine certificate, is within 2^-40 rad of
`2·arcsin √h` over the reals. -/
theorem central_angle_close (a b : P2 ℚ) (ha : |a.2| ≤ 90) (hb : |b.2| ≤ 90) (hl : |b.1 - a.1| ≤ 1000)
    (hc : havCert a b = true) :
    |(((1 + 1) * asinQ (sqrtQ (havH ratTrig a b)) : ℚ) : ℝ) -
      (1 + 1) * Real.arcsin (Real.sqrt (hReal (castP a) (castP b)))| ≤ 1 / 2 ^ 40 := by
  obtain ⟨h0, h1⟩ := hReal_range a b ha hb
  obtain ⟨r1, r2, hcos⟩ := central_cos a b ha hb hl hc
  have hpost := arccos_post _ _ (1 / 2 ^ 43) (3 / 2 ^ 87) (by positivity) r1 r2
    (by linarith) (by linarith) hcos
  rw [← two_arcsin_sqrt _ h0 h1] at hpost
  have e : (((1 + 1) * asinQ (sqrtQ (havH ratTrig a b)) : ℚ) : ℝ) =
      2 * ((asinQ (sqrtQ (havH ratTrig a b)) : ℚ) : ℝ) := by push_cast; ring
  rw [e]
  exact le_trans hpost final_bound

/-! ### general position: neither nearly coincident nor nearly antipodal -/

/-- inverting the cosine away from its flat ends: Lipschitz with constant `π²/(4δ)` -/
theorem cos_inv_interior (A C δ η : ℝ) (hδ : 0 < δ) (hA1 : δ ≤ A) (hA2 : A ≤ Real.pi - δ)
    (hC1 : δ ≤ C) (hC2 : C ≤ Real.pi - δ) (h : |Real.cos A - Real.cos C| ≤ η) :
    |A - C| ≤ Real.pi ^ 2 / (4 * δ) * η := by
  have hpi := Real.pi_pos
  have hδ2 : δ ≤ Real.pi / 2 := by linarith
  -- ordered version
  have core : ∀ X Y : ℝ, δ ≤ X → X ≤ Y → Y ≤ Real.pi - δ → Real.cos X - Real.cos Y ≤ η →
      Y - X ≤ Real.pi ^ 2 / (4 * δ) * η := by
    intro X Y hX hXY hY hc
    have e : Real.cos X - Real.cos Y = 2 * Real.sin ((X + Y) / 2) * Real.sin ((Y - X) / 2) := by
      rw [Real.cos_sub_cos]
      have : (X - Y) / 2 = -((Y - X) / 2) := by ring
      rw [this, Real.sin_neg]; ring
    have s1 : Real.sin δ ≤ Real.sin ((X + Y) / 2) := sin_ge_on hδ.le (by linarith) (by linarith)
    have j1 := Real.mul_le_sin hδ.le hδ2
    have j2 := Real.mul_le_sin (x := (Y - X) / 2) (by linarith) (by linarith)
    have hD : 0 ≤ (Y - X) / 2 := by linarith
    have p1 : 0 ≤ 2 / Real.pi * δ := by positivity
    have p2 : 0 ≤ 2 / Real.pi * ((Y - X) / 2) := by positivity
    have hprod : (2 / Real.pi * δ) * (2 / Real.pi * ((Y - X) / 2)) ≤
        Real.sin ((X + Y) / 2) * Real.sin ((Y - X) / 2) :=
      mul_le_mul (le_trans j1 s1) j2 p2 (le_trans p1 (le_trans j1 s1))
    have hη : 2 * ((2 / Real.pi * δ) * (2 / Real.pi * ((Y - X) / 2))) ≤ η := by
      rw [e] at hc; nlinarith
    have e2 : 2 * ((2 / Real.pi * δ) * (2 / Real.pi * ((Y - X) / 2))) = (4 * δ / Real.pi ^ 2) * (Y - X) := by
      field_simp; ring
    rw [e2] at hη
    have hpos : 0 < 4 * δ / Real.pi ^ 2 := by positivity
    have : Y - X ≤ η / (4 * δ / Real.pi ^ 2) := by
      rw [le_div_iff₀ hpos]; linarith
    have e3 : η / (4 * δ / Real.pi ^ 2) = Real.pi ^ 2 / (4 * δ) * η := by field_simp
    rw [e3] at this; exact this
  rw [abs_le] at h
  rcases le_total A C with hAC | hCA
  · have := core A C hA1 hAC hC2 h.2
    have hη0 : 0 ≤ Real.pi ^ 2 / (4 * δ) * η := le_trans (by linarith) this
    rw [abs_le]; constructor <;> linarith
  · have := core C A hC1 hCA hA2 (by linarith [h.1])
    have hη0 : 0 ≤ Real.pi ^ 2 / (4 * δ) * η := le_trans (by linarith) this
    rw [abs_le]; constructor <;> linarith

/-- `arccos x ∈ [δ, π − δ]` when `|x| ≤ 1 − δ²/2` -/
theorem arccos_interior (x δ : ℝ) (hδ0 : 0 ≤ δ) (hδ : δ ≤ Real.pi)
    (h1 : x ≤ 1 - δ ^ 2 / 2) (h2 : -(1 - δ ^ 2 / 2) ≤ x) :
    δ ≤ Real.arccos x ∧ Real.arccos x ≤ Real.pi - δ := by
  have hc := Real.one_sub_sq_div_two_le_cos (x := δ)
  constructor
  · have := Real.arccos_le_arccos (le_trans h1 hc)
    rwa [Real.arccos_cos hδ0 hδ] at this
  · have hx : Real.cos (Real.pi - δ) ≤ x := by rw [Real.cos_pi_sub]; linarith
    have := Real.arccos_le_arccos hx
    rwa [Real.arccos_cos (by linarith) (by linarith)] at this

/-- [T] the central angle in general position: if the engine's `h` is at least `δ²/4 + 2^-87` away from
0 and 1 and its arcsine at least `δ/2` away from 0 and `piQ/2` (all four are rational comparisons on
model values), the error is at most `2^-84/δ`. -/
theorem central_angle_close_interior (δ : ℚ) (hδ0 : 0 < δ) (hδ1 : δ ≤ 1) (a b : P2 ℚ)
    (ha : |a.2| ≤ 90) (hb : |b.2| ≤ 90) (hl : |b.1 - a.1| ≤ 1000) (hc : havCert a b = true)
    (hh1 : δ ^ 2 / 4 + 1 / 2 ^ 87 ≤ havH ratTrig a b) (hh2 : havH ratTrig a b ≤ 1 - δ ^ 2 / 4 - 1 / 2 ^ 87)
    (ha1 : δ / 2 ≤ asinQ (sqrtQ (havH ratTrig a b))) (ha2 : asinQ (sqrtQ (havH ratTrig a b)) ≤ piQ / 2 - δ / 2) :
    |(((1 + 1) * asinQ (sqrtQ (havH ratTrig a b)) : ℚ) : ℝ) -
      (1 + 1) * Real.arcsin (Real.sqrt (hReal (castP a) (castP b)))| ≤ 1 / ((δ : ℝ) * 2 ^ 84) := by
  obtain ⟨h0, h1⟩ := hReal_range a b ha hb
  obtain ⟨_, _, hcos⟩ := central_cos a b ha hb hl hc
  have hΔ := h_close a b ha hb hl
  set h : ℝ := hReal (castP a) (castP b) with hdef
  set A : ℝ := ((asinQ (sqrtQ (havH ratTrig a b)) : ℚ) : ℝ) with hA
  have hδR : (0 : ℝ) < (δ : ℝ) := by exact_mod_cast hδ0
  have hδ1R : (δ : ℝ) ≤ 1 := by exact_mod_cast hδ1
  have hpi3 : (3 : ℝ) < Real.pi := by
    have : ((3 : ℚ) : ℝ) < ((piQ : ℚ) : ℝ) := Rat.cast_lt.mpr piQ_bounds.1
    push_cast at this; linarith [piQ_lt_pi]
  have hh1R : (δ : ℝ) ^ 2 / 4 + 1 / 2 ^ 87 ≤ ((havH ratTrig a b : ℚ) : ℝ) := by
    have := (Rat.cast_le (K := ℝ)).mpr hh1; push_cast at this; exact this
  have hh2R : ((havH ratTrig a b : ℚ) : ℝ) ≤ 1 - (δ : ℝ) ^ 2 / 4 - 1 / 2 ^ 87 := by
    have := (Rat.cast_le (K := ℝ)).mpr hh2; push_cast at this; exact this
  have ha1R : (δ : ℝ) / 2 ≤ A := by
    have := (Rat.cast_le (K := ℝ)).mpr ha1; push_cast at this; exact this
  have ha2R : A ≤ (piQ : ℝ) / 2 - (δ : ℝ) / 2 := by
    have := (Rat.cast_le (K := ℝ)).mpr ha2; push_cast at this; exact this
  rw [abs_le] at hΔ
  have hC := arccos_interior (1 - 2 * h) (δ : ℝ) hδR.le (by linarith) (by linarith [hΔ.1, hΔ.2])
    (by linarith [hΔ.1, hΔ.2])
  have hcos' : |Real.cos (2 * A) - Real.cos (Real.arccos (1 - 2 * h))| ≤ 3 / 2 ^ 87 := by
    rw [Real.cos_arccos (by linarith) (by linarith)]; exact hcos
  have hpost := cos_inv_interior (2 * A) (Real.arccos (1 - 2 * h)) (δ : ℝ) (3 / 2 ^ 87) hδR
    (by linarith) (by linarith [piQ_lt_pi]) hC.1 hC.2 hcos'
  rw [← two_arcsin_sqrt h h0 h1] at hpost
  have e : (((1 + 1) * asinQ (sqrtQ (havH ratTrig a b)) : ℚ) : ℝ) = 2 * A := by push_cast; ring
  rw [e]
  refine le_trans hpost ?_
  have hpi2 : Real.pi ^ 2 ≤ 10 := by
    have : Real.pi ≤ 3.15 := by linarith [pi_lt_piQ_add, (show ((piQ : ℚ) : ℝ) < ((3142 / 1000 : ℚ) : ℝ) from
      Rat.cast_lt.mpr piQ_bounds.2), (show ((3142 / 1000 : ℚ) : ℝ) + 2 / 10 ^ 40 ≤ 3.15 by norm_num)]
    nlinarith [Real.pi_pos]
  rw [div_mul_eq_mul_div, div_le_div_iff₀ (by positivity) (by positivity)]
  have : Real.pi ^ 2 * (3 / 2 ^ 87) * ((δ : ℝ) * 2 ^ 84) ≤ 10 * (3 / 2 ^ 87) * ((δ : ℝ) * 2 ^ 84) := by
    apply mul_le_mul_of_nonneg_right _ (by positivity)
    apply mul_le_mul_of_nonneg_right hpi2 (by positivity)
  have e5 : (10 : ℝ) * (3 / 2 ^ 87) * ((δ : ℝ) * 2 ^ 84) = (30 / 8) * (δ : ℝ) := by ring
  rw [e5] at this
  linarith

end Geo.Proofs.C16Q
