/-
  C06X helper layer 2: first moments.

  * `atomMoment α β γ as = Σ w·(α c.x + β c.y + γ)`: the first moment of a list of weighted centres about the
    line `α x + β y + γ = 0`; `weightedMean_affine`: an affine function of the weighted mean is that moment
    over the total weight.
  * `weightedMean_in_hull_of_moments`: positive total weight, and a non-negative moment about every line that
    has `S` on its non-negative side ⇒ the weighted mean is a convex combination of `S`
    (with `inHull_of_halfPlanes`). Negative weights are allowed: this is the form the centroid of a polygon
    with holes needs.
  * `ringMoment`: the shoelace form `Σ det(p, q)·(f p + f q + f 0)/6` of `∫ f` over a ring;
    `ring_atom_moment`: it is `(signed area)·f(textbook ring centroid)`.
  * `polyAtoms_areal`, `poly_atomMoment`: a polygon with an areal shell and non-zero net area contributes the shell
    and, negatively, its holes with area; its moment is `|∫ f over the shell| − Σ |∫ f over a hole|`.
-/
import GeoProofs.Lemmas.C06XSep
import GeoProofs.Lemmas.C06PPoly

set_option linter.unusedSimpArgs false
set_option linter.unusedVariables false

namespace Geo.Proofs.C06
open Geo Geo.Cen

/-- first moment of weighted centres about the line `α x + β y + γ = 0` -/
def atomMoment (α β γ : Rat) (as : List Atom) : Rat :=
  sumR (as.map (fun a => a.w * (α * a.c.x + β * a.c.y + γ)))

theorem atomMoment_split (α β γ : Rat) (as : List Atom) :
    atomMoment α β γ as =
      α * (sumP (as.map (fun a => Pt.smul a.w a.c))).x + β * (sumP (as.map (fun a => Pt.smul a.w a.c))).y +
        γ * sumR (as.map (·.w)) := by
  induction as with
  | nil => simp [atomMoment, sumP, sumR]
  | cons a t ih =>
    unfold atomMoment at ih ⊢
    simp only [List.map_cons, sumR, sumP, add_x, add_y, smul_x, smul_y, ih]
    ring

theorem weightedMean_affine (α β γ : Rat) (as : List Atom) (hW : sumR (as.map (·.w)) ≠ 0) :
    α * (weightedMean as).x + β * (weightedMean as).y + γ = atomMoment α β γ as / sumR (as.map (·.w)) := by
  rw [atomMoment_split]
  simp only [weightedMean, divS_x, divS_y]
  field_simp

/-- **hull membership from moments**: total weight positive, first moment non-negative about every line
that has `S` on its non-negative side. -/
theorem weightedMean_in_hull_of_moments (S : List Pt) (as : List Atom)
    (hW : 0 < sumR (as.map (·.w)))
    (hM : ∀ α β γ : Rat, (∀ s ∈ S, 0 ≤ α * s.x + β * s.y + γ) → 0 ≤ atomMoment α β γ as) :
    InHull S (weightedMean as) := by
  have hS : S ≠ [] := by
    intro h0
    have := hM 0 0 (-1) (fun s hs => by rw [h0] at hs; cases hs)
    rw [atomMoment_split] at this
    linarith
  apply inHull_of_halfPlanes hS
  intro α β γ hs
  rw [weightedMean_affine α β γ as (ne_of_gt hW)]
  exact div_nonneg (hM α β γ hs) (le_of_lt hW)

/-! ### the shoelace form of the first moment of a ring -/

/-- `∫ f` over the ring, `f = α x + β y + γ`, signed like the area: `Σ det(p, q)·(f p + f q + f 0) / 6` -/
def ringMoment (α β γ : Rat) (r : List Pt) : Rat :=
  sumR ((windows2 r).map (fun l =>
    det l.1 l.2 * ((α * l.1.x + β * l.1.y + γ) + (α * l.2.x + β * l.2.y + γ) + γ))) / 6

theorem ringMoment_split (α β γ : Rat) (L : List (Pt × Pt)) :
    sumR (L.map (fun l => det l.1 l.2 * ((α * l.1.x + β * l.1.y + γ) + (α * l.2.x + β * l.2.y + γ) + γ))) =
      α * (sumP (L.map (fun l => Pt.smul (det l.1 l.2) (l.1 + l.2)))).x +
        β * (sumP (L.map (fun l => Pt.smul (det l.1 l.2) (l.1 + l.2)))).y +
        3 * γ * sumR (L.map (fun l => det l.1 l.2)) := by
  induction L with
  | nil => simp [sumP, sumR]
  | cons a t ih =>
    simp only [List.map_cons, sumR, sumP, add_x, add_y, smul_x, smul_y, ih]
    ring

theorem twiceAreaText_of_ne {r : List Pt} (h : twiceAreaText r ≠ 0) :
    twiceAreaText r = sumR ((windows2 r).map (fun l => det l.1 l.2)) := by
  unfold twiceAreaText at h ⊢
  split
  · rename_i h1; rw [if_pos h1] at h; exact absurd rfl h
  · split
    · rename_i h1 h2; rw [if_neg h1, if_pos h2] at h; exact absurd rfl h
    · rfl

/-- the signed area times `f` at the textbook centroid is the shoelace first moment -/
theorem ring_atom_moment (α β γ : Rat) (r : List Pt) (h : twiceAreaText r ≠ 0) :
    twiceAreaText r / 2 * (α * (ringCentroidText r).x + β * (ringCentroidText r).y + γ) =
      ringMoment α β γ r := by
  unfold ringMoment
  rw [ringMoment_split, ← twiceAreaText_of_ne h]
  simp only [ringCentroidText, divS_x, divS_y]
  field_simp
  ring

/-- `|∫ f|` over the ring: the shoelace moment taken with the sign of the area -/
def absRingMoment (α β γ : Rat) (r : List Pt) : Rat :=
  if twiceAreaText r < 0 then - ringMoment α β γ r else ringMoment α β γ r

theorem abs_ring_atom_moment (α β γ : Rat) (r : List Pt) (h : twiceAreaText r ≠ 0) :
    rabs (twiceAreaText r / 2) * (α * (ringCentroidText r).x + β * (ringCentroidText r).y + γ) =
      absRingMoment α β γ r := by
  unfold absRingMoment rabs
  by_cases hn : twiceAreaText r < 0
  · have : twiceAreaText r / 2 < 0 := by linarith
    rw [if_pos hn, if_pos this, ← ring_atom_moment α β γ r h]; ring
  · have : ¬ twiceAreaText r / 2 < 0 := by
      intro h'; apply hn; linarith
    rw [if_neg hn, if_neg this, ← ring_atom_moment α β γ r h]

/-! ### a polygon with an areal shell and non-zero net area -/

/-- the interiors that count: those with area -/
def arealHoles (p : Poly) : List (List Pt) := p.ints.filter (fun h => twiceAreaText h ≠ 0)

/-- shell area minus hole areas -/
def netArea (p : Poly) : Rat :=
  rabs (twiceAreaText p.ext / 2) - sumR ((arealHoles p).map (fun h => rabs (twiceAreaText h / 2)))

theorem polyAtoms_areal (len : Pt → Pt → Rat) (p : Poly) (hA : twiceAreaText p.ext ≠ 0)
    (hnet : netArea p ≠ 0) :
    polyAtoms len p = ⟨3, rabs (twiceAreaText p.ext / 2), ringCentroidText p.ext⟩ ::
      (arealHoles p).map (fun h => ⟨3, -rabs (twiceAreaText h / 2), ringCentroidText h⟩) := by
  have hne : p.ext.isEmpty = false := by
    cases hp : p.ext with
    | nil => rw [hp] at hA; exact absurd (by simp [twiceAreaText]) hA
    | cons a t => rfl
  unfold polyAtoms
  simp only [hne, Bool.false_eq_true, if_false]
  by_cases hh : (arealHoles p).isEmpty = true
  · have hnil : arealHoles p = [] := by simpa using hh
    unfold arealHoles at hh hnil
    simp only [hh, if_true, hnil, List.map_nil]
    simp [ringAtoms, hA, arealHoles]
    simpa using hnil
  · unfold netArea at hnet
    unfold arealHoles at hh hnet ⊢
    simp only [hh, if_neg hA, if_neg hnet, Bool.false_eq_true, if_false]

theorem poly_weight (len : Pt → Pt → Rat) (p : Poly) (hA : twiceAreaText p.ext ≠ 0) (hnet : netArea p ≠ 0) :
    sumR ((polyAtoms len p).map (·.w)) = netArea p := by
  rw [polyAtoms_areal len p hA hnet]
  simp only [List.map_cons, sumR, List.map_map]
  unfold netArea
  have : sumR ((arealHoles p).map ((fun a : Atom => a.w) ∘
      fun h => (⟨3, -rabs (twiceAreaText h / 2), ringCentroidText h⟩ : Atom))) =
      - sumR ((arealHoles p).map (fun h => rabs (twiceAreaText h / 2))) :=
    sumR_map_neg (fun h => rabs (twiceAreaText h / 2)) (arealHoles p)
  rw [this]; ring

/-- net first moment of the polygon in shoelace form: `|∫ f| over the shell − Σ |∫ f| over the holes` -/
def polyMoment (α β γ : Rat) (p : Poly) : Rat :=
  absRingMoment α β γ p.ext - sumR ((arealHoles p).map (absRingMoment α β γ))

theorem mem_arealHoles {p : Poly} {h : List Pt} (hh : h ∈ arealHoles p) : twiceAreaText h ≠ 0 := by
  unfold arealHoles at hh
  have := (List.mem_filter.1 hh).2
  simpa using this

theorem poly_atomMoment (len : Pt → Pt → Rat) (α β γ : Rat) (p : Poly) (hA : twiceAreaText p.ext ≠ 0)
    (hnet : netArea p ≠ 0) : atomMoment α β γ (polyAtoms len p) = polyMoment α β γ p := by
  rw [polyAtoms_areal len p hA hnet]
  unfold atomMoment polyMoment
  simp only [List.map_cons, sumR, List.map_map]
  rw [abs_ring_atom_moment α β γ p.ext hA]
  have : sumR ((arealHoles p).map ((fun a : Atom => a.w * (α * a.c.x + β * a.c.y + γ)) ∘
      fun h => (⟨3, -rabs (twiceAreaText h / 2), ringCentroidText h⟩ : Atom))) =
      - sumR ((arealHoles p).map (absRingMoment α β γ)) := by
    rw [← sumR_map_neg]
    have hgen : ∀ L : List (List Pt), (∀ h ∈ L, twiceAreaText h ≠ 0) →
        sumR (L.map ((fun a : Atom => a.w * (α * a.c.x + β * a.c.y + γ)) ∘
          fun h => (⟨3, -rabs (twiceAreaText h / 2), ringCentroidText h⟩ : Atom))) =
        sumR (L.map (fun h => - absRingMoment α β γ h)) := by
      intro L
      induction L with
      | nil => intro _; rfl
      | cons h t ih =>
        intro hL
        simp only [List.map_cons, sumR, Function.comp]
        rw [← abs_ring_atom_moment α β γ h (hL h List.mem_cons_self)]
        have := ih (fun h' hh' => hL h' (List.mem_cons_of_mem _ hh'))
        rw [this]; ring
    exact hgen _ (fun h hh => mem_arealHoles hh)
  rw [this]; ring

theorem topAtoms_all3 (as : List Atom) (hne : as ≠ []) (h : ∀ a ∈ as, a.dim = 3) : topAtoms as = as := by
  have hm : maxDim as = 3 := by
    induction as with
    | nil => exact absurd rfl hne
    | cons a t ih =>
      simp only [maxDim]
      rw [h a List.mem_cons_self]
      by_cases ht : t = []
      · subst ht; simp [maxDim]
      · rw [ih ht (fun b hb => h b (List.mem_cons_of_mem _ hb))]; simp
  unfold topAtoms
  rw [hm]
  apply List.filter_eq_self.2
  intro a ha
  simpa using h a ha

theorem polyAtoms_top (len : Pt → Pt → Rat) (p : Poly) (hA : twiceAreaText p.ext ≠ 0) (hnet : netArea p ≠ 0) :
    topAtoms (polyAtoms len p) = polyAtoms len p := by
  apply topAtoms_all3
  · rw [polyAtoms_areal len p hA hnet]; simp
  · rw [polyAtoms_areal len p hA hnet]
    intro a ha
    rcases List.mem_cons.1 ha with rfl | ha
    · rfl
    · obtain ⟨h, _, rfl⟩ := List.mem_map.1 ha
      rfl

end Geo.Proofs.C06
