/-
  RELM — **the implementation does not panic** (exact arithmetic): for all operands without a
  zero-length `Line` whose polygon rings are closed, none of the `expect` / `assert!` / slice-index
  failures of `relate` can happen: "node should have been labeled by now", the index computations of
  `EdgeEndBuilder`, "can't create empty edge", "found single null side", "found partial label".
-/
import GeoProofs.Lemmas.RELMTotal3

namespace Geo.Proofs.RELM
open Geo Geo.GG Geo.RI Geo.Proofs.Kernel Geo.Proofs.Spec

/-! ### the node map before the edge ends -/

/-- all the updates that build the node map, in order -/
def allUpds (ga gb : RGraph) : List Upd :=
  inUpds 0 ga.edges ++ inUpds 1 gb.edges ++ cpUpds 0 (sortNodes ga.nodes) ++ cpUpds 1 (sortNodes gb.nodes)

theorem labeledNodes_eq (a b : Geom) (ga gb : RGraph)
    (ha : (sortNodes ga.nodes).all (fun g => (g.label.onPos 0).isSome) = true)
    (hb : (sortNodes gb.nodes).all (fun g => (g.label.onPos 1).isSome) = true) :
    labeledNodes a b ga gb = some ((applyU [] (allUpds ga gb)).map (labelIsolatedNode a b)) := by
  unfold labeledNodes allUpds
  simp only [copyNodes_eq, intersectionNodes_eq, ha, hb, if_true, applyU_append]

/-- a slot function that leaves a point slot labelled -/
def GoodSlotFn (f : TopoPos → TopoPos) : Prop := ∀ x, ∃ y, f (.lineOrPoint x) = .lineOrPoint (some y)

theorem goodSlotFn_inT (ep : Option Pos) : GoodSlotFn (inT ep) := by
  intro x
  unfold inT
  by_cases h : (ep == some Pos.onBoundary) = true
  · simp only [h, if_true]
    cases x with
    | none => exact ⟨_, rfl⟩
    | some p => cases p <;> exact ⟨_, rfl⟩
  · simp only [h, Bool.false_eq_true, if_false]
    cases x with
    | none => exact ⟨_, rfl⟩
    | some p => exact ⟨p, rfl⟩

theorem goodSlotFn_setOn (p : Pos) : GoodSlotFn (fun t => t.setOn p) := fun _ => ⟨p, rfl⟩

/-- a point label with at least one slot set -/
def NodeQ (n : RNode) : Prop := LineLabel n.label ∧ n.label.geometryCount ≥ 1

theorem nodeQ_slotUpd {idx : Nat} {f : TopoPos → TopoPos} (hf : GoodSlotFn f) (n : RNode) (h : LineLabel n.label) :
    NodeQ (slotUpd idx f n) := by
  obtain ⟨⟨x, hx⟩, ⟨y, hy⟩⟩ := h
  cases n with | mk c l st =>
  cases l with | mk ta tb =>
  simp only at hx hy
  subst hx hy
  unfold slotUpd mapSlot Label.set Label.get NodeQ LineLabel Label.geometryCount
  by_cases hi : idx = 0
  · obtain ⟨z, hz⟩ := hf x
    simp only [hi, if_true, hz]
    exact ⟨⟨⟨_, rfl⟩, ⟨_, rfl⟩⟩, by simp [TopoPos.isEmpty]⟩
  · obtain ⟨z, hz⟩ := hf y
    simp only [hi, if_false, hz]
    exact ⟨⟨⟨_, rfl⟩, ⟨_, rfl⟩⟩, by simp [TopoPos.isEmpty]⟩

theorem applyU_forall {Q : RNode → Prop} : ∀ (us : List Upd) (ns : List RNode), (∀ n ∈ ns, Q n) →
    (∀ u ∈ us, ∀ n, Q n → Q (u.2 n)) → (∀ u ∈ us, Q (u.2 (RNode.new u.1))) → ∀ n ∈ applyU ns us, Q n
  | [], _, h, _, _ => h
  | u :: us, ns, h, hf, hnew =>
      applyU_forall us _
        (upsertR_forall u.1 u.2 ns h (fun n hn _ => hf u (List.mem_cons_self ..) n hn) (hnew u (List.mem_cons_self ..)))
        (fun v hv => hf v (List.mem_cons_of_mem _ hv)) (fun v hv => hnew v (List.mem_cons_of_mem _ hv))

/-- good updates of a slot -/
def GoodUpds (us : List Upd) : Prop := ∀ u ∈ us, ∃ idx f, GoodSlotFn f ∧ u.2 = slotUpd idx f

theorem goodUpds_in (idx : Nat) (es : List REdge) : GoodUpds (inUpds idx es) := by
  intro u hu
  simp only [inUpds, List.mem_flatMap, List.mem_map] at hu
  obtain ⟨e, _, ei, _, rfl⟩ := hu
  exact ⟨idx, _, goodSlotFn_inT _, rfl⟩

theorem goodUpds_cp (idx : Nat) (gs : List Node) : GoodUpds (cpUpds idx gs) := by
  intro u hu
  simp only [cpUpds, List.mem_filterMap, Option.map_eq_some_iff] at hu
  obtain ⟨g, _, p, _, rfl⟩ := hu
  exact ⟨idx, _, goodSlotFn_setOn p, rfl⟩

theorem GoodUpds.append {a b : List Upd} (ha : GoodUpds a) (hb : GoodUpds b) : GoodUpds (a ++ b) := by
  intro u hu
  rcases List.mem_append.1 hu with h | h
  · exact ha u h
  · exact hb u h

theorem goodUpds_all (ga gb : RGraph) : GoodUpds (allUpds ga gb) :=
  (((goodUpds_in 0 _).append (goodUpds_in 1 _)).append (goodUpds_cp 0 _)).append (goodUpds_cp 1 _)

theorem GoodUpds.coordPres {us : List Upd} (h : GoodUpds us) : CoordPres us := by
  intro u hu n
  obtain ⟨idx, f, _, hf⟩ := h u hu
  rw [hf]; rfl

theorem applyU_nodeQ {us : List Upd} (h : GoodUpds us) : ∀ n ∈ applyU [] us, NodeQ n := by
  apply applyU_forall (Q := NodeQ) us [] (fun n hn => by cases hn)
  · intro u hu n hn
    obtain ⟨idx, f, hgf, hf⟩ := h u hu
    rw [hf]; exact nodeQ_slotUpd hgf n hn.1
  · intro u hu
    obtain ⟨idx, f, hgf, hf⟩ := h u hu
    rw [hf]; exact nodeQ_slotUpd hgf _ lineLabel_emptyLine

theorem iso_count {a b : Geom} {n : RNode} (h : NodeQ n) :
    LineLabel (labelIsolatedNode a b n).label ∧ (labelIsolatedNode a b n).label.geometryCount ≥ 2 := by
  refine ⟨lineLabel_labelIsolatedNode a b n h.1, ?_⟩
  obtain ⟨⟨⟨x, hx⟩, ⟨y, hy⟩⟩, hc⟩ := h
  cases n with | mk c l st =>
  cases l with | mk ta tb =>
  simp only at hx hy
  subst hx hy
  unfold labelIsolatedNode
  cases x <;> cases y <;>
    simp [Label.geometryCount, TopoPos.isEmpty, Label.isEmptyAt, Label.get, Label.setAll, Label.set, TopoPos.setAll] at hc ⊢

/-! ### the node loop -/

theorem nodesAtoms_isSome (a b : Geom) : ∀ (ns : List RNode),
    (∀ n ∈ ns, n.label.geometryCount ≥ 2 ∧ (starLabels a b n.coord n.star).isSome) → (nodesAtoms a b ns).isSome
  | [], _ => rfl
  | n :: ns, h => by
      obtain ⟨hc, hs⟩ := h n (List.mem_cons_self ..)
      obtain ⟨ls, hls⟩ := Option.isSome_iff_exists.1 hs
      have ih := nodesAtoms_isSome a b ns (fun x hx => h x (List.mem_cons_of_mem _ hx))
      obtain ⟨rest, hrest⟩ := Option.isSome_iff_exists.1 ih
      simp only [nodesAtoms, hls, hc, if_true, hrest, Option.map_some, Option.isSome_some]

theorem starInsert_forall_ends {P : EdgeEnd → Prop} (ar : Arith) (e : EdgeEnd) (he : P e) :
    ∀ (s : List Bundle), (∀ bd ∈ s, ∀ x ∈ bd.ends, P x) → ∀ bd ∈ starInsert ar e s, ∀ x ∈ bd.ends, P x
  | [], _ => by
      intro bd hbd x hx
      simp only [starInsert, List.mem_singleton] at hbd
      subst hbd
      simp only [List.mem_singleton] at hx
      subst hx; exact he
  | b :: bs, hs => by
      intro bd hbd x hx
      simp only [starInsert] at hbd
      split at hbd
      · simp only [List.mem_cons] at hbd
        rcases hbd with rfl | hbd
        · exact hs _ (List.mem_cons_self ..) x hx
        · exact starInsert_forall_ends ar e he bs (fun bd hbd => hs bd (List.mem_cons_of_mem _ hbd)) bd hbd x hx
      · simp only [List.mem_cons] at hbd
        rcases hbd with rfl | hbd
        · simp only [List.mem_append, List.mem_singleton] at hx
          rcases hx with hx | rfl
          · exact hs _ (List.mem_cons_self ..) x hx
          · exact he
        · exact hs bd (List.mem_cons_of_mem _ hbd) x hx
      · simp only [List.mem_cons] at hbd
        rcases hbd with rfl | rfl | hbd
        · simp only [List.mem_singleton] at hx
          subst hx; exact he
        · exact hs _ (List.mem_cons_self ..) x hx
        · exact hs bd (List.mem_cons_of_mem _ hbd) x hx

/-- inserting edge ends that start at nodes of the map (membership form) -/
theorem insertEdgeEnds_present' (ar : Arith) {P : RNode → Prop} :
    ∀ (l : List EdgeEnd) {ns : List RNode}, (∀ n, ∀ e ∈ l, P n → P { n with star := starInsert ar e n.star }) →
      SortedR ns → (∀ x ∈ l, (findR x.c0 ns).isSome) → (∀ n ∈ ns, P n) →
      SortedR (insertEdgeEnds ar l ns) ∧ (∀ c, (findR c (insertEdgeEnds ar l ns)).isSome ↔ (findR c ns).isSome) ∧
        ∀ n ∈ insertEdgeEnds ar l ns, P n
  | [], _, _, hs, _, h => ⟨hs, fun _ => Iff.rfl, h⟩
  | x :: l, ns, hP, hs, hl, h => by
      simp only [insertEdgeEnds]
      have hs' := upsertR_sorted x.c0 (fun n => { n with star := starInsert ar x n.star }) (fun _ => rfl) ns hs
      have hx := hl x (List.mem_cons_self ..)
      have hkeep : ∀ c, (findR c (upsertR x.c0 (fun n => { n with star := starInsert ar x n.star }) ns)).isSome ↔
          (findR c ns).isSome := by
        intro c
        rw [findR_isSome_upsertR x.c0 c (fun n => { n with star := starInsert ar x n.star }) (fun _ => rfl) hs]
        constructor
        · rintro (h1 | rfl)
          · exact h1
          · exact hx
        · exact Or.inl
      obtain ⟨r1, r2, r3⟩ := insertEdgeEnds_present' ar l (fun n e he => hP n e (List.mem_cons_of_mem _ he)) hs'
        (fun y hy => (hkeep y.c0).2 (hl y (List.mem_cons_of_mem _ hy)))
        (upsertR_forall_present x.c0 (fun n => { n with star := starInsert ar x n.star }) (fun _ => rfl) hs hx h
          (fun n hn _ => hP n x (List.mem_cons_self ..) hn))
      exact ⟨r1, fun c => (r2 c).trans (hkeep c), r3⟩

/-! ### isolated edges -/

theorem labelIsolatedEdges_isSome (t : Geom) (idx : Nat) : ∀ (es : List REdge),
    (∀ e ∈ es, ∃ f, e.coords.head? = some f) → (labelIsolatedEdges t idx es).isSome
  | [], _ => rfl
  | e :: es, h => by
      have ih := labelIsolatedEdges_isSome t idx es (fun x hx => h x (List.mem_cons_of_mem _ hx))
      obtain ⟨rest, hrest⟩ := Option.isSome_iff_exists.1 ih
      obtain ⟨f, hf⟩ := h e (List.mem_cons_self ..)
      simp only [labelIsolatedEdges]
      split
      · have hl : ∃ l, labelIsolatedEdge t idx e = some l := by
          unfold labelIsolatedEdge
          rw [hf]
          split <;> exact ⟨_, rfl⟩
        obtain ⟨l, hl⟩ := hl
        rw [hl, hrest]
        rfl
      · exact ih

end Geo.Proofs.RELM
