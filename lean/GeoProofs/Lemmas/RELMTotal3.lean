/-
  RELM — the implementation does not panic, part 3: the edge ends exist and start at nodes of the
  node map; every node of the node map is labelled for both operands.
-/
import GeoProofs.Lemmas.RELMTotal2
import GeoProofs.Lemmas.RELMEnds2

namespace Geo.Proofs.RELM
open Geo Geo.GG Geo.RI Geo.Proofs.Kernel

/-! ### `EdgeEndBuilder` never indexes out of range -/

theorem validRec_seg_lt {cs : List Pt} {r : EI} (h : ValidRec cs r) : ∃ c, cs[r.seg]? = some c := by
  rcases h with ⟨_, hc⟩ | ⟨_, a, _, ha, _⟩
  · exact ⟨_, hc⟩
  · exact ⟨a, ha⟩

theorem endForPrev_isSome {e : REdge} {cur : EI} (prev : Option EI) (hc : ValidRec e.coords cur) :
    ∃ l, endForPrev e cur prev = some l ∧ ∀ x ∈ l, x.c0 = cur.coord ∧ x.label = e.label.flip := by
  unfold endForPrev
  simp only
  obtain ⟨c, hcs⟩ := validRec_seg_lt hc
  by_cases hz : (cur.dist == 0) = true
  · rw [if_pos hz]
    by_cases hs0 : (cur.seg == 0) = true
    · rw [if_pos hs0]; exact ⟨[], rfl, fun x hx => by cases hx⟩
    · rw [if_neg hs0]
      have hk : cur.seg ≠ 0 := by simpa using hs0
      have hlt : cur.seg - 1 < e.coords.length := by
        have := (List.getElem?_eq_some_iff.1 hcs).1
        omega
      rw [List.getElem?_eq_getElem hlt]
      exact ⟨_, rfl, fun x hx => by simp only [List.mem_singleton] at hx; subst hx; exact ⟨rfl, rfl⟩⟩
  · rw [if_neg hz, hcs]
    exact ⟨_, rfl, fun x hx => by simp only [List.mem_singleton] at hx; subst hx; exact ⟨rfl, rfl⟩⟩

theorem endForNext_isSome {e : REdge} {cur : EI} (next : Option EI) (hc : ValidRec e.coords cur)
    (hn : ∀ n, next = some n → ValidRec e.coords n ∧ KeyLt cur n) :
    ∃ l, endForNext e cur next = some l ∧ ∀ x ∈ l, x.c0 = cur.coord ∧ x.label = e.label := by
  unfold endForNext
  simp only
  split
  · exact ⟨[], rfl, fun x hx => by cases hx⟩
  · rename_i hcond
    have hcase : cur.seg + 1 < e.coords.length := by
      by_contra hge
      have hge' : cur.seg + 1 ≥ e.coords.length := not_lt.1 hge
      cases next with
      | none => simp [hge'] at hcond
      | some n =>
        obtain ⟨hvn, hlt⟩ := hn n rfl
        obtain ⟨_, hcs⟩ := validRec_seg_lt hc
        have hcl := (List.getElem?_eq_some_iff.1 hcs).1
        obtain ⟨_, hns⟩ := validRec_seg_lt hvn
        have hnl := (List.getElem?_eq_some_iff.1 hns).1
        have hn0 := validRec_dist_nonneg hc
        rcases hlt with hlt | ⟨hseg, hlt⟩
        · omega
        · -- same segment, larger distance: the record names the next vertex
          have hne : n.dist ≠ 0 := by intro h0; rw [h0] at hlt; linarith
          rcases hvn with ⟨h0, _⟩ | ⟨_, _, b, _, hb, _⟩
          · exact hne h0
          · have := (List.getElem?_eq_some_iff.1 hb).1
            omega
    rw [List.getElem?_eq_getElem hcase]
    exact ⟨_, rfl, fun x hx => by simp only [List.mem_singleton] at hx; subst hx; exact ⟨rfl, rfl⟩⟩

theorem endsLoop_isSome (e : REdge) : ∀ (eis : List EI) (prev : Option EI),
    SortedEI eis → (∀ r ∈ eis, ValidRec e.coords r) →
    ∃ l, endsLoop e prev eis = some l ∧
      ∀ x ∈ l, (∃ r ∈ eis, x.c0 = r.coord) ∧ (x.label = e.label ∨ x.label = e.label.flip)
  | [], _, _, _ => ⟨[], rfl, fun x hx => by cases hx⟩
  | cur :: rest, prev, hs, hv => by
      have hsc := List.pairwise_cons.1 hs
      have hvc := hv cur (List.mem_cons_self ..)
      obtain ⟨a, ha, hpa⟩ := endForPrev_isSome (e := e) prev hvc
      obtain ⟨b, hb, hpb⟩ := endForNext_isSome (e := e) rest.head? hvc (by
        intro n hn
        cases rest with
        | nil => simp at hn
        | cons n' rest' =>
          simp only [List.head?_cons, Option.some.injEq] at hn
          subst hn
          exact ⟨hv _ (List.mem_cons_of_mem _ (List.mem_cons_self ..)), hsc.1 _ (List.mem_cons_self ..)⟩)
      obtain ⟨c, hc, hpc⟩ := endsLoop_isSome e rest (some cur) hsc.2 (fun r hr => hv r (List.mem_cons_of_mem _ hr))
      refine ⟨a ++ b ++ c, by simp only [endsLoop, ha, hb, hc], ?_⟩
      intro x hx
      simp only [List.mem_append] at hx
      rcases hx with (hx | hx) | hx
      · exact ⟨⟨cur, List.mem_cons_self .., (hpa x hx).1⟩, Or.inr (hpa x hx).2⟩
      · exact ⟨⟨cur, List.mem_cons_self .., (hpb x hx).1⟩, Or.inl (hpb x hx).2⟩
      · obtain ⟨⟨r, hr, hxr⟩, hl⟩ := hpc x hx
        exact ⟨⟨r, List.mem_cons_of_mem _ hr, hxr⟩, hl⟩

/-- where the edge ends of a list of edges start, and what they are labelled with -/
theorem endsForEdges_isSome : ∀ (es : List REdge), (∀ e ∈ es, EdgeWF e) →
    ∃ l, endsForEdges es = some l ∧
      ∀ x ∈ l, ∃ e ∈ es, (x.label = e.label ∨ x.label = e.label.flip) ∧
        ((∃ r ∈ e.eis, x.c0 = r.coord) ∨ e.coords.head? = some x.c0 ∨ e.coords.getLast? = some x.c0)
  | [], _ => ⟨[], rfl, fun x hx => by cases hx⟩
  | e :: es, hw => by
      have he := hw e (List.mem_cons_self ..)
      obtain ⟨hs', hv'⟩ := addEndpoints_wf he.2.1 he.2.2
      obtain ⟨a, ha, hpa⟩ := endsLoop_isSome e e.addEndpoints.eis none hs' hv'
      obtain ⟨b, hb, hpb⟩ := endsForEdges_isSome es (fun e' he' => hw e' (List.mem_cons_of_mem _ he'))
      refine ⟨a ++ b, by simp only [endsForEdges, endsForEdge, ha, hb], ?_⟩
      intro x hx
      rcases List.mem_append.1 hx with hx | hx
      · obtain ⟨⟨r, hr, hxr⟩, hl⟩ := hpa x hx
        refine ⟨e, List.mem_cons_self .., hl, ?_⟩
        -- `r` is a recorded intersection or one of the two end points
        unfold REdge.addEndpoints at hr
        cases hh : e.coords.head? with
        | none => rw [hh] at hr; exact Or.inl ⟨r, hr, hxr⟩
        | some f =>
          cases hl' : e.coords.getLast? with
          | none => rw [hh, hl'] at hr; exact Or.inl ⟨r, hr, hxr⟩
          | some lst =>
            rw [hh, hl'] at hr
            simp only at hr
            rcases eiInsert_mem_subset _ r _ hr with rfl | hr
            · exact Or.inr (Or.inr (by rw [hxr]))
            · rcases eiInsert_mem_subset _ r _ hr with rfl | hr
              · exact Or.inr (Or.inl (by rw [hxr]))
              · exact Or.inl ⟨r, hr, hxr⟩
      · obtain ⟨e', he', h'⟩ := hpb x hx
        exact ⟨e', List.mem_cons_of_mem _ he', h'⟩

/-! ### coordinates of the node map -/

theorem findR_isSome_applyU (c : Pt) : ∀ (us : List Upd) (ns : List RNode), CoordPres us → SortedR ns →
    ((findR c (applyU ns us)).isSome ↔ (findR c ns).isSome ∨ c ∈ us.map (·.1)) := by
  intro us ns hp hs
  rw [findR_applyU c us ns hp hs]
  generalize findR c ns = o
  induction us generalizing o with
  | nil => simp
  | cons u us ih =>
    simp only [List.foldl_cons, List.map_cons, List.mem_cons]
    rw [ih (fun v hv => hp v (List.mem_cons_of_mem _ hv))]
    unfold stepF
    by_cases hc : c = u.1
    · simp [hc]
    · simp [hc]

/-- an insertion at a coordinate that is present only updates that node -/
theorem upsertR_forall_present {P : RNode → Prop} (c : Pt) (f : RNode → RNode) (hf : ∀ n, (f n).coord = n.coord)
    {ns : List RNode} (hs : SortedR ns) (hc : (findR c ns).isSome) (h : ∀ n ∈ ns, P n)
    (hP : ∀ n, P n → n.coord = c → P (f n)) : ∀ n ∈ upsertR c f ns, P n := by
  intro n hn
  have hs' := upsertR_sorted c f hf ns hs
  have hfind := findR_of_mem hs' hn
  rw [findR_upsertR c n.coord f hf ns hs] at hfind
  obtain ⟨n0, hn0⟩ := Option.isSome_iff_exists.1 hc
  by_cases hcc : n.coord = c
  · rw [if_pos hcc, hn0] at hfind
    simp only [Option.getD_some, Option.some.injEq] at hfind
    rw [← hfind]
    exact hP n0 (h n0 (findR_mem hn0).1) (findR_mem hn0).2
  · rw [if_neg hcc] at hfind
    exact h n (findR_mem hfind).1

theorem findR_isSome_upsertR (c c' : Pt) (f : RNode → RNode) (hf : ∀ n, (f n).coord = n.coord) {ns : List RNode}
    (hs : SortedR ns) : (findR c' (upsertR c f ns)).isSome ↔ (findR c' ns).isSome ∨ c' = c := by
  rw [findR_upsertR c c' f hf ns hs]
  by_cases h : c' = c <;> simp [h]

/-- inserting edge ends that start at nodes of the map: no node is created, labels stay, stars grow -/
theorem insertEdgeEnds_present (ar : Arith) {P : RNode → Prop}
    (hP : ∀ n e, P n → P { n with star := starInsert ar e n.star }) :
    ∀ (l : List EdgeEnd) {ns : List RNode}, SortedR ns → (∀ x ∈ l, (findR x.c0 ns).isSome) → (∀ n ∈ ns, P n) →
      ∀ n ∈ insertEdgeEnds ar l ns, P n
  | [], _, _, _, h => h
  | x :: l, ns, hs, hl, h => by
      simp only [insertEdgeEnds]
      have hs' := upsertR_sorted x.c0 (fun n => { n with star := starInsert ar x n.star }) (fun _ => rfl) ns hs
      apply insertEdgeEnds_present ar hP l hs'
      · intro y hy
        rw [findR_isSome_upsertR x.c0 y.c0 (fun n => { n with star := starInsert ar x n.star }) (fun _ => rfl) hs]
        exact Or.inl (hl y (List.mem_cons_of_mem _ hy))
      · exact upsertR_forall_present x.c0 (fun n => { n with star := starInsert ar x n.star }) (fun _ => rfl) hs
          (hl x (List.mem_cons_self ..)) h (fun n hn _ => hP n x hn)

end Geo.Proofs.RELM
