/-
  GeoProofs.Lemmas.C12QSimple — what `ringSimple` (GeoModel/Valid.lean) gives the polygon scan:
  two edges at different positions of a simple ring share only vertices, so on a level that avoids
  the vertices the crossing abscissae are pairwise distinct (`crossings_nodup_of_simple`,
  `hits_nodup_of_simple`).
-/
import GeoModel.Valid
import GeoProofs.Lemmas.C12QScan
import Mathlib.Tactic.Linarith
import Mathlib.Tactic.Ring

namespace Geo.Proofs.C12
open Geo Geo.IP Geo.Proofs.Kernel

/-! ### `dedupConsecutive` -/

theorem dedup_head : ∀ l : List Pt, (dedupConsecutive l).head? = l.head?
  | [] => rfl
  | [_] => rfl
  | a :: b :: rest => by
    simp only [dedupConsecutive]
    by_cases h : (a == b) = true
    · rw [if_pos h, dedup_head (b :: rest)]
      simp [beq_iff_eq.1 h]
    · rw [if_neg h]; rfl

theorem dedup_cons_ne_nil (b : Pt) (rest : List Pt) :
    ∃ t, dedupConsecutive (b :: rest) = b :: t := by
  have h := dedup_head (b :: rest)
  cases hd : dedupConsecutive (b :: rest) with
  | nil => rw [hd] at h; simp at h
  | cons c t =>
    rw [hd] at h
    simp only [List.head?_cons, Option.some.injEq] at h
    exact ⟨t, by rw [h]⟩

theorem dedup_getLast : ∀ l : List Pt, (dedupConsecutive l).getLast? = l.getLast?
  | [] => rfl
  | [_] => rfl
  | a :: b :: rest => by
    have ih := dedup_getLast (b :: rest)
    simp only [dedupConsecutive]
    by_cases h : (a == b) = true
    · rw [if_pos h, ih, List.getLast?_cons_cons]
    · rw [if_neg h]
      obtain ⟨t, ht⟩ := dedup_cons_ne_nil b rest
      rw [ht] at ih ⊢
      rw [List.getLast?_cons_cons, ih, List.getLast?_cons_cons]

theorem dedup_mem : ∀ (l : List Pt) (v : Pt), v ∈ dedupConsecutive l → v ∈ l
  | [], _, h => h
  | [_], _, h => h
  | a :: b :: rest, v, h => by
    simp only [dedupConsecutive] at h
    by_cases hab : (a == b) = true
    · rw [if_pos hab] at h; exact List.mem_cons_of_mem _ (dedup_mem _ v h)
    · rw [if_neg hab] at h
      rcases List.mem_cons.1 h with rfl | h
      · simp
      · exact List.mem_cons_of_mem _ (dedup_mem _ v h)

theorem crossXs_degenerate (y : Rat) (a : Pt) : crossXs y (a, a) = [] := by
  unfold crossXs
  rw [if_neg]
  rw [sgnE_ne_zero_iff]
  rintro (⟨h1, h2⟩ | ⟨h1, h2⟩) <;> simp only at h1 h2 <;> linarith

/-- zero-length edges contribute no crossing -/
theorem crossings_dedup (y : Rat) :
    ∀ l : List Pt, (segs (dedupConsecutive l)).flatMap (crossXs y) = (segs l).flatMap (crossXs y)
  | [] => rfl
  | [_] => rfl
  | a :: b :: rest => by
    have ih := crossings_dedup y (b :: rest)
    simp only [dedupConsecutive]
    by_cases hab : (a == b) = true
    · rw [if_pos hab, ih]
      have : a = b := beq_iff_eq.1 hab
      subst this
      simp only [segs, List.flatMap_cons, crossXs_degenerate, List.nil_append]
    · rw [if_neg hab]
      obtain ⟨t, ht⟩ := dedup_cons_ne_nil b rest
      rw [ht] at ih ⊢
      simp only [segs, List.flatMap_cons]
      rw [ih]

/-! ### `allPairs`, `adjacentOk`, `ringSimple` -/

theorem allPairs_spec {ss : List (Pt × Pt)} {ok : Nat → Nat → (Pt × Pt) → (Pt × Pt) → Bool}
    (h : allPairs ss ok = true) {i j : Nat} (hij : i < j) {s t : Pt × Pt}
    (hs : ss[i]? = some s) (ht : ss[j]? = some t) : ok i j s t = true := by
  unfold allPairs at h
  simp only at h
  rw [List.all_eq_true] at h
  have h1 := h (s, i) (List.mem_zipIdx_iff_getElem?.2 hs)
  simp only at h1
  rw [List.all_eq_true] at h1
  have h2 := h1 (t, j) (List.mem_zipIdx_iff_getElem?.2 ht)
  simpa [hij] using h2

theorem adjacentOk_spec {s t : Pt × Pt} {v : Pt} (h : adjacentOk s t v = true) (z : Pt)
    (hz1 : SegMem z s.1 s.2) (hz2 : SegMem z t.1 t.2) : z = v := by
  unfold adjacentOk at h
  cases hli : lineIntersection s.1 s.2 t.1 t.2 with
  | none => rw [hli] at h; simp at h
  | some r =>
    cases r with
    | single p f =>
      rw [hli] at h
      simp only [beq_iff_eq] at h
      rw [← h]
      exact (Geo.Proofs.C11.li_single_exact _ _ _ _ _ _ hli z).1 ⟨hz1, hz2⟩
    | collinear u w => rw [hli] at h; simp at h

/-- a simple ring: its merged coordinate list is closed, has at least three edges, and two edges
at different positions share only vertices -/
theorem ringSimple_spec {r0 : List Pt} (h : ringSimple r0 = true) :
    (dedupConsecutive r0).head? = (dedupConsecutive r0).getLast? ∧
    3 ≤ (segs (dedupConsecutive r0)).length ∧
    ∀ i j : Nat, i < j → ∀ s t : Pt × Pt, (segs (dedupConsecutive r0))[i]? = some s →
      (segs (dedupConsecutive r0))[j]? = some t →
      ∀ z, SegMem z s.1 s.2 → SegMem z t.1 t.2 → z ∈ dedupConsecutive r0 := by
  unfold ringSimple at h
  simp only [Bool.and_eq_true, decide_eq_true_eq] at h
  obtain ⟨⟨h1, h2⟩, h3⟩ := h
  refine ⟨h1, h2, ?_⟩
  intro i j hij s t hs ht z hz1 hz2
  have hok := allPairs_spec h3 hij hs ht
  have ms := Geo.Proofs.Spec.mem_of_mem_segs (List.mem_of_getElem? hs)
  have mt := Geo.Proofs.Spec.mem_of_mem_segs (List.mem_of_getElem? ht)
  split at hok
  · rw [adjacentOk_spec hok z hz1 hz2]; exact ms.2
  · split at hok
    · rw [adjacentOk_spec hok z hz2 hz1]; exact mt.2
    · exfalso
      have : lineLine s.1 s.2 t.1 t.2 = true := (lineLine_iff _ _ _ _).2 ⟨z, hz1, hz2⟩
      rw [this] at hok; simp at hok

/-- on a level that avoids the vertices, the crossing abscissae of a simple ring are pairwise
distinct -/
theorem crossings_nodup_of_simple {r0 : List Pt} (h : ringSimple r0 = true) (y : Rat)
    (hy : ∀ v ∈ r0, v.y ≠ y) : ((segs r0).flatMap (crossXs y)).Nodup := by
  rw [← crossings_dedup]
  obtain ⟨_, _, hp⟩ := ringSimple_spec h
  rw [List.nodup_flatMap]
  refine ⟨fun e _ => by unfold crossXs; split <;> simp, ?_⟩
  rw [List.pairwise_iff_getElem]
  intro i j hi hj hij
  show List.Disjoint (crossXs y _) (crossXs y _)
  intro x hx1 hx2
  have key : ∀ e : Pt × Pt, x ∈ crossXs y e → sgnE y e ≠ 0 ∧ x = xAt y e := by
    intro e hx
    unfold crossXs at hx
    by_cases h0 : sgnE y e ≠ 0
    · rw [if_pos h0] at hx; exact ⟨h0, by simpa using hx⟩
    · rw [if_neg h0] at hx; simp at hx
  obtain ⟨s1, e1⟩ := key _ hx1
  obtain ⟨s2, e2⟩ := key _ hx2
  have z1 : SegMem ⟨x, y⟩ ((segs (dedupConsecutive r0))[i]).1 ((segs (dedupConsecutive r0))[i]).2 := by
    rw [e1]; exact xAt_segMem s1
  have z2 : SegMem ⟨x, y⟩ ((segs (dedupConsecutive r0))[j]).1 ((segs (dedupConsecutive r0))[j]).2 := by
    rw [e2]; exact xAt_segMem s2
  have hm := hp i j hij _ _ (List.getElem?_eq_getElem hi) (List.getElem?_eq_getElem hj) ⟨x, y⟩ z1 z2
  exact hy _ (dedup_mem _ _ hm) rfl

/-! ### the model's hit list -/

theorem liXs_nodup_of_lt (s e : Pt) (x1 x2 y : Rat) (hs : s.y ≠ y) (hlt : x1 < x2) :
    (liXs (lineIntersection s e ⟨x1, y⟩ ⟨x2, y⟩)).Nodup := by
  cases h : lineIntersection s e ⟨x1, y⟩ ⟨x2, y⟩ with
  | none => simp [liXs]
  | some r =>
    cases r with
    | single pt f => simp [liXs]
    | collinear u v =>
      exfalso
      have hc := (Geo.Proofs.C11.li_collinear_all_collinear _ _ _ _ _ _ h).2.2.1
      rw [orient_col_iff] at hc
      simp only [cross] at hc
      have h0 : (x2 - x1) * (s.y - y) = 0 := by linarith
      rcases mul_eq_zero.1 h0 with h1 | h1
      · linarith
      · exact hs (by linarith)

theorem hitXs_nodup_of_lt (e : Pt × Pt) (x1 x2 y : Rat) (hs : e.1.y ≠ y) (he : e.2.y ≠ y)
    (hlt : x1 < x2) : (hitXs ⟨x1, y⟩ ⟨x2, y⟩ e).Nodup := by
  rw [hitXs_def]
  rcases ordered_cases e with ho | ho
  · rw [ho]; exact liXs_nodup_of_lt _ _ _ _ _ hs hlt
  · rw [ho]; exact liXs_nodup_of_lt _ _ _ _ _ he hlt

/-- the hit abscissae of the scan over a polygon without holes whose exterior ring is simple are
pairwise distinct -/
theorem hits_nodup_of_simple (poly : Poly) (x1 x2 y : Rat) (hholes : poly.ints = [])
    (hsimple : ringSimple poly.ext = true)
    (hy : ∀ v ∈ poly.coords, v.y ≠ y) (hxb : ∀ v ∈ poly.coords, x1 ≤ v.x ∧ v.x ≤ x2)
    (hlt : x1 < x2) : (poly.lines.flatMap (hitXs ⟨x1, y⟩ ⟨x2, y⟩)).Nodup := by
  have hcongr : poly.lines.flatMap (hitXs ⟨x1, y⟩ ⟨x2, y⟩) = poly.lines.flatMap (crossXs y) := by
    apply List.flatMap_congr
    intro e he
    obtain ⟨m1, m2⟩ := mem_lines_coords he
    apply hitXs_eq_crossXs e x1 x2 y (hy _ m1) (hy _ m2)
    · intro h; exact xAt_bounds h (hxb _ m1) (hxb _ m2)
    · exact hitXs_nodup_of_lt e x1 x2 y (hy _ m1) (hy _ m2) hlt
  rw [hcongr, lines_eq]
  simp only [Poly.rings, hholes, List.flatMap_cons, List.flatMap_nil, List.append_nil]
  apply crossings_nodup_of_simple hsimple
  intro v hv
  exact hy v (by unfold Poly.coords; exact List.mem_append_left _ hv)

/-- a simple ring is closed as written (merging repeated coordinates keeps both ends) -/
theorem closed_of_simple {r0 : List Pt} (h : ringSimple r0 = true) : r0.head? = r0.getLast? := by
  have := (ringSimple_spec h).1
  rwa [dedup_head, dedup_getLast] at this

end Geo.Proofs.C12
